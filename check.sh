#!/bin/bash
# usage: ./check.sh <property id> quick|thorough
# Rebuilds the harness against /repo's current working tree (replace directive in
# harness/go.mod, build tag "verif" turns the hooks on) and runs the property's monitor.
# exit 0: held on everything explored (KNOWN-FINDING lines allowed); exit 1: VIOLATION line(s);
# exit 2: inconclusive / harness problem (never reported as "held").
set -u
ID="${1:?property id}"
TIER="${2:-quick}"
export GOFLAGS=-mod=mod GOPROXY=off GOSUMDB=off GOTOOLCHAIN=local
ROOT="$(cd "$(dirname "$0")" && pwd)"
cd "$ROOT/harness" || exit 2
mkdir -p "$ROOT/bin" "$ROOT/work" "$ROOT/replay" "$ROOT/evidence"
BIN="$ROOT/bin/vcheck-$ID"
if ! go build -tags verif -o "$BIN" ./cmd/vcheck 2> "$ROOT/work/build-$ID.log"; then
  cat "$ROOT/work/build-$ID.log"
  echo "BUILD FAILED for $ID (the tree under /repo does not compile with the harness)"
  exit 2
fi
if [ "$ID" = "C11" ]; then
  if ! go build -race -tags verif -o "$BIN-race" ./cmd/vcheck 2> "$ROOT/work/build-$ID-race.log"; then
    cat "$ROOT/work/build-$ID-race.log"
    echo "RACE BUILD FAILED for $ID"
    exit 2
  fi
fi
exec "$BIN" -prop "$ID" -tier "$TIER" -root "$ROOT"
