// Package mon holds helpers shared by the property monitors: complete observation of a
// client through its public API, comparison with the model, generators.
package mon

import (
	"fmt"
	"sort"
	"strings"

	"verifharness/adapt"
	"verifharness/model"
	"verifharness/val"
)

// KeyLog remembers every key ever used per table so that "GetItem of every key used so
// far" is possible.
type KeyLog map[string]map[string]val.Item

// Add records a key.
func (k KeyLog) Add(table string, key val.Item) {
	if key == nil {
		return
	}
	if k[table] == nil {
		k[table] = map[string]val.Item{}
	}
	k[table][key.Canon()] = key.Clone()
}

// Keys returns the recorded keys of a table in canonical order.
func (k KeyLog) Keys(table string) []val.Item {
	cs := []string{}
	for c := range k[table] {
		cs = append(cs, c)
	}
	sort.Strings(cs)
	out := []val.Item{}
	for _, c := range cs {
		out = append(out, k[table][c])
	}
	return out
}

// Snapshot reads everything observable about the named tables through the public API and
// renders it canonically: DescribeTable, GetItem of every logged key, base Scan (as a
// set), Scan of every index the description lists (as a set) and the forward Query-less
// iteration order of each index scan. It never consults the model.
func Snapshot(cl adapt.Client, tables []string, keys KeyLog) string {
	var sb strings.Builder
	ts := append([]string{}, tables...)
	sort.Strings(ts)
	for _, t := range ts {
		d := cl.Do(adapt.Op{Kind: adapt.OpDescribe, Table: t})
		if d.Class != adapt.ClsOK || d.Desc == nil {
			fmt.Fprintf(&sb, "table %s: describe=%s\n", t, d.Class)
			continue
		}
		fmt.Fprintf(&sb, "table %s: hash=%s range=%s count=%d\n", t, d.Desc.Hash, d.Desc.Range, d.Desc.Count)
		for _, k := range keys.Keys(t) {
			g := cl.Do(adapt.Op{Kind: adapt.OpGet, Table: t, Key: k})
			fmt.Fprintf(&sb, "  get %s -> %s %s\n", k.Canon(), g.Class, g.Item.Canon())
		}
		s := cl.Do(adapt.Op{Kind: adapt.OpScan, Table: t})
		fmt.Fprintf(&sb, "  scan -> %s n=%d %s\n", s.Class, s.Count, adapt.ItemsSetCanon(s.Items))
		for _, ix := range d.Desc.Indexes {
			is := cl.Do(adapt.Op{Kind: adapt.OpScan, Table: t, Index: ix.Name})
			cnt := "-"
			if ix.HasCnt {
				cnt = fmt.Sprint(ix.Count)
			}
			fmt.Fprintf(&sb, "  index %s (%s,%s local=%v) count=%s scan -> %s n=%d %s\n", ix.Name, ix.Hash, ix.Range, ix.Local, cnt, is.Class, is.Count, adapt.ItemsSetCanon(is.Items))
		}
	}
	return sb.String()
}

// Observe compares everything observable with the model: per table DescribeTable, GetItem
// of every logged key, base scan, every index scan. Returns the first few differences.
func Observe(cl adapt.Client, m *model.Client, keys KeyLog, extraTables []string) []model.Diff {
	var ds []model.Diff
	names := map[string]bool{}
	for n := range m.Tables {
		names[n] = true
	}
	for _, n := range extraTables {
		names[n] = true
	}
	ordered := []string{}
	for n := range names {
		ordered = append(ordered, n)
	}
	sort.Strings(ordered)
	saveFail := m.Fail
	if m.Fail != "" {
		return nil // nothing is observable while a failure is active
	}
	defer func() { m.Fail = saveFail }()
	for _, t := range ordered {
		ds = append(ds, m.Step(adapt.Op{Kind: adapt.OpDescribe, Table: t}, cl.Do(adapt.Op{Kind: adapt.OpDescribe, Table: t}))...)
		mt, ok := m.Tables[t]
		if !ok {
			continue
		}
		for _, k := range keys.Keys(t) {
			op := adapt.Op{Kind: adapt.OpGet, Table: t, Key: k}
			ds = append(ds, m.Step(op, cl.Do(op))...)
		}
		op := adapt.Op{Kind: adapt.OpScan, Table: t}
		ds = append(ds, m.Step(op, cl.Do(op))...)
		for _, ix := range mt.Spec.Indexes {
			op := adapt.Op{Kind: adapt.OpScan, Table: t, Index: ix.Name}
			for _, d := range m.Step(op, cl.Do(op)) {
				d.Rule = "index-" + d.Rule
				ds = append(ds, d)
			}
		}
		if len(ds) > 4 {
			break
		}
	}
	return ds
}
