package mon

import (
	"verifharness/adapt"
	"verifharness/model"
	"verifharness/refmodel"
	"verifharness/val"
)

// Failure describes the first divergence of a history.
type Failure struct {
	Step   int          `json:"step"`   // index of the op after which the divergence was seen
	Phase  string       `json:"phase"`  // "result" (the op's own outcome) or "observe" (state read afterwards)
	Diffs  []model.Diff `json:"diffs"`
	Op     adapt.Op     `json:"op"`
	Got    string       `json:"got"`
	Prefix []adapt.Op   `json:"history"` // ops[0..step]
}

// HistoryStats counts what a history exercised.
type HistoryStats struct {
	Calls int // client calls made (ops + observation reads)
	Steps int
}

// LogKeys records the keys an op touches.
func LogKeys(keys KeyLog, m *model.Client, op adapt.Op) {
	switch op.Kind {
	case adapt.OpPut:
		if t, ok := m.Tables[op.Table]; ok {
			keys.Add(op.Table, t.KeyOf(op.Item))
		}
	case adapt.OpGet, adapt.OpUpdate, adapt.OpDelete:
		if t, ok := m.Tables[op.Table]; ok {
			keys.Add(op.Table, t.KeyOf(op.Key))
		}
	case adapt.OpBatchWrite:
		for _, e := range op.Batch {
			if t, ok := m.Tables[e.Table]; ok {
				if e.Put != nil {
					keys.Add(e.Table, t.KeyOf(e.Put))
				}
				if e.Del != nil {
					keys.Add(e.Table, t.KeyOf(e.Del))
				}
			}
		}
	}
}

// validKey reports whether the logged key is well-formed for the table (only those are
// used for observation reads).
func validKey(m *model.Client, table string, k val.Item) bool {
	t, ok := m.Tables[table]
	if !ok {
		return false
	}
	_, ok = t.KeyCanon(k)
	return ok
}

// RunHistory executes ops on the client, checking each outcome against the model and –
// when observe is set – the complete observable state after every step.
func RunHistory(cl adapt.Client, m *model.Client, ops []adapt.Op, keys KeyLog, observe bool, extraTables []string, trace func(string, ...interface{}), st *HistoryStats) *Failure {
	for i, op := range ops {
		if trace != nil {
			trace("%s %s", cl.Name(), op.String())
		}
		got := cl.Do(op)
		st.Calls++
		st.Steps++
		ds := m.Step(op, got)
		if len(ds) > 0 {
			return &Failure{Step: i, Phase: "result", Diffs: ds, Op: op, Got: got.Short(), Prefix: append([]adapt.Op{}, ops[:i+1]...)}
		}
		// log keys after the step so that tables created by this step are known
		kl := KeyLog{}
		LogKeys(kl, m, op)
		for t, ks := range kl {
			for _, k := range ks {
				if validKey(m, t, k) {
					keys.Add(t, k)
				}
			}
		}
		if observe {
			ds := Observe(cl, m, keys, extraTables)
			st.Calls += 2
			for t := range m.Tables {
				st.Calls += len(keys[t]) + 1 + len(m.Tables[t].Spec.Indexes)
			}
			if len(ds) > 0 {
				return &Failure{Step: i, Phase: "observe", Diffs: ds, Op: op, Got: got.Short(), Prefix: append([]adapt.Op{}, ops[:i+1]...)}
			}
		}
	}
	return nil
}

// OpFeature is a value-free description of an op for signatures.
func OpFeature(op adapt.Op) string {
	f := op.Kind
	switch op.Kind {
	case adapt.OpUpdate:
		if op.UpdAST != nil {
			kinds := map[string]bool{}
			for _, a := range op.UpdAST.Actions {
				kinds[a.Kind] = true
			}
			for _, k := range []string{"SET", "REMOVE", "ADD", "DELETE"} {
				if kinds[k] {
					f += "+" + k
				}
			}
		}
		if op.Cond != "" {
			f += "+cond"
		}
	case adapt.OpPut, adapt.OpDelete:
		if op.Cond != "" {
			f += "+cond"
		}
		if op.RetOld {
			f += "+old"
		}
	case adapt.OpQuery, adapt.OpScan:
		if op.Index != "" {
			f += "+index"
		}
		if op.Filter != "" {
			f += "+filter"
		}
		if op.Limit > 0 {
			f += "+limit"
		}
		if op.Rev {
			f += "+rev"
		}
	}
	return f
}

// SetUpdate builds an UpdateItem op "SET attr = :v".
func SetUpdate(table string, key val.Item, attr string, v val.V) adapt.Op {
	u := &refmodel.Update{Actions: []refmodel.Action{{Kind: "SET", Path: refmodel.P(attr), RHS: &refmodel.UExpr{Kind: "val", Val: ":v"}}}}
	names := map[string]string{}
	txt := u.Render(names, refmodel.RenderOpts{})
	return adapt.Op{Kind: adapt.OpUpdate, Table: table, Key: key, Update: txt, UpdAST: u, Values: val.Item{":v": v}}
}

// RemoveUpdate builds "REMOVE attr".
func RemoveUpdate(table string, key val.Item, attr string) adapt.Op {
	u := &refmodel.Update{Actions: []refmodel.Action{{Kind: "REMOVE", Path: refmodel.P(attr)}}}
	return adapt.Op{Kind: adapt.OpUpdate, Table: table, Key: key, Update: u.Render(map[string]string{}, refmodel.RenderOpts{}), UpdAST: u}
}

// AddUpdate builds "ADD attr :v".
func AddUpdate(table string, key val.Item, attr string, v val.V) adapt.Op {
	u := &refmodel.Update{Actions: []refmodel.Action{{Kind: "ADD", Path: refmodel.P(attr), RHS: &refmodel.UExpr{Kind: "val", Val: ":v"}}}}
	return adapt.Op{Kind: adapt.OpUpdate, Table: table, Key: key, Update: u.Render(map[string]string{}, refmodel.RenderOpts{}), UpdAST: u, Values: val.Item{":v": v}}
}

// WithCond attaches a condition AST to a write op, merging placeholders.
func WithCond(op adapt.Op, c *refmodel.Cond, values val.Item, rr refmodel.RenderOpts) adapt.Op {
	names := map[string]string{}
	for k, v := range op.Names {
		names[k] = v
	}
	op.Cond = c.Render(names, rr)
	op.CondAST = c
	if len(names) > 0 {
		op.Names = names
	}
	if op.Values == nil && len(values) > 0 {
		op.Values = val.Item{}
	}
	for k, v := range values {
		op.Values[k] = v
	}
	return op
}
