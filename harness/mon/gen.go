package mon

import (
	"fmt"
	"math/rand"
	"sort"
	"strings"

	"verifharness/adapt"
	"verifharness/refmodel"
	"verifharness/val"
)

// Rng returns the deterministic PRNG of a case.
func Rng(seed int64, prop string, c int) *rand.Rand {
	h := int64(1469598103934665603)
	for _, b := range []byte(prop) {
		h = (h ^ int64(b)) * 1099511628211
	}
	return rand.New(rand.NewSource(seed*1000003 + h + int64(c)*7919))
}

// Pick returns a random element.
func Pick[T any](r *rand.Rand, xs []T) T { return xs[r.Intn(len(xs))] }

// HostileKeys are near-colliding key strings (the implementation joins renderings with '.').
var HostileKeys = []string{"a", "a.b", "b", "b.c", "a.", ".", "a.b.c", "ab", "A", "a ", "c", "1", "10", "9", "b.", ".c", "a..b", "\\", "a\\", "a\\.b", ".b", "\\.", "a\\\\", "100%", "100%25", "%s", "%v", "a%.0s"}

// SortKeys are sort-key strings that are prefixes of one another / order traps.
var SortKeys = []string{"1", "10", "9", "a", "ab", "abc", "b", "", "B", "a.b", "."}

// Numerals in many notations (all valid DynamoDB numerals).
var Numerals = []string{"0", "1", "-1", "1.0", "01", "1e0", "-0", "10", "9", "9.5", "0.1", "0.2", "0.3", "100", "1E2",
	"9007199254740993", "9007199254740992", "12345678901234567890123456789012345678", "12345678901234567890123456789012345679",
	"1E-130", "9.9E125", "-9.9E125", "0.30000000000000004", "3.14", "2", "3"}

// SmallNumerals behave identically under float64, text and decimal semantics (used where
// numbers are not the subject of the property, so that C12's open findings do not drown
// every other check).
var SmallNumerals = []string{"0", "1", "2", "3", "5", "7", "10", "42", "-1", "-3", "100", "1.5", "2.5", "0.5", "-2.5"}

// GenOpts controls value generation.
type GenOpts struct {
	MaxDepth    int
	Numerals    []string
	NoEmptySet  bool
	ASCII       bool // strings from a small ASCII pool only
	AllowEmptyB bool // empty binary (valid in non-key positions)
	NoEmptyLM   bool // no empty lists/maps (the SDK v2 adapter returns them as NULL: a listed finding of C10)
}

var strPool = []string{"", "a", "b", "ab", "abc", "x", "hello", "A", "a b", "1", "é", "日本", "z\x00z", "a.b", "#x", ":v",
	// characters at the end of the Basic Multilingual Plane and one beyond it: UTF-8 byte order (DynamoDB's order of
	// strings) and UTF-16 code-unit order disagree about them
	"\uffff", "\U0001F44D", "\uff71a"}
var asciiPool = []string{"", "a", "b", "ab", "abc", "x", "hello", "A", "a b", "1", "zz", "ba"}
var binPool = []string{"", "\x00", "\x01", "a", "ab", "\xff", "\x00\x01", "\n", "\x0a\x00", "\x09"}

// Scalar returns a random scalar of the kind.
func Scalar(r *rand.Rand, k val.Kind, o GenOpts) val.V {
	nums := o.Numerals
	if nums == nil {
		nums = SmallNumerals
	}
	switch k {
	case val.KS:
		if o.ASCII {
			return val.Str(Pick(r, asciiPool))
		}
		return val.Str(Pick(r, strPool))
	case val.KN:
		return val.Num(Pick(r, nums))
	case val.KB:
		for {
			b := Pick(r, binPool)
			if b != "" || o.AllowEmptyB {
				return val.Bin(b)
			}
		}
	case val.KBOOL:
		return val.Bool(r.Intn(2) == 0)
	case val.KNULL:
		return val.Null()
	}
	return val.Null()
}

// Value returns a random value tree of at most the given depth.
func Value(r *rand.Rand, depth int, o GenOpts) val.V {
	kinds := []val.Kind{val.KS, val.KN, val.KB, val.KBOOL, val.KNULL, val.KSS, val.KNS, val.KBS}
	if depth > 0 {
		kinds = append(kinds, val.KL, val.KM, val.KL, val.KM)
	}
	return ValueOfKind(r, Pick(r, kinds), depth, o)
}

// ValueOfKind returns a random value of the given kind.
func ValueOfKind(r *rand.Rand, k val.Kind, depth int, o GenOpts) val.V {
	nums := o.Numerals
	if nums == nil {
		nums = SmallNumerals
	}
	switch k {
	case val.KL:
		n := r.Intn(4)
		if o.NoEmptyLM && n == 0 {
			n = 1
		}
		out := val.V{K: val.KL, L: []val.V{}}
		for i := 0; i < n; i++ {
			d := depth - 1
			if d < 0 {
				d = 0
			}
			if depth <= 0 {
				out.L = append(out.L, Scalar(r, Pick(r, []val.Kind{val.KS, val.KN, val.KBOOL, val.KNULL}), o))
			} else {
				out.L = append(out.L, Value(r, d, o))
			}
		}
		return out
	case val.KM:
		n := r.Intn(4)
		if o.NoEmptyLM && n == 0 {
			n = 1
		}
		out := val.V{K: val.KM, M: map[string]val.V{}}
		for i := 0; i < n; i++ {
			name := Pick(r, []string{"x", "y", "z", "k", "size", "a.b", "n"})
			if depth <= 0 {
				out.M[name] = Scalar(r, Pick(r, []val.Kind{val.KS, val.KN, val.KBOOL, val.KNULL}), o)
			} else {
				out.M[name] = Value(r, depth-1, o)
			}
		}
		return out
	case val.KSS:
		return val.V{K: val.KSS, Set: distinct(r, map[bool][]string{true: asciiPool, false: strPool}[o.ASCII], 1+r.Intn(3), false)}
	case val.KNS:
		return val.V{K: val.KNS, Set: distinct(r, nums, 1+r.Intn(3), true)}
	case val.KBS:
		return val.V{K: val.KBS, Set: distinct(r, binPool[1:], 1+r.Intn(3), false)}
	}
	return Scalar(r, k, o)
}

func distinct(r *rand.Rand, pool []string, n int, numeric bool) []string {
	out := []string{}
	for tries := 0; len(out) < n && tries < 20; tries++ {
		c := Pick(r, pool)
		dup := false
		for _, x := range out {
			if x == c || (numeric && val.NumEqual(x, c)) {
				dup = true
			}
		}
		if !dup {
			out = append(out, c)
		}
	}
	return out
}

// AttrNames is the small universe of non-key attribute names.
var AttrNames = []string{"a", "b", "c", "d", "n", "s", "l", "m"}

// Item returns a random item: the given key attributes plus 0..maxAttrs others.
func Item(r *rand.Rand, key val.Item, maxAttrs int, o GenOpts) val.Item {
	it := key.Clone()
	if it == nil {
		it = val.Item{}
	}
	n := r.Intn(maxAttrs + 1)
	for i := 0; i < n; i++ {
		name := Pick(r, AttrNames)
		if _, isKey := key[name]; isKey {
			continue
		}
		it[name] = Value(r, o.MaxDepth, o)
	}
	return it
}

// Spec helpers ---------------------------------------------------------------------------

// SpecHashOnly / SpecHashRange are the two base schemas (S keys).
func SpecHashOnly(name string) adapt.TableSpec {
	return adapt.TableSpec{Name: name, Hash: "h", Billing: "PAY_PER_REQUEST"}
}
func SpecHashRange(name string) adapt.TableSpec {
	return adapt.TableSpec{Name: name, Hash: "h", Range: "r", Billing: "PAY_PER_REQUEST"}
}

// KeyFor builds a key item for the spec from strings.
func KeyFor(spec adapt.TableSpec, h, rg string) val.Item {
	k := val.Item{spec.Hash: keyVal(spec.HashT, h)}
	if spec.Range != "" {
		k[spec.Range] = keyVal(spec.RangeT, rg)
	}
	return k
}

func keyVal(t, s string) val.V {
	switch t {
	case "N":
		return val.Num(s)
	case "B":
		return val.Bin(s)
	}
	return val.Str(s)
}

// ---------------------------------------------------------------------------------------
// condition generation

// CondGen generates condition ASTs over a small attribute universe.
type CondGen struct {
	R       *rand.Rand
	Attrs   []string // attribute names to mention
	Values  val.Item // accumulates :placeholders
	Opts    GenOpts
	NoPaths bool // only top-level names (BETWEEN/IN operands in minidyn must be identifiers)
	Alias   bool // sometimes use #aliases
	nv      int
}

func (g *CondGen) newVal(v val.V) refmodel.Operand {
	g.nv++
	// placeholder spellings: letters first, and what the SDK expression builders emit - a digit or an
	// underscore right after the sigil (":0", ":_3")
	name := fmt.Sprintf([]string{":v%d", ":v%d", ":%d", ":_%d", ":V%d"}[g.R.Intn(5)], g.nv)
	if g.Values == nil {
		g.Values = val.Item{}
	}
	g.Values[name] = v
	return refmodel.Operand{Kind: "val", Val: name}
}

func (g *CondGen) path() refmodel.Path {
	name := Pick(g.R, g.Attrs)
	p := refmodel.Path{{Name: name}}
	if g.Alias && g.R.Intn(4) == 0 {
		p[0].Alias = "#" + sanitize(name)
		if g.R.Intn(3) == 0 {
			// "#0", "#_a": digit- and underscore-first aliases (one spelling per attribute name)
			p[0].Alias = fmt.Sprintf("#%d%s", len(name), sanitize(name))
			if len(name)%2 == 0 {
				p[0].Alias = "#_" + sanitize(name)
			}
		}
	}
	if !g.NoPaths && g.R.Intn(4) == 0 {
		n := 1 + g.R.Intn(2)
		for i := 0; i < n; i++ {
			if g.R.Intn(2) == 0 {
				p = append(p, refmodel.PathEl{IsIdx: true, Idx: g.R.Intn(4)})
			} else {
				p = append(p, refmodel.PathEl{Name: Pick(g.R, []string{"x", "y", "z", "k"})})
			}
		}
	}
	return p
}

func sanitize(s string) string {
	out := []byte{}
	for i := 0; i < len(s); i++ {
		c := s[i]
		if (c >= 'a' && c <= 'z') || (c >= 'A' && c <= 'Z') || (c >= '0' && c <= '9') || c == '_' {
			out = append(out, c)
		} else {
			out = append(out, '_')
		}
	}
	return "n" + string(out)
}

func (g *CondGen) pathOp() refmodel.Operand { return refmodel.Operand{Kind: "path", Path: g.path()} }

// Leaf returns a random leaf condition.
func (g *CondGen) Leaf() *refmodel.Cond {
	r := g.R
	switch r.Intn(10) {
	case 0, 1, 2, 3:
		cmp := Pick(r, []string{"=", "<>", "<", "<=", ">", ">="})
		if r.Intn(8) == 0 {
			l := refmodel.Operand{Kind: "size", Path: g.path()}
			rt := g.newVal(val.Num(Pick(r, []string{"0", "1", "2", "3"})))
			return &refmodel.Cond{Op: "cmp", Cmp: cmp, Args: []refmodel.Operand{l, rt}}
		}
		l := g.pathOp()
		var rt refmodel.Operand
		switch r.Intn(6) {
		case 0:
			rt = g.pathOp()
		default:
			rt = g.newVal(Value(r, 1, g.Opts))
		}
		return &refmodel.Cond{Op: "cmp", Cmp: cmp, Args: []refmodel.Operand{l, rt}}
	case 4:
		k := Pick(r, []val.Kind{val.KS, val.KN, val.KB})
		a, b := Scalar(r, k, g.Opts), Scalar(r, k, g.Opts)
		return &refmodel.Cond{Op: "between", Args: []refmodel.Operand{g.pathOp(), g.newVal(a), g.newVal(b)}}
	case 5:
		n := 1 + r.Intn(3)
		args := []refmodel.Operand{g.pathOp()}
		for i := 0; i < n; i++ {
			if r.Intn(4) == 0 {
				args = append(args, g.pathOp()) // a member given as a path
			} else {
				args = append(args, g.newVal(Value(r, 0, g.Opts)))
			}
		}
		return &refmodel.Cond{Op: "in", Args: args}
	case 6:
		return &refmodel.Cond{Op: Pick(r, []string{"exists", "notexists"}), Args: []refmodel.Operand{g.pathOp()}}
	case 7:
		return &refmodel.Cond{Op: "type", Args: []refmodel.Operand{g.pathOp(), g.newVal(val.Str(string(Pick(r, val.AllKinds))))}}
	case 8:
		k := Pick(r, []val.Kind{val.KS, val.KS, val.KB})
		return &refmodel.Cond{Op: "begins", Args: []refmodel.Operand{g.pathOp(), g.newVal(Scalar(r, k, g.Opts))}}
	default:
		if r.Intn(4) == 0 {
			return &refmodel.Cond{Op: "contains", Args: []refmodel.Operand{g.pathOp(), g.pathOp()}}
		}
		return &refmodel.Cond{Op: "contains", Args: []refmodel.Operand{g.pathOp(), g.newVal(Scalar(r, Pick(r, []val.Kind{val.KS, val.KN, val.KB, val.KNULL, val.KBOOL}), g.Opts))}}
	}
}

// Cond returns a random condition of at most the given depth.
func (g *CondGen) Cond(depth int) *refmodel.Cond {
	if depth <= 0 || g.R.Intn(3) == 0 {
		return g.Leaf()
	}
	switch g.R.Intn(5) {
	case 0:
		return &refmodel.Cond{Op: "not", Kids: []*refmodel.Cond{g.Cond(depth - 1)}}
	case 1, 2:
		return &refmodel.Cond{Op: "and", Kids: []*refmodel.Cond{g.Cond(depth - 1), g.Cond(depth - 1)}}
	default:
		return &refmodel.Cond{Op: "or", Kids: []*refmodel.Cond{g.Cond(depth - 1), g.Cond(depth - 1)}}
	}
}

// ---------------------------------------------------------------------------------------
// confusable key pairs

var confusable [][2][2]string

// ConfusablePairs returns every pair of distinct (hash, range) string tuples over the alphabet
// {a . \} (parts of length 1-3) that COLLIDE under at least one plausible-but-wrong composite-key
// encoding: naive join with '.', join after escaping only '.', join after escaping '.' in the hash part
// only, escaping '.' but not the escape character itself, and plain concatenation. A correct encoding
// keeps all of them apart; an encoding bug of this family merges at least one pair.
func ConfusablePairs() [][2][2]string {
	if confusable != nil {
		return confusable
	}
	parts := []string{}
	var gen func(prefix string, n int)
	gen = func(prefix string, n int) {
		if prefix != "" {
			parts = append(parts, prefix)
		}
		if n == 0 {
			return
		}
		for _, c := range []string{"a", ".", "\\"} {
			gen(prefix+c, n-1)
		}
	}
	gen("", 3)
	escDot := func(s string) string { return strings.ReplaceAll(s, ".", "\\.") }
	escBoth := func(s string) string { return strings.ReplaceAll(strings.ReplaceAll(s, "\\", "\\\\"), ".", "\\.") }
	escIfDot := func(s string) string { // escapes fully, but only when the part contains a '.'
		if !strings.Contains(s, ".") {
			return s
		}
		return escBoth(s)
	}
	encodings := []func(h, r string) string{
		func(h, r string) string { return h + "." + r },
		func(h, r string) string { return escDot(h) + "." + r },
		func(h, r string) string { return escDot(h) + "." + escDot(r) },
		func(h, r string) string { return escBoth(h) + "." + r },
		func(h, r string) string { return escIfDot(h) + "." + r },
		func(h, r string) string { return escIfDot(h) + "." + escIfDot(r) },
		func(h, r string) string { return h + r },
	}
	seen := map[string]bool{}
	for _, enc := range encodings {
		groups := map[string][][2]string{}
		for _, h := range parts {
			for _, r := range parts {
				e := enc(h, r)
				groups[e] = append(groups[e], [2]string{h, r})
			}
		}
		keys := []string{}
		for e, g := range groups {
			if len(g) > 1 {
				keys = append(keys, e)
			}
		}
		sort.Strings(keys)
		for _, e := range keys {
			g := groups[e]
			for i := 0; i < len(g); i++ {
				for j := i + 1; j < len(g) && j < i+4; j++ {
					id := g[i][0] + "\x00" + g[i][1] + "\x01" + g[j][0] + "\x00" + g[j][1]
					if !seen[id] {
						seen[id] = true
						confusable = append(confusable, [2][2]string{g[i], g[j]})
					}
				}
			}
		}
	}
	return confusable
}

// NearValues are pairs of DIFFERENT attribute values that a plausible-but-wrong notion of "the same value"
// confuses: set members that differ only in where a separator falls (a join of the members is not injective),
// lists versus their concatenation, values of different types with the same text, nested versus dotted names.
// Writing one over the other must always change what is stored.
var NearValues = [][2]val.V{
	{val.SS("a,b"), val.SS("a", "b")}, {val.SS("x,y", "z"), val.SS("x", "y,z")}, {val.SS("a b"), val.SS("a", "b")}, {val.SS("a\x00b"), val.SS("a", "b")},
	{val.SS("a|b"), val.SS("a", "b")}, {val.SS("a.b"), val.SS("a", "b")}, {val.SS("ab"), val.SS("a", "b")}, {val.SS("a\nb"), val.SS("a", "b")}, {val.SS("a;b", "c"), val.SS("a", "b;c")},
	{val.SS("", "a"), val.SS("a")}, {val.SS(",", "a"), val.SS("a,", "")}, {val.SS("[a b]"), val.SS("a", "b")}, {val.SS("a\",\"b"), val.SS("a", "b")},
	{val.BS("a,b"), val.BS("a", "b")}, {val.BS("ab"), val.BS("a", "b")}, {val.BS("\x00", "a"), val.BS("\x00a")}, {val.BS("a"), val.SS("a")}, {val.BS("YQ=="), val.BS("a")},
	{val.NS("1", "10"), val.NS("110")}, {val.NS("1", "2"), val.NS("12")}, {val.NS("1"), val.SS("1")}, {val.NS("1", "2"), val.NS("1", "2", "3")}, {val.NS("0.1", "1"), val.NS("0.11")},
	{val.List(val.Str("a"), val.Str("b")), val.List(val.Str("ab"))}, {val.List(val.Str("a,b")), val.List(val.Str("a"), val.Str("b"))}, {val.List(val.Str("a")), val.SS("a")},
	{val.List(val.List(val.Str("a")), val.Str("b")), val.List(val.Str("a"), val.List(val.Str("b")))}, {val.List(val.Str("a"), val.Null()), val.List(val.Str("a"))},
	{val.List(val.Num("1"), val.Num("2")), val.List(val.Num("12"))}, {val.List(val.Str("1")), val.List(val.Num("1"))},
	{val.Str("1"), val.Num("1")}, {val.Str("a"), val.Bin("a")}, {val.Str("a"), val.SS("a")}, {val.Str(""), val.Null()}, {val.Bool(false), val.Null()}, {val.Str("true"), val.Bool(true)},
	{val.Str("YQ=="), val.Bin("a")}, {val.Num("0"), val.Bool(false)}, {val.Str("NULL"), val.Null()},
	{val.Map(map[string]val.V{"a.b": val.Str("x")}), val.Map(map[string]val.V{"a": val.Map(map[string]val.V{"b": val.Str("x")})})},
	{val.Map(map[string]val.V{"a": val.Str("b,c")}), val.Map(map[string]val.V{"a": val.Str("b"), "c": val.Str("")})},
	{val.Map(map[string]val.V{"a": val.SS("x,y")}), val.Map(map[string]val.V{"a": val.SS("x", "y")})},
	{val.Map(map[string]val.V{"k": val.List(val.Str("a"), val.Str("b"))}), val.Map(map[string]val.V{"k": val.List(val.Str("a b"))})},
	{val.Map(map[string]val.V{"0": val.Str("a")}), val.List(val.Str("a"))}, {val.Map(map[string]val.V{"a": val.Null()}), val.Map(map[string]val.V{"a": val.Str("")})},
}
