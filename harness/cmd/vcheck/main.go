// vcheck is the driver and worker of the /verif harness.
package main

import (
	"flag"
	"fmt"
	"os"
	"path/filepath"
	"strconv"
	"time"

	_ "verifharness/props"
	"verifharness/runner"
)

func main() {
	prop := flag.String("prop", "", "property id")
	tier := flag.String("tier", "quick", "quick|thorough")
	seed := flag.Int64("seed", 1, "PRNG seed")
	worker := flag.Bool("worker", false, "worker mode")
	from := flag.Int("from", 0, "")
	to := flag.Int("to", 0, "")
	stride := flag.Int("stride", 1, "")
	journal := flag.String("journal", "", "")
	trace := flag.Bool("trace", false, "")
	replay := flag.String("replay", "", "replay file")
	workers := flag.Int("workers", 0, "number of worker processes")
	root := flag.String("root", "/verif", "verif root")
	race := flag.Bool("race", false, "this is a -race build")
	timeout := flag.Int("timeout", 0, "watchdog seconds per worker")
	flag.Parse()

	if s := os.Getenv("VERIF_SEED"); s != "" && !*worker {
		if v, err := strconv.ParseInt(s, 10, 64); err == nil {
			*seed = v
		}
	}
	if *replay != "" {
		os.Exit(runner.Replay(*replay))
	}
	if *worker {
		os.Exit(runner.WorkerMain(*prop, *tier, *seed, *from, *to, *stride, *journal, *trace))
	}
	self, _ := os.Executable()
	w := *workers
	if w == 0 {
		w = 8
		if *tier == "thorough" {
			w = 16
		}
	}
	to2 := time.Duration(*timeout) * time.Second
	if *timeout == 0 {
		to2 = 15 * time.Minute
		if *tier == "thorough" {
			to2 = 60 * time.Minute
		}
	}
	if runner.Get(*prop) == nil {
		fmt.Fprintf(os.Stderr, "unknown property %q; known: %v\n", *prop, runner.IDs())
		os.Exit(3)
	}
	raceSelf := ""
	if *prop == "C11" {
		if _, err := os.Stat(self + "-race"); err == nil {
			raceSelf = self + "-race"
		} else {
			fmt.Fprintf(os.Stderr, "C11: no race build at %s-race: the race-detector monitor cannot run\n", self)
			os.Exit(2)
		}
	}
	os.Exit(runner.Check(runner.Options{Prop: *prop, Tier: *tier, Seed: *seed, Workers: w, Self: self,
		WorkDir: filepath.Join(*root, "work", *prop), Root: *root, Race: *race, RaceSelf: raceSelf, Timeout: to2}))
}
