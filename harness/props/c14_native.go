package props

import (
	"fmt"
	"reflect"

	"github.com/truora/minidyn/interpreter"
	mtypes "github.com/truora/minidyn/types"

	"verifharness/adapt"
	"verifharness/mon"
	"verifharness/val"
)

// nativeCallbacks: the Go callbacks of the native interpreter (AddMatcher / AddUpdater) are callers too. What a
// callback was handed - the item, the expression attribute values - is scrambled location by location AFTER the
// API call that ran it has returned (a callback that keeps its argument, or one that normalises a value in place
// while it compares): the stored item still reads as the call left it. A matcher only answers yes or no; what it
// does to its argument never reaches the table, neither during the call nor later.
func (p *c14) nativeCallbacks(x *res, adapter string) {
	spec := mon.SpecHashOnly("tbl14n")
	key := val.Item{"h": val.Str("k")}
	stored := val.Item{"h": val.Str("k"), "s": val.Str("stored"), "n": val.Num("7"), "b": val.Bin("bytes"), "f": val.Bool(true), "l": val.List(val.Str("e0"), val.Map(map[string]val.V{"q": val.Str("deep")})),
		"m": val.Map(map[string]val.V{"x": val.Str("y"), "li": val.List(val.Bin("zz"))}), "ss": val.SS("p", "q"), "bs": val.BS("r")}
	type run struct {
		name string
		reg  func(n *interpreter.Native, keep func(map[string]*mtypes.Item))
		op   adapt.Op
	}
	matcher := func(kind interpreter.ExpressionType, text string) func(n *interpreter.Native, keep func(map[string]*mtypes.Item)) {
		return func(n *interpreter.Native, keep func(map[string]*mtypes.Item)) {
			n.AddMatcher(spec.Name, kind, text, func(item map[string]*mtypes.Item, _ map[string]*mtypes.Item) bool {
				keep(item)
				return true
			})
		}
	}
	runs := []run{
		{"filter-matcher", matcher(interpreter.ExpressionTypeFilter, "attribute_exists(h)"), adapt.Op{Kind: adapt.OpScan, Table: spec.Name, Filter: "attribute_exists(h)"}},
		{"key-matcher", matcher(interpreter.ExpressionTypeKey, "h = :h"), adapt.Op{Kind: adapt.OpQuery, Table: spec.Name, KeyCnd: "h = :h", Values: val.Item{":h": val.Str("k")}}},
		{"put-condition-matcher", matcher(interpreter.ExpressionTypeConditional, "attribute_exists(h)"), adapt.Op{Kind: adapt.OpPut, Table: spec.Name, Item: stored, Cond: "attribute_exists(h)"}},
		{"delete-condition-matcher-refusing", func(n *interpreter.Native, keep func(map[string]*mtypes.Item)) {
			n.AddMatcher(spec.Name, interpreter.ExpressionTypeConditional, "attribute_not_exists(h)", func(item map[string]*mtypes.Item, _ map[string]*mtypes.Item) bool {
				keep(item)
				return false
			})
		}, adapt.Op{Kind: adapt.OpDelete, Table: spec.Name, Key: key, Cond: "attribute_not_exists(h)"}},
		{"updater", func(n *interpreter.Native, keep func(map[string]*mtypes.Item)) {
			n.AddUpdater(spec.Name, "SET w = :w", func(item map[string]*mtypes.Item, vals map[string]*mtypes.Item) {
				item["w"] = vals[":w"]
				keep(item)
			})
		}, adapt.Op{Kind: adapt.OpUpdate, Table: spec.Name, Key: key, Update: "SET w = :w", Values: val.Item{":w": val.List(val.Str("written"), val.Bin("by the updater"))}}},
		// ... an update that carries no expression attribute values at all (the updater has its own vocabulary), on a
		// stored item and creating one
		{"updater-without-values", func(n *interpreter.Native, keep func(map[string]*mtypes.Item)) {
			n.AddUpdater(spec.Name, "REMOVE n", func(item map[string]*mtypes.Item, _ map[string]*mtypes.Item) {
				delete(item, "n")
				s := "released"
				item["lease"] = &mtypes.Item{S: &s}
				keep(item)
			})
		}, adapt.Op{Kind: adapt.OpUpdate, Table: spec.Name, Key: key, Update: "REMOVE n"}},
		{"updater-without-values-upsert", func(n *interpreter.Native, keep func(map[string]*mtypes.Item)) {
			n.AddUpdater(spec.Name, "REMOVE n", func(item map[string]*mtypes.Item, _ map[string]*mtypes.Item) {
				b := []byte("fresh")
				item["payload"] = &mtypes.Item{B: b}
				keep(item)
			})
		}, adapt.Op{Kind: adapt.OpUpdate, Table: spec.Name, Key: val.Item{"h": val.Str("created-by-the-update")}, Update: "REMOVE n"}},
		{"updater-with-condition-matcher", func(n *interpreter.Native, keep func(map[string]*mtypes.Item)) {
			n.AddUpdater(spec.Name, "SET w = :w", func(item map[string]*mtypes.Item, vals map[string]*mtypes.Item) { item["w"] = vals[":w"] })
			n.AddMatcher(spec.Name, interpreter.ExpressionTypeConditional, "attribute_exists(h)", func(item map[string]*mtypes.Item, _ map[string]*mtypes.Item) bool {
				keep(item)
				return true
			})
		}, adapt.Op{Kind: adapt.OpUpdate, Table: spec.Name, Key: key, Update: "SET w = :w", Cond: "attribute_exists(h)", Values: val.Item{":w": val.Str("written")}}},
	}
	for _, rn := range runs {
		// the first run only counts the locations
		count := -1
		for li := 0; count < 0 || li < count; li++ {
			cl := adapt.New(adapter)
			nc := nativeOf(cl)
			native := interpreter.NewNativeInterpreter()
			var kept []map[string]*mtypes.Item
			rn.reg(native, func(m map[string]*mtypes.Item) { kept = append(kept, m) })
			nc.setInterp(native)
			nc.activate()
			cl.Do(createOp(spec))
			if o := cl.Do(adapt.Op{Kind: adapt.OpPut, Table: spec.Name, Item: stored}); o.Class != adapt.ClsOK {
				x.viol("setup", "native-put", o.Msg, nil)
				return
			}
			o := cl.Do(rn.op)
			x.r.Evals++
			if len(kept) == 0 {
				x.r.Inconclusive++ // the callback never ran: nothing to scramble
				break
			}
			rk := key
			if rn.op.Kind == adapt.OpUpdate && rn.op.Key != nil {
				rk = rn.op.Key
			}
			before := cl.Do(adapt.Op{Kind: adapt.OpGet, Table: spec.Name, Key: rk})
			beforeScan := cl.Do(adapt.Op{Kind: adapt.OpScan, Table: spec.Name})
			var locs []pokeLoc
			for _, m := range kept {
				walkLocs(reflect.ValueOf(m), "", &locs, 0)
			}
			if count < 0 {
				count = len(locs)
			}
			if li >= len(locs) {
				break
			}
			var panicked interface{}
			func() {
				defer func() { panicked = recover() }()
				locs[li].poke()
			}()
			if panicked != nil {
				continue
			}
			x.r.Counters["native_callback_pokes"]++
			x.fp(true, "%s|native|%s|%s", adapter, rn.name, pathKinds(locs[li].path))
			after := cl.Do(adapt.Op{Kind: adapt.OpGet, Table: spec.Name, Key: rk})
			scan := cl.Do(adapt.Op{Kind: adapt.OpScan, Table: spec.Name})
			x.r.Evals += 3
			if after.Class != adapt.ClsOK || !val.ItemsEqual(after.Item, before.Item) || scan.Class != adapt.ClsOK || adapt.ItemsCanon(scan.Items) != adapt.ItemsCanon(beforeScan.Items) {
				x.viol("callback-argument-shared", adapter+"/"+rn.name+"/"+lastKind(locs[li].path), fmt.Sprintf("[%s] after %s (class %s) had returned, changing %s of the item the %s was handed changed the stored item: GetItem returns (%s) %s, before %s", adapter, rn.op.Kind, o.Class, locs[li].path, rn.name, after.Class, after.Item.Canon(), before.Item.Canon()),
					map[string]interface{}{"adapter": adapter, "callback": rn.name, "request": rn.op, "poked_location": locs[li].path})
			}
		}
	}
}
