package props

import (
	"fmt"
	"sort"
	"strconv"
	"strings"

	"verifharness/adapt"
	"verifharness/mon"
	"verifharness/refmodel"
	"verifharness/runner"
	"verifharness/val"
)

// C12 – numbers behave as exact decimals, not floats or strings.
type c12 struct{ base }

func init() {
	runner.Register(&c12{base{id: "C12", level: "exploration",
		rule: "numeral pool built to separate float64, text and decimal semantics (2^53+-1, 0.1/0.2/0.3, 38-digit integers differing in the last digit, 9 / 9.5 / 10, -0 / 0, 1E-130, 9.9E125, one value in five notations). Exhaustive over ALL ordered pairs of the pool: the six comparators, BETWEEN, IN, contains(NS,:n) through interpreter.Language.Match; SET a = a + :v, a - :v, ADD a :v through Language.Update (result compared by value with the exact decimal sum when it fits 38 digits); bystander number attributes and NS members of every update; through both adapters: key identity (Put under one notation, Get/Update/Delete under another), Query order on N- and B-typed sort keys (by value / by bytes). A deviation that is exactly what IEEE-754 double arithmetic (or text ordering of keys) produces is reported under the rule of that listed finding; any other deviation is a new violation. non-trivial = the two numerals differ in text; distinct by (rule, numeral pair). Documents holding the numbers as operands of contains() / IN (five forms per pair); byte ranges (BETWEEN) over binary sort keys as key condition and filter.",
		assumptions: commonAssumptions}})
}

// (the shared numeral pool plus two numerals at the small end of the range: their difference underflows it)
var c12Pool = append(append([]string{}, mon.Numerals...), "1.5E-130", "-5E+125")

func f64(s string) float64 { f, _ := strconv.ParseFloat(s, 64); return f }

func f64str(f float64) string { return strconv.FormatFloat(f, 'f', -1, 64) }

func cmpFloat(op string, a, b float64) bool {
	switch op {
	case "=":
		return a == b
	case "<>":
		return a != b
	case "<":
		return a < b
	case "<=":
		return a <= b
	case ">":
		return a > b
	}
	return a >= b
}

func (p *c12) NumCases(tier string) int {
	n := len(c12Pool) + 8
	if tier == "thorough" {
		n += 5000
	} else {
		n += 300
	}
	return n
}

// explain returns the rule suffix: "~float64" when the implementation's answer is exactly the
// float64 answer, "" otherwise.
func explainBool(got, floatAnswer bool) string {
	if got == floatAnswer {
		return "~float64"
	}
	return ""
}

func (p *c12) pairChecks(x *res, a, b string, ctx *runner.Ctx) {
	item := val.Item{"n": val.Num(a), "z": val.Str("bystander")}
	pathN := refmodel.Operand{Kind: "path", Path: refmodel.P("n")}
	valV := refmodel.Operand{Kind: "val", Val: ":v"}
	x.fp(a != b, "pair|%s|%s", a, b)
	for _, op := range []string{"=", "<>", "<", "<=", ">", ">="} {
		c := &refmodel.Cond{Op: "cmp", Cmp: op, Args: []refmodel.Operand{pathN, valV}}
		values := val.Item{":v": val.Num(b)}
		want := c.Eval(item, values)
		got, msg, site, _ := matchDirect(c.Render(map[string]string{}, rrCanon), nil, item, values)
		x.r.Evals++
		if got == 0 {
			x.viol("runtime-panic", site, fmt.Sprintf("n %s :v with n=%s :v=%s: panic %s", op, a, b, msg), map[string]interface{}{"a": a, "b": b, "op": op})
			continue
		}
		if got&want == 0 {
			x.viol("compare"+explainBool(got == refmodel.T, cmpFloat(op, f64(a), f64(b))), "cmp", fmt.Sprintf("%s %s %s evaluates to %s, exact decimal comparison gives %s", a, op, b, outcomeName(got), want),
				map[string]interface{}{"a": a, "b": b, "op": op, "got": outcomeName(got)})
		}
	}
	// IN and contains(NS, :n)
	{
		c := &refmodel.Cond{Op: "in", Args: []refmodel.Operand{pathN, valV, {Kind: "val", Val: ":w"}}}
		values := val.Item{":v": val.Num(b), ":w": val.Num("77")}
		want := c.Eval(item, values)
		got, _, _, _ := matchDirect(c.Render(map[string]string{}, rrCanon), nil, item, values)
		x.r.Evals++
		if got != 0 && got&want == 0 {
			x.viol("in"+explainBool(got == refmodel.T, f64(a) == f64(b) || f64(a) == 77), "in", fmt.Sprintf("%s IN (%s, 77) evaluates to %s, exact %s", a, b, outcomeName(got), want), map[string]interface{}{"a": a, "b": b})
		}
		it2 := val.Item{"ns": val.NS(a, "77"), "z": val.Str("bystander")}
		c2 := &refmodel.Cond{Op: "contains", Args: []refmodel.Operand{{Kind: "path", Path: refmodel.P("ns")}, valV}}
		v2 := val.Item{":v": val.Num(b)}
		want2 := c2.Eval(it2, v2)
		got2, _, _, _ := matchDirect(c2.Render(map[string]string{}, rrCanon), nil, it2, v2)
		x.r.Evals++
		if got2 != 0 && got2&want2 == 0 {
			x.viol("contains"+explainBool(got2 == refmodel.T, f64(a) == f64(b) || f64(b) == 77), "contains-ns", fmt.Sprintf("contains(NS{%s,77}, %s) evaluates to %s, exact %s", a, b, outcomeName(got2), want2), map[string]interface{}{"a": a, "b": b})
		}
	}
	// whole number sets: equal iff they have the same members BY VALUE, however the members are written and ordered
	// (also inside a list and a map, and as a member of IN)
	{
		stored := val.NS(a, "77")
		other := val.NS("7.7e1", b)
		eq := val.NumEqual(a, b)
		if val.NumEqual(a, "77") || val.NumEqual(b, "77") {
			eq = val.NumEqual(a, "77") && val.NumEqual(b, "77")
		}
		for fi, form := range []struct {
			item val.Item
			cond *refmodel.Cond
			vals val.Item
		}{
			{val.Item{"ns": stored}, &refmodel.Cond{Op: "cmp", Cmp: "=", Args: []refmodel.Operand{{Kind: "path", Path: refmodel.P("ns")}, valV}}, val.Item{":v": other}},
			{val.Item{"ns": stored}, &refmodel.Cond{Op: "cmp", Cmp: "<>", Args: []refmodel.Operand{{Kind: "path", Path: refmodel.P("ns")}, valV}}, val.Item{":v": other}},
			{val.Item{"ns": stored}, &refmodel.Cond{Op: "in", Args: []refmodel.Operand{{Kind: "path", Path: refmodel.P("ns")}, {Kind: "val", Val: ":w"}, valV}}, val.Item{":v": other, ":w": val.NS("123456")}},
			{val.Item{"l": val.List(stored, val.Str("x"))}, &refmodel.Cond{Op: "cmp", Cmp: "=", Args: []refmodel.Operand{{Kind: "path", Path: refmodel.P("l")}, valV}}, val.Item{":v": val.List(other, val.Str("x"))}},
			{val.Item{"m": val.Map(map[string]val.V{"s": stored})}, &refmodel.Cond{Op: "cmp", Cmp: "=", Args: []refmodel.Operand{{Kind: "path", Path: refmodel.P("m")}, valV}}, val.Item{":v": val.Map(map[string]val.V{"s": other})}},
		} {
			got, _, _, _ := matchDirect(form.cond.Render(map[string]string{}, rrCanon), nil, form.item, form.vals)
			x.r.Evals++
			want := eq
			if fi == 1 {
				want = !eq
			}
			if got != 0 && got != refmodel.R && (got == refmodel.T) != want {
				x.viol("number-set-equality"+explainBool(got == refmodel.T, func() bool {
					fe := f64(a) == f64(b)
					if fi == 1 {
						return !fe
					}
					return fe
				}()), "whole-set", fmt.Sprintf("form %d: the number sets {%s, 77} and {7.7e1, %s} compare as %s, by value they are equal=%v", fi, a, b, outcomeName(got), eq), map[string]interface{}{"a": a, "b": b, "form": fi})
			}
		}
	}
	// documents as the operand of contains() and as members of IN: a list / map holding the number a is found in a
	// list of documents, and among the members of IN, by a document holding b iff a and b are equal BY VALUE
	{
		eq := val.NumEqual(a, b)
		pd := func(n string) refmodel.Operand { return refmodel.Operand{Kind: "path", Path: refmodel.P(n)} }
		wV := refmodel.Operand{Kind: "val", Val: ":w"}
		for fi, form := range []struct {
			item val.Item
			cond *refmodel.Cond
			vals val.Item
		}{
			{val.Item{"ll": val.List(val.Str("x"), val.List(val.Num(a), val.Num("50")), val.Num("3"))}, &refmodel.Cond{Op: "contains", Args: []refmodel.Operand{pd("ll"), valV}}, val.Item{":v": val.List(val.Num(b), val.Num("50.0"))}},
			{val.Item{"ll": val.List(val.Map(map[string]val.V{"q": val.Num(a), "t": val.Str("x")}))}, &refmodel.Cond{Op: "contains", Args: []refmodel.Operand{pd("ll"), valV}}, val.Item{":v": val.Map(map[string]val.V{"q": val.Num(b), "t": val.Str("x")})}},
			{val.Item{"d": val.List(val.Num(a), val.Str("x"))}, &refmodel.Cond{Op: "in", Args: []refmodel.Operand{pd("d"), wV, valV}}, val.Item{":v": val.List(val.Num(b), val.Str("x")), ":w": val.List(val.Str("other"))}},
			{val.Item{"d": val.Map(map[string]val.V{"q": val.Map(map[string]val.V{"n": val.Num(a)})})}, &refmodel.Cond{Op: "in", Args: []refmodel.Operand{pd("d"), valV}}, val.Item{":v": val.Map(map[string]val.V{"q": val.Map(map[string]val.V{"n": val.Num(b)})})}},
			{val.Item{"ll": val.List(val.List(val.NS(a, "77")))}, &refmodel.Cond{Op: "contains", Args: []refmodel.Operand{pd("ll"), valV}}, val.Item{":v": val.List(val.NS("7.70e1", a))}},
		} {
			got, _, _, _ := matchDirect(form.cond.Render(map[string]string{}, rrCanon), nil, form.item, form.vals)
			x.r.Evals++
			want := eq
			if fi == 4 {
				want = true // the same set, its members written differently and in another order
			}
			if got != 0 && got != refmodel.R && (got == refmodel.T) != want {
				x.viol("document-operand-equality"+explainBool(got == refmodel.T, f64(a) == f64(b)), "contains-in", fmt.Sprintf("form %d: a document holding %s and one holding %s are matched by contains()/IN as %s, by value they are equal=%v", fi, a, b, outcomeName(got), want), map[string]interface{}{"a": a, "b": b, "form": fi})
			}
		}
	}
	// BETWEEN a AND a (degenerate interval) and ordered intervals
	{
		lo, hi := a, b
		if val.MustDec(lo).Cmp(val.MustDec(hi)) > 0 {
			lo, hi = hi, lo
		}
		for _, probe := range []string{a, b} {
			it := val.Item{"n": val.Num(probe)}
			c := &refmodel.Cond{Op: "between", Args: []refmodel.Operand{pathN, {Kind: "val", Val: ":lo"}, {Kind: "val", Val: ":hi"}}}
			values := val.Item{":lo": val.Num(lo), ":hi": val.Num(hi)}
			want := c.Eval(it, values)
			got, _, _, _ := matchDirect(c.Render(map[string]string{}, rrCanon), nil, it, values)
			x.r.Evals++
			if got != 0 && got&want == 0 {
				fl := f64(lo) <= f64(probe) && f64(probe) <= f64(hi)
				x.viol("between"+explainBool(got == refmodel.T, fl), "between", fmt.Sprintf("%s BETWEEN %s AND %s evaluates to %s, exact %s", probe, lo, hi, outcomeName(got), want), map[string]interface{}{"probe": probe, "lo": lo, "hi": hi})
			}
		}
	}
	// arithmetic: SET n = n + :v, n - :v, ADD n :v ; bystanders
	byst := val.Item{"big": val.Num("12345678901234567890123456789012345678"), "tiny": val.Num("1E-130"), "f": val.Num("0.1"), "nsb": val.NS("9007199254740993", "0.3"), "neg0": val.Num("-0")}
	for _, kind := range []string{"plus", "minus", "add", "plus-vp", "minus-vp"} {
		var u *refmodel.Update
		switch kind {
		case "add":
			u = &refmodel.Update{Actions: []refmodel.Action{{Kind: "ADD", Path: refmodel.P("n"), RHS: uv(":v")}}}
		case "plus-vp", "minus-vp":
			// the :value on the LEFT of the operator: :v + n, :v - n
			u = &refmodel.Update{Actions: []refmodel.Action{{Kind: "SET", Path: refmodel.P("n"), RHS: &refmodel.UExpr{Kind: kind[:len(kind)-3], Kids: []*refmodel.UExpr{uv(":v"), up(refmodel.P("n"))}}}}}
		default:
			u = &refmodel.Update{Actions: []refmodel.Action{{Kind: "SET", Path: refmodel.P("n"), RHS: &refmodel.UExpr{Kind: kind, Kids: []*refmodel.UExpr{up(refmodel.P("n")), uv(":v")}}}}}
		}
		it := byst.Clone()
		it["n"] = val.Num(a)
		values := val.Item{":v": val.Num(b)}
		want := u.Apply(it, values)
		got, msg, site, after := updateDirect(u.Render(map[string]string{}, rrCanon), nil, it, values)
		x.r.Evals++
		if got == "panic" {
			x.viol("runtime-panic", site, fmt.Sprintf("%s with n=%s :v=%s: panic %s", kind, a, b, msg), map[string]interface{}{"a": a, "b": b, "kind": kind})
			continue
		}
		// a result whose MAGNITUDE no DynamoDB number can have (beyond 9.99E+125, or nearer to zero than 1E-130) is
		// refused ("Number overflow" / "Number underflow"): it is never stored - the item could not be written back
		if da, ea := val.ParseDec(a); ea == nil {
			if db, eb := val.ParseDec(b); eb == nil {
				exact := da.Add(db)
				switch kind {
				case "minus":
					exact = da.Sub(db)
				case "minus-vp":
					exact = db.Sub(da)
				}
				if !exact.MagnitudeInRange() {
					x.r.Counters["results_out_of_range"]++
					if got == "ok" {
						x.viol("arith-out-of-range-stored", kind, fmt.Sprintf("%s with n=%s :v=%s: the exact result %s is outside the range of DynamoDB numbers, but the update succeeds and stores %s", kind, a, b, exact.String(), after["n"].Canon()), map[string]interface{}{"a": a, "b": b, "kind": kind, "got": after["n"]})
					}
					continue
				}
			}
		}
		if want.Unsure || want.Reject || (want.OrReject && got == "reject") {
			continue // result does not fit 38 digits / exponent range: reject or anything admitted
		}
		if got != "ok" {
			x.viol("arith-rejected", kind, fmt.Sprintf("%s with n=%s :v=%s rejected: %s", kind, a, b, msg), map[string]interface{}{"a": a, "b": b, "kind": kind})
			continue
		}
		if !val.Equal(after["n"], want.Item["n"]) {
			fl := f64(a) + f64(b)
			if kind == "minus" {
				fl = f64(a) - f64(b)
			}
			if kind == "minus-vp" {
				fl = f64(b) - f64(a)
			}
			sfx := ""
			if after["n"].K == val.KN && (val.NumEqual(after["n"].Str, f64str(fl)) || (fl == f64(a) && val.NumEqual(after["n"].Str, a))) {
				// the double-precision result, or: in double precision the operation is a no-op and
				// the unchanged attribute kept its stored text
				sfx = "~float64"
			}
			feat := kind
			if sfx != "" {
				feat = strings.TrimSuffix(kind, "-vp") // the listed double-precision findings are per operator, whichever side the :value is on
			}
			x.viol("arith"+sfx, feat, fmt.Sprintf("%s %s %s = %s, exact result %s", a, kind, b, after["n"].Canon(), want.Item["n"].Canon()), map[string]interface{}{"a": a, "b": b, "kind": kind, "got": after["n"]})
		}
		for name, orig := range byst {
			if !val.Equal(after[name], orig) {
				sfx := ""
				if explainedByFloatRoundTrip(after[name], orig) {
					sfx = "~float64"
				}
				x.viol("bystander-number-changed"+sfx, "update", fmt.Sprintf("an update of n changed the untouched attribute %s from %s to %s", name, orig.Canon(), after[name].Canon()), map[string]interface{}{"attr": name, "before": orig, "after": after[name]})
				break
			}
		}
	}
}

// copyWhileChanging: one update copies the number n into another attribute while an action of the same
// expression changes n: every right-hand side reads the pre-update item, so the copy holds the OLD value of n,
// exactly (no arithmetic is performed on it)
func (p *c12) copyWhileChanging(x *res, a, b string) {
	forms := map[string]*refmodel.Update{
		"copy+add": {Actions: []refmodel.Action{{Kind: "SET", Path: refmodel.P("p"), RHS: up(refmodel.P("n"))}, {Kind: "ADD", Path: refmodel.P("n"), RHS: uv(":v")}}},
		"add+copy": {Actions: []refmodel.Action{{Kind: "ADD", Path: refmodel.P("n"), RHS: uv(":v")}, {Kind: "SET", Path: refmodel.P("p"), RHS: up(refmodel.P("n"))}}},
		"copy+plus": {Actions: []refmodel.Action{{Kind: "SET", Path: refmodel.P("p"), RHS: up(refmodel.P("n"))}, {Kind: "SET", Path: refmodel.P("n"), RHS: &refmodel.UExpr{Kind: "plus", Kids: []*refmodel.UExpr{up(refmodel.P("n")), uv(":v")}}}}},
		"minus+copy": {Actions: []refmodel.Action{{Kind: "SET", Path: refmodel.P("n"), RHS: &refmodel.UExpr{Kind: "minus", Kids: []*refmodel.UExpr{up(refmodel.P("n")), uv(":v")}}}, {Kind: "SET", Path: refmodel.P("p"), RHS: up(refmodel.P("n"))}}},
		"ifne-copy+add": {Actions: []refmodel.Action{{Kind: "SET", Path: refmodel.P("p"), RHS: &refmodel.UExpr{Kind: "ifne", Path: refmodel.P("n"), Kids: []*refmodel.UExpr{uv(":v")}}}, {Kind: "ADD", Path: refmodel.P("n"), RHS: uv(":v")}}},
	}
	// one placeholder used twice: by an arithmetic action and by an action that merely stores it (or adds it to an
	// attribute that does not exist yet) - the second use reads the REQUEST's value, digit for digit
	arith := func(kind string, l, r *refmodel.UExpr) *refmodel.UExpr { return &refmodel.UExpr{Kind: kind, Kids: []*refmodel.UExpr{l, r}} }
	stores := map[string]*refmodel.Update{
		"plus-pv+store":  {Actions: []refmodel.Action{{Kind: "SET", Path: refmodel.P("n"), RHS: arith("plus", up(refmodel.P("n")), uv(":v"))}, {Kind: "SET", Path: refmodel.P("lastv"), RHS: uv(":v")}}},
		"minus-pv+store": {Actions: []refmodel.Action{{Kind: "SET", Path: refmodel.P("n"), RHS: arith("minus", up(refmodel.P("n")), uv(":v"))}, {Kind: "SET", Path: refmodel.P("lastv"), RHS: uv(":v")}}},
		"plus-vp+store":  {Actions: []refmodel.Action{{Kind: "SET", Path: refmodel.P("n"), RHS: arith("plus", uv(":v"), up(refmodel.P("n")))}, {Kind: "SET", Path: refmodel.P("lastv"), RHS: uv(":v")}}},
		"store+plus-pv":  {Actions: []refmodel.Action{{Kind: "SET", Path: refmodel.P("lastv"), RHS: uv(":v")}, {Kind: "SET", Path: refmodel.P("n"), RHS: arith("plus", up(refmodel.P("n")), uv(":v"))}}},
		"plus-pv+add-new": {Actions: []refmodel.Action{{Kind: "SET", Path: refmodel.P("n"), RHS: arith("plus", up(refmodel.P("n")), uv(":v"))}, {Kind: "ADD", Path: refmodel.P("lastv"), RHS: uv(":v")}}},
		"plus-pv+default": {Actions: []refmodel.Action{{Kind: "SET", Path: refmodel.P("n"), RHS: arith("plus", up(refmodel.P("n")), uv(":v"))}, {Kind: "SET", Path: refmodel.P("lastv"), RHS: &refmodel.UExpr{Kind: "ifne", Path: refmodel.P("nosuch"), Kids: []*refmodel.UExpr{uv(":v")}}}}},
		"plus-pv+plus-pv": {Actions: []refmodel.Action{{Kind: "SET", Path: refmodel.P("n"), RHS: arith("plus", up(refmodel.P("n")), uv(":v"))}, {Kind: "SET", Path: refmodel.P("m", "x"), RHS: uv(":v")}, {Kind: "SET", Path: refmodel.P("lastv"), RHS: uv(":v")}}},
	}
	snames := []string{}
	for k := range stores {
		snames = append(snames, k)
	}
	sort.Strings(snames)
	for _, kind := range snames {
		u := stores[kind]
		it := val.Item{"n": val.Num(a), "m": val.Map(map[string]val.V{}), "z": val.Str("bystander")}
		values := val.Item{":v": val.Num(b)}
		got, msg, site, after := updateDirect(u.Render(map[string]string{}, rrCanon), nil, it, values)
		x.r.Evals++
		x.r.Counters["placeholder_used_twice"]++
		if got == "panic" {
			x.viol("runtime-panic", site, fmt.Sprintf("%s with n=%s :v=%s: panic %s", kind, a, b, msg), map[string]interface{}{"a": a, "b": b, "kind": kind})
			continue
		}
		if got != "ok" {
			continue // the sum does not fit the number range: the arithmetic part is judged by the arith rules
		}
		if !val.Equal(after["lastv"], val.Num(b)) {
			x.viol("second-use-of-a-placeholder", kind, fmt.Sprintf("%s with n=%s :v=%s: the attribute that only stores :v is %s, want %s", kind, a, b, after["lastv"].Canon(), b), map[string]interface{}{"a": a, "b": b, "kind": kind, "got": after["lastv"]})
		}
	}
	// numbers INSIDE a copied document: the copy is made by a path, by list_append or by if_not_exists while the
	// same request changes (or removes) the number in the ORIGINAL - the copy is not a target, its number stays
	card := func(n string) val.V { return val.Map(map[string]val.V{"score": val.Num(n), "id": val.Str("c")}) }
	score := refmodel.Path{{Name: "cards"}, {IsIdx: true, Idx: 0}, {Name: "score"}}
	lapp := func(l, r *refmodel.UExpr) *refmodel.UExpr { return &refmodel.UExpr{Kind: "append", Kids: []*refmodel.UExpr{l, r}} }
	nested := map[string]*refmodel.Update{
		"append-copy+set":    {Actions: []refmodel.Action{{Kind: "SET", Path: refmodel.P("hist"), RHS: lapp(up(refmodel.P("cards")), uv(":e"))}, {Kind: "SET", Path: score, RHS: uv(":v")}}},
		"set+append-copy":    {Actions: []refmodel.Action{{Kind: "SET", Path: score, RHS: uv(":v")}, {Kind: "SET", Path: refmodel.P("hist"), RHS: lapp(up(refmodel.P("cards")), uv(":e"))}}},
		"prepend-copy+set":   {Actions: []refmodel.Action{{Kind: "SET", Path: refmodel.P("hist"), RHS: lapp(uv(":e"), up(refmodel.P("cards")))}, {Kind: "SET", Path: score, RHS: uv(":v")}}},
		"append-copy+remove": {Actions: []refmodel.Action{{Kind: "SET", Path: refmodel.P("hist"), RHS: lapp(up(refmodel.P("cards")), uv(":e"))}, {Kind: "REMOVE", Path: score}}},
		"append-copy+plus":   {Actions: []refmodel.Action{{Kind: "SET", Path: refmodel.P("hist"), RHS: lapp(up(refmodel.P("cards")), uv(":e"))}, {Kind: "SET", Path: score, RHS: arith("plus", up(score), uv(":v"))}}},
		"path-copy+set":      {Actions: []refmodel.Action{{Kind: "SET", Path: refmodel.P("hist"), RHS: up(refmodel.P("cards"))}, {Kind: "SET", Path: score, RHS: uv(":v")}}},
		"ifne-copy+set":      {Actions: []refmodel.Action{{Kind: "SET", Path: refmodel.P("hist"), RHS: &refmodel.UExpr{Kind: "ifne", Path: refmodel.P("cards"), Kids: []*refmodel.UExpr{uv(":e")}}}, {Kind: "SET", Path: score, RHS: uv(":v")}}},
		"append-twice+set":   {Actions: []refmodel.Action{{Kind: "SET", Path: refmodel.P("hist"), RHS: lapp(up(refmodel.P("cards")), up(refmodel.P("cards")))}, {Kind: "SET", Path: score, RHS: uv(":v")}}},
	}
	nnames := []string{}
	for k := range nested {
		nnames = append(nnames, k)
	}
	sort.Strings(nnames)
	for _, kind := range nnames {
		u := nested[kind]
		it := val.Item{"cards": val.List(card(a), card("7")), "z": val.Str("bystander")}
		values := val.Item{":v": val.Num(b), ":e": val.List(card("8"))}
		got, msg, site, after := updateDirect(u.Render(map[string]string{}, rrCanon), nil, it, values)
		x.r.Evals++
		x.r.Counters["copy_of_a_document_while_changing"]++
		if got == "panic" {
			x.viol("runtime-panic", site, fmt.Sprintf("%s with score=%s :v=%s: panic %s", kind, a, b, msg), map[string]interface{}{"a": a, "b": b, "kind": kind})
			continue
		}
		if got != "ok" {
			continue // (a sum that does not fit the number range: judged by the arith rules)
		}
		pos := 0
		if kind == "prepend-copy+set" {
			pos = 1
		}
		var cp val.V
		if h := after["hist"]; h.K == val.KL && len(h.L) > pos && h.L[pos].K == val.KM {
			cp = h.L[pos].M["score"]
		}
		if !val.Equal(cp, val.Num(a)) {
			sfx := ""
			if cp.K == val.KN && val.NumEqual(cp.Str, f64str(f64(a))) {
				sfx = "~float64"
			}
			x.viol("copy-of-number"+sfx, "nested/"+kind, fmt.Sprintf("%s with cards[0].score=%s :v=%s: the score inside the copy is %s, want the pre-update value %s (the update targets cards[0].score only)", kind, a, b, cp.Canon(), a), map[string]interface{}{"a": a, "b": b, "kind": kind, "got": after["hist"]})
		}
	}
	names := []string{}
	for k := range forms {
		names = append(names, k)
	}
	sort.Strings(names)
	for _, kind := range names {
		u := forms[kind]
		it := val.Item{"n": val.Num(a), "z": val.Str("bystander")}
		values := val.Item{":v": val.Num(b)}
		want := u.Apply(it, values)
		got, msg, site, after := updateDirect(u.Render(map[string]string{}, rrCanon), nil, it, values)
		x.r.Evals++
		x.r.Counters["copy_while_changing"]++
		if got == "panic" {
			x.viol("runtime-panic", site, fmt.Sprintf("%s with n=%s :v=%s: panic %s", kind, a, b, msg), map[string]interface{}{"a": a, "b": b, "kind": kind})
			continue
		}
		if want.Unsure || want.Reject || got != "ok" {
			continue // the arithmetic part is judged by the arith rules
		}
		if !val.Equal(after["p"], val.Num(a)) {
			sfx := ""
			if after["p"].K == val.KN && val.NumEqual(after["p"].Str, f64str(f64(a))) {
				sfx = "~float64"
			}
			x.viol("copy-of-number"+sfx, kind, fmt.Sprintf("%s with n=%s :v=%s: the copy p is %s, want the pre-update value %s", kind, a, b, after["p"].Canon(), a), map[string]interface{}{"a": a, "b": b, "kind": kind, "got": after["p"]})
		}
	}
}

// storeExactly: an update that only STORES a number (SET from a :value, into a map member, a list element, as
// the default of if_not_exists, through list_append) performs no arithmetic: the stored number equals the given
// numeral digit for digit (38 significant digits), wherever it lands
func (p *c12) storeExactly(x *res, a, b string) {
	type form struct {
		name string
		u    *refmodel.Update
		vals val.Item
		read func(val.Item) (val.V, bool)
	}
	top := func(n string) func(val.Item) (val.V, bool) {
		return func(it val.Item) (val.V, bool) { v, ok := it[n]; return v, ok }
	}
	forms := []form{
		{"set-value", &refmodel.Update{Actions: []refmodel.Action{{Kind: "SET", Path: refmodel.P("p"), RHS: uv(":v")}}}, val.Item{":v": val.Num(b)}, top("p")},
		{"set-over-number", &refmodel.Update{Actions: []refmodel.Action{{Kind: "SET", Path: refmodel.P("n"), RHS: uv(":v")}}}, val.Item{":v": val.Num(b)}, top("n")},
		{"set-map-member", &refmodel.Update{Actions: []refmodel.Action{{Kind: "SET", Path: refmodel.P("m", "k"), RHS: uv(":v")}}}, val.Item{":v": val.Num(b)},
			func(it val.Item) (val.V, bool) { return refmodel.P("m", "k").Resolve(it) }},
		{"set-list-element", &refmodel.Update{Actions: []refmodel.Action{{Kind: "SET", Path: refmodel.Path{{Name: "l"}, {IsIdx: true, Idx: 0}}, RHS: uv(":v")}}}, val.Item{":v": val.Num(b)},
			func(it val.Item) (val.V, bool) { return refmodel.Path{{Name: "l"}, {IsIdx: true, Idx: 0}}.Resolve(it) }},
		{"ifne-default", &refmodel.Update{Actions: []refmodel.Action{{Kind: "SET", Path: refmodel.P("p"), RHS: &refmodel.UExpr{Kind: "ifne", Path: refmodel.P("nope"), Kids: []*refmodel.UExpr{uv(":v")}}}}}, val.Item{":v": val.Num(b)}, top("p")},
		{"list-append", &refmodel.Update{Actions: []refmodel.Action{{Kind: "SET", Path: refmodel.P("l"), RHS: &refmodel.UExpr{Kind: "append", Kids: []*refmodel.UExpr{up(refmodel.P("l")), uv(":v")}}}}}, val.Item{":v": val.List(val.Num(b))},
			func(it val.Item) (val.V, bool) { return refmodel.Path{{Name: "l"}, {IsIdx: true, Idx: 2}}.Resolve(it) }},
		{"set-list-value", &refmodel.Update{Actions: []refmodel.Action{{Kind: "SET", Path: refmodel.P("p"), RHS: uv(":v")}}}, val.Item{":v": val.Map(map[string]val.V{"deep": val.List(val.Num(b))})},
			func(it val.Item) (val.V, bool) { return refmodel.Path{{Name: "p"}, {Name: "deep"}, {IsIdx: true, Idx: 0}}.Resolve(it) }},
		{"add-creates", &refmodel.Update{Actions: []refmodel.Action{{Kind: "ADD", Path: refmodel.P("p"), RHS: uv(":v")}}}, val.Item{":v": val.Num(b)}, top("p")},
	}
	// number SETS that are only stored or copied: {a, b} as a value, as a copy of an attribute, as the set an ADD
	// creates, and the set that remains after DELETE removed another member
	if !val.NumEqual(a, b) {
		nsab := val.NS(a, b)
		nsForms := []form{
			{"set-ns-value", &refmodel.Update{Actions: []refmodel.Action{{Kind: "SET", Path: refmodel.P("p"), RHS: uv(":v")}}}, val.Item{":v": nsab}, top("p")},
			{"copy-ns", &refmodel.Update{Actions: []refmodel.Action{{Kind: "SET", Path: refmodel.P("p"), RHS: up(refmodel.P("nsab"))}}}, val.Item{}, top("p")},
			{"add-creates-ns", &refmodel.Update{Actions: []refmodel.Action{{Kind: "ADD", Path: refmodel.P("p"), RHS: uv(":v")}}}, val.Item{":v": nsab}, top("p")},
			{"ns-in-list-value", &refmodel.Update{Actions: []refmodel.Action{{Kind: "SET", Path: refmodel.P("p"), RHS: uv(":v")}}}, val.Item{":v": val.List(nsab)},
				func(it val.Item) (val.V, bool) { return refmodel.Path{{Name: "p"}, {IsIdx: true, Idx: 0}}.Resolve(it) }},
			{"delete-other-member", &refmodel.Update{Actions: []refmodel.Action{{Kind: "DELETE", Path: refmodel.P("nsab77"), RHS: uv(":v")}}}, val.Item{":v": val.NS("77")}, top("nsab77")},
			{"add-other-member", &refmodel.Update{Actions: []refmodel.Action{{Kind: "ADD", Path: refmodel.P("nsab"), RHS: uv(":v")}}}, val.Item{":v": val.NS("77")}, top("nsab")},
		}
		for _, f := range nsForms {
			if val.NumEqual(a, "77") || val.NumEqual(b, "77") {
				continue
			}
			it := val.Item{"nsab": nsab, "nsab77": val.NS(a, b, "77"), "z": val.Str("bystander")}
			want := nsab
			if f.name == "add-other-member" {
				want = val.NS(a, b, "77")
			}
			got, msg, site, after := updateDirect(f.u.Render(map[string]string{}, rrCanon), nil, it, f.vals)
			x.r.Evals++
			x.r.Counters["store_exactly_ns"]++
			wit := map[string]interface{}{"a": a, "b": b, "kind": f.name}
			if got == "panic" {
				x.viol("runtime-panic", site, fmt.Sprintf("%s with {%s, %s}: panic %s", f.name, a, b, msg), wit)
				continue
			}
			if got != "ok" {
				x.viol("store-rejected", f.name, fmt.Sprintf("%s with {%s, %s} rejected: %s", f.name, a, b, msg), wit)
				continue
			}
			v, ok := f.read(after)
			if !ok || !val.Equal(v, want) {
				if ok && explainedByFloatRoundTrip(v, want) && len(v.Set) < len(want.Set) {
					// listed finding: members that are equal as doubles are one member (NumberSet is map[float64]bool)
					x.viol("stored-number-set-differs~float64", "members-equal-as-doubles-merge", fmt.Sprintf("%s with {%s, %s} stored %s", f.name, a, b, v.Canon()), wit)
					continue
				}
				x.viol("stored-number-set-differs", f.name, fmt.Sprintf("%s with {%s, %s} stored %s", f.name, a, b, v.Canon()), wit)
			}
		}
	}
	for _, f := range forms {
		it := val.Item{"n": val.Num(a), "m": val.Map(map[string]val.V{"k": val.Num(a), "o": val.Str("x")}), "l": val.List(val.Num(a), val.Str("x")), "z": val.Str("bystander")}
		got, msg, site, after := updateDirect(f.u.Render(map[string]string{}, rrCanon), nil, it, f.vals)
		x.r.Evals++
		x.r.Counters["store_exactly"]++
		wit := map[string]interface{}{"a": a, "b": b, "kind": f.name}
		if got == "panic" {
			x.viol("runtime-panic", site, fmt.Sprintf("%s with :v=%s: panic %s", f.name, b, msg), wit)
			continue
		}
		if got != "ok" {
			x.viol("store-rejected", f.name, fmt.Sprintf("%s with :v=%s rejected: %s", f.name, b, msg), wit)
			continue
		}
		v, ok := f.read(after)
		if !ok || !val.Equal(v, val.Num(b)) {
			sfx := ""
			if ok && v.K == val.KN && val.NumEqual(v.Str, f64str(f64(b))) {
				sfx = "~float64"
			}
			x.viol("stored-number-differs"+sfx, f.name, fmt.Sprintf("%s with :v=%s stored %s", f.name, b, v.Canon()), wit)
		}
	}
}

func explainedByFloatRoundTrip(got, orig val.V) bool {
	if got.K != orig.K {
		return false
	}
	switch orig.K {
	case val.KN:
		return val.NumEqual(got.Str, f64str(f64(orig.Str)))
	case val.KNS:
		// equal when every member is looked at in double precision (members that are equal as doubles merge,
		// whichever numeral survives)
		a := []string{}
		for _, m := range orig.Set {
			a = append(a, val.MustDec(f64str(f64(m))).String())
		}
		b := []string{}
		for _, m := range got.Set {
			if _, err := val.ParseDec(m); err != nil {
				return false
			}
			b = append(b, val.MustDec(f64str(f64(m))).String())
		}
		sort.Strings(a)
		sort.Strings(b)
		// float rounding may also merge members
		return strings.Join(uniq(a), ",") == strings.Join(uniq(b), ",")
	}
	return false
}

func uniq(xs []string) []string {
	out := []string{}
	for i, x := range xs {
		if i == 0 || x != xs[i-1] {
			out = append(out, x)
		}
	}
	return out
}

// keyIdentity: numerically equal keys in different notations address the same item.
func (p *c12) keyIdentity(x *res, adapter string, ctx *runner.Ctx) {
	groups := [][]string{{"1", "1.0", "01", "1e0", "1.00", "10E-1"}, {"0", "-0", "0.0", "0e5"}, {"100", "1E2", "1e+2", "100.0"}, {"0.5", ".5", "5e-1"}}
	for _, variant := range []string{"hash", "range", "hash-of-composite"} {
		asRange := variant == "range"
		for _, g := range groups {
			for _, w := range g {
				for _, rd := range g {
					if w == rd {
						continue
					}
					spec := adapt.TableSpec{Name: "tbl12", Hash: "h", HashT: "N", Billing: "PAY_PER_REQUEST"}
					mk := func(n string) val.Item { return val.Item{"h": val.Num(n)} }
					if asRange {
						spec = adapt.TableSpec{Name: "tbl12", Hash: "h", Range: "r", RangeT: "N", Billing: "PAY_PER_REQUEST"}
						mk = func(n string) val.Item { return val.Item{"h": val.Str("p"), "r": val.Num(n)} }
					}
					if variant == "hash-of-composite" {
						spec = adapt.TableSpec{Name: "tbl12", Hash: "h", HashT: "N", Range: "r", Billing: "PAY_PER_REQUEST", Indexes: []adapt.IndexSpec{{Name: "gsin", Hash: "g", HashT: "N", Range: "h", RangeT: "N"}}}
						mk = func(n string) val.Item { return val.Item{"h": val.Num(n), "r": val.Str("s")} }
					}
					cl, _, ds := freshClient(adapter, spec)
					if ds != nil {
						return
					}
					if (len(w)+len(rd))%2 == 0 {
						// "primed" half of the pairs: the same attribute names and the same key TEXTS were used a moment ago
						// as STRING keys - on a same-named table of this client (deleted again) and of another client.
						// How a number key is identified must not depend on what the process has seen before
						sspec := spec
						sspec.HashT, sspec.RangeT = "", ""
						sspec.Indexes = nil
						str := func(n string) val.Item {
							o := val.Item{}
							for k, v := range mk(n) {
								o[k] = val.Str(v.Str)
							}
							return o
						}
						other := adapt.New(adapter)
						cl.Do(adapt.Op{Kind: adapt.OpDeleteTable, Table: spec.Name})
						for _, c := range []adapt.Client{cl, other} {
							c.Do(createOp(sspec))
							for _, n := range []string{w, rd} {
								c.Do(adapt.Op{Kind: adapt.OpPut, Table: spec.Name, Item: str(n)})
								c.Do(adapt.Op{Kind: adapt.OpGet, Table: spec.Name, Key: str(n)})
							}
						}
						cl.Do(adapt.Op{Kind: adapt.OpDeleteTable, Table: spec.Name})
						if o := cl.Do(createOp(spec)); o.Class != adapt.ClsOK {
							return
						}
						x.r.Counters["key_identity_primed_with_string_keys"]++
					}
					it := mk(w)
					it["v"] = val.Str("payload")
					cl.Do(adapt.Op{Kind: adapt.OpPut, Table: spec.Name, Item: it})
					get := cl.Do(adapt.Op{Kind: adapt.OpGet, Table: spec.Name, Key: mk(rd)})
					upd := cl.Do(mon.SetUpdate(spec.Name, mk(rd), "w", val.Num("1")))
					scan1 := cl.Do(adapt.Op{Kind: adapt.OpScan, Table: spec.Name})
					put2 := cl.Do(adapt.Op{Kind: adapt.OpPut, Table: spec.Name, Item: mk(rd)})
					scan2 := cl.Do(adapt.Op{Kind: adapt.OpScan, Table: spec.Name})
					del := cl.Do(adapt.Op{Kind: adapt.OpDelete, Table: spec.Name, Key: mk(w)})
					scan3 := cl.Do(adapt.Op{Kind: adapt.OpScan, Table: spec.Name})
					x.r.Evals += 8
					x.fp(true, "keyid|%s|%v|%s|%s", adapter, variant, w, rd)
					wit := map[string]interface{}{"adapter": adapter, "spec": spec, "written": w, "read": rd}
					pos := variant
					_ = upd
					_ = put2
					_ = del
					if get.Item == nil || len(scan1.Items) != 1 || len(scan2.Items) != 1 || len(scan3.Items) != 0 {
						// text-identity explanation: the implementation treats the two numerals as different keys
						sfx := ""
						if get.Item == nil && len(scan1.Items) == 2 && len(scan2.Items) == 2 && len(scan3.Items) == 1 {
							sfx = "~text-key"
						}
						x.viol("key-identity"+sfx, pos, fmt.Sprintf("[%s] N %s key written as %s and addressed as %s: Get found=%v, items after update-by-other-notation=%d, after put=%d, after delete=%d (want found, 1, 1, 0)", adapter, pos, w, rd, get.Item != nil, len(scan1.Items), len(scan2.Items), len(scan3.Items)), wit)
					}
				}
			}
		}
	}
}

// sortOrder: Query on N- and B-typed sort keys orders by value / bytes.
func (p *c12) sortOrder(x *res, adapter string, ctx *runner.Ctx) {
	type tc struct {
		name string
		t    string
		keys []string
	}
	cases := []tc{
		{"N", "N", []string{"9", "10", "9.5", "100", "-1", "-10", "0", "1E2", "0.5", "2"}},
		{"N-negative-prefixes", "N", []string{"-1", "-1.5", "-1.25", "-10", "-15", "-2", "-0.1", "-0.15", "-100", "-1E2", "-12345678901234567890123456789012345678", "-1234567890123456789012345678901234567"}},
		{"N-positive-prefixes", "N", []string{"1", "1.5", "1.25", "10", "15", "2", "0.1", "0.15", "0.015", "1E-2", "12345678901234567890123456789012345678", "1234567890123456789012345678901234567"}},
		{"N-mixed-exponents", "N", []string{"1E-130", "9.9E125", "-9.9E125", "-1E-130", "0", "5E-1", "0.5E1", "50E-1", "-5E-1", "1E1", "9.99"}},
		{"N-small", "N", []string{"1", "2", "3"}},
		{"B", "B", []string{"\x0a", "\x09", "\x0a\x00", "\x01\x02", "\x64", "\x00", "\xff", "\x0b"}},
	}
	for _, c := range cases {
		spec := adapt.TableSpec{Name: "tbl12", Hash: "h", Range: "r", RangeT: c.t, Billing: "PAY_PER_REQUEST"}
		cl, m, ds := freshClient(adapter, spec)
		if ds != nil {
			return
		}
		seen := map[string]bool{}
		for i, k := range c.keys {
			kv := val.Num(k)
			if c.t == "B" {
				kv = val.Bin(k)
			}
			if seen[kv.Canon()] {
				continue
			}
			seen[kv.Canon()] = true
			op := adapt.Op{Kind: adapt.OpPut, Table: spec.Name, Item: val.Item{"h": val.Str("p"), "r": kv, "i": val.Num(fmt.Sprint(i))}}
			m.Step(op, cl.Do(op))
		}
		for _, rev := range []bool{false, true} {
			op := queryOp(spec.Name, "", keyCondEq("h", ":h"), nil, val.Item{":h": val.Str("p")}, rev, rrCanon)
			got := cl.Do(op)
			x.r.Evals++
			x.fp(true, "order|%s|%s|%v", adapter, c.name, rev)
			for _, d := range m.Step(op, got) {
				rule := d.Rule
				if d.Rule == "query-order" {
					// explanation: the order is the order of the keys' text renderings
					texts := []string{}
					for _, it := range got.Items {
						if c.t == "B" {
							texts = append(texts, fmt.Sprintf("%v", []byte(it["r"].Str)))
						} else {
							texts = append(texts, it["r"].Str)
						}
					}
					sorted := sort.SliceIsSorted(texts, func(i, j int) bool {
						if rev {
							return texts[i] > texts[j]
						}
						return texts[i] < texts[j]
					})
					if sorted {
						rule += "~text-order"
					}
				}
				x.viol(rule, c.t+"-sort-key", fmt.Sprintf("[%s] %s sort keys rev=%v: %s", adapter, c.name, rev, d.Detail), map[string]interface{}{"adapter": adapter, "type": c.t, "keys": c.keys, "rev": rev})
			}
			// ranges over BINARY sort keys select by byte value (9 < 10 < 10,0 < 11 < 100), as key condition and as filter
			if c.t == "B" {
				for _, rg := range [][2]string{{"\x09", "\x0a"}, {"\x0a", "\x64"}, {"\x00", "\x0a\x00"}, {"\x01", "\x0b"}, {"\x0a", "\xff"}} {
					bt := &refmodel.Cond{Op: "between", Args: []refmodel.Operand{{Kind: "path", Path: refmodel.P("r")}, {Kind: "val", Val: ":lo"}, {Kind: "val", Val: ":hi"}}}
					vals := val.Item{":h": val.Str("p"), ":lo": val.Bin(rg[0]), ":hi": val.Bin(rg[1])}
					for fi, op := range []adapt.Op{queryOp(spec.Name, "", &refmodel.Cond{Op: "and", Kids: []*refmodel.Cond{keyCondEq("h", ":h"), bt}}, nil, vals, rev, rrCanon),
						queryOp(spec.Name, "", keyCondEq("h", ":h"), bt, vals, rev, rrCanon)} {
						got := cl.Do(op)
						x.r.Evals++
						x.r.Counters["binary_range_reads"]++
						for _, d := range m.Step(op, got) {
							x.viol(d.Rule, "B-sort-key-range", fmt.Sprintf("[%s] r BETWEEN %v AND %v (%s): %s", adapter, []byte(rg[0]), []byte(rg[1]), []string{"key condition", "filter"}[fi], d.Detail), map[string]interface{}{"adapter": adapter, "lo": []byte(rg[0]), "hi": []byte(rg[1]), "as": fi})
						}
					}
				}
			}
			// sort-key conditions on numeric keys by value
			if c.t == "N" {
				for _, cmp := range []string{"<", ">="} {
					kc := &refmodel.Cond{Op: "and", Kids: []*refmodel.Cond{keyCondEq("h", ":h"), {Op: "cmp", Cmp: cmp, Args: []refmodel.Operand{{Kind: "path", Path: refmodel.P("r")}, {Kind: "val", Val: ":k"}}}}}
					op := queryOp(spec.Name, "", kc, nil, val.Item{":h": val.Str("p"), ":k": val.Num("9.7")}, rev, rrCanon)
					got := cl.Do(op)
					x.r.Evals++
					for _, d := range m.Step(op, got) {
						if d.Rule != "query-order" {
							x.viol(d.Rule, "N-sort-key-cond", fmt.Sprintf("[%s] r %s 9.7: %s", adapter, cmp, d.Detail), map[string]interface{}{"adapter": adapter, "cmp": cmp})
						}
					}
				}
			}
		}
	}
}

// expectedNotations: the legacy "Expected" parameter in its short form (attribute = value) is a condition like any
// other: a number that equals the stored one in ANOTHER notation (5 / 5.0, 100 / 1e2, 0 / -0), or a number set with
// the same members written differently, satisfies it. The library may not implement the parameter at all (then the
// write simply happens) - what it may not do is refuse the write as "condition failed".
func (p *c12) expectedNotations(x *res, adapter string) {
	spec := mon.SpecHashOnly("tbl12e")
	pairs := [][2]val.V{{val.Num("5"), val.Num("5.0")}, {val.Num("100"), val.Num("1e2")}, {val.Num("0"), val.Num("-0")}, {val.Num("0.5"), val.Num("5E-1")}, {val.Num("10"), val.Num("10.00")},
		{val.Num("-3"), val.Num("-3.000")}, {val.NS("1", "2"), val.NS("2.0", "1")}, {val.NS("10"), val.NS("1e1")}}
	for pi, pr := range pairs {
		for wi, kind := range []string{adapt.OpPut, adapt.OpUpdate, adapt.OpDelete} {
			cl, _, ds := freshClient(adapter, spec)
			if ds != nil {
				return
			}
			cl.Do(adapt.Op{Kind: adapt.OpPut, Table: spec.Name, Item: val.Item{"h": val.Str("k"), "n": pr[0]}})
			key := val.Item{"h": val.Str("k")}
			var op adapt.Op
			switch kind {
			case adapt.OpPut:
				op = adapt.Op{Kind: kind, Table: spec.Name, Item: val.Item{"h": val.Str("k"), "n": pr[0], "marker": val.Str("rewritten")}}
			case adapt.OpUpdate:
				op = mon.SetUpdate(spec.Name, key, "marker", val.Str("updated"))
			default:
				op = adapt.Op{Kind: kind, Table: spec.Name, Key: key}
			}
			op.Expected = val.Item{"n": pr[1]}
			got := cl.Do(op)
			x.r.Evals++
			x.r.Counters["expected_short_form_writes"]++
			x.fp(true, "%s|expected|%d|%d", adapter, pi, wi)
			if got.Class != adapt.ClsOK {
				x.viol("expected-number-in-another-notation", kind, fmt.Sprintf("[%s] %s with Expected {n: %s} on an item whose n is %s: %s (%s); the two are the same number", adapter, kind, pr[1].Canon(), pr[0].Canon(), got.Class, got.Msg),
					map[string]interface{}{"adapter": adapter, "op": op, "stored": pr[0], "outcome": got})
			}
		}
	}
}

// duplicateSetMembers: a set holds each member once. For numbers "once" is by VALUE: a number set given with two
// numerals of one value ("1" and "1.0", "10" and "1e1") is no set - DynamoDB refuses it ("Input collection contains
// duplicates") - and stored as given it reads back with two members while conditions see one.
func (p *c12) duplicateSetMembers(x *res, adapter string) {
	spec := mon.SpecHashOnly("tbl12d")
	// the counterpart: SEVERAL number sets inside one list or map that share numbers (in the same or in another
	// notation) are each a set of their own - every one keeps all its members, through PutItem and through SET
	shared := [][2]val.V{{val.NS("1", "2"), val.NS("2.0", "3")}, {val.NS("10", "7"), val.NS("1e1", "7", "8")}, {val.NS("0.5"), val.NS(".5")}, {val.NS("1", "2", "3"), val.NS("3", "2", "1")}}
	for si, sh := range shared {
		for fi, doc := range []val.V{val.List(sh[0], sh[1]), val.Map(map[string]val.V{"first": sh[0], "second": sh[1]}), val.List(val.Map(map[string]val.V{"s": sh[0]}), val.List(sh[1]))} {
			for _, via := range []string{"put", "update-value"} {
				cl, _, ds := freshClient(adapter, spec)
				if ds != nil {
					return
				}
				key := val.Item{"h": val.Str("k")}
				var o adapt.Outcome
				if via == "put" {
					o = cl.Do(adapt.Op{Kind: adapt.OpPut, Table: spec.Name, Item: val.Item{"h": val.Str("k"), "rounds": doc}})
				} else {
					o = cl.Do(adapt.Op{Kind: adapt.OpUpdate, Table: spec.Name, Key: key, Update: "SET rounds = :r", Values: val.Item{":r": doc}})
				}
				g := cl.Do(adapt.Op{Kind: adapt.OpGet, Table: spec.Name, Key: key})
				x.r.Evals += 2
				x.fp(true, "%s|sharedsets|%d|%d|%s", adapter, si, fi, via)
				x.r.Counters["number_sets_sharing_numbers"]++
				if o.Class != adapt.ClsOK || !val.Equal(g.Item["rounds"], doc) {
					x.viol("number-set-lost-a-member", via, fmt.Sprintf("[%s] %s of %s (number sets that share numbers, each complete): class %s %s; read back %s", adapter, via, doc.Canon(), o.Class, o.Msg, g.Item["rounds"].Canon()), map[string]interface{}{"adapter": adapter, "doc": doc, "outcome": o, "read": g})
				}
			}
		}
	}
	pairs := [][2]string{{"1", "1.0"}, {"10", "1e1"}, {"0", "-0"}, {"0.5", ".5"}, {"100", "1E2"}, {"9007199254740993", "9007199254740993.0"}, {"7", "7"}}
	for _, pr := range pairs {
		for fi, mk := range []func(v val.V) val.Item{
			func(v val.V) val.Item { return val.Item{"ns": v} },
			func(v val.V) val.Item { return val.Item{"doc": val.Map(map[string]val.V{"l": val.List(val.Str("x"), v)})} },
		} {
			for _, via := range []string{"put", "update-value", "condition-value"} {
				cl, _, ds := freshClient(adapter, spec)
				if ds != nil {
					return
				}
				dup := val.V{K: val.KNS, Set: []string{pr[0], "3", pr[1]}}
				it := mk(dup)
				it["h"] = val.Str("k")
				var op adapt.Op
				switch via {
				case "put":
					op = adapt.Op{Kind: adapt.OpPut, Table: spec.Name, Item: it}
				case "update-value":
					op = adapt.Op{Kind: adapt.OpUpdate, Table: spec.Name, Key: val.Item{"h": val.Str("k")}, Update: "SET stored = :s", Values: val.Item{":s": dup}}
				default:
					op = adapt.Op{Kind: adapt.OpPut, Table: spec.Name, Item: val.Item{"h": val.Str("k")}, Cond: "attribute_not_exists(h) OR ns = :s", Values: val.Item{":s": dup}}
				}
				o := cl.Do(op)
				x.r.Evals++
				x.fp(pr[0] != pr[1], "%s|dupset|%s|%s|%d|%s", adapter, pr[0], pr[1], fi, via)
				x.r.Counters["sets_with_a_member_twice"]++
				wit := map[string]interface{}{"adapter": adapter, "request": op, "outcome": o}
				if o.Class == adapt.ClsRuntime {
					x.viol("runtime-panic", o.Site, fmt.Sprintf("[%s] %s with the number set {%s, 3, %s}: panic %s", adapter, via, pr[0], pr[1], o.Msg), wit)
				} else if o.Class == adapt.ClsOK {
					g := cl.Do(adapt.Op{Kind: adapt.OpGet, Table: spec.Name, Key: val.Item{"h": val.Str("k")}})
					x.viol("number-set-holds-a-value-twice", via, fmt.Sprintf("[%s] %s with the number set {%s, 3, %s}, which holds one value twice, is accepted; the item then reads %s", adapter, via, pr[0], pr[1], g.Item.Canon()), wit)
				}
			}
		}
	}
}

func (p *c12) RunCase(ctx *runner.Ctx) runner.CaseResult {
	x := newRes()
	n := len(c12Pool)
	switch {
	case ctx.Case < n:
		a := c12Pool[ctx.Case]
		for _, b := range c12Pool {
			p.pairChecks(x, a, b, ctx)
			p.copyWhileChanging(x, a, b)
			p.storeExactly(x, a, b)
		}
		if ctx.Case%9 == 0 {
			x.r.Sample = map[string]interface{}{"kind": "pair-row", "a": a, "against": c12Pool}
		}
	case ctx.Case < n+2:
		p.keyIdentity(x, adapt.Adapters[ctx.Case-n], ctx)
	case ctx.Case < n+4:
		p.sortOrder(x, adapt.Adapters[ctx.Case-n-2], ctx)
		p.expectedNotations(x, adapt.Adapters[ctx.Case-n-2])
		p.duplicateSetMembers(x, adapt.Adapters[ctx.Case-n-2])
	case ctx.Case < n+8:
		// same value in five notations against every pool member
		for _, a := range []string{"1.0", "01", "1e0", "10E-1", "0.10E1"}[ctx.Case-n-4 : ctx.Case-n-3] {
			for _, b := range c12Pool {
				p.pairChecks(x, a, b, ctx)
				p.copyWhileChanging(x, a, b)
			p.storeExactly(x, a, b)
			}
		}
	default:
		r := mon.Rng(ctx.Seed, "C12", ctx.Case)
		gen := func() string {
			digits := 1 + r.Intn(38)
			s := ""
			for i := 0; i < digits; i++ {
				d := r.Intn(10)
				if i == 0 && d == 0 {
					d = 1
				}
				s += fmt.Sprint(d)
			}
			if r.Intn(3) == 0 && digits > 1 {
				k := 1 + r.Intn(digits-1)
				s = s[:k] + "." + s[k:]
			}
			if r.Intn(4) == 0 {
				s += fmt.Sprintf("e%d", r.Intn(40)-20)
			}
			if r.Intn(5) == 0 {
				s = "-" + s
			}
			return s
		}
		// seeded number-typed sort keys: Query order must be the numeric order
		if ctx.Case%3 == 0 {
			adapter := adapt.Adapters[(ctx.Case/3)%2]
			spec := adapt.TableSpec{Name: "tbl12", Hash: "h", Range: "r", RangeT: "N", Billing: "PAY_PER_REQUEST"}
			if cl, m, ds := freshClient(adapter, spec); ds == nil {
				seen := map[string]bool{}
				for i := 0; i < 12; i++ {
					k := gen()
					d, err := val.ParseDec(k)
					if err != nil || !d.InRange() || seen[d.String()] {
						continue
					}
					seen[d.String()] = true
					op := adapt.Op{Kind: adapt.OpPut, Table: spec.Name, Item: val.Item{"h": val.Str("p"), "r": val.Num(k)}}
					m.Step(op, cl.Do(op))
					if r.Intn(2) == 0 { // a neighbour: same digits plus one more
						k2 := k
						if !strings.ContainsAny(k, "eE") {
							if !strings.Contains(k2, ".") {
								k2 += "."
							}
							k2 += fmt.Sprint(1 + r.Intn(9))
							if d2, err := val.ParseDec(k2); err == nil && d2.InRange() && !seen[d2.String()] {
								seen[d2.String()] = true
								op := adapt.Op{Kind: adapt.OpPut, Table: spec.Name, Item: val.Item{"h": val.Str("p"), "r": val.Num(k2)}}
								m.Step(op, cl.Do(op))
							}
						}
					}
				}
				for _, rev := range []bool{false, true} {
					op := queryOp(spec.Name, "", keyCondEq("h", ":h"), nil, val.Item{":h": val.Str("p")}, rev, rrCanon)
					got := cl.Do(op)
					x.r.Evals++
					x.fp(true, "seeded-order|%s|%d|%v", adapter, ctx.Case, rev)
					for _, d := range m.Step(op, got) {
						x.viol(d.Rule, "N-sort-key-seeded", fmt.Sprintf("[%s] seeded N sort keys rev=%v: %s", adapter, rev, d.Detail), map[string]interface{}{"adapter": adapter, "items": got.Items, "rev": rev})
					}
				}
			}
		}
		for k := 0; k < 10; k++ {
			a := gen()
			b := gen()
			if r.Intn(3) == 0 {
				// neighbours: differ in the last digit only
				b = a[:len(a)-1] + fmt.Sprint((int(a[len(a)-1]-'0')+1)%10)
				if strings.ContainsAny(a, "e") {
					b = a
				}
			}
			if _, err := val.ParseDec(a); err != nil {
				continue
			}
			if d, err := val.ParseDec(b); err != nil || !d.InRange() {
				continue
			}
			p.pairChecks(x, a, b, ctx)
		}
	}
	return x.r
}
