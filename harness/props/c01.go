package props

import (
	"fmt"
	"strings"

	"verifharness/adapt"
	"verifharness/mon"
	"verifharness/refmodel"
	"verifharness/runner"
	"verifharness/val"
)

// C01 – single-item operations behave as a sequential key→item map.
type c01 struct{ base }

func init() {
	runner.Register(&c01{base{id: "C01", level: "exploration",
		rule: "exhaustive: every sequence of <=4 (thorough <=5) ops over 2 near-colliding keys (blocks of 64 sequences rotate through a.b|c / a|b.c, a\\|.b / a.|b and the confusable pairs of mon.ConfusablePairs) x 8 op templates {put full, put small, update SET, update REMOVE, update ADD, delete, delete ALL_OLD, get}, hash-only and hash+range schemas, both adapters; seeded: histories of 40-80 ops over 3-6 hostile keys, key types rotating over S/S, N/S, S/N, B/B, N/N (string parts incl. numeral-looking strings, number parts re-written in other notations of the same value). After EVERY step the complete observable state (GetItem of every key used so far, base Scan as a set, DescribeTable.ItemCount) is compared with the model map. non-trivial = history contains an overwrite, a delete-then-re-put or an update-created item and touches >=2 keys; distinct by (schema, adapter, op-kind sequence, key-index sequence). Seeded histories also edit a shopping-cart document three and four steps below the attribute and guard deletes with one-member IN conditions on a BOOL / a whole list.",
		assumptions: commonAssumptions}})
}

const c01Templates = 8

func c01MaxLen(tier string) int {
	if tier == "thorough" {
		return 5
	}
	return 4
}

func c01Seeded(tier string) int {
	if tier == "thorough" {
		return 40000
	}
	return 3000
}

const c01Block = 64

func c01ExhaustiveCount(tier string) int {
	n := 0
	p := 1
	for l := 1; l <= c01MaxLen(tier); l++ {
		p *= c01Templates * 2
		n += p
	}
	return n
}

func (p *c01) NumCases(tier string) int {
	blocks := (c01ExhaustiveCount(tier) + c01Block - 1) / c01Block
	return blocks*4 + c01Seeded(tier)
}

// decode sequence number -> list of (template, keyIndex)
func c01Decode(seq int, tier string) [][2]int {
	choices := c01Templates * 2
	l := 1
	p := choices
	for seq >= p {
		seq -= p
		p *= choices
		l++
	}
	out := make([][2]int, l)
	for i := 0; i < l; i++ {
		c := seq % choices
		seq /= choices
		out[i] = [2]int{c / 2, c % 2}
	}
	return out
}

func c01Op(spec adapt.TableSpec, tmpl int, key val.Item, salt int) adapt.Op {
	switch tmpl {
	case 0: // put full item
		it := key.Clone()
		it["a"] = val.Str(fmt.Sprintf("full%d", salt))
		it["n"] = val.Num("5")
		it["l"] = val.List(val.Str("x"), val.Num("1"))
		return adapt.Op{Kind: adapt.OpPut, Table: spec.Name, Item: it}
	case 1: // put smaller item (shrinking attribute set)
		it := key.Clone()
		it["b"] = val.Bool(salt%2 == 0)
		return adapt.Op{Kind: adapt.OpPut, Table: spec.Name, Item: it}
	case 2:
		return mon.SetUpdate(spec.Name, key, "a", val.Str(fmt.Sprintf("set%d", salt)))
	case 3:
		return mon.RemoveUpdate(spec.Name, key, "a")
	case 4:
		return mon.AddUpdate(spec.Name, key, "n", val.Num("2"))
	case 5:
		return adapt.Op{Kind: adapt.OpDelete, Table: spec.Name, Key: key}
	case 6:
		return adapt.Op{Kind: adapt.OpDelete, Table: spec.Name, Key: key, RetOld: true}
	default:
		return adapt.Op{Kind: adapt.OpGet, Table: spec.Name, Key: key}
	}
}

var c01TemplateNames = []string{"putfull", "putsmall", "set", "remove", "add", "delete", "deleteold", "get"}

// nontrivial: overwrite, delete-then-re-put, or update-created item; >= 2 keys
func c01NonTrivial(seq [][2]int) bool {
	keys := map[int]bool{}
	exists := map[int]bool{}
	deleted := map[int]bool{}
	hit := false
	for _, s := range seq {
		t, k := s[0], s[1]
		keys[k] = true
		switch t {
		case 0, 1:
			if exists[k] || deleted[k] {
				hit = true
			}
			exists[k] = true
		case 2, 3, 4:
			if !exists[k] {
				hit = true
			}
			exists[k] = true
		case 5, 6:
			if exists[k] {
				deleted[k] = true
			}
			exists[k] = false
		}
	}
	return hit && len(keys) >= 2
}

// updateWithoutExpression: UpdateItem needs no UpdateExpression. Without one it "creates the item from the key
// attributes plus the update" - an item that consists of its key - when the key is absent, and leaves a stored
// item as it is; with a condition it does so if and only if the condition holds.
func (p *c01) updateWithoutExpression(x *res, adapter string) {
	for _, spec := range []adapt.TableSpec{mon.SpecHashOnly("tbl01u"), mon.SpecHashRange("tbl01u")} {
		for _, present := range []bool{false, true} {
			for _, cond := range []string{"", "attribute_not_exists(w)", "attribute_exists(w)"} {
				cl, _, ds := freshClient(adapter, spec)
				if ds != nil {
					return
				}
				key := mon.KeyFor(spec, "a", "b")
				stored := key.Clone()
				stored["v"] = val.Num("1")
				if present {
					cl.Do(adapt.Op{Kind: adapt.OpPut, Table: spec.Name, Item: stored})
				}
				o := cl.Do(adapt.Op{Kind: adapt.OpUpdate, Table: spec.Name, Key: key, NoUpdate: true, Cond: cond})
				g := cl.Do(adapt.Op{Kind: adapt.OpGet, Table: spec.Name, Key: key})
				x.r.Evals += 2
				x.fp(true, "%s|update-without-expression|%s|%v|%s", adapter, spec.Range, present, cond)
				x.r.Counters["updates_without_expression"]++
				want := key.Clone()
				if present {
					want = stored
				}
				wantClass := adapt.ClsOK
				if cond == "attribute_exists(w)" {
					wantClass = adapt.ClsCondFailed
					if !present {
						want = nil
					}
				}
				feature := map[bool]string{true: "present", false: "absent"}[present]
				if cond != "" {
					feature += "/conditional"
				}
				wit := map[string]interface{}{"adapter": adapter, "spec": spec, "present": present, "condition": cond, "outcome": o, "read": g}
				switch {
				case o.Class == adapt.ClsRuntime:
					x.viol("runtime-panic", o.Site, fmt.Sprintf("[%s] UpdateItem without UpdateExpression: runtime panic at %s: %s", adapter, o.Site, o.Msg), wit)
				case o.Class != wantClass:
					x.viol("update-without-expression-refused", feature, fmt.Sprintf("[%s] UpdateItem with a key and no UpdateExpression (item %s, condition %q): class %s (%s), want %s", adapter, feature, cond, o.Class, o.Msg, wantClass), wit)
				case !val.ItemsEqual(g.Item, want):
					x.viol("update-without-expression-result", feature, fmt.Sprintf("[%s] after UpdateItem with a key and no UpdateExpression (item %s, condition %q, class %s) GetItem returns %s, want %s", adapter, feature, cond, o.Class, g.Item.Canon(), want.Canon()), wit)
				}
			}
		}
	}
}

func (p *c01) RunCase(ctx *runner.Ctx) runner.CaseResult {
	x := newRes()
	tier := ctx.Tier
	if ctx.Case < 2 {
		p.updateWithoutExpression(x, adapt.Adapters[ctx.Case])
	}
	blocks := (c01ExhaustiveCount(tier) + c01Block - 1) / c01Block
	if ctx.Case < blocks*4 {
		combo := ctx.Case % 4
		block := ctx.Case / 4
		adapter := adapt.Adapters[combo%2]
		spec := mon.SpecHashOnly("tbl01")
		if combo/2 == 1 {
			spec = mon.SpecHashRange("tbl01")
		}
		// two near-colliding key pairs (separator '.' and escape character '\\'), alternating by block
		k0 := mon.KeyFor(spec, "a.b", "c")
		k1 := mon.KeyFor(spec, "a", "b.c")
		if block%2 == 1 {
			k0 = mon.KeyFor(spec, "a\\", ".b")
			k1 = mon.KeyFor(spec, "a.", "b")
		}
		if block%4 >= 2 {
			// the remaining blocks walk through the pairs that collide under a plausible-but-wrong key encoding
			cp := mon.ConfusablePairs()
			pr := cp[(block/4)%len(cp)]
			if spec.Range != "" || pr[0][0] != pr[1][0] {
				k0, k1 = mon.KeyFor(spec, pr[0][0], pr[0][1]), mon.KeyFor(spec, pr[1][0], pr[1][1])
			}
		}
		total := c01ExhaustiveCount(tier)
		for seq := block * c01Block; seq < (block+1)*c01Block && seq < total; seq++ {
			dec := c01Decode(seq, tier)
			ops := []adapt.Op{}
			names := []string{}
			for i, s := range dec {
				k := k0
				if s[1] == 1 {
					k = k1
				}
				ops = append(ops, c01Op(spec, s[0], k, i))
				names = append(names, fmt.Sprintf("%s%d", c01TemplateNames[s[0]], s[1]))
			}
			cl, m, ds := freshClient(adapter, spec)
			if ds != nil {
				x.viol("setup", "create", ds[0].Detail, spec)
				continue
			}
			st := &mon.HistoryStats{}
			f := mon.RunHistory(cl, m, ops, mon.KeyLog{}, true, nil, ctx.Trace, st)
			x.r.Evals += st.Calls
			x.r.Counters["histories"]++
			x.r.Counters["steps"] += st.Steps
			x.fp(c01NonTrivial(dec), "ex|%s|%s|%s", adapter, spec.Range, strings.Join(names, ","))
			if f != nil {
				x.failureViolation(adapter, f, spec)
			}
			if seq == block*c01Block && block%97 == 0 {
				x.r.Sample = map[string]interface{}{"kind": "exhaustive", "adapter": adapter, "schema": spec, "ops": names}
			}
		}
		return x.r
	}
	// seeded histories
	idx := ctx.Case - blocks*4
	r := mon.Rng(ctx.Seed, "C01", idx)
	adapter := adapt.Adapters[idx%2]
	spec := mon.SpecHashOnly("tbl01")
	if (idx/2)%2 == 1 {
		spec = mon.SpecHashRange("tbl01")
	}
	// seeded histories run on a table with a GSI on attribute "a" so that writes can be REJECTED after
	// their expression was evaluated (wrong-typed index key, removed / retyped key attribute): the map
	// must keep the state of the most recent SUCCESSFUL write
	spec.Indexes = []adapt.IndexSpec{{Name: "gsia", Hash: "a"}}
	// key types rotate: S/S, N/S, S/N, B/B, N/N. String parts come from the hostile pool and from
	// numeral-looking strings ("1.0" and "1.00" are different strings); number parts from numerals, and a
	// request may write a number part in another notation of the same value (same key)
	kt := [][2]string{{"S", "S"}, {"N", "S"}, {"S", "N"}, {"B", "B"}, {"N", "N"}}[(idx/4)%5]
	spec.HashT, spec.RangeT = kt[0], kt[1]
	if spec.Range == "" {
		spec.RangeT = ""
	}
	strPool := append(append([]string{}, mon.HostileKeys...), "1", "1.0", "1.00", "01", "7", "007")
	numPool := []string{"1", "1.0", "10", "2", "-1", "0.5", "1e1", "100", "7", "9007199254740992", "9007199254740993", "12345678901234567890123456789012345678", "12345678901234567890123456789012345679", "20260928123456000000001", "20260928123456000000002"}
	part := func(t string) string {
		if t == "N" {
			return mon.Pick(r, numPool)
		}
		return mon.Pick(r, strPool)
	}
	alt := func(k val.Item) val.Item {
		o := k.Clone()
		for a, v := range o {
			if v.K == val.KN && r.Intn(3) == 0 {
				switch {
				case !strings.ContainsAny(v.Str, ".eE"):
					o[a] = val.Num(v.Str + ".0")
				case !strings.ContainsAny(v.Str, "eE"):
					o[a] = val.Num(v.Str + "0")
				}
			}
		}
		return o
	}
	nk := 3 + r.Intn(4)
	keys := []val.Item{}
	seen := map[string]bool{}
	for len(keys) < nk {
		k := mon.KeyFor(spec, part(spec.HashT), part(spec.RangeT))
		if seen[k.Canon()] {
			continue
		}
		seen[k.Canon()] = true
		keys = append(keys, k)
	}
	n := 40 + r.Intn(41)
	ops := []adapt.Op{}
	kinds := []string{}
	dec := [][2]int{}
	// a third of the histories run on a table that also has an index over the table's OWN key attributes, which
	// is dropped in the middle of the history (and sometimes re-created later): the key -> item map must not care
	dropAt, recreateAt := -1, -1
	inv := adapt.IndexSpec{Name: "inv", Hash: spec.Hash, HashT: spec.HashT, Range: "a"}
	if spec.Range != "" {
		inv = adapt.IndexSpec{Name: "inv", Hash: spec.Range, HashT: spec.RangeT, Range: spec.Hash, RangeT: spec.HashT}
	}
	if idx%3 == 2 {
		spec.Indexes = append(spec.Indexes, inv)
		dropAt = 5 + r.Intn(n-10)
		if r.Intn(2) == 0 {
			recreateAt = dropAt + 1 + r.Intn(n-dropAt-1)
		}
		x.r.Counters["histories_with_index_drop"]++
	}
	opts := mon.GenOpts{MaxDepth: 2, NoEmptyLM: true}
	for i := 0; i < n; i++ {
		if i == dropAt {
			ops = append(ops, adapt.Op{Kind: adapt.OpUpdateTable, Table: spec.Name, Chg: []adapt.IndexChange{{Delete: "inv"}}})
		}
		if i == recreateAt {
			c := inv
			ops = append(ops, adapt.Op{Kind: adapt.OpUpdateTable, Table: spec.Name, Chg: []adapt.IndexChange{{Create: &c}}})
		}
		ki := r.Intn(len(keys))
		k := alt(keys[ki])
		t := r.Intn(c01Templates)
		var op adapt.Op
		switch t {
		case 0:
			it := mon.Item(r, k, 5, opts)
			delete(it, "n")
			if v, ok := it["a"]; ok && (v.K != val.KS || v.Str == "") {
				it["a"] = val.Str(mon.Pick(r, []string{"x", "y"})) // an index key: a non-empty string
			}
			if r.Intn(2) == 0 {
				it["n"] = val.Num(mon.Pick(r, mon.SmallNumerals))
			}
			op = adapt.Op{Kind: adapt.OpPut, Table: spec.Name, Item: it}
		case 1:
			it := mon.Item(r, k, 1, opts)
			delete(it, "n")
			if v, ok := it["a"]; ok && (v.K != val.KS || v.Str == "") {
				delete(it, "a")
			}
			op = adapt.Op{Kind: adapt.OpPut, Table: spec.Name, Item: it}
		case 2:
			op = mon.SetUpdate(spec.Name, k, mon.Pick(r, mon.AttrNames[1:4]), mon.Value(r, 2, opts))
			if r.Intn(5) == 0 {
				// one value written over its NEAR neighbour (a different value that a careless "did it change?" test takes
				// for the same one): two consecutive writes to one attribute of one item, the second one must be stored
				pr := mon.Pick(r, mon.NearValues)
				first, second := pr[r.Intn(2)], pr[0]
				if val.Equal(first, second) {
					second = pr[1]
				}
				w := func(v val.V) adapt.Op {
					if r.Intn(4) == 0 {
						it := k.Clone()
						it["near"] = v
						return adapt.Op{Kind: adapt.OpPut, Table: spec.Name, Item: it}
					}
					return mon.SetUpdate(spec.Name, k, "near", v)
				}
				ops = append(ops, w(first))
				kinds = append(kinds, fmt.Sprintf("near%d", ki))
				dec = append(dec, [2]int{t, ki})
				op = w(second)
				x.r.Counters["near_value_overwrites"]++
			} else if r.Intn(4) == 0 {
				// grow (or create) a list: the appended elements include NULL, false and the empty string - they are
				// elements like any other
				u := &refmodel.Update{Actions: []refmodel.Action{{Kind: "SET", Path: refmodel.P("lg"), RHS: &refmodel.UExpr{Kind: "append", Kids: []*refmodel.UExpr{
					{Kind: "ifne", Path: refmodel.P("lg"), Kids: []*refmodel.UExpr{{Kind: "val", Val: ":e"}}}, {Kind: "val", Val: ":v"}}}}}}
				if r.Intn(2) == 0 {
					u.Actions[0].RHS.Kids[0], u.Actions[0].RHS.Kids[1] = u.Actions[0].RHS.Kids[1], u.Actions[0].RHS.Kids[0]
				}
				tail := []val.V{val.Null(), val.Str(fmt.Sprint("e", i)), val.Bool(false), val.Str(""), val.Null()}
				op = adapt.Op{Kind: adapt.OpUpdate, Table: spec.Name, Key: k, Update: u.Render(map[string]string{}, refmodel.RenderOpts{}), UpdAST: u,
					Values: val.Item{":e": val.List(val.Null()), ":v": val.V{K: val.KL, L: tail[r.Intn(3) : 3+r.Intn(3)]}}}
			}
		case 3:
			op = mon.RemoveUpdate(spec.Name, k, mon.Pick(r, mon.AttrNames))
			if r.Intn(6) == 0 {
				// a map attribute and, in the same request, the attribute whose NAME is the dotted spelling of one of
				// its members (flattened copies of nested data are common): two attributes, both written
				u := &refmodel.Update{Actions: []refmodel.Action{
					{Kind: "SET", Path: refmodel.Path{{Name: "cfg", Alias: "#m"}}, RHS: &refmodel.UExpr{Kind: "val", Val: ":m"}},
					{Kind: "SET", Path: refmodel.Path{{Name: "cfg.mode", Alias: "#flat"}}, RHS: &refmodel.UExpr{Kind: "val", Val: ":s"}},
				}}
				if r.Intn(2) == 0 {
					u.Actions[0], u.Actions[1] = u.Actions[1], u.Actions[0]
				}
				if r.Intn(3) == 0 {
					u.Actions = append(u.Actions, refmodel.Action{Kind: "REMOVE", Path: refmodel.Path{{Name: "cfg.old", Alias: "#gone"}}})
				}
				names := map[string]string{}
				expr := u.Render(names, refmodel.RenderOpts{})
				op = adapt.Op{Kind: adapt.OpUpdate, Table: spec.Name, Key: k, Update: expr, UpdAST: u, Names: names,
					Values: val.Item{":m": val.Map(map[string]val.V{"mode": val.Str(fmt.Sprint("nested", i))}), ":s": val.Str(fmt.Sprint("flat", i))}}
			} else if r.Intn(5) == 0 {
				// a shopping-cart document: written whole, or edited three and four steps down (a quantity inside the first
				// line, a note removed from it, a flag deep inside the meta data) - refused when the cart is not there
				pp := func(els ...interface{}) refmodel.Path {
					p := refmodel.Path{}
					for _, e := range els {
						if n, ok := e.(int); ok {
							p = append(p, refmodel.PathEl{IsIdx: true, Idx: n})
						} else {
							p = append(p, refmodel.PathEl{Name: e.(string)})
						}
					}
					return p
				}
				var u *refmodel.Update
				values := val.Item{":q": val.Num(fmt.Sprint(i))}
				switch r.Intn(5) {
				case 0, 1:
					u = &refmodel.Update{Actions: []refmodel.Action{{Kind: "SET", Path: pp("cart"), RHS: &refmodel.UExpr{Kind: "val", Val: ":doc"}}}}
					values = val.Item{":doc": val.Map(map[string]val.V{
						"items": val.List(val.Map(map[string]val.V{"qty": val.Num("1"), "note": val.Str("gift")}), val.Map(map[string]val.V{"qty": val.Num("2")})),
						"meta":  val.Map(map[string]val.V{"a": val.Map(map[string]val.V{"b": val.Map(map[string]val.V{"c": val.Num("0")}), "c": val.Map(map[string]val.V{"b": val.Num("9")})})})})}
				case 2:
					u = &refmodel.Update{Actions: []refmodel.Action{{Kind: "SET", Path: pp("cart", "items", 0, "qty"), RHS: &refmodel.UExpr{Kind: "val", Val: ":q"}}}}
				case 3:
					u = &refmodel.Update{Actions: []refmodel.Action{{Kind: "REMOVE", Path: pp("cart", "items", 0, "note")}, {Kind: "SET", Path: pp("cart", "items", 1, "qty"), RHS: &refmodel.UExpr{Kind: "val", Val: ":q"}}}}
				default:
					u = &refmodel.Update{Actions: []refmodel.Action{{Kind: "SET", Path: pp("cart", "meta", "a", "b", "c"), RHS: &refmodel.UExpr{Kind: "val", Val: ":q"}}}}
				}
				op = adapt.Op{Kind: adapt.OpUpdate, Table: spec.Name, Key: k, Update: u.Render(map[string]string{}, refmodel.RenderOpts{}), UpdAST: u, Values: values}
				x.r.Counters["cart_document_updates"]++
			} else if r.Intn(4) == 0 {
				// edit the list the other updates grow: drop an element and overwrite (or append) another one in ONE
				// request, clauses in either order - every index refers to the list as it was before the request
				ri, si := r.Intn(4), r.Intn(6)
				if si == ri {
					si++
				}
				u := &refmodel.Update{Actions: []refmodel.Action{
					{Kind: "REMOVE", Path: refmodel.Path{{Name: "lg"}, {IsIdx: true, Idx: ri}}},
					{Kind: "SET", Path: refmodel.Path{{Name: "lg"}, {IsIdx: true, Idx: si}}, RHS: &refmodel.UExpr{Kind: "val", Val: ":v"}},
				}}
				if r.Intn(3) == 0 {
					// (a third index, distinct from the other two: paths that overlap are refused by DynamoDB)
					ti := r.Intn(6)
					for ti == ri || ti == si {
						ti++
					}
					u.Actions = append(u.Actions, refmodel.Action{Kind: "REMOVE", Path: refmodel.Path{{Name: "lg"}, {IsIdx: true, Idx: ti}}})
				}
				if r.Intn(2) == 0 {
					u.ClauseOrder = []string{"SET", "REMOVE"}
				}
				op = adapt.Op{Kind: adapt.OpUpdate, Table: spec.Name, Key: k, Update: u.Render(map[string]string{}, refmodel.RenderOpts{}), UpdAST: u, Values: val.Item{":v": val.Str(fmt.Sprint("edited", i))}}
			}
		case 4:
			op = mon.AddUpdate(spec.Name, k, "n", val.Num(mon.Pick(r, []string{"1", "2", "-1", "10"})))
			if r.Intn(3) == 0 {
				// several actions in one update: a copy of the counter next to the ADD that changes it (the copy holds
				// the OLD value), a SET and a REMOVE alongside
				u := &refmodel.Update{Actions: []refmodel.Action{
					{Kind: "SET", Path: refmodel.P("prev"), RHS: &refmodel.UExpr{Kind: "path", Path: refmodel.P("n")}},
					{Kind: "ADD", Path: refmodel.P("n"), RHS: &refmodel.UExpr{Kind: "val", Val: ":v"}},
				}}
				if r.Intn(2) == 0 {
					u.Actions = append(u.Actions, refmodel.Action{Kind: "REMOVE", Path: refmodel.P(mon.Pick(r, []string{"b", "c", "d"}))})
				}
				// (the copy reads n through if_not_exists: the counter may not exist yet, and a bare missing path is an error)
				u.Actions[0].RHS = &refmodel.UExpr{Kind: "ifne", Path: refmodel.P("n"), Kids: []*refmodel.UExpr{{Kind: "val", Val: ":v"}}}
				op = adapt.Op{Kind: adapt.OpUpdate, Table: spec.Name, Key: k, Update: u.Render(map[string]string{}, refmodel.RenderOpts{}), UpdAST: u, Values: val.Item{":v": val.Num(mon.Pick(r, []string{"1", "25", "-3"}))}}
			}
		default:
			op = c01Op(spec, t, k, i)
			if op.Kind == adapt.OpDelete && r.Intn(3) == 0 {
				// a guarded delete whose condition names several attributes through placeholders: it deletes exactly when
				// the stored item satisfies it (each placeholder stands for its own attribute)
				pa := refmodel.Path{{Name: "a", Alias: "#pa"}}
				pz := refmodel.Path{{Name: mon.Pick(r, []string{"zzq", "b", "n"}), Alias: "#pz"}}
				pb := refmodel.Path{{Name: "l", Alias: "#pl"}}
				cond := &refmodel.Cond{Op: "and", Kids: []*refmodel.Cond{
					{Op: "exists", Args: []refmodel.Operand{{Kind: "path", Path: pa}}},
					{Op: mon.Pick(r, []string{"notexists", "exists"}), Args: []refmodel.Operand{{Kind: "path", Path: pz}}}}}
				if r.Intn(2) == 0 {
					cond = &refmodel.Cond{Op: "or", Kids: []*refmodel.Cond{cond, {Op: "notexists", Args: []refmodel.Operand{{Kind: "path", Path: pb}}}}}
				}
				op = mon.WithCond(op, cond, val.Item{}, refmodel.RenderOpts{})
			} else if op.Kind == adapt.OpDelete && r.Intn(2) == 0 {
				// ... or is a membership test with ONE member, on the flag (a BOOL) or on the whole list: "b IN (:f)",
				// "l IN (:whole)" - it deletes exactly when the stored attribute equals that member
				values := val.Item{}
				var cond *refmodel.Cond
				if r.Intn(2) == 0 {
					values[":f"] = val.Bool(r.Intn(2) == 0)
					cond = &refmodel.Cond{Op: "in", Args: []refmodel.Operand{{Kind: "path", Path: refmodel.P("b")}, {Kind: "val", Val: ":f"}}}
				} else {
					values[":whole"] = mon.Pick(r, []val.V{val.List(val.Str("x"), val.Num("1")), val.List(val.Str("x"), val.Num("1.0")), val.List(val.Str("x"))})
					cond = &refmodel.Cond{Op: "in", Args: []refmodel.Operand{{Kind: "path", Path: refmodel.P("l")}, {Kind: "val", Val: ":whole"}}}
				}
				op = mon.WithCond(op, cond, values, refmodel.RenderOpts{})
				x.r.Counters["deletes_guarded_by_a_single_member_in"]++
			}
			if op.Kind == adapt.OpGet && r.Intn(2) == 0 {
				// a read that names the attributes it wants (names that begin alike - n / near, l / lg, a / #a - are
				// different attributes; a projection never makes a stored item unreadable)
				op.Proj = mon.Pick(r, []string{"n, near, l, lg, a", "a, b, c, d", "#a, #ab, l[0], l[1]", "near, n", "lg[0], lg[1], lg[10], l", "cfg, #ab"})
				for ph, name := range map[string]string{"#a": "a", "#ab": "b"} {
					if strings.Contains(op.Proj, ph+",") || strings.HasSuffix(op.Proj, ph) {
						if op.Names == nil {
							op.Names = map[string]string{}
						}
						op.Names[ph] = name
					}
				}
			}
		}
		if r.Intn(6) == 0 {
			// a write that must be rejected
			switch r.Intn(5) {
			case 0:
				op = mon.RemoveUpdate(spec.Name, k, spec.Hash)
			case 1:
				// retyping the hash key attribute (a same-type SET of a key attribute is the listed finding of C13)
				if spec.HashT == "N" {
					op = mon.SetUpdate(spec.Name, k, spec.Hash, val.Str("seven"))
				} else {
					op = mon.SetUpdate(spec.Name, k, spec.Hash, val.Num("7"))
				}
			case 2:
				op = mon.SetUpdate(spec.Name, k, "a", val.Num("7")) // index key attribute of the wrong type
			case 3:
				it := k.Clone()
				it["a"] = val.Bool(true)
				op = adapt.Op{Kind: adapt.OpPut, Table: spec.Name, Item: it}
			default:
				if spec.Range != "" {
					op = mon.RemoveUpdate(spec.Name, k, spec.Range)
				} else {
					op = mon.SetUpdate(spec.Name, k, "a", val.List(val.Str("x")))
				}
			}
			t = 2
		}
		ops = append(ops, op)
		kinds = append(kinds, fmt.Sprintf("%s%d", c01TemplateNames[t], ki))
		dec = append(dec, [2]int{t, ki})
	}
	cl, m, ds := freshClient(adapter, spec)
	if ds != nil {
		x.viol("setup", "create", ds[0].Detail, spec)
		return x.r
	}
	st := &mon.HistoryStats{}
	f := mon.RunHistory(cl, m, ops, mon.KeyLog{}, true, nil, ctx.Trace, st)
	x.r.Evals += st.Calls
	x.r.Counters["histories"]++
	x.r.Counters["steps"] += st.Steps
	x.fp(c01NonTrivial(dec), "seeded|%s|%s%s%s|%s", adapter, spec.Range, spec.HashT, spec.RangeT, strings.Join(kinds, ","))
	x.set("key_types", spec.HashT+"/"+spec.RangeT)
	if f != nil {
		x.failureViolation(adapter, f, spec)
	}
	if idx < 2 {
		x.r.Sample = map[string]interface{}{"kind": "seeded", "adapter": adapter, "schema": spec, "ops": kinds, "first_op": ops[0]}
	}
	return x.r
}
