package props

import (
	"fmt"

	"github.com/truora/minidyn/interpreter"
	mtypes "github.com/truora/minidyn/types"

	"verifharness/adapt"
	"verifharness/mon"
	"verifharness/runner"
	"verifharness/val"
)

// interpreterSwap: the native interpreter of a client is REPLACED (SetInterpreter) between two identical
// requests. What the second request dispatches to is decided by the registrations of the interpreter that is
// installed NOW - the first request must leave nothing behind (no remembered "there is no matcher for this",
// no remembered callback). Scenarios per expression kind:
//
//	gain:    A has no callback for E (falls back / unsupported)  -> B has one: B's callback decides
//	replace: A's callback decided                               -> B's callback decides, A's never runs again
//	lose:    A's callback decided                               -> B has none: built-in fallback / unsupported
//
// with the same total number of registrations in A and B (padding registrations for other texts) and with
// different numbers, with the requests repeated 1-3 times before the swap, on both tables.
func (p *c20) interpreterSwap(x *res, adapter string, ctx *runner.Ctx) {
	type kindDef struct {
		kind string
		text string
	}
	kinds := []kindDef{{"key", "h = :k"}, {"filter", "a = :b"}, {"conditional", "a = :b"}, {"update", "SET x = :y"}}
	item := val.Item{"h": val.Str("k"), "a": val.Str("1"), "b": val.Str("2")}
	for _, kd := range kinds {
		for _, scenario := range []string{"gain", "replace", "lose"} {
			for _, sameCount := range []bool{true, false} {
				for warm := 1; warm <= 3; warm += 2 {
					cl := adapt.New(adapter)
					nc := nativeOf(cl)
					ran := map[string]int{}
					table := []string{"tba", "tbb"}[warm/2%2]
					build := func(id string, withE bool, pad int) *interpreter.Native {
						n := interpreter.NewNativeInterpreter()
						reg := func(tbl, kind, text, cb string) {
							if kind == "update" {
								n.AddUpdater(tbl, text, func(it map[string]*mtypes.Item, vals map[string]*mtypes.Item) {
									ran[cb]++
									s := cb
									it["cb"] = &mtypes.Item{S: &s}
								})
								return
							}
							et := map[string]interpreter.ExpressionType{"key": interpreter.ExpressionTypeKey, "filter": interpreter.ExpressionTypeFilter, "conditional": interpreter.ExpressionTypeConditional}[kind]
							n.AddMatcher(tbl, et, text, func(it map[string]*mtypes.Item, vals map[string]*mtypes.Item) bool {
								ran[cb]++
								return true
							})
						}
						if withE {
							reg(table, kd.kind, kd.text, id)
						}
						for i := 0; i < pad; i++ {
							reg(table, kd.kind, fmt.Sprintf("padding%d = :p", i), id+"-pad")
						}
						return n
					}
					aHas, bHas := scenario != "gain", scenario != "lose"
					padA, padB := 1, 1
					if sameCount {
						// equal totals: the interpreter without E gets one more padding registration
						if !aHas {
							padA = 2
						}
						if !bHas {
							padB = 2
						}
					} else {
						padB = 3
					}
					a, b := build("A", aHas, padA), build("B", bHas, padB)
					nc.setInterp(a)
					nc.activate()
					for _, s := range []adapt.TableSpec{mon.SpecHashOnly("tba"), mon.SpecHashOnly("tbb")} {
						cl.Do(createOp(s))
						cl.Do(adapt.Op{Kind: adapt.OpPut, Table: s.Name, Item: item})
					}
					request := func() (adapt.Outcome, val.Item) {
						cl.Do(adapt.Op{Kind: adapt.OpPut, Table: table, Item: item})
						var op adapt.Op
						switch kd.kind {
						case "key":
							// the built-in verdict of "h = :k" with :k = "zz" is false (no item)
							op = adapt.Op{Kind: adapt.OpQuery, Table: table, KeyCnd: kd.text, Values: val.Item{":k": val.Str("zz")}}
						case "filter":
							op = adapt.Op{Kind: adapt.OpScan, Table: table, Filter: kd.text, Values: val.Item{":b": val.Str("zz")}}
						case "conditional":
							it2 := item.Clone()
							it2["marker"] = val.Str("written")
							op = adapt.Op{Kind: adapt.OpPut, Table: table, Item: it2, Cond: kd.text, Values: val.Item{":b": val.Str("zz")}}
						default:
							op = adapt.Op{Kind: adapt.OpUpdate, Table: table, Key: val.Item{"h": val.Str("k")}, Update: kd.text, Values: val.Item{":y": val.Str("zz")}}
						}
						got := cl.Do(op)
						x.r.Evals++
						after := cl.Do(adapt.Op{Kind: adapt.OpGet, Table: table, Key: val.Item{"h": val.Str("k")}})
						return got, after.Item
					}
					// judge one request against the interpreter that is installed
					judge := func(phase, id string, has bool) bool {
						for k := range ran {
							delete(ran, k)
						}
						got, after := request()
						wit := map[string]interface{}{"adapter": adapter, "kind": kd.kind, "text": kd.text, "scenario": scenario, "same_registration_count": sameCount, "requests_before_swap": warm, "phase": phase, "outcome": got, "item_after": after, "callbacks_ran": fmt.Sprint(ran)}
						feature := fmt.Sprintf("%s/%s/%s", kd.kind, scenario, phase)
						other := map[string]string{"A": "B", "B": "A"}[id]
						if ran[other] > 0 || ran[other+"-pad"] > 0 || ran[id+"-pad"] > 0 {
							x.viol("wrong-callback-fired", "interpreter-swap/"+feature, fmt.Sprintf("[%s] %s request %q %s: callbacks that ran: %v; only the callback of the installed interpreter %s may run", adapter, kd.kind, kd.text, phase, ran, id), wit)
							return false
						}
						if has && ran[id] == 0 {
							x.viol("registered-callback-not-fired", "interpreter-swap/"+feature, fmt.Sprintf("[%s] %s request %q %s: the callback registered on the installed interpreter %s did not run (outcome %s)", adapter, kd.kind, kd.text, phase, id, got.Class), wit)
							return false
						}
						if !has && len(ran) > 0 {
							x.viol("wrong-callback-fired", "interpreter-swap/"+feature, fmt.Sprintf("[%s] %s request %q %s: no callback is registered on interpreter %s but %v ran", adapter, kd.kind, kd.text, phase, id, ran), wit)
							return false
						}
						// the verdict / mutation that was used
						okVerdict := true
						switch kd.kind {
						case "key", "filter":
							want := 0
							if has {
								want = 1
							}
							okVerdict = got.Class == adapt.ClsOK && len(got.Items) == want
						case "conditional":
							okVerdict = (has && got.Class == adapt.ClsOK) || (!has && got.Class == adapt.ClsCondFailed)
						default:
							if has {
								okVerdict = got.Class == adapt.ClsOK && after["cb"].Str == id && after["x"].IsAbsent()
							} else {
								okVerdict = got.Class == adapt.ClsUnsupported && val.ItemsEqual(after, item)
							}
						}
						if !okVerdict {
							x.viol("verdict-not-used", "interpreter-swap/"+feature, fmt.Sprintf("[%s] %s request %q %s (callback registered on the installed interpreter: %v): class %s, %d items, item afterwards %s", adapter, kd.kind, kd.text, phase, has, got.Class, len(got.Items), after.Canon()), wit)
							return false
						}
						return true
					}
					ok := true
					for i := 0; i < warm && ok; i++ {
						ok = judge("before-swap", "A", aHas)
					}
					if ok {
						nc.setInterp(b)
						for i := 0; i < 2 && ok; i++ {
							ok = judge("after-swap", "B", bHas)
						}
					}
					x.r.Counters["interpreter_swaps"]++
					x.fp(true, "swap|%s|%s|%s|%v|%d", adapter, kd.kind, scenario, sameCount, warm)
				}
			}
		}
	}
}
