package props

import (
	"fmt"
	"math/rand"
	"strings"

	"github.com/truora/minidyn/interpreter"

	"verifharness/adapt"
	"verifharness/mon"
	"verifharness/refmodel"
	"verifharness/runner"
	"verifharness/val"
)

// C13 – primary keys identify items faithfully and are enforced.
type c13 struct{ base }

func init() {
	runner.Register(&c13{base{id: "C13", level: "exploration",
		rule:        "R1 injectivity, exhaustive over a hostile pool: ALL ordered pairs of distinct (hash, range) tuples built from 17 near-colliding strings (a, a.b, b.c, a., ., a.b.c, a..b, \\, a\\.b …) for S/S, plus hash-only S, N/S, S/N, N/N, B/B and B/S schemas and three schemas over numeral-looking strings (1, 1.0, 1.00, 01, 1e0, 007 …) next to number parts with the same text: Put(k1,v1); Put(k2,v2); Get(k1)=v1; Get(k2)=v2; Scan has 2 items; Delete(k1) leaves k2. Thorough adds seeded random byte-string keys (any bytes incl. '.', NUL, backslash, UTF-8). R1c: all 783 pairs of S/S keys over the alphabet {a . \\} (parts of 1-3 characters) that collide under one of seven plausible-but-wrong composite-key encodings (naive join, partial escaping, conditional escaping, concatenation). R1b equal keys: a number key part written in two notations of one value (12 notation pairs, the other key part equal to either text) addresses one item (Get, overwrite, Scan count, Delete). R2 malformed keys, exhaustive: {missing hash, missing range, wrong type x the 9 other types} x {Put, Get, Update, Delete, BatchWrite, BatchGet} x both adapters must be rejected with a validation error. R3 every update action kind naming the hash or range attribute (bare and through #alias) on present and absent items: admissible = rejected or ignored, never an item whose key attributes differ from the key it is stored under. non-trivial = the two keys share a character with the internal separator or are prefix-related (R1), the request is malformed (R2), the update names a key attribute (R3); distinct by (schema, key pair) / (op, defect) / (action, attr). The malformed-key matrix is replayed, for the writes that carry expressions, with the native interpreter active (nothing registered): validation error all the same. The hostile pool includes '%' strings.",
		assumptions: commonAssumptions}})
}

var c13Pool = dedupe(append(append([]string{}, mon.HostileKeys...), "\\", "a\\.b", "a\\", "x"))

func dedupe(xs []string) []string {
	seen := map[string]bool{}
	out := []string{}
	for _, x := range xs {
		if !seen[x] {
			seen[x] = true
			out = append(out, x)
		}
	}
	return out
}

type c13Schema struct {
	name         string
	hashT, rngT  string
	hashes, rngs []string
	hashOnly     bool
}

var c13Schemas = []c13Schema{
	{name: "S/S", hashT: "S", rngT: "S", hashes: c13Pool, rngs: c13Pool},
	{name: "S", hashT: "S", hashes: c13Pool, hashOnly: true},
	{name: "N/S", hashT: "N", rngT: "S", hashes: []string{"1", "10", "2", "-1", "0.5", "100", "0", "-10", "1.5", "15", "-1.5", "0.05", "5", "1E3", "-0.5"}, rngs: c13Pool[:6]},
	{name: "S/N", hashT: "S", rngT: "N", hashes: c13Pool[:6], rngs: []string{"1", "10", "2", "-1", "0.5", "100", "0", "-10", "1.5", "15", "-1.5", "0.05", "5", "1E3", "-0.5"}},
	{name: "N/N", hashT: "N", rngT: "N", hashes: []string{"1", "10", "2", "-1", "0.5", "100", "0", "-10", "1.5", "15", "-1.5", "0.05", "5", "1E3", "-0.5"}[:8], rngs: []string{"1", "10", "2", "-1", "0.5", "100", "0", "-10", "1.5", "15", "-1.5", "0.05", "5", "1E3", "-0.5"}[:8]},
	{name: "B/B", hashT: "B", rngT: "B", hashes: []string{"a", "a.", "\x00", "\x00\x01", ".", "\xff"}, rngs: []string{"a", ".a", "\x01", "\x00", ".", "\xff\x00"}},
	// numeral-looking STRINGS next to numbers whose text equals one of those strings: a string key part is
	// identified by its characters ("1.0" and "1.00" are different keys), a number key part by its value
	{name: "N/S-numerals", hashT: "N", rngT: "S", hashes: []string{"1.0", "2.00"}, rngs: c13NumeralStrings},
	{name: "S/N-numerals", hashT: "S", rngT: "N", hashes: c13NumeralStrings, rngs: []string{"1.0", "2.00"}},
	{name: "S-numerals", hashT: "S", hashes: c13NumeralStrings, hashOnly: true},
	{name: "B/S", hashT: "B", rngT: "S", hashes: []string{"a", "a.b", "\x00", "\x00\x01", ".", "[1 2]", "1 2", "\x01\x02"}, rngs: c13Pool[:6]},
	// number keys that need all 38 digits: neighbours beyond 2^53, beyond 64 mantissa bits, in the last of 38
	// digits, tiny fractional differences, the ends of the exponent range - every two of them are different keys
	{name: "N-big", hashT: "N", hashes: c13BigNumerals, hashOnly: true},
	{name: "N/N-big", hashT: "N", rngT: "N", hashes: c13BigNumerals[:8], rngs: c13BigNumerals[4:14]},
	{name: "S/N-big", hashT: "S", rngT: "N", hashes: c13Pool[:3], rngs: c13BigNumerals},
	{name: "N/S-big", hashT: "N", rngT: "S", hashes: c13BigNumerals, rngs: c13Pool[:3]},
}

var c13BigNumerals = []string{"9007199254740992", "9007199254740993", "9007199254740994", "-9007199254740993", "1152921504606846977", "1152921504606846978",
	"20260928123456000000001", "20260928123456000000002", "12345678901234567890123456789012345678", "12345678901234567890123456789012345679",
	"1.00000000000000000001", "1.00000000000000000002", "0.1", "0.10000000000000000000000000000000000001", "1E-130", "1.1E-130", "9.9E125", "9.8999999999999999999999999999999999999E125",
	"-9007199254740992", "1E37", "10000000000000000000000000000000000001", "1541815603606036480", "1541815603606036481"}

var c13NumeralStrings = []string{"1", "1.0", "1.00", "01", "1e0", "2.00", "2", "007", "7", "-0", "0"}

// notations of equal value: a number key part written either way addresses the same item
var c13EqualNumerals = [][2]string{{"1", "1.0"}, {"1.0", "1.00"}, {"10", "1e1"}, {"100", "1E2"}, {"0.5", "0.50"}, {"-1", "-1.0"}, {"0", "-0"}, {"0", "0.0"}, {"7", "007"}, {"72.5", "72.50"}, {"1000", "1E+3"}, {"0.001", "1e-3"},
	{"9007199254740993", "9007199254740993.0"}, {"9007199254740993", "9.007199254740993E15"}, {"12345678901234567890123456789012345678", "1.2345678901234567890123456789012345678E37"},
	{"20260928123456000000001", "20260928123456000000001.000"}, {"1E-130", "0.1E-129"}}

type c13Pair struct {
	schema int
	a, b   [2]int
}

var c13Pairs []c13Pair

func c13BuildPairs() {
	for si, s := range c13Schemas {
		tuples := [][2]int{}
		for i := range s.hashes {
			if s.hashOnly {
				tuples = append(tuples, [2]int{i, 0})
				continue
			}
			for j := range s.rngs {
				tuples = append(tuples, [2]int{i, j})
			}
		}
		for _, a := range tuples {
			for _, b := range tuples {
				if a != b {
					c13Pairs = append(c13Pairs, c13Pair{si, a, b})
				}
			}
		}
	}
}

const c13Block = 400

type c13Malformed struct {
	op     string
	defect string
}

var c13MalformedList []c13Malformed

func init() {
	c13BuildPairs()
	for _, op := range []string{"put", "get", "update", "delete", "batchwrite", "batchget", "put-cond-false", "update-cond-false", "delete-cond-false", "put-cond-true", "query-start-key", "scan-start-key", "index-query-start-key", "index-scan-start-key"} {
		for _, d := range []string{"missing-hash", "missing-range", "empty-key", "hash-empty-value", "range-empty-value", "surplus-attribute", "hash-two-types", "range-two-types", "range-untyped"} {
			c13MalformedList = append(c13MalformedList, c13Malformed{op, d})
		}
		for _, k := range val.AllKinds {
			if k != val.KS {
				c13MalformedList = append(c13MalformedList, c13Malformed{op, "hash-type-" + string(k)}, c13Malformed{op, "range-type-" + string(k)})
			}
		}
	}
}

func (p *c13) NumCases(tier string) int {
	n := (len(c13Pairs)+c13Block-1)/c13Block + 2 + 2 + 2 + c13ConfBlocks()
	if tier == "thorough" {
		n += 2000
	} else {
		n += 2 // quick: two seeded cases, which also hold the multi-table batch rule
	}
	return n
}

// batchKeys (R1d): keys written through ONE BatchWriteItem that spans 2-4 tables - every item is stored in the
// table its request names, under the key its request carries: afterwards each table holds exactly its own items,
// each retrievable under its own key, and a batch of deletes removes exactly the addressed items. Repeated with
// fresh clients because the order in which a call visits its tables differs from call to call.
func (p *c13) batchKeys(x *res, adapter string, r *rand.Rand, ctx *runner.Ctx) {
	for round := 0; round < 40; round++ {
		nt := 2 + r.Intn(3)
		specs := []adapt.TableSpec{}
		for i := 0; i < nt; i++ {
			sp := c13Schemas[0].spec()
			if i%2 == 1 {
				sp = c13Schemas[2].spec() // N/S
			}
			sp.Name = fmt.Sprintf("tb%c13", 'a'+i)
			specs = append(specs, sp)
		}
		cl, _, ds := freshClient(adapter, specs...)
		if ds != nil {
			return
		}
		want := map[string][]val.Item{}
		batch := []adapt.BatchEntry{}
		per := 1 + r.Intn(3)
		for i, sp := range specs {
			for j := 0; j < per; j++ {
				var it val.Item
				if sp.HashT == "N" {
					it = mon.KeyFor(sp, fmt.Sprint(1+j), mon.Pick(r, c13Pool[:6]))
				} else {
					it = mon.KeyFor(sp, mon.Pick(r, c13Pool), fmt.Sprint("r", j))
				}
				it["payload"] = val.Str(fmt.Sprintf("t%d-%d", i, j))
				dup := false
				for _, w := range want[sp.Name] {
					if mon.KeyFor(sp, "", "").Canon() != "" && keyOnly(sp, w).Canon() == keyOnly(sp, it).Canon() {
						dup = true
					}
				}
				if dup {
					continue
				}
				want[sp.Name] = append(want[sp.Name], it)
				batch = append(batch, adapt.BatchEntry{Table: sp.Name, Put: it})
			}
		}
		r.Shuffle(len(batch), func(i, j int) { batch[i], batch[j] = batch[j], batch[i] })
		got := cl.Do(adapt.Op{Kind: adapt.OpBatchWrite, Batch: batch})
		x.r.Evals++
		x.r.Counters["multi_table_batches"]++
		x.fp(true, "batchkeys|%s|%d|%d", adapter, nt, per)
		wit := map[string]interface{}{"adapter": adapter, "tables": nt, "batch": batch, "outcome": got}
		if got.Class != adapt.ClsOK {
			x.viol("valid-batch-rejected", "multi-table", fmt.Sprintf("[%s] BatchWriteItem over %d tables failed: %s %s", adapter, nt, got.Class, got.Msg), wit)
			return
		}
		check := func(phase string) bool {
			for _, sp := range specs {
				sc := cl.Do(adapt.Op{Kind: adapt.OpScan, Table: sp.Name})
				x.r.Evals++
				if adapt.ItemsSetCanon(sc.Items) != adapt.ItemsSetCanon(want[sp.Name]) {
					x.viol("batch-item-under-wrong-key", "multi-table/"+phase, fmt.Sprintf("[%s] %s a BatchWriteItem over %d tables, table %s holds %s; its requests were %s", adapter, phase, nt, sp.Name, adapt.ItemsSetCanon(sc.Items), adapt.ItemsSetCanon(want[sp.Name])), wit)
					return false
				}
				for _, it := range want[sp.Name] {
					g := cl.Do(adapt.Op{Kind: adapt.OpGet, Table: sp.Name, Key: keyOnly(sp, it)})
					x.r.Evals++
					if !val.ItemsEqual(g.Item, it) {
						x.viol("batch-item-under-wrong-key", "multi-table/"+phase, fmt.Sprintf("[%s] %s a BatchWriteItem over %d tables, GetItem(%s, %s) = %s, written %s", adapter, phase, nt, sp.Name, keyOnly(sp, it).Canon(), g.Item.Canon(), it.Canon()), wit)
						return false
					}
				}
			}
			return true
		}
		if !check("after") {
			return
		}
		// delete the first item of every table in one batch
		del := []adapt.BatchEntry{}
		for _, sp := range specs {
			if len(want[sp.Name]) > 0 {
				del = append(del, adapt.BatchEntry{Table: sp.Name, Del: keyOnly(sp, want[sp.Name][0])})
				want[sp.Name] = want[sp.Name][1:]
			}
		}
		if d := cl.Do(adapt.Op{Kind: adapt.OpBatchWrite, Batch: del}); d.Class == adapt.ClsOK {
			if !check("after the deletes of") {
				return
			}
		}
	}
}

func keyOnly(sp adapt.TableSpec, it val.Item) val.Item {
	k := val.Item{sp.Hash: it[sp.Hash]}
	if sp.Range != "" {
		k[sp.Range] = it[sp.Range]
	}
	return k
}

func c13ConfBlocks() int { return (len(mon.ConfusablePairs()) + c13Block/2 - 1) / (c13Block / 2) }

func (s c13Schema) spec() adapt.TableSpec {
	sp := adapt.TableSpec{Name: "tbl13", Hash: "h", HashT: s.hashT, Billing: "PAY_PER_REQUEST"}
	if !s.hashOnly {
		sp.Range, sp.RangeT = "r", s.rngT
	}
	return sp
}

func (p *c13) pair(x *res, adapter string, spec adapt.TableSpec, k1, k2 val.Item, label string, ctx *runner.Ctx) {
	cl, _, ds := freshClient(adapter, spec)
	if ds != nil {
		x.viol("setup", "create", ds[0].Detail, spec)
		return
	}
	i1, i2 := k1.Clone(), k2.Clone()
	i1["v"], i2["v"] = val.Str("first"), val.Str("second")
	ctx.Trace("%s pair %s %s", adapter, k1.Canon(), k2.Canon())
	p1 := cl.Do(adapt.Op{Kind: adapt.OpPut, Table: spec.Name, Item: i1})
	p2 := cl.Do(adapt.Op{Kind: adapt.OpPut, Table: spec.Name, Item: i2})
	g1 := cl.Do(adapt.Op{Kind: adapt.OpGet, Table: spec.Name, Key: k1})
	g2 := cl.Do(adapt.Op{Kind: adapt.OpGet, Table: spec.Name, Key: k2})
	sc := cl.Do(adapt.Op{Kind: adapt.OpScan, Table: spec.Name})
	d1 := cl.Do(adapt.Op{Kind: adapt.OpDelete, Table: spec.Name, Key: k1})
	g2b := cl.Do(adapt.Op{Kind: adapt.OpGet, Table: spec.Name, Key: k2})
	g1b := cl.Do(adapt.Op{Kind: adapt.OpGet, Table: spec.Name, Key: k1})
	x.r.Evals += 8
	wit := map[string]interface{}{"adapter": adapter, "spec": spec, "k1": k1, "k2": k2}
	bad := ""
	switch {
	case p1.Class != adapt.ClsOK || p2.Class != adapt.ClsOK:
		bad = fmt.Sprintf("put classes %s/%s (%s %s)", p1.Class, p2.Class, p1.Msg, p2.Msg)
	case !val.ItemsEqual(g1.Item, i1):
		bad = fmt.Sprintf("Get(k1) = %s, want %s", g1.Item.Canon(), i1.Canon())
	case !val.ItemsEqual(g2.Item, i2):
		bad = fmt.Sprintf("Get(k2) = %s, want %s", g2.Item.Canon(), i2.Canon())
	case len(sc.Items) != 2:
		bad = fmt.Sprintf("scan has %d items, want 2", len(sc.Items))
	case d1.Class != adapt.ClsOK:
		bad = "delete failed: " + d1.Class
	case !val.ItemsEqual(g2b.Item, i2):
		bad = fmt.Sprintf("after Delete(k1), Get(k2) = %s, want %s", g2b.Item.Canon(), i2.Canon())
	case g1b.Item != nil:
		bad = fmt.Sprintf("after Delete(k1), Get(k1) = %s", g1b.Item.Canon())
	}
	if bad != "" {
		x.viol("key-collision", label, fmt.Sprintf("[%s] schema %s keys %s and %s: %s", adapter, label, k1.Canon(), k2.Canon(), bad), wit)
	}
}

func (p *c13) RunCase(ctx *runner.Ctx) runner.CaseResult {
	x := newRes()
	blocks := (len(c13Pairs) + c13Block - 1) / c13Block
	switch {
	case ctx.Case < blocks:
		for i := ctx.Case * c13Block; i < (ctx.Case+1)*c13Block && i < len(c13Pairs); i++ {
			pr := c13Pairs[i]
			s := c13Schemas[pr.schema]
			spec := s.spec()
			rng := func(j int) string {
				if s.hashOnly {
					return ""
				}
				return s.rngs[j]
			}
			k1 := mon.KeyFor(spec, s.hashes[pr.a[0]], rng(pr.a[1]))
			k2 := mon.KeyFor(spec, s.hashes[pr.b[0]], rng(pr.b[1]))
			adapter := adapt.Adapters[i%2]
			p.pair(x, adapter, spec, k1, k2, s.name, ctx)
			x.fp(true, "%s|%d|%v|%v", s.name, i%2, pr.a, pr.b)
		}
		if ctx.Case%20 == 0 {
			pr := c13Pairs[ctx.Case*c13Block]
			s := c13Schemas[pr.schema]
			x.r.Sample = map[string]interface{}{"kind": "pair", "schema": s.name, "hash1": s.hashes[pr.a[0]], "hash2": s.hashes[pr.b[0]]}
		}
	case ctx.Case < blocks+2:
		p.malformed(x, adapt.Adapters[ctx.Case-blocks], ctx)
		p.numberKeys(x, adapt.Adapters[ctx.Case-blocks], ctx)
		p.keysSurviveIndexChurn(x, adapt.Adapters[ctx.Case-blocks])
		p.keySchemas(x, adapt.Adapters[ctx.Case-blocks])
		p.keyTypesOnEmptyTables(x, adapt.Adapters[ctx.Case-blocks])
	case ctx.Case < blocks+4:
		p.keyUpdates(x, adapt.Adapters[ctx.Case-blocks-2], ctx)
	case ctx.Case < blocks+6:
		p.equalKeys(x, adapt.Adapters[ctx.Case-blocks-4], ctx)
	case ctx.Case < blocks+6+c13ConfBlocks():
		// every pair of S/S keys over {a . \}^(1..3) that collides under a plausible-but-wrong encoding
		cp := mon.ConfusablePairs()
		b := ctx.Case - blocks - 6
		spec := c13Schemas[0].spec()
		for i := b * c13Block / 2; i < (b+1)*c13Block/2 && i < len(cp); i++ {
			for _, adapter := range adapt.Adapters {
				p.pair(x, adapter, spec, mon.KeyFor(spec, cp[i][0][0], cp[i][0][1]), mon.KeyFor(spec, cp[i][1][0], cp[i][1][1]), "S/S-confusable", ctx)
				x.fp(true, "conf|%s|%d", adapter, i)
			}
		}
	default:
		idx := ctx.Case - blocks - 6 - c13ConfBlocks()
		r := mon.Rng(ctx.Seed, "C13", idx)
		rb := func() string {
			n := 1 + r.Intn(6)
			b := make([]byte, n)
			for i := range b {
				b[i] = mon.Pick(r, []byte{'.', '\\', 'a', 'b', 0, 0xff, 0xc3, 0xa9, ' ', '[', ']', '1'})
			}
			return string(b)
		}
		p.batchKeys(x, adapt.Adapters[idx%2], r, ctx)
		for k := 0; k < 50; k++ {
			spec := c13Schemas[0].spec()
			if k%5 == 4 {
				spec = c13Schemas[5].spec() // binary keys (number keys take numerals only: numberKeys)
			}
			var k1, k2 val.Item
			for {
				k1 = mon.KeyFor(spec, rb(), rb())
				k2 = mon.KeyFor(spec, rb(), rb())
				if k1.Canon() != k2.Canon() {
					break
				}
			}
			p.pair(x, adapt.Adapters[k%2], spec, k1, k2, "random-bytes/"+spec.HashT, ctx)
			x.fp(true, "rb|%s|%s", k1.Canon(), k2.Canon())
		}
	}
	return x.r
}

// equalKeys: the "if" direction of key identity. A number-typed key part written in two notations of the
// same value addresses ONE item, whatever the other key part is - in particular when the other (string)
// part has the very same text as one of the notations.
func (p *c13) equalKeys(x *res, adapter string, ctx *runner.Ctx) {
	type sch struct {
		name         string
		hashT, rngT  string
		numHash, two bool
	}
	for _, sc := range []sch{{"N", "N", "", true, false}, {"N/S", "N", "S", true, false}, {"S/N", "S", "N", false, false}, {"N/N", "N", "N", true, true}, {"B/N", "B", "N", false, false}} {
		spec := adapt.TableSpec{Name: "tbl13", Hash: "h", HashT: sc.hashT, Billing: "PAY_PER_REQUEST"}
		if sc.rngT != "" {
			spec.Range, spec.RangeT = "r", sc.rngT
		}
		for _, pr := range c13EqualNumerals {
			for _, other := range []string{pr[0], pr[1], "x", "3"} {
				if other == "x" && (sc.two || sc.rngT == "") {
					continue
				}
				for dir := 0; dir < 2; dir++ {
					a, b := pr[dir], pr[1-dir]
					var k1, k2 val.Item
					switch {
					case sc.rngT == "":
						k1, k2 = mon.KeyFor(spec, a, ""), mon.KeyFor(spec, b, "")
					case sc.two:
						if other == "x" {
							continue
						}
						k1, k2 = mon.KeyFor(spec, a, other), mon.KeyFor(spec, b, other)
					case sc.numHash:
						k1, k2 = mon.KeyFor(spec, a, other), mon.KeyFor(spec, b, other)
					default:
						k1, k2 = mon.KeyFor(spec, other, a), mon.KeyFor(spec, other, b)
					}
					cl, _, ds := freshClient(adapter, spec)
					if ds != nil {
						x.viol("setup", "create", ds[0].Detail, spec)
						return
					}
					i1, i2 := k1.Clone(), k2.Clone()
					i1["v"], i2["v"] = val.Str("first"), val.Str("second")
					ctx.Trace("%s equal keys %s %s", adapter, k1.Canon(), k2.Canon())
					p1 := cl.Do(adapt.Op{Kind: adapt.OpPut, Table: spec.Name, Item: i1})
					g := cl.Do(adapt.Op{Kind: adapt.OpGet, Table: spec.Name, Key: k2})
					p2 := cl.Do(adapt.Op{Kind: adapt.OpPut, Table: spec.Name, Item: i2})
					scn := cl.Do(adapt.Op{Kind: adapt.OpScan, Table: spec.Name})
					g1 := cl.Do(adapt.Op{Kind: adapt.OpGet, Table: spec.Name, Key: k1})
					d := cl.Do(adapt.Op{Kind: adapt.OpDelete, Table: spec.Name, Key: k1})
					scn2 := cl.Do(adapt.Op{Kind: adapt.OpScan, Table: spec.Name})
					x.r.Evals += 7
					x.fp(true, "equal|%s|%s|%s|%s|%s", adapter, sc.name, a, b, other)
					bad := ""
					switch {
					case p1.Class != adapt.ClsOK || p2.Class != adapt.ClsOK || d.Class != adapt.ClsOK:
						bad = fmt.Sprintf("classes put %s put %s delete %s", p1.Class, p2.Class, d.Class)
					case !val.ItemsEqual(g.Item, i1):
						bad = fmt.Sprintf("Get with the other notation returned %s, want %s", g.Item.Canon(), i1.Canon())
					case len(scn.Items) != 1:
						bad = fmt.Sprintf("after a Put under each notation the table has %d items, want 1", len(scn.Items))
					case !val.ItemsEqual(g1.Item, i2):
						bad = fmt.Sprintf("Get(first notation) after the second Put = %s, want %s", g1.Item.Canon(), i2.Canon())
					case len(scn2.Items) != 0:
						bad = fmt.Sprintf("after Delete the table still has %d items", len(scn2.Items))
					}
					if bad != "" {
						x.viol("equal-keys-distinct-items", sc.name, fmt.Sprintf("[%s] schema %s keys %s and %s are the same key: %s", adapter, sc.name, k1.Canon(), k2.Canon(), bad),
							map[string]interface{}{"adapter": adapter, "spec": spec, "k1": k1, "k2": k2})
					}
				}
			}
		}
	}
}

func (p *c13) malformed(x *res, adapter string, ctx *runner.Ctx) {
	spec := mon.SpecHashRange("tbl13")
	// (a global index, for the reads that continue THROUGH an index: their start key is a key of the index AND of the table)
	spec.Indexes = []adapt.IndexSpec{{Name: "gsi", Hash: "g", Range: "s"}}
	// every entry once with the expression language, and the writes that carry expressions once more with the native
	// interpreter active (nothing registered): a malformed key is a validation error before anybody looks for callbacks
	list := append([]c13Malformed{}, c13MalformedList...)
	nativeFrom := len(list)
	for _, mf := range c13MalformedList {
		if strings.HasPrefix(mf.op, "update") || strings.Contains(mf.op, "-cond-") {
			list = append(list, mf)
		}
	}
	for mi, mf := range list {
		cl, _, ds := freshClient(adapter, spec)
		if ds != nil {
			return
		}
		if mi >= nativeFrom {
			nc := nativeOf(cl)
			nc.setInterp(interpreter.NewNativeInterpreter())
			nc.activate()
			x.r.Counters["malformed_keys_in_native_mode"]++
		}
		good := val.Item{"h": val.Str("a"), "r": val.Str("b"), "v": val.Num("1"), "g": val.Str("x"), "s": val.Str("y")}
		cl.Do(adapt.Op{Kind: adapt.OpPut, Table: spec.Name, Item: good})
		key := val.Item{"h": val.Str("a"), "r": val.Str("b")}
		switch {
		case mf.defect == "missing-hash":
			delete(key, "h")
		case mf.defect == "missing-range":
			delete(key, "r")
		case mf.defect == "empty-key":
			key = val.Item{}
		case mf.defect == "surplus-attribute":
			// a Key consists of the key attributes and nothing else ("the provided key element does not match the
			// schema"); for the operations that take an ITEM a further attribute is of course fine
			if strings.HasPrefix(mf.op, "put") || mf.op == "batchwrite" {
				continue
			}
			key["v"] = val.Str("not a key attribute")
		case mf.defect == "hash-empty-value":
			// a key attribute of the declared type whose value is empty is not a valid key value
			key["h"] = val.Str("")
		case mf.defect == "range-empty-value":
			key["r"] = val.Str("")
		case mf.defect == "hash-two-types":
			// a key value that carries the declared type AND another one (the SDK v1 structure can express it): not a key value
			key["h"] = val.Invalid("two-types")
		case mf.defect == "range-two-types":
			key["r"] = val.Invalid("two-types")
		case mf.defect == "range-untyped":
			key["r"] = val.Invalid("empty")
		case len(mf.defect) > 10 && mf.defect[:10] == "hash-type-":
			key["h"] = mon.ValueOfKind(mon.Rng(1, "x", 1), val.Kind(mf.defect[10:]), 1, mon.GenOpts{NoEmptyLM: true})
		default:
			key["r"] = mon.ValueOfKind(mon.Rng(1, "x", 1), val.Kind(mf.defect[11:]), 1, mon.GenOpts{NoEmptyLM: true})
		}
		var op adapt.Op
		switch mf.op {
		case "put":
			it := key.Clone()
			it["v"] = val.Num("2")
			op = adapt.Op{Kind: adapt.OpPut, Table: spec.Name, Item: it}
		case "get":
			op = adapt.Op{Kind: adapt.OpGet, Table: spec.Name, Key: key}
		case "update":
			op = mon.SetUpdate(spec.Name, key, "v", val.Num("3"))
		case "delete":
			op = adapt.Op{Kind: adapt.OpDelete, Table: spec.Name, Key: key}
		case "put-cond-false", "put-cond-true":
			// a condition does not turn a malformed request into a well-formed one that merely fails its check
			it := key.Clone()
			it["v"] = val.Num("2")
			cnd := "attribute_exists(nosuchattr)"
			if mf.op == "put-cond-true" {
				cnd = "attribute_not_exists(nosuchattr)"
			}
			op = adapt.Op{Kind: adapt.OpPut, Table: spec.Name, Item: it, Cond: cnd}
		case "update-cond-false":
			op = mon.SetUpdate(spec.Name, key, "v", val.Num("3"))
			op.Cond = "attribute_exists(nosuchattr)"
		case "delete-cond-false":
			op = adapt.Op{Kind: adapt.OpDelete, Table: spec.Name, Key: key, Cond: "attribute_exists(nosuchattr)"}
		case "query-start-key", "scan-start-key":
			// an ExclusiveStartKey is a key of the request like any other: one that cannot be located is refused,
			// it does not silently turn the read into one that starts from the beginning
			if mf.defect == "empty-key" {
				continue // no start key at all
			}
			if mf.op == "scan-start-key" {
				op = adapt.Op{Kind: adapt.OpScan, Table: spec.Name, Start: key}
			} else {
				op = adapt.Op{Kind: adapt.OpQuery, Table: spec.Name, KeyCnd: "h = :h", Values: val.Item{":h": val.Str("a")}, Start: key}
			}
		case "index-query-start-key", "index-scan-start-key":
			// the same through an index: the start key holds the key of the index, well formed, and the (defective)
			// primary key - an index entry is located by both
			if mf.defect == "empty-key" {
				continue
			}
			start := key.Clone()
			start["g"], start["s"] = val.Str("x"), val.Str("y")
			if mf.op == "index-scan-start-key" {
				op = adapt.Op{Kind: adapt.OpScan, Table: spec.Name, Index: "gsi", Start: start}
			} else {
				op = adapt.Op{Kind: adapt.OpQuery, Table: spec.Name, Index: "gsi", KeyCnd: "g = :g", Values: val.Item{":g": val.Str("x")}, Start: start}
			}
		case "batchwrite":
			it := key.Clone()
			it["v"] = val.Num("2")
			op = adapt.Op{Kind: adapt.OpBatchWrite, Batch: []adapt.BatchEntry{{Table: spec.Name, Put: it}}}
		case "batchget":
			op = adapt.Op{Kind: adapt.OpBatchGet, Gets: []adapt.BatchEntry{{Table: spec.Name, Del: key}}}
		}
		ctx.Trace("%s malformed %s", adapter, op.String())
		got := cl.Do(op)
		x.r.Evals++
		x.fp(true, "malformed|%s|%s|%s|%v", adapter, mf.op, mf.defect, mi >= nativeFrom)
		x.set("classes", got.Class)
		if got.Class == adapt.ClsNotImpl {
			continue
		}
		wit := map[string]interface{}{"adapter": adapter, "op": op, "outcome": got}
		ok := got.Class == adapt.ClsValidation || got.Class == adapt.ClsParam
		if mf.op == "batchget" && got.Class == adapt.ClsOK {
			// the SDK v2 adapter reports per-key failures of BatchGetItem through UnprocessedKeys instead of
			// rejecting the request (pinned by its TestPutAndGetBatchItem): ONE listed finding, whatever the defect of
			// the key; a malformed key that is answered with an item or silently dropped is something else
			if len(got.Resp[spec.Name]) == 0 && len(got.UnprocK[spec.Name]) == 1 {
				x.r.Counters["batchget_malformed_key_unprocessed"]++
				x.viol("batchget-malformed-key-reported-unprocessed", adapter, fmt.Sprintf("[%s] BatchGetItem with %s key %s succeeds and lists the key under UnprocessedKeys, want a validation error", adapter, mf.defect, key.Canon()), wit)
				continue
			}
		}
		if !ok && mf.defect == "surplus-attribute" {
			// ONE listed finding whatever the operation: the repository's own TestUpdate passes a whole item as Key
			x.viol("surplus-key-attribute-accepted", adapter, fmt.Sprintf("[%s] %s with the key %s, which carries an attribute that is no key attribute: class %s, want a validation error", adapter, mf.op, key.Canon(), got.Class), wit)
			continue
		}
		if !ok {
			x.viol("malformed-key-not-rejected", mf.op+"/"+defectClass(mf.defect)+"/"+got.Class, fmt.Sprintf("[%s] %s with %s key %s: class %s (%s), want a validation error", adapter, mf.op, mf.defect, key.Canon(), got.Class, got.Msg), wit)
			continue
		}
		// nothing may have changed
		g := cl.Do(adapt.Op{Kind: adapt.OpGet, Table: spec.Name, Key: val.Item{"h": val.Str("a"), "r": val.Str("b")}})
		s := cl.Do(adapt.Op{Kind: adapt.OpScan, Table: spec.Name})
		if !val.ItemsEqual(g.Item, good) || len(s.Items) != 1 {
			x.viol("malformed-key-changed-state", mf.op+"/"+defectClass(mf.defect), fmt.Sprintf("[%s] rejected %s with %s key changed the table", adapter, mf.op, mf.defect), wit)
		}
	}
}

// numberKeys: a key attribute declared N takes numbers, nothing else. Texts that are no numeral, numerals with more
// than 38 significant digits and magnitudes outside DynamoDB's range (1E-130 .. 9.99E+125) are refused by every
// operation - stored, they would be filed under their text (" 1" next to "1") or, beyond the range, collide with
// another number; the numerals at the edge of the range are accepted and stay distinct.
func (p *c13) numberKeys(x *res, adapter string, ctx *runner.Ctx) {
	spec := adapt.TableSpec{Name: "tbl13n", Hash: "h", HashT: "N", Range: "r", RangeT: "N", Billing: "PAY_PER_REQUEST"}
	bad := []string{"abc", "NaN", "Infinity", "-Infinity", " 1", "1 ", "1e", "e5", "0x10", "1e999", "1e127", "1e-131", "0.15e-4000", "0.5e5001", "--1", "1.2.3", "1e5e5", "1,5", "١٢", "1_000",
		"1234567890123456789012345678901234567890", "0.0000000000000000000000000000000000000012345678901234567890123456789012345678901"}
	good := []string{"1e-130", "9.9999999999999999999999999999999999999e125", "1E+125", "-1e-130", "-9.9999999999999999999999999999999999999E125", "12345678901234567890123456789012345678", "0.00", "-0", "1e126"}
	// "1e126" is 1 followed by 126 zeros = 10^126 > 9.99E+125: out of range - moved to bad below
	good = good[:len(good)-1]
	bad = append(bad, "1e126")
	for _, part := range []string{"h", "r"} {
		for _, numeral := range bad {
			for oi, opn := range []string{"put", "get", "update", "delete", "batchwrite"} {
				cl, _, ds := freshClient(adapter, spec)
				if ds != nil {
					return
				}
				key := val.Item{"h": val.Num("1"), "r": val.Num("2")}
				key[part] = val.V{K: val.KN, Str: numeral}
				var op adapt.Op
				switch opn {
				case "put":
					it := key.Clone()
					it["v"] = val.Str("x")
					op = adapt.Op{Kind: adapt.OpPut, Table: spec.Name, Item: it}
				case "get":
					op = adapt.Op{Kind: adapt.OpGet, Table: spec.Name, Key: key}
				case "update":
					op = mon.SetUpdate(spec.Name, key, "v", val.Str("x"))
				case "delete":
					op = adapt.Op{Kind: adapt.OpDelete, Table: spec.Name, Key: key}
				default:
					it := key.Clone()
					op = adapt.Op{Kind: adapt.OpBatchWrite, Batch: []adapt.BatchEntry{{Table: spec.Name, Put: it}}}
				}
				got := cl.Do(op)
				x.r.Evals++
				x.fp(true, "numberkey|%s|%s|%s|%d", adapter, part, numeral, oi)
				if got.Class != adapt.ClsValidation && got.Class != adapt.ClsParam {
					n := cl.Do(adapt.Op{Kind: adapt.OpScan, Table: spec.Name})
					x.viol("number-key-not-a-number", opn+"/"+part, fmt.Sprintf("[%s] %s with the %s key value N %q: class %s (%s), want a validation error; the table now holds %d items", adapter, opn, part, numeral, got.Class, got.Msg, len(n.Items)),
						map[string]interface{}{"adapter": adapter, "op": op, "outcome": got})
				}
			}
		}
	}
	cl, _, ds := freshClient(adapter, spec)
	if ds != nil {
		return
	}
	for i, numeral := range good {
		it := val.Item{"h": val.V{K: val.KN, Str: numeral}, "r": val.Num("0"), "v": val.Str(fmt.Sprint("item", i))}
		if got := cl.Do(adapt.Op{Kind: adapt.OpPut, Table: spec.Name, Item: it}); got.Class != adapt.ClsOK {
			x.viol("valid-number-key-rejected", "put", fmt.Sprintf("[%s] PutItem with the key value N %q, a number at the edge of the range: %s %s", adapter, numeral, got.Class, got.Msg), nil)
		}
		x.r.Evals++
	}
	// "0.00" and "-0" are one key; every other numeral of the list is a key of its own
	if n := cl.Do(adapt.Op{Kind: adapt.OpScan, Table: spec.Name}); len(n.Items) != len(good)-1 {
		x.viol("edge-number-keys-collide", adapter, fmt.Sprintf("[%s] %d numerals at the edge of the number range (two of them zero) were put under %d keys, want %d", adapter, len(good), len(n.Items), len(good)-1), nil)
	}
}

// keysSurviveIndexChurn: the table's key attributes are what they were declared as for as long as the table lives -
// also after secondary indexes over those very attributes (the inverted index, an index on the sort key alone)
// were created and deleted. Afterwards every stored item is retrievable under its key, a number key is still
// identified by its value, and a request that would re-declare the key attribute with another type is refused.
// keySchemas: key schemas no table can have - a key attribute declared with a type that has no identity to key by
// (BOOL, NULL, L, M and the sets), two HASH elements, two RANGE elements, an unknown key type - for the table and
// for a secondary index. DynamoDB refuses them; a table created from one anyway must at least keep its items apart
// by their key values (one item per key: written twice, it is still one item, and it is found under its key).
func (p *c13) keySchemas(x *res, adapter string) {
	type sc struct {
		name string
		spec adapt.TableSpec
		item val.Item
	}
	cases := []sc{}
	other := map[string]val.V{"BOOL": val.Bool(true), "NULL": val.Null(), "L": val.List(val.Str("a")), "M": val.Map(map[string]val.V{"k": val.Str("a")}), "SS": val.SS("a"), "NS": val.NS("1"), "BS": val.BS("a")}
	kinds := []string{"BOOL", "NULL", "L", "M", "SS", "NS", "BS"}
	for _, t := range kinds {
		cases = append(cases,
			sc{"hash-type-" + t, adapt.TableSpec{Name: "tbl13k", Hash: "h", HashT: t, Billing: "PAY_PER_REQUEST"}, val.Item{"h": other[t]}},
			sc{"range-type-" + t, adapt.TableSpec{Name: "tbl13k", Hash: "h", Range: "r", RangeT: t, Billing: "PAY_PER_REQUEST"}, val.Item{"h": val.Str("a"), "r": other[t]}},
			sc{"index-hash-type-" + t, adapt.TableSpec{Name: "tbl13k", Hash: "h", Billing: "PAY_PER_REQUEST", Indexes: []adapt.IndexSpec{{Name: "gsi", Hash: "g", HashT: t}}}, val.Item{"h": val.Str("a"), "g": other[t]}},
			sc{"local-index-range-type-" + t, adapt.TableSpec{Name: "tbl13k", Hash: "h", Range: "r", Billing: "PAY_PER_REQUEST", Indexes: []adapt.IndexSpec{{Name: "lsi", Hash: "h", Range: "g", RangeT: t, Local: true}}}, val.Item{"h": val.Str("a"), "r": val.Str("b"), "g": other[t]}})
	}
	raw := func(name string, els ...[2]string) sc {
		return sc{name, adapt.TableSpec{Name: "tbl13k", Hash: "h", Range: "r", Billing: "PAY_PER_REQUEST", RawKeySchema: els}, val.Item{"h": val.Str("a"), "r": val.Str("b"), "c": val.Str("c")}}
	}
	cases = append(cases,
		raw("two-hash-elements", [2]string{"h", "HASH"}, [2]string{"r", "HASH"}),
		raw("two-range-elements", [2]string{"h", "HASH"}, [2]string{"r", "RANGE"}, [2]string{"c", "RANGE"}),
		raw("range-before-second-range", [2]string{"r", "RANGE"}, [2]string{"h", "HASH"}, [2]string{"c", "RANGE"}),
		raw("unknown-key-type", [2]string{"h", "HASH"}, [2]string{"r", "SORT"}),
		raw("lower-case-key-type", [2]string{"h", "hash"}),
		raw("hash-element-twice", [2]string{"h", "HASH"}, [2]string{"h", "HASH"}),
		raw("no-hash-element", [2]string{"r", "RANGE"}),
		raw("hash-and-range-same-attribute", [2]string{"h", "HASH"}, [2]string{"h", "RANGE"}),
	)
	for _, c := range cases {
		cl := adapt.New(adapter)
		spec := c.spec
		o := cl.Do(createOp(spec))
		x.r.Evals++
		x.fp(true, "keyschema|%s|%s", adapter, c.name)
		x.r.Counters["key_schemas:"+o.Class]++
		wit := map[string]interface{}{"adapter": adapter, "schema": spec, "create": o}
		switch o.Class {
		case adapt.ClsRuntime:
			x.viol("runtime-panic", o.Site, fmt.Sprintf("[%s] CreateTable with the key schema %s: runtime panic at %s: %s", adapter, c.name, o.Site, o.Msg), wit)
		case adapt.ClsOK:
			// accepted: then the table has to keep its word about key identity
			p1 := cl.Do(adapt.Op{Kind: adapt.OpPut, Table: spec.Name, Item: c.item})
			it2 := c.item.Clone()
			it2["w"] = val.Str("second write")
			p2 := cl.Do(adapt.Op{Kind: adapt.OpPut, Table: spec.Name, Item: it2})
			scan := cl.Do(adapt.Op{Kind: adapt.OpScan, Table: spec.Name})
			x.r.Evals += 3
			wit["put1"], wit["put2"], wit["scan"] = p1, p2, scan
			feature := "accepted"
			if p1.Class == adapt.ClsOK && p2.Class == adapt.ClsOK && len(scan.Items) != 1 {
				feature = "accepted-and-keys-collide-or-split"
			}
			x.viol("malformed-key-schema-accepted", feature+"/"+strings.TrimRight(c.name, "BOLNSMU-"), fmt.Sprintf("[%s] CreateTable with the key schema %q is accepted (DynamoDB: ValidationException); two writes of one key then leave %d items (put: %s, %s)", adapter, c.name, len(scan.Items), p1.Class, p2.Class), wit)
		}
	}
}

func (p *c13) keysSurviveIndexChurn(x *res, adapter string) {
	spec := adapt.TableSpec{Name: "tbl13c", Hash: "h", Range: "r", RangeT: "N", Billing: "PAY_PER_REQUEST", Indexes: []adapt.IndexSpec{
		{Name: "inv", Hash: "r", HashT: "N", Range: "h"}, {Name: "byr", Hash: "r", HashT: "N"}, {Name: "gsi1", Hash: "g"}}}
	for _, order := range [][]string{{"inv", "byr"}, {"byr", "inv"}, {"inv"}, {"byr"}, {"gsi1", "inv", "byr"}} {
		cl, _, ds := freshClient(adapter, spec)
		if ds != nil {
			return
		}
		items := []val.Item{{"h": val.Str("a"), "r": val.Num("2"), "v": val.Str("one")}, {"h": val.Str("a"), "r": val.Num("10"), "v": val.Str("two")}, {"h": val.Str("b"), "r": val.Num("-0.5"), "g": val.Str("x")}}
		for _, it := range items {
			cl.Do(adapt.Op{Kind: adapt.OpPut, Table: spec.Name, Item: it})
		}
		for _, ix := range order {
			cl.Do(adapt.Op{Kind: adapt.OpUpdateTable, Table: spec.Name, Chg: []adapt.IndexChange{{Delete: ix}}})
		}
		feature := adapter + "/" + strings.Join(order, "+")
		x.fp(true, "churn|%s", feature)
		wit := map[string]interface{}{"adapter": adapter, "spec": spec, "deleted_indexes": order}
		for _, it := range items {
			g := cl.Do(adapt.Op{Kind: adapt.OpGet, Table: spec.Name, Key: val.Item{"h": it["h"], "r": it["r"]}})
			x.r.Evals++
			if g.Class != adapt.ClsOK || !val.ItemsEqual(g.Item, it) {
				x.viol("item-unreachable-after-index-deletion", feature, fmt.Sprintf("[%s] after deleting the indexes %v, GetItem %s: %s %s (%s); the item was stored as %s", adapter, order, it["h"].Canon()+"/"+it["r"].Canon(), g.Class, g.Item.Canon(), g.Msg, it.Canon()), wit)
				break
			}
		}
		// the key is still a NUMBER: another notation of a stored value addresses the stored item, a string does not
		o := cl.Do(adapt.Op{Kind: adapt.OpPut, Table: spec.Name, Item: val.Item{"h": val.Str("a"), "r": val.Num("2.0"), "v": val.Str("one, rewritten")}})
		sc := cl.Do(adapt.Op{Kind: adapt.OpScan, Table: spec.Name})
		x.r.Evals += 2
		if o.Class != adapt.ClsOK || len(sc.Items) != len(items) {
			x.viol("number-key-identity-lost-after-index-deletion", feature, fmt.Sprintf("[%s] after deleting the indexes %v, PutItem with r = 2.0 (stored: 2): %s, the table holds %d items, want %d", adapter, order, o.Class, len(sc.Items), len(items)), wit)
		}
		if s := cl.Do(adapt.Op{Kind: adapt.OpPut, Table: spec.Name, Item: val.Item{"h": val.Str("c"), "r": val.Str("2")}}); s.Class == adapt.ClsOK {
			x.viol("key-type-not-enforced-after-index-deletion", feature, fmt.Sprintf("[%s] after deleting the indexes %v, PutItem with a STRING as the number sort key is accepted", adapter, order), wit)
		}
		// the AddIndex helper declares its key attributes as strings: pointed at the number key it must be refused
		if a := cl.Do(adapt.Op{Kind: adapt.OpAddIndex, Table: spec.Name, Ix: &adapt.IndexSpec{Name: "again", Hash: "r"}}); a.Class == adapt.ClsOK {
			x.viol("key-attribute-retyped-after-index-deletion", feature, fmt.Sprintf("[%s] after deleting the indexes %v, AddIndex re-declared the number key attribute r as a string", adapter, order), wit)
		}
	}
}

// keyTypesOnEmptyTables: what type a key attribute has does not depend on whether the table holds items. On a table
// with number keys that is EMPTY - fresh, cleared, or emptied item by item - a request that declares the key
// attribute with another type (the AddIndex helper always declares strings; an UpdateTable with attribute
// definitions) is refused, or at least changes nothing: afterwards number keys are still accepted, two notations of
// one number are still one key, and a string is still no key value.
func (p *c13) keyTypesOnEmptyTables(x *res, adapter string) {
	spec := adapt.TableSpec{Name: "tbl13e", Hash: "h", HashT: "N", Range: "r", RangeT: "N", Billing: "PAY_PER_REQUEST"}
	for _, how := range []string{"fresh", "cleared", "deleted-one-by-one"} {
		for _, redeclare := range []string{"addindex-hash", "addindex-range", "updatetable-defs", "updatetable-create-index"} {
			cl, _, ds := freshClient(adapter, spec)
			if ds != nil {
				return
			}
			first := val.Item{"h": val.Num("1"), "r": val.Num("2"), "v": val.Str("first")}
			switch how {
			case "cleared":
				cl.Do(adapt.Op{Kind: adapt.OpPut, Table: spec.Name, Item: first})
				cl.Do(adapt.Op{Kind: adapt.OpClearTable, Table: spec.Name})
			case "deleted-one-by-one":
				cl.Do(adapt.Op{Kind: adapt.OpPut, Table: spec.Name, Item: first})
				cl.Do(adapt.Op{Kind: adapt.OpDelete, Table: spec.Name, Key: val.Item{"h": val.Num("1"), "r": val.Num("2")}})
			}
			var o adapt.Outcome
			switch redeclare {
			case "addindex-hash":
				o = cl.Do(adapt.Op{Kind: adapt.OpAddIndex, Table: spec.Name, Ix: &adapt.IndexSpec{Name: "byh", Hash: "h"}})
			case "addindex-range":
				o = cl.Do(adapt.Op{Kind: adapt.OpAddIndex, Table: spec.Name, Ix: &adapt.IndexSpec{Name: "byr", Hash: "g", Range: "r"}})
			case "updatetable-defs":
				o = cl.Do(adapt.Op{Kind: adapt.OpUpdateTable, Table: spec.Name, Defs: [][2]string{{"h", "S"}}})
			default:
				o = cl.Do(adapt.Op{Kind: adapt.OpUpdateTable, Table: spec.Name, Chg: []adapt.IndexChange{{Create: &adapt.IndexSpec{Name: "byr", Hash: "r", HashT: "S"}}}})
			}
			x.r.Evals++
			feature := how + "/" + redeclare
			x.fp(true, "emptykeytypes|%s|%s", adapter, feature)
			x.r.Counters["key_redeclarations_on_empty_tables"]++
			wit := map[string]interface{}{"adapter": adapter, "spec": spec, "table": how, "redeclaration": redeclare, "outcome": o}
			if o.Class == adapt.ClsRuntime {
				x.viol("runtime-panic", o.Site, fmt.Sprintf("[%s] %s on a %s table: panic %s", adapter, redeclare, how, o.Msg), wit)
				continue
			}
			p1 := cl.Do(adapt.Op{Kind: adapt.OpPut, Table: spec.Name, Item: val.Item{"h": val.Num("1"), "r": val.Num("2"), "v": val.Str("one")}})
			p2 := cl.Do(adapt.Op{Kind: adapt.OpPut, Table: spec.Name, Item: val.Item{"h": val.Num("1.0"), "r": val.Num("2.00"), "v": val.Str("one again")}})
			ps := cl.Do(adapt.Op{Kind: adapt.OpPut, Table: spec.Name, Item: val.Item{"h": val.Str("1"), "r": val.Str("2"), "v": val.Str("strings")}})
			sc := cl.Do(adapt.Op{Kind: adapt.OpScan, Table: spec.Name})
			x.r.Evals += 4
			switch {
			case p1.Class != adapt.ClsOK || p2.Class != adapt.ClsOK:
				x.viol("key-attribute-retyped-on-empty-table", feature, fmt.Sprintf("[%s] after %s (class %s) on a %s table with number keys, PutItem with number keys answers %s / %s (%s)", adapter, redeclare, o.Class, how, p1.Class, p2.Class, p1.Msg+p2.Msg), wit)
			case ps.Class == adapt.ClsOK:
				x.viol("key-attribute-retyped-on-empty-table", feature, fmt.Sprintf("[%s] after %s (class %s) on a %s table with number keys, PutItem with STRINGS as key values is accepted", adapter, redeclare, o.Class, how), wit)
			case len(sc.Items) != 1:
				x.viol("key-attribute-retyped-on-empty-table", feature, fmt.Sprintf("[%s] after %s (class %s) on a %s table, the key 1/2 written as 1/2 and as 1.0/2.00 is %d items", adapter, redeclare, o.Class, how, len(sc.Items)), wit)
			}
		}
	}
}

func defectClass(d string) string {
	switch {
	case len(d) > 10 && d[:10] == "hash-type-":
		return "hash-type"
	case len(d) > 11 && d[:11] == "range-type-":
		return "range-type"
	}
	return d
}

func (p *c13) keyUpdates(x *res, adapter string, ctx *runner.Ctx) {
	// the key attributes are called h / r, or carry names with an underscore, digits and capitals (user_id,
	// created_at ...): what an update may do to them does not depend on how they are spelled
	for _, kn := range [][2]string{{"h", "r"}, {"user_id", "created_at"}, {"Pk1", "SK_2"}} {
		p.keyUpdatesNamed(x, adapter, kn[0], kn[1], ctx)
	}
}

func (p *c13) keyUpdatesNamed(x *res, adapter, hn, rn string, ctx *runner.Ctx) {
	spec := mon.SpecHashRange("tbl13")
	type ku struct {
		name string
		u    *refmodel.Update
		vals val.Item
	}
	mk := func(attr string, alias bool) []ku {
		pa := refmodel.P(attr)
		if alias {
			pa[0].Alias = "#k"
		}
		sfx := attr
		if alias {
			sfx += "-alias"
		}
		return []ku{
			{"set-" + sfx, &refmodel.Update{Actions: []refmodel.Action{{Kind: "SET", Path: pa, RHS: uv(":v")}}}, val.Item{":v": val.Str("changed")}},
			{"set-same-" + sfx, &refmodel.Update{Actions: []refmodel.Action{{Kind: "SET", Path: pa, RHS: uv(":v")}}}, val.Item{":v": val.Str("a")}},
			{"set-othertype-" + sfx, &refmodel.Update{Actions: []refmodel.Action{{Kind: "SET", Path: pa, RHS: uv(":v")}}}, val.Item{":v": val.Num("1")}},
			{"remove-" + sfx, &refmodel.Update{Actions: []refmodel.Action{{Kind: "REMOVE", Path: pa}}}, nil},
			{"add-" + sfx, &refmodel.Update{Actions: []refmodel.Action{{Kind: "ADD", Path: pa, RHS: uv(":v")}}}, val.Item{":v": val.SS("q")}},
			{"delete-" + sfx, &refmodel.Update{Actions: []refmodel.Action{{Kind: "DELETE", Path: pa, RHS: uv(":v")}}}, val.Item{":v": val.SS("q")}},
			{"set-with-other-" + sfx, &refmodel.Update{Actions: []refmodel.Action{{Kind: "SET", Path: refmodel.P("w"), RHS: uv(":w")}, {Kind: "SET", Path: pa, RHS: uv(":v")}}}, val.Item{":v": val.Str("changed"), ":w": val.Num("1")}},
		}
	}
	cases := []ku{}
	for _, attr := range []string{hn, rn} {
		cases = append(cases, mk(attr, false)...)
		cases = append(cases, mk(attr, true)...)
		// a NESTED attribute that merely has the NAME of a key attribute (member of a map, of a map in a list; the
		// member present or missing): the action concerns the document, the item's key attributes stay what they are
		for _, nested := range []refmodel.Path{{{Name: "doc"}, {Name: attr}}, {{Name: "doc", Alias: "#d"}, {Name: attr, Alias: "#k"}}, {{Name: "emptydoc"}, {Name: attr}}, {{Name: "lst"}, {IsIdx: true, Idx: 0}, {Name: attr}}} {
			tag := "nested-" + attr + "-" + nested.Shape()
			cases = append(cases,
				ku{"set-" + tag, &refmodel.Update{Actions: []refmodel.Action{{Kind: "SET", Path: nested, RHS: uv(":v")}}}, val.Item{":v": val.Num("5")}},
				ku{"remove-" + tag, &refmodel.Update{Actions: []refmodel.Action{{Kind: "REMOVE", Path: nested}}}, nil},
				ku{"add-" + tag, &refmodel.Update{Actions: []refmodel.Action{{Kind: "ADD", Path: nested, RHS: uv(":v")}}}, val.Item{":v": val.Num("1")}},
				ku{"add-set-" + tag, &refmodel.Update{Actions: []refmodel.Action{{Kind: "ADD", Path: nested, RHS: uv(":v")}}}, val.Item{":v": val.SS("q")}},
				ku{"delete-" + tag, &refmodel.Update{Actions: []refmodel.Action{{Kind: "DELETE", Path: nested, RHS: uv(":v")}}}, val.Item{":v": val.SS("q")}})
		}
	}
	numeric := false
	kv := func(s string) val.V {
		if numeric {
			return val.Num(map[string]string{"a": "7", "changed": "8"}[s])
		}
		return val.Str(s)
	}
	for ci := 0; ci < 2*len(cases); ci++ {
		c := cases[ci%len(cases)]
		// every case on a string-keyed and on a NUMBER-keyed table
		numeric = ci >= len(cases)
		spec = mon.SpecHashRange("tbl13")
		spec.Hash, spec.Range = hn, rn
		if numeric {
			spec.HashT, spec.RangeT = "N", "N"
		}
		for _, present := range []bool{true, false} {
			cl, _, ds := freshClient(adapter, spec)
			if ds != nil {
				return
			}
			docs := func(it val.Item) val.Item {
				it["doc"] = val.Map(map[string]val.V{"x": val.Str("y"), hn: val.Num("40")})
				it["emptydoc"] = val.Map(map[string]val.V{"x": val.Str("y")})
				it["lst"] = val.List(val.Map(map[string]val.V{"x": val.Str("y")}))
				return it
			}
			key := val.Item{hn: kv("a"), rn: kv("a")}
			orig := docs(val.Item{hn: kv("a"), rn: kv("a"), "v": val.Num("1")})
			other := val.Item{hn: kv("changed"), rn: kv("a"), "v": val.Str("other")}
			cl.Do(adapt.Op{Kind: adapt.OpPut, Table: spec.Name, Item: other})
			if present {
				cl.Do(adapt.Op{Kind: adapt.OpPut, Table: spec.Name, Item: orig})
			}
			names := map[string]string{}
			txt := c.u.Render(names, rrCanon)
			op := adapt.Op{Kind: adapt.OpUpdate, Table: spec.Name, Key: key, Update: txt, UpdAST: c.u, Values: c.vals}
			if len(names) > 0 {
				op.Names = names
			}
			ctx.Trace("%s keyupdate %s", adapter, op.String())
			got := cl.Do(op)
			x.r.Evals++
			x.fp(true, "keyupdate|%s|%s|%v|%v", adapter, c.name, present, numeric)
			x.r.Counters["key_updates:"+hn+"/"+rn]++
			// whatever happened: every stored item's key attributes must equal the key it is retrievable under
			scan := cl.Do(adapt.Op{Kind: adapt.OpScan, Table: spec.Name})
			wit := map[string]interface{}{"adapter": adapter, "op": op, "present": present, "outcome": got, "scan": scan.Items}
			if got.Class == adapt.ClsRuntime {
				x.viol("runtime-panic", got.Site, fmt.Sprintf("[%s] update %q naming a key attribute: runtime panic at %s: %s", adapter, txt, got.Site, got.Msg), wit)
				continue
			}
			for _, it := range scan.Items {
				k := val.Item{}
				if v, ok := it[hn]; ok {
					k[hn] = v
				}
				if v, ok := it[rn]; ok {
					k[rn] = v
				}
				g := cl.Do(adapt.Op{Kind: adapt.OpGet, Table: spec.Name, Key: k})
				if g.Class != adapt.ClsOK || !val.ItemsEqual(g.Item, it) {
					x.viol("key-attributes-changed", actionOf(c.name), fmt.Sprintf("[%s] after update %q (class %s) the table holds %s, which GetItem by its own key attributes does not return (got class %s, %s)", adapter, txt, got.Class, it.Canon(), g.Class, g.Item.Canon()), wit)
					break
				}
			}
			g := cl.Do(adapt.Op{Kind: adapt.OpGet, Table: spec.Name, Key: key})
			if g.Item != nil && (!val.Equal(g.Item[hn], key[hn]) || !val.Equal(g.Item[rn], key[rn])) {
				x.viol("key-attributes-changed", actionOf(c.name), fmt.Sprintf("[%s] after update %q (class %s) GetItem(%s) returns an item with other key attributes: %s", adapter, txt, got.Class, key.Canon(), g.Item.Canon()), wit)
			}
			if o := cl.Do(adapt.Op{Kind: adapt.OpGet, Table: spec.Name, Key: val.Item{hn: kv("changed"), rn: kv("a")}}); !val.ItemsEqual(o.Item, other) {
				x.viol("key-update-hit-other-item", actionOf(c.name), fmt.Sprintf("[%s] update %q changed another item: %s", adapter, txt, o.Item.Canon()), wit)
			}
		}
	}
}

func actionOf(name string) string {
	for i := 0; i < len(name); i++ {
		if name[i] == '-' {
			return name[:i]
		}
	}
	return name
}
