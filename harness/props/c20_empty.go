//go:build verif

package props

import (
	"fmt"
	"strings"

	"github.com/truora/minidyn/interpreter"
	mtypes "github.com/truora/minidyn/types"

	"verifharness/adapt"
	"verifharness/mon"
	"verifharness/val"
)

// noItemSearches: "an expression with no registered matcher falls back to the built-in interpreter" also where a
// search evaluates NO item (empty table, empty partition). With the native interpreter active and one filter and one
// key matcher registered, requests whose text has no registration are judged like the built-in interpreter judges
// them - a malformed text is refused - while the registered texts (which need not be expressions of the language
// at all: the text is the NAME of the callback) are accepted, and native mode off refuses those names.
func (p *c20) noItemSearches(x *res, adapter string) {
	for _, nativeOn := range []bool{true, false} {
		cl := adapt.New(adapter)
		nc := nativeOf(cl)
		native := interpreter.NewNativeInterpreter()
		fired := 0
		yes := func(map[string]*mtypes.Item, map[string]*mtypes.Item) bool { fired++; return true }
		native.AddMatcher("tbe", interpreter.ExpressionTypeFilter, "my own filter, not an expression!", yes)
		native.AddMatcher("tbe", interpreter.ExpressionTypeKey, "h = :h", yes)
		native.AddMatcher("tbf", interpreter.ExpressionTypeFilter, "a = :b AND", yes) // another table: never answers for tbe
		// a registration for ANOTHER table whose name continues with what looks like the start of an expression:
		// however the registry joins table and text, ("tbe|x", "y = :b") is not ("tbe", "x|y = :b")
		native.AddMatcher("tbe|x", interpreter.ExpressionTypeFilter, "y = :b", yes)
		nc.setInterp(native)
		if nativeOn {
			nc.activate()
		}
		for _, s := range []adapt.TableSpec{mon.SpecHashOnly("tbe"), mon.SpecHashOnly("tbf")} {
			cl.Do(createOp(s))
		}
		hv := val.Item{":h": val.Str("nobody"), ":b": val.Str("x")}
		type probe struct {
			name      string
			op        adapt.Op
			wantOK    bool // with the native interpreter on
			wantOKOff bool // with it off
		}
		probes := []probe{
			{"registered filter name on an empty table", adapt.Op{Kind: adapt.OpScan, Table: "tbe", Filter: "my own filter, not an expression!"}, true, false},
			{"registered key text, empty partition", adapt.Op{Kind: adapt.OpQuery, Table: "tbe", KeyCnd: "h = :h", Values: val.Item{":h": val.Str("nobody")}}, true, true},
			{"unregistered malformed filter on an empty table", adapt.Op{Kind: adapt.OpScan, Table: "tbe", Filter: "a = :b AND", Values: val.Item{":b": val.Str("x")}}, false, false},
			{"unregistered malformed filter, registered key text, empty partition", adapt.Op{Kind: adapt.OpQuery, Table: "tbe", KeyCnd: "h = :h", Filter: "a = :b OR OR", Values: hv}, false, false},
			{"unregistered reserved word in a filter on an empty table", adapt.Op{Kind: adapt.OpScan, Table: "tbe", Filter: "name = :b", Values: val.Item{":b": val.Str("x")}}, false, false},
			{"unregistered malformed key condition, empty table", adapt.Op{Kind: adapt.OpQuery, Table: "tbe", KeyCnd: "h = = :h", Values: val.Item{":h": val.Str("nobody")}}, false, false},
			{"unregistered well-formed filter on an empty table", adapt.Op{Kind: adapt.OpScan, Table: "tbe", Filter: "a = :b", Values: val.Item{":b": val.Str("x")}}, true, true},
			{"table and text that concatenate like another registration", adapt.Op{Kind: adapt.OpScan, Table: "tbe", Filter: "x|y = :b", Values: val.Item{":b": val.Str("x")}}, false, false},
			{"text registered for ANOTHER table only", adapt.Op{Kind: adapt.OpScan, Table: "tbe", Filter: "a = :b AND", Values: val.Item{":b": val.Str("x")}}, false, false},
		}
		for _, pr := range probes {
			got := cl.Do(pr.op)
			x.r.Evals++
			x.r.Counters["no_item_searches"]++
			x.fp(true, "%s|noitem|%v|%s", adapter, nativeOn, pr.name)
			want := pr.wantOK
			if !nativeOn {
				want = pr.wantOKOff
			}
			accepted := got.Class == adapt.ClsOK
			wit := map[string]interface{}{"adapter": adapter, "native_on": nativeOn, "probe": pr.name, "op": pr.op, "outcome": got}
			switch {
			case got.Class == adapt.ClsRuntime:
				x.viol("runtime-panic", got.Site, fmt.Sprintf("[%s] %s: runtime panic at %s: %s", adapter, pr.name, got.Site, got.Msg), wit)
			case accepted && !want:
				x.viol("no-item-search-accepted", fmt.Sprintf("native=%v", nativeOn), fmt.Sprintf("[%s] native interpreter on=%v, %s (%s): accepted with %d items; no callback is registered for this table, kind and text, so the built-in interpreter decides - it refuses the text", adapter, nativeOn, pr.name, pr.op.String(), len(got.Items)), wit)
			case !accepted && want:
				x.viol("no-item-search-rejected", fmt.Sprintf("native=%v", nativeOn), fmt.Sprintf("[%s] native interpreter on=%v, %s (%s): %s %s", adapter, nativeOn, pr.name, pr.op.String(), got.Class, got.Msg), wit)
			}
		}
		if fired != 0 {
			x.viol("callback-fired-without-item", adapter, fmt.Sprintf("[%s] a matcher ran %d times although no search evaluated an item", adapter, fired), nil)
		}
	}
}

// rejectedNativeUpdate: "an update ... fails ... without touching the item" holds for a REGISTERED updater too when
// the operation is refused after the updater ran (its result gives an index key attribute another type than
// declared, or loses the sort key): whatever the updater did to the values it was handed - replaced them, or edited
// them IN PLACE through the pointers - the stored item and every index read are what they were.
func (p *c20) rejectedNativeUpdate(x *res, adapter string) {
	spec := adapt.TableSpec{Name: "tbr", Hash: "h", Range: "r", Billing: "PAY_PER_REQUEST", Indexes: []adapt.IndexSpec{{Name: "gsi1", Hash: "g"}}}
	edits := []struct {
		name string
		edit func(item map[string]*mtypes.Item)
	}{
		{"replace-values", func(item map[string]*mtypes.Item) { s := "edited"; item["a"] = &mtypes.Item{S: &s} }},
		{"string-in-place", func(item map[string]*mtypes.Item) { *item["a"].S = "edited in place" }},
		{"number-in-place", func(item map[string]*mtypes.Item) { *item["n"].N = "999" }},
		{"list-element-in-place", func(item map[string]*mtypes.Item) { *item["l"].L[0].S = "edited element" }},
		{"list-append-in-place", func(item map[string]*mtypes.Item) { s := "appended"; item["l"].L = append(item["l"].L, &mtypes.Item{S: &s}) }},
		{"map-member-in-place", func(item map[string]*mtypes.Item) { s := "added"; item["m"].M["added"] = &mtypes.Item{S: &s}; *item["m"].M["x"].S = "edited member" }},
		{"set-member-in-place", func(item map[string]*mtypes.Item) { *item["ss"].SS[0] = "edited member" }},
		{"binary-in-place", func(item map[string]*mtypes.Item) { item["b"].B[0] = 'X' }},
		{"bool-in-place", func(item map[string]*mtypes.Item) { *item["f"].BOOL = !*item["f"].BOOL }},
	}
	rejections := []struct {
		name string
		then func(item map[string]*mtypes.Item)
	}{
		{"index-key-retyped", func(item map[string]*mtypes.Item) { n := "5"; item["g"] = &mtypes.Item{N: &n} }},
		{"sort-key-removed", func(item map[string]*mtypes.Item) { delete(item, "r") }},
	}
	stored := val.Item{"h": val.Str("k"), "r": val.Str("s"), "g": val.Str("x"), "a": val.Str("1"), "n": val.Num("7"), "l": val.List(val.Str("e0"), val.Str("e1")),
		"m": val.Map(map[string]val.V{"x": val.Str("y")}), "ss": val.SS("p", "q"), "b": val.Bin("bytes"), "f": val.Bool(true)}
	for _, ed := range edits {
		for _, rj := range rejections {
			ed, rj := ed, rj
			cl := adapt.New(adapter)
			nc := nativeOf(cl)
			native := interpreter.NewNativeInterpreter()
			native.AddUpdater(spec.Name, "SET a = :v", func(item map[string]*mtypes.Item, _ map[string]*mtypes.Item) {
				ed.edit(item)
				rj.then(item)
			})
			nc.setInterp(native)
			nc.activate()
			cl.Do(createOp(spec))
			if o := cl.Do(adapt.Op{Kind: adapt.OpPut, Table: spec.Name, Item: stored}); o.Class != adapt.ClsOK {
				x.viol("setup", "put", o.Msg, nil)
				return
			}
			key := val.Item{"h": val.Str("k"), "r": val.Str("s")}
			got := cl.Do(adapt.Op{Kind: adapt.OpUpdate, Table: spec.Name, Key: key, Update: "SET a = :v", Values: val.Item{":v": val.Str("z")}})
			x.r.Evals++
			x.r.Counters["rejected_native_updates"]++
			x.fp(true, "%s|rejected-native|%s|%s", adapter, ed.name, rj.name)
			wit := map[string]interface{}{"adapter": adapter, "updater_edit": ed.name, "rejection": rj.name, "outcome": got}
			if got.Class == adapt.ClsRuntime {
				x.viol("runtime-panic", got.Site, fmt.Sprintf("[%s] native updater (%s, %s): runtime panic at %s: %s", adapter, ed.name, rj.name, got.Site, got.Msg), wit)
				continue
			}
			if got.Class == adapt.ClsOK {
				x.viol("ill-result-of-updater-accepted", rj.name, fmt.Sprintf("[%s] the updater's result (%s) was stored although it breaks the table's schema", adapter, rj.name), wit)
				continue
			}
			back := cl.Do(adapt.Op{Kind: adapt.OpGet, Table: spec.Name, Key: key})
			ix := cl.Do(adapt.Op{Kind: adapt.OpScan, Table: spec.Name, Index: "gsi1"})
			if !val.ItemsEqual(back.Item, stored) || len(ix.Items) != 1 || !val.ItemsEqual(ix.Items[0], stored) {
				x.viol("failed-update-touched-item", "registered-updater/"+ed.name, fmt.Sprintf("[%s] UpdateItem was refused (%s) after the registered updater ran (%s), but the stored item now reads %s and the index returns %s; it was %s", adapter, got.Class, ed.name, back.Item.Canon(), adapt.ItemsCanon(ix.Items), stored.Canon()), wit)
			}
		}
	}
}

// missingUpdaterAndConditions: with the native interpreter active an update no updater is registered for is an
// unsupported feature - whatever its condition says (a condition that is false does not turn the answer into
// "conditional check failed") - and the item is untouched. With an updater registered, a false condition refuses
// the request before the updater runs.
func (p *c20) missingUpdaterAndConditions(x *res, adapter string) {
	spec := mon.SpecHashOnly("tbu")
	stored := val.Item{"h": val.Str("k"), "a": val.Str("1")}
	for _, registered := range []bool{false, true} {
		for _, present := range []bool{true, false} {
			for _, cond := range []string{"", "attribute_exists(nosuch)", "attribute_exists(h)", "attribute_not_exists(h)"} {
				cl := adapt.New(adapter)
				nc := nativeOf(cl)
				native := interpreter.NewNativeInterpreter()
				ran := 0
				if registered {
					native.AddUpdater(spec.Name, "SET a = :v", func(item map[string]*mtypes.Item, _ map[string]*mtypes.Item) {
						ran++
						s := "updated"
						item["a"] = &mtypes.Item{S: &s}
					})
				}
				nc.setInterp(native)
				nc.activate()
				cl.Do(createOp(spec))
				key := val.Item{"h": val.Str("k")}
				if present {
					cl.Do(adapt.Op{Kind: adapt.OpPut, Table: spec.Name, Item: stored})
				}
				condTrue := cond == "" || (cond == "attribute_exists(h)" && present) || (cond == "attribute_not_exists(h)" && !present)
				got := cl.Do(adapt.Op{Kind: adapt.OpUpdate, Table: spec.Name, Key: key, Update: "SET a = :v", Values: val.Item{":v": val.Str("z")}, Cond: cond})
				after := cl.Do(adapt.Op{Kind: adapt.OpGet, Table: spec.Name, Key: key})
				x.r.Evals += 2
				x.fp(true, "%s|missing-updater|%v|%v|%s", adapter, registered, present, cond)
				x.r.Counters["updates_with_and_without_updater_under_conditions"]++
				wit := map[string]interface{}{"adapter": adapter, "updater_registered": registered, "item_present": present, "condition": cond, "outcome": got, "item_after": after.Item}
				var before val.Item
				if present {
					before = stored
				}
				switch {
				case got.Class == adapt.ClsRuntime:
					x.viol("runtime-panic", got.Site, fmt.Sprintf("[%s] native update (registered=%v, condition %q): panic %s", adapter, registered, cond, got.Msg), wit)
				case !registered && got.Class != adapt.ClsUnsupported:
					x.viol("missing-updater-not-unsupported", got.Class+"/condition", fmt.Sprintf("[%s] update without registered updater in native mode, condition %q (true: %v), item present: %v: class %s, want the unsupported-feature error", adapter, cond, condTrue, present, got.Class), wit)
				case !registered && !val.ItemsEqual(after.Item, before):
					x.viol("failed-update-touched-item", "update/condition", fmt.Sprintf("[%s] the unsupported update changed the item to %s", adapter, after.Item.Canon()), wit)
				case registered && !condTrue && (got.Class != adapt.ClsCondFailed || ran != 0 || !val.ItemsEqual(after.Item, before)):
					x.viol("verdict-not-used", "update/false-condition", fmt.Sprintf("[%s] native update with the false condition %q: class %s, updater ran %d times, item %s", adapter, cond, got.Class, ran, after.Item.Canon()), wit)
				case registered && condTrue && (got.Class != adapt.ClsOK || ran != 1):
					x.viol("mutation-not-used", "update/true-condition", fmt.Sprintf("[%s] native update with the true condition %q: class %s, updater ran %d times", adapter, cond, got.Class, ran), wit)
				}
			}
		}
	}
}

// prefixNamedTables: registrations belong to ONE table. With tables whose names are prefixes of one another
// ("tbq", "tbq_archive", "tbq2") on one client, deleting, clearing or re-creating one of them leaves the callbacks
// registered for the others in force: the matcher still decides the filter, the updater still performs the update.
func (p *c20) prefixNamedTables(x *res, adapter string) {
	names := []string{"tbq", "tbq_archive", "tbq2", "xtbq"}
	for di, gone := range names {
		for _, how := range []string{"delete", "delete-and-recreate"} {
			cl := adapt.New(adapter)
			nc := nativeOf(cl)
			native := interpreter.NewNativeInterpreter()
			ran := map[string]int{}
			for _, n := range names {
				n := n
				native.AddMatcher(n, interpreter.ExpressionTypeFilter, "PICK :x", func(item map[string]*mtypes.Item, _ map[string]*mtypes.Item) bool {
					ran["m/"+n]++
					return item["v"] != nil && item["v"].S != nil && *item["v"].S == "keep"
				})
				native.AddUpdater(n, "MARK :x", func(item map[string]*mtypes.Item, _ map[string]*mtypes.Item) {
					ran["u/"+n]++
					s := "marked by " + n
					item["mark"] = &mtypes.Item{S: &s}
				})
			}
			nc.setInterp(native)
			nc.activate()
			for _, n := range names {
				cl.Do(createOp(mon.SpecHashOnly(n)))
				cl.Do(adapt.Op{Kind: adapt.OpPut, Table: n, Item: val.Item{"h": val.Str("k1"), "v": val.Str("keep")}})
				cl.Do(adapt.Op{Kind: adapt.OpPut, Table: n, Item: val.Item{"h": val.Str("k2"), "v": val.Str("drop")}})
			}
			if o := cl.Do(adapt.Op{Kind: adapt.OpDeleteTable, Table: gone}); o.Class != adapt.ClsOK {
				x.viol("setup", "delete-table", o.Msg, nil)
				return
			}
			if how == "delete-and-recreate" {
				cl.Do(createOp(mon.SpecHashOnly(gone)))
			}
			for _, n := range names {
				if n == gone {
					continue
				}
				vals := val.Item{":x": val.Str("unused")}
				sc := cl.Do(adapt.Op{Kind: adapt.OpScan, Table: n, Filter: "PICK :x", Values: vals})
				up := cl.Do(adapt.Op{Kind: adapt.OpUpdate, Table: n, Key: val.Item{"h": val.Str("k1")}, Update: "MARK :x", Values: vals})
				back := cl.Do(adapt.Op{Kind: adapt.OpGet, Table: n, Key: val.Item{"h": val.Str("k1")}})
				x.r.Evals += 3
				x.r.Counters["callbacks_after_a_prefix_named_table_went"]++
				x.fp(true, "%s|prefix-named|%d|%s|%s", adapter, di, how, n)
				wit := map[string]interface{}{"adapter": adapter, "table_removed": gone, "how": how, "table_used": n, "scan": sc, "update": up, "callbacks_run": ran}
				switch {
				case sc.Class == adapt.ClsRuntime || up.Class == adapt.ClsRuntime:
					x.viol("runtime-panic", sc.Site+up.Site, fmt.Sprintf("[%s] native callbacks of %s after %s of %s: panic %s %s", adapter, n, how, gone, sc.Msg, up.Msg), wit)
				case sc.Class != adapt.ClsOK || ran["m/"+n] == 0 || len(sc.Items) != 1 || !val.Equal(sc.Items[0]["h"], val.Str("k1")):
					x.viol("other-table-registration-lost", "matcher/"+how, fmt.Sprintf("[%s] after %s of table %q the filter matcher registered for table %q no longer decides its scans: class %s (%s), matcher ran %d times, items %s", adapter, how, gone, n, sc.Class, sc.Msg, ran["m/"+n], adapt.ItemsCanon(sc.Items)), wit)
				case up.Class != adapt.ClsOK || ran["u/"+n] != 1 || !val.Equal(back.Item["mark"], val.Str("marked by "+n)):
					x.viol("other-table-registration-lost", "updater/"+how, fmt.Sprintf("[%s] after %s of table %q the updater registered for table %q no longer performs its updates: class %s (%s), updater ran %d times, item %s", adapter, how, gone, n, up.Class, up.Msg, ran["u/"+n], back.Item.Canon()), wit)
				}
			}
		}
	}
}

// composedTexts: a registration is looked up by the WHOLE text of the request. With updaters registered for "SET a = :v"
// and for "REMOVE b", the request "SET a = :v REMOVE b" (and the other compositions of registered texts) has no
// updater: it is unsupported, none of the registered updaters runs, the item is untouched. The same for matchers:
// "a = :v AND b = :w" is not served by the matchers of its conjuncts.
func (p *c20) composedTexts(x *res, adapter string) {
	spec := mon.SpecHashOnly("tbc")
	stored := val.Item{"h": val.Str("k"), "a": val.Str("1"), "b": val.Str("2")}
	parts := []string{"SET a = :v", "REMOVE b", "ADD n :v"}
	for _, text := range []string{"SET a = :v REMOVE b", "REMOVE b SET a = :v", "SET a = :v  REMOVE b", "SET a = :v ADD n :v", "SET a = :v REMOVE b ADD n :v", "SET a = :v, a = :v"} {
		cl := adapt.New(adapter)
		nc := nativeOf(cl)
		native := interpreter.NewNativeInterpreter()
		ran := 0
		for _, pt := range parts {
			native.AddUpdater(spec.Name, pt, func(item map[string]*mtypes.Item, _ map[string]*mtypes.Item) {
				ran++
				s := "touched"
				item["a"] = &mtypes.Item{S: &s}
				delete(item, "b")
			})
		}
		nc.setInterp(native)
		nc.activate()
		cl.Do(createOp(spec))
		cl.Do(adapt.Op{Kind: adapt.OpPut, Table: spec.Name, Item: stored})
		got := cl.Do(adapt.Op{Kind: adapt.OpUpdate, Table: spec.Name, Key: val.Item{"h": val.Str("k")}, Update: text, Values: val.Item{":v": val.Num("1")}})
		after := cl.Do(adapt.Op{Kind: adapt.OpGet, Table: spec.Name, Key: val.Item{"h": val.Str("k")}})
		x.r.Evals += 2
		x.r.Counters["requests_composed_of_registered_texts"]++
		x.fp(true, "%s|composed|%s", adapter, text)
		wit := map[string]interface{}{"adapter": adapter, "registered": parts, "request": text, "outcome": got, "item_after": after.Item, "updaters_run": ran}
		switch {
		case got.Class == adapt.ClsRuntime:
			x.viol("runtime-panic", got.Site, fmt.Sprintf("[%s] native update %q: panic %s", adapter, text, got.Msg), wit)
		case got.Class != adapt.ClsUnsupported || ran != 0:
			x.viol("dispatch-by-part-of-the-text", "update", fmt.Sprintf("[%s] the update %q has no registered updater (registered: %v): class %s, want the unsupported-feature error; registered updaters ran %d times", adapter, text, parts, got.Class, ran), wit)
		case !val.ItemsEqual(after.Item, stored):
			x.viol("failed-update-touched-item", "update/composed", fmt.Sprintf("[%s] the unsupported update %q changed the item to %s", adapter, text, after.Item.Canon()), wit)
		}
	}
}

// keyExistenceGuards: the commonest write guards - attribute_not_exists(<key>) and attribute_exists(<key>), written out
// or through a #name - are texts like any other: with the native interpreter active and a conditional matcher
// registered under exactly that text, the matcher is called and ITS verdict decides the write (a test double that
// answers "false" to simulate a lost race), whatever the item would say.
func (p *c20) keyExistenceGuards(x *res, adapter string) {
	spec := mon.SpecHashRange("tbk")
	stored := val.Item{"h": val.Str("k"), "r": val.Str("s"), "a": val.Str("1")}
	key := val.Item{"h": val.Str("k"), "r": val.Str("s")}
	for _, text := range []string{"attribute_not_exists(h)", "attribute_exists(h)", "attribute_not_exists(r)", "attribute_exists(#k)", "attribute_not_exists(#k)", " attribute_exists ( h ) "} {
		for _, verdict := range []bool{false, true} {
			for _, present := range []bool{true, false} {
				for _, kind := range []string{adapt.OpPut, adapt.OpDelete, adapt.OpUpdate} {
					cl := adapt.New(adapter)
					nc := nativeOf(cl)
					native := interpreter.NewNativeInterpreter()
					ran := 0
					native.AddMatcher(spec.Name, interpreter.ExpressionTypeConditional, text, func(map[string]*mtypes.Item, map[string]*mtypes.Item) bool {
						ran++
						return verdict
					})
					native.AddUpdater(spec.Name, "SET a = :v", func(item map[string]*mtypes.Item, _ map[string]*mtypes.Item) {
						s := "updated"
						item["a"] = &mtypes.Item{S: &s}
					})
					nc.setInterp(native)
					nc.activate()
					cl.Do(createOp(spec))
					if present {
						cl.Do(adapt.Op{Kind: adapt.OpPut, Table: spec.Name, Item: stored})
					}
					op := adapt.Op{Kind: kind, Table: spec.Name, Cond: text}
					if strings.Contains(text, "#k") {
						op.Names = map[string]string{"#k": "h"}
					}
					switch kind {
					case adapt.OpPut:
						op.Item = val.Item{"h": val.Str("k"), "r": val.Str("s"), "a": val.Str("2")}
					case adapt.OpDelete:
						op.Key = key
					default:
						op.Key, op.Update, op.Values = key, "SET a = :v", val.Item{":v": val.Str("z")}
					}
					got := cl.Do(op)
					x.r.Evals++
					x.r.Counters["key_existence_guards_served_by_matchers"]++
					x.fp(true, "%s|key-guard|%s|%v|%v|%s", adapter, text, verdict, present, kind)
					wit := map[string]interface{}{"adapter": adapter, "registered_text": text, "matcher_verdict": verdict, "item_present": present, "request": op, "outcome": got, "matcher_ran": ran}
					want := adapt.ClsOK
					if !verdict {
						want = adapt.ClsCondFailed
					}
					switch {
					case got.Class == adapt.ClsRuntime:
						x.viol("runtime-panic", got.Site, fmt.Sprintf("[%s] %s guarded by %q (registered matcher): panic %s", adapter, kind, text, got.Msg), wit)
					case ran == 0:
						x.viol("registered-callback-not-fired", "conditional/key-existence-guard", fmt.Sprintf("[%s] %s with the condition %q, for which a matcher is registered: the matcher was not called (class %s)", adapter, kind, text, got.Class), wit)
					case got.Class != want:
						x.viol("verdict-not-used", "conditional/key-existence-guard", fmt.Sprintf("[%s] %s with the condition %q: the registered matcher answered %v, the request was answered %s (item present: %v)", adapter, kind, text, verdict, got.Class, present), wit)
					}
				}
			}
		}
	}
}
