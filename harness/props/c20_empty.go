//go:build verif

package props

import (
	"fmt"

	"github.com/truora/minidyn/interpreter"
	mtypes "github.com/truora/minidyn/types"

	"verifharness/adapt"
	"verifharness/mon"
	"verifharness/val"
)

// noItemSearches: "an expression with no registered matcher falls back to the built-in interpreter" also where a
// search evaluates NO item (empty table, empty partition). With the native interpreter active and one filter and one
// key matcher registered, requests whose text has no registration are judged like the built-in interpreter judges
// them - a malformed text is refused - while the registered texts (which need not be expressions of the language
// at all: the text is the NAME of the callback) are accepted, and native mode off refuses those names.
func (p *c20) noItemSearches(x *res, adapter string) {
	for _, nativeOn := range []bool{true, false} {
		cl := adapt.New(adapter)
		nc := nativeOf(cl)
		native := interpreter.NewNativeInterpreter()
		fired := 0
		yes := func(map[string]*mtypes.Item, map[string]*mtypes.Item) bool { fired++; return true }
		native.AddMatcher("tbe", interpreter.ExpressionTypeFilter, "my own filter, not an expression!", yes)
		native.AddMatcher("tbe", interpreter.ExpressionTypeKey, "h = :h", yes)
		native.AddMatcher("tbf", interpreter.ExpressionTypeFilter, "a = :b AND", yes) // another table: never answers for tbe
		nc.setInterp(native)
		if nativeOn {
			nc.activate()
		}
		for _, s := range []adapt.TableSpec{mon.SpecHashOnly("tbe"), mon.SpecHashOnly("tbf")} {
			cl.Do(createOp(s))
		}
		hv := val.Item{":h": val.Str("nobody"), ":b": val.Str("x")}
		type probe struct {
			name      string
			op        adapt.Op
			wantOK    bool // with the native interpreter on
			wantOKOff bool // with it off
		}
		probes := []probe{
			{"registered filter name on an empty table", adapt.Op{Kind: adapt.OpScan, Table: "tbe", Filter: "my own filter, not an expression!"}, true, false},
			{"registered key text, empty partition", adapt.Op{Kind: adapt.OpQuery, Table: "tbe", KeyCnd: "h = :h", Values: val.Item{":h": val.Str("nobody")}}, true, true},
			{"unregistered malformed filter on an empty table", adapt.Op{Kind: adapt.OpScan, Table: "tbe", Filter: "a = :b AND", Values: val.Item{":b": val.Str("x")}}, false, false},
			{"unregistered malformed filter, registered key text, empty partition", adapt.Op{Kind: adapt.OpQuery, Table: "tbe", KeyCnd: "h = :h", Filter: "a = :b OR OR", Values: hv}, false, false},
			{"unregistered reserved word in a filter on an empty table", adapt.Op{Kind: adapt.OpScan, Table: "tbe", Filter: "name = :b", Values: val.Item{":b": val.Str("x")}}, false, false},
			{"unregistered malformed key condition, empty table", adapt.Op{Kind: adapt.OpQuery, Table: "tbe", KeyCnd: "h = = :h", Values: val.Item{":h": val.Str("nobody")}}, false, false},
			{"unregistered well-formed filter on an empty table", adapt.Op{Kind: adapt.OpScan, Table: "tbe", Filter: "a = :b", Values: val.Item{":b": val.Str("x")}}, true, true},
			{"text registered for ANOTHER table only", adapt.Op{Kind: adapt.OpScan, Table: "tbe", Filter: "a = :b AND", Values: val.Item{":b": val.Str("x")}}, false, false},
		}
		for _, pr := range probes {
			got := cl.Do(pr.op)
			x.r.Evals++
			x.r.Counters["no_item_searches"]++
			x.fp(true, "%s|noitem|%v|%s", adapter, nativeOn, pr.name)
			want := pr.wantOK
			if !nativeOn {
				want = pr.wantOKOff
			}
			accepted := got.Class == adapt.ClsOK
			wit := map[string]interface{}{"adapter": adapter, "native_on": nativeOn, "probe": pr.name, "op": pr.op, "outcome": got}
			switch {
			case got.Class == adapt.ClsRuntime:
				x.viol("runtime-panic", got.Site, fmt.Sprintf("[%s] %s: runtime panic at %s: %s", adapter, pr.name, got.Site, got.Msg), wit)
			case accepted && !want:
				x.viol("no-item-search-accepted", fmt.Sprintf("native=%v", nativeOn), fmt.Sprintf("[%s] native interpreter on=%v, %s (%s): accepted with %d items; no callback is registered for this table, kind and text, so the built-in interpreter decides - it refuses the text", adapter, nativeOn, pr.name, pr.op.String(), len(got.Items)), wit)
			case !accepted && want:
				x.viol("no-item-search-rejected", fmt.Sprintf("native=%v", nativeOn), fmt.Sprintf("[%s] native interpreter on=%v, %s (%s): %s %s", adapter, nativeOn, pr.name, pr.op.String(), got.Class, got.Msg), wit)
			}
		}
		if fired != 0 {
			x.viol("callback-fired-without-item", adapter, fmt.Sprintf("[%s] a matcher ran %d times although no search evaluated an item", adapter, fired), nil)
		}
	}
}
