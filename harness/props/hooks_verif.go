//go:build verif

package props

import "github.com/truora/minidyn/verifhook"

func installHooks(f func(site string)) { verifhook.Install(f) }
