package props

import (
	"fmt"
	"math/rand"

	"verifharness/adapt"
	"verifharness/mon"
	"verifharness/refmodel"
	"verifharness/runner"
	"verifharness/val"
)

// C05 – conditional writes are decided on the target item only, atomically.
type c05 struct{ base }

func init() {
	runner.Register(&c05{base{id: "C05", level: "exploration",
		rule: "per case: a table (hash+range, 2 GSIs, 1 LSI) holding 0-5 bystander items and a target key that is present or absent (in a third of the cases the target and one bystander are one of 783 key pairs that collide under a plausible-but-wrong composite-key encoding); op in {PutItem, UpdateItem, DeleteItem} with a condition (existence guards, value comparisons, compound) chosen so that its truth on some bystander is the OPPOSITE of its truth on the target whenever possible. Oracle: model condition on the target (or empty) item; a refused write must leave the full observation (every key, base scan, every index scan, counts) byte-identical; ConditionalCheckFailed.Item (SDK v2 UpdateItem with ALL_OLD) must equal the stored item. non-trivial = truth differs between target and >=1 bystander (or table is empty / target absent with bystanders present); distinct by (adapter, op, target present?, condition skeleton, truth on target). Guards include one-member IN over flags / null markers / sets / documents and value-first comparisons at equality.",
		assumptions: commonAssumptions}})
}

func (p *c05) NumCases(tier string) int {
	if tier == "thorough" {
		return 400000
	}
	return 60000
}

// c05Cond returns a typed condition over the item attributes a:S, v:N, g:S, s:S.
func c05Cond(r *rand.Rand, values val.Item) *refmodel.Cond {
	if r.Intn(4) == 0 {
		return c05DocCond(r, values)
	}
	switch r.Intn(4) {
	case 0:
		attr := mon.Pick(r, []string{"a", "g", "s", "v", "h", "r"})
		return &refmodel.Cond{Op: mon.Pick(r, []string{"exists", "notexists"}), Args: []refmodel.Operand{{Kind: "path", Path: refmodel.P(attr)}}}
	case 1:
		values[":a"] = val.Str(mon.Pick(r, []string{"red", "blue", "green"}))
		return &refmodel.Cond{Op: "cmp", Cmp: mon.Pick(r, []string{"=", "<>", "<", ">="}), Args: []refmodel.Operand{{Kind: "path", Path: refmodel.P("a")}, {Kind: "val", Val: ":a"}}}
	case 2:
		values[":n"] = val.Num(fmt.Sprint(r.Intn(6)))
		return &refmodel.Cond{Op: "cmp", Cmp: mon.Pick(r, []string{"=", "<>", "<", "<=", ">", ">="}), Args: []refmodel.Operand{{Kind: "path", Path: refmodel.P("v")}, {Kind: "val", Val: ":n"}}}
	default:
		v2 := val.Item{}
		a := c05Cond(r, values)
		b := typedFilter(r, v2, fmt.Sprintf("c%d_", len(values)))
		for k, v := range v2 {
			values[k] = v
		}
		return &refmodel.Cond{Op: mon.Pick(r, []string{"and", "or"}), Kids: []*refmodel.Cond{a, b}}
	}
}

// c05DocCond: guards on MEMBERS of documents - a BOOL / NULL / number / set element reached through a list index
// or a map member - of every scalar type, not only strings (items carry the attributes flags and cfg, see c05Doc).
func c05DocCond(r *rand.Rand, values val.Item) *refmodel.Cond {
	n := len(values)
	nv := func(v val.V) refmodel.Operand {
		name := fmt.Sprintf(":d%d_%d", n, len(values))
		values[name] = v
		return refmodel.Operand{Kind: "val", Val: name}
	}
	pt := func(els ...interface{}) refmodel.Operand {
		p := refmodel.Path{}
		for _, e := range els {
			switch t := e.(type) {
			case string:
				p = append(p, refmodel.PathEl{Name: t})
			case int:
				p = append(p, refmodel.PathEl{IsIdx: true, Idx: t})
			}
		}
		return refmodel.Operand{Kind: "path", Path: p}
	}
	eq := func() string { return mon.Pick(r, []string{"=", "<>"}) }
	switch r.Intn(26) {
	case 25:
		// the request's value FIRST (":limit > used", ":now >= expires"), often equal to the stored one (in another notation too)
		return &refmodel.Cond{Op: "cmp", Cmp: mon.Pick(r, []string{"<", "<=", ">", ">="}), Args: []refmodel.Operand{nv(val.Num(mon.Pick(r, []string{"0", "1", "2", "3", "1.0", "2.00"}))), mon.Pick(r, []refmodel.Operand{pt("cfg", "lvl"), pt("v"), pt("lo"), pt("hi")})}}
	case 24:
		// IN with ONE member, of every kind of value a guard reads: a flag, a null marker, a set, a document
		switch r.Intn(5) {
		case 0:
			return &refmodel.Cond{Op: "in", Args: []refmodel.Operand{pt("flags", r.Intn(2)), nv(val.Bool(r.Intn(2) == 0))}}
		case 1:
			return &refmodel.Cond{Op: "in", Args: []refmodel.Operand{pt("cfg", "none"), nv(val.Null())}}
		case 2:
			return &refmodel.Cond{Op: "in", Args: []refmodel.Operand{pt("slots"), nv(mon.Pick(r, []val.V{val.NS("2", "1.0"), val.NS("1", "3")}))}}
		case 3:
			return &refmodel.Cond{Op: "in", Args: []refmodel.Operand{pt("cfg", "tags"), nv(mon.Pick(r, []val.V{val.SS("t2", "t1"), val.SS("t1")}))}}
		default:
			return &refmodel.Cond{Op: "in", Args: []refmodel.Operand{pt("meta"), nv(mon.Pick(r, c05Metas))}}
		}
	case 21, 22:
		// whole documents compared: maps and lists of which one is a part of the other (a sub-map, a prefix) are different
		return &refmodel.Cond{Op: "cmp", Cmp: eq(), Args: []refmodel.Operand{pt("meta"), nv(mon.Pick(r, c05Metas))}}
	case 23:
		return &refmodel.Cond{Op: "cmp", Cmp: eq(), Args: []refmodel.Operand{pt("trail"), nv(mon.Pick(r, c05Trails))}}
	case 0:
		return &refmodel.Cond{Op: "cmp", Cmp: eq(), Args: []refmodel.Operand{pt("flags", r.Intn(3)), nv(val.Bool(r.Intn(2) == 0))}}
	case 1:
		return &refmodel.Cond{Op: "cmp", Cmp: eq(), Args: []refmodel.Operand{pt("cfg", "on"), nv(val.Bool(r.Intn(2) == 0))}}
	case 2:
		return &refmodel.Cond{Op: "cmp", Cmp: eq(), Args: []refmodel.Operand{pt("cfg", "none"), nv(val.Null())}}
	case 3:
		return &refmodel.Cond{Op: "cmp", Cmp: mon.Pick(r, []string{"=", "<>", "<", ">="}), Args: []refmodel.Operand{pt("cfg", "lvl"), nv(val.Num(fmt.Sprint(r.Intn(4))))}}
	case 4:
		return &refmodel.Cond{Op: "contains", Args: []refmodel.Operand{pt("cfg", "tags"), nv(val.Str(mon.Pick(r, []string{"t1", "t2", "t9"})))}}
	case 5:
		return &refmodel.Cond{Op: "cmp", Cmp: mon.Pick(r, []string{"=", ">", "<"}), Args: []refmodel.Operand{{Kind: "size", Path: refmodel.P("flags")}, nv(val.Num(fmt.Sprint(1 + r.Intn(3))))}}
	case 6:
		return &refmodel.Cond{Op: "type", Args: []refmodel.Operand{pt("flags", r.Intn(3)), nv(val.Str(mon.Pick(r, []string{"BOOL", "S", "NULL"})))}}
	case 7:
		return &refmodel.Cond{Op: "in", Args: []refmodel.Operand{pt("flags", r.Intn(2)), nv(val.Bool(true)), nv(val.Str("x"))}}
	case 8:
		return &refmodel.Cond{Op: mon.Pick(r, []string{"exists", "notexists"}), Args: []refmodel.Operand{pt("flags", 2+r.Intn(2))}}
	case 9:
		return &refmodel.Cond{Op: "cmp", Cmp: eq(), Args: []refmodel.Operand{pt("cfg", "bin"), nv(val.Bin(mon.Pick(r, []string{"\x01", "\x02"})))}}
	case 10:
		return &refmodel.Cond{Op: "cmp", Cmp: eq(), Args: []refmodel.Operand{pt("flags", 0), pt("cfg", "on")}}
	// guards that compare the request's values with a WINDOW the item itself carries (attributes lo and hi), or the
	// item with itself: attributes in every operand position of BETWEEN and IN, plain and under NOT
	case 11:
		return &refmodel.Cond{Op: "between", Args: []refmodel.Operand{nv(val.Num(fmt.Sprint(r.Intn(8)))), pt("lo"), pt("hi")}}
	case 12:
		return &refmodel.Cond{Op: "not", Kids: []*refmodel.Cond{{Op: "between", Args: []refmodel.Operand{nv(val.Num(fmt.Sprint(r.Intn(8)))), pt("lo"), pt("hi")}}}}
	case 13:
		return &refmodel.Cond{Op: "between", Args: []refmodel.Operand{pt("v"), pt("lo"), nv(val.Num(fmt.Sprint(3 + r.Intn(5))))}}
	case 14:
		return &refmodel.Cond{Op: "between", Args: []refmodel.Operand{pt("cfg", "lvl"), nv(val.Num("0")), pt("hi")}}
	case 15:
		return &refmodel.Cond{Op: "in", Args: []refmodel.Operand{nv(val.Num(fmt.Sprint(r.Intn(8)))), pt("lo"), pt("hi"), pt("v")}}
	case 16:
		return &refmodel.Cond{Op: "cmp", Cmp: mon.Pick(r, []string{"<", "<=", "=", ">"}), Args: []refmodel.Operand{pt("lo"), pt("v")}}
	// guards on a whole number set (the booked slots): the supplied set lists the members in another order and
	// writes them in another notation than the stored one
	case 17:
		return &refmodel.Cond{Op: "cmp", Cmp: eq(), Args: []refmodel.Operand{pt("slots"), nv(mon.Pick(r, []val.V{val.NS("2", "1.0"), val.NS("1e0", "2.00"), val.NS("1", "3"), val.NS("1")}))}}
	case 18:
		return &refmodel.Cond{Op: "not", Kids: []*refmodel.Cond{{Op: "cmp", Cmp: "=", Args: []refmodel.Operand{pt("slots"), nv(mon.Pick(r, []val.V{val.NS("2.0", "1"), val.NS("2", "4")}))}}}}
	case 19:
		return &refmodel.Cond{Op: "in", Args: []refmodel.Operand{pt("slots"), nv(val.NS("9")), nv(mon.Pick(r, []val.V{val.NS("1.00", "2"), val.NS("1", "2", "3")}))}}
	default:
		return &refmodel.Cond{Op: "cmp", Cmp: eq(), Args: []refmodel.Operand{pt("cfg", "tags"), nv(val.SS("t1", "t2"))}}
	}
}

// documents that are parts of one another: sub-maps and super-maps (also one level down), prefixes of lists
var c05Metas = []val.V{
	val.Map(map[string]val.V{"a": val.Num("1")}), val.Map(map[string]val.V{"a": val.Num("1"), "b": val.Num("2")}), val.Map(map[string]val.V{"b": val.Num("2")}),
	val.Map(map[string]val.V{"a": val.Num("1"), "b": val.Num("3")}),
	val.Map(map[string]val.V{"in": val.Map(map[string]val.V{"k": val.Str("v")})}), val.Map(map[string]val.V{"in": val.Map(map[string]val.V{"k": val.Str("v"), "l": val.Str("w")})}),
}
var c05Trails = []val.V{val.List(val.Num("1")), val.List(val.Num("1"), val.Num("2")), val.List(val.Num("2"), val.Num("1")), val.List(val.List(val.Num("1"))), val.List(val.List(val.Num("1"), val.Num("2")))}

// c05Doc adds the document attributes the guards of c05DocCond look at.
func c05Doc(r *rand.Rand, it val.Item) {
	if r.Intn(2) == 0 {
		it["meta"] = mon.Pick(r, c05Metas)
	}
	if r.Intn(3) == 0 {
		it["trail"] = mon.Pick(r, c05Trails)
	}
	if r.Intn(3) != 0 {
		it["slots"] = mon.Pick(r, []val.V{val.NS("1", "2"), val.NS("2", "1"), val.NS("1", "3"), val.NS("1")})
	}
	if r.Intn(4) != 0 {
		lo := r.Intn(4)
		it["lo"] = val.Num(fmt.Sprint(lo))
		if r.Intn(5) != 0 {
			it["hi"] = val.Num(fmt.Sprint(lo + r.Intn(5)))
		}
	}
	if r.Intn(3) != 0 {
		fl := []val.V{val.Bool(r.Intn(2) == 0), val.Bool(r.Intn(2) == 0)}
		if r.Intn(2) == 0 {
			fl = append(fl, mon.Pick(r, []val.V{val.Str("x"), val.Null(), val.Bool(true)}))
		}
		it["flags"] = val.V{K: val.KL, L: fl}
	}
	if r.Intn(3) != 0 {
		m := map[string]val.V{"on": val.Bool(r.Intn(2) == 0), "lvl": val.Num(fmt.Sprint(r.Intn(4))), "tags": val.SS(mon.Pick(r, []string{"t1", "t2"}), "t3"), "bin": val.Bin(mon.Pick(r, []string{"\x01", "\x02"}))}
		if r.Intn(2) == 0 {
			m["none"] = val.Null()
		}
		if r.Intn(4) == 0 {
			m["tags"] = val.SS("t1", "t2")
		}
		it["cfg"] = val.Map(m)
	}
}

func (p *c05) RunCase(ctx *runner.Ctx) runner.CaseResult {
	x := newRes()
	r := mon.Rng(ctx.Seed, "C05", ctx.Case)
	adapter := adapt.Adapters[ctx.Case%2]
	spec := ixSpec("tbl05", true)
	// every fifth case runs on a table whose partition key is a NUMBER, with keys that are neighbours beyond
	// float64 precision (2^53+1, 19-23 digit identifiers, the last of 38 digits): the target and one bystander
	// differ only there
	numeric := ctx.Case%5 == 3
	hashPool := ixHashPool
	hv := func(h string) val.V { return val.Str(h) }
	if numeric {
		spec.HashT = "N"
		for i := range spec.Indexes {
			if spec.Indexes[i].Hash == "h" {
				spec.Indexes[i].HashT = "N"
			}
			if spec.Indexes[i].Range == "h" {
				spec.Indexes[i].RangeT = "N"
			}
		}
		hashPool = c13BigNumerals[:12] // consecutive entries (2k, 2k+1) are neighbours
		hv = func(h string) val.V { return val.Num(h) }
		x.r.Counters["numeric_key_cases"]++
	}
	// every seventh case runs on a HASH-ONLY table of the same name: "r" is an ordinary attribute there (present in
	// half of the items), so the same guard texts - attribute_exists(r), attribute_not_exists(r) - that are
	// decided by the key schema on the other tables depend on the stored item here
	hashOnly := !numeric && ctx.Case%7 == 5
	rangePool := ixRangePool
	if hashOnly {
		spec = adapt.TableSpec{Name: "tbl05", Hash: "h", Billing: "PAY_PER_REQUEST", Indexes: []adapt.IndexSpec{{Name: "gsi1", Hash: "g"}, {Name: "gsi2", Hash: "g", Range: "s"}}}
		rangePool = []string{""}
		hashPool = []string{"p", "p.q", "pq", "q", "qq", "p.", ".q", "a"}
		x.r.Counters["hash_only_table_cases"]++
	}
	cl, m, ds := freshClient(adapter, spec)
	if ds != nil {
		x.viol("setup", "create", ds[0].Detail, spec)
		return x.r
	}
	mk := func(h, rg string, i int) val.Item {
		it := ixItem(h, rg, maybe(r, ixGPool, 30), maybe(r, ixSPool, 30), r.Intn(6))
		it["h"] = hv(h)
		if hashOnly {
			delete(it, "r")
			if r.Intn(2) == 0 {
				it["r"] = val.Str(mon.Pick(r, []string{"1", "10"}))
			}
		}
		if r.Intn(4) != 0 {
			it["a"] = val.Str(mon.Pick(r, []string{"red", "blue", "green"}))
		}
		if r.Intn(5) == 0 {
			delete(it, "v")
		}
		c05Doc(r, it)
		return it
	}
	keys := mon.KeyLog{}
	hist := []adapt.Op{}
	nb := r.Intn(6)
	used := map[string]bool{}
	bystanders := []val.Item{}
	for i := 0; i < nb; i++ {
		h, rg := mon.Pick(r, hashPool), mon.Pick(r, rangePool)
		if used[h+"|"+rg] {
			continue
		}
		used[h+"|"+rg] = true
		it := mk(h, rg, i)
		bystanders = append(bystanders, it)
		hist = append(hist, adapt.Op{Kind: adapt.OpPut, Table: spec.Name, Item: it})
	}
	var th, tr string
	for {
		th, tr = mon.Pick(r, hashPool), mon.Pick(r, rangePool)
		if !used[th+"|"+tr] {
			break
		}
	}
	if numeric {
		// the neighbour of the target's partition key, same sort key, is a bystander
		for i, h := range hashPool {
			if h == th {
				nb := hashPool[i^1]
				if !used[nb+"|"+tr] {
					used[nb+"|"+tr] = true
					it := mk(nb, tr, 50)
					bystanders = append(bystanders, it)
					hist = append(hist, adapt.Op{Kind: adapt.OpPut, Table: spec.Name, Item: it})
				}
			}
		}
	} else if !hashOnly && r.Intn(3) == 0 {
		// confusable mode: the target and one bystander are a pair of keys that collide under a plausible but
		// wrong composite-key encoding (mon.ConfusablePairs)
		cp := mon.Pick(r, mon.ConfusablePairs())
		k1, k2 := cp[0], cp[1]
		if r.Intn(2) == 0 {
			k1, k2 = k2, k1
		}
		th, tr = k1[0], k1[1]
		if !used[k2[0]+"|"+k2[1]] {
			used[k2[0]+"|"+k2[1]] = true
			it := mk(k2[0], k2[1], 50)
			bystanders = append(bystanders, it)
			hist = append(hist, adapt.Op{Kind: adapt.OpPut, Table: spec.Name, Item: it})
		}
		x.r.Counters["confusable_key_cases"]++
	}
	present := r.Intn(3) != 0
	var target val.Item
	if present {
		target = mk(th, tr, 99)
		hist = append(hist, adapt.Op{Kind: adapt.OpPut, Table: spec.Name, Item: target})
	}
	st := &mon.HistoryStats{}
	if f := mon.RunHistory(cl, m, hist, keys, false, nil, ctx.Trace, st); f != nil {
		x.failureViolation(adapter, f, spec)
		return x.r
	}
	tkey := val.Item{"h": hv(th), "r": val.Str(tr)}
	if hashOnly {
		tkey = val.Item{"h": hv(th)}
	}
	keys.Add(spec.Name, tkey)
	// choose a discriminating condition
	tItem := target
	if tItem == nil {
		tItem = val.Item{}
	}
	var cond *refmodel.Cond
	var values val.Item
	discriminating := false
	for try := 0; try < 25; try++ {
		v := val.Item{}
		c := c05Cond(r, v)
		rt := c.Eval(tItem, v)
		if !rt.Definite() {
			continue
		}
		if cond == nil {
			cond, values = c, v
		}
		for _, b := range bystanders {
			rb := c.Eval(b, v)
			if rb.Definite() && rb != rt {
				cond, values, discriminating = c, v, true
				break
			}
		}
		if discriminating {
			break
		}
	}
	if cond == nil {
		x.r.Inconclusive++
		return x.r
	}
	truth := cond.Eval(tItem, values)
	var op adapt.Op
	kind := r.Intn(3)
	switch kind {
	case 0:
		op = adapt.Op{Kind: adapt.OpPut, Table: spec.Name, Item: mk(th, tr, 7)}
	case 1:
		op = mon.SetUpdate(spec.Name, tkey, "w", val.Str("touched"))
		// half of the updates CHANGE the attributes the condition looks at (a, v, g, s, flags, cfg): the condition
		// is decided on the item as it is stored before the update
		switch r.Intn(8) {
		case 0:
			op = mon.SetUpdate(spec.Name, tkey, "a", val.Str(mon.Pick(r, []string{"red", "blue", "green"})))
		case 1:
			op = mon.SetUpdate(spec.Name, tkey, "v", val.Num(fmt.Sprint(r.Intn(6))))
		case 2:
			op = mon.RemoveUpdate(spec.Name, tkey, mon.Pick(r, []string{"a", "v", "g", "s", "flags", "cfg"}))
		case 3:
			op = mon.AddUpdate(spec.Name, tkey, "v", val.Num(mon.Pick(r, []string{"1", "-2", "5"})))
		}
		op.RetCCF = adapter == "v2" && r.Intn(2) == 0 // only the SDK v2 adapter implements ReturnValuesOnConditionCheckFailure
	default:
		op = adapt.Op{Kind: adapt.OpDelete, Table: spec.Name, Key: tkey, RetOld: r.Intn(2) == 0}
	}
	if op.Kind != adapt.OpUpdate {
		op.RetCCF = adapter == "v2" && r.Intn(2) == 0 // "when requested, the failure carries the unchanged stored item": PutItem and DeleteItem too
	}
	// bookkeeping the caller may ask for next to the write (consumed capacity, item collection metrics): none of it
	// changes what the condition decides or how the refusal is reported
	op.RetCap = mon.Pick(r, []string{"", "", "TOTAL", "INDEXES", "NONE"})
	rr := refmodel.RenderOpts{}
	if r.Intn(3) == 0 {
		rr.Rng = r
	}
	op = mon.WithCond(op, cond, values, rr)
	before := mon.Snapshot(cl, []string{spec.Name}, keys)
	ctx.Trace("%s %s", adapter, op.String())
	got := cl.Do(op)
	x.r.Evals += st.Calls + 1
	x.set("classes", got.Class)
	nontrivial := discriminating || (!present && len(bystanders) > 0) || len(bystanders) == 0
	x.fp(nontrivial, "%s|%s|present=%v|%s|%s", adapter, op.Kind, present, cond.Skeleton(), truth)
	if discriminating {
		x.r.Counters["discriminating_cases"]++
	}
	wit := map[string]interface{}{"adapter": adapter, "spec": spec, "history": hist, "op": op, "target_present": present, "truth_on_target": truth.String(), "got": got}
	if ds := m.Step(op, got); len(ds) > 0 {
		x.viol(ds[0].Rule, op.Kind+fmt.Sprintf("/present=%v", present), fmt.Sprintf("[%s] %s with condition %q (truth on target %s, %d bystanders): %s", adapter, op.Kind, op.Cond, truth, len(bystanders), ds[0].Detail), wit)
		return x.r
	}
	if got.Class != adapt.ClsOK {
		after := mon.Snapshot(cl, []string{spec.Name}, keys)
		x.r.Evals += 12
		x.r.Counters["refused_writes_state_compared"]++
		if after != before {
			x.viol("refused-write-changed-state", op.Kind, fmt.Sprintf("[%s] refused %s (class %s) changed the observable state:\nbefore:\n%s\nafter:\n%s", adapter, op.Kind, got.Class, before, after), wit)
			return x.r
		}
		if got.Class == adapt.ClsCondFailed && op.RetCCF && adapter == "v2" {
			x.r.Counters["ccf_items_checked"]++
		}
	}
	if ds := mon.Observe(cl, m, keys, nil); len(ds) > 0 {
		x.viol(ds[0].Rule, "observe/"+op.Kind, fmt.Sprintf("[%s] after %s: %s", adapter, op.Kind, ds[0].Detail), wit)
	}
	if ctx.Case < 2 {
		x.r.Sample = wit
	}
	return x.r
}
