package props

import (
	"context"
	"fmt"

	"github.com/aws/aws-sdk-go/aws"
	v1ddb "github.com/aws/aws-sdk-go/service/dynamodb"
	v2aws "github.com/aws/aws-sdk-go-v2/aws"
	v2ddb "github.com/aws/aws-sdk-go-v2/service/dynamodb"
	v2types "github.com/aws/aws-sdk-go-v2/service/dynamodb/types"
	v1client "github.com/truora/minidyn/aws-v1/client"
	v2client "github.com/truora/minidyn/aws-v2/client"

	"verifharness/adapt"
	"verifharness/mon"
	"verifharness/runner"
	"verifharness/val"
)

// requestReuse (R2/R3/R4 over time): callers build a request once, send it, edit its ExpressionAttributeNames /
// ExpressionAttributeValues maps IN PLACE and send the same structure again. Every call is judged on what the
// request holds at that moment: accepted while the placeholders are exactly the used ones, rejected after an
// unused name or value was added, after a used one was removed, after a malformed key was added - and accepted
// again once the edit is undone. Nothing a previous call saw may be remembered.
func (p *c16) requestReuse(x *res, ctx *runner.Ctx) {
	bg := context.Background()
	type step struct {
		name  string
		edit  func(names map[string]string, values val.Item)
		valid bool
	}
	steps := []step{
		{"as-built", func(n map[string]string, v val.Item) {}, true},
		{"unused-name-added", func(n map[string]string, v val.Item) { n["#unused"] = "zz" }, false},
		{"edit-undone", func(n map[string]string, v val.Item) { delete(n, "#unused") }, true},
		{"used-name-removed", func(n map[string]string, v val.Item) { delete(n, "#p") }, false},
		{"name-restored", func(n map[string]string, v val.Item) { n["#p"] = "p" }, true},
		{"malformed-name-key-added", func(n map[string]string, v val.Item) { n["p"] = "p" }, false},
		{"malformed-key-removed", func(n map[string]string, v val.Item) { delete(n, "p") }, true},
		{"placeholder-renamed", func(n map[string]string, v val.Item) { delete(n, "#p"); n["#pp"] = "p" }, false},
		{"rename-undone", func(n map[string]string, v val.Item) { delete(n, "#pp"); n["#p"] = "p" }, true},
	}
	for _, adapter := range adapt.Adapters {
		for _, opk := range []string{"get-projection", "query-filter", "scan-filter", "put-condition", "update-condition", "delete-condition"} {
			spec := mon.SpecHashOnly("tbl16")
			cl, _, ds := freshClient(adapter, spec)
			if ds != nil {
				return
			}
			item := val.Item{"h": val.Str("k"), "p": val.Str("x"), "q": val.Str("x")}
			cl.Do(adapt.Op{Kind: adapt.OpPut, Table: spec.Name, Item: item})
			names := map[string]string{"#p": "p"}
			values := val.Item{":x": val.Str("x")}
			// the SDK structures are built ONCE; v1 keeps *string targets, so the map objects handed to the client are
			// rebuilt from `names` in place (same map object) by sync()
			n1 := map[string]*string{}
			n2 := map[string]string{}
			sync := func() {
				for k := range n1 {
					delete(n1, k)
				}
				for k := range n2 {
					delete(n2, k)
				}
				for k, v := range names {
					vv := v
					n1[k] = &vv
					n2[k] = v
				}
			}
			var call func() error
			key1, key2 := adapt.ItemToV1(val.Item{"h": val.Str("k")}), adapt.ItemToV2(val.Item{"h": val.Str("k")})
			if adapter == "v1" {
				c := cl.Raw().(*v1client.Client)
				vals := adapt.ItemToV1(values)
				switch opk {
				case "get-projection":
					in := &v1ddb.GetItemInput{TableName: aws.String(spec.Name), Key: key1, ProjectionExpression: aws.String("#p"), ExpressionAttributeNames: n1}
					call = func() error { _, err := c.GetItem(in); return err }
				case "query-filter":
					in := &v1ddb.QueryInput{TableName: aws.String(spec.Name), KeyConditionExpression: aws.String("h = :h"), FilterExpression: aws.String("#p = :x"), ExpressionAttributeNames: n1,
						ExpressionAttributeValues: adapt.ItemToV1(val.Item{":x": val.Str("x"), ":h": val.Str("k")})}
					call = func() error { _, err := c.Query(in); return err }
				case "scan-filter":
					in := &v1ddb.ScanInput{TableName: aws.String(spec.Name), FilterExpression: aws.String("#p = :x"), ExpressionAttributeNames: n1, ExpressionAttributeValues: vals}
					call = func() error { _, err := c.Scan(in); return err }
				case "put-condition":
					in := &v1ddb.PutItemInput{TableName: aws.String(spec.Name), Item: adapt.ItemToV1(item), ConditionExpression: aws.String("#p = :x"), ExpressionAttributeNames: n1, ExpressionAttributeValues: vals}
					call = func() error { _, err := c.PutItem(in); return err }
				case "update-condition":
					in := &v1ddb.UpdateItemInput{TableName: aws.String(spec.Name), Key: key1, UpdateExpression: aws.String("SET q = :x"), ConditionExpression: aws.String("#p = :x"), ExpressionAttributeNames: n1, ExpressionAttributeValues: vals}
					call = func() error { _, err := c.UpdateItem(in); return err }
				default:
					in := &v1ddb.DeleteItemInput{TableName: aws.String(spec.Name), Key: adapt.ItemToV1(val.Item{"h": val.Str("absent")}), ConditionExpression: aws.String("attribute_not_exists(#p) OR #p = :x"), ExpressionAttributeNames: n1, ExpressionAttributeValues: vals}
					call = func() error { _, err := c.DeleteItem(in); return err }
				}
			} else {
				c := cl.Raw().(*v2client.Client)
				vals := adapt.ItemToV2(values)
				switch opk {
				case "get-projection":
					in := &v2ddb.GetItemInput{TableName: v2aws.String(spec.Name), Key: key2, ProjectionExpression: v2aws.String("#p"), ExpressionAttributeNames: n2}
					call = func() error { _, err := c.GetItem(bg, in); return err }
				case "query-filter":
					in := &v2ddb.QueryInput{TableName: v2aws.String(spec.Name), KeyConditionExpression: v2aws.String("h = :h"), FilterExpression: v2aws.String("#p = :x"), ExpressionAttributeNames: n2,
						ExpressionAttributeValues: adapt.ItemToV2(val.Item{":x": val.Str("x"), ":h": val.Str("k")})}
					call = func() error { _, err := c.Query(bg, in); return err }
				case "scan-filter":
					in := &v2ddb.ScanInput{TableName: v2aws.String(spec.Name), FilterExpression: v2aws.String("#p = :x"), ExpressionAttributeNames: n2, ExpressionAttributeValues: vals}
					call = func() error { _, err := c.Scan(bg, in); return err }
				case "put-condition":
					in := &v2ddb.PutItemInput{TableName: v2aws.String(spec.Name), Item: adapt.ItemToV2(item), ConditionExpression: v2aws.String("#p = :x"), ExpressionAttributeNames: n2, ExpressionAttributeValues: vals}
					call = func() error { _, err := c.PutItem(bg, in); return err }
				case "update-condition":
					in := &v2ddb.UpdateItemInput{TableName: v2aws.String(spec.Name), Key: key2, UpdateExpression: v2aws.String("SET q = :x"), ConditionExpression: v2aws.String("#p = :x"), ExpressionAttributeNames: n2, ExpressionAttributeValues: vals}
					call = func() error { _, err := c.UpdateItem(bg, in); return err }
				default:
					in := &v2ddb.DeleteItemInput{TableName: v2aws.String(spec.Name), Key: adapt.ItemToV2(val.Item{"h": val.Str("absent")}), ConditionExpression: v2aws.String("attribute_not_exists(#p) OR #p = :x"), ExpressionAttributeNames: n2, ExpressionAttributeValues: vals}
					call = func() error { _, err := c.DeleteItem(bg, in); return err }
				}
				_ = v2types.ReturnValueNone
			}
			for _, st := range steps {
				st.edit(names, values)
				sync()
				// every state of the request is sent twice: the second identical call must be judged like the first
				for rep := 0; rep < 2; rep++ {
					var err error
					var panicked interface{}
					func() {
						defer func() { panicked = recover() }()
						err = call()
					}()
					x.r.Evals++
					x.r.Counters["reused_request_calls"]++
					x.fp(true, "reuse|%s|%s|%s|%d", adapter, opk, st.name, rep)
					wit := map[string]interface{}{"adapter": adapter, "operation": opk, "step": st.name, "repetition": rep, "names_now": fmt.Sprint(names), "error": fmt.Sprint(err), "panic": fmt.Sprint(panicked)}
					accepted := err == nil && panicked == nil
					switch {
					case st.valid && !accepted:
						x.viol("valid-placeholders-rejected", "reused-request/"+opk+"/"+st.name, fmt.Sprintf("[%s] %s with a request structure that is sent repeatedly: at step %q the placeholders are exactly the used ones, but the call fails: %v %v", adapter, opk, st.name, err, panicked), wit)
					case !st.valid && accepted:
						x.viol("placeholder-rule-not-enforced", "reused-request/"+opk+"/"+st.name, fmt.Sprintf("[%s] %s with a request structure that is sent repeatedly: after the in-place edit %q (names now %v) the call is still accepted", adapter, opk, st.name, names), wit)
					}
				}
			}
		}
	}
}

var _ = runner.Register
