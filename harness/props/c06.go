package props

import (
	"os"
	"fmt"
	"sort"
	"strings"

	"github.com/truora/minidyn/interpreter"

	"verifharness/adapt"
	"verifharness/mon"
	"verifharness/refmodel"
	"verifharness/runner"
	"verifharness/val"
)

// C06 – condition, filter and key expressions evaluate per DynamoDB semantics.
type c06 struct{ base }

func init() {
	runner.Register(&c06{base{id: "C06", level: "exploration",
		rule: "(a) typed matrix, exhaustive: every comparator x (11 x 11) left/right kinds (ten types + absent; left a path, right a path or a :value) with 2 representative values each; every function x argument kinds; BETWEEN and IN x kinds; paths through missing parents and list indexes inside / at / past the end; #name placeholders for 20 attribute names that are no identifiers (a.b, l[0], a b, 1a, reserved words …) at top level and as map members, on items with / without the literally named attribute and with / without the decoy a path reading of the name would address; (b) seeded ASTs to depth 4 (thorough 6) over a 6-attribute item universe incl. nested paths and #aliases, rendered with random legal spacing and only the parentheses precedence requires; (c) a sample replayed through PutItem condition, Scan filter and Query key+filter on both adapters. Monitors: result in the oracle's admissible set {true,false,reject}; a runtime panic is never admissible; the item passed in is deep-compared before/after; the same case re-evaluated with permuted set-member order must agree. non-trivial = mentions >=1 present attribute and the oracle's value changes under some single-attribute removal; distinct by (AST skeleton, operand kind vector). Comparisons are also written value-first (cmp-vp, order-vp).",
		assumptions: commonAssumptions}})
}

var c06Reps = map[val.Kind][]val.V{
	val.KS:    {val.Str("a"), val.Str("b")},
	val.KN:    {val.Num("1"), val.Num("2")},
	val.KB:    {val.Bin("a"), val.Bin("b")},
	val.KBOOL: {val.Bool(true), val.Bool(false)},
	val.KNULL: {val.Null()},
	// (documents of which one is a part of another: a prefix of a list, a sub-map of a map)
	val.KL:    {val.List(val.Str("a"), val.Num("1")), val.List(val.Str("b")), val.List(val.Null(), val.Bool(true)), val.List(val.Str("a"))},
	val.KM:    {val.Map(map[string]val.V{"x": val.Str("a")}), val.Map(map[string]val.V{"x": val.Str("b"), "y": val.Num("1")}), val.Map(map[string]val.V{"x": val.Str("a"), "y": val.Num("1")})},
	val.KSS:   {val.SS("a", "b"), val.SS("b")},
	val.KNS:   {val.NS("1", "2"), val.NS("2")},
	val.KBS:   {val.BS("a", "b"), val.BS("b")},
}

func strVals(texts []string, mk func(string) val.V) []val.V {
	out := []val.V{}
	for _, t := range texts {
		out = append(out, mk(t))
	}
	return out
}

var c06Kinds = append([]val.Kind{val.KAbsent}, val.AllKinds...)

type c06Case struct {
	Cond   *refmodel.Cond
	Item   val.Item
	Values val.Item
	Tag    string
}

func c06Matrix() []c06Case {
	out := []c06Case{}
	pathL := refmodel.Operand{Kind: "path", Path: refmodel.P("l")}
	pathR := refmodel.Operand{Kind: "path", Path: refmodel.P("r")}
	valR := refmodel.Operand{Kind: "val", Val: ":r"}
	valX := refmodel.Operand{Kind: "val", Val: ":x"}
	reps := func(k val.Kind) []val.V {
		if k == val.KAbsent {
			return []val.V{val.Absent()}
		}
		return c06Reps[k]
	}
	mkItem := func(l, r val.V) val.Item {
		it := val.Item{"z": val.Str("bystander")}
		if !l.IsAbsent() {
			it["l"] = l
		}
		if !r.IsAbsent() {
			it["r"] = r
		}
		return it
	}
	for _, cmp := range []string{"=", "<>", "<", "<=", ">", ">="} {
		for _, lk := range c06Kinds {
			for _, rk := range c06Kinds {
				for _, lv := range reps(lk) {
					for _, rv := range reps(rk) {
						// right as path
						out = append(out, c06Case{Cond: &refmodel.Cond{Op: "cmp", Cmp: cmp, Args: []refmodel.Operand{pathL, pathR}}, Item: mkItem(lv, rv), Values: val.Item{}, Tag: "cmp-pp"})
						if rk != val.KAbsent {
							out = append(out, c06Case{Cond: &refmodel.Cond{Op: "cmp", Cmp: cmp, Args: []refmodel.Operand{pathL, valR}}, Item: mkItem(lv, val.Absent()), Values: val.Item{":r": rv}, Tag: "cmp-pv"})
						}
						if lk != val.KAbsent {
							// the request's value FIRST, the attribute second (":now >= expires"): lv cmp rv all the same
							out = append(out, c06Case{Cond: &refmodel.Cond{Op: "cmp", Cmp: cmp, Args: []refmodel.Operand{valR, pathL}}, Item: mkItem(rv, val.Absent()), Values: val.Item{":r": lv}, Tag: "cmp-vp"})
						}
						if cmp == "=" {
							// the same operand pairs as members / bounds / second arguments given as PATHS
							it := mkItem(lv, rv)
							out = append(out, c06Case{Cond: &refmodel.Cond{Op: "in", Args: []refmodel.Operand{pathL, pathR}}, Item: it, Values: val.Item{}, Tag: "in-pp"})
							out = append(out, c06Case{Cond: &refmodel.Cond{Op: "in", Args: []refmodel.Operand{pathL, valX, pathR}}, Item: it, Values: val.Item{":x": val.Str("nomatch")}, Tag: "in-pvp"})
							out = append(out, c06Case{Cond: &refmodel.Cond{Op: "contains", Args: []refmodel.Operand{pathL, pathR}}, Item: it, Values: val.Item{}, Tag: "contains-pp"})
							out = append(out, c06Case{Cond: &refmodel.Cond{Op: "begins", Args: []refmodel.Operand{pathL, pathR}}, Item: it, Values: val.Item{}, Tag: "begins-pp"})
							out = append(out, c06Case{Cond: &refmodel.Cond{Op: "between", Args: []refmodel.Operand{pathL, pathR, pathR}}, Item: it, Values: val.Item{}, Tag: "between-ppp"})
						}
					}
				}
			}
		}
	}
	// ordering of strings and binaries: every pair of a pool of order traps (upper / lower case, prefixes, NUL, digits
	// that order differently as numbers, the last characters of the Basic Multilingual Plane next to characters
	// beyond it - UTF-8 byte order, which is DynamoDB's, and UTF-16 code-unit order disagree about those - and, for
	// binaries, bytes above 0x7f, which are large, not negative) under the four ordering operators and BETWEEN
	ordS := []string{"", "a", "A", "ab", "a\x00", "B", "é", "z", "~", "10", "9", "\ue000", "\uff71", "\uffff", "\U00010000", "\U0001F44D", "\U0010FFFF", "a\uffff", "a\U0001F44D"}
	ordB := []string{"", "\x00", "\x7f", "\x80", "\xff", "a", "a\x00", "\xf0\x9f", "\xef\xbf\xbf", "\x7f\xff"}
	for ti, pool := range [][]val.V{strVals(ordS, val.Str), strVals(ordB, val.Bin)} {
		for i, lv := range pool {
			for j, rv := range pool {
				cmp := []string{"<", "<=", ">", ">="}[(i+j)%4]
				if (i+j+ti)%2 == 0 {
					out = append(out, c06Case{Cond: &refmodel.Cond{Op: "cmp", Cmp: cmp, Args: []refmodel.Operand{pathL, valR}}, Item: mkItem(lv, val.Absent()), Values: val.Item{":r": rv}, Tag: "order-pv"})
					out = append(out, c06Case{Cond: &refmodel.Cond{Op: "cmp", Cmp: cmp, Args: []refmodel.Operand{valR, pathL}}, Item: mkItem(rv, val.Absent()), Values: val.Item{":r": lv}, Tag: "order-vp"})
				} else {
					out = append(out, c06Case{Cond: &refmodel.Cond{Op: "cmp", Cmp: cmp, Args: []refmodel.Operand{pathL, pathR}}, Item: mkItem(lv, rv), Values: val.Item{}, Tag: "order-pp"})
				}
				hv := pool[(i+j*7+3)%len(pool)]
				out = append(out, c06Case{Cond: &refmodel.Cond{Op: "between", Args: []refmodel.Operand{pathL, valR, valX}}, Item: mkItem(lv, val.Absent()), Values: val.Item{":r": rv, ":x": hv}, Tag: "order-between"})
			}
		}
	}
	// attributes whose names only LOOK like reserved words (the dictionary spelling of the reserved list's own
	// misspellings FLATTERN / LOGED / INNTER, plurals, words with a suffix), used bare: ordinary names, ordinary answers
	for _, name := range []string{"logged", "flatten", "Logged", "FLATTEN", "statuses", "namess", "sizes", "size_", "datax", "counters", "inner_", "timestamps"} {
		pn := refmodel.Operand{Kind: "path", Path: refmodel.P(name)}
		for _, it := range []val.Item{{name: val.Str("a"), "z": val.Str("bystander")}, {"z": val.Str("bystander")}} {
			out = append(out, c06Case{Cond: &refmodel.Cond{Op: "cmp", Cmp: "=", Args: []refmodel.Operand{pn, valX}}, Item: it, Values: val.Item{":x": val.Str("a")}, Tag: "near-reserved-name"})
			out = append(out, c06Case{Cond: &refmodel.Cond{Op: "exists", Args: []refmodel.Operand{pn}}, Item: it, Values: val.Item{}, Tag: "near-reserved-name"})
			out = append(out, c06Case{Cond: &refmodel.Cond{Op: "between", Args: []refmodel.Operand{pn, valX, valR}}, Item: it, Values: val.Item{":x": val.Str("a"), ":r": val.Str("b")}, Tag: "near-reserved-name"})
			out = append(out, c06Case{Cond: &refmodel.Cond{Op: "cmp", Cmp: "<>", Args: []refmodel.Operand{valX, pn}}, Item: it, Values: val.Item{":x": val.Str("q")}, Tag: "near-reserved-name"})
		}
	}
	// functions x kinds
	for _, lk := range c06Kinds {
		for _, lv := range reps(lk) {
			it := mkItem(lv, val.Absent())
			out = append(out, c06Case{Cond: &refmodel.Cond{Op: "exists", Args: []refmodel.Operand{pathL}}, Item: it, Values: val.Item{}, Tag: "exists"})
			out = append(out, c06Case{Cond: &refmodel.Cond{Op: "notexists", Args: []refmodel.Operand{pathL}}, Item: it, Values: val.Item{}, Tag: "notexists"})
			for _, tn := range val.AllKinds {
				out = append(out, c06Case{Cond: &refmodel.Cond{Op: "type", Args: []refmodel.Operand{pathL, valX}}, Item: it, Values: val.Item{":x": val.Str(string(tn))}, Tag: "type"})
			}
			for _, n := range []string{"0", "1", "2"} {
				for _, cmp := range []string{"=", ">", "<"} {
					out = append(out, c06Case{Cond: &refmodel.Cond{Op: "cmp", Cmp: cmp, Args: []refmodel.Operand{{Kind: "size", Path: refmodel.P("l")}, valX}}, Item: it, Values: val.Item{":x": val.Num(n)}, Tag: "size"})
				}
			}
			for _, rk := range val.AllKinds {
				for _, rv := range reps(rk) {
					out = append(out, c06Case{Cond: &refmodel.Cond{Op: "begins", Args: []refmodel.Operand{pathL, valX}}, Item: it, Values: val.Item{":x": rv}, Tag: "begins"})
					out = append(out, c06Case{Cond: &refmodel.Cond{Op: "contains", Args: []refmodel.Operand{pathL, valX}}, Item: it, Values: val.Item{":x": rv}, Tag: "contains"})
					out = append(out, c06Case{Cond: &refmodel.Cond{Op: "in", Args: []refmodel.Operand{pathL, valX, valR}}, Item: it, Values: val.Item{":x": rv, ":r": reps(rk)[0]}, Tag: "in"})
					for _, hv := range reps(rk) {
						out = append(out, c06Case{Cond: &refmodel.Cond{Op: "between", Args: []refmodel.Operand{pathL, valX, valR}}, Item: it, Values: val.Item{":x": rv, ":r": hv}, Tag: "between"})
					}
				}
			}
		}
	}
	// paths: missing parents, list indexes inside / at / past the end, nested maps
	doc := val.Item{
		"m": val.Map(map[string]val.V{"x": val.Str("a"), "k": val.Map(map[string]val.V{"y": val.Num("1")}), "li": val.List(val.Str("a"), val.Str("b"))}),
		"l": val.List(val.Str("a"), val.Map(map[string]val.V{"x": val.Str("a")}), val.List(val.Num("1"))),
		"s": val.Str("a"),
		// a map whose keys look like list positions, and a list: "[0]" addresses an element of a LIST, ".name" a
		// member of a MAP - never the other way round, whatever the names look like
		"nm": val.Map(map[string]val.V{"0": val.Str("a"), "1": val.Str("a"), "k": val.List(val.Str("a"))}),
	}
	paths := []refmodel.Path{
		{{Name: "nm"}, {IsIdx: true, Idx: 0}}, {{Name: "nm"}, {IsIdx: true, Idx: 1}}, {{Name: "nm"}, {Name: "0", Alias: "#zero"}}, {{Name: "l"}, {Name: "0", Alias: "#zero"}}, {{Name: "l"}, {Name: "1", Alias: "#one"}},
		{{Name: "m"}, {Name: "li"}, {Name: "1", Alias: "#one"}}, {{Name: "nm"}, {Name: "k"}, {Name: "0", Alias: "#zero"}}, {{Name: "nm"}, {Name: "k"}, {IsIdx: true, Idx: 0}},
		refmodel.P("m", "x"), refmodel.P("m", "k", "y"), refmodel.P("m", "nope"), refmodel.P("nope", "x"), refmodel.P("s", "x"), refmodel.P("m", "x", "y"),
		{{Name: "l"}, {IsIdx: true, Idx: 0}}, {{Name: "l"}, {IsIdx: true, Idx: 2}}, {{Name: "l"}, {IsIdx: true, Idx: 3}}, {{Name: "l"}, {IsIdx: true, Idx: 7}},
		{{Name: "l"}, {IsIdx: true, Idx: 1}, {Name: "x"}}, {{Name: "l"}, {IsIdx: true, Idx: 2}, {IsIdx: true, Idx: 0}}, {{Name: "l"}, {IsIdx: true, Idx: 2}, {IsIdx: true, Idx: 1}},
		{{Name: "m"}, {Name: "li"}, {IsIdx: true, Idx: 1}}, {{Name: "m"}, {Name: "li"}, {IsIdx: true, Idx: 2}}, {{Name: "s"}, {IsIdx: true, Idx: 0}}, {{Name: "nope"}, {IsIdx: true, Idx: 0}},
		{{Name: "m", Alias: "#m"}, {Name: "x", Alias: "#x"}}, {{Name: "m"}, {Name: "k", Alias: "#k"}, {Name: "y"}},
	}
	for _, p := range paths {
		po := refmodel.Operand{Kind: "path", Path: p}
		out = append(out, c06Case{Cond: &refmodel.Cond{Op: "exists", Args: []refmodel.Operand{po}}, Item: doc, Values: val.Item{}, Tag: "path-exists"})
		out = append(out, c06Case{Cond: &refmodel.Cond{Op: "notexists", Args: []refmodel.Operand{po}}, Item: doc, Values: val.Item{}, Tag: "path-notexists"})
		for _, v := range []val.V{val.Str("a"), val.Num("1")} {
			for _, cmp := range []string{"=", "<>", "<"} {
				out = append(out, c06Case{Cond: &refmodel.Cond{Op: "cmp", Cmp: cmp, Args: []refmodel.Operand{po, valX}}, Item: doc, Values: val.Item{":x": v}, Tag: "path-cmp"})
			}
		}
		out = append(out, c06Case{Cond: &refmodel.Cond{Op: "begins", Args: []refmodel.Operand{po, valX}}, Item: doc, Values: val.Item{":x": val.Str("a")}, Tag: "path-begins"})
		out = append(out, c06Case{Cond: &refmodel.Cond{Op: "contains", Args: []refmodel.Operand{po, valX}}, Item: doc, Values: val.Item{":x": val.Str("a")}, Tag: "path-contains"})
		out = append(out, c06Case{Cond: &refmodel.Cond{Op: "type", Args: []refmodel.Operand{po, valX}}, Item: doc, Values: val.Item{":x": val.Str("S")}, Tag: "path-type"})
		out = append(out, c06Case{Cond: &refmodel.Cond{Op: "in", Args: []refmodel.Operand{po, valX}}, Item: doc, Values: val.Item{":x": val.Str("a")}, Tag: "path-in"})
		out = append(out, c06Case{Cond: &refmodel.Cond{Op: "between", Args: []refmodel.Operand{po, valX, valR}}, Item: doc, Values: val.Item{":x": val.Str("a"), ":r": val.Str("b")}, Tag: "path-between"})
		// every operand position of BETWEEN and IN takes any operand: a :value on the left, document paths and
		// size() as bounds or members, the whole under NOT
		sTop := refmodel.Operand{Kind: "path", Path: refmodel.P("s")}
		out = append(out, c06Case{Cond: &refmodel.Cond{Op: "between", Args: []refmodel.Operand{valX, po, valR}}, Item: doc, Values: val.Item{":x": val.Str("a"), ":r": val.Str("b")}, Tag: "between-v-path-v"})
		out = append(out, c06Case{Cond: &refmodel.Cond{Op: "between", Args: []refmodel.Operand{valX, valR, po}}, Item: doc, Values: val.Item{":x": val.Str("a"), ":r": val.Str("A")}, Tag: "between-v-v-path"})
		out = append(out, c06Case{Cond: &refmodel.Cond{Op: "between", Args: []refmodel.Operand{sTop, po, po}}, Item: doc, Values: val.Item{}, Tag: "between-p-path-path"})
		out = append(out, c06Case{Cond: &refmodel.Cond{Op: "not", Kids: []*refmodel.Cond{{Op: "between", Args: []refmodel.Operand{sTop, po, valR}}}}, Item: doc, Values: val.Item{":r": val.Str("b")}, Tag: "not-between-path-bound"})
		out = append(out, c06Case{Cond: &refmodel.Cond{Op: "in", Args: []refmodel.Operand{valX, po, valR}}, Item: doc, Values: val.Item{":x": val.Str("a"), ":r": val.Str("zz")}, Tag: "in-v-path-v"})
		out = append(out, c06Case{Cond: &refmodel.Cond{Op: "in", Args: []refmodel.Operand{sTop, valR, po}}, Item: doc, Values: val.Item{":r": val.Str("zz")}, Tag: "in-p-v-path"})
		// size() of the path as operand and as bound
		sz := refmodel.Operand{Kind: "size", Path: p}
		out = append(out, c06Case{Cond: &refmodel.Cond{Op: "between", Args: []refmodel.Operand{sz, valX, valR}}, Item: doc, Values: val.Item{":x": val.Num("1"), ":r": val.Num("2")}, Tag: "between-size-v-v"})
		out = append(out, c06Case{Cond: &refmodel.Cond{Op: "between", Args: []refmodel.Operand{valX, sz, valR}}, Item: doc, Values: val.Item{":x": val.Num("1"), ":r": val.Num("2")}, Tag: "between-v-size-v"})
		out = append(out, c06Case{Cond: &refmodel.Cond{Op: "between", Args: []refmodel.Operand{valX, valR, sz}}, Item: doc, Values: val.Item{":x": val.Num("1"), ":r": val.Num("0")}, Tag: "between-v-v-size"})
		out = append(out, c06Case{Cond: &refmodel.Cond{Op: "in", Args: []refmodel.Operand{valX, sz, valR}}, Item: doc, Values: val.Item{":x": val.Num("1"), ":r": val.Num("2")}, Tag: "in-v-size-v"})
	}
	// #name placeholders standing for attribute names that are no identifiers (dots, brackets, spaces,
	// digits first, reserved words ...): the placeholder names the attribute with exactly that name - it is
	// never re-read as a document path - at top level and as a map member, whether or not the item also
	// holds what the "path reading" of the name would address
	for _, hn := range c06HostileNames {
		top := refmodel.Path{{Name: hn, Alias: "#h"}}
		nested := refmodel.Path{{Name: "m"}, {Name: hn, Alias: "#h"}}
		items := []val.Item{
			{hn: val.Str("a"), "m": val.Map(map[string]val.V{hn: val.Str("a")}), "z": val.Str("bystander")},
			{"z": val.Str("bystander"), "m": val.Map(map[string]val.V{"zz": val.Str("a")})},
		}
		// the decoys: what a path reading of the name would find
		decoy := val.Item{"z": val.Str("bystander")}
		for k, v := range c06Decoy(hn, val.Str("a")) {
			decoy[k] = v
		}
		both := decoy.Clone()
		both[hn] = val.Str("b")
		both["m"] = val.Map(map[string]val.V{hn: val.Str("b"), "app": val.Map(map[string]val.V{"version": val.Str("a")}), "a": val.Map(map[string]val.V{"b": val.Str("a")})})
		half := val.Item{"z": val.Str("bystander"), "m": val.Map(map[string]val.V{"zz": val.Str("a")})}
		for k, v := range c06HalfDecoy(hn, val.Str("a")) {
			half[k] = v
		}
		if mh, ok := c06HalfDecoy(hn, val.Str("a"))[strings.Split(hn, ".")[0]]; ok && strings.Contains(hn, ".") {
			half["m"] = val.Map(map[string]val.V{"zz": val.Str("a"), strings.Split(hn, ".")[0]: mh})
		}
		items = append(items, decoy, both, half)
		if first := strings.FieldsFunc(hn, func(r rune) bool { return r == '.' || r == '[' }); len(first) > 0 && first[0] != hn {
			// an unrelated top-level SCALAR named like the first step of a path reading ("a" next to the member "a.b"
			// of m, "l" next to "l[0]"): it has nothing to do with the member the placeholder names
			items = append(items, val.Item{first[0]: val.Num("7"), "m": val.Map(map[string]val.V{hn: val.Str("a")}), "z": val.Str("bystander")},
				val.Item{first[0]: val.Bool(true), hn: val.Str("a"), "m": val.Map(map[string]val.V{"zz": val.Str("a")})})
		}
		for _, it := range items {
			for _, pth := range []refmodel.Path{top, nested} {
				po := refmodel.Operand{Kind: "path", Path: pth}
				out = append(out, c06Case{Cond: &refmodel.Cond{Op: "exists", Args: []refmodel.Operand{po}}, Item: it, Values: val.Item{}, Tag: "alias-exists"})
				out = append(out, c06Case{Cond: &refmodel.Cond{Op: "notexists", Args: []refmodel.Operand{po}}, Item: it, Values: val.Item{}, Tag: "alias-notexists"})
				for _, cmp := range []string{"=", "<>"} {
					out = append(out, c06Case{Cond: &refmodel.Cond{Op: "cmp", Cmp: cmp, Args: []refmodel.Operand{po, valX}}, Item: it, Values: val.Item{":x": val.Str("a")}, Tag: "alias-cmp"})
				}
				out = append(out, c06Case{Cond: &refmodel.Cond{Op: "cmp", Cmp: "=", Args: []refmodel.Operand{{Kind: "size", Path: pth}, valX}}, Item: it, Values: val.Item{":x": val.Num("1")}, Tag: "alias-size"})
				out = append(out, c06Case{Cond: &refmodel.Cond{Op: "begins", Args: []refmodel.Operand{po, valX}}, Item: it, Values: val.Item{":x": val.Str("a")}, Tag: "alias-begins"})
			}
		}
	}
	return append(out, c06ScaleMatrix()...)
}

var c06HostileNames = []string{"a.b", "app.version", "m.x", "l[0]", "a[1]", "a b", "a-b", "1a", "a:b", "a#b", "size", "SET", "é", "a.b.c", ".", "#h", ":x", "a.", ".a", "a\\.b",
	// names that begin or end with white space ("Order ID " as exported by a spreadsheet): other attributes than their trimmed spelling
	" a", "a ", " Order ID ", "\ta", "a\n", " "}

// c06Decoy builds what a path reading of a hostile name would address ("a.b" -> a:{b:v}, "l[0]" -> l:[v]).
func c06Decoy(name string, v val.V) val.Item {
	out := val.Item{}
	if t := strings.TrimSpace(name); t != name {
		if t != "" {
			out[t] = v // the attribute a trimmed reading of the name would address
		}
		return out
	}
	if i := strings.Index(name, "["); i > 0 {
		out[name[:i]] = val.List(v, v, v)
		return out
	}
	parts := strings.Split(name, ".")
	if len(parts) < 2 || parts[0] == "" {
		return out
	}
	cur := v
	for i := len(parts) - 1; i >= 1; i-- {
		cur = val.Map(map[string]val.V{parts[i]: cur})
	}
	out[parts[0]] = cur
	return out
}

// c06HalfDecoy builds the containers a path reading of a hostile name would walk through, WITHOUT the last
// member ("a.b" -> a:{zz:v}, "a.b.c" -> a:{b:{zz:v}}, "l[0]" -> l:[]): neither the literal attribute nor the
// path reading exists, but a parent the path reading could write into or delete from does.
func c06HalfDecoy(name string, v val.V) val.Item {
	out := val.Item{}
	if i := strings.Index(name, "["); i > 0 {
		out[name[:i]] = val.List()
		return out
	}
	parts := strings.Split(name, ".")
	if len(parts) < 2 || parts[0] == "" {
		return out
	}
	cur := val.Map(map[string]val.V{"zz": v})
	for i := len(parts) - 2; i >= 1; i-- {
		cur = val.Map(map[string]val.V{parts[i]: cur, "yy": v})
	}
	out[parts[0]] = cur
	return out
}

// c06AliasQuirk returns the library's reading of the #name placeholders of a case, as an alternative item:
//   - dotted-alias-as-path: a placeholder whose target contains '.' is re-read as a document path WHEN NO
//     ATTRIBUTE WITH THAT LITERAL NAME EXISTS (pinned by the repository's evaluator tests: #pos -> ":nestedMap.lvl1.lvl2");
//   - alias-into-values: item attributes and :value placeholders share one namespace, so a placeholder whose
//     target starts with ':' and equals a supplied value key addresses that value.
func c06AliasQuirk(cs c06Case) (string, val.Item) {
	alt := cs.Item.Clone()
	quirk := ""
	for _, pth := range cs.Cond.Paths() {
		if pth[0].Alias != "" {
			n := pth[0].Name
			if v, ok := cs.Values[n]; ok && strings.HasPrefix(n, ":") {
				alt[n] = v
				quirk = "alias-into-values"
				continue
			}
			if _, have := cs.Item[n]; !have && strings.Contains(n, ".") {
				if v, ok := refmodel.P(strings.Split(n, ".")...).Resolve(cs.Item); ok {
					alt[n] = v
					quirk = "dotted-alias-as-path"
				} else if first, ok := cs.Item[strings.Split(n, ".")[0]]; ok && first.K != val.KM && first.K != val.KL {
					// the path reading steps into a scalar: the library fails the request ("index operator not
					// supported") - the same listed reading of the name, another symptom
					alt["\x00reading-fails"] = val.Bool(true)
					quirk = "dotted-alias-as-path"
				}
			}
		}
		if len(pth) == 2 && pth[1].Alias != "" && strings.Contains(pth[1].Name, ".") {
			n := pth[1].Name
			if parent, ok := cs.Item[pth[0].Name]; ok && parent.K == val.KM {
				if _, have := parent.M[n]; !have {
					full := append([]string{pth[0].Name}, strings.Split(n, ".")...)
					if v, ok := refmodel.P(full...).Resolve(cs.Item); ok {
						np := parent.Clone()
						np.M[n] = v
						alt[pth[0].Name] = np
						quirk = "dotted-alias-as-path"
					}
				}
			}
		}
	}
	return quirk, alt
}

var c06MatrixCache []c06Case

const c06Block = 200

func c06Seeded(tier string) int {
	if tier == "thorough" {
		return 20000 // x 200 evaluations
	}
	return 2000
}

func (p *c06) NumCases(tier string) int {
	if c06MatrixCache == nil {
		c06MatrixCache = c06Matrix()
	}
	return (len(c06MatrixCache)+c06Block-1)/c06Block + c06Seeded(tier)
}

// operand kind vector of a condition evaluated on an item
func kindVector(c *refmodel.Cond, item, values val.Item) string {
	parts := []string{}
	var walk func(c *refmodel.Cond)
	walk = func(c *refmodel.Cond) {
		for _, a := range c.Args {
			switch a.Kind {
			case "path", "size":
				v, ok := a.Path.Resolve(item)
				k := "absent"
				if ok {
					k = string(v.K)
				}
				if a.Kind == "size" {
					k = "size(" + k + ")"
				}
				parts = append(parts, "p:"+k)
			case "val":
				parts = append(parts, "v:"+string(values[a.Val].K))
			}
		}
		for _, k := range c.Kids {
			walk(k)
		}
	}
	walk(c)
	return strings.Join(parts, ",")
}

func reverseSets(v val.V) val.V {
	switch v.K {
	case val.KSS, val.KNS, val.KBS:
		o := v.Clone()
		for i, j := 0, len(o.Set)-1; i < j; i, j = i+1, j-1 {
			o.Set[i], o.Set[j] = o.Set[j], o.Set[i]
		}
		return o
	case val.KL:
		o := val.V{K: val.KL, L: []val.V{}}
		for _, e := range v.L {
			o.L = append(o.L, reverseSets(e))
		}
		return o
	case val.KM:
		o := val.V{K: val.KM, M: map[string]val.V{}}
		for k, e := range v.M {
			o.M[k] = reverseSets(e)
		}
		return o
	}
	return v
}

// matchDirect calls interpreter.Language.Match under recover and classifies the outcome.
// directDebug makes matchDirect / updateDirect run the interpreter in its debug mode (Language.Debug, what
// Client.ActivateDebug switches on); see inDebugMode
var directDebug bool

// inDebugMode runs f with the interpreter's debug mode on. The mode prints to the standard output, which is
// pointed at the null device meanwhile (workers of these checks run one case at a time).
func inDebugMode(f func()) {
	null, err := os.OpenFile(os.DevNull, os.O_WRONLY, 0)
	if err != nil {
		return
	}
	saved := os.Stdout
	os.Stdout, directDebug = null, true
	defer func() {
		os.Stdout, directDebug = saved, false
		null.Close()
	}()
	f()
}

func matchDirect(expr string, names map[string]string, item, values val.Item) (refmodel.Res, string, string, val.Item) {
	li := &interpreter.Language{Debug: directDebug}
	ti := adapt.ItemToTypes(item)
	if ti == nil {
		ti = adapt.ItemToTypes(val.Item{})
	}
	tv := adapt.ItemToTypes(values)
	var outcome refmodel.Res
	var msg, site string
	func() {
		defer func() {
			if r := recover(); r != nil {
				outcome = 0
				_, msg = adapt.ClassifyPanic(r)
				site = adapt.PanicSite()
			}
		}()
		ok, err := li.Match(interpreter.MatchInput{TableName: "t", Expression: expr, ExpressionType: interpreter.ExpressionTypeConditional, Item: ti, Attributes: tv, Aliases: names})
		switch {
		case err != nil:
			outcome, msg = refmodel.R, err.Error()
		case ok:
			outcome = refmodel.T
		default:
			outcome = refmodel.F
		}
	}()
	return outcome, msg, site, adapt.ItemFromTypes(ti)
}

func outcomeName(r refmodel.Res) string {
	switch r {
	case refmodel.T:
		return "true"
	case refmodel.F:
		return "false"
	case refmodel.R:
		return "reject"
	}
	return "panic"
}

func (p *c06) evalCase(x *res, cs c06Case, rr refmodel.RenderOpts, viaClient bool, ctx *runner.Ctx) {
	names := map[string]string{}
	expr := cs.Cond.Render(names, rr)
	want := cs.Cond.Eval(cs.Item, cs.Values)
	ctx.Trace("match %q item=%s values=%s", expr, cs.Item.Canon(), cs.Values.Canon())
	got, msg, site, after := matchDirect(expr, names, cs.Item, cs.Values)
	x.r.Evals++
	kv := kindVector(cs.Cond, cs.Item, cs.Values)
	// non-trivial: mentions a present attribute and the value depends on the item
	nontrivial := false
	for _, pth := range cs.Cond.Paths() {
		if _, ok := cs.Item[pth[0].Name]; ok {
			it2 := cs.Item.Clone()
			delete(it2, pth[0].Name)
			if cs.Cond.Eval(it2, cs.Values) != want {
				nontrivial = true
			}
		}
	}
	x.fp(nontrivial, "%s|%s", cs.Cond.Skeleton(), kv)
	x.set("outcomes", outcomeName(got))
	wit := map[string]interface{}{"expression": expr, "names": names, "item": cs.Item, "values": cs.Values, "ast": cs.Cond, "oracle": want.String(), "got": outcomeName(got), "msg": msg}
	feature := func() string {
		sk := cs.Cond.Skeleton()
		if cs.Cond.Depth() > 1 {
			sk = "compound"
		}
		return sk + "/" + kv
	}
	if got == 0 {
		x.viol("runtime-panic", site, fmt.Sprintf("Match(%q) on %s with %s: runtime panic at %s: %s (oracle %s)", expr, cs.Item.Canon(), cs.Values.Canon(), site, msg, want), wit)
		return
	}
	if got&want == 0 {
		// two listed findings about #name placeholders: each is recognised by re-running the oracle under the
		// library's reading; only a disagreement that this reading explains is filed under the finding
		if q, alt := c06AliasQuirk(cs); q != "" && (got&cs.Cond.Eval(alt, cs.Values) != 0 || (got == refmodel.R && alt["\x00reading-fails"].K == val.KBOOL)) {
			x.viol("wrong-outcome~"+q, "alias", fmt.Sprintf("Match(%q) with names %v on %s with %s = %s (%s); oracle admits %s", expr, names, cs.Item.Canon(), cs.Values.Canon(), outcomeName(got), msg, want), wit)
			return
		}
		feat := feature()
		if cs.Cond.Depth() > 1 {
			// find a leaf that already disagrees to make the signature precise
			feat = "compound/" + outcomeName(got)
		}
		x.viol("wrong-outcome", feat+"/"+outcomeName(got), fmt.Sprintf("Match(%q) on %s with %s = %s (%s); oracle admits %s", expr, cs.Item.Canon(), cs.Values.Canon(), outcomeName(got), msg, want), wit)
		return
	}
	if !val.ItemsEqual(after, cs.Item) {
		x.viol("item-modified", cs.Cond.Op, fmt.Sprintf("Match(%q) changed the item from %s to %s", expr, cs.Item.Canon(), after.Canon()), wit)
	}
	// attribute-order independence: permuted set-member order
	it2 := val.Item{}
	for k, v := range cs.Item {
		it2[k] = reverseSets(v)
	}
	v2 := val.Item{}
	for k, v := range cs.Values {
		v2[k] = reverseSets(v)
	}
	if got2, _, _, _ := matchDirect(expr, names, it2, v2); got2 != got {
		x.viol("order-dependent", cs.Cond.Op, fmt.Sprintf("Match(%q) = %s but %s with set members permuted", expr, outcomeName(got), outcomeName(got2)), wit)
	}
	x.r.Evals++
	if viaClient && want.Definite() {
		p.viaClient(x, cs, expr, names, want, ctx)
	}
}

// viaClient replays the case as PutItem condition, Scan filter and Query filter on both adapters.
func (p *c06) viaClient(x *res, cs c06Case, expr string, names map[string]string, want refmodel.Res, ctx *runner.Ctx) {
	for _, adapter := range adapt.Adapters {
		spec := mon.SpecHashOnly("tbl06")
		cl, _, ds := freshClient(adapter, spec)
		if ds != nil {
			return
		}
		item := cs.Item.Clone()
		if _, clash := item["h"]; clash {
			return
		}
		item["h"] = val.Str("k")
		if got := cl.Do(adapt.Op{Kind: adapt.OpPut, Table: spec.Name, Item: item}); got.Class != adapt.ClsOK {
			return
		}
		var nm map[string]string
		if len(names) > 0 {
			nm = names
		}
		var vs val.Item
		if len(cs.Values) > 0 {
			vs = cs.Values
		}
		// conditional put on the same key
		put := cl.Do(adapt.Op{Kind: adapt.OpPut, Table: spec.Name, Item: item, Cond: expr, Names: nm, Values: vs})
		scan := cl.Do(adapt.Op{Kind: adapt.OpScan, Table: spec.Name, Filter: expr, Names: nm, Values: vs})
		x.r.Evals += 2
		x.r.Counters["client_replays"]++
		wantPut := adapt.ClsOK
		if want == refmodel.F {
			wantPut = adapt.ClsCondFailed
		}
		wit := map[string]interface{}{"adapter": adapter, "expression": expr, "names": names, "item": item, "values": cs.Values, "oracle": want.String(), "put": put, "scan": scan}
		if put.Class != wantPut {
			x.viol("client-wiring", "put/"+put.Class, fmt.Sprintf("[%s] PutItem with condition %q: class %s, oracle %s", adapter, expr, put.Class, want), wit)
		}
		wantN := 0
		if want == refmodel.T {
			wantN = 1
		}
		if scan.Class != adapt.ClsOK || len(scan.Items) != wantN {
			x.viol("client-wiring", "scan/"+scan.Class, fmt.Sprintf("[%s] Scan with filter %q: class %s, %d items, oracle %s", adapter, expr, scan.Class, len(scan.Items), want), wit)
		}
	}
}

func (p *c06) RunCase(ctx *runner.Ctx) runner.CaseResult {
	x := newRes()
	if c06MatrixCache == nil {
		c06MatrixCache = c06Matrix()
	}
	blocks := (len(c06MatrixCache) + c06Block - 1) / c06Block
	if ctx.Case < blocks {
		for i := ctx.Case * c06Block; i < (ctx.Case+1)*c06Block && i < len(c06MatrixCache); i++ {
			cs := c06MatrixCache[i]
			p.evalCase(x, cs, refmodel.RenderOpts{}, i%50 == 0, ctx)
			x.r.Counters["matrix:"+cs.Tag]++
		}
		if ctx.Case%40 == 0 {
			cs := c06MatrixCache[ctx.Case*c06Block]
			x.r.Sample = map[string]interface{}{"kind": "matrix", "expression": cs.Cond.Render(map[string]string{}, refmodel.RenderOpts{}), "item": cs.Item, "values": cs.Values}
		}
		return x.r
	}
	idx := ctx.Case - blocks
	r := mon.Rng(ctx.Seed, "C06", idx)
	depth := 4
	if ctx.Tier == "thorough" {
		depth = 6
	}
	for k := 0; k < 200; k++ {
		// item universe: 6 attributes
		item := val.Item{}
		opts := mon.GenOpts{MaxDepth: 2, ASCII: true, NoEmptyLM: false}
		for _, n := range []string{"a", "b", "c", "d", "e", "f"} {
			if r.Intn(4) != 0 {
				item[n] = mon.Value(r, 2, opts)
			}
		}
		g := &mon.CondGen{R: r, Attrs: []string{"a", "b", "c", "d", "e", "f"}, Opts: opts, Alias: true}
		c := g.Cond(r.Intn(depth + 1))
		rr := refmodel.RenderOpts{}
		if r.Intn(2) == 0 {
			rr.Rng = r
		}
		cs := c06Case{Cond: c, Item: item, Values: g.Values, Tag: "seeded"}
		if cs.Values == nil {
			cs.Values = val.Item{}
		}
		p.evalCase(x, cs, rr, r.Intn(50) == 0, ctx)
		if k == 0 && idx < 3 {
			x.r.Sample = map[string]interface{}{"kind": "seeded", "expression": c.Render(map[string]string{}, refmodel.RenderOpts{}), "item": item, "values": g.Values}
		}
	}
	return x.r
}

var _ = sort.Strings
