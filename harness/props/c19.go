package props

import (
	"strings"
	"fmt"

	"verifharness/adapt"
	"verifharness/model"
	"verifharness/mon"
	"verifharness/runner"
	"verifharness/val"
)

// C19 – batch operations equal their item-by-item decomposition.
type c19 struct{ base }

func init() {
	runner.Register(&c19{base{id: "C19", level: "exploration",
		rule: "per case: 1-3 tables (hash-only / hash+range / with 2 GSIs + 1 LSI) brought to a random state by the same seeded history on a client and its TWIN; then a BatchWriteItem of 1-25 requests (puts and deletes mixed, keys present and absent, tables repeated, distinct keys within a batch) on the client versus the same requests as single PutItem/DeleteItem calls on the twin: the complete observations of all tables (every key, base scan, every index scan, DescribeTable counts) must be identical, and both must agree with the model; BatchGetItem (SDK v2) of 1-25 keys, and in every fourth case of 26-100 keys over 30-80 stored bulk items, with 0-100 % absent keys versus individual GetItem: Responses per table = the multiset of non-empty individual results, UnprocessedKeys empty. non-trivial = batch has >=2 requests touching >=1 present and >=1 absent key; distinct by (adapter, tables, batch size, put/delete pattern, present/absent pattern). A quarter of the write batches follow, on the same client, a batch REFUSED for naming a missing table (sorting before, between, after the existing ones): it leaves no trace and the following batch still equals its singles. The retry loop: a batch answered while a failure is emulated, its UnprocessedItems map (the response's own object) sent again once the failure is off - success with nothing unprocessed equals the singles.",
		assumptions: []string{"oracle = the same adapter executing the decomposition (metamorphic), cross-checked with the model", commonAssumptions[1]}}})
}

func (p *c19) NumCases(tier string) int {
	if tier == "thorough" {
		return 200000
	}
	return 30000
}

func (p *c19) RunCase(ctx *runner.Ctx) runner.CaseResult {
	x := newRes()
	r := mon.Rng(ctx.Seed, "C19", ctx.Case)
	adapter := adapt.Adapters[ctx.Case%2]
	if ctx.Case < 2 {
		p.retryUnprocessed(x, adapter)
	}
	specs := []adapt.TableSpec{ixSpec("tba19", true), mon.SpecHashOnly("tbb19"), mon.SpecHashRange("tbc19")}
	specs = specs[:1+r.Intn(3)]
	cl, m, ds := freshClient(adapter, specs...)
	twin, _, _ := freshClient(adapter, specs...)
	if ds != nil {
		x.viol("setup", "create", ds[0].Detail, specs)
		return x.r
	}
	keys := mon.KeyLog{}
	hist := []adapt.Op{}
	mkItem := func(s adapt.TableSpec, i int) val.Item {
		if len(s.Indexes) > 0 {
			return ixItem(mon.Pick(r, ixHashPool), mon.Pick(r, ixRangePool), maybe(r, ixGPool, 25), maybe(r, ixSPool, 25), i)
		}
		it := val.Item{"h": val.Str(mon.Pick(r, []string{"k1", "k2", "k3", "k.4", "k5"})), "v": val.Num(fmt.Sprint(i))}
		if s.Range != "" {
			it["r"] = val.Str(mon.Pick(r, []string{"1", "2", "a.b"}))
		}
		return it
	}
	n := r.Intn(15)
	for i := 0; i < n; i++ {
		s := mon.Pick(r, specs)
		hist = append(hist, adapt.Op{Kind: adapt.OpPut, Table: s.Name, Item: mkItem(s, i)})
	}
	doGet := adapter == "v2" && ctx.Case%3 == 2
	// every fourth BatchGetItem case is a LARGE one: 26-100 keys (the service limit is 100 keys per call,
	// 25 is the limit of BatchWriteItem only) over unique bulk keys, 30-80 of which are stored
	large := doGet && r.Intn(4) == 0
	bulk := map[string][]val.Item{}
	if large {
		nb := 30 + r.Intn(51)
		for i := 0; i < nb; i++ {
			s := mon.Pick(r, specs)
			it := mkItem(s, 1000+i)
			it["h"] = val.Str(fmt.Sprint("bulk", i))
			hist = append(hist, adapt.Op{Kind: adapt.OpPut, Table: s.Name, Item: it})
			bulk[s.Name] = append(bulk[s.Name], it)
		}
	}
	st := &mon.HistoryStats{}
	if f := mon.RunHistory(cl, m, hist, keys, false, nil, ctx.Trace, st); f != nil {
		x.failureViolation(adapter, f, specs)
		return x.r
	}
	for _, op := range hist {
		twin.Do(op)
	}
	names := []string{}
	for _, s := range specs {
		names = append(names, s.Name)
	}
	size := 1 + r.Intn(25)
	if large {
		size = 26 + r.Intn(75)
	}
	seen := map[string]bool{}
	present, absent, puts, dels := 0, 0, 0, 0
	if !doGet {
		batch := []adapt.BatchEntry{}
		// every fourth write batch REPEATS keys (put then delete, put then put, delete then put of one key) and
		// has 13-25 requests: DynamoDB refuses such a batch; the library accepts it, and then "performing its
		// requests individually" can only mean in the order of the request list (per table - tables are
		// independent). Admissible: a validation error that leaves no trace, or the state of the in-order twin
		repeat := r.Intn(4) == 0
		if repeat {
			size = 13 + r.Intn(13)
			x.r.Counters["batches_with_repeated_keys"]++
		}
		for i := 0; i < size; i++ {
			s := mon.Pick(r, specs)
			it := mkItem(s, 100+i)
			key := m.Tables[s.Name].KeyOf(it)
			if seen[s.Name+key.Canon()] && !repeat {
				continue
			}
			seen[s.Name+key.Canon()] = true
			kc, _ := m.Tables[s.Name].KeyCanon(key)
			if stored, ok := m.Tables[s.Name].Items[kc]; ok {
				present++
				if r.Intn(3) == 0 {
					// overwrite with ALMOST the stored item: one non-key scalar keeps its text and changes its TYPE
					// (S "42" <-> N "42" <-> B "42"), or nothing changes at all
					it = stored.Clone()
					for _, a := range []string{"v", "g", "s"} {
						if _, isKey := key[a]; isKey {
							continue
						}
						if v, ok := it[a]; ok && a == "v" && r.Intn(2) == 0 {
							switch v.K {
							case val.KN:
								it[a] = val.Str(v.Str)
							case val.KS:
								if _, err := val.ParseDec(v.Str); err == nil {
									it[a] = val.Num(v.Str)
								} else {
									it[a] = val.Bin(v.Str)
								}
							}
							break
						}
					}
					x.r.Counters["near_identical_overwrites"]++
				}
			} else {
				absent++
			}
			keys.Add(s.Name, key)
			if r.Intn(3) == 0 {
				dels++
				batch = append(batch, adapt.BatchEntry{Table: s.Name, Del: key})
			} else {
				puts++
				batch = append(batch, adapt.BatchEntry{Table: s.Name, Put: it})
			}
		}
		op := adapt.Op{Kind: adapt.OpBatchWrite, Batch: batch}
		if r.Intn(5) == 0 {
			// the caller's context is already done (cancelled, or its deadline has passed): the library may ignore
			// contexts - then the batch is what it always is - or report the cancellation and apply nothing; it may
			// not report success for requests it did not perform
			op.DoneCtx = mon.Pick(r, []string{"cancelled", "expired"})
			x.r.Counters["batches_with_a_done_context"]++
		}
		if r.Intn(4) == 0 {
			// a batch that is REFUSED as a whole goes first on the same client (it names a table that does not exist, after
			// requests that are fine): it performs none of its requests - not now, and not as a rider of the batch that follows
			pre := []adapt.BatchEntry{}
			for i := 0; i < 1+r.Intn(3); i++ {
				s := mon.Pick(r, specs)
				it := mkItem(s, 500+i)
				it["h"] = val.Str(fmt.Sprint("refused", i))
				keys.Add(s.Name, m.Tables[s.Name].KeyOf(it))
				pre = append(pre, adapt.BatchEntry{Table: s.Name, Put: it})
			}
			missing := mon.Pick(r, []string{"no-such-table19", "tbz19-missing", "tbb19x"}) // sorts before, after, between the tables that exist
			pre = append(pre, adapt.BatchEntry{Table: missing, Put: val.Item{"h": val.Str("x")}})
			if r.Intn(2) == 0 {
				pre[0], pre[len(pre)-1] = pre[len(pre)-1], pre[0]
			}
			pg := cl.Do(adapt.Op{Kind: adapt.OpBatchWrite, Batch: pre})
			x.r.Evals++
			x.r.Counters["refused_batches_before_the_batch"]++
			if pg.Class == adapt.ClsOK {
				x.viol("batch-on-missing-table-accepted", "batchwrite", fmt.Sprintf("[%s] BatchWriteItem naming the missing table %s succeeded", adapter, missing), map[string]interface{}{"adapter": adapter, "batch": pre, "outcome": pg})
				return x.r
			}
			if ds := mon.Observe(cl, m, keys, nil); len(ds) > 0 {
				x.viol("refused-batch-left-trace", "batchwrite/missing-table", fmt.Sprintf("[%s] BatchWriteItem naming a missing table was refused (%s) but changed the tables: %s", adapter, pg.Class, ds[0].Detail), map[string]interface{}{"adapter": adapter, "specs": specs, "history": hist, "batch": pre, "outcome": pg})
				return x.r
			}
		}
		ctx.Trace("%s %s", adapter, op.String())
		got := cl.Do(op)
		if op.DoneCtx != "" && got.Class == adapt.ClsCancelled {
			x.r.Counters["batches_refused_for_their_context"]++
			if ds := mon.Observe(cl, m, keys, nil); len(ds) > 0 {
				x.viol("refused-batch-left-trace", "batchwrite/"+op.DoneCtx, fmt.Sprintf("[%s] BatchWriteItem reported that its context is done but changed the tables: %s", adapter, ds[0].Detail), map[string]interface{}{"adapter": adapter, "specs": specs, "history": hist, "batch": op, "outcome": got})
			}
			return x.r
		}
		x.r.Evals += st.Calls + 1 + len(batch)
		x.fp(len(batch) >= 2 && present > 0 && absent > 0, "%s|write|t%d|n%d|p%d|d%d|pr%d", adapter, len(specs), len(batch), puts, dels, present)
		wit := map[string]interface{}{"adapter": adapter, "specs": specs, "history": hist, "batch": op, "outcome": got}
		if repeat && got.Class == adapt.ClsValidation {
			// refused like DynamoDB does: nothing may have been applied
			if ds := mon.Observe(cl, m, keys, nil); len(ds) > 0 {
				x.viol("refused-batch-left-trace", "batchwrite", fmt.Sprintf("[%s] BatchWriteItem with repeated keys was refused but changed the tables: %s", adapter, ds[0].Detail), wit)
			}
			return x.r
		}
		if ds := m.Step(op, got); len(ds) > 0 {
			x.viol(ds[0].Rule, "batchwrite", fmt.Sprintf("[%s] BatchWriteItem: %s", adapter, ds[0].Detail), wit)
			return x.r
		}
		for _, e := range batch {
			var o adapt.Outcome
			if e.Put != nil {
				o = twin.Do(adapt.Op{Kind: adapt.OpPut, Table: e.Table, Item: e.Put})
			} else {
				o = twin.Do(adapt.Op{Kind: adapt.OpDelete, Table: e.Table, Key: e.Del})
			}
			if o.Class != adapt.ClsOK {
				x.viol("twin-single-failed", "batchwrite", fmt.Sprintf("[%s] single request of the decomposition failed: %s", adapter, o.Class), wit)
				return x.r
			}
		}
		a, b := mon.Snapshot(cl, names, keys), mon.Snapshot(twin, names, keys)
		x.r.Evals += 2 * (len(keys) + 8)
		if a != b {
			x.viol("batch-differs-from-singles", "batchwrite", fmt.Sprintf("[%s] state after BatchWriteItem differs from the state after the same requests one by one\n--- batch\n%s--- singles\n%s", adapter, a, b), wit)
			return x.r
		}
		if ds := mon.Observe(cl, m, keys, nil); len(ds) > 0 {
			x.viol("observe:"+ds[0].Rule, "batchwrite", fmt.Sprintf("[%s] after BatchWriteItem: %s", adapter, ds[0].Detail), wit)
		}
		if ctx.Case < 2 {
			x.r.Sample = wit
		}
		return x.r
	}
	// BatchGetItem vs individual GetItem
	gets := []adapt.BatchEntry{}
	pAbsent := r.Intn(101)
	for i := 0; i < size; i++ {
		s := mon.Pick(r, specs)
		var key val.Item
		t := m.Tables[s.Name]
		if large {
			if r.Intn(100) < pAbsent/2 || len(bulk[s.Name]) == 0 {
				key = t.KeyOf(mkItem(s, 0))
				key["h"] = val.Str(fmt.Sprint("never-written", i))
			} else {
				key = t.KeyOf(mon.Pick(r, bulk[s.Name]))
			}
		} else if r.Intn(100) < pAbsent || len(t.Items) == 0 {
			key = t.KeyOf(mkItem(s, 0))
			if r.Intn(2) == 0 {
				key["h"] = val.Str("never-written")
			}
		} else {
			for _, it := range t.Items {
				key = t.KeyOf(it)
				if r.Intn(3) == 0 {
					break
				}
			}
		}
		if seen[s.Name+key.Canon()] {
			continue
		}
		seen[s.Name+key.Canon()] = true
		gets = append(gets, adapt.BatchEntry{Table: s.Name, Del: key})
	}
	op := adapt.Op{Kind: adapt.OpBatchGet, Gets: gets}
	// a third of the batch reads carry the per-table read options (ProjectionExpression with its placeholders - also
	// placeholders that only occur in a LATER step of a path -, ConsistentRead): the single GetItem calls they are
	// compared with carry the same ones
	var projNames map[string]string
	proj := ""
	if r.Intn(3) == 0 {
		pick := mon.Pick(r, [][2]string{{"#d.#k, v", "#d=doc,#k=name"}, {"doc.#k", "#k=size"}, {"#a, #ab", "#a=v,#ab=g"}, {"h, r, v", ""}, {"l[0].#k, #d", "#k=status,#d=doc"}, {"#d.li[1], #d.#k.#k", "#d=doc,#k=k"}})
		proj = pick[0]
		if pick[1] != "" {
			projNames = map[string]string{}
			for _, kv := range strings.Split(pick[1], ",") {
				p := strings.SplitN(kv, "=", 2)
				projNames[p[0]] = p[1]
			}
		}
		op.Proj, op.Names = proj, projNames
		op.Consistent = r.Intn(2) == 0
		x.r.Counters["batch_reads_with_options"]++
	}
	if r.Intn(5) == 0 {
		op.DoneCtx = mon.Pick(r, []string{"cancelled", "expired"})
		x.r.Counters["batches_with_a_done_context"]++
	}
	ctx.Trace("%s %s", adapter, op.String())
	got := cl.Do(op)
	if op.DoneCtx != "" && got.Class == adapt.ClsCancelled {
		x.r.Counters["batches_refused_for_their_context"]++
		return x.r
	}
	x.r.Evals += st.Calls + 1 + len(gets)
	want := map[string][]val.Item{}
	for _, g := range gets {
		o := cl.Do(adapt.Op{Kind: adapt.OpGet, Table: g.Table, Key: g.Del, Proj: proj, Names: projNames, Consistent: op.Consistent})
		if o.Item != nil {
			present++
			want[g.Table] = append(want[g.Table], o.Item)
		} else {
			absent++
		}
	}
	x.fp(len(gets) >= 2 && present > 0 && absent > 0, "%s|get|t%d|n%d|pr%d|ab%d", adapter, len(specs), len(gets), present, absent)
	wit := map[string]interface{}{"adapter": adapter, "specs": specs, "history": hist, "batchget": op, "outcome": got}
	if got.Class != adapt.ClsOK {
		x.viol("batchget-failed", got.Class, fmt.Sprintf("[%s] BatchGetItem failed: %s %s", adapter, got.Class, got.Msg), wit)
		return x.r
	}
	for tn, w := range want {
		if adapt.ItemsSetCanon(got.Resp[tn]) != adapt.ItemsSetCanon(w) {
			x.viol("batchget-responses-differ", "responses", fmt.Sprintf("[%s] BatchGetItem responses for %s: %s; individual GetItem calls give %s", adapter, tn, adapt.ItemsSetCanon(got.Resp[tn]), adapt.ItemsSetCanon(w)), wit)
			return x.r
		}
	}
	for tn, rs := range got.Resp {
		if len(rs) > 0 && len(want[tn]) == 0 {
			x.viol("batchget-responses-differ", "responses", fmt.Sprintf("[%s] BatchGetItem returned items for %s although no individual GetItem does", adapter, tn), wit)
			return x.r
		}
	}
	// the same keys are read again after the tables changed underneath - by every kind of change, also the helper
	// ClearTable and delete + re-create: a batch read reflects the CURRENT items, as the single reads do
	for round := 0; round < 2 && len(gets) > 0; round++ {
		change := mon.Pick(r, []string{"cleartable", "delete-recreate", "delete-some", "overwrite-some", "update-some", "batch-delete-some", "none"})
		tn := gets[r.Intn(len(gets))].Table
		var spec adapt.TableSpec
		for _, s := range specs {
			if s.Name == tn {
				spec = s
			}
		}
		switch change {
		case "cleartable":
			cl.Do(adapt.Op{Kind: adapt.OpClearTable, Table: tn})
		case "delete-recreate":
			cl.Do(adapt.Op{Kind: adapt.OpDeleteTable, Table: tn})
			cl.Do(createOp(spec))
		case "batch-delete-some":
			b := []adapt.BatchEntry{}
			for i, g := range gets {
				if i%2 == 0 && len(b) < 25 {
					b = append(b, adapt.BatchEntry{Table: g.Table, Del: g.Del})
				}
			}
			cl.Do(adapt.Op{Kind: adapt.OpBatchWrite, Batch: b})
		default:
			for i, g := range gets {
				if i%2 != round {
					continue
				}
				switch change {
				case "delete-some":
					cl.Do(adapt.Op{Kind: adapt.OpDelete, Table: g.Table, Key: g.Del})
				case "overwrite-some":
					it := g.Del.Clone()
					it["v"] = val.Num(fmt.Sprint(7000 + i))
					it["rewritten"] = val.Str(fmt.Sprint("round", round))
					cl.Do(adapt.Op{Kind: adapt.OpPut, Table: g.Table, Item: it})
				case "update-some":
					cl.Do(mon.SetUpdate(g.Table, g.Del, "touched", val.Str(fmt.Sprint("round", round))))
				}
			}
		}
		again := cl.Do(op)
		x.r.Evals += 1 + len(gets)
		x.r.Counters["batchget_rereads"]++
		x.set("rereads_after", change)
		want2 := map[string][]val.Item{}
		for _, g := range gets {
			if o := cl.Do(adapt.Op{Kind: adapt.OpGet, Table: g.Table, Key: g.Del}); o.Item != nil {
				want2[g.Table] = append(want2[g.Table], o.Item)
			}
		}
		w2 := map[string]interface{}{"adapter": adapter, "specs": specs, "history": hist, "batchget": op, "change_between_reads": change, "changed_table": tn, "outcome": again}
		if again.Class != adapt.ClsOK {
			x.viol("batchget-failed", again.Class+"/reread", fmt.Sprintf("[%s] BatchGetItem after %s failed: %s %s", adapter, change, again.Class, again.Msg), w2)
			break
		}
		bad := false
		for _, s := range specs {
			if adapt.ItemsSetCanon(again.Resp[s.Name]) != adapt.ItemsSetCanon(want2[s.Name]) {
				x.viol("batchget-responses-differ", "reread-after/"+change, fmt.Sprintf("[%s] BatchGetItem repeated after %s on %s: responses for %s: %s; individual GetItem calls give %s", adapter, change, tn, s.Name, adapt.ItemsSetCanon(again.Resp[s.Name]), adapt.ItemsSetCanon(want2[s.Name])), w2)
				bad = true
				break
			}
		}
		if bad {
			break
		}
	}
	// one of the named tables is deleted: every individual GetItem for its keys now fails with ResourceNotFound,
	// and so does the batch read as a whole (its decomposition contains a failing call)
	if len(gets) > 0 && r.Intn(3) == 0 {
		tn := gets[r.Intn(len(gets))].Table
		cl.Do(adapt.Op{Kind: adapt.OpDeleteTable, Table: tn})
		single := cl.Do(adapt.Op{Kind: adapt.OpGet, Table: tn, Key: gets[0].Del})
		gone := cl.Do(op)
		x.r.Evals += 3
		x.r.Counters["batchget_on_deleted_table"]++
		if single.Class == adapt.ClsNotFound && gone.Class != adapt.ClsNotFound {
			x.viol("batchget-missing-table", gone.Class, fmt.Sprintf("[%s] BatchGetItem naming table %s after it was deleted: class %s (responses %d tables, unprocessed %d tables); every individual GetItem fails with ResourceNotFound", adapter, tn, gone.Class, len(gone.Resp), len(gone.UnprocK)),
				map[string]interface{}{"adapter": adapter, "specs": specs, "history": hist, "batchget": op, "deleted_table": tn, "outcome": gone})
		}
	}
	nun := 0
	for _, ks := range got.UnprocK {
		nun += len(ks)
	}
	if nun > 0 {
		feature := "other"
		if nun == absent {
			feature = "exactly-the-absent-keys"
		}
		x.viol("batchget-unprocessed-keys", feature, fmt.Sprintf("[%s] BatchGetItem of %d keys (%d absent) reported %d UnprocessedKeys without any failure; keys with no stored item must simply be missing from Responses", adapter, len(gets), absent, nun), wit)
	}
	return x.r
}

var _ = model.New

// retryUnprocessed: the retry loop of the SDK documentation. While a failure is emulated a BatchWriteItem hands its
// requests back as UnprocessedItems (or fails as a whole); the caller sends that very map - the object of the response
// - as the RequestItems of the next call once the failure is over. A call that then reports success with nothing
// unprocessed has performed every request: the tables equal those of a twin that got the requests one by one.
func (p *c19) retryUnprocessed(x *res, adapter string) {
	specs := []adapt.TableSpec{mon.SpecHashOnly("tba19r"), mon.SpecHashRange("tbb19r")}
	names := []string{specs[0].Name, specs[1].Name}
	for _, fail := range []string{"internal_server", "deprecated"} {
		for _, n := range []int{1, 3, 12, 24} {
			for _, ntab := range []int{1, 2} {
				cl, _, ds := freshClient(adapter, specs...)
				twin, _, _ := freshClient(adapter, specs...)
				if ds != nil {
					return
				}
				keys := mon.KeyLog{}
				old := val.Item{"h": val.Str("old")}
				keys.Add(specs[0].Name, old)
				for _, c := range []adapt.Client{cl, twin} {
					c.Do(adapt.Op{Kind: adapt.OpPut, Table: specs[0].Name, Item: val.Item{"h": val.Str("old"), "v": val.Num("0")}})
				}
				batch := []adapt.BatchEntry{{Table: specs[0].Name, Del: old}}
				for i := 0; i < n; i++ {
					s := specs[i%ntab]
					it := val.Item{"h": val.Str(fmt.Sprint("k", i)), "v": val.Num(fmt.Sprint(i))}
					key := val.Item{"h": it["h"]}
					if s.Range != "" {
						it["r"], key["r"] = val.Str("1"), val.Str("1")
					}
					keys.Add(s.Name, key)
					batch = append(batch, adapt.BatchEntry{Table: s.Name, Put: it})
				}
				before := mon.Snapshot(twin, names, keys)
				cl.Do(adapt.Op{Kind: adapt.OpEmulate, Fail: fail})
				got := cl.Do(adapt.Op{Kind: adapt.OpBatchWrite, Batch: batch, ResendUnprocessed: true})
				cl.Do(adapt.Op{Kind: adapt.OpEmulate, Fail: "none"})
				cl.Do(adapt.Op{Kind: adapt.OpForceOff})
				x.r.Evals += 2 + len(batch)
				x.r.Counters["retries_of_the_unprocessed_items_of_a_response"]++
				x.fp(true, "%s|retry-unprocessed|%s|%d|%d", adapter, fail, n, ntab)
				wit := map[string]interface{}{"adapter": adapter, "failure": fail, "batch": batch, "outcome": got}
				after := mon.Snapshot(cl, names, keys)
				switch {
				case got.Class == adapt.ClsRuntime:
					x.viol("runtime-panic", got.Site, fmt.Sprintf("[%s] resending the UnprocessedItems of a response: panic %s", adapter, got.Msg), wit)
				case got.Class != adapt.ClsOK:
					// the first call failed as a whole: nothing was handed back, nothing may be applied
					if after != before {
						x.viol("failed-batch-left-trace", "batchwrite/"+fail, fmt.Sprintf("[%s] BatchWriteItem failed (%s) while %s was emulated but changed the tables\n--- before\n%s--- after\n%s", adapter, got.Class, fail, before, after), wit)
					}
				case len(got.Unproc) == 0:
					for _, e := range batch {
						if e.Put != nil {
							twin.Do(adapt.Op{Kind: adapt.OpPut, Table: e.Table, Item: e.Put})
						} else {
							twin.Do(adapt.Op{Kind: adapt.OpDelete, Table: e.Table, Key: e.Del})
						}
					}
					if want := mon.Snapshot(twin, names, keys); after != want {
						x.viol("batch-differs-from-singles", "batchwrite/resent-unprocessed-items", fmt.Sprintf("[%s] the UnprocessedItems of a BatchWriteItem answered while %s was emulated, sent again as they came once the failure was over: success, nothing unprocessed - but the tables differ from the same requests one by one\n--- batch\n%s--- singles\n%s", adapter, fail, after, want), wit)
					}
				default:
					x.r.Counters["retries_still_unprocessed"]++
				}
			}
		}
	}
}
