package props

import (
	"fmt"
	"math/rand"

	"github.com/truora/minidyn/interpreter"
	mtypes "github.com/truora/minidyn/types"

	"verifharness/adapt"
	"verifharness/model"
	"verifharness/mon"
	"verifharness/refmodel"
	"verifharness/runner"
	"verifharness/val"
)

// C04 – paginating with any Limit yields the same result as one unpaginated read.
type c04 struct{ base }

func init() {
	runner.Register(&c04{base{id: "C04", level: "exploration",
		rule: "per case: a table state from a seeded write history (as C02), then for a set of requests (Query and Scan on base table and every index, with and without filter, both directions, index entries with equal index keys) the implementation's own unpaginated result U is taken as the oracle (metamorphic, so tie order is compared exactly) and the request is walked with EVERY Limit 1..n+1 by passing LastEvaluatedKey as ExclusiveStartKey: concatenation = U exactly, every page <= Limit, number of pages bounded by entries+2 (bounded restatement of 'finitely many'), absent LastEvaluatedKey only when complete. Deletion variants on a replayed copy of the state: after page k delete the item named by LastEvaluatedKey (and, separately, a not-yet-returned item): the remaining pages must be exactly the not-deleted rest of U. non-trivial = walk has >=2 pages; distinct by (adapter, op, source, filter?, direction, Limit, pages, variant). Every third state is also walked with the native interpreter active and the key condition served by a registered Go matcher (with and without a filter, every Limit up to 12). A quarter of the states use partitions that are prefixes of one another continued by a character below '.' (p, p#q, p-q).",
		assumptions: []string{"oracle = the implementation's own unpaginated answer (C02 decides whether that answer is right)", commonAssumptions[1]}}})
}

func (p *c04) NumCases(tier string) int {
	if tier == "thorough" {
		return 6000
	}
	return 400
}

// keyOfLEK extracts the primary key attributes from a LastEvaluatedKey.
func primaryKeyOf(lek val.Item) val.Item {
	return val.Item{"h": lek["h"], "r": lek["r"]}
}

type walkResult struct {
	count   int64 // the Counts of the pages added up
	items   []val.Item
	pages   int
	problem string
	leks    []val.Item
}

// walk paginates op with the limit; stopAfter>0 stops after that many pages and returns the LEK.
func walk(cl adapt.Client, op adapt.Op, limit, maxPages, stopAfter int, start val.Item, ctx *runner.Ctx, x *res) walkResult {
	w := walkResult{}
	cur := start
	for {
		q := op
		q.Limit = limit
		q.Start = cur
		ctx.Trace("page %s", q.String())
		got := cl.Do(q)
		x.r.Evals++
		w.pages++
		if got.Class != adapt.ClsOK {
			w.problem = fmt.Sprintf("page %d failed with %s (%s)", w.pages, got.Class, got.Msg)
			return w
		}
		if len(got.Items) > limit {
			w.problem = fmt.Sprintf("page %d has %d items with Limit %d", w.pages, len(got.Items), limit)
			return w
		}
		if got.Count != int64(len(got.Items)) && !(op.Select == "COUNT" && len(got.Items) == 0) {
			// (a request that only asks for the count may come back without items)
			w.problem = fmt.Sprintf("page %d Count=%d but %d items", w.pages, got.Count, len(got.Items))
			return w
		}
		if got.Count > int64(limit) {
			w.problem = fmt.Sprintf("page %d Count=%d with Limit %d", w.pages, got.Count, limit)
			return w
		}
		w.count += got.Count
		w.items = append(w.items, got.Items...)
		w.leks = append(w.leks, got.LastKey)
		if got.LastKeyEmpty {
			// "a response without LastEvaluatedKey means the result is complete": a non-nil key without entries is not
			// "without" for a caller (or SDK paginator) that tests the map against nil - it pages forever
			w.problem = fmt.Sprintf("page %d carries a non-nil LastEvaluatedKey that has no entries instead of none", w.pages)
			return w
		}
		if got.LastKey == nil {
			return w
		}
		if w.pages >= maxPages {
			w.problem = fmt.Sprintf("still paginating after %d pages (bound %d): LastEvaluatedKey does not advance", w.pages, maxPages)
			return w
		}
		cur = got.LastKey
		if stopAfter > 0 && w.pages == stopAfter {
			return w
		}
	}
}

func (p *c04) RunCase(ctx *runner.Ctx) runner.CaseResult {
	x := newRes()
	r := mon.Rng(ctx.Seed, "C04", ctx.Case)
	adapter := adapt.Adapters[ctx.Case%2]
	if ctx.Case%4 == 1 {
		// typed keys: pagination keys (LastEvaluatedKey / ExclusiveStartKey) carry numbers and binaries
		defer useTypedPools(r)()
		x.r.Counters["typed_key_states"]++
	}
	if ctx.Case%4 == 3 {
		// partitions whose names are prefixes of one another, continued by a character below '.'
		defer usePrefixPartitions()()
		x.r.Counters["prefix_partition_states"]++
	}
	spec := ixSpec("tbl04", true)
	nOps := 10 + r.Intn(25)
	big := ctx.Case%10 == 7
	if big {
		// scaled state (see useBigPools): 40-260 sort keys per partition, runs of equal index keys longer than
		// 12 / 16 / 32 / 64 entries, page boundaries inside such runs
		defer useBigPools(r)()
		nOps = len(ixRangePool) + r.Intn(len(ixRangePool))
		x.r.Counters["scaled_states"]++
	}
	cl, m, hist, ok := buildState(r, adapter, spec, nOps, ctx, x)
	if !ok {
		return x.r
	}
	t := m.Tables[spec.Name]
	// request list
	type req struct {
		op   adapt.Op
		kind string
	}
	reqs := []req{}
	for _, src := range c02Sources() {
		for fi := 0; fi < 2; fi++ {
			values := val.Item{}
			var flt *refmodel.Cond
			if fi == 1 {
				flt = typedFilter(r, values, "f")
			}
			reqs = append(reqs, req{scanOp(spec.Name, src.index, flt, values, refmodel.RenderOpts{}), fmt.Sprintf("scan|%s|f%d", src.index, fi)})
			if fi == 0 || r.Intn(2) == 0 {
				// one worker of a parallel scan: whatever part of the table the library hands to a segment (all of it, as
				// long as it ignores the parameters), paging through that segment - also across a deleted boundary
				// item - yields what the segment's unpaginated read yields
				sg := scanOp(spec.Name, src.index, flt, values, refmodel.RenderOpts{})
				sg.TotalSegments = 2 + r.Intn(3)
				sg.Segment = r.Intn(sg.TotalSegments)
				reqs = append(reqs, req{sg, fmt.Sprintf("scan-segment|%s|f%d", src.index, fi)})
			}
			for _, hv := range src.hashPool[:2] {
				for _, rev := range []bool{false, true} {
					v2 := val.Item{":h": ixV(src.hashAttr, hv)}
					var f2 *refmodel.Cond
					if fi == 1 {
						f2 = typedFilter(r, v2, "f")
					}
					kc := keyCondEq(src.hashAttr, ":h")
					if src.rngAttr != "" && r.Intn(3) == 0 {
						if sc := sortKeyCond(mon.Pick(r, sortConds[1:]), src.rngAttr, src.rngPool, r, v2); sc != nil {
							kc = &refmodel.Cond{Op: "and", Kids: []*refmodel.Cond{kc, sc}}
						}
					}
					reqs = append(reqs, req{queryOp(spec.Name, src.index, kc, f2, v2, rev, refmodel.RenderOpts{}), fmt.Sprintf("query|%s|f%d|%v", src.index, fi, rev)})
				}
			}
		}
	}
	// a third of the requests also carry a ProjectionExpression - of non-key attributes only, of one key attribute,
	// of an attribute no item has. Whatever a projection does to the ITEMS of a page (this library validates it and
	// returns whole items), it does nothing to the walk: the pages together are the unpaginated result of the same
	// request, and every LastEvaluatedKey is a key to continue from
	// ... and some only ask HOW MANY items there are (Select = COUNT): the Counts of the pages add up to the Count of
	// the unpaginated request, whether or not the pages still carry the items
	for i := range reqs {
		if r.Intn(5) == 0 {
			reqs[i].op.Select = "COUNT"
			reqs[i].kind += "|count"
			x.r.Counters["requests_select_count"]++
		}
	}
	for i := range reqs {
		if reqs[i].op.Select == "" && r.Intn(3) == 0 {
			reqs[i].op.Proj = mon.Pick(r, []string{"v", "g, v", "h", "r, s", "w", "s", "v, w, g"})
			reqs[i].kind += "|proj"
			x.r.Counters["requests_with_projection"]++
		}
	}
	witness := func(op adapt.Op, extra map[string]interface{}) map[string]interface{} {
		w := map[string]interface{}{"adapter": adapter, "spec": spec, "history": hist, "request": op}
		for k, v := range extra {
			w[k] = v
		}
		return w
	}
	for _, rq := range reqs {
		base := cl.Do(rq.op)
		x.r.Evals++
		if base.Class != adapt.ClsOK {
			// C02/C06 business; pagination cannot be judged
			x.r.Inconclusive++
			m := base.Msg
			if len(m) > 90 {
				m = m[:90]
			}
			x.set("unjudged_requests", base.Class+": "+m)
			continue
		}
		U := base.Items
		if base.LastKeyEmpty || base.LastKey != nil {
			x.viol("page-protocol", "unpaginated/"+rq.op.Kind+featIdx(rq.op), fmt.Sprintf("[%s] %s without Limit: the complete result carries a LastEvaluatedKey (%s, non-nil without entries: %v)", adapter, rq.kind, base.LastKey.Canon(), base.LastKeyEmpty), witness(rq.op, nil))
			continue
		}
		src, _ := t.Source(rq.op.Index)
		n := len(src)
		maxPages := n + 3
		for L := 1; L <= n+1; L++ {
			if big && L > 3 && L < n-1 {
				// scaled states: Limits 1-3, the sizes around the usual thresholds, a few random ones, n-1..n+1
				keep := false
				for _, t := range []int{7, 11, 12, 13, 15, 16, 17, 31, 32, 33, 63, 64, 65, 99, 100, 101, 127, 128, 129} {
					keep = keep || L == t
				}
				if !keep && r.Intn(40) != 0 {
					continue
				}
			}
			w := walk(cl, rq.op, L, maxPages, 0, nil, ctx, x)
			x.fp(w.pages >= 2, "%s|%s|L%d|p%d|plain", adapter, rq.kind, L, w.pages)
			if w.problem != "" {
				x.viol("page-protocol", rq.op.Kind+featIdx(rq.op), fmt.Sprintf("[%s] %s Limit=%d: %s", adapter, rq.kind, L, w.problem), witness(rq.op, map[string]interface{}{"limit": L}))
				return x.r
			}
			if rq.op.Select == "COUNT" {
				if w.count != base.Count {
					x.viol("items-lost", rq.op.Kind+featIdx(rq.op)+"+count", fmt.Sprintf("[%s] %s Limit=%d: the Counts of %d pages add up to %d; the unpaginated request counts %d", adapter, rq.kind, L, w.pages, w.count, base.Count),
						witness(rq.op, map[string]interface{}{"limit": L, "lastkeys": w.leks}))
					return x.r
				}
				x.r.Counters["walks"]++
				x.r.Counters["pages"] += w.pages
				continue
			}
			if adapt.ItemsCanon(w.items) != adapt.ItemsCanon(U) {
				rule := "concat-differs"
				if len(w.items) < len(U) {
					rule = "items-lost"
				} else if len(w.items) > len(U) {
					rule = "items-duplicated"
				}
				x.viol(rule, rq.op.Kind+featIdx(rq.op), fmt.Sprintf("[%s] %s Limit=%d: %d pages gave %d items %s; unpaginated gave %d items %s", adapter, rq.kind, L, w.pages, len(w.items), adapt.ItemsCanon(w.items), len(U), adapt.ItemsCanon(U)),
					witness(rq.op, map[string]interface{}{"limit": L, "lastkeys": w.leks}))
				return x.r
			}
			x.r.Counters["walks"]++
			x.r.Counters["pages"] += w.pages
			if adapter == "v2" && (L <= 3 || L == n || r.Intn(6) == 0) {
				// the same walk done by the SDK's own paginator (dynamodb.NewQueryPaginator / NewScanPaginator), the
				// way most callers page: it stops when a page carries no LastEvaluatedKey (or repeats the last one)
				pop := rq.op
				pop.Limit, pop.Paginate, pop.MaxPages = L, true, maxPages
				po := cl.Do(pop)
				x.r.Evals++
				x.r.Counters["sdk_paginator_walks"]++
				switch {
				case po.Class != adapt.ClsOK:
					x.viol("page-protocol", "sdk-paginator/"+rq.op.Kind+featIdx(rq.op), fmt.Sprintf("[%s] %s Limit=%d through the SDK paginator: %s %s", adapter, rq.kind, L, po.Class, po.Msg), witness(rq.op, map[string]interface{}{"limit": L}))
					return x.r
				case po.LastKeyEmpty:
					x.viol("page-protocol", "sdk-paginator/"+rq.op.Kind+featIdx(rq.op), fmt.Sprintf("[%s] %s Limit=%d: the SDK paginator still has pages after %d pages (the result has %d items)", adapter, rq.kind, L, maxPages, len(U)), witness(rq.op, map[string]interface{}{"limit": L}))
					return x.r
				case adapt.ItemsCanon(po.Items) != adapt.ItemsCanon(U):
					x.viol("sdk-paginator-differs", rq.op.Kind+featIdx(rq.op), fmt.Sprintf("[%s] %s Limit=%d: the SDK paginator read %d pages with %d items %s; unpaginated gave %d items %s", adapter, rq.kind, L, po.Count, len(po.Items), adapt.ItemsCanon(po.Items), len(U), adapt.ItemsCanon(U)),
						witness(rq.op, map[string]interface{}{"limit": L}))
					return x.r
				}
			}
		}
	}
	// interleaved walks (no write in between): two walks of ONE request with different Limits advanced in
	// turns, a forward and a backward walk of one Query advanced in turns, and a "previous page" step - the
	// LastEvaluatedKey of a forward page used as ExclusiveStartKey of the BACKWARD query. Every walk must still
	// produce its own unpaginated sequence: a walk's position is carried by its key and by nothing else
	type pager struct {
		op    adapt.Op
		limit int
		cur   val.Item
		items []val.Item
		done  bool
		pages int
	}
	step := func(pg *pager) string {
		if pg.done {
			return ""
		}
		q := pg.op
		q.Limit, q.Start = pg.limit, pg.cur
		got := cl.Do(q)
		x.r.Evals++
		pg.pages++
		if got.Class != adapt.ClsOK {
			pg.done = true
			return fmt.Sprintf("page %d failed with %s", pg.pages, got.Class)
		}
		pg.items = append(pg.items, got.Items...)
		pg.cur = got.LastKey
		if got.LastKey == nil || pg.pages > len(t.Items)+5 {
			pg.done = true
		}
		return ""
	}
	for pi := 0; pi < 8 && len(reqs) > 0; pi++ {
		rq := reqs[r.Intn(len(reqs))]
		base := cl.Do(rq.op)
		if base.Class != adapt.ClsOK || len(base.Items) < 2 {
			continue
		}
		a := &pager{op: rq.op, limit: 1 + r.Intn(2)}
		second := rq.op
		variant := "two-limits"
		if rq.op.Kind == adapt.OpQuery && pi%2 == 1 {
			second.Rev = !second.Rev
			variant = "forward+backward"
		}
		bU := base.Items
		if variant == "forward+backward" {
			b2 := cl.Do(second)
			if b2.Class != adapt.ClsOK {
				continue
			}
			bU = b2.Items
		}
		b := &pager{op: second, limit: 1 + r.Intn(3)}
		problem := ""
		for !a.done || !b.done {
			if p1 := step(a); p1 != "" {
				problem = p1
			}
			if p2 := step(b); p2 != "" {
				problem = p2
			}
		}
		x.r.Counters["interleaved_walks"]++
		x.fp(true, "%s|%s|interleaved|%s|L%d|L%d", adapter, rq.kind, variant, a.limit, b.limit)
		if problem != "" || adapt.ItemsCanon(a.items) != adapt.ItemsCanon(base.Items) || adapt.ItemsCanon(b.items) != adapt.ItemsCanon(bU) {
			x.viol("interleaved-walks-differ", variant+"/"+rq.op.Kind+featIdx(rq.op), fmt.Sprintf("[%s] %s: two walks advanced in turns (%s, Limits %d and %d) %s: walk A gave %s (unpaginated %s), walk B gave %s (unpaginated %s)", adapter, rq.kind, variant, a.limit, b.limit, problem, adapt.ItemsCanon(a.items), adapt.ItemsCanon(base.Items), adapt.ItemsCanon(b.items), adapt.ItemsCanon(bU)),
				witness(rq.op, map[string]interface{}{"variant": variant, "limit_a": a.limit, "limit_b": b.limit}))
			continue
		}
		// previous page: forward k pages, then the backward query from the same key
		if rq.op.Kind == adapt.OpQuery && rq.op.Filter == "" {
			rev := rq.op
			rev.Rev = !rev.Rev
			rU := cl.Do(rev)
			f := &pager{op: rq.op, limit: 1 + r.Intn(3)}
			k := 1 + r.Intn(3)
			for i := 0; i < k && !f.done; i++ {
				step(f)
			}
			if rU.Class == adapt.ClsOK && f.cur != nil && len(f.items) > 0 {
				last := f.items[len(f.items)-1]
				pos := -1
				for i, it := range rU.Items {
					if it.Canon() == last.Canon() {
						pos = i
					}
				}
				if pos >= 0 {
					want := rU.Items[pos+1:]
					bk := &pager{op: rev, limit: 1 + r.Intn(3), cur: f.cur}
					for !bk.done {
						step(bk)
					}
					x.r.Counters["previous_page_probes"]++
					x.fp(true, "%s|%s|previous-page|k%d", adapter, rq.kind, k)
					if adapt.ItemsCanon(bk.items) != adapt.ItemsCanon(want) {
						x.viol("previous-page-differs", rq.op.Kind+featIdx(rq.op), fmt.Sprintf("[%s] %s: after %d forward pages (Limit %d) the backward query from the same key gave %s; the backward unpaginated result after that item is %s", adapter, rq.kind, k, f.limit, adapt.ItemsCanon(bk.items), adapt.ItemsCanon(want)),
							witness(rq.op, map[string]interface{}{"pages_forward": k, "limit": f.limit, "start": f.cur}))
					}
				}
			}
		}
	}
	// deletion variants: replay the state on a fresh client for each probe
	probes := 6
	for pi := 0; pi < probes && len(reqs) > 0; pi++ {
		rq := reqs[r.Intn(len(reqs))]
		c2 := adapt.New(adapter)
		c2.Do(createOp(spec))
		c2.Do(createOp(ixSpec("cmp"+spec.Name[3:], true))) // the companion table the history also writes to
		for _, op := range hist {
			c2.Do(op)
		}
		base := c2.Do(rq.op)
		if base.Class != adapt.ClsOK || len(base.Items) == 0 {
			continue
		}
		U := base.Items
		L := 1 + r.Intn(3)
		src, _ := t.Source(rq.op.Index)
		k := 1 + r.Intn(3)
		w1 := walk(c2, rq.op, L, len(src)+3, k, nil, ctx, x)
		if w1.problem != "" || len(w1.leks) == 0 || w1.leks[len(w1.leks)-1] == nil {
			continue
		}
		lek := w1.leks[len(w1.leks)-1]
		variant := "delete-boundary"
		rest := append([]val.Item{}, U[min(len(w1.items), len(U)):]...)
		del := primaryKeyOf(lek)
		if pi%2 == 1 && len(rest) > 0 {
			variant = "delete-later-item"
			victim := rest[r.Intn(len(rest))]
			del = val.Item{"h": victim["h"], "r": victim["r"]}
			nr := []val.Item{}
			for _, it := range rest {
				if it.Canon() != victim.Canon() {
					nr = append(nr, it)
				}
			}
			rest = nr
		}
		dres := c2.Do(adapt.Op{Kind: adapt.OpDelete, Table: spec.Name, Key: del})
		if dres.Class != adapt.ClsOK {
			continue
		}
		if sattr, skind := t.SortAttr(rq.op.Index); pi%3 == 2 && variant == "delete-boundary" && rq.op.Index != "" && (sattr == "s" || sattr == "g") && len(w1.items) > 0 {
			// the boundary item is deleted AND written again with another index sort key: it now sits at another
			// position of the index. Reading resumes by POSITION: the items after the key's position - the moved item
			// among them if that is where it went - exactly once, none of those before it a second time
			b := w1.items[len(w1.items)-1]
			if primaryKeyOf(b).Canon() == del.Canon() && b[sattr].K == skind {
				pool := ixSPool
				if sattr == "g" {
					pool = ixGPool
				}
				nb := b.Clone()
				nb[sattr] = ixV(sattr, mon.Pick(r, pool))
				if c := model.CompareSort(nb, b, sattr, skind); c != 0 && c2.Do(adapt.Op{Kind: adapt.OpPut, Table: spec.Name, Item: nb}).Class == adapt.ClsOK {
					variant = "move-boundary"
					after := (c > 0) != rq.op.Rev
					inRest := map[string]bool{}
					for _, it := range rest {
						inRest[primaryKeyOf(it).Canon()] = true
					}
					u2 := c2.Do(rq.op)
					rest = []val.Item{}
					for _, it := range u2.Items {
						pk := primaryKeyOf(it).Canon()
						if inRest[pk] || (after && pk == del.Canon()) {
							rest = append(rest, it)
						}
					}
					x.r.Counters["moved_boundary_probes"]++
				}
			}
		}
		w2 := walk(c2, rq.op, L, len(src)+3, 0, lek, ctx, x)
		x.fp(true, "%s|%s|L%d|k%d|%s", adapter, rq.kind, L, k, variant)
		x.r.Counters["deletion_probes"]++
		if w2.problem != "" {
			x.viol("page-protocol", variant, fmt.Sprintf("[%s] %s after %s: %s", adapter, rq.kind, variant, w2.problem), witness(rq.op, map[string]interface{}{"limit": L, "pages_before": k, "deleted": del}))
			continue
		}
		if adapt.ItemsCanon(w2.items) != adapt.ItemsCanon(rest) {
			x.viol("resume-after-delete", variant+"/"+rq.op.Kind+featIdx(rq.op), fmt.Sprintf("[%s] %s Limit=%d: after %d pages and %s of %s the remaining pages gave %s; expected the rest of the unpaginated result %s", adapter, rq.kind, L, k, variant, del.Canon(), adapt.ItemsCanon(w2.items), adapt.ItemsCanon(rest)),
				witness(rq.op, map[string]interface{}{"limit": L, "pages_before": k, "deleted": del, "lastkey": lek}))
		}
	}
	if ctx.Case%3 == 0 {
		p.nativeKeyWalks(x, cl, adapter, spec, len(t.Items), r, ctx)
	}
	if ctx.Case < 2 {
		x.r.Sample = map[string]interface{}{"adapter": adapter, "history_len": len(hist), "items": len(t.Items), "requests": len(reqs), "example": reqs[len(reqs)-1].op}
	}
	return x.r
}

// nativeKeyWalks: the walk property does not depend on WHO judges the key condition. With the native interpreter
// active and the key condition served by a registered matcher (under a text the expression language cannot read -
// the documented use of the native interpreter), queries with a filter (served by the language) and every Limit
// page like any other query: at most Limit items per page, the pages together are the unpaginated result.
func (p *c04) nativeKeyWalks(x *res, cl adapt.Client, adapter string, spec adapt.TableSpec, n int, r *rand.Rand, ctx *runner.Ctx) {
	nc := nativeOf(cl)
	native := interpreter.NewNativeInterpreter()
	same := func(a, b *mtypes.Item) bool {
		switch {
		case a == nil || b == nil:
			return false
		case a.S != nil && b.S != nil:
			return *a.S == *b.S
		case a.N != nil && b.N != nil:
			return val.NumEqual(*a.N, *b.N)
		case a.B != nil && b.B != nil:
			return string(a.B) == string(b.B)
		}
		return false
	}
	for _, src := range c02Sources() {
		attr := src.hashAttr
		native.AddMatcher(spec.Name, interpreter.ExpressionTypeKey, "PARTITION OF "+attr+" IS :h", func(item map[string]*mtypes.Item, vals map[string]*mtypes.Item) bool {
			return same(item[attr], vals[":h"])
		})
	}
	nc.setInterp(native)
	nc.activate()
	for _, src := range c02Sources() {
		for _, hv := range src.hashPool[:2] {
			for fi := 0; fi < 2; fi++ {
				values := val.Item{":h": ixV(src.hashAttr, hv)}
				op := adapt.Op{Kind: adapt.OpQuery, Table: spec.Name, Index: src.index, KeyCnd: "PARTITION OF " + src.hashAttr + " IS :h", Values: values, Rev: r.Intn(2) == 0}
				if fi == 1 {
					names := map[string]string{}
					op.Filter = typedFilter(r, values, "f").Render(names, refmodel.RenderOpts{})
					if len(names) > 0 {
						op.Names = names
					}
				}
				base := cl.Do(op)
				x.r.Evals++
				if base.Class != adapt.ClsOK {
					x.r.Inconclusive++
					x.set("unjudged_requests", "native: "+base.Class+": "+base.Msg)
					continue
				}
				for L := 1; L <= len(base.Items)+1 && L <= 12; L++ {
					w := walk(cl, op, L, n+3, 0, nil, ctx, x)
					x.fp(w.pages >= 2, "%s|native-key|%s|f%d|L%d|p%d", adapter, src.index, fi, L, w.pages)
					x.r.Counters["native_key_condition_walks"]++
					wit := map[string]interface{}{"adapter": adapter, "spec": spec, "request": op, "limit": L, "native_key_matcher": true}
					if w.problem != "" {
						x.viol("page-protocol", "native-key/"+op.Kind+featIdx(op), fmt.Sprintf("[%s] query judged by a registered key matcher, filter %q, Limit=%d: %s", adapter, op.Filter, L, w.problem), wit)
						return
					}
					if adapt.ItemsCanon(w.items) != adapt.ItemsCanon(base.Items) {
						x.viol("concat-differs", "native-key/"+op.Kind+featIdx(op), fmt.Sprintf("[%s] query judged by a registered key matcher, filter %q, Limit=%d: %d pages gave %s; unpaginated gave %s", adapter, op.Filter, L, w.pages, adapt.ItemsCanon(w.items), adapt.ItemsCanon(base.Items)), wit)
						return
					}
				}
			}
		}
	}
}

func featIdx(op adapt.Op) string {
	s := ""
	if op.Index != "" {
		s += "+index"
	}
	if op.Filter != "" {
		s += "+filter"
	}
	if op.Rev {
		s += "+rev"
	}
	return s
}

func min(a, b int) int {
	if a < b {
		return a
	}
	return b
}
