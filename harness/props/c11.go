package props

import (
	"fmt"
	"math/rand"
	"runtime"
	"sort"
	"strconv"
	"strings"
	"sync"
	"sync/atomic"
	"time"

	"github.com/anishathalye/porcupine"
	"github.com/truora/minidyn/interpreter"
	mtypes "github.com/truora/minidyn/types"

	"verifharness/adapt"
	"verifharness/model"
	"verifharness/mon"
	"verifharness/runner"
	"verifharness/val"
)

// C11 – the client is safe for concurrent use and its operations are atomic.
// Two registered monitors: "C11" (conservation + linearizability, plain build) and "C11R"
// (the workload the race detector watches; run by the -race build of the same binary).
type c11 struct{ base }
type c11r struct{ base }

func init() {
	runner.Register(&c11{base{id: "C11", level: "exploration",
		rule: "three monitors over concurrent workloads on ONE client (both adapters). (1) race detector: the -race build runs 2-16 goroutines issuing every exported client method and helper (data ops, batch ops, Create/Delete/Update/DescribeTable on a small name pool, AddTable/AddIndex/ClearTable, failure toggles, ActivateDebug, ActivateNativeInterpreter, SetInterpreter, GetNativeInterpreter, SetItemCollectionMetrics, TransactWriteItems), repeated; plus workloads in which every goroutine has its OWN client (model-checked histories and native-interpreter dispatch: state shared between instances); every 'WARNING: DATA RACE' block or fatal 'concurrent map' error with a minidyn frame is a violation (signature = pair of outermost client entry points). (2) conservation: N concurrent 'ADD c :1' => c = N; N racing attribute_not_exists puts with unique payloads => exactly one succeeds and its payload is stored; N racing CreateTable(same name) => exactly one succeeds; create/delete ping-pong => ok-creates - ok-deletes in {0,1} = table exists; concurrent k-item batches vs Scans => every Scan sees 0 or k items of a batch; k-item batch writes / reads vs goroutines toggling the emulated failures => every batch is applied completely or not at all and applied + unprocessed = k. (3) linearizability: many short histories (2-4 goroutines x 3-5 ops) with unique written values, invoke/return timestamps taken at the client boundary from one monotonic clock, yield/sleep policy installed at the verifhook sites, checked with porcupine against the sequential reference model (catalogue + tables + failure switch); a call that does not return within the watchdog is a deadlock. non-trivial = at least two operations of different goroutines overlapped in time on the same table; distinct by (profile, adapter, event-order fingerprint). Two conservation laws also run with the native interpreter active and the work done by registered callbacks that yield and sleep 20us: N x 5 increments by an updater, N racing puts guarded by a matcher.",
		assumptions: append([]string{"interleavings are sampled, not covered; the race detector reports unsynchronised access pairs from the happens-before relation of the executions it saw", "porcupine v1.3.0 is trusted as the history checker"}, commonAssumptions...)}})
	runner.Register(&c11r{base{id: "C11R", level: "exploration", rule: "race-detector workload of C11", assumptions: commonAssumptions}})
}

// ---------------------------------------------------------------------------------------
// yield policy at the hook sites

var hookHits sync.Map // site -> *int64

func yieldPolicy(site string) {
	v, _ := hookHits.LoadOrStore(site, new(int64))
	n := atomic.AddInt64(v.(*int64), 1)
	switch n % 7 {
	case 0:
		time.Sleep(20 * time.Microsecond)
	case 1, 2, 3:
		runtime.Gosched()
	}
}

func hookHitCounts() map[string]int {
	out := map[string]int{}
	hookHits.Range(func(k, v interface{}) bool {
		out[k.(string)] = int(atomic.LoadInt64(v.(*int64)))
		return true
	})
	return out
}

// ---------------------------------------------------------------------------------------
// (1) race workload

func c11RaceCases(tier string) int {
	if tier == "thorough" {
		return 480 + 120
	}
	return 96 + 24
}

func c11SharedClientRaceCases(tier string) int { return c11RaceCases(tier) - c11OwnClientRaceCases(tier) }
func c11OwnClientRaceCases(tier string) int {
	if tier == "thorough" {
		return 120
	}
	return 24
}

// ownClients: every goroutine has its OWN client (as tests running with t.Parallel() do). The race detector
// watches for package-level state shared between client / interpreter instances; in addition every goroutine
// checks its sequential history against its own model, so interference shows functionally as well.
func (p *c11r) ownClients(x *res, idx int, ctx *runner.Ctx) {
	r0 := mon.Rng(ctx.Seed, "C11RO", idx)
	goroutines := []int{2, 4, 8}[idx%3]
	seeds := make([]int64, goroutines)
	for g := range seeds {
		seeds[g] = r0.Int63()
	}
	results := make([]*res, goroutines)
	if idx%2 == 1 {
		// native-interpreter dispatch on own clients (C20's oracle)
		(&c20{}).parallelClients(x, idx, ctx)
		x.r.Counters["race_workload_own_client_dispatch_cases"]++
		return
	}
	ok := parallel(goroutines, func(g int) {
		xi := newRes()
		results[g] = xi
		r := rand.New(rand.NewSource(seeds[g]))
		adapter := adapt.Adapters[(idx/2+g)%2]
		cl := adapt.New(adapter)
		m := model.New()
		w := opWeights{mgmt: 3, helpers: 2, data: 10, search: 4, batch: 2, fail: 1, noBatchGet: true}
		hist := []adapt.Op{}
		for i := 0; i < 150; i++ {
			op := genOp(r, m, w, i)
			hist = append(hist, op)
			got := cl.Do(op)
			if ds := m.Step(op, got); len(ds) > 0 && ds[0].Rule != "model-gap" && !strings.Contains(ds[0].Rule, "~") {
				xi.viol("own-client:"+ds[0].Rule, op.Kind, fmt.Sprintf("[%s] goroutine %d of %d, each with its own client, step %d %s: %s", adapter, g, goroutines, i, mon.OpFeature(op), ds[0].Detail),
					map[string]interface{}{"adapter": adapter, "history": hist})
				return
			}
		}
		xi.r.Evals += 150
	})
	if !ok {
		x.notFinished("own-clients", fmt.Sprintf("%d goroutines with their own clients did not finish", goroutines), nil)
		return
	}
	for _, xi := range results {
		if xi != nil {
			x.merge(xi)
		}
	}
	x.r.Counters["race_workload_own_client_ops"] += goroutines * 150
	x.fp(true, "race-own|%d|%d", goroutines, idx)
}

func (p *c11r) NumCases(tier string) int { return c11RaceCases(tier) }

func raceOp(r *rand.Rand, cl adapt.Client, g, i int) {
	t := mon.Pick(r, []string{"tba", "tbb"})
	key := val.Item{"h": val.Str(mon.Pick(r, []string{"k1", "k2", "k3"}))}
	switch r.Intn(24) {
	case 0:
		s := adapt.TableSpec{Name: t, Hash: "h", Billing: "PAY_PER_REQUEST", Indexes: []adapt.IndexSpec{{Name: "gsi1", Hash: "g"}}}
		cl.Do(adapt.Op{Kind: adapt.OpCreateTable, Spec: &s})
	case 1:
		cl.Do(adapt.Op{Kind: adapt.OpDeleteTable, Table: t})
	case 2:
		cl.Do(adapt.Op{Kind: adapt.OpDescribe, Table: t})
	case 3:
		cl.Do(adapt.Op{Kind: adapt.OpUpdateTable, Table: t, Chg: []adapt.IndexChange{{Create: &adapt.IndexSpec{Name: "gsi2", Hash: "s"}}}})
	case 4:
		cl.Do(adapt.Op{Kind: adapt.OpUpdateTable, Table: t, Chg: []adapt.IndexChange{{Delete: "gsi2"}}})
	case 5:
		s := adapt.TableSpec{Name: t, Hash: "h"}
		cl.Do(adapt.Op{Kind: adapt.OpAddTable, Spec: &s})
	case 6:
		cl.Do(adapt.Op{Kind: adapt.OpAddIndex, Table: t, Ix: &adapt.IndexSpec{Name: "gsi3", Hash: "s"}})
	case 7:
		cl.Do(adapt.Op{Kind: adapt.OpClearTable, Table: t})
	case 8:
		cl.Do(adapt.Op{Kind: adapt.OpEmulate, Fail: mon.Pick(r, []string{"none", "internal_server", "deprecated", "none"})})
	case 9:
		cl.Do(adapt.Op{Kind: mon.Pick(r, []string{adapt.OpForceOn, adapt.OpForceOff, adapt.OpForceOff})})
	case 10:
		cl.Do(adapt.Op{Kind: adapt.OpTransact})
	case 11:
		helperCalls(cl, r)
	case 12, 13:
		it := key.Clone()
		it["g"] = val.Str(mon.Pick(r, []string{"x", "y"}))
		it["s"] = val.Str("1")
		it["v"] = val.Num(fmt.Sprint(g*1000 + i))
		cl.Do(adapt.Op{Kind: adapt.OpPut, Table: t, Item: it})
	case 14:
		cl.Do(mon.AddUpdate(t, key, "c", val.Num("1")))
	case 15:
		cl.Do(adapt.Op{Kind: adapt.OpDelete, Table: t, Key: key})
	case 16, 17:
		cl.Do(adapt.Op{Kind: adapt.OpGet, Table: t, Key: key})
	case 18:
		cl.Do(adapt.Op{Kind: adapt.OpScan, Table: t})
	case 19:
		cl.Do(adapt.Op{Kind: adapt.OpScan, Table: t, Index: "gsi1"})
	case 20:
		cl.Do(queryOp(t, "", keyCondEq("h", ":h"), nil, val.Item{":h": key["h"]}, false, rrCanon))
	case 21:
		cl.Do(adapt.Op{Kind: adapt.OpBatchWrite, Batch: []adapt.BatchEntry{{Table: t, Put: val.Item{"h": val.Str("b1"), "v": val.Num("1")}}, {Table: t, Del: key}}})
	case 22:
		cl.Do(adapt.Op{Kind: adapt.OpBatchGet, Gets: []adapt.BatchEntry{{Table: t, Del: key}}})
	default:
		v := val.Item{":v": val.Str("x")}
		cl.Do(adapt.Op{Kind: adapt.OpScan, Table: t, Filter: "g = :v", Values: v})
	}
}

func (p *c11r) RunCase(ctx *runner.Ctx) runner.CaseResult {
	x := newRes()
	installHooks(yieldPolicy)
	if ctx.Case >= c11SharedClientRaceCases(ctx.Tier) {
		p.ownClients(x, ctx.Case-c11SharedClientRaceCases(ctx.Tier), ctx)
		return x.r
	}
	r0 := mon.Rng(ctx.Seed, "C11R", ctx.Case)
	adapter := adapt.Adapters[ctx.Case%2]
	goroutines := []int{2, 4, 8, 16}[(ctx.Case/2)%4]
	cl := adapt.New(adapter)
	var wg sync.WaitGroup
	opsPer := 120
	seeds := make([]int64, goroutines)
	for g := range seeds {
		seeds[g] = r0.Int63()
	}
	done := make(chan struct{})
	for g := 0; g < goroutines; g++ {
		wg.Add(1)
		go func(g int) {
			defer wg.Done()
			r := rand.New(rand.NewSource(seeds[g]))
			for i := 0; i < opsPer; i++ {
				raceOp(r, cl, g, i)
			}
		}(g)
	}
	go func() { wg.Wait(); close(done) }()
	if lastParallel = awaitOrDiagnose(done); lastParallel != "ok" {
		x.notFinished("race-workload", fmt.Sprintf("[%s] %d goroutines did not finish their mixed workload", adapter, goroutines), map[string]interface{}{"adapter": adapter, "goroutines": goroutines})
	}
	x.r.Evals += goroutines * opsPer
	x.r.Counters["race_workload_ops"] += goroutines * opsPer
	x.fp(true, "race|%s|%d|%d", adapter, goroutines, ctx.Case)
	return x.r
}

// ---------------------------------------------------------------------------------------
// (2) conservation and (3) linearizability

func c11ConsCases(tier string) int {
	if tier == "thorough" {
		return 2800
	}
	return 420
}

func c11LinCases(tier string) int {
	if tier == "thorough" {
		return 40000
	}
	return 6000
}

func (p *c11) NumCases(tier string) int { return c11ConsCases(tier) + c11LinCases(tier) }

func parallel(n int, f func(i int)) bool {
	var wg sync.WaitGroup
	start := make(chan struct{})
	for i := 0; i < n; i++ {
		wg.Add(1)
		go func(i int) {
			defer wg.Done()
			<-start
			f(i)
		}(i)
	}
	close(start)
	done := make(chan struct{})
	go func() { wg.Wait(); close(done) }()
	lastParallel = awaitOrDiagnose(done)
	return lastParallel == "ok"
}

// lastParallel is the verdict of the most recent parallel() / awaitOrDiagnose call of this worker: "ok",
// "deadlock" (diagnosed from goroutine dumps, never from elapsed time) or "inconclusive".
var lastParallel = "ok"
var deadlocksDiagnosed = 0

// awaitOrDiagnose waits for the workload. No wall-clock value decides a verdict: every 10 s all goroutine
// stacks are inspected, and only when three consecutive inspections (30 s apart in total) find every goroutine
// that is inside the library parked on a lock - nobody running, runnable or sleeping in it - is the run called a
// deadlock. A workload that is merely slow (loaded machine) keeps being waited for; after 20 minutes the case
// is given up as inconclusive.
func awaitOrDiagnose(done <-chan struct{}) string {
	start := time.Now()
	streak := 0
	for {
		// the inspection interval only decides how soon a deadlock is noticed, never whether there is one; once
		// this worker process has diagnosed one, later workloads are inspected more often
		every := 10 * time.Second
		if deadlocksDiagnosed > 0 {
			every = 2 * time.Second
		}
		select {
		case <-done:
			return "ok"
		case <-time.After(every):
		}
		buf := make([]byte, 8<<20)
		n := runtime.Stack(buf, true)
		if runner.AllMinidynGoroutinesBlocked(string(buf[:n])) {
			streak++
		} else {
			streak = 0
		}
		if streak >= 3 {
			deadlocksDiagnosed++
			return "deadlock"
		}
		if time.Since(start) > 20*time.Minute {
			return "inconclusive"
		}
	}
}

// notFinished files the outcome of a parallel() call that did not return "ok".
func (x *res) notFinished(feature, detail string, wit interface{}) {
	if lastParallel == "deadlock" {
		x.viol("deadlock", feature, detail+" (every goroutine inside the library is parked on a lock in three consecutive stack inspections)", wit)
		return
	}
	x.r.Inconclusive++
	x.r.Counters["workload_given_up_inconclusive"]++
}

func (p *c11) conservation(x *res, ctx *runner.Ctx) {
	r := mon.Rng(ctx.Seed, "C11", ctx.Case)
	adapter := adapt.Adapters[ctx.Case%2]
	n := mon.Pick(r, []int{2, 3, 8, 16, 64})
	spec := adapt.TableSpec{Name: "tbl11", Hash: "h", Billing: "PAY_PER_REQUEST", Indexes: []adapt.IndexSpec{{Name: "gsi1", Hash: "g"}}}
	key := val.Item{"h": val.Str("k")}
	kind := []string{"add", "condput", "create", "pingpong", "batch-vs-scan", "batch-vs-failure-toggle", "multi-table-batch-vs-data", "native-add", "native-condput"}[(ctx.Case/2)%9]
	wit := map[string]interface{}{"adapter": adapter, "goroutines": n, "monitor": kind}
	x.fp(true, "cons|%s|%s|%d", kind, adapter, n)
	x.r.Counters["conservation:"+kind]++
	// every other round of the SDK v2 cases passes cancellable / deadline contexts to every call: a call that
	// reports a cancellation is a FAILED call and must never take effect afterwards
	cancelling := adapter == "v2" && (ctx.Case/18)%2 == 1 && (kind == "add" || kind == "condput")
	if cancelling {
		adapt.CancellingContexts.Store(true)
		defer adapt.CancellingContexts.Store(false)
		x.r.Counters["conservation_with_cancellable_contexts"]++
	}
	switch kind {
	case "native-add", "native-condput":
		// the same two conservation laws with the native interpreter active and the work done by REGISTERED Go callbacks
		// that take their time (they yield and sleep a few microseconds, as a callback that logs or allocates does): a
		// call is atomic whoever evaluates its condition or performs its update
		cl, _, _ := freshClient(adapter, spec)
		nc := nativeOf(cl)
		native := interpreter.NewNativeInterpreter()
		dawdle := func() {
			runtime.Gosched()
			time.Sleep(20 * time.Microsecond)
			runtime.Gosched()
		}
		native.AddUpdater(spec.Name, "INCREMENT c", func(item map[string]*mtypes.Item, _ map[string]*mtypes.Item) {
			cur := 0
			if item["c"] != nil && item["c"].N != nil {
				cur, _ = strconv.Atoi(*item["c"].N)
			}
			dawdle()
			s := strconv.Itoa(cur + 1)
			item["c"] = &mtypes.Item{N: &s}
		})
		native.AddMatcher(spec.Name, interpreter.ExpressionTypeConditional, "NOT THERE YET", func(item map[string]*mtypes.Item, _ map[string]*mtypes.Item) bool {
			absent := item["h"] == nil
			dawdle()
			return absent
		})
		nc.setInterp(native)
		nc.activate()
		var okc, failc int64
		var winner int64 = -1
		if !parallel(n, func(i int) {
			if kind == "native-add" {
				for k := 0; k < 5; k++ {
					if cl.Do(adapt.Op{Kind: adapt.OpUpdate, Table: spec.Name, Key: key, Update: "INCREMENT c"}).Class == adapt.ClsOK {
						atomic.AddInt64(&okc, 1)
					}
				}
				return
			}
			switch cl.Do(adapt.Op{Kind: adapt.OpPut, Table: spec.Name, Item: val.Item{"h": val.Str("k"), "payload": val.Num(fmt.Sprint(i)), "g": val.Str("x")}, Cond: "NOT THERE YET"}).Class {
			case adapt.ClsOK:
				atomic.AddInt64(&okc, 1)
				atomic.StoreInt64(&winner, int64(i))
			case adapt.ClsCondFailed:
				atomic.AddInt64(&failc, 1)
			}
		}) {
			x.notFinished(kind, fmt.Sprintf("[%s] %d concurrent calls served by native callbacks did not return", adapter, n), wit)
			return
		}
		g := cl.Do(adapt.Op{Kind: adapt.OpGet, Table: spec.Name, Key: key})
		if kind == "native-add" {
			x.r.Evals += n * 5
			if okc != int64(n*5) || !val.Equal(g.Item["c"], val.Num(fmt.Sprint(n*5))) {
				x.viol("lost-update", kind, fmt.Sprintf("[%s] %d goroutines x 5 updates performed by a registered updater (c = c + 1), %d succeeded: c = %s, want %d", adapter, n, okc, g.Item["c"].Canon(), n*5), wit)
			}
		} else {
			x.r.Evals += n
			if okc != 1 || failc != int64(n-1) || !val.Equal(g.Item["payload"], val.Num(fmt.Sprint(winner))) {
				x.viol("not-exactly-one-winner", kind, fmt.Sprintf("[%s] %d racing puts guarded by a registered matcher (item absent): %d succeeded, %d ConditionalCheckFailed, stored payload %s, last winner %d", adapter, n, okc, failc, g.Item["payload"].Canon(), winner), wit)
			}
		}
	case "add":
		cl, _, _ := freshClient(adapter, spec)
		var okc int64
		if !parallel(n, func(i int) {
			for k := 0; k < 5; k++ {
				if cl.Do(mon.AddUpdate(spec.Name, key, "c", val.Num("1"))).Class == adapt.ClsOK {
					atomic.AddInt64(&okc, 1)
				}
			}
		}) {
			x.notFinished(kind, fmt.Sprintf("[%s] %d concurrent ADD updates did not return", adapter, n), wit)
			return
		}
		x.r.Evals += n * 5
		g := cl.Do(adapt.Op{Kind: adapt.OpGet, Table: spec.Name, Key: key})
		want := val.Num(fmt.Sprint(n * 5))
		if cancelling {
			want = val.Num(fmt.Sprint(okc)) // exactly the calls that reported success count
			if okc == 0 {
				want = val.Absent()
			}
		}
		if (!cancelling && okc != int64(n*5)) || !val.Equal(g.Item["c"], want) {
			x.viol("lost-update", kind, fmt.Sprintf("[%s] %d goroutines x 5 'ADD c :1' (%d succeeded): c = %s, want %s", adapter, n, okc, g.Item["c"].Canon(), want.Canon()), wit)
		}
	case "condput":
		cl, _, _ := freshClient(adapter, spec)
		var okc, failc int64
		var winner int64 = -1
		c := mon.WithCond
		_ = c
		if !parallel(n, func(i int) {
			v := val.Item{}
			op := adapt.Op{Kind: adapt.OpPut, Table: spec.Name, Item: val.Item{"h": val.Str("k"), "payload": val.Num(fmt.Sprint(i)), "g": val.Str("x")}, Cond: "attribute_not_exists(h)", Values: nil}
			_ = v
			switch cl.Do(op).Class {
			case adapt.ClsOK:
				atomic.AddInt64(&okc, 1)
				atomic.StoreInt64(&winner, int64(i))
			case adapt.ClsCondFailed:
				atomic.AddInt64(&failc, 1)
			}
		}) {
			x.notFinished(kind, fmt.Sprintf("[%s] %d racing conditional puts did not return", adapter, n), wit)
			return
		}
		x.r.Evals += n
		g := cl.Do(adapt.Op{Kind: adapt.OpGet, Table: spec.Name, Key: key})
		if cancelling && okc == 0 && failc < int64(n) && g.Item == nil {
			break // every call that could have won reported a cancellation and nothing was stored: consistent
		}
		if okc != 1 || (!cancelling && failc != int64(n-1)) || !val.Equal(g.Item["payload"], val.Num(fmt.Sprint(winner))) {
			x.viol("not-exactly-one-winner", kind, fmt.Sprintf("[%s] %d racing attribute_not_exists puts: %d succeeded, %d ConditionalCheckFailed, stored payload %s, last winner %d", adapter, n, okc, failc, g.Item["payload"].Canon(), winner), wit)
		}
	case "create":
		cl := adapt.New(adapter)
		var okc, inuse int64
		if !parallel(n, func(i int) {
			s := spec
			switch cl.Do(adapt.Op{Kind: adapt.OpCreateTable, Spec: &s}).Class {
			case adapt.ClsOK:
				atomic.AddInt64(&okc, 1)
			case adapt.ClsInUse:
				atomic.AddInt64(&inuse, 1)
			}
		}) {
			x.notFinished(kind, fmt.Sprintf("[%s] %d racing CreateTable did not return", adapter, n), wit)
			return
		}
		x.r.Evals += n
		if okc != 1 || inuse != int64(n-1) {
			x.viol("not-exactly-one-winner", kind, fmt.Sprintf("[%s] %d racing CreateTable(same name): %d succeeded, %d ResourceInUse", adapter, n, okc, inuse), wit)
		}
	case "pingpong":
		cl := adapt.New(adapter)
		var creates, deletes int64
		if !parallel(n, func(i int) {
			for k := 0; k < 10; k++ {
				if (i+k)%2 == 0 {
					s := spec
					if cl.Do(adapt.Op{Kind: adapt.OpCreateTable, Spec: &s}).Class == adapt.ClsOK {
						atomic.AddInt64(&creates, 1)
					}
				} else if cl.Do(adapt.Op{Kind: adapt.OpDeleteTable, Table: spec.Name}).Class == adapt.ClsOK {
					atomic.AddInt64(&deletes, 1)
				}
			}
		}) {
			x.notFinished(kind, fmt.Sprintf("[%s] create/delete ping-pong did not return", adapter), wit)
			return
		}
		x.r.Evals += n * 10
		exists := cl.Do(adapt.Op{Kind: adapt.OpDescribe, Table: spec.Name}).Class == adapt.ClsOK
		d := creates - deletes
		if d < 0 || d > 1 || (d == 1) != exists {
			x.viol("catalogue-not-conserved", kind, fmt.Sprintf("[%s] create/delete ping-pong: %d successful creates, %d successful deletes, table exists = %v", adapter, creates, deletes, exists), wit)
		}
	case "batch-vs-scan":
		cl, _, _ := freshClient(adapter, spec)
		// batch sizes on both sides of 16 (and the maximum of 25): a batch call is one atomic step whatever its size
		k := []int{6, 17, 25, 13}[(ctx.Case/14)%4]
		x.set("batch_sizes", fmt.Sprint(k))
		var torn int64
		var tornDetail atomic.Value
		writers := n / 2
		if writers < 1 {
			writers = 1
		}
		if writers > 8 {
			writers = 8 // the table stays below ~1200 items: every put re-sorts the keys, every scan visits them all
		}
		if !parallel(n, func(i int) {
			if i < writers {
				for b := 0; b < 6; b++ {
					batch := []adapt.BatchEntry{}
					for j := 0; j < k; j++ {
						batch = append(batch, adapt.BatchEntry{Table: spec.Name, Put: val.Item{"h": val.Str(fmt.Sprintf("w%d-b%d-%d", i, b, j)), "batch": val.Str(fmt.Sprintf("w%d-b%d", i, b)), "g": val.Str("x")}})
					}
					cl.Do(adapt.Op{Kind: adapt.OpBatchWrite, Batch: batch})
				}
				return
			}
			nscans := 12
			if n > 16 {
				nscans = 4
			}
			for s := 0; s < nscans; s++ {
				index := ""
				if s%2 == 1 {
					index = "gsi1"
				}
				sc := cl.Do(adapt.Op{Kind: adapt.OpScan, Table: spec.Name, Index: index})
				per := map[string]int{}
				for _, it := range sc.Items {
					per[it["batch"].Str]++
				}
				for b, c := range per {
					if c != k {
						atomic.AddInt64(&torn, 1)
						tornDetail.Store(fmt.Sprintf("scan(index=%q) saw %d of the %d items of batch %s", index, c, k, b))
					}
				}
			}
		}) {
			x.notFinished(kind, fmt.Sprintf("[%s] batches vs scans did not return", adapter), wit)
			return
		}
		x.r.Evals += n * 9
		if torn > 0 {
			x.viol("batch-not-atomic", kind, fmt.Sprintf("[%s] %d scans observed a half-applied BatchWriteItem, e.g. %v", adapter, torn, tornDetail.Load()), wit)
		}
	case "multi-table-batch-vs-data":
		// batch calls that span TWO tables (writes, and SDK v2 batch reads) race with single-item calls, scans and
		// other batches on the same two tables: every call returns (no lock-order deadlock between the tables),
		// and within each table a scan sees none or all of a batch's items for that table
		spec2 := spec
		spec2.Name = "tbz11"
		cl, _, _ := freshClient(adapter, spec, spec2)
		k := []int{4, 10, 16, 24}[(ctx.Case/14)%4]
		x.set("batch_sizes", fmt.Sprint(k))
		var torn int64
		var tornDetail atomic.Value
		if !parallel(n, func(i int) {
			role := i % 4
			if i >= 16 {
				role = 2 + i%2 // at most 8 batch writers; the other goroutines make single-item calls and scans
			}
			switch role {
			case 0, 1:
				for b := 0; b < 6; b++ {
					batch := []adapt.BatchEntry{}
					for j := 0; j < k; j++ {
						t := []string{spec.Name, spec2.Name}[(j+i)%2]
						batch = append(batch, adapt.BatchEntry{Table: t, Put: val.Item{"h": val.Str(fmt.Sprintf("w%d-b%d-%d", i, b, j)), "batch": val.Str(fmt.Sprintf("w%d-b%d", i, b)), "g": val.Str("x")}})
					}
					cl.Do(adapt.Op{Kind: adapt.OpBatchWrite, Batch: batch})
					if adapter == "v2" {
						gets := []adapt.BatchEntry{}
						for j := 0; j < k && j < 8; j++ {
							t := []string{spec2.Name, spec.Name}[(j+i)%2]
							gets = append(gets, adapt.BatchEntry{Table: t, Del: val.Item{"h": val.Str(fmt.Sprintf("w%d-b%d-%d", i, b, j))}})
						}
						cl.Do(adapt.Op{Kind: adapt.OpBatchGet, Gets: gets})
					}
				}
			case 2:
				for s := 0; s < 20; s++ {
					t := []string{spec.Name, spec2.Name}[s%2]
					key := val.Item{"h": val.Str(fmt.Sprintf("single-%d-%d", i, s%3))}
					cl.Do(adapt.Op{Kind: adapt.OpPut, Table: t, Item: val.Item{"h": key["h"], "g": val.Str("y")}})
					cl.Do(adapt.Op{Kind: adapt.OpGet, Table: t, Key: key})
					cl.Do(mon.AddUpdate(t, key, "c", val.Num("1")))
					cl.Do(adapt.Op{Kind: adapt.OpDescribe, Table: t})
				}
			default:
				for s := 0; s < 10; s++ {
					t := []string{spec2.Name, spec.Name}[s%2]
					index := ""
					if s%3 == 1 {
						index = "gsi1"
					}
					sc := cl.Do(adapt.Op{Kind: adapt.OpScan, Table: t, Index: index})
					per := map[string]int{}
					for _, it := range sc.Items {
						if b, ok := it["batch"]; ok {
							per[b.Str]++
						}
					}
					for b, c := range per {
						if c != k/2 {
							atomic.AddInt64(&torn, 1)
							tornDetail.Store(fmt.Sprintf("scan(%s, index=%q) saw %d of the %d items batch %s wrote to that table", t, index, c, k/2, b))
						}
					}
				}
			}
		}) {
			x.notFinished(kind, fmt.Sprintf("[%s] batches over two tables vs single-table calls did not return", adapter), wit)
			return
		}
		x.r.Evals += n * 20
		if torn > 0 {
			x.viol("batch-not-atomic", kind, fmt.Sprintf("[%s] %d scans observed a half-applied two-table BatchWriteItem, e.g. %v", adapter, torn, tornDetail.Load()), wit)
		}
	case "batch-vs-failure-toggle":
		// writers issue batches of k unique items (and, SDK v2, batch reads of k stored items) while other
		// goroutines switch the emulated failures on and off. A batch call is atomic with respect to the
		// switch: the failure condition is either on or off for the WHOLE call - all k requests applied and
		// none unprocessed, or none applied (all k unprocessed under internal-server failure, an error under
		// the forced / deprecated one); applied + unprocessed = k in every case.
		cl, _, _ := freshClient(adapter, spec)
		k := []int{12, 17, 25, 20}[(ctx.Case/14)%4]
		x.set("batch_sizes", fmt.Sprint(k))
		for j := 0; j < k; j++ {
			cl.Do(adapt.Op{Kind: adapt.OpPut, Table: spec.Name, Item: val.Item{"h": val.Str(fmt.Sprintf("stored-%d", j)), "g": val.Str("x")}})
		}
		type bres struct {
			id     string
			class  string
			unproc int
		}
		var mu sync.Mutex
		results := []bres{}
		var tornGets int64
		var tornGetDetail atomic.Value
		writers := n / 2
		if writers < 1 {
			writers = 1
		}
		if !parallel(n, func(i int) {
			if i < writers {
				for b := 0; b < 8; b++ {
					id := fmt.Sprintf("w%d-b%d", i, b)
					batch := []adapt.BatchEntry{}
					for j := 0; j < k; j++ {
						batch = append(batch, adapt.BatchEntry{Table: spec.Name, Put: val.Item{"h": val.Str(fmt.Sprintf("%s-%d", id, j)), "batch": val.Str(id), "g": val.Str("x")}})
					}
					o := cl.Do(adapt.Op{Kind: adapt.OpBatchWrite, Batch: batch})
					mu.Lock()
					results = append(results, bres{id, o.Class, len(o.Unproc)})
					mu.Unlock()
					if adapter == "v2" {
						gets := []adapt.BatchEntry{}
						for j := 0; j < k; j++ {
							gets = append(gets, adapt.BatchEntry{Table: spec.Name, Del: val.Item{"h": val.Str(fmt.Sprintf("stored-%d", j))}})
						}
						g := cl.Do(adapt.Op{Kind: adapt.OpBatchGet, Gets: gets})
						if g.Class == adapt.ClsOK {
							if got := len(g.Resp[spec.Name]); got != 0 && got != k {
								atomic.AddInt64(&tornGets, 1)
								tornGetDetail.Store(fmt.Sprintf("BatchGetItem of %d stored keys returned %d items and %d unprocessed keys", k, got, len(g.UnprocK[spec.Name])))
							}
						}
					}
				}
				return
			}
			rr := rand.New(rand.NewSource(int64(ctx.Case*100 + i)))
			for s := 0; s < 60; s++ {
				switch rr.Intn(5) {
				case 0:
					cl.Do(adapt.Op{Kind: adapt.OpEmulate, Fail: "internal_server"})
				case 1:
					cl.Do(adapt.Op{Kind: adapt.OpEmulate, Fail: "deprecated"})
				case 2:
					cl.Do(adapt.Op{Kind: adapt.OpForceOn})
				default:
					cl.Do(adapt.Op{Kind: adapt.OpEmulate, Fail: "none"})
				}
				runtime.Gosched()
			}
		}) {
			x.notFinished(kind, fmt.Sprintf("[%s] batches vs failure toggles did not return", adapter), wit)
			return
		}
		cl.Do(adapt.Op{Kind: adapt.OpEmulate, Fail: "none"})
		sc := cl.Do(adapt.Op{Kind: adapt.OpScan, Table: spec.Name})
		per := map[string]int{}
		for _, it := range sc.Items {
			if b, ok := it["batch"]; ok {
				per[b.Str]++
			}
		}
		x.r.Evals += len(results)*2 + n*60
		applied, refused := 0, 0
		for _, br := range results {
			written := per[br.id]
			bad := ""
			switch {
			case written != 0 && written != k:
				bad = fmt.Sprintf("%d of its %d requests were applied", written, k)
			case br.class == adapt.ClsOK && written+br.unproc != k:
				bad = fmt.Sprintf("%d applied + %d unprocessed != %d requests", written, br.unproc, k)
			case br.class != adapt.ClsOK && written != 0:
				bad = fmt.Sprintf("the call failed with %s but %d requests were applied", br.class, written)
			}
			if written == k {
				applied++
			} else {
				refused++
			}
			if bad != "" {
				x.viol("batch-not-atomic", kind, fmt.Sprintf("[%s] BatchWriteItem %s (class %s, %d unprocessed) raced with failure toggles: %s", adapter, br.id, br.class, br.unproc, bad), wit)
				break
			}
		}
		x.r.Counters["toggle_batches_applied"] += applied
		x.r.Counters["toggle_batches_refused"] += refused
		if tornGets > 0 {
			x.viol("batch-not-atomic", kind+"/get", fmt.Sprintf("[%s] %d BatchGetItem calls were torn by a failure toggle, e.g. %v", adapter, tornGets, tornGetDetail.Load()), wit)
		}
	}
}

type linEvent struct {
	proc     int
	op       adapt.Op
	out      adapt.Outcome
	call, rt int64
}

var linProfiles = []string{"single-key", "data+search", "management+data", "batch+data+scan", "failure+data", "helpers+data"}

func linOp(r *rand.Rand, profile string, proc, seq int) adapt.Op {
	uniq := val.Num(fmt.Sprint(proc*100 + seq))
	t := "tba"
	key := val.Item{"h": val.Str(mon.Pick(r, []string{"k1", "k2"}))}
	data := func() adapt.Op {
		switch r.Intn(7) {
		case 0, 1:
			it := key.Clone()
			it["u"] = uniq
			it["g"] = val.Str(mon.Pick(r, []string{"x", "y"}))
			return adapt.Op{Kind: adapt.OpPut, Table: t, Item: it}
		case 2:
			return mon.AddUpdate(t, key, "c", val.Num("1"))
		case 3:
			return mon.SetUpdate(t, key, "u", uniq)
		case 4:
			return adapt.Op{Kind: adapt.OpDelete, Table: t, Key: key, RetOld: true}
		case 5:
			it := key.Clone()
			it["u"] = uniq
			return adapt.Op{Kind: adapt.OpPut, Table: t, Item: it, Cond: "attribute_not_exists(h)", CondAST: notExistsH}
		default:
			return adapt.Op{Kind: adapt.OpGet, Table: t, Key: key}
		}
	}
	switch profile {
	case "single-key":
		key = val.Item{"h": val.Str("k1")}
		return data()
	case "data+search":
		switch r.Intn(5) {
		case 0:
			return adapt.Op{Kind: adapt.OpScan, Table: t}
		case 1:
			return adapt.Op{Kind: adapt.OpScan, Table: t, Index: "gsi1"}
		case 2:
			return queryOp(t, "gsi1", keyCondEq("g", ":h"), nil, val.Item{":h": val.Str("x")}, false, rrCanon)
		}
		return data()
	case "management+data":
		t = mon.Pick(r, []string{"tba", "tbb"})
		switch r.Intn(8) {
		case 0, 1:
			s := adapt.TableSpec{Name: t, Hash: "h", Billing: "PAY_PER_REQUEST"}
			return adapt.Op{Kind: adapt.OpCreateTable, Spec: &s}
		case 2:
			return adapt.Op{Kind: adapt.OpDeleteTable, Table: t}
		case 3:
			return adapt.Op{Kind: adapt.OpDescribe, Table: t}
		case 4:
			it := key.Clone()
			it["u"] = uniq
			return adapt.Op{Kind: adapt.OpPut, Table: t, Item: it}
		case 5:
			return adapt.Op{Kind: adapt.OpGet, Table: t, Key: key}
		case 6:
			return adapt.Op{Kind: adapt.OpScan, Table: t}
		}
		return adapt.Op{Kind: adapt.OpClearTable, Table: t}
	case "batch+data+scan":
		switch r.Intn(4) {
		case 0, 1:
			b := []adapt.BatchEntry{}
			nb := 3
			if r.Intn(3) == 0 {
				nb = 17 + r.Intn(9) // a large batch is one atomic step, too
			}
			for j := 0; j < nb; j++ {
				b = append(b, adapt.BatchEntry{Table: t, Put: val.Item{"h": val.Str(fmt.Sprintf("b%d", j)), "u": uniq, "g": val.Str("x")}})
			}
			if r.Intn(2) == 0 {
				b = append(b, adapt.BatchEntry{Table: t, Del: val.Item{"h": val.Str("k1")}})
			}
			return adapt.Op{Kind: adapt.OpBatchWrite, Batch: b}
		case 2:
			return adapt.Op{Kind: adapt.OpScan, Table: t, Index: mon.Pick(r, []string{"", "gsi1"})}
		}
		return data()
	case "failure+data":
		switch r.Intn(6) {
		case 0:
			return adapt.Op{Kind: adapt.OpEmulate, Fail: mon.Pick(r, []string{"internal_server", "deprecated"})}
		case 1:
			return adapt.Op{Kind: adapt.OpEmulate, Fail: "none"}
		case 2:
			return adapt.Op{Kind: adapt.OpForceOff}
		}
		return data()
	default: // helpers+data
		switch r.Intn(6) {
		case 0:
			return adapt.Op{Kind: adapt.OpClearTable, Table: t}
		case 1:
			return adapt.Op{Kind: adapt.OpDescribe, Table: t}
		case 2:
			return adapt.Op{Kind: adapt.OpScan, Table: t, Index: "gsi1"}
		}
		return data()
	}
}

func (p *c11) linearizability(x *res, ctx *runner.Ctx) {
	idx := ctx.Case - c11ConsCases(ctx.Tier)
	r := mon.Rng(ctx.Seed, "C11L", idx)
	adapter := adapt.Adapters[idx%2]
	profile := linProfiles[(idx/2)%len(linProfiles)]
	procs := 2 + r.Intn(3)
	nops := 3 + r.Intn(3)
	cl := adapt.New(adapter)
	m0 := model.New()
	spec := adapt.TableSpec{Name: "tba", Hash: "h", Billing: "PAY_PER_REQUEST", Indexes: []adapt.IndexSpec{{Name: "gsi1", Hash: "g"}}}
	if profile != "management+data" || r.Intn(2) == 0 {
		op := createOp(spec)
		m0.Step(op, cl.Do(op))
		if r.Intn(2) == 0 {
			op := adapt.Op{Kind: adapt.OpPut, Table: "tba", Item: val.Item{"h": val.Str("k1"), "u": val.Num("0"), "c": val.Num("0"), "g": val.Str("x")}}
			m0.Step(op, cl.Do(op))
		}
	}
	plans := make([][]adapt.Op, procs)
	for pi := range plans {
		for s := 0; s < nops; s++ {
			plans[pi] = append(plans[pi], linOp(r, profile, pi+1, s))
		}
	}
	t0 := time.Now()
	var mu sync.Mutex
	events := []linEvent{}
	finished := parallel(procs, func(pi int) {
		for _, op := range plans[pi] {
			call := time.Since(t0).Nanoseconds()
			out := cl.Do(op)
			rt := time.Since(t0).Nanoseconds()
			mu.Lock()
			events = append(events, linEvent{pi, op, out, call, rt})
			mu.Unlock()
		}
	})
	x.r.Evals += procs * nops
	x.r.Counters["lin_histories"]++
	wit := map[string]interface{}{"adapter": adapter, "profile": profile, "plans": plans}
	if !finished {
		x.notFinished(profile, fmt.Sprintf("[%s] profile %s: calls did not return within 60 s", adapter, profile), wit)
		return
	}
	// overlap statistics + event-order fingerprint
	overlaps := 0
	for i := range events {
		for j := i + 1; j < len(events); j++ {
			a, b := events[i], events[j]
			if a.proc != b.proc && a.call < b.rt && b.call < a.rt {
				overlaps++
			}
		}
	}
	x.r.Counters["overlapping_op_pairs"] += overlaps
	type ev struct {
		t int64
		s string
	}
	evs := []ev{}
	for _, e := range events {
		evs = append(evs, ev{e.call, fmt.Sprintf("c%d%s", e.proc, e.op.Kind[:2])}, ev{e.rt, fmt.Sprintf("r%d", e.proc)})
	}
	sort.Slice(evs, func(i, j int) bool { return evs[i].t < evs[j].t })
	fp := []string{}
	for _, e := range evs {
		fp = append(fp, e.s)
	}
	x.fp(overlaps > 0, "lin|%s|%s|%s", profile, adapter, strings.Join(fp, ""))
	ops := []porcupine.Operation{}
	for _, e := range events {
		ops = append(ops, porcupine.Operation{ClientId: e.proc, Input: e.op, Call: e.call, Output: e.out, Return: e.rt})
	}
	pm := porcupine.Model{
		Init: func() interface{} { return m0.Clone() },
		Step: func(state, input, output interface{}) (bool, interface{}) {
			st := state.(*model.Client).Clone()
			ds := st.Step(input.(adapt.Op), output.(adapt.Outcome))
			return len(ds) == 0, st
		},
		Equal: func(a, b interface{}) bool { return a.(*model.Client).Canon() == b.(*model.Client).Canon() },
		DescribeOperation: func(input, output interface{}) string {
			return input.(adapt.Op).String() + " -> " + output.(adapt.Outcome).Short()
		},
	}
	res := porcupine.CheckOperationsTimeout(pm, ops, 30*time.Second)
	switch res {
	case porcupine.Ok:
		x.r.Counters["lin_ok"]++
	case porcupine.Unknown:
		x.r.Counters["lin_unknown"]++
		x.r.Inconclusive++
	case porcupine.Illegal:
		x.r.Counters["lin_illegal"]++
		hist := []map[string]interface{}{}
		sort.Slice(events, func(i, j int) bool { return events[i].call < events[j].call })
		kinds := map[string]bool{}
		for _, e := range events {
			hist = append(hist, map[string]interface{}{"proc": e.proc, "call_ns": e.call, "return_ns": e.rt, "op": e.op, "out": e.out})
			kinds[e.op.Kind] = true
		}
		wit["history"] = hist
		x.viol("not-linearizable", profile, fmt.Sprintf("[%s] profile %s: the recorded history of %d calls by %d goroutines has no sequential explanation (porcupine: Illegal)", adapter, profile, len(events), procs), wit)
	}
	if idx < 2 {
		x.r.Sample = map[string]interface{}{"adapter": adapter, "profile": profile, "goroutines": procs, "event_order": strings.Join(fp, " "), "verdict": fmt.Sprint(res)}
	}
}

func (p *c11) RunCase(ctx *runner.Ctx) runner.CaseResult {
	x := newRes()
	installHooks(yieldPolicy)
	if ctx.Case < c11ConsCases(ctx.Tier) {
		p.conservation(x, ctx)
	} else {
		p.linearizability(x, ctx)
	}
	for site, n := range hookHitCounts() {
		x.r.Counters["hook:"+site] = n
	}
	hookHits = sync.Map{}
	return x.r
}

func helperCalls(cl adapt.Client, r *rand.Rand) { helperCallsImpl(cl, r) }
