package props

import (
	"math/rand"
	"fmt"
	"sort"
	"strings"

	"verifharness/adapt"
	"verifharness/model"
	"verifharness/mon"
	"verifharness/runner"
	"verifharness/val"
)

// C03 – secondary indexes always mirror the base table.
type c03 struct{ base }

func init() {
	runner.Register(&c03{base{id: "C03", level: "exploration",
		rule: "exhaustive: every sequence of <=4 (thorough <=5) ops over 2 items x {put g=x, put g=y, put without g, update SET g, update REMOVE g, delete} on a table with a hash-only GSI, a hash+range GSI and an LSI (both adapters); seeded: histories of 30-60 writes over <=18 keys sharing 2 index-hash and 3 index-range values, mixed with ClearTable, UpdateTable index creation (late, on non-empty tables) and deletion. After EVERY step: Scan of every index, Query of every index per index-hash value (forward and reverse), DescribeTable per-index ItemCount, plus base table reads, compared with the index derived from the model's base map. non-trivial = >=2 items were in some index at some point and an index key was changed, dropped, gained late or its owner deleted; distinct by (adapter, op sequence shape). Legacy writes: UpdateItem without UpdateExpression carrying AttributeUpdates (PUT / ADD / DELETE; 21 state x request pairs per adapter) may be refused; if performed, every index must mirror the base table (judged from the base table itself, no model). Every history is replayed on a fresh client WITHOUT reads in between and observed only at the end (rule prefix unread:). Transactions (TransactWriteItems with plain and conditional puts / deletes, refused at the first, a middle or the last action, or completing) on the indexed table: afterwards every index mirrors the base table; a failed transaction changed nothing.",
		assumptions: append([]string{"white-box index state (hook accessor) is diagnostic only"}, commonAssumptions...)}})
}

const c03Choices = 12
const c03Block = 128

func c03MaxLen(tier string) int {
	if tier == "thorough" {
		return 5
	}
	return 4
}

func c03ExhCount(tier string) int {
	n, p := 0, 1
	for l := 1; l <= c03MaxLen(tier); l++ {
		p *= c03Choices
		n += p
	}
	return n
}

func c03Seeded(tier string) int {
	if tier == "thorough" {
		return 12000
	}
	return 900
}

func (p *c03) NumCases(tier string) int {
	return (c03ExhCount(tier)+c03Block-1)/c03Block*2 + c03Seeded(tier)
}

func c03Decode(seq int) []int {
	l, p := 1, c03Choices
	for seq >= p {
		seq -= p
		p *= c03Choices
		l++
	}
	out := make([]int, l)
	for i := range out {
		out[i] = seq % c03Choices
		seq /= c03Choices
	}
	return out
}

var c03Names = []string{"putx", "puty", "putnog", "setg", "remg", "del"}

func c03Op(table string, choice, salt int) adapt.Op {
	item := choice % 2
	rg := []string{"1", "10"}[item]
	key := val.Item{"h": val.Str("p"), "r": val.Str(rg)}
	switch choice / 2 {
	case 0:
		return adapt.Op{Kind: adapt.OpPut, Table: table, Item: ixItem("p", rg, "x", "9", salt)}
	case 1:
		return adapt.Op{Kind: adapt.OpPut, Table: table, Item: ixItem("p", rg, "y", "9", salt)}
	case 2:
		return adapt.Op{Kind: adapt.OpPut, Table: table, Item: ixItem("p", rg, "", "9", salt)}
	case 3:
		return mon.SetUpdate(table, key, "g", val.Str([]string{"x", "y"}[salt%2]))
	case 4:
		return mon.RemoveUpdate(table, key, "g")
	default:
		return adapt.Op{Kind: adapt.OpDelete, Table: table, Key: key}
	}
}

// c03Queries issues, for every index of every model table, a forward and a reverse Query per
// index-hash pool value and checks them against the model.
func c03Queries(cl adapt.Client, m *model.Client, st *mon.HistoryStats) []model.Diff {
	var ds []model.Diff
	for name, t := range m.Tables {
		for _, ix := range t.Spec.Indexes {
			pool := ixGPool
			if ix.Hash == "h" {
				pool = ixHashPool[:1]
			}
			if ix.Hash == "r" {
				pool = ixRangePool[:2]
			}
			for _, hv := range pool {
				for _, rev := range []bool{false, true} {
					op := queryOp(name, ix.Name, keyCondEq(ix.Hash, ":h"), nil, val.Item{":h": ixV(ix.Hash, hv)}, rev, rrCanon)
					st.Calls++
					for _, d := range m.Step(op, cl.Do(op)) {
						d.Rule = "index-" + d.Rule
						ds = append(ds, d)
					}
				}
				// the same partition read with a FilterExpression that rejects some of its items (a filter is applied to
				// what the key condition selects: the items behind a rejected one still belong to the answer)
				fr := rand.New(rand.NewSource(int64(st.Calls)))
				values := val.Item{":h": ixV(ix.Hash, hv)}
				flt := typedFilter(fr, values, "c")
				op := queryOp(name, ix.Name, keyCondEq(ix.Hash, ":h"), flt, values, fr.Intn(2) == 0, rrCanon)
				st.Calls++
				for _, d := range m.Step(op, cl.Do(op)) {
					d.Rule = "index-filtered-" + d.Rule
					ds = append(ds, d)
				}
			}
		}
	}
	return ds
}

func (p *c03) runHistory(x *res, ctx *runner.Ctx, adapter string, spec adapt.TableSpec, ops []adapt.Op, shape string, nontrivial bool) {
	cl, m, ds := freshClient(adapter, spec)
	if ds != nil {
		x.viol("setup", "create", ds[0].Detail, spec)
		return
	}
	st := &mon.HistoryStats{}
	keys := mon.KeyLog{}
	x.r.Counters["histories"]++
	for i, op := range ops {
		f := mon.RunHistory(cl, m, []adapt.Op{op}, keys, true, nil, ctx.Trace, st)
		if f == nil {
			if qd := c03Queries(cl, m, st); len(qd) > 0 {
				f = &mon.Failure{Step: 0, Phase: "observe", Diffs: qd, Op: op}
			}
		}
		if f != nil {
			f.Step = i
			f.Prefix = append([]adapt.Op{}, ops[:i+1]...)
			x.failureViolation(adapter, f, map[string]interface{}{"spec": spec, "index_state": indexDiag(cl, spec.Name)})
			break
		}
	}
	x.r.Evals += st.Calls
	x.r.Counters["steps"] += st.Steps
	x.fp(nontrivial, "%s|%s", adapter, shape)
	// the same history once more on a fresh client WITHOUT looking in between: no read touches the table or an index
	// until every write is done (a fixture is loaded, edited, and only then queried) - the final state is the same
	cl2, m2, ds2 := freshClient(adapter, spec)
	if ds2 != nil {
		return
	}
	st2 := &mon.HistoryStats{}
	keys2 := mon.KeyLog{}
	f := mon.RunHistory(cl2, m2, ops, keys2, false, nil, ctx.Trace, st2)
	if f == nil {
		if od := mon.Observe(cl2, m2, keys2, nil); len(od) > 0 {
			f = &mon.Failure{Step: len(ops) - 1, Phase: "observe-at-the-end", Diffs: od, Op: ops[len(ops)-1], Prefix: ops}
		} else if qd := c03Queries(cl2, m2, st2); len(qd) > 0 {
			f = &mon.Failure{Step: len(ops) - 1, Phase: "observe-at-the-end", Diffs: qd, Op: ops[len(ops)-1], Prefix: ops}
		}
	}
	x.r.Counters["histories_read_only_at_the_end"]++
	x.r.Evals += st2.Calls
	if f != nil {
		for i := range f.Diffs {
			if !strings.Contains(f.Diffs[i].Rule, "~") { // (a listed finding keeps its signature)
				f.Diffs[i].Rule = "unread:" + f.Diffs[i].Rule
			}
		}
		x.failureViolation(adapter, f, map[string]interface{}{"spec": spec, "read_only_at_the_end": true, "index_state": indexDiag(cl2, spec.Name)})
	}
}

func (p *c03) RunCase(ctx *runner.Ctx) runner.CaseResult {
	x := newRes()
	blocks := (c03ExhCount(ctx.Tier) + c03Block - 1) / c03Block
	if ctx.Case < blocks*2 {
		adapter := adapt.Adapters[ctx.Case%2]
		block := ctx.Case / 2
		total := c03ExhCount(ctx.Tier)
		spec := ixSpec("tbl03", true)
		for seq := block * c03Block; seq < (block+1)*c03Block && seq < total; seq++ {
			dec := c03Decode(seq)
			ops := []adapt.Op{}
			names := []string{}
			both := map[int]bool{}
			change := false
			for i, c := range dec {
				ops = append(ops, c03Op(spec.Name, c, i))
				names = append(names, fmt.Sprintf("%s%d", c03Names[c/2], c%2))
				both[c%2] = true
				if i > 0 {
					change = true
				}
			}
			p.runHistory(x, ctx, adapter, spec, ops, "ex:"+strings.Join(names, ","), len(both) == 2 && change)
			if seq == block*c03Block && block%37 == 0 {
				x.r.Sample = map[string]interface{}{"kind": "exhaustive", "adapter": adapter, "ops": names}
			}
		}
		return x.r
	}
	idx := ctx.Case - blocks*2
	r := mon.Rng(ctx.Seed, "C03", idx)
	adapter := adapt.Adapters[idx%2]
	if idx < 2 {
		p.legacyUpdates(x, adapter, ctx)
		p.transactions(x, adapter, ctx)
	}
	late := idx%3 == 0 // indexes created late on a non-empty table
	if idx%4 == 1 {
		// typed keys: number / binary sort key and index keys (see useTypedPools)
		defer useTypedPools(r)()
		x.r.Counters["typed_key_histories"]++
	}
	spec := ixSpec("tbl03", !late)
	n := 30 + r.Intn(31)
	ops := []adapt.Op{}
	shape := []string{}
	created := map[string]bool{}
	if !late {
		created["gsi1"], created["gsi2"], created["gsi4"] = true, true, true
	}
	ixDefs := map[string]adapt.IndexSpec{"gsi1": ixIndex("gsi1"), "gsi2": ixIndex("gsi2"), "gsi4": ixIndex("gsi4")}
	existing := func() []string {
		out := []string{}
		for _, n := range []string{"gsi1", "gsi2", "gsi4", "twin"} {
			if created[n] {
				out = append(out, n)
			}
		}
		return out
	}
	for i := 0; i < n; i++ {
		var op adapt.Op
		switch k := r.Intn(40); {
		case k == 0:
			op = adapt.Op{Kind: adapt.OpClearTable, Table: spec.Name}
		case k <= 2 && !created["gsi1"]:
			d := ixIndex("gsi1")
			op = adapt.Op{Kind: adapt.OpUpdateTable, Table: spec.Name, Chg: []adapt.IndexChange{{Create: &d}}}
			created["gsi1"] = true
		case k <= 4 && !created["gsi2"]:
			d := ixIndex("gsi2")
			if r.Intn(2) == 0 && d.HashT == "" && d.RangeT == "" {
				op = adapt.Op{Kind: adapt.OpAddIndex, Table: spec.Name, Ix: &d} // the helper declares string keys only
			} else {
				op = adapt.Op{Kind: adapt.OpUpdateTable, Table: spec.Name, Chg: []adapt.IndexChange{{Create: &d}}}
			}
			created["gsi2"] = true
		case k == 5 && created["gsi1"] && late:
			op = adapt.Op{Kind: adapt.OpUpdateTable, Table: spec.Name, Chg: []adapt.IndexChange{{Delete: "gsi1"}}}
			created["gsi1"] = false
		case k == 6 && len(existing()) > 0:
			// a REJECTED request with several index changes: existing indexes are deleted (and possibly one is
			// created) before the last change fails - the request must leave every index as it was
			chg := []adapt.IndexChange{}
			for _, n := range existing() {
				if r.Intn(2) == 0 || len(chg) == 0 {
					chg = append(chg, adapt.IndexChange{Delete: n})
				}
			}
			if !created["gsi1"] && r.Intn(2) == 0 {
				d := ixDefs["gsi1"]
				chg = append(chg, adapt.IndexChange{Create: &d})
			}
			chg = append(chg, adapt.IndexChange{Delete: "nosuchindex"})
			op = adapt.Op{Kind: adapt.OpUpdateTable, Table: spec.Name, Chg: chg}
		case k == 7 && len(existing()) > 0:
			// an index is dropped and NOT re-created for a while (also the "inverted" one that shares its key
			// attributes with the table's primary key); it may come back later through the creation branches
			n := mon.Pick(r, existing())
			op = adapt.Op{Kind: adapt.OpUpdateTable, Table: spec.Name, Chg: []adapt.IndexChange{{Delete: n}}}
			created[n] = false
		case k == 8 && !created["gsi4"]:
			d := ixDefs["gsi4"]
			op = adapt.Op{Kind: adapt.OpUpdateTable, Table: spec.Name, Chg: []adapt.IndexChange{{Create: &d}}}
			created["gsi4"] = true
		case (k == 12 || k == 13) && late && len(existing()) == 0 && !created["twin"] && len(ixTypes) == 0:
			// "legacy" items, written while the table has no index at all: their g or s has ANOTHER type than the
			// indexes created later declare. A back-fill leaves them out (they cannot be indexed) - them and nothing
			// else. They live in a partition of their own that no later write addresses.
			it := ixItem("legacy", fmt.Sprint("lg", i), "x", "1", i)
			switch r.Intn(3) {
			case 0:
				it["g"] = val.Num("5")
			case 1:
				it["s"] = val.Bool(true)
			default:
				it["g"], it["s"] = val.Bin("x"), val.Num("1")
			}
			op = adapt.Op{Kind: adapt.OpPut, Table: spec.Name, Item: it}
		case (k == 10 || k == 11) && len(existing()) > 0 && !created["twin"]:
			// a second index over exactly the key attributes of a live one, under another name (how one changes a
			// projection): from now on both must follow every write independently
			d := ixDefs[mon.Pick(r, existing())]
			d.Name = "twin"
			ixDefs["twin"] = d
			op = adapt.Op{Kind: adapt.OpUpdateTable, Table: spec.Name, Chg: []adapt.IndexChange{{Create: &d}}}
			created["twin"] = true
		case k == 9 && len(existing()) > 0:
			// replace an index in ONE request: delete + create under the same name (backfill of a fresh index)
			n := mon.Pick(r, existing())
			d := ixDefs[n]
			op = adapt.Op{Kind: adapt.OpUpdateTable, Table: spec.Name, Chg: []adapt.IndexChange{{Delete: n}, {Create: &d}}}
		default:
			op = ixRandomWrite(r, spec.Name, i)
			if (idx/2)%6 == 4 && r.Intn(8) == 0 {
				// the SORT key attribute of an index with a wrong type on an item that lacks the index's hash key (so it
				// would not be indexed anyway): the write is refused like any other index-key type mismatch
				h, rg := mon.Pick(r, ixHashPool), mon.Pick(r, ixRangePool)
				it := ixItem(h, rg, "", "", i)
				it["s"] = mon.Pick(r, []val.V{val.Num("7"), val.Bool(true), val.SS("q"), val.Null()})
				if ixV("s", "x").K == it["s"].K {
					it["s"] = val.List(val.Str("x"))
				}
				op = adapt.Op{Kind: adapt.OpPut, Table: spec.Name, Item: it}
				if r.Intn(2) == 0 {
					op = mon.SetUpdate(spec.Name, val.Item{"h": ixV("h", h), "r": ixV("r", rg)}, "s", it["s"])
				}
			}
			if (idx/2)%6 == 5 && r.Intn(8) == 0 {
				// (one history in six) an index key attribute that is PRESENT with an empty value (string or binary): the item possesses the
				// attribute (DynamoDB would refuse the write; the library accepts it, so the item belongs to the index)
				h, rg := mon.Pick(r, ixHashPool), mon.Pick(r, ixRangePool)
				key := val.Item{"h": ixV("h", h), "r": ixV("r", rg)}
				attr := mon.Pick(r, []string{"g", "s"})
				empty := ixV(attr, "x")
				if empty.K == val.KS || empty.K == val.KB {
					empty.Str = ""
					if r.Intn(2) == 0 {
						op = mon.SetUpdate(spec.Name, key, attr, empty)
					} else {
						it := ixItem(h, rg, maybe(r, ixGPool, 25), maybe(r, ixSPool, 25), i)
						it[attr] = empty
						op = adapt.Op{Kind: adapt.OpPut, Table: spec.Name, Item: it}
					}
				}
			}
		}
		ops = append(ops, op)
		shape = append(shape, mon.OpFeature(op))
	}
	p.runHistory(x, ctx, adapter, spec, ops, "seeded:"+fmt.Sprint(late)+":"+strings.Join(shape, ","), true)
	if idx < 2 {
		x.r.Sample = map[string]interface{}{"kind": "seeded", "adapter": adapter, "late_indexes": late, "ops": shape}
	}
	return x.r
}

// legacyUpdates: UpdateItem requests that carry no UpdateExpression but the legacy AttributeUpdates parameter
// (PUT / ADD / DELETE per attribute - what older code and several object mappers send). The library may refuse them
// (it documents the legacy parameters as not supported; listed finding of C01) - but if it performs one, the write is
// a write like any other: every index mirrors the base table afterwards. Judged without the reference model, from the
// base table itself: an index holds exactly the base items that have all of its key attributes.
func (p *c03) legacyUpdates(x *res, adapter string, ctx *runner.Ctx) {
	spec := ixSpec("tbl03l", true)
	sv := func(s string) *val.V { v := val.Str(s); return &v }
	one := val.Num("1")
	requests := []map[string]adapt.AttrUpdate{
		{"g": {Action: "PUT", Value: sv("gx")}},
		{"g": {Action: "DELETE"}},
		{"s": {Action: "PUT", Value: sv("sy")}},
		{"g": {Action: "PUT", Value: sv("g2")}, "s": {Action: "PUT", Value: sv("s2")}},
		{"g": {Action: "DELETE"}, "s": {Action: "DELETE"}},
		{"v": {Action: "ADD", Value: &one}},
		{"g": {Action: "PUT", Value: sv("gx")}, "v": {Action: "PUT", Value: sv("w")}},
	}
	states := map[string]val.Item{"absent": nil, "bare": {"h": val.Str("a"), "r": val.Str("1"), "v": val.Num("5")}, "indexed": {"h": val.Str("a"), "r": val.Str("1"), "g": val.Str("g0"), "s": val.Str("s0"), "v": val.Num("5")}}
	for sname, st := range states {
		for ri, req := range requests {
			cl, _, ds := freshClient(adapter, spec)
			if ds != nil {
				x.viol("setup", "create", ds[0].Detail, spec)
				return
			}
			cl.Do(adapt.Op{Kind: adapt.OpPut, Table: spec.Name, Item: val.Item{"h": val.Str("b"), "r": val.Str("2"), "g": val.Str("gx"), "s": val.Str("sy")}})
			if st != nil {
				cl.Do(adapt.Op{Kind: adapt.OpPut, Table: spec.Name, Item: st})
			}
			op := adapt.Op{Kind: adapt.OpUpdate, Table: spec.Name, Key: val.Item{"h": val.Str("a"), "r": val.Str("1")}, NoUpdate: true, AttrUpd: req}
			ctx.Trace("%s legacy update %d on %s", adapter, ri, sname)
			got := cl.Do(op)
			x.r.Evals++
			x.fp(true, "%s|legacy|%s|%d", adapter, sname, ri)
			wit := map[string]interface{}{"adapter": adapter, "state": sname, "request": op, "outcome": got}
			if got.Class == adapt.ClsRuntime {
				x.viol("runtime-panic", got.Site, fmt.Sprintf("[%s] UpdateItem with AttributeUpdates panics at %s: %s", adapter, got.Site, got.Msg), wit)
				continue
			}
			if got.Class != adapt.ClsOK {
				x.r.Counters["legacy_updates_refused"]++
			} else {
				x.r.Counters["legacy_updates_performed"]++
			}
			base := cl.Do(adapt.Op{Kind: adapt.OpScan, Table: spec.Name})
			desc := cl.Do(adapt.Op{Kind: adapt.OpDescribe, Table: spec.Name})
			for _, ix := range spec.Indexes {
				want := []string{}
				for _, it := range base.Items {
					_, hasH := it[ix.Hash]
					_, hasR := it[ix.Range]
					if hasH && (ix.Range == "" || hasR) {
						want = append(want, it.Canon())
					}
				}
				sort.Strings(want)
				sc := cl.Do(adapt.Op{Kind: adapt.OpScan, Table: spec.Name, Index: ix.Name})
				have := []string{}
				for _, it := range sc.Items {
					have = append(have, it.Canon())
				}
				sort.Strings(have)
				x.r.Evals++
				cnt := int64(-1)
				if desc.Desc != nil {
					for _, d := range desc.Desc.Indexes {
						if d.Name == ix.Name && d.HasCnt {
							cnt = d.Count
						}
					}
				}
				if strings.Join(have, "\n") != strings.Join(want, "\n") || (cnt >= 0 && cnt != int64(len(want))) {
					x.viol("index-stale-after-legacy-update", ix.Name+"/"+sname, fmt.Sprintf("[%s] after UpdateItem with AttributeUpdates %v (answered %s) on the %s item, index %s returns %v and DescribeTable counts %d; the base table holds %v with its key attributes", adapter, req, got.Class, sname, ix.Name, have, cnt, want), wit)
					break
				}
			}
		}
	}
}

// c03Mirror judges the indexes from the base table itself: an index holds exactly the base items that have all of its
// key attributes, and DescribeTable counts them. Returns a description of the first disagreement ("" = none).
func c03Mirror(cl adapt.Client, spec adapt.TableSpec) string {
	base := cl.Do(adapt.Op{Kind: adapt.OpScan, Table: spec.Name})
	desc := cl.Do(adapt.Op{Kind: adapt.OpDescribe, Table: spec.Name})
	for _, ix := range spec.Indexes {
		want := []string{}
		for _, it := range base.Items {
			_, hasH := it[ix.Hash]
			_, hasR := it[ix.Range]
			if hasH && (ix.Range == "" || hasR) {
				want = append(want, it.Canon())
			}
		}
		sort.Strings(want)
		sc := cl.Do(adapt.Op{Kind: adapt.OpScan, Table: spec.Name, Index: ix.Name})
		have := []string{}
		for _, it := range sc.Items {
			have = append(have, it.Canon())
		}
		sort.Strings(have)
		cnt := int64(-1)
		if desc.Desc != nil {
			for _, d := range desc.Desc.Indexes {
				if d.Name == ix.Name && d.HasCnt {
					cnt = d.Count
				}
			}
		}
		if strings.Join(have, "\n") != strings.Join(want, "\n") || (cnt >= 0 && cnt != int64(len(want))) {
			return fmt.Sprintf("index %s returns %v and DescribeTable counts %d; the base table holds %v with its key attributes", ix.Name, have, cnt, want)
		}
	}
	return ""
}

// transactions: TransactWriteItems with Put and Delete actions (plain and conditional) on an indexed table - a
// transaction that completes, one whose LAST action is refused by its condition after earlier actions changed index
// entries, one whose first action is refused. Whatever the library makes of the call (it may ignore the actions:
// the call is a documented stub), afterwards every index mirrors the base table, and a transaction that reports a
// failure has changed nothing.
func (p *c03) transactions(x *res, adapter string, ctx *runner.Ctx) {
	spec := ixSpec("tbl03t", true)
	it := func(h, r, g, s string) val.Item {
		o := val.Item{"h": val.Str(h), "r": val.Str(r)}
		if g != "" {
			o["g"] = val.Str(g)
		}
		if s != "" {
			o["s"] = val.Str(s)
		}
		return o
	}
	key := func(o val.Item) val.Item { return val.Item{"h": o["h"], "r": o["r"]} }
	a, b, c := it("p", "1", "x", "1"), it("p", "2", "y", "9"), it("pq", "1", "x", "")
	refused := adapt.TransactAct{Table: spec.Name, Put: it("pq", "1", "z", "5"), Cond: "attribute_not_exists(h)"}
	changes := []adapt.TransactAct{{Table: spec.Name, Put: it("p", "3", "y", "1")}, {Table: spec.Name, Put: it("p", "1", "y", "10")}, {Table: spec.Name, Del: key(b)}}
	shapes := map[string][]adapt.TransactAct{
		"completes":           append(append([]adapt.TransactAct{}, changes...), adapt.TransactAct{Table: spec.Name, Put: it("pq", "2", "x", "1"), Cond: "attribute_not_exists(h)"}),
		"last-action-refused": append(append([]adapt.TransactAct{}, changes...), refused),
		"first-action-refused": append([]adapt.TransactAct{refused}, changes...),
		"middle-action-refused": {changes[0], refused, changes[1], changes[2]},
	}
	for name, acts := range shapes {
		cl, _, ds := freshClient(adapter, spec)
		if ds != nil {
			return
		}
		for _, o := range []val.Item{a, b, c} {
			cl.Do(adapt.Op{Kind: adapt.OpPut, Table: spec.Name, Item: o})
		}
		before := adapt.ItemsCanon(cl.Do(adapt.Op{Kind: adapt.OpScan, Table: spec.Name}).Items)
		got := cl.Do(adapt.Op{Kind: adapt.OpTransact, Acts: acts})
		x.r.Evals += 2
		x.r.Counters["transactions_on_indexed_tables"]++
		x.fp(true, "%s|transaction|%s", adapter, name)
		wit := map[string]interface{}{"adapter": adapter, "shape": name, "actions": acts, "outcome": got}
		if got.Class == adapt.ClsRuntime {
			x.viol("runtime-panic", got.Site, fmt.Sprintf("[%s] TransactWriteItems (%s) panics: %s", adapter, name, got.Msg), wit)
			continue
		}
		if bad := c03Mirror(cl, spec); bad != "" {
			x.viol("index-stale-after-transaction", name+"/"+got.Class, fmt.Sprintf("[%s] after TransactWriteItems (%s, answered %s): %s", adapter, name, got.Class, bad), wit)
			continue
		}
		if after := adapt.ItemsCanon(cl.Do(adapt.Op{Kind: adapt.OpScan, Table: spec.Name}).Items); got.Class != adapt.ClsOK && after != before {
			x.viol("failed-transaction-left-trace", name, fmt.Sprintf("[%s] TransactWriteItems (%s) failed with %s but the table changed from %s to %s", adapter, name, got.Class, before, after), wit)
		}
	}
}
