package props

import (
	"context"
	"encoding/json"
	"errors"
	"fmt"
	"reflect"
	"sort"
	"strings"

	"github.com/aws/aws-sdk-go/aws"
	v1ddb "github.com/aws/aws-sdk-go/service/dynamodb"
	v2aws "github.com/aws/aws-sdk-go-v2/aws"
	v2ddb "github.com/aws/aws-sdk-go-v2/service/dynamodb"
	v2types "github.com/aws/aws-sdk-go-v2/service/dynamodb/types"
	v1client "github.com/truora/minidyn/aws-v1/client"
	v2client "github.com/truora/minidyn/aws-v2/client"
	mtypes "github.com/truora/minidyn/types"

	"verifharness/adapt"
	"verifharness/mon"
	"verifharness/runner"
	"verifharness/val"
)

// C14 – stored data is isolated from caller-owned memory.
type c14 struct{ base }

func init() {
	runner.Register(&c14{base{id: "C14", level: "exploration",
		rule: "for value trees from C10's boundary set and seeded trees: EVERY mutable location reachable from the SDK structures (each *string / *bool target, each string/bool member field, each []byte element, each slice element, each map entry; found generically with reflect) is poked, one location per fresh client: every case runs on one of three key flavours (S hash; B hash + B range; N hash + S range), so the KEY attributes are poked too. R1 inputs – after PutItem / UpdateItem (Key and ExpressionAttributeValues, on an existing item and as an upsert that creates the item from the request Key) / GetItem and DeleteItem keys / BatchWriteItem returned, poking the request structure must not change what GetItem and Scan return; R2 outputs – poking the structure returned by GetItem / Query / Scan / BatchGetItem / UpdateItem / DeleteItem(ALL_OLD) / ConditionalCheckFailed.Item must not change a later read; R3 – a result held by the caller must not change when the item is later overwritten, updated in place, deleted or the table cleared. non-trivial = the poked location lies inside a nested container or behind a pointer; distinct by (adapter, operation, path-kind sequence). Metadata inputs include an UpdateTable request carrying a BillingMode and an index creation without throughput. output/Query(index): after every poke the same request is sent again, with no write in between, and must answer as it did the first time.",
		assumptions: commonAssumptions}})
}

type pokeLoc struct {
	path string
	poke func()
}

// walkLocs enumerates the mutable locations reachable from v.
func walkLocs(v reflect.Value, path string, out *[]pokeLoc, depth int) {
	if depth > 12 || !v.IsValid() {
		return
	}
	switch v.Kind() {
	case reflect.Ptr:
		if v.IsNil() {
			return
		}
		e := v.Elem()
		switch e.Kind() {
		case reflect.String:
			if e.CanSet() {
				*out = append(*out, pokeLoc{path + "/*string", func() { e.SetString(e.String() + "~poked") }})
			}
		case reflect.Bool:
			if e.CanSet() {
				*out = append(*out, pokeLoc{path + "/*bool", func() { e.SetBool(!e.Bool()) }})
			}
		default:
			walkLocs(e, path+"/*", out, depth+1)
		}
	case reflect.Interface:
		if !v.IsNil() {
			walkLocs(v.Elem(), path, out, depth+1)
		}
	case reflect.Struct:
		for i := 0; i < v.NumField(); i++ {
			f := v.Field(i)
			ft := v.Type().Field(i)
			if ft.PkgPath != "" { // unexported
				continue
			}
			switch f.Kind() {
			case reflect.String:
				if f.CanSet() && f.String() != "" || (f.CanSet() && ft.Name == "Value") {
					ff := f
					*out = append(*out, pokeLoc{path + "/." + ft.Name + ":string", func() { ff.SetString(ff.String() + "~poked") }})
				}
			case reflect.Bool:
				if f.CanSet() && ft.Name == "Value" {
					ff := f
					*out = append(*out, pokeLoc{path + "/." + ft.Name + ":bool", func() { ff.SetBool(!ff.Bool()) }})
				}
			default:
				walkLocs(f, path+"/."+ft.Name, out, depth+1)
			}
		}
	case reflect.Slice:
		if v.IsNil() {
			return
		}
		if v.Type().Elem().Kind() == reflect.Uint8 {
			for i := 0; i < v.Len() && i < 3; i++ {
				e := v.Index(i)
				*out = append(*out, pokeLoc{fmt.Sprintf("%s/[]byte[%d]", path, i), func() { e.SetUint(uint64(byte(e.Uint()) ^ 0xff)) }})
			}
			return
		}
		if v.Cap() > v.Len() && v.CanAddr() {
			// spare capacity behind a returned slice: appending in place writes into whatever else shares the array
			vv := v
			*out = append(*out, pokeLoc{path + "/append-within-capacity", func() {
				n := vv.Len()
				vv.SetLen(n + 1)
				if n > 0 {
					vv.Index(n).Set(vv.Index(0))
				}
			}})
		}
		for i := 0; i < v.Len() && i < 4; i++ {
			e := v.Index(i)
			if e.Kind() == reflect.String {
				*out = append(*out, pokeLoc{fmt.Sprintf("%s/[]string[%d]", path, i), func() { e.SetString(e.String() + "~poked") }})
				continue
			}
			walkLocs(e, fmt.Sprintf("%s/[%d]", path, i), out, depth+1)
			if e.CanSet() && v.Len() >= 2 && i == 0 {
				last := v.Index(v.Len() - 1)
				*out = append(*out, pokeLoc{fmt.Sprintf("%s/[%d]=elem", path, i), func() { e.Set(last) }})
			}
		}
	case reflect.Map:
		if v.IsNil() {
			return
		}
		keys := v.MapKeys()
		sort.Slice(keys, func(i, j int) bool { return fmt.Sprint(keys[i]) < fmt.Sprint(keys[j]) })
		if v.Type().Key().Kind() == reflect.String && depth <= 2 {
			// a NEW entry (also into an empty map - the result of a read that found nothing): the caller's map is the
			// caller's alone
			vv := v
			*out = append(*out, pokeLoc{path + "/insert{new}", func() {
				var nv reflect.Value
				if len(keys) > 0 {
					nv = vv.MapIndex(keys[0])
				} else {
					nv = reflect.Zero(vv.Type().Elem())
				}
				vv.SetMapIndex(reflect.ValueOf("~inserted").Convert(vv.Type().Key()), nv)
			}})
		}
		for i, k := range keys {
			if i >= 6 {
				break
			}
			walkLocs(v.MapIndex(k), fmt.Sprintf("%s/{%v}", path, k), out, depth+1)
			kk := k
			*out = append(*out, pokeLoc{fmt.Sprintf("%s/delete{%v}", path, k), func() { v.SetMapIndex(kk, reflect.Value{}) }})
			if len(keys) >= 2 {
				other := v.MapIndex(keys[(i+1)%len(keys)])
				*out = append(*out, pokeLoc{fmt.Sprintf("%s/{%v}=other", path, k), func() { v.SetMapIndex(kk, other) }})
			}
		}
	}
}

func pathKinds(p string) string {
	parts := strings.Split(p, "/")
	out := []string{}
	for _, s := range parts {
		switch {
		case s == "":
		case strings.HasPrefix(s, "{"):
			out = append(out, "{k}")
		case strings.HasPrefix(s, "delete{"):
			out = append(out, "delete{k}")
		case strings.HasPrefix(s, "insert{"):
			out = append(out, "insert{k}")
		case strings.HasPrefix(s, "[]byte"):
			out = append(out, "[]byte[i]")
		case strings.HasPrefix(s, "[]string"):
			out = append(out, "[]string[i]")
		case strings.HasPrefix(s, "["):
			if strings.HasSuffix(s, "=elem") {
				out = append(out, "[i]=elem")
			} else {
				out = append(out, "[i]")
			}
		default:
			out = append(out, s)
		}
	}
	return strings.Join(out, "/")
}

func nestedPath(p string) bool {
	return strings.Count(p, "/") >= 3 || strings.Contains(p, "*")
}

// c14Target abstracts the two SDKs: it performs an operation and hands back the root
// reflect.Value of the caller-owned structure to poke.
type c14Op struct {
	name string
	// run performs the call on a fresh client populated with `stored` and returns the structure to poke
	// (request structure for inputs, response structure for outputs) plus the expected item after the call.
	run func(adapter string, cl adapt.Client, item val.Item) (root interface{}, expect val.Item, ok bool)
}

// c14Again (reads only, by operation name): the SAME request once more on the same client, with no write in between;
// what it returns is what it returned the first time, whatever the caller did to the first result
var c14Again = map[string]func(adapter string, cl adapt.Client) interface{}{}

// key flavours: the poked structures include the KEY attributes, whose Go representation differs by type
// (S and N are immutable strings behind pointers / members, B is a byte slice the library has to copy)
type c14Flavour struct {
	name string
	spec adapt.TableSpec
	key  val.Item
}

var c14Flavours = []c14Flavour{
	{"S", adapt.TableSpec{Name: "tbl14", Hash: "h", Billing: "PAY_PER_REQUEST"}, val.Item{"h": val.Str("k")}},
	// (the hash+range flavours also have a local and a global index over attributes the items do not carry: some
	// code only runs for tables that have an item collection)
	{"B+B", adapt.TableSpec{Name: "tbl14", Hash: "h", HashT: "B", Range: "r", RangeT: "B", Billing: "PAY_PER_REQUEST", Indexes: []adapt.IndexSpec{{Name: "lsi1", Hash: "h", HashT: "B", Range: "lsik", Local: true}}}, val.Item{"h": val.Bin("\x01\x02\x03"), "r": val.Bin("\x0a\x0b")}},
	{"N+S", adapt.TableSpec{Name: "tbl14", Hash: "h", HashT: "N", Range: "r", Billing: "PAY_PER_REQUEST", Indexes: []adapt.IndexSpec{{Name: "lsi1", Hash: "h", HashT: "N", Range: "lsik", Local: true}, {Name: "gsi1", Hash: "gsik"}}}, val.Item{"h": val.Num("42"), "r": val.Str("rk")}},
}

// the flavour of the running case (cases of one worker process run one after another)
var c14Spec = c14Flavours[0].spec
var c14Key = c14Flavours[0].key

func setFlavour(i int) string {
	f := c14Flavours[i%len(c14Flavours)]
	c14Spec, c14Key = f.spec, f.key
	return f.name
}

func withKey(it val.Item) val.Item {
	o := it.Clone()
	for k, v := range c14Key {
		o[k] = v
	}
	return o
}

// a second key of the same table that sorts AFTER c14Key
func c14SecondKey() val.Item {
	o := c14Key.Clone()
	switch c14Key["h"].K {
	case val.KS:
		o["h"] = val.Str("zz")
	case val.KB:
		o["h"] = val.Bin("\xf0\xf1")
	default:
		o["h"] = val.Num("4200")
	}
	return o
}

// a third key of the same table that is never written
func c14MissingKey() val.Item {
	o := c14Key.Clone()
	switch c14Key["h"].K {
	case val.KS:
		o["h"] = val.Str("never-written")
	case val.KB:
		o["h"] = val.Bin("\xee\xee")
	default:
		o["h"] = val.Num("777")
	}
	return o
}

func c14Ops() []c14Op {
	ctx := context.Background()
	ops := []c14Op{
		{"input/PutItem.Item", func(ad string, cl adapt.Client, item val.Item) (interface{}, val.Item, bool) {
			it := withKey(item)
			if ad == "v1" {
				in := &v1ddb.PutItemInput{TableName: aws.String("tbl14"), Item: adapt.ItemToV1(it)}
				_, err := cl.Raw().(*v1client.Client).PutItem(in)
				return in.Item, it, err == nil
			}
			in := &v2ddb.PutItemInput{TableName: v2aws.String("tbl14"), Item: adapt.ItemToV2(it)}
			_, err := cl.Raw().(*v2client.Client).PutItem(ctx, in)
			return in.Item, it, err == nil
		}},
		{"input/UpdateItem.Values", func(ad string, cl adapt.Client, item val.Item) (interface{}, val.Item, bool) {
			// SET every attribute from a placeholder: the stored item is built from ExpressionAttributeValues
			names := []string{}
			for k := range item {
				names = append(names, k)
			}
			if len(names) == 0 {
				return nil, nil, false
			}
			sets := []string{}
			vals := val.Item{}
			al := map[string]string{}
			for i, k := range names {
				sets = append(sets, fmt.Sprintf("#n%d = :v%d", i, i))
				vals[fmt.Sprintf(":v%d", i)] = item[k]
				al[fmt.Sprintf("#n%d", i)] = k
			}
			expr := "SET " + strings.Join(sets, ", ")
			if ad == "v1" {
				al1 := map[string]*string{}
				for k, v := range al {
					vv := v
					al1[k] = &vv
				}
				in := &v1ddb.UpdateItemInput{TableName: aws.String("tbl14"), Key: adapt.ItemToV1(c14Key), UpdateExpression: aws.String(expr), ExpressionAttributeNames: al1, ExpressionAttributeValues: adapt.ItemToV1(vals)}
				_, err := cl.Raw().(*v1client.Client).UpdateItem(in)
				return map[string]interface{}{"values": in.ExpressionAttributeValues, "key": in.Key}, withKey(item), err == nil
			}
			in := &v2ddb.UpdateItemInput{TableName: v2aws.String("tbl14"), Key: adapt.ItemToV2(c14Key), UpdateExpression: v2aws.String(expr), ExpressionAttributeNames: al, ExpressionAttributeValues: adapt.ItemToV2(vals)}
			_, err := cl.Raw().(*v2client.Client).UpdateItem(ctx, in)
			return map[string]interface{}{"values": in.ExpressionAttributeValues, "key": in.Key}, withKey(item), err == nil
		}},
		{"input/UpdateItem.Key(upsert)", func(ad string, cl adapt.Client, item val.Item) (interface{}, val.Item, bool) {
			// the item does not exist: UpdateItem creates it from the KEY attributes of the request plus the update
			exp := withKey(val.Item{"created": val.Str("yes")})
			if ad == "v1" {
				in := &v1ddb.UpdateItemInput{TableName: aws.String("tbl14"), Key: adapt.ItemToV1(c14Key), UpdateExpression: aws.String("SET created = :t"), ExpressionAttributeValues: adapt.ItemToV1(val.Item{":t": val.Str("yes")})}
				_, err := cl.Raw().(*v1client.Client).UpdateItem(in)
				return in.Key, exp, err == nil
			}
			in := &v2ddb.UpdateItemInput{TableName: v2aws.String("tbl14"), Key: adapt.ItemToV2(c14Key), UpdateExpression: v2aws.String("SET created = :t"), ExpressionAttributeValues: adapt.ItemToV2(val.Item{":t": val.Str("yes")})}
			_, err := cl.Raw().(*v2client.Client).UpdateItem(ctx, in)
			return in.Key, exp, err == nil
		}},
		{"input/Delete+Get.Key", func(ad string, cl adapt.Client, item val.Item) (interface{}, val.Item, bool) {
			// the keys handed to GetItem and to a DeleteItem of ANOTHER key must not become part of the stored state
			it := withKey(item)
			if cl.Do(adapt.Op{Kind: adapt.OpPut, Table: "tbl14", Item: it}).Class != adapt.ClsOK {
				return nil, nil, false
			}
			if ad == "v1" {
				g := &v1ddb.GetItemInput{TableName: aws.String("tbl14"), Key: adapt.ItemToV1(c14Key)}
				d := &v1ddb.DeleteItemInput{TableName: aws.String("tbl14"), Key: adapt.ItemToV1(c14SecondKey())}
				_, e1 := cl.Raw().(*v1client.Client).GetItem(g)
				_, e2 := cl.Raw().(*v1client.Client).DeleteItem(d)
				return map[string]interface{}{"get": g.Key, "delete": d.Key}, it, e1 == nil && e2 == nil
			}
			g := &v2ddb.GetItemInput{TableName: v2aws.String("tbl14"), Key: adapt.ItemToV2(c14Key)}
			d := &v2ddb.DeleteItemInput{TableName: v2aws.String("tbl14"), Key: adapt.ItemToV2(c14SecondKey())}
			_, e1 := cl.Raw().(*v2client.Client).GetItem(ctx, g)
			_, e2 := cl.Raw().(*v2client.Client).DeleteItem(ctx, d)
			return map[string]interface{}{"get": g.Key, "delete": d.Key}, it, e1 == nil && e2 == nil
		}},
		{"input/BatchWriteItem.Put", func(ad string, cl adapt.Client, item val.Item) (interface{}, val.Item, bool) {
			it := withKey(item)
			if ad == "v1" {
				in := &v1ddb.BatchWriteItemInput{RequestItems: map[string][]*v1ddb.WriteRequest{"tbl14": {{PutRequest: &v1ddb.PutRequest{Item: adapt.ItemToV1(it)}}}}}
				_, err := cl.Raw().(*v1client.Client).BatchWriteItem(in)
				return in.RequestItems, it, err == nil
			}
			in := &v2ddb.BatchWriteItemInput{RequestItems: map[string][]v2types.WriteRequest{"tbl14": {{PutRequest: &v2types.PutRequest{Item: adapt.ItemToV2(it)}}}}}
			_, err := cl.Raw().(*v2client.Client).BatchWriteItem(ctx, in)
			return in.RequestItems, it, err == nil
		}},
	}
	// the documented override: native interpreter on, an updater written the way the README shows it
	// (item[name] = updates[":name"]): what the callback stores comes from the library's copy of the request's
	// ExpressionAttributeValues, so poking the request afterwards must still change nothing
	nativeUpd := func(existing bool) func(ad string, cl adapt.Client, item val.Item) (interface{}, val.Item, bool) {
		return func(ad string, cl adapt.Client, item val.Item) (interface{}, val.Item, bool) {
			names := []string{}
			for k := range item {
				names = append(names, k)
			}
			sort.Strings(names)
			if len(names) == 0 {
				return nil, nil, false
			}
			sets := []string{}
			vals := val.Item{}
			for i, k := range names {
				sets = append(sets, fmt.Sprintf("%s = :v%d", k, i))
				vals[fmt.Sprintf(":v%d", i)] = item[k]
			}
			expr := "SET " + strings.Join(sets, ", ")
			upd := func(it map[string]*mtypes.Item, updates map[string]*mtypes.Item) {
				for i, k := range names {
					it[k] = updates[fmt.Sprintf(":v%d", i)]
				}
			}
			if existing && cl.Do(adapt.Op{Kind: adapt.OpPut, Table: "tbl14", Item: withKey(val.Item{"old": val.Str("o")})}).Class != adapt.ClsOK {
				return nil, nil, false
			}
			exp := withKey(item)
			if existing {
				exp["old"] = val.Str("o")
			}
			if ad == "v1" {
				c := cl.Raw().(*v1client.Client)
				c.ActivateNativeInterpreter()
				c.GetNativeInterpreter().AddUpdater("tbl14", expr, upd)
				in := &v1ddb.UpdateItemInput{TableName: aws.String("tbl14"), Key: adapt.ItemToV1(c14Key), UpdateExpression: aws.String(expr), ExpressionAttributeValues: adapt.ItemToV1(vals)}
				_, err := c.UpdateItem(in)
				return map[string]interface{}{"values": in.ExpressionAttributeValues, "key": in.Key}, exp, err == nil
			}
			c := cl.Raw().(*v2client.Client)
			c.ActivateNativeInterpreter()
			c.GetNativeInterpreter().AddUpdater("tbl14", expr, upd)
			in := &v2ddb.UpdateItemInput{TableName: v2aws.String("tbl14"), Key: adapt.ItemToV2(c14Key), UpdateExpression: v2aws.String(expr), ExpressionAttributeValues: adapt.ItemToV2(vals)}
			_, err := c.UpdateItem(ctx, in)
			return map[string]interface{}{"values": in.ExpressionAttributeValues, "key": in.Key}, exp, err == nil
		}
	}
	ops = append(ops, c14Op{"input/UpdateItem.Values(native updater, upsert)", nativeUpd(false)}, c14Op{"input/UpdateItem.Values(native updater, existing item)", nativeUpd(true)})
	put := func(cl adapt.Client, it val.Item) bool {
		return cl.Do(adapt.Op{Kind: adapt.OpPut, Table: "tbl14", Item: it}).Class == adapt.ClsOK
	}
	outputs := []struct {
		name string
		run  func(ad string, cl adapt.Client, it val.Item) (interface{}, val.Item, bool)
	}{
		{"output/GetItem", func(ad string, cl adapt.Client, it val.Item) (interface{}, val.Item, bool) {
			if ad == "v1" {
				out, err := cl.Raw().(*v1client.Client).GetItem(&v1ddb.GetItemInput{TableName: aws.String("tbl14"), Key: adapt.ItemToV1(c14Key)})
				if err != nil {
					return nil, nil, false
				}
				return out.Item, it, true
			}
			out, err := cl.Raw().(*v2client.Client).GetItem(ctx, &v2ddb.GetItemInput{TableName: v2aws.String("tbl14"), Key: adapt.ItemToV2(c14Key)})
			if err != nil {
				return nil, nil, false
			}
			return out.Item, it, true
		}},
		{"output/Scan", func(ad string, cl adapt.Client, it val.Item) (interface{}, val.Item, bool) {
			if ad == "v1" {
				out, err := cl.Raw().(*v1client.Client).Scan(&v1ddb.ScanInput{TableName: aws.String("tbl14")})
				if err != nil {
					return nil, nil, false
				}
				return out.Items, it, true
			}
			out, err := cl.Raw().(*v2client.Client).Scan(ctx, &v2ddb.ScanInput{TableName: v2aws.String("tbl14")})
			if err != nil {
				return nil, nil, false
			}
			return out.Items, it, true
		}},
		{"output/Query", func(ad string, cl adapt.Client, it val.Item) (interface{}, val.Item, bool) {
			if ad == "v1" {
				out, err := cl.Raw().(*v1client.Client).Query(&v1ddb.QueryInput{TableName: aws.String("tbl14"), KeyConditionExpression: aws.String("h = :h"), ExpressionAttributeValues: adapt.ItemToV1(val.Item{":h": c14Key["h"]})})
				if err != nil {
					return nil, nil, false
				}
				return out.Items, it, true
			}
			out, err := cl.Raw().(*v2client.Client).Query(ctx, &v2ddb.QueryInput{TableName: v2aws.String("tbl14"), KeyConditionExpression: v2aws.String("h = :h"), ExpressionAttributeValues: adapt.ItemToV2(val.Item{":h": c14Key["h"]})})
			if err != nil {
				return nil, nil, false
			}
			return out.Items, it, true
		}},
		{"output/Scan.LastEvaluatedKey", func(ad string, cl adapt.Client, it val.Item) (interface{}, val.Item, bool) {
			// a second item so that Limit 1 leaves a LastEvaluatedKey; "k" sorts before "zz"
			cl.Do(adapt.Op{Kind: adapt.OpPut, Table: "tbl14", Item: c14SecondKey()})
			var root interface{}
			if ad == "v1" {
				out, err := cl.Raw().(*v1client.Client).Scan(&v1ddb.ScanInput{TableName: aws.String("tbl14"), Limit: aws.Int64(1)})
				if err != nil || len(out.LastEvaluatedKey) == 0 {
					return nil, nil, false
				}
				root = out.LastEvaluatedKey
			} else {
				out, err := cl.Raw().(*v2client.Client).Scan(ctx, &v2ddb.ScanInput{TableName: v2aws.String("tbl14"), Limit: v2aws.Int32(1)})
				if err != nil || len(out.LastEvaluatedKey) == 0 {
					return nil, nil, false
				}
				root = out.LastEvaluatedKey
			}
			cl.Do(adapt.Op{Kind: adapt.OpDelete, Table: "tbl14", Key: c14SecondKey()})
			return root, it, true
		}},
		{"output/PutItem.Attributes", func(ad string, cl adapt.Client, it val.Item) (interface{}, val.Item, bool) {
			// the item is written once more (same content): whatever the output carries belongs to the caller
			if ad == "v1" {
				out, err := cl.Raw().(*v1client.Client).PutItem(&v1ddb.PutItemInput{TableName: aws.String("tbl14"), Item: adapt.ItemToV1(it)})
				if err != nil || out == nil {
					return nil, nil, false
				}
				return out.Attributes, it, true
			}
			out, err := cl.Raw().(*v2client.Client).PutItem(ctx, &v2ddb.PutItemInput{TableName: v2aws.String("tbl14"), Item: adapt.ItemToV2(it)})
			if err != nil || out == nil {
				return nil, nil, false
			}
			return out.Attributes, it, true
		}},
		{"output/PutItem.Attributes(ALL_OLD)", func(ad string, cl adapt.Client, it val.Item) (interface{}, val.Item, bool) {
			if ad == "v1" {
				out, err := cl.Raw().(*v1client.Client).PutItemWithContext(ctx, &v1ddb.PutItemInput{TableName: aws.String("tbl14"), Item: adapt.ItemToV1(it), ReturnValues: aws.String("ALL_OLD")})
				if err != nil || out == nil {
					return nil, nil, false
				}
				return out.Attributes, it, true
			}
			out, err := cl.Raw().(*v2client.Client).PutItem(ctx, &v2ddb.PutItemInput{TableName: v2aws.String("tbl14"), Item: adapt.ItemToV2(it), ReturnValues: "ALL_OLD"})
			if err != nil || out == nil {
				return nil, nil, false
			}
			return out.Attributes, it, true
		}},
		{"output/PutItem(whole output, metrics requested)", func(ad string, cl adapt.Client, it val.Item) (interface{}, val.Item, bool) {
			// everything the output carries - attributes, item collection metrics (their key!), consumed capacity
			if ad == "v1" {
				out, err := cl.Raw().(*v1client.Client).PutItem(&v1ddb.PutItemInput{TableName: aws.String("tbl14"), Item: adapt.ItemToV1(it), ReturnValues: aws.String("ALL_OLD"),
					ReturnItemCollectionMetrics: aws.String("SIZE"), ReturnConsumedCapacity: aws.String("TOTAL")})
				if err != nil || out == nil {
					return nil, nil, false
				}
				return out, it, true
			}
			out, err := cl.Raw().(*v2client.Client).PutItem(ctx, &v2ddb.PutItemInput{TableName: v2aws.String("tbl14"), Item: adapt.ItemToV2(it), ReturnValues: "ALL_OLD",
				ReturnItemCollectionMetrics: "SIZE", ReturnConsumedCapacity: "TOTAL"})
			if err != nil || out == nil {
				return nil, nil, false
			}
			return out, it, true
		}},
		{"output/UpdateItem(whole output, metrics requested)", func(ad string, cl adapt.Client, it val.Item) (interface{}, val.Item, bool) {
			exp := it.Clone()
			exp["touched"] = val.Str("yes")
			if ad == "v1" {
				out, err := cl.Raw().(*v1client.Client).UpdateItem(&v1ddb.UpdateItemInput{TableName: aws.String("tbl14"), Key: adapt.ItemToV1(c14Key), UpdateExpression: aws.String("SET touched = :t"),
					ExpressionAttributeValues: adapt.ItemToV1(val.Item{":t": val.Str("yes")}), ReturnValues: aws.String("ALL_NEW"), ReturnItemCollectionMetrics: aws.String("SIZE"), ReturnConsumedCapacity: aws.String("INDEXES")})
				if err != nil || out == nil {
					return nil, nil, false
				}
				return out, exp, true
			}
			out, err := cl.Raw().(*v2client.Client).UpdateItem(ctx, &v2ddb.UpdateItemInput{TableName: v2aws.String("tbl14"), Key: adapt.ItemToV2(c14Key), UpdateExpression: v2aws.String("SET touched = :t"),
				ExpressionAttributeValues: adapt.ItemToV2(val.Item{":t": val.Str("yes")}), ReturnValues: "ALL_NEW", ReturnItemCollectionMetrics: "SIZE", ReturnConsumedCapacity: "INDEXES"})
			if err != nil || out == nil {
				return nil, nil, false
			}
			return out, exp, true
		}},
		{"output/UpdateItem.Attributes", func(ad string, cl adapt.Client, it val.Item) (interface{}, val.Item, bool) {
			exp := it.Clone()
			exp["touched"] = val.Str("yes")
			if ad == "v1" {
				out, err := cl.Raw().(*v1client.Client).UpdateItem(&v1ddb.UpdateItemInput{TableName: aws.String("tbl14"), Key: adapt.ItemToV1(c14Key), UpdateExpression: aws.String("SET touched = :t"), ExpressionAttributeValues: adapt.ItemToV1(val.Item{":t": val.Str("yes")})})
				if err != nil {
					return nil, nil, false
				}
				return out.Attributes, exp, true
			}
			out, err := cl.Raw().(*v2client.Client).UpdateItem(ctx, &v2ddb.UpdateItemInput{TableName: v2aws.String("tbl14"), Key: adapt.ItemToV2(c14Key), UpdateExpression: v2aws.String("SET touched = :t"), ExpressionAttributeValues: adapt.ItemToV2(val.Item{":t": val.Str("yes")})})
			if err != nil {
				return nil, nil, false
			}
			return out.Attributes, exp, true
		}},
		{"output/GetItem(missing key)", func(ad string, cl adapt.Client, it val.Item) (interface{}, val.Item, bool) {
			// a read that finds nothing returns an empty result the caller may fill (get-or-create)
			miss := c14MissingKey()
			miss["h"] = c14SecondKey()["h"]
			if ad == "v1" {
				out, err := cl.Raw().(*v1client.Client).GetItem(&v1ddb.GetItemInput{TableName: aws.String("tbl14"), Key: adapt.ItemToV1(miss)})
				if err != nil || out.Item == nil {
					return nil, nil, false
				}
				return out.Item, it, true
			}
			out, err := cl.Raw().(*v2client.Client).GetItem(ctx, &v2ddb.GetItemInput{TableName: v2aws.String("tbl14"), Key: adapt.ItemToV2(miss)})
			if err != nil || out.Item == nil {
				return nil, nil, false
			}
			return out.Item, it, true
		}},
		{"output/Query(no match).Items", func(ad string, cl adapt.Client, it val.Item) (interface{}, val.Item, bool) {
			miss := c14MissingKey()
			if ad == "v1" {
				out, err := cl.Raw().(*v1client.Client).Query(&v1ddb.QueryInput{TableName: aws.String("tbl14"), KeyConditionExpression: aws.String("h = :h"), ExpressionAttributeValues: adapt.ItemToV1(val.Item{":h": miss["h"]})})
				if err != nil {
					return nil, nil, false
				}
				return &out.Items, it, true
			}
			out, err := cl.Raw().(*v2client.Client).Query(ctx, &v2ddb.QueryInput{TableName: v2aws.String("tbl14"), KeyConditionExpression: v2aws.String("h = :h"), ExpressionAttributeValues: adapt.ItemToV2(val.Item{":h": miss["h"]})})
			if err != nil {
				return nil, nil, false
			}
			return &out.Items, it, true
		}},
		{"output/DeleteItem.Attributes(other key)", func(ad string, cl adapt.Client, it val.Item) (interface{}, val.Item, bool) {
			// the old image of a DELETED item is handed to the caller; the item that stays must not be reachable from it
			second := c14SecondKey()
			for k, v := range it {
				if _, isKey := c14Key[k]; !isKey {
					second[k] = v
				}
			}
			if cl.Do(adapt.Op{Kind: adapt.OpPut, Table: "tbl14", Item: second}).Class != adapt.ClsOK {
				return nil, nil, false
			}
			if ad == "v1" {
				out, err := cl.Raw().(*v1client.Client).DeleteItem(&v1ddb.DeleteItemInput{TableName: aws.String("tbl14"), Key: adapt.ItemToV1(c14SecondKey()), ReturnValues: aws.String("ALL_OLD")})
				if err != nil || out.Attributes == nil {
					return nil, nil, false
				}
				return out.Attributes, it, true
			}
			out, err := cl.Raw().(*v2client.Client).DeleteItem(ctx, &v2ddb.DeleteItemInput{TableName: v2aws.String("tbl14"), Key: adapt.ItemToV2(c14SecondKey()), ReturnValues: v2types.ReturnValueAllOld})
			if err != nil || out.Attributes == nil {
				return nil, nil, false
			}
			return out.Attributes, it, true
		}},
		{"output/BatchGetItem", func(ad string, cl adapt.Client, it val.Item) (interface{}, val.Item, bool) {
			if ad == "v1" {
				return nil, nil, false
			}
			out, err := cl.Raw().(*v2client.Client).BatchGetItem(ctx, &v2ddb.BatchGetItemInput{RequestItems: map[string]v2types.KeysAndAttributes{"tbl14": {Keys: []map[string]v2types.AttributeValue{adapt.ItemToV2(c14Key)}}}})
			if err != nil {
				return nil, nil, false
			}
			return out.Responses, it, true
		}},
		{"output/ConditionalCheckFailed.Item", func(ad string, cl adapt.Client, it val.Item) (interface{}, val.Item, bool) {
			if ad == "v1" {
				return nil, nil, false
			}
			_, err := cl.Raw().(*v2client.Client).UpdateItem(ctx, &v2ddb.UpdateItemInput{TableName: v2aws.String("tbl14"), Key: adapt.ItemToV2(c14Key), UpdateExpression: v2aws.String("SET touched = :t"),
				ConditionExpression: v2aws.String("attribute_not_exists(h)"), ExpressionAttributeValues: adapt.ItemToV2(val.Item{":t": val.Str("yes")}), ReturnValuesOnConditionCheckFailure: v2types.ReturnValuesOnConditionCheckFailureAllOld})
			var ccf *v2types.ConditionalCheckFailedException
			if !errors.As(err, &ccf) || ccf.Item == nil {
				return nil, nil, false
			}
			return ccf.Item, it, true
		}},
	}
	for _, rv := range []string{"ALL_OLD", "UPDATED_OLD", "ALL_NEW", "UPDATED_NEW"} {
		rv := rv
		outputs = append(outputs, struct {
			name string
			run  func(ad string, cl adapt.Client, it val.Item) (interface{}, val.Item, bool)
		}{"output/UpdateItem.Attributes(" + rv + ")", func(ad string, cl adapt.Client, it val.Item) (interface{}, val.Item, bool) {
			// whatever image the library returns for this ReturnValues setting (the replaced item, the new one, parts
			// of either): it is the caller's from now on
			exp := it.Clone()
			exp["touched"] = val.Str("yes")
			if ad == "v1" {
				out, err := cl.Raw().(*v1client.Client).UpdateItem(&v1ddb.UpdateItemInput{TableName: aws.String("tbl14"), Key: adapt.ItemToV1(c14Key), UpdateExpression: aws.String("SET touched = :t"), ExpressionAttributeValues: adapt.ItemToV1(val.Item{":t": val.Str("yes")}), ReturnValues: aws.String(rv)})
				if err != nil || out.Attributes == nil {
					return nil, nil, false
				}
				return out.Attributes, exp, true
			}
			out, err := cl.Raw().(*v2client.Client).UpdateItem(ctx, &v2ddb.UpdateItemInput{TableName: v2aws.String("tbl14"), Key: adapt.ItemToV2(c14Key), UpdateExpression: v2aws.String("SET touched = :t"), ExpressionAttributeValues: adapt.ItemToV2(val.Item{":t": val.Str("yes")}), ReturnValues: v2types.ReturnValue(rv)})
			if err != nil || out.Attributes == nil {
				return nil, nil, false
			}
			return out.Attributes, exp, true
		}})
	}
	for _, o := range outputs {
		o := o
		ops = append(ops, c14Op{o.name, func(ad string, cl adapt.Client, item val.Item) (interface{}, val.Item, bool) {
			it := withKey(item)
			if !put(cl, it) {
				return nil, nil, false
			}
			return o.run(ad, cl, it)
		}})
	}
	// a Query THROUGH AN INDEX (the key flavour that has a global index over "gsik"), and the same request repeated
	// after the caller edited the first result: a dashboard that polls one query gets fresh structures every time
	indexQuery := func(ad string, cl adapt.Client) interface{} {
		if ad == "v1" {
			out, err := cl.Raw().(*v1client.Client).Query(&v1ddb.QueryInput{TableName: aws.String("tbl14"), IndexName: aws.String("gsi1"), KeyConditionExpression: aws.String("gsik = :g"), ExpressionAttributeValues: adapt.ItemToV1(val.Item{":g": val.Str("ix")})})
			if err != nil || len(out.Items) == 0 {
				return nil
			}
			return out.Items
		}
		out, err := cl.Raw().(*v2client.Client).Query(ctx, &v2ddb.QueryInput{TableName: v2aws.String("tbl14"), IndexName: v2aws.String("gsi1"), KeyConditionExpression: v2aws.String("gsik = :g"), ExpressionAttributeValues: adapt.ItemToV2(val.Item{":g": val.Str("ix")})})
		if err != nil || len(out.Items) == 0 {
			return nil
		}
		return out.Items
	}
	c14Again["output/Query(index)"] = indexQuery
	ops = append(ops, c14Op{"output/Query(index)", func(ad string, cl adapt.Client, item val.Item) (interface{}, val.Item, bool) {
		it := withKey(item)
		it["gsik"] = val.Str("ix")
		if !put(cl, it) {
			return nil, nil, false
		}
		root := indexQuery(ad, cl)
		return root, it, root != nil
	}})
	return ops
}

var c14OpList = c14Ops()

func c14Items() []val.Item {
	out := []val.Item{
		{"s": val.Str("text"), "n": val.Num("12"), "b": val.Bin("bytes"), "t": val.Bool(true), "z": val.Null()},
		{"ss": val.SS("a", "b"), "ns": val.NS("1", "2"), "bs": val.BS("x", "yy")},
		{"l": val.List(val.Str("e0"), val.Num("1"), val.Bin("bb"), val.Bool(false), val.List(val.Str("deep"))), "m": val.Map(map[string]val.V{"k": val.Str("v"), "k2": val.Map(map[string]val.V{"kk": val.Bin("zz"), "s": val.SS("q")})})},
		{"m": val.Map(map[string]val.V{"l": val.List(val.Map(map[string]val.V{"x": val.Str("deepest"), "b": val.Bin("\x01\x02")}), val.NS("5"))})},
	}
	return out
}

var c14ItemList = c14Items()

func (p *c14) NumCases(tier string) int {
	n := (len(c14ItemList)*len(c14OpList)*2 + len(c14ItemList)*2) * len(c14Flavours)
	if tier == "thorough" {
		return n + 4000
	}
	return n + 1000
}

func readBack(cl adapt.Client) (val.Item, string) {
	g := cl.Do(adapt.Op{Kind: adapt.OpGet, Table: "tbl14", Key: c14Key})
	s := cl.Do(adapt.Op{Kind: adapt.OpScan, Table: "tbl14"})
	if g.Class != adapt.ClsOK || s.Class != adapt.ClsOK {
		return nil, "read failed: " + g.Class + "/" + s.Class + " " + g.Msg + s.Msg
	}
	if len(s.Items) != 1 || !val.ItemsEqual(s.Items[0], g.Item) {
		return g.Item, fmt.Sprintf("scan (%d items) and get disagree", len(s.Items))
	}
	// a key that was never written still has no item
	if m := cl.Do(adapt.Op{Kind: adapt.OpGet, Table: "tbl14", Key: c14MissingKey()}); m.Class != adapt.ClsOK || len(m.Item) != 0 {
		return g.Item, fmt.Sprintf("GetItem of a key that was never written returns (class %s) %s", m.Class, m.Item.Canon())
	}
	return g.Item, ""
}

func (p *c14) pokeAll(x *res, adapter string, op c14Op, item val.Item, ctx *runner.Ctx) {
	spec := c14Spec
	// first run to enumerate the locations
	cl0, _, _ := freshClient(adapter, spec)
	root0, _, ok := op.run(adapter, cl0, item)
	if !ok || root0 == nil {
		x.r.Counters["op_not_applicable"]++
		return
	}
	var locs0 []pokeLoc
	walkLocs(reflect.ValueOf(root0), "", &locs0, 0)
	pristine := ""
	if c14Again[op.name] != nil {
		pristine = normalizeAny(root0)
	}
	for li := range locs0 {
		cl, _, _ := freshClient(adapter, spec)
		root, expect, ok := op.run(adapter, cl, item)
		if !ok {
			continue
		}
		var locs []pokeLoc
		walkLocs(reflect.ValueOf(root), "", &locs, 0)
		if li >= len(locs) {
			continue
		}
		loc := locs[li]
		// map iteration order differs between runs: select by position in a sorted list
		ctx.Trace("%s %s poke %s", adapter, op.name, loc.path)
		wit := map[string]interface{}{"adapter": adapter, "operation": op.name, "item": item, "poked_location": loc.path}
		var panicked interface{}
		func() {
			defer func() { panicked = recover() }()
			loc.poke()
		}()
		if panicked != nil {
			x.r.Counters["poke_panicked"]++
			continue
		}
		x.r.Evals++
		x.r.Counters["pokes"]++
		x.fp(nestedPath(loc.path), "%s|%s|%s|%s", adapter, c14Spec.HashT+c14Spec.RangeT, op.name, pathKinds(loc.path))
		var got val.Item
		var problem string
		func() {
			defer func() {
				if r := recover(); r != nil {
					problem = fmt.Sprintf("read after poke panicked: %v", r)
				}
			}()
			got, problem = readBack(cl)
		}()
		if again := c14Again[op.name]; again != nil && problem == "" {
			if second := again(adapter, cl); second == nil || normalizeAny(second) != pristine {
				x.viol("output-shared", adapter+"/"+op.name+"/"+lastKind(loc.path)+"/same-request-again", fmt.Sprintf("[%s] after %s, changing %s of the returned structure changed what the SAME request returns when it is sent again (no write in between): %s, the first answer was %s", adapter, op.name, loc.path, normalizeAny(second), pristine), wit)
				continue
			}
			x.r.Counters["same_request_repeated_after_a_poke"]++
		}
		quirk := modelQuirkNames(got, expect)
		if problem == "" && (val.ItemsEqual(got, expect) || len(quirk) > 0) {
			continue
		}
		kind := "input-shared"
		if strings.HasPrefix(op.name, "output") {
			kind = "output-shared"
		}
		x.viol(kind, adapter+"/"+op.name+"/"+lastKind(loc.path), fmt.Sprintf("[%s] after %s, changing %s of the caller's structure changed the stored item: read %s, expected %s %s", adapter, op.name, loc.path, got.Canon(), expect.Canon(), problem), wit)
	}
}

// metadata: the same isolation for what a table IS rather than what it holds. The caller's CreateTableInput /
// UpdateTableInput (billing mode, key schema, attribute definitions, index projections: strings behind pointers
// in the SDK v1 structures) is scrambled location by location after the call, and so is a returned table
// description; the table must describe itself as before, still accept the index creation its billing mode
// allows and still accept an item of the declared key types.
func (p *c14) metadata(x *res, adapter string, ctx *runner.Ctx) {
	spec := adapt.TableSpec{Name: "tblmeta14", Hash: "h", Billing: "PAY_PER_REQUEST", Indexes: []adapt.IndexSpec{
		{Name: "gsi1", Hash: "g", Proj: "INCLUDE", NonKey: []string{"a", "b"}},
		{Name: "gsi2", Hash: "g", Range: "s", Proj: "KEYS_ONLY"}}}
	late := adapt.IndexSpec{Name: "late", Hash: "s", Proj: "INCLUDE", NonKey: []string{"c"}}
	type stage struct {
		name string
		run  func(cl adapt.Client) (interface{}, bool)
	}
	describe := func(cl adapt.Client) string {
		d := cl.Do(adapt.Op{Kind: adapt.OpDescribe, Table: spec.Name})
		b, _ := json.Marshal(d)
		// ... and EVERY field of the raw description the library returns (attribute definitions, billing, whatever a
		// later version reports), its lists compared as sets: the order of indexes in a description is not fixed
		raw := ""
		if adapter == "v1" {
			if out, err := cl.Raw().(*v1client.Client).DescribeTable(&v1ddb.DescribeTableInput{TableName: aws.String(spec.Name)}); err == nil {
				raw = unorderedString(reflect.ValueOf(out), 0)
			}
		} else if out, err := cl.Raw().(*v2client.Client).DescribeTable(context.Background(), &v2ddb.DescribeTableInput{TableName: v2aws.String(spec.Name)}); err == nil {
			raw = unorderedString(reflect.ValueOf(out.Table), 0)
		}
		return string(b) + "\n" + raw
	}
	stages := []stage{
		{"input/CreateTable", func(cl adapt.Client) (interface{}, bool) {
			if adapter == "v1" {
				in := adapt.V1CreateInput(&spec)
				_, err := cl.Raw().(*v1client.Client).CreateTable(in)
				return in, err == nil
			}
			in := adapt.V2CreateInput(&spec)
			_, err := cl.Raw().(*v2client.Client).CreateTable(context.Background(), in)
			return in, err == nil
		}},
		{"input/UpdateTable", func(cl adapt.Client) (interface{}, bool) {
			// the request names the billing mode the table has and creates an index without throughput
			if cl.Do(createOp(spec)).Class != adapt.ClsOK {
				return nil, false
			}
			uop := adapt.Op{Kind: adapt.OpUpdateTable, Table: spec.Name, Billing: "PAY_PER_REQUEST", NoThroughput: true,
				Chg: []adapt.IndexChange{{Create: &adapt.IndexSpec{Name: "upd", Hash: "u", Proj: "INCLUDE", NonKey: []string{"d"}}}}}
			if adapter == "v1" {
				in := adapt.V1UpdateInput(uop)
				_, err := cl.Raw().(*v1client.Client).UpdateTable(in)
				return in, err == nil
			}
			in := adapt.V2UpdateInput(uop)
			_, err := cl.Raw().(*v2client.Client).UpdateTable(context.Background(), in)
			return in, err == nil
		}},
		{"output/DescribeTable", func(cl adapt.Client) (interface{}, bool) {
			if cl.Do(createOp(spec)).Class != adapt.ClsOK {
				return nil, false
			}
			if adapter == "v1" {
				out, err := cl.Raw().(*v1client.Client).DescribeTable(&v1ddb.DescribeTableInput{TableName: aws.String(spec.Name)})
				return out, err == nil
			}
			out, err := cl.Raw().(*v2client.Client).DescribeTable(context.Background(), &v2ddb.DescribeTableInput{TableName: v2aws.String(spec.Name)})
			return out, err == nil
		}},
		{"output/CreateTable", func(cl adapt.Client) (interface{}, bool) {
			if adapter == "v1" {
				out, err := cl.Raw().(*v1client.Client).CreateTable(adapt.V1CreateInput(&spec))
				return out, err == nil
			}
			out, err := cl.Raw().(*v2client.Client).CreateTable(context.Background(), adapt.V2CreateInput(&spec))
			return out, err == nil
		}},
	}
	for _, st := range stages {
		cl0 := adapt.New(adapter)
		root0, ok := st.run(cl0)
		if !ok || root0 == nil {
			x.r.Counters["op_not_applicable"]++
			continue
		}
		want := describe(cl0)
		var locs0 []pokeLoc
		walkLocs(reflect.ValueOf(root0), "", &locs0, 0)
		for li := range locs0 {
			cl := adapt.New(adapter)
			root, ok := st.run(cl)
			if !ok {
				continue
			}
			var locs []pokeLoc
			walkLocs(reflect.ValueOf(root), "", &locs, 0)
			if li >= len(locs) {
				continue
			}
			loc := locs[li]
			ctx.Trace("%s %s poke %s", adapter, st.name, loc.path)
			var panicked interface{}
			func() {
				defer func() { panicked = recover() }()
				loc.poke()
			}()
			if panicked != nil {
				continue
			}
			x.r.Evals++
			x.r.Counters["metadata_pokes"]++
			x.fp(true, "%s|meta|%s|%s", adapter, st.name, pathKinds(loc.path))
			wit := map[string]interface{}{"adapter": adapter, "operation": st.name, "poked_location": loc.path}
			if got := describe(cl); got != want {
				x.viol("metadata-shared", adapter+"/"+st.name+"/"+lastKind(loc.path), fmt.Sprintf("[%s] after %s, changing %s of the caller's structure changed the table's description: %s, was %s", adapter, st.name, loc.path, got, want), wit)
				continue
			}
			// the table still behaves as declared: on-demand billing lets an index be created without throughput,
			// and an item with the declared key types is accepted and indexed
			l := late
			if o := cl.Do(adapt.Op{Kind: adapt.OpAddIndex, Table: spec.Name, Ix: &adapt.IndexSpec{Name: "late", Hash: "s"}}); o.Class != adapt.ClsOK {
				x.viol("metadata-shared", adapter+"/"+st.name+"/"+lastKind(loc.path)+"/addindex", fmt.Sprintf("[%s] after %s, changing %s of the caller's structure made a later index creation fail: %s %s", adapter, st.name, loc.path, o.Class, o.Msg), wit)
				continue
			}
			_ = l
			if o := cl.Do(adapt.Op{Kind: adapt.OpPut, Table: spec.Name, Item: val.Item{"h": val.Str("k"), "g": val.Str("x"), "s": val.Str("y")}}); o.Class != adapt.ClsOK {
				x.viol("metadata-shared", adapter+"/"+st.name+"/"+lastKind(loc.path)+"/put", fmt.Sprintf("[%s] after %s, changing %s of the caller's structure made a well-typed PutItem fail: %s %s", adapter, st.name, loc.path, o.Class, o.Msg), wit)
			}
		}
	}
}

func lastKind(p string) string {
	k := pathKinds(p)
	if i := strings.LastIndex(k, "/"); i >= 0 {
		return k[i+1:]
	}
	return k
}

// heldResults: R3 – results already returned must not change when the item is written later.
func (p *c14) heldResults(x *res, adapter string, item val.Item, ctx *runner.Ctx) {
	spec := c14Spec
	for _, op := range c14OpList {
		if !strings.HasPrefix(op.name, "output") {
			continue
		}
		for _, later := range []string{"overwrite", "update-in-place", "delete", "clear"} {
			cl, _, _ := freshClient(adapter, spec)
			root, _, ok := op.run(adapter, cl, item)
			if !ok || root == nil {
				continue
			}
			snap := fmt.Sprintf("%s", normalizeAny(root))
			switch later {
			case "overwrite":
				cl.Do(adapt.Op{Kind: adapt.OpPut, Table: "tbl14", Item: withKey(val.Item{"s": val.Str("other"), "l": val.List(val.Str("x"))})})
			case "update-in-place":
				for k, v := range item {
					switch v.K {
					case val.KN:
						cl.Do(mon.AddUpdate("tbl14", c14Key, k, val.Num("5")))
					case val.KSS:
						cl.Do(mon.AddUpdate("tbl14", c14Key, k, val.SS("added")))
					case val.KL:
						cl.Do(adapt.Op{Kind: adapt.OpUpdate, Table: "tbl14", Key: c14Key, Update: "REMOVE " + k + "[0]"})
					case val.KM:
						cl.Do(adapt.Op{Kind: adapt.OpUpdate, Table: "tbl14", Key: c14Key, Update: "SET " + k + ".injected = :v", Values: val.Item{":v": val.Str("x")}})
					default:
						cl.Do(mon.SetUpdate("tbl14", c14Key, k, val.Str("replaced")))
					}
				}
			case "delete":
				cl.Do(adapt.Op{Kind: adapt.OpDelete, Table: "tbl14", Key: c14Key})
			case "clear":
				cl.Do(adapt.Op{Kind: adapt.OpClearTable, Table: "tbl14"})
			}
			x.r.Evals++
			x.r.Counters["held_results_checked"]++
			x.fp(true, "held|%s|%s|%s|%s", adapter, c14Spec.HashT+c14Spec.RangeT, op.name, later)
			now := fmt.Sprintf("%s", normalizeAny(root))
			if now != snap {
				x.viol("held-result-changed", adapter+"/"+op.name+"/"+later, fmt.Sprintf("[%s] the structure returned by %s changed after a later %s: was %s, now %s", adapter, op.name, later, snap, now),
					map[string]interface{}{"adapter": adapter, "operation": op.name, "later": later, "item": item})
			}
		}
	}
}

// normalizeAny renders SDK structures (items, slices of items, maps of slices) canonically.
func normalizeAny(root interface{}) string {
	switch t := root.(type) {
	case map[string]*v1ddb.AttributeValue:
		return adapt.ItemFromV1(t).Canon()
	case map[string]v2types.AttributeValue:
		return adapt.ItemFromV2(t).Canon()
	case []map[string]*v1ddb.AttributeValue:
		parts := []string{}
		for _, m := range t {
			parts = append(parts, adapt.ItemFromV1(m).Canon())
		}
		return strings.Join(parts, ";")
	case []map[string]v2types.AttributeValue:
		parts := []string{}
		for _, m := range t {
			parts = append(parts, adapt.ItemFromV2(m).Canon())
		}
		return strings.Join(parts, ";")
	case map[string][]map[string]v2types.AttributeValue:
		parts := []string{}
		for k, ms := range t {
			for _, m := range ms {
				parts = append(parts, k+":"+adapt.ItemFromV2(m).Canon())
			}
		}
		return strings.Join(parts, ";")
	}
	return fmt.Sprintf("%T", root)
}

func (p *c14) RunCase(ctx *runner.Ctx) runner.CaseResult {
	x := newRes()
	ni, no := len(c14ItemList), len(c14OpList)
	c := ctx.Case
	nf := len(c14Flavours)
	fixed := (ni*no*2 + ni*2) * nf
	fl := ""
	if c < fixed {
		fl = setFlavour(c % nf)
		c = c / nf
	} else {
		fl = setFlavour(c)
		c = c - fixed + ni*no*2 + ni*2
	}
	x.set("key_flavours", fl)
	switch {
	case c < ni*no*2:
		adapter := adapt.Adapters[c%2]
		op := c14OpList[(c/2)%no]
		item := c14ItemList[c/2/no]
		p.pokeAll(x, adapter, op, item, ctx)
		if c%11 == 0 {
			x.r.Sample = map[string]interface{}{"adapter": adapter, "operation": op.name, "item": item}
		}
	case c < ni*no*2+ni*2:
		k := c - ni*no*2
		p.heldResults(x, adapt.Adapters[k%2], c14ItemList[k/2], ctx)
		if k/2 == 0 {
			p.metadata(x, adapt.Adapters[k%2], ctx)
			p.inputsUntouched(x, adapt.Adapters[k%2])
			p.nativeCallbacks(x, adapt.Adapters[k%2])
		}
	default:
		idx := c - ni*no*2 - ni*2
		r := mon.Rng(ctx.Seed, "C14", idx)
		item := val.Item{}
		n := 1 + r.Intn(4)
		for i := 0; i < n; i++ {
			item[fmt.Sprintf("a%d", i)] = mon.Value(r, 3, mon.GenOpts{MaxDepth: 3, NoEmptyLM: true})
		}
		op := c14OpList[r.Intn(no)]
		p.pokeAll(x, adapt.Adapters[idx%2], op, item, ctx)
		if idx%4 == 0 {
			p.heldResults(x, adapt.Adapters[idx%2], item, ctx)
		}
	}
	return x.r
}
