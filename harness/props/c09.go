package props

import (
	"fmt"
	"math/rand"
	"runtime"
	"strings"
	"time"

	"verifharness/adapt"
	"verifharness/mon"
	"verifharness/refmodel"
	"verifharness/runner"
	"verifharness/val"
)

// C09 – the expression front end is total and strict.
type c09 struct{ base }

func init() {
	runner.Register(&c09{base{id: "C09", level: "exploration",
		rule:        "strings derived from valid condition and update sentences (generated ASTs rendered to text): every token-boundary prefix, every single-token deletion / duplication / adjacent swap, insertions from a vocabulary (keywords in three letter cases, comparators, ( ) [ ] . , + -, placeholders, names), juxtapositions 's1 s2', trailing tokens, unbalanced parentheses; byte level: random bytes incl. NUL, UTF-8 multibyte, control characters, lengths {0,1,2,3..64,255,256,1023,4095,4096}, whitespace-only, '((((...' and 'NOT NOT ...' nests up to 4 KB; hostile bindings (alias cycles, aliases containing '.'). Each string is evaluated with interpreter.Language.Match / Update in a worker process (a fatal error kills only the worker; a watchdog bounds run time) and a sample through PutItem/UpdateItem/Scan on both adapters. Oracle: runtime panic / fatal error never admissible; a string the LIBERAL recogniser (superset grammar, case-insensitive keywords) rejects must be rejected; a sentence must be rejected or evaluate to the value of the WHOLE sentence; at the client API a rejection must surface as an error or the documented panic. non-trivial = non-empty; distinct by (grammar, token-kind sequence). Every direct evaluation runs under a termination guard (two minutes; normal is microseconds): an evaluation that does not return while its goroutine is inside the interpreter is reported once (does-not-return), the worker skips and counts its remaining cases; hostile list positions (negative, fractional, huge, not a number) also where an element is READ.",
		assumptions: append([]string{"'not a sentence' is only claimed for strings outside a deliberately liberal superset grammar"}, commonAssumptions...)}})
}

var c09Vocab = []string{"AND", "and", "And", "OR", "or", "NOT", "not", "BETWEEN", "between", "IN", "in", "SET", "set", "REMOVE", "remove", "ADD", "add", "DELETE", "delete",
	"=", "<>", "<", "<=", ">", ">=", "(", ")", "[", "]", ".", ",", "+", "-", ":v1", ":zz", "#a", "a", "b", "size", "attribute_exists", "if_not_exists", "list_append", "0", "1",
	// character runs that are neither a name, a placeholder nor a list position
	"a:b", "1a", "a#b", "#", ":", "::v1", "b:", "9lives", "#a#a", ":v1:v1", "a:v1", "#:"}

func tokenize(s string) []string {
	out := []string{}
	i := 0
	isID := func(c byte) bool {
		return (c >= 'a' && c <= 'z') || (c >= 'A' && c <= 'Z') || (c >= '0' && c <= '9') || c == '_' || c == '#' || c == ':'
	}
	for i < len(s) {
		c := s[i]
		switch {
		case c == ' ' || c == '\t' || c == '\n' || c == '\r':
			i++
		case isID(c):
			j := i
			for j < len(s) && isID(s[j]) {
				j++
			}
			out = append(out, s[i:j])
			i = j
		case (c == '<' || c == '>') && i+1 < len(s) && (s[i+1] == '=' || (c == '<' && s[i+1] == '>')):
			out = append(out, s[i:i+2])
			i += 2
		default:
			out = append(out, string(c))
			i++
		}
	}
	return out
}

func tokenKinds(toks []string) string {
	var sb strings.Builder
	for _, t := range toks {
		switch {
		case refmodelIsKw(t):
			sb.WriteString(strings.ToUpper(t)[:1])
			if t != strings.ToUpper(t) {
				sb.WriteString("~")
			}
		case strings.HasPrefix(t, ":"):
			sb.WriteString("v")
		case strings.HasPrefix(t, "#"):
			sb.WriteString("#")
		case len(t) > 0 && ((t[0] >= 'a' && t[0] <= 'z') || (t[0] >= 'A' && t[0] <= 'Z') || (t[0] >= '0' && t[0] <= '9') || t[0] == '_'):
			sb.WriteString("n")
		default:
			sb.WriteString(t)
		}
	}
	return sb.String()
}

func refmodelIsKw(t string) bool {
	switch strings.ToUpper(t) {
	case "AND", "OR", "NOT", "BETWEEN", "IN", "SET", "REMOVE", "ADD", "DELETE":
		return true
	}
	return false
}

type c09Str struct {
	s    string
	kind string // how it was derived
}

func mutations(r *rand.Rand, toks []string, all bool) []c09Str {
	out := []c09Str{}
	join := func(ts []string) string { return strings.Join(ts, " ") }
	n := len(toks)
	for i := 0; i <= n; i++ {
		if all || r.Intn(3) == 0 {
			out = append(out, c09Str{join(toks[:i]), "prefix"})
		}
	}
	for i := 0; i < n; i++ {
		if all || r.Intn(3) == 0 {
			d := append(append([]string{}, toks[:i]...), toks[i+1:]...)
			out = append(out, c09Str{join(d), "delete"})
			dup := append(append(append([]string{}, toks[:i+1]...), toks[i]), toks[i+1:]...)
			out = append(out, c09Str{join(dup), "duplicate"})
		}
		if i+1 < n && (all || r.Intn(3) == 0) {
			sw := append([]string{}, toks...)
			sw[i], sw[i+1] = sw[i+1], sw[i]
			out = append(out, c09Str{join(sw), "swap"})
		}
		if (all || r.Intn(3) == 0) && len(toks[i]) > 0 && (toks[i][0] == '#' || toks[i][0] == ':' || toks[i][0] == '_' || (toks[i][0]|0x20 >= 'a' && toks[i][0]|0x20 <= 'z')) {
			// one token in parentheses of its own: fine around an operand, not around the name of a function, a clause
			// keyword or the target of an update action
			w := append(append(append(append([]string{}, toks[:i]...), "(", toks[i], ")"), toks[i+1:]...))
			out = append(out, c09Str{join(w), "paren-wrap"})
		}
		if all || r.Intn(4) == 0 {
			v := mon.Pick(r, c09Vocab)
			ins := append(append(append([]string{}, toks[:i]...), v), toks[i:]...)
			out = append(out, c09Str{join(ins), "insert"})
			rep := append([]string{}, toks...)
			rep[i] = mon.Pick(r, c09Vocab)
			out = append(out, c09Str{join(rep), "replace"})
		}
	}
	// letter case of keywords
	lc := append([]string{}, toks...)
	changed := false
	for i, t := range lc {
		if refmodelIsKw(t) {
			lc[i] = strings.ToLower(t)
			changed = true
		}
	}
	if changed {
		out = append(out, c09Str{join(lc), "lowercase-keywords"})
	}
	out = append(out, c09Str{join(toks) + " " + mon.Pick(r, c09Vocab), "trailing"})
	out = append(out, c09Str{"(" + join(toks), "unbalanced"})
	out = append(out, c09Str{join(toks) + ")", "unbalanced"})
	out = append(out, c09Str{join(toks) + "\x00" + " garbage )(", "nul-then-garbage"})
	out = append(out, c09Str{join(toks) + " \x00", "trailing-nul"})
	return out
}

// c09Invisibles are character sequences that look like nothing: none of them is a character of the expression language
var c09Invisibles = []string{"\xef\xbb\xbf", "\xef\xbb", "\ufeff ", "\u200b", "\u00a0", "\x00", "\u00ad", "\xff\xfe", "\u2060", "\x1b[0m"}

var c09Lengths = []int{0, 1, 2, 3, 4, 5, 8, 13, 16, 31, 32, 33, 63, 64, 255, 256, 1023, 4095, 4096}

func byteStrings(r *rand.Rand) []c09Str {
	out := []c09Str{}
	alph := []string{" ", "\t", "\n", "\x00", "\x01", "\x7f", "\xff", "\xc3\xa9", "\xe6\x97\xa5", "a", "A", "1", "_", ":", "#", "=", "<", ">", "(", ")", "[", "]", ".", ",", "+", "-", "\"", "'", "{", "}", "!", "*", "/", "\\", "|", "&", "%", "$", "@", "?", ";", "~", "`", "^"}
	for _, n := range c09Lengths {
		var sb strings.Builder
		for sb.Len() < n {
			sb.WriteString(mon.Pick(r, alph))
		}
		s := sb.String()
		if len(s) > n {
			s = s[:n]
		}
		out = append(out, c09Str{s, "random-bytes"})
		out = append(out, c09Str{strings.Repeat(mon.Pick(r, []string{" ", "\t", "\n", " \r\n"}), n), "whitespace"})
	}
	for _, n := range []int{1, 10, 100, 1000, 2040} {
		out = append(out, c09Str{strings.Repeat("(", n) + "a = :v1" + strings.Repeat(")", n), "deep-parens"})
		out = append(out, c09Str{strings.Repeat("(", n) + "a = :v1", "deep-parens-open"})
		if 4*n+8 <= 4096 {
			out = append(out, c09Str{strings.Repeat("NOT ", n) + "a = :v1", "deep-not"})
		}
		out = append(out, c09Str{"a" + strings.Repeat(".a", n), "deep-path"})
		out = append(out, c09Str{"a" + strings.Repeat("[0]", n) + " = :v1", "deep-index"})
		out = append(out, c09Str{strings.Repeat("size(", n) + "a" + strings.Repeat(")", n) + " = :v1", "deep-call"})
		out = append(out, c09Str{"a = :v1" + strings.Repeat(" AND a = :v1", n/4), "long-and"})
		out = append(out, c09Str{"SET a = :v1" + strings.Repeat(" + :v1", n/2), "long-sum"})
	}
	return out
}

// scaledSentences are VALID but large sentences (and the values they need): IN lists of 33-100 operands whose
// members have other types than the subject, chains of 100 conjuncts, 100 update actions, sets and lists of 100
// members, 1 KB operands. They must evaluate or be refused with an error like any other sentence - size thresholds
// inside the front end must not turn into runtime faults.
func scaledSentences() (conds []c09Str, cvals val.Item, upds []c09Str, uvals val.Item) {
	cvals, uvals = val.Item{}, val.Item{}
	odd := []val.V{val.Str("x"), val.Num("7"), val.Bin("x"), val.Bool(true), val.Null(), val.SS("x"), val.List(val.Str("x")), val.Map(map[string]val.V{"x": val.Str("y")}), val.NS("2")}
	for i := 0; i < 100; i++ {
		cvals[fmt.Sprintf(":m%d", i)] = odd[i%len(odd)]
		cvals[fmt.Sprintf(":s%d", i)] = val.Str(fmt.Sprintf("s%d", i))
		cvals[fmt.Sprintf(":n%d", i)] = val.Num(fmt.Sprint(i + 10))
	}
	cvals[":long"] = val.Str(strings.Repeat("x", 1024))
	cvals[":v1"] = val.Str("x")
	list := func(prefix string, n int) string {
		parts := []string{}
		for i := 0; i < n; i++ {
			parts = append(parts, fmt.Sprintf(":%s%d", prefix, i))
		}
		return strings.Join(parts, ", ")
	}
	for _, n := range []int{17, 33, 34, 64, 65, 100} {
		for _, subj := range []string{"a", "b", "c", "d", "e", "f", "nope", "c[1]", "d.x", "size(a)"} {
			for _, pre := range []string{"m", "s", "n"} {
				conds = append(conds, c09Str{fmt.Sprintf("%s IN (%s)", subj, list(pre, n)), "scaled-in"})
			}
			conds = append(conds, c09Str{fmt.Sprintf("%s IN (%s, nope, c, b)", subj, list("m", n-3)), "scaled-in"})
			conds = append(conds, c09Str{fmt.Sprintf("NOT %s IN (%s)", subj, list("m", n)), "scaled-in"})
		}
		parts := []string{}
		for i := 0; i < n; i++ {
			parts = append(parts, fmt.Sprintf("%s <> :m%d", []string{"a", "b", "c", "nope", "d.x"}[i%5], i))
		}
		conds = append(conds, c09Str{strings.Join(parts, " AND "), "scaled-chain"}, c09Str{strings.Join(parts, " OR "), "scaled-chain"})
	}
	for _, fn := range []string{"begins_with(a, :long)", "contains(a, :long)", "a = :long", "a < :long", "a BETWEEN :v1 AND :long", "contains(:long, a)", "begins_with(:long, :v1)"} {
		conds = append(conds, c09Str{fn, "scaled-operand"})
	}
	// a function that yields a condition (every function but size) standing where an OPERAND is expected: as an
	// operand of a comparator, BETWEEN or IN, or as an argument of another function. ":m3" is BOOL true, so a
	// liberal evaluator finds the comparison well-typed and answers instead of refusing
	for _, c := range []string{"attribute_exists(a) = :m3", ":m3 = attribute_exists(a)", "begins_with(a, :v1) = :m3", "attribute_not_exists(nope) = attribute_exists(a)", "attribute_exists(a) <> f",
		"attribute_exists(a) IN (:m3)", "f IN (attribute_exists(a), :m3)", "f IN (:m3, contains(a, :v1))", "attribute_type(a, :s1) = f", "attribute_exists(attribute_exists(a))", "attribute_not_exists(begins_with(a, :v1))",
		"contains(c, attribute_exists(a))", "begins_with(contains(a, :v1), :v1)", "a BETWEEN attribute_exists(a) AND :v1", "f BETWEEN :m3 AND contains(a, :v1)", "contains(a, :v1) BETWEEN :m3 AND :m3",
		"(attribute_exists(a)) = :m3", "NOT attribute_exists(a) = :m3", "size(attribute_exists(a)) > :n1", "f = attribute_exists(a) AND a = :v1", "a = :v1 OR attribute_exists(a) <> f",
		"attribute_exists(a) = :m3 AND attribute_exists(nope)", "attribute_type(f, attribute_exists(a))",
		// ... and the other way round: size() yields a number, it is no condition - alone, under NOT, as an operand of AND / OR,
		// whether or not the attribute it measures exists
		"size(a)", "size(nope)", "NOT size(a)", "size(a) AND size(c)", "NOT (size(nope) AND size(nope2))", "size(nope) OR size(nope2)", "a = :v1 AND size(a)", "size(c) OR a = :v1", "(size(a))"} {
		conds = append(conds, c09Str{c, "function-as-operand"})
	}
	big := []string{}
	bigL := []val.V{}
	for i := 0; i < 100; i++ {
		big = append(big, fmt.Sprintf("member%d", i))
		bigL = append(bigL, val.Str(fmt.Sprintf("elem%d", i)))
		uvals[fmt.Sprintf(":u%d", i)] = odd[i%len(odd)]
	}
	uvals[":bigset"] = val.V{K: val.KSS, Set: big}
	uvals[":biglist"] = val.V{K: val.KL, L: bigL}
	uvals[":one"] = val.Num("1")
	for _, n := range []int{17, 33, 65, 100} {
		sets, rems, adds := []string{}, []string{}, []string{}
		for i := 0; i < n; i++ {
			sets = append(sets, fmt.Sprintf("attr%d = :u%d", i, i))
			rems = append(rems, fmt.Sprintf("l[%d]", n-1-i))
			adds = append(adds, fmt.Sprintf("cnt%d :one", i))
		}
		upds = append(upds, c09Str{"SET " + strings.Join(sets, ", "), "scaled-update"}, c09Str{"REMOVE " + strings.Join(rems, ", "), "scaled-update"}, c09Str{"ADD " + strings.Join(adds, ", "), "scaled-update"},
			c09Str{"SET " + strings.Join(sets, ", ") + " REMOVE " + strings.Join(rems[:5], ", ") + " ADD " + strings.Join(adds[:5], ", "), "scaled-update"})
	}
	// ADD and DELETE through document paths (DynamoDB allows them on top-level attributes only: refusing is fine,
	// performing or ignoring them is tolerated here - crashing is not): every path shape of the base item that ends
	// in a number, a set, a set stored INSIDE a list or a map, with operands that add to, shrink or EMPTY the set
	uvals[":five"] = val.Num("5")
	uvals[":ssa"] = val.SS("a")
	uvals[":ssall"] = val.SS("a", "b", "c")
	uvals[":ns9"] = val.NS("9007199254740993")
	uvals[":nsall"] = val.NS("9007199254740993", "1152921504606846977")
	uvals[":nsdec"] = val.NS("0.1000000000000000000000000001")
	for _, act := range []string{"ADD", "DELETE"} {
		for _, pth := range []string{"m.k.y", "l[1]", "l[2][0]", "zbigl[1]", "zbigm.s", "zbigm.id", "zbigl[0]", "m.newset", "l[9]", "nope.x", "ss", "l[3].q"} {
			for _, v := range []string{":five", ":ssa", ":ssall", ":ns9", ":nsall", ":nsdec"} {
				upds = append(upds, c09Str{fmt.Sprintf("%s %s %s", act, pth, v), "path-add-delete"})
			}
		}
		upds = append(upds, c09Str{act + " zbigl[1] :nsdec, ss :ssall", "path-add-delete"}, c09Str{"SET s = :five " + act + " zbigm.s :ns9", "path-add-delete"})
	}
	// list positions that are hostile or that several actions of one expression compete for: an index taken from a
	// placeholder or an attribute (negative, fractional, huge, not a number), the same element removed more often
	// than the list is long, a removed element's list read, copied, added or assigned to by a later clause
	uvals[":neg"] = val.Num("-1")
	uvals[":frac"] = val.Num("1.5")
	uvals[":huge"] = val.Num("99999999999999999999")
	uvals[":str"] = val.Str("x")
	for _, u := range []string{"SET l[:neg] = :one", "REMOVE l[:neg]", "SET l[:frac] = :one", "REMOVE l[:frac]", "SET l[:huge] = :one", "REMOVE l[:huge]", "SET l[:str] = :one", "SET l[n] = :one", "REMOVE l[n]",
		"SET l[-1] = :one", "REMOVE l[-1]", "SET l[1][:neg] = :one", "SET m.li[:neg] = :one",
		"REMOVE l[0], l[0]", "REMOVE l2[0], l2[0]", "REMOVE l2[0], l2[0], l2[0]", "REMOVE l2[0], l2[1]", "REMOVE l[2][0], l[2][0], l[2][1], l[2][1]", "REMOVE l[3], l[3], l[3], l[3], l[3]",
		"REMOVE l[0] ADD l2 l", "REMOVE l[0] ADD ss l", "REMOVE l[1], l[1] SET cp = l", "REMOVE l[0] SET cp = l[0]", "REMOVE l2[0] SET l2[0] = :one", "REMOVE l2[0] SET l2[3] = :one", "REMOVE l[0] SET l[3] = :one",
		"SET l[1] = :one REMOVE l[1]", "SET l2[5] = :one, l2[4] = :five", "SET l2[1] = :one, l2[1] = :five", "REMOVE l2[0] SET cp = list_append(l2, l2)", "REMOVE lnul[0], lnul[2] SET cp = lnul",
		"REMOVE l[2][0] SET l[2] = l[2]", "REMOVE l[0] DELETE ss l",
		// ... and the hostile position where an element is READ, not written
		"SET cp = l[:neg]", "SET cp = l[:frac]", "SET cp = l[:huge]", "SET cp = l[:str]", "SET cp = l[n]", "SET cp = l[:neg].k", "SET cp = l[1][:neg]", "SET cp = if_not_exists(l[:neg], :one)",
		"SET cp = list_append(l[:neg], l)", "SET cp = l[:neg] + :one", "ADD n l[:neg]", "SET cp = m.li[:neg]", "SET cp = l[-1]"} {
		upds = append(upds, c09Str{u, "hostile-list-position"})
	}
	cvals[":neg"] = val.Num("-1")
	cvals[":frac"] = val.Num("1.5")
	cvals[":huge"] = val.Num("99999999999999999999")
	for _, c := range []string{"c[:neg] = :v1", "c[:frac] = :v1", "c[:huge] = :v1", "c[:v1] = :v1", "c[b] = :v1", "c[-1] = :v1", "attribute_exists(c[:neg])", "attribute_not_exists(c[:neg])", "size(c[:neg]) > :n1",
		"c[:neg] IN (:v1, :n1)", "c[:neg] BETWEEN :s1 AND :s2", "contains(c[:neg], :v1)", "begins_with(c[:neg], :v1)", "attribute_type(c[:neg], :v1)", "a = c[:neg]", "c[:neg].x = :v1", "c[1][:neg] = :v1",
		"d.x[:neg] = :v1", "NOT c[:neg] = :v1", "a = :v1 OR c[:neg] = :v1"} {
		conds = append(conds, c09Str{c, "hostile-list-position"})
	}
	// update expressions that are refused for what they ARE, whatever the item holds: a function with the wrong number of
	// operands, a function of the condition language, something that is no path as the target of an action. Behind a
	// condition that is false they are refused all the same (checkUpdate sends them that way too)
	for _, u := range []string{"SET a = if_not_exists(a, :one, :one)", "SET a = if_not_exists(a)", "SET l = list_append(l)", "SET l = list_append(l, :biglist, :biglist)", "SET a = size(l)",
		"SET a = attribute_exists(l)", "SET a = contains(l, :one)", "SET a = begins_with(s, :str)", "SET a + a = :one", "SET size(a) = :one", "SET if_not_exists(a, :one) = :one", "REMOVE size(a)",
		"REMOVE a + a", "ADD size(a) :one", "SET a = :one REMOVE if_not_exists(a, :one)", "SET a = nosuchfunction(a)", "SET a = if_not_exists(a, list_append(l))",
		// the operand of ADD / DELETE is a value - nothing that is computed
		"ADD n :one + :one", "ADD n :one - n", "ADD n if_not_exists(nope, :one)", "ADD n m.k.y", "DELETE ss list_append(l, l)", "ADD n n + :one SET s = :str", "DELETE ss if_not_exists(nope, :ssa)"} {
		upds = append(upds, c09Str{u, "static-update-defect"})
	}
	upds = append(upds, c09Str{"ADD ss :bigset", "scaled-update"}, c09Str{"DELETE ss :bigset", "scaled-update"}, c09Str{"SET l = list_append(l, :biglist)", "scaled-update"},
		c09Str{"SET l = list_append(:biglist, l)", "scaled-update"}, c09Str{"SET nu = :biglist", "scaled-update"}, c09Str{"SET l[150] = :one", "scaled-update"}, c09Str{"REMOVE l[150]", "scaled-update"},
		c09Str{"SET nu = if_not_exists(nope, :biglist)", "scaled-update"})
	return
}

func (p *c09) NumCases(tier string) int {
	if tier == "thorough" {
		return 8000
	}
	return 800
}

var c09Item = val.Item{"a": val.Str("x"), "b": val.Num("2"), "c": val.List(val.Str("p"), val.Num("1")), "d": val.Map(map[string]val.V{"x": val.Str("y")}), "e": val.SS("s1", "s2"), "f": val.Bool(true)}

func (p *c09) checkCond(x *res, s c09Str, names map[string]string, values val.Item, viaClient bool, ctx *runner.Ctx) {
	ctx.Trace("cond %q names=%v", s.s, names)
	if c09Stuck {
		x.r.Counters["skipped_after_an_evaluation_that_did_not_return"]++
		return
	}
	var got refmodel.Res
	var msg, site string
	if !p.returns(x, "condition", s, names, values, func() { got, msg, site, _ = matchDirect(s.s, names, c09Item, values) }) {
		return
	}
	x.r.Evals++
	toks := tokenize(s.s)
	x.fp(len(s.s) > 0, "cond|%s", tokenKinds(toks))
	x.set("derivations", s.kind)
	x.set("outcomes:cond", outcomeName(got))
	sentence, ast, _ := refmodel.RecognizeCond(s.s, names)
	wit := map[string]interface{}{"grammar": "condition", "expression": s.s, "derived_by": s.kind, "names": names, "values": values, "item": c09Item, "got": outcomeName(got), "msg": msg, "sentence": sentence}
	switch {
	case got == 0:
		x.viol("runtime-panic", site, fmt.Sprintf("condition %q: runtime panic at %s: %s", s.s, site, msg), wit)
		return
	case got != refmodel.R && !sentence:
		x.viol("accepts-non-sentence", "condition", fmt.Sprintf("condition %q (%s) is not a sentence of the grammar but evaluated to %s", s.s, s.kind, outcomeName(got)), wit)
	case got != refmodel.R && sentence && ast != nil && astBound(ast, values) && s.kind != "hostile-alias":
		want := ast.Eval(c09Item, values)
		if want.Definite() && got != want {
			x.viol("partial-evaluation", "condition", fmt.Sprintf("condition %q (%s) evaluated to %s; the whole sentence evaluates to %s", s.s, s.kind, outcomeName(got), want), wit)
		}
	}
	if viaClient {
		// the debug mode of the interpreter (Client.ActivateDebug) only reports: same verdict, no fault - whatever
		// the parser made of the string
		inDebugMode(func() {
			dgot, dmsg, dsite, _ := matchDirect(s.s, names, c09Item, values)
			x.r.Evals++
			x.r.Counters["debug_mode_replays"]++
			if dgot == 0 {
				x.viol("runtime-panic", "debug-mode/"+dsite, fmt.Sprintf("condition %q in debug mode: runtime panic at %s: %s (without debug mode: %s)", s.s, dsite, dmsg, outcomeName(got)), wit)
			} else if dgot != got {
				x.viol("debug-mode-changes-verdict", "condition", fmt.Sprintf("condition %q evaluates to %s, in debug mode to %s", s.s, outcomeName(got), outcomeName(dgot)), wit)
			}
		})
		p.condViaClient(x, s, names, values, got, sentence, ctx)
	}
}

// c09Stuck: an evaluation of this worker process did not return; its goroutine is still spinning. The violation is
// reported once, the rest of the worker's cases are skipped (and counted) instead of hanging one after the other.
var c09Stuck bool

// c09ReturnWait is how long one evaluation may take before it counts as not returning. The slowest legitimate
// evaluation of the workload (2040 nested parentheses) takes a few milliseconds; two minutes leave five orders of
// magnitude for a loaded machine.
const c09ReturnWait = 2 * time.Minute

// returns runs one evaluation of the front end and waits for it. "Terminates" is judged generously: evaluations take
// microseconds (the 4 KB extremes under a second); one that has not come back after two minutes while its goroutine
// is inside the interpreter is reported as non-termination. If the goroutine dump does not show it there (a starved
// machine), the case is inconclusive, not a violation.
func (p *c09) returns(x *res, grammar string, s c09Str, names map[string]string, values val.Item, f func()) bool {
	done := make(chan struct{})
	go func() {
		defer close(done)
		f()
	}()
	select {
	case <-done:
		return true
	case <-time.After(c09ReturnWait):
	}
	c09Stuck = true
	buf := make([]byte, 1<<20)
	dump := string(buf[:runtime.Stack(buf, true)])
	if !strings.Contains(dump, "minidyn/interpreter") {
		x.r.Inconclusive++
		x.set("inconclusive", "an evaluation did not return within two minutes and is not inside the interpreter")
		return false
	}
	x.viol("does-not-return", grammar, fmt.Sprintf("%s %q (%s): the evaluation has not returned after two minutes (normal: microseconds to milliseconds); its goroutine is inside the interpreter", grammar, s.s, s.kind),
		map[string]interface{}{"grammar": grammar, "expression": s.s, "derived_by": s.kind, "names": names, "values": values})
	return false
}

// astBound reports whether every placeholder the AST uses is supplied and resolved.
func astBound(c *refmodel.Cond, values val.Item) bool {
	for _, v := range c.ValueNames() {
		if _, ok := values[v]; !ok {
			return false
		}
	}
	for _, pth := range c.Paths() {
		for _, el := range pth {
			if el.Name == "\x00unresolved" {
				return false
			}
		}
	}
	return true
}

func usedPlaceholders(s string, names map[string]string, values val.Item) (map[string]string, val.Item) {
	toks := map[string]bool{}
	for _, t := range tokenize(s) {
		toks[t] = true
	}
	n2 := map[string]string{}
	for k, v := range names {
		if toks[k] {
			n2[k] = v
		}
	}
	v2 := val.Item{}
	for k, v := range values {
		if toks[k] {
			v2[k] = v
		}
	}
	if len(n2) == 0 {
		n2 = nil
	}
	if len(v2) == 0 {
		v2 = nil
	}
	return n2, v2
}

func (p *c09) condViaClient(x *res, s c09Str, names map[string]string, values val.Item, direct refmodel.Res, sentence bool, ctx *runner.Ctx) {
	for _, adapter := range adapt.Adapters {
		spec := mon.SpecHashOnly("tbl09")
		cl, _, ds := freshClient(adapter, spec)
		if ds != nil {
			return
		}
		it := c09Item.Clone()
		it["h"] = val.Str("k")
		cl.Do(adapt.Op{Kind: adapt.OpPut, Table: spec.Name, Item: it})
		n2, v2 := usedPlaceholders(s.s, names, values)
		it2 := it.Clone()
		it2["marker"] = val.Str("written")
		put := cl.Do(adapt.Op{Kind: adapt.OpPut, Table: spec.Name, Item: it2, Cond: s.s, Names: n2, Values: v2})
		scan := cl.Do(adapt.Op{Kind: adapt.OpScan, Table: spec.Name, Filter: s.s, Names: n2, Values: v2})
		// the same filter where NO item reaches the evaluator: a table without items, and a Query of a partition
		// that was never written - whether a request is rejected cannot depend on the stored data
		empty := mon.SpecHashOnly("tbl09e")
		cl.Do(createOp(empty))
		scanEmpty := cl.Do(adapt.Op{Kind: adapt.OpScan, Table: empty.Name, Filter: s.s, Names: n2, Values: v2})
		qv := val.Item{":c09hq": val.Str("never-written")}
		for k, v := range v2 {
			qv[k] = v
		}
		queryEmpty := cl.Do(adapt.Op{Kind: adapt.OpQuery, Table: spec.Name, KeyCnd: "h = :c09hq", Filter: s.s, Names: n2, Values: qv})
		// ... and the continuation of a paginated read whose start key names the LAST item: nothing is left to evaluate
		scanAfterLast := cl.Do(adapt.Op{Kind: adapt.OpScan, Table: spec.Name, Filter: s.s, Names: n2, Values: v2, Start: val.Item{"h": val.Str("k")}})
		x.r.Evals += 5
		x.r.Counters["client_replays"]++
		x.set("client-classes", put.Class)
		wit := map[string]interface{}{"adapter": adapter, "expression": s.s, "derived_by": s.kind, "names": n2, "values": v2, "put": put, "scan": scan, "scan_empty_table": scanEmpty, "query_empty_partition": queryEmpty}
		if strings.Trim(s.s, " \t\r\n") == "" {
			// an expression that is GIVEN but empty or blank is not "no condition": it is refused - by every write,
			// whether the item exists or not - and changes nothing
			before := cl.Do(adapt.Op{Kind: adapt.OpGet, Table: spec.Name, Key: val.Item{"h": val.Str("k")}})
			for wi, w := range []adapt.Op{
				{Kind: adapt.OpPut, Table: spec.Name, Item: it2, Cond: s.s, CondSet: true},
				{Kind: adapt.OpDelete, Table: spec.Name, Key: val.Item{"h": val.Str("k")}, Cond: s.s, CondSet: true},
				{Kind: adapt.OpUpdate, Table: spec.Name, Key: val.Item{"h": val.Str("k")}, Update: "SET marker = :m", Values: val.Item{":m": val.Str("updated")}, Cond: s.s, CondSet: true},
				{Kind: adapt.OpPut, Table: spec.Name, Item: val.Item{"h": val.Str("absent"), "marker": val.Str("written")}, Cond: s.s, CondSet: true},
				{Kind: adapt.OpDelete, Table: spec.Name, Key: val.Item{"h": val.Str("absent")}, Cond: s.s, CondSet: true},
			} {
				o := cl.Do(w)
				x.r.Evals++
				x.r.Counters["blank_conditions_sent"]++
				bw := map[string]interface{}{"adapter": adapter, "expression": s.s, "write": w, "outcome": o}
				if o.Class == adapt.ClsRuntime {
					x.viol("client-runtime-panic", o.Site, fmt.Sprintf("[%s] %s with the blank ConditionExpression %q: runtime panic at %s: %s", adapter, w.Kind, s.s, o.Site, o.Msg), bw)
				} else if o.Class == adapt.ClsOK || o.Class == adapt.ClsCondFailed {
					x.viol("client-accepts-non-sentence", fmt.Sprintf("blank-condition/%s", w.Kind), fmt.Sprintf("[%s] %s (#%d) with the ConditionExpression %q - given, but empty: class %s; an empty text is no condition expression, the request is invalid", adapter, w.Kind, wi, s.s, o.Class), bw)
				}
			}
			// ... and so is a FilterExpression or a ProjectionExpression that is given but empty: not "no filter"
			for ri, rd := range []adapt.Op{
				{Kind: adapt.OpScan, Table: spec.Name, Filter: s.s, FilterSet: true},
				{Kind: adapt.OpQuery, Table: spec.Name, KeyCnd: "h = :c09hq", Values: val.Item{":c09hq": val.Str("k")}, Filter: s.s, FilterSet: true},
				{Kind: adapt.OpScan, Table: empty.Name, Filter: s.s, FilterSet: true},
				{Kind: adapt.OpScan, Table: spec.Name, Proj: s.s, ProjSet: true},
				{Kind: adapt.OpQuery, Table: spec.Name, KeyCnd: "h = :c09hq", Values: val.Item{":c09hq": val.Str("k")}, Proj: s.s, ProjSet: true},
				{Kind: adapt.OpGet, Table: spec.Name, Key: val.Item{"h": val.Str("k")}, Proj: s.s, ProjSet: true},
			} {
				o := cl.Do(rd)
				x.r.Evals++
				x.r.Counters["blank_filters_and_projections_sent"]++
				what := "FilterExpression"
				if rd.ProjSet {
					what = "ProjectionExpression"
				}
				bw := map[string]interface{}{"adapter": adapter, "expression": s.s, "read": rd, "outcome": o}
				if o.Class == adapt.ClsRuntime {
					x.viol("client-runtime-panic", o.Site, fmt.Sprintf("[%s] %s with the blank %s %q: runtime panic at %s: %s", adapter, rd.Kind, what, s.s, o.Site, o.Msg), bw)
				} else if o.Class == adapt.ClsOK {
					x.viol("client-accepts-non-sentence", fmt.Sprintf("blank-%s/%s", what, rd.Kind), fmt.Sprintf("[%s] %s (#%d) with the %s %q - given, but empty: class %s; an empty text is no expression, the request is invalid", adapter, rd.Kind, ri, what, s.s, o.Class), bw)
				}
			}
			if g := cl.Do(adapt.Op{Kind: adapt.OpGet, Table: spec.Name, Key: val.Item{"h": val.Str("k")}}); !val.ItemsEqual(g.Item, before.Item) {
				x.viol("rejected-request-changed-item", "blank-condition", fmt.Sprintf("[%s] writes with the blank ConditionExpression %q changed the stored item to %s", adapter, s.s, g.Item.Canon()), nil)
			}
		}
		// and the other way round: an expression that is evaluated for a stored item without complaint is not
		// refused where there is nothing to evaluate it for
		if scan.Class == adapt.ClsOK {
			for _, o := range []struct {
				name string
				out  adapt.Outcome
			}{{"scan-of-empty-table", scanEmpty}, {"query-of-empty-partition", queryEmpty}, {"scan-after-the-last-item", scanAfterLast}} {
				if o.out.Class != adapt.ClsOK {
					x.viol("rejects-without-items-what-it-accepts-with-items", o.name, fmt.Sprintf("[%s] filter %q: Scan over a stored item succeeds, %s fails with %s (%s)", adapter, s.s, o.name, o.out.Class, o.out.Msg), wit)
				}
			}
		}
		for _, o := range []struct {
			name string
			out  adapt.Outcome
		}{{"put", put}, {"scan", scan}, {"scan-of-empty-table", scanEmpty}, {"query-of-empty-partition", queryEmpty}, {"scan-after-the-last-item", scanAfterLast}} {
			if o.out.Class == adapt.ClsRuntime {
				x.viol("client-runtime-panic", o.out.Site, fmt.Sprintf("[%s] %s with expression %q: runtime panic at %s: %s", adapter, o.name, s.s, o.out.Site, o.out.Msg), wit)
			}
			if strings.TrimSpace(strings.ReplaceAll(s.s, "\x00", "")) == "" {
				continue // (sent as "no condition"; the empty text itself is sent below)
			}
			accepted := o.out.Class == adapt.ClsOK || o.out.Class == adapt.ClsCondFailed
			if accepted && !sentence {
				feature := o.name
				if refmodel.OnlyPathConditions(s.s, names) {
					// the only liberty: a nested document path standing alone as a condition, which the evaluator
					// admits when the path leads to a BOOL (so nothing refuses it when no item is looked at)
					feature += "~document-path-as-condition"
				}
				x.viol("client-accepts-non-sentence", feature, fmt.Sprintf("[%s] %s with expression %q (%s), which is not a sentence, completed with class %s", adapter, o.name, s.s, s.kind, o.out.Class), wit)
			}
		}
	}
}

func (p *c09) checkUpdate(x *res, s c09Str, names map[string]string, values val.Item, viaClient bool, ctx *runner.Ctx) {
	ctx.Trace("update %q names=%v", s.s, names)
	base := c07BaseItem(rand.New(rand.NewSource(1)), 2)
	if c09Stuck {
		x.r.Counters["skipped_after_an_evaluation_that_did_not_return"]++
		return
	}
	var got, msg, site string
	var after val.Item
	if !p.returns(x, "update", s, names, values, func() { got, msg, site, after = updateDirect(s.s, names, base, values) }) {
		return
	}
	x.r.Evals++
	toks := tokenize(s.s)
	x.fp(len(s.s) > 0, "upd|%s", tokenKinds(toks))
	x.set("derivations", s.kind)
	x.set("outcomes:update", got)
	sentence, _ := refmodel.RecognizeUpdate(s.s)
	wit := map[string]interface{}{"grammar": "update", "expression": s.s, "derived_by": s.kind, "names": names, "values": values, "got": got, "msg": msg, "sentence": sentence}
	switch {
	case got == "panic":
		x.viol("runtime-panic", site, fmt.Sprintf("update %q: runtime panic at %s: %s", s.s, site, msg), wit)
		return
	case got == "ok" && (!sentence || s.kind == "static-update-defect"):
		x.viol("accepts-non-sentence", "update", fmt.Sprintf("update %q (%s) is not a sentence of the grammar but was applied: %s", s.s, s.kind, diffAttrs(after, base)), wit)
	case got == "reject" && !val.ItemsEqual(after, base):
		x.viol("rejected-update-changed-item", "update", fmt.Sprintf("update %q was rejected (%s) but changed the item: %s", s.s, msg, diffAttrs(after, base)), wit)
	}
	if viaClient {
		inDebugMode(func() {
			dgot, dmsg, dsite, dafter := updateDirect(s.s, names, base, values)
			x.r.Evals++
			x.r.Counters["debug_mode_replays"]++
			if dgot == "panic" {
				x.viol("runtime-panic", "debug-mode/"+dsite, fmt.Sprintf("update %q in debug mode: runtime panic at %s: %s (without debug mode: %s)", s.s, dsite, dmsg, got), wit)
			} else if dgot != got || !val.ItemsEqual(dafter, after) {
				x.viol("debug-mode-changes-verdict", "update", fmt.Sprintf("update %q: %s, in debug mode %s; items differ: %s", s.s, got, dgot, diffAttrs(dafter, after)), wit)
			}
		})
		for _, adapter := range adapt.Adapters {
			spec := mon.SpecHashOnly("tbl09")
			cl, _, ds := freshClient(adapter, spec)
			if ds != nil {
				return
			}
			it := base.Clone()
			it["h"] = val.Str("k")
			cl.Do(adapt.Op{Kind: adapt.OpPut, Table: spec.Name, Item: it})
			n2, v2 := usedPlaceholders(s.s, names, values)
			upd := cl.Do(adapt.Op{Kind: adapt.OpUpdate, Table: spec.Name, Key: val.Item{"h": val.Str("k")}, Update: s.s, Names: n2, Values: v2})
			x.r.Evals++
			x.r.Counters["client_replays"]++
			w2 := map[string]interface{}{"adapter": adapter, "expression": s.s, "derived_by": s.kind, "names": n2, "values": v2, "update": upd}
			if upd.Class == adapt.ClsRuntime {
				x.viol("client-runtime-panic", upd.Site, fmt.Sprintf("[%s] UpdateItem %q: runtime panic at %s: %s", adapter, s.s, upd.Site, upd.Msg), w2)
			}
			if upd.Class == adapt.ClsOK && !sentence {
				x.viol("client-accepts-non-sentence", "update", fmt.Sprintf("[%s] UpdateItem %q (%s), which is not a sentence, succeeded", adapter, s.s, s.kind), w2)
			}
			// the same string behind a condition that is FALSE (an item that does not exist, guarded by attribute_exists):
			// a string that is no sentence makes the request invalid, it is not answered as if only the condition had failed
			if s.s != "" {
				hid := cl.Do(adapt.Op{Kind: adapt.OpUpdate, Table: spec.Name, Key: val.Item{"h": val.Str("absent")}, Update: s.s, Names: n2, Values: v2, Cond: "attribute_exists(h)"})
				x.r.Evals++
				x.r.Counters["updates_behind_a_false_condition"]++
				if hid.Class == adapt.ClsRuntime {
					x.viol("client-runtime-panic", hid.Site, fmt.Sprintf("[%s] UpdateItem %q with a false condition: runtime panic at %s: %s", adapter, s.s, hid.Site, hid.Msg), w2)
				} else if (!sentence || s.kind == "static-update-defect") && (hid.Class == adapt.ClsCondFailed || hid.Class == adapt.ClsOK) {
					x.viol("client-accepts-non-sentence", "update-behind-a-false-condition", fmt.Sprintf("[%s] UpdateItem %q (%s), which is not a sentence, with a condition that is false: answered %s - the malformed expression went unnoticed", adapter, s.s, s.kind, hid.Class), map[string]interface{}{"adapter": adapter, "expression": s.s, "derived_by": s.kind, "names": n2, "values": v2, "update": hid})
				}
			}
		}
	}
}

func (p *c09) RunCase(ctx *runner.Ctx) runner.CaseResult {
	x := newRes()
	r := mon.Rng(ctx.Seed, "C09", ctx.Case)
	all := ctx.Case%8 == 0
	switch ctx.Case % 4 {
	case 0, 1: // condition sentences and their mutations
		g := &mon.CondGen{R: r, Attrs: []string{"a", "b", "c", "d", "e", "f", "nope"}, Opts: mon.GenOpts{MaxDepth: 1, ASCII: true}, Alias: true}
		c := g.Cond(r.Intn(4))
		names := map[string]string{}
		s := c.Render(names, refmodel.RenderOpts{})
		values := g.Values
		if values == nil {
			values = val.Item{}
		}
		p.checkCond(x, c09Str{s, "valid"}, names, values, ctx.Case%16 == 0, ctx)
		// the valid sentence behind / in front of characters an editor does not show (byte order mark, zero-width and
		// no-break spaces, NUL, a soft hyphen): unknown characters, wherever they stand
		for ii, inv := range c09Invisibles {
			p.checkCond(x, c09Str{inv + s, "invisible-prefix"}, names, values, (ii+ctx.Case)%7 == 0, ctx)
			p.checkCond(x, c09Str{s + inv, "invisible-suffix"}, names, values, false, ctx)
		}
		toks := tokenize(s)
		for i, m := range mutations(r, toks, all) {
			p.checkCond(x, m, names, values, i%23 == 0, ctx)
		}
		// juxtaposition with a second sentence
		c2 := g.Leaf()
		s2 := c2.Render(names, refmodel.RenderOpts{})
		p.checkCond(x, c09Str{s + " " + s2, "juxtaposed"}, names, g.Values, true, ctx)
		p.checkCond(x, c09Str{s2 + " " + s, "juxtaposed"}, names, g.Values, false, ctx)
		if ctx.Case < 4 {
			x.r.Sample = map[string]interface{}{"grammar": "condition", "valid": s, "mutants": len(mutations(r, toks, all)), "example_mutant": mutations(r, toks, true)[len(toks)/2].s}
		}
	case 2: // update sentences and their mutations
		cs := c07Random(r)
		names := map[string]string{}
		s := cs.U.Render(names, refmodel.RenderOpts{})
		p.checkUpdate(x, c09Str{s, "valid"}, names, cs.Values, ctx.Case%16 == 2, ctx)
		for ii, inv := range c09Invisibles {
			p.checkUpdate(x, c09Str{inv + s, "invisible-prefix"}, names, cs.Values, (ii+ctx.Case)%7 == 0, ctx)
			p.checkUpdate(x, c09Str{s + inv, "invisible-suffix"}, names, cs.Values, false, ctx)
		}
		toks := tokenize(s)
		for i, m := range mutations(r, toks, all) {
			p.checkUpdate(x, m, names, cs.Values, i%23 == 0, ctx)
		}
		cs2 := c07Random(r)
		s2 := cs2.U.Render(names, refmodel.RenderOpts{})
		for k, v := range cs2.Values {
			cs.Values[k] = v
		}
		p.checkUpdate(x, c09Str{s + " " + s2, "juxtaposed"}, names, cs.Values, true, ctx)
		if ctx.Case < 4 {
			x.r.Sample = map[string]interface{}{"grammar": "update", "valid": s}
		}
	default: // byte level and hostile bindings, both grammars
		values := val.Item{":v1": val.Str("x")}
		// the work a chain of AND / OR terms costs grows with its length - it does not DOUBLE with every term (a chain of
		// 48 terms, 560 bytes, would never return). Measured in heap allocations of one evaluation, not by the clock;
		// checked before the long chains below are evaluated at all
		chainCost := func(n int, op string, update bool) uint64 {
			parts := []string{}
			for i := 0; i < n; i++ {
				parts = append(parts, fmt.Sprintf("f%d = :v1", i))
			}
			expr := strings.Join(parts, " "+op+" ")
			var m0, m1 runtime.MemStats
			runtime.ReadMemStats(&m0)
			if update {
				updateDirect("SET z = :v1", nil, c09Item, values)
			} else {
				matchDirect(expr, nil, c09Item, values)
			}
			runtime.ReadMemStats(&m1)
			x.r.Evals++
			return m1.Mallocs - m0.Mallocs
		}
		chainsExplode := false
		for _, op := range []string{"AND", "OR"} {
			c8, c16 := chainCost(8, op, false), chainCost(16, op, false)
			x.r.Counters["logical_chain_cost_measurements"]++
			if c16 > 16*c8+100000 {
				chainsExplode = true
				x.viol("work-explodes", "logical-chain", fmt.Sprintf("a condition of 16 terms joined by %s costs %d allocations, one of 8 terms %d: the work doubles with every term, a chain of 50 terms (600 bytes) does not terminate in practice", op, c16, c8), map[string]interface{}{"operator": op, "terms_8": c8, "terms_16": c16})
			}
		}
		if chainsExplode {
			// (the long strings below would not return; the defect is reported, the rest of this case is skipped)
			return x.r
		}
		for i, bs := range byteStrings(r) {
			p.checkCond(x, bs, nil, values, i%17 == 0, ctx)
			p.checkUpdate(x, bs, nil, values, i%17 == 0, ctx)
		}
		if ctx.Case < 40 {
			conds, cvals, upds, uvals := scaledSentences()
			for i, c := range conds {
				_, v2 := usedPlaceholders(c.s, nil, cvals)
				p.checkCond(x, c, nil, v2, i%29 == ctx.Case/4, ctx)
			}
			for i, u := range upds {
				_, v2 := usedPlaceholders(u.s, nil, uvals)
				p.checkUpdate(x, u, nil, v2, i%5 == (ctx.Case/4)%5, ctx)
			}
		}
		// bindings that make the work explode: "#a0" -> "#a1.#a1", "#a1" -> "#a2.#a2" ... Termination is judged by a
		// logical measure, not by the clock: the number of heap allocations of one evaluation may grow with the
		// length of the chain, it may not DOUBLE with every further name (a chain of 28 would never return)
		if ctx.Case%16 == 3 {
			cost := func(n int) uint64 {
				names := map[string]string{}
				for i := 0; i < n; i++ {
					names[fmt.Sprintf("#a%d", i)] = fmt.Sprintf("#a%d.#a%d", i+1, i+1)
				}
				names[fmt.Sprintf("#a%d", n)] = "x"
				expr := "#a0 = :v1"
				for i := 1; i <= n; i++ {
					expr += fmt.Sprintf(" OR #a%d = :v1", i)
				}
				var m0, m1 runtime.MemStats
				runtime.ReadMemStats(&m0)
				matchDirect(expr, names, c09Item, values)
				runtime.ReadMemStats(&m1)
				x.r.Evals++
				return m1.Mallocs - m0.Mallocs
			}
			c6, c16 := cost(6), cost(16)
			x.r.Counters["alias_chain_cost_measurements"]++
			if c16 > 200*c6+100000 {
				x.viol("work-explodes", "alias-chain", fmt.Sprintf("a condition over a chain of 16 dotted #name bindings costs %d allocations, one over a chain of 6 costs %d: the work doubles with every binding, a chain of 30 names (an expression of under 1 KB) does not terminate in practice", c16, c6), map[string]interface{}{"chain_6": c6, "chain_16": c16})
			}
		}
		hostile := []map[string]string{{"#a": "#a"}, {"#a": "#b", "#b": "#a"}, {"#a": "a.b"}, {"#a": "d.x"}, {"#a": ""}, {"#a": "#a.#a"}, {"#a": "a", "#b": "#a"}}
		for _, names := range hostile {
			for _, s := range []string{"#a = :v1", "attribute_exists(#a)", "#a.#b = :v1", "d.#a = :v1", "#a[0] = :v1", "size(#a) > :v1"} {
				p.checkCond(x, c09Str{s, "hostile-alias"}, names, values, true, ctx)
			}
			for _, s := range []string{"SET #a = :v1", "REMOVE #a", "SET d.#a = :v1", "ADD #a :v1", "SET z = #a"} {
				p.checkUpdate(x, c09Str{s, "hostile-alias"}, names, values, true, ctx)
			}
		}
	}
	return x.r
}
