package props

import (
	"strings"
	"fmt"
	"math/rand"

	"verifharness/adapt"
	"verifharness/mon"
	"verifharness/refmodel"
	"verifharness/runner"
	"verifharness/val"
)

// C08 – a request that fails leaves no trace.
type c08 struct{ base }

func init() {
	runner.Register(&c08{base{id: "C08", level: "fault_enumeration",
		rule: "fault catalogue (every way a request can fail in this I/O-free library), each fault injected in >=3 different reachable states (seeded write histories on a table with 2 GSIs + 1 LSI, plus a second table) per adapter: unknown table; key attribute missing / of wrong type; index-key attribute of wrong type with the offending index first / middle / last in every map-iteration order (repeated); unused / undefined / malformed placeholders; syntax error and ill-typed operand in a condition (documented panic path) and in an update; failing k-th action of a multi-action update after k-1 successful ones; conditional check failed; reserved word; active emulated failure (both kinds) for every data op; batch rejected by validation; batch aborted by a failing sub-request after earlier sub-requests; UpdateTable whose later index change fails; writes to an item that predates an index whose key type its attribute does not have. Oracle: the request must fail AND the complete observation (GetItem of every key, base scan, every index scan, DescribeTable counts and index sets of every table) must be identical before/after, and the model (which skipped the call) must still agree after 5 further writes. non-trivial = the state holds >=2 items and the fault is detected after at least one internal step could have run; distinct by (adapter, fault id, op, state size class). Read faults: Query / Scan on the table and through every index, both directions, with a filter that fails on the first item that has the attribute.",
		assumptions: commonAssumptions}})
}

type fault struct {
	id string
	mk func(r *rand.Rand, t string, present, absent val.Item) []adapt.Op // ops; the LAST one must fail, earlier ones are setup (e.g. activate failure)
	// cleanup ops run after the observation (e.g. deactivate failure) before comparing
	pre, post []adapt.Op
	// stateSetup: the ops before the last one CHANGE the state (they build the situation the fault needs), so
	// the "before" observation is taken after them and the model continuation is skipped; mayPass: DynamoDB
	// semantics do not oblige the request to fail - only "if it fails, it leaves no trace" is checked
	stateSetup, mayPass bool
}

func badIndexItem(h, rg string, which int) val.Item {
	it := ixItem(h, rg, "x", "1", 1)
	switch which {
	case 0:
		it["g"] = val.Num("1") // gsi1 + gsi2 hash key of wrong type
	case 1:
		it["s"] = val.Num("7") // gsi2 + lsi1 range key of wrong type
	default:
		it["g"] = val.Bool(true)
		it["s"] = val.List()
	}
	return it
}

func rawCond(op adapt.Op, cond string, names map[string]string, values val.Item) adapt.Op {
	op.Cond = cond
	op.Names = names
	if values != nil {
		if op.Values == nil {
			op.Values = val.Item{}
		}
		for k, v := range values {
			op.Values[k] = v
		}
	}
	return op
}

func rawUpdate(t string, key val.Item, upd string, names map[string]string, values val.Item) adapt.Op {
	return adapt.Op{Kind: adapt.OpUpdate, Table: t, Key: key, Update: upd, Names: names, Values: values}
}

func c08Faults() []fault {
	k := func(it val.Item) val.Item { return val.Item{"h": it["h"], "r": it["r"]} }
	fs := []fault{}
	add := func(id string, mk func(r *rand.Rand, t string, p, a val.Item) []adapt.Op) {
		fs = append(fs, fault{id: id, mk: mk})
	}
	one := func(op adapt.Op) []adapt.Op { return []adapt.Op{op} }
	// 1 unknown table
	add("unknown-table/put", func(r *rand.Rand, t string, p, a val.Item) []adapt.Op {
		return one(adapt.Op{Kind: adapt.OpPut, Table: "nosuchtable", Item: p})
	})
	add("unknown-table/update", func(r *rand.Rand, t string, p, a val.Item) []adapt.Op {
		return one(mon.SetUpdate("nosuchtable", k(p), "v", val.Num("1")))
	})
	add("unknown-table/delete", func(r *rand.Rand, t string, p, a val.Item) []adapt.Op {
		return one(adapt.Op{Kind: adapt.OpDelete, Table: "nosuchtable", Key: k(p)})
	})
	add("unknown-table/get", func(r *rand.Rand, t string, p, a val.Item) []adapt.Op {
		return one(adapt.Op{Kind: adapt.OpGet, Table: "nosuchtable", Key: k(p)})
	})
	add("unknown-table/scan", func(r *rand.Rand, t string, p, a val.Item) []adapt.Op {
		return one(adapt.Op{Kind: adapt.OpScan, Table: "nosuchtable"})
	})
	add("unknown-table/query", func(r *rand.Rand, t string, p, a val.Item) []adapt.Op {
		return one(queryOp("nosuchtable", "", keyCondEq("h", ":h"), nil, val.Item{":h": p["h"]}, false, rrCanon))
	})
	// 2 key problems
	for _, opk := range []string{"put", "update", "delete", "get"} {
		opk := opk
		for _, variant := range []string{"missing-hash", "missing-range", "wrong-type-hash", "wrong-type-range"} {
			variant := variant
			add("key-"+variant+"/"+opk, func(r *rand.Rand, t string, p, a val.Item) []adapt.Op {
				it := p.Clone()
				switch variant {
				case "missing-hash":
					delete(it, "h")
				case "missing-range":
					delete(it, "r")
				case "wrong-type-hash":
					it["h"] = val.Num("1")
				case "wrong-type-range":
					it["r"] = val.Bin("x")
				}
				key := val.Item{}
				if v, ok := it["h"]; ok {
					key["h"] = v
				}
				if v, ok := it["r"]; ok {
					key["r"] = v
				}
				switch opk {
				case "put":
					return one(adapt.Op{Kind: adapt.OpPut, Table: t, Item: it})
				case "update":
					return one(mon.SetUpdate(t, key, "v", val.Num("1")))
				case "delete":
					return one(adapt.Op{Kind: adapt.OpDelete, Table: t, Key: key})
				}
				return one(adapt.Op{Kind: adapt.OpGet, Table: t, Key: key})
			})
		}
	}
	// 3 index key of wrong type (put overwrite of a present item, put of a new item, update)
	for which := 0; which < 3; which++ {
		which := which
		add(fmt.Sprintf("index-key-type-%d/put-overwrite", which), func(r *rand.Rand, t string, p, a val.Item) []adapt.Op {
			return one(adapt.Op{Kind: adapt.OpPut, Table: t, Item: badIndexItem(p["h"].Str, p["r"].Str, which)})
		})
		add(fmt.Sprintf("index-key-type-%d/put-new", which), func(r *rand.Rand, t string, p, a val.Item) []adapt.Op {
			return one(adapt.Op{Kind: adapt.OpPut, Table: t, Item: badIndexItem(a["h"].Str, a["r"].Str, which)})
		})
		add(fmt.Sprintf("index-key-type-%d/update", which), func(r *rand.Rand, t string, p, a val.Item) []adapt.Op {
			attr, v := "g", val.Num("1")
			if which == 1 {
				attr, v = "s", val.Num("7")
			}
			if which == 2 {
				attr, v = "s", val.Bool(true)
			}
			return one(mon.SetUpdate(t, k(p), attr, v))
		})
		add(fmt.Sprintf("index-key-type-%d/update-upsert", which), func(r *rand.Rand, t string, p, a val.Item) []adapt.Op {
			attr, v := "g", val.Num("1")
			if which == 1 {
				attr, v = "s", val.SS("q")
			}
			return one(mon.SetUpdate(t, k(a), attr, v))
		})
	}
	// 3b the SORT key attribute of an index with a wrong type on an item that LACKS the index's hash key: the item
	// would not be indexed, the attribute still has to have its declared type
	add("index-sort-key-type-without-hash/put-new", func(r *rand.Rand, t string, p, a val.Item) []adapt.Op {
		it := ixItem(a["h"].Str, a["r"].Str, "", "9", 61)
		it["s"] = val.Num("7")
		return one(adapt.Op{Kind: adapt.OpPut, Table: t, Item: it})
	})
	add("index-sort-key-type-without-hash/put-overwrite", func(r *rand.Rand, t string, p, a val.Item) []adapt.Op {
		it := ixItem(p["h"].Str, p["r"].Str, "", "9", 62)
		it["s"] = val.SS("q")
		return one(adapt.Op{Kind: adapt.OpPut, Table: t, Item: it})
	})
	add("index-sort-key-type-without-hash/update", func(r *rand.Rand, t string, p, a val.Item) []adapt.Op {
		return one(rawUpdate(t, k(p), "REMOVE g SET s = :n", nil, val.Item{":n": val.Num("7")}))
	})
	add("index-sort-key-type-without-hash/update-upsert", func(r *rand.Rand, t string, p, a val.Item) []adapt.Op {
		return one(mon.SetUpdate(t, k(a), "s", val.Bool(true)))
	})
	add("index-sort-key-type-without-hash/batchwrite", func(r *rand.Rand, t string, p, a val.Item) []adapt.Op {
		it := ixItem(a["h"].Str, a["r"].Str, "", "9", 63)
		it["s"] = val.Num("7")
		return one(adapt.Op{Kind: adapt.OpBatchWrite, Batch: []adapt.BatchEntry{{Table: t, Put: ixItem(a["h"].Str, "zz", "x", "1", 64)}, {Table: t, Put: it}}})
	})
	// 3c ReturnValues that only UpdateItem knows, on PutItem and DeleteItem: DynamoDB refuses the request; a library
	// that refuses it too must do so before it writes or deletes anything
	for _, rv := range []string{"UPDATED_OLD", "ALL_NEW", "UPDATED_NEW", "NO_SUCH_VALUE"} {
		rv := rv
		// (the library does not check ReturnValues at all: the request may simply be carried out)
		add := func(id string, mk func(r *rand.Rand, t string, p, a val.Item) []adapt.Op) {
			fs = append(fs, fault{id: id, mayPass: true, mk: mk})
		}
		add("return-values-of-updateitem/delete/"+rv, func(r *rand.Rand, t string, p, a val.Item) []adapt.Op {
			return one(adapt.Op{Kind: adapt.OpDelete, Table: t, Key: k(p), RetVal: rv})
		})
		add("return-values-of-updateitem/put-overwrite/"+rv, func(r *rand.Rand, t string, p, a val.Item) []adapt.Op {
			return one(adapt.Op{Kind: adapt.OpPut, Table: t, Item: ixItem(p["h"].Str, p["r"].Str, "y", "9", 71), RetVal: rv})
		})
		add("return-values-of-updateitem/put-new/"+rv, func(r *rand.Rand, t string, p, a val.Item) []adapt.Op {
			return one(adapt.Op{Kind: adapt.OpPut, Table: t, Item: ixItem(a["h"].Str, a["r"].Str, "y", "9", 72), RetVal: rv})
		})
	}
	// 4 placeholders
	add("placeholder-unused-value/put", func(r *rand.Rand, t string, p, a val.Item) []adapt.Op {
		return one(rawCond(adapt.Op{Kind: adapt.OpPut, Table: t, Item: ixItem(p["h"].Str, p["r"].Str, "y", "9", 77)}, "attribute_exists(h)", nil, val.Item{":unused": val.Str("x")}))
	})
	add("placeholder-unused-name/update", func(r *rand.Rand, t string, p, a val.Item) []adapt.Op {
		return one(rawUpdate(t, k(p), "SET v = :v", map[string]string{"#unused": "v"}, val.Item{":v": val.Num("99")}))
	})
	add("placeholder-malformed/delete", func(r *rand.Rand, t string, p, a val.Item) []adapt.Op {
		return one(rawCond(adapt.Op{Kind: adapt.OpDelete, Table: t, Key: k(p)}, "#bad-name = :v", map[string]string{"#bad-name": "v"}, val.Item{":v": val.Num("1")}))
	})
	add("placeholder-unused-value/scan", func(r *rand.Rand, t string, p, a val.Item) []adapt.Op {
		return one(adapt.Op{Kind: adapt.OpScan, Table: t, Values: val.Item{":unused": val.Str("x")}})
	})
	// 5 syntax errors / ill-typed operands
	add("syntax-error-cond/put", func(r *rand.Rand, t string, p, a val.Item) []adapt.Op {
		return one(rawCond(adapt.Op{Kind: adapt.OpPut, Table: t, Item: ixItem(p["h"].Str, p["r"].Str, "y", "9", 78)}, "v = = :v", nil, val.Item{":v": val.Num("1")}))
	})
	add("syntax-error-cond/delete", func(r *rand.Rand, t string, p, a val.Item) []adapt.Op {
		return one(rawCond(adapt.Op{Kind: adapt.OpDelete, Table: t, Key: k(p)}, "v >", nil, nil))
	})
	add("syntax-error-cond/update", func(r *rand.Rand, t string, p, a val.Item) []adapt.Op {
		op := rawUpdate(t, k(p), "SET v = :v", nil, val.Item{":v": val.Num("5"), ":w": val.Num("1")})
		op.Cond = "( v = :w"
		return one(op)
	})
	add("ill-typed-cond/put", func(r *rand.Rand, t string, p, a val.Item) []adapt.Op {
		return one(rawCond(adapt.Op{Kind: adapt.OpPut, Table: t, Item: ixItem(p["h"].Str, p["r"].Str, "y", "9", 79)}, "attribute_type(v, :t)", nil, val.Item{":t": val.Str("NOTATYPE")}))
	})
	add("syntax-error-update", func(r *rand.Rand, t string, p, a val.Item) []adapt.Op {
		return one(rawUpdate(t, k(p), "SET v = ", nil, nil))
	})
	add("syntax-error-filter/scan", func(r *rand.Rand, t string, p, a val.Item) []adapt.Op {
		return one(adapt.Op{Kind: adapt.OpScan, Table: t, Filter: "v = = :v", Values: val.Item{":v": val.Num("1")}})
	})
	// READS that fail while items are being evaluated (a filter that compares a number with a BOOL: refused as soon as an
	// item has the attribute), on the table and through every index, forward and backward: a read that fails leaves
	// no trace either - every later read returns what it returned before (the read may also pass when it meets no item)
	for _, src := range []struct{ index, attr string }{{"", "h"}, {"gsi1", "g"}, {"gsi2", "g"}, {"lsi1", "h"}, {"gsi4", "r"}} {
		for _, rev := range []bool{false, true} {
			for _, kind := range []string{adapt.OpQuery, adapt.OpScan} {
				src, rev, kind := src, rev, kind
				if kind == adapt.OpScan && rev {
					continue
				}
				fs = append(fs, fault{id: fmt.Sprintf("failing-read/%s/%s/rev=%v", kind, src.index, rev), mayPass: true, mk: func(r *rand.Rand, t string, p, a val.Item) []adapt.Op {
					op := adapt.Op{Kind: kind, Table: t, Index: src.index, Rev: rev, Filter: "v < :flag", Values: val.Item{":flag": val.Bool(true)}}
					if kind == adapt.OpQuery {
						pv, ok := p[src.attr]
						if !ok {
							pv = ixV(src.attr, map[string][]string{"h": ixHashPool, "g": ixGPool, "r": ixRangePool}[src.attr][0])
						}
						op.KeyCnd = src.attr + " = :k"
						op.Values[":k"] = pv
					}
					return one(op)
				}})
			}
		}
	}
	add("ill-typed-update-add", func(r *rand.Rand, t string, p, a val.Item) []adapt.Op {
		return one(rawUpdate(t, k(p), "ADD h :v", nil, val.Item{":v": val.Num("1")}))
	})
	// 6 failing k-th action after successful ones
	add("update-2nd-action-fails", func(r *rand.Rand, t string, p, a val.Item) []adapt.Op {
		return one(rawUpdate(t, k(p), "SET w = :v, x = h + :n", nil, val.Item{":v": val.Str("touched"), ":n": val.Num("1")}))
	})
	add("update-3rd-clause-fails", func(r *rand.Rand, t string, p, a val.Item) []adapt.Op {
		return one(rawUpdate(t, k(p), "SET w = :v REMOVE v ADD h :n", nil, val.Item{":v": val.Str("touched"), ":n": val.Num("1")}))
	})
	add("update-list-append-fails-late", func(r *rand.Rand, t string, p, a val.Item) []adapt.Op {
		return one(rawUpdate(t, k(p), "REMOVE g SET w = :v, y = list_append(h, :l)", nil, val.Item{":v": val.Str("touched"), ":l": val.List(val.Str("q"))}))
	})
	add("update-upsert-fails", func(r *rand.Rand, t string, p, a val.Item) []adapt.Op {
		return one(rawUpdate(t, k(a), "SET w = :v, x = h - :n", nil, val.Item{":v": val.Str("touched"), ":n": val.Num("1")}))
	})
	// 6b rejected after the expression was evaluated: key attribute removed / retyped; on the indexed
	// table and on the table without any index
	add("update-removes-key-attr", func(r *rand.Rand, t string, p, a val.Item) []adapt.Op {
		return one(rawUpdate(t, k(p), "SET w = :v REMOVE r", nil, val.Item{":v": val.Str("touched")}))
	})
	add("update-retypes-key-attr", func(r *rand.Rand, t string, p, a val.Item) []adapt.Op {
		return one(rawUpdate(t, k(p), "SET w = :v, h = :n", nil, val.Item{":v": val.Str("touched"), ":n": val.Num("7")}))
	})
	add("noindex-table/update-removes-key-attr", func(r *rand.Rand, t string, p, a val.Item) []adapt.Op {
		return one(rawUpdate("oth08", val.Item{"h": val.Str("o1")}, "SET w = :v REMOVE h", nil, val.Item{":v": val.Str("touched")}))
	})
	add("noindex-table/update-retypes-key-attr", func(r *rand.Rand, t string, p, a val.Item) []adapt.Op {
		return one(rawUpdate("oth08", val.Item{"h": val.Str("o1")}, "SET z = :v, h = :n", nil, val.Item{":v": val.Num("99"), ":n": val.Num("7")}))
	})
	add("noindex-table/update-2nd-action-fails", func(r *rand.Rand, t string, p, a val.Item) []adapt.Op {
		return one(rawUpdate("oth08", val.Item{"h": val.Str("o1")}, "SET z = :v, x = h + :n", nil, val.Item{":v": val.Num("99"), ":n": val.Num("1")}))
	})
	add("noindex-table/cond-failed-update", func(r *rand.Rand, t string, p, a val.Item) []adapt.Op {
		op := rawUpdate("oth08", val.Item{"h": val.Str("o1")}, "SET z = :v", nil, val.Item{":v": val.Num("99")})
		op.Cond = "attribute_not_exists(h)"
		return one(op)
	})
	add("noindex-table/put-missing-key", func(r *rand.Rand, t string, p, a val.Item) []adapt.Op {
		return one(adapt.Op{Kind: adapt.OpPut, Table: "oth08", Item: val.Item{"z": val.Num("5")}})
	})
	// 7 conditional check failed
	add("cond-failed/put", func(r *rand.Rand, t string, p, a val.Item) []adapt.Op {
		c := &refmodel.Cond{Op: "notexists", Args: []refmodel.Operand{{Kind: "path", Path: refmodel.P("h")}}}
		return one(mon.WithCond(adapt.Op{Kind: adapt.OpPut, Table: t, Item: ixItem(p["h"].Str, p["r"].Str, "y", "10", 80)}, c, nil, rrCanon))
	})
	add("cond-failed/update", func(r *rand.Rand, t string, p, a val.Item) []adapt.Op {
		c := &refmodel.Cond{Op: "exists", Args: []refmodel.Operand{{Kind: "path", Path: refmodel.P("h")}}}
		return one(mon.WithCond(mon.SetUpdate(t, k(a), "w", val.Str("touched")), c, nil, rrCanon))
	})
	add("cond-failed/delete", func(r *rand.Rand, t string, p, a val.Item) []adapt.Op {
		c := &refmodel.Cond{Op: "notexists", Args: []refmodel.Operand{{Kind: "path", Path: refmodel.P("h")}}}
		return one(mon.WithCond(adapt.Op{Kind: adapt.OpDelete, Table: t, Key: k(p)}, c, nil, rrCanon))
	})
	// 8 reserved word
	add("reserved-word/update", func(r *rand.Rand, t string, p, a val.Item) []adapt.Op {
		return one(rawUpdate(t, k(p), "SET w = :v, status = :v", nil, val.Item{":v": val.Str("touched")}))
	})
	add("reserved-word/cond-delete", func(r *rand.Rand, t string, p, a val.Item) []adapt.Op {
		return one(rawCond(adapt.Op{Kind: adapt.OpDelete, Table: t, Key: k(p)}, "size = :v", nil, val.Item{":v": val.Num("1")}))
	})
	// 9 emulated failure for every data op
	for _, cond := range []string{"internal_server", "deprecated"} {
		cond := cond
		pre := adapt.Op{Kind: adapt.OpEmulate, Fail: cond}
		for _, opk := range []string{"put", "update", "delete", "get", "scan", "query", "batchwrite", "batchget", "transact"} {
			opk := opk
			if opk == "batchwrite" && cond == "internal_server" {
				continue // reported through UnprocessedItems, not an error: C15's business
			}
			fs = append(fs, fault{id: "emulated-" + cond + "/" + opk, post: []adapt.Op{{Kind: adapt.OpEmulate, Fail: "none"}}, mk: func(r *rand.Rand, t string, p, a val.Item) []adapt.Op {
				var op adapt.Op
				switch opk {
				case "put":
					op = adapt.Op{Kind: adapt.OpPut, Table: t, Item: ixItem(a["h"].Str, a["r"].Str, "x", "1", 81)}
				case "update":
					op = mon.SetUpdate(t, k(p), "w", val.Str("touched"))
				case "delete":
					op = adapt.Op{Kind: adapt.OpDelete, Table: t, Key: k(p)}
				case "get":
					op = adapt.Op{Kind: adapt.OpGet, Table: t, Key: k(p)}
				case "scan":
					op = adapt.Op{Kind: adapt.OpScan, Table: t}
				case "query":
					op = queryOp(t, "", keyCondEq("h", ":h"), nil, val.Item{":h": p["h"]}, false, rrCanon)
				case "batchwrite":
					op = adapt.Op{Kind: adapt.OpBatchWrite, Batch: []adapt.BatchEntry{{Table: t, Put: ixItem(a["h"].Str, a["r"].Str, "x", "1", 82)}, {Table: t, Del: k(p)}}}
				case "batchget":
					op = adapt.Op{Kind: adapt.OpBatchGet, Gets: []adapt.BatchEntry{{Table: t, Del: k(p)}}}
				default:
					op = adapt.Op{Kind: adapt.OpTransact}
				}
				return []adapt.Op{pre, op}
			}})
		}
	}
	// 10 batch rejected by validation
	add("batch-26-requests", func(r *rand.Rand, t string, p, a val.Item) []adapt.Op {
		b := []adapt.BatchEntry{}
		for i := 0; i < 26; i++ {
			b = append(b, adapt.BatchEntry{Table: t, Put: ixItem("bulk", fmt.Sprint(i), "x", "1", i)})
		}
		return one(adapt.Op{Kind: adapt.OpBatchWrite, Batch: b})
	})
	add("batch-both-put-and-delete", func(r *rand.Rand, t string, p, a val.Item) []adapt.Op {
		return one(adapt.Op{Kind: adapt.OpBatchWrite, Batch: []adapt.BatchEntry{{Table: t, Put: ixItem(a["h"].Str, a["r"].Str, "x", "1", 83)}, {Table: t, Put: ixItem("b2", "1", "x", "1", 1), Del: k(p)}}})
	})
	add("batch-neither-put-nor-delete", func(r *rand.Rand, t string, p, a val.Item) []adapt.Op {
		return one(adapt.Op{Kind: adapt.OpBatchWrite, Batch: []adapt.BatchEntry{{Table: t, Put: ixItem(a["h"].Str, a["r"].Str, "x", "1", 84)}, {Table: t}}})
	})
	// 11 batch aborted by a failing sub-request after earlier sub-requests
	add("batch-later-request-bad-key", func(r *rand.Rand, t string, p, a val.Item) []adapt.Op {
		bad := ixItem("b3", "1", "x", "1", 1)
		delete(bad, "r")
		return one(adapt.Op{Kind: adapt.OpBatchWrite, Batch: []adapt.BatchEntry{{Table: t, Put: ixItem(a["h"].Str, a["r"].Str, "x", "1", 85)}, {Table: t, Del: k(p)}, {Table: t, Put: bad}}})
	})
	add("batch-later-request-bad-index-key", func(r *rand.Rand, t string, p, a val.Item) []adapt.Op {
		return one(adapt.Op{Kind: adapt.OpBatchWrite, Batch: []adapt.BatchEntry{{Table: t, Put: ixItem(a["h"].Str, a["r"].Str, "x", "1", 86)}, {Table: t, Put: badIndexItem("b4", "1", 0)}}})
	})
	// ... failing for what one of its VALUES is (a number that is no number, a value without a data type, a key with
	// a malformed surplus attribute), not for its keys: still the whole batch, before anything is written
	add("batch-later-request-bad-number", func(r *rand.Rand, t string, p, a val.Item) []adapt.Op {
		bad := ixItem("b6", "1", "x", "1", 1)
		bad["cnt"] = val.V{K: val.KN, Str: "abc"}
		return one(adapt.Op{Kind: adapt.OpBatchWrite, Batch: []adapt.BatchEntry{{Table: t, Put: ixItem(a["h"].Str, a["r"].Str, "x", "1", 91)}, {Table: t, Del: k(p)}, {Table: t, Put: bad}}})
	})
	add("batch-later-request-bad-nested-number", func(r *rand.Rand, t string, p, a val.Item) []adapt.Op {
		bad := ixItem("b6", "2", "x", "1", 1)
		bad["doc"] = val.Map(map[string]val.V{"l": val.List(val.Str("x"), val.V{K: val.KNS, Set: []string{"1", "1e999"}})})
		return one(adapt.Op{Kind: adapt.OpBatchWrite, Batch: []adapt.BatchEntry{{Table: t, Del: k(p)}, {Table: t, Put: ixItem(a["h"].Str, a["r"].Str, "x", "1", 92)}, {Table: t, Put: bad}}})
	})
	add("batch-later-request-untyped-value", func(r *rand.Rand, t string, p, a val.Item) []adapt.Op {
		bad := ixItem("b6", "3", "x", "1", 1)
		bad["doc"] = val.List(val.Str("x"), val.Invalid("empty"))
		return one(adapt.Op{Kind: adapt.OpBatchWrite, Batch: []adapt.BatchEntry{{Table: t, Put: ixItem(a["h"].Str, a["r"].Str, "x", "1", 93)}, {Table: t, Del: k(p)}, {Table: t, Put: bad}}})
	})
	add("batch-later-delete-key-with-bad-number", func(r *rand.Rand, t string, p, a val.Item) []adapt.Op {
		badKey := k(p).Clone()
		badKey["cnt"] = val.V{K: val.KN, Str: "NaN"}
		return one(adapt.Op{Kind: adapt.OpBatchWrite, Batch: []adapt.BatchEntry{{Table: t, Put: ixItem(a["h"].Str, a["r"].Str, "x", "1", 94)}, {Table: t, Del: badKey}}})
	})
	add("batch-two-tables-bad-number-in-other-table", func(r *rand.Rand, t string, p, a val.Item) []adapt.Op {
		return one(adapt.Op{Kind: adapt.OpBatchWrite, Batch: []adapt.BatchEntry{{Table: t, Put: ixItem(a["h"].Str, a["r"].Str, "x", "1", 95)}, {Table: t, Del: k(p)}, {Table: "oth08", Put: val.Item{"h": val.Str("o9"), "z": val.V{K: val.KN, Str: "Infinity"}}}}})
	})
	add("batch-unknown-table-among-valid", func(r *rand.Rand, t string, p, a val.Item) []adapt.Op {
		return one(adapt.Op{Kind: adapt.OpBatchWrite, Batch: []adapt.BatchEntry{{Table: t, Put: ixItem(a["h"].Str, a["r"].Str, "x", "1", 87)}, {Table: t, Del: k(p)}, {Table: "nosuchtable", Put: ixItem("b5", "1", "x", "1", 1)}}})
	})
	// 11b the same over TWO tables: the valid requests address one table, the failing request the other one -
	// in both directions, because the order in which the tables of one call are visited is not the caller's
	oth := "oth08"
	add("batch-two-tables-bad-key-in-indexed-table", func(r *rand.Rand, t string, p, a val.Item) []adapt.Op {
		bad := ixItem("b3", "1", "x", "1", 1)
		delete(bad, "r")
		return one(adapt.Op{Kind: adapt.OpBatchWrite, Batch: []adapt.BatchEntry{{Table: oth, Put: val.Item{"h": val.Str("o2"), "z": val.Num("2")}}, {Table: oth, Del: val.Item{"h": val.Str("o1")}}, {Table: t, Put: bad}}})
	})
	add("batch-two-tables-bad-key-in-other-table", func(r *rand.Rand, t string, p, a val.Item) []adapt.Op {
		return one(adapt.Op{Kind: adapt.OpBatchWrite, Batch: []adapt.BatchEntry{{Table: t, Put: ixItem(a["h"].Str, a["r"].Str, "x", "1", 88)}, {Table: t, Del: k(p)}, {Table: oth, Put: val.Item{"nokey": val.Str("x")}}}})
	})
	add("batch-two-tables-bad-index-key", func(r *rand.Rand, t string, p, a val.Item) []adapt.Op {
		return one(adapt.Op{Kind: adapt.OpBatchWrite, Batch: []adapt.BatchEntry{{Table: oth, Put: val.Item{"h": val.Str("o2"), "z": val.Num("2")}}, {Table: oth, Del: val.Item{"h": val.Str("o1")}}, {Table: t, Put: badIndexItem("b4", "1", 0)}}})
	})
	add("batch-two-tables-wrong-key-type-in-other-table", func(r *rand.Rand, t string, p, a val.Item) []adapt.Op {
		return one(adapt.Op{Kind: adapt.OpBatchWrite, Batch: []adapt.BatchEntry{{Table: t, Put: ixItem(a["h"].Str, a["r"].Str, "x", "1", 89)}, {Table: t, Del: k(p)}, {Table: oth, Del: val.Item{"h": val.Num("1")}}}})
	})
	add("batch-three-tables-unknown-table-last", func(r *rand.Rand, t string, p, a val.Item) []adapt.Op {
		return one(adapt.Op{Kind: adapt.OpBatchWrite, Batch: []adapt.BatchEntry{{Table: t, Put: ixItem(a["h"].Str, a["r"].Str, "x", "1", 90)}, {Table: oth, Put: val.Item{"h": val.Str("o3")}}, {Table: "zzz-nosuchtable", Put: val.Item{"h": val.Str("x")}}}})
	})
	// 11c a table whose ONLY secondary index is a local one, created with the table and never changed since: the sort
	// key attribute of that index (no global index uses it) given with the wrong type - by a new item, by a replacement,
	// by an update, by a later request of a batch
	lsiT := "lsi08"
	lkey := val.Item{"h": val.Str("l1"), "r": val.Str("1")}
	add("local-index-only-sort-key-type/put-new", func(r *rand.Rand, t string, p, a val.Item) []adapt.Op {
		return one(adapt.Op{Kind: adapt.OpPut, Table: lsiT, Item: val.Item{"h": val.Str("l2"), "r": val.Str("1"), "lo": val.Num("5"), "w": val.Str("new")}})
	})
	add("local-index-only-sort-key-type/put-overwrite", func(r *rand.Rand, t string, p, a val.Item) []adapt.Op {
		return one(adapt.Op{Kind: adapt.OpPut, Table: lsiT, Item: val.Item{"h": val.Str("l1"), "r": val.Str("1"), "lo": val.Bool(true), "w": val.Str("replaced")}})
	})
	add("local-index-only-sort-key-type/update", func(r *rand.Rand, t string, p, a val.Item) []adapt.Op {
		return one(mon.SetUpdate(lsiT, lkey, "lo", val.Num("5")))
	})
	add("local-index-only-sort-key-type/update-multi", func(r *rand.Rand, t string, p, a val.Item) []adapt.Op {
		return one(adapt.Op{Kind: adapt.OpUpdate, Table: lsiT, Key: lkey, Update: "SET w = :w, lo = :n REMOVE z", Values: val.Item{":w": val.Str("changed"), ":n": val.List(val.Str("x"))}})
	})
	add("local-index-only-sort-key-type/update-upsert", func(r *rand.Rand, t string, p, a val.Item) []adapt.Op {
		return one(mon.SetUpdate(lsiT, val.Item{"h": val.Str("l2"), "r": val.Str("1")}, "lo", val.Num("5")))
	})
	add("local-index-only-sort-key-type/batchwrite", func(r *rand.Rand, t string, p, a val.Item) []adapt.Op {
		return one(adapt.Op{Kind: adapt.OpBatchWrite, Batch: []adapt.BatchEntry{{Table: lsiT, Put: val.Item{"h": val.Str("l3"), "r": val.Str("1"), "lo": val.Str("fine")}}, {Table: lsiT, Del: lkey},
			{Table: lsiT, Put: val.Item{"h": val.Str("l2"), "r": val.Str("1"), "lo": val.Num("5")}}}})
	})
	// 12 UpdateTable whose later change fails
	add("updatetable-second-change-fails", func(r *rand.Rand, t string, p, a val.Item) []adapt.Op {
		return one(adapt.Op{Kind: adapt.OpUpdateTable, Table: t, Chg: []adapt.IndexChange{{Create: &adapt.IndexSpec{Name: "gsiNew", Hash: "v2"}}, {Delete: "nosuchindex"}}})
	})
	add("updatetable-delete-existing-then-fail", func(r *rand.Rand, t string, p, a val.Item) []adapt.Op {
		return one(adapt.Op{Kind: adapt.OpUpdateTable, Table: t, Chg: []adapt.IndexChange{{Delete: "gsi1"}, {Delete: "nosuchindex"}}})
	})
	add("updatetable-delete-two-existing-then-fail", func(r *rand.Rand, t string, p, a val.Item) []adapt.Op {
		return one(adapt.Op{Kind: adapt.OpUpdateTable, Table: t, Chg: []adapt.IndexChange{{Delete: "gsi2"}, {Delete: "gsi4"}, {Create: &adapt.IndexSpec{Name: "gsiNew", Hash: "v2"}}, {Delete: "nosuchindex"}}})
	})
	add("updatetable-create-then-unnamed-delete", func(r *rand.Rand, t string, p, a val.Item) []adapt.Op {
		// the failing change is one the request structure can express although it names nothing: a Delete without IndexName
		return one(adapt.Op{Kind: adapt.OpUpdateTable, Table: t, Chg: []adapt.IndexChange{{Create: &adapt.IndexSpec{Name: "gsiNew", Hash: "v2"}}, {DeleteUnnamed: true}}})
	})
	add("updatetable-delete-existing-then-unnamed-delete", func(r *rand.Rand, t string, p, a val.Item) []adapt.Op {
		return one(adapt.Op{Kind: adapt.OpUpdateTable, Table: t, Chg: []adapt.IndexChange{{Delete: "gsi1"}, {DeleteUnnamed: true}}})
	})
	add("updatetable-delete-missing-index", func(r *rand.Rand, t string, p, a val.Item) []adapt.Op {
		return one(adapt.Op{Kind: adapt.OpUpdateTable, Table: t, Chg: []adapt.IndexChange{{Delete: "nosuchindex"}}})
	})
	add("createtable-existing", func(r *rand.Rand, t string, p, a val.Item) []adapt.Op {
		s := mon.SpecHashOnly(t)
		return one(adapt.Op{Kind: adapt.OpCreateTable, Spec: &s})
	})
	add("createtable-invalid-after-valid-name", func(r *rand.Rand, t string, p, a val.Item) []adapt.Op {
		s := adapt.TableSpec{Name: "brandnew", Hash: "h", Billing: "PROVISIONED"} // no throughput
		return one(adapt.Op{Kind: adapt.OpCreateTable, Spec: &s})
	})
	// 13 an item that predates an index and whose attribute has another type than the index key declares
	// (such items are simply not indexed): later writes to THAT item are validated against the new index
	lateIx := func(id string, last func(t string) adapt.Op) {
		fs = append(fs, fault{id: "late-index-legacy-item/" + id, stateSetup: true, mayPass: true, mk: func(r *rand.Rand, t string, p, a val.Item) []adapt.Op {
			legacy := ixItem("legacy", "1", "x", "1", 5)
			legacy["w"] = val.Num("7")
			return []adapt.Op{
				{Kind: adapt.OpPut, Table: t, Item: legacy},
				{Kind: adapt.OpUpdateTable, Table: t, Chg: []adapt.IndexChange{{Create: &adapt.IndexSpec{Name: "gsiLate", Hash: "w"}}}},
				last(t),
			}
		}})
	}
	lk := val.Item{"h": val.Str("legacy"), "r": val.Str("1")}
	lateIx("update-other-attribute", func(t string) adapt.Op { return mon.SetUpdate(t, lk, "note", val.Str("touched")) })
	lateIx("update-remove-other-attribute", func(t string) adapt.Op { return mon.RemoveUpdate(t, lk, "v") })
	lateIx("update-other-index-key", func(t string) adapt.Op { return mon.SetUpdate(t, lk, "g", val.Str("y")) })
	lateIx("update-add-number", func(t string) adapt.Op { return mon.AddUpdate(t, lk, "v", val.Num("1")) })
	lateIx("put-same-legacy-value", func(t string) adapt.Op {
		it := ixItem("legacy", "1", "y", "9", 6)
		it["w"] = val.Num("8")
		return adapt.Op{Kind: adapt.OpPut, Table: t, Item: it}
	})
	lateIx("batch-put-legacy-value-after-valid", func(t string) adapt.Op {
		it := ixItem("legacy", "1", "y", "9", 6)
		it["w"] = val.Num("8")
		return adapt.Op{Kind: adapt.OpBatchWrite, Batch: []adapt.BatchEntry{{Table: t, Put: ixItem("b2", "1", "x", "1", 1)}, {Table: t, Put: it}}}
	})
	// 13b an update whose actions change CONTAINERS of the stored item (remove a set member that is not the last
	// one, add one, drop a list element, set a map member, append to a list) and which is rejected only AFTER the
	// expression was evaluated - by the key or index-key validation: sets, lists and maps of the stored item are as
	// they were
	rich := func(p val.Item) val.Item {
		it := p.Clone()
		it["tags"] = val.SS("a", "b", "c", "d")
		it["nums"] = val.NS("1", "2", "3")
		it["bins"] = val.BS("x", "y", "z")
		it["lst"] = val.List(val.Str("l0"), val.Str("l1"), val.List(val.Num("7")), val.SS("p", "q"))
		it["mp"] = val.Map(map[string]val.V{"k": val.Str("v"), "inner": val.Map(map[string]val.V{"s": val.SS("m", "n")}), "li": val.List(val.Num("1"), val.Num("2"))})
		return it
	}
	containerActs := []struct{ name, expr string }{
		{"delete-first-set-member", "DELETE tags :ta"},
		{"delete-middle-set-member", "DELETE tags :tb"},
		{"delete-number-set-member", "DELETE nums :n1"},
		{"delete-binary-set-member", "DELETE bins :bx"},
		{"add-set-member", "ADD tags :tz"},
		{"set-smaller-set", "SET tags = :tsmall"},
		{"remove-first-list-element", "REMOVE lst[0]"},
		{"remove-two-list-elements", "REMOVE lst[1], lst[3]"},
		{"set-list-element", "SET lst[1] = :s"},
		{"set-nested-list-element", "SET lst[2][0] = :s"},
		{"append-to-list", "SET lst = list_append(lst, :l)"},
		{"set-map-member", "SET mp.k = :s"},
		{"remove-map-member", "REMOVE mp.inner"},
		{"set-nested-map-list-element", "SET mp.li[0] = :s"},
		{"several-containers", "SET mp.k = :s, lst[0] = :s REMOVE lst[1] ADD nums :n9 DELETE tags :tb"},
	}
	rejections := []struct{ name, clause, kw string }{
		{"wrong-typed-index-key", "g = :num", "SET"},
		{"key-attribute-removed", "r", "REMOVE"},
		{"key-attribute-retyped", "h = :num", "SET"},
		{"wrong-typed-index-sort-key", "s = :lst", "SET"},
	}
	cvals := val.Item{":ta": val.SS("a"), ":tb": val.SS("b"), ":n1": val.NS("1"), ":n9": val.NS("9"), ":bx": val.BS("x"), ":tz": val.SS("z"), ":tsmall": val.SS("b", "c"), ":s": val.Str("changed"), ":l": val.List(val.Str("tail")), ":num": val.Num("7"), ":lst": val.List(val.Str("x"))}
	for _, ca := range containerActs {
		for _, rj := range rejections {
			ca, rj := ca, rj
			fs = append(fs, fault{id: "containers-changed-then-rejected/" + ca.name + "/" + rj.name, stateSetup: true, mk: func(r *rand.Rand, t string, p, a val.Item) []adapt.Op {
				// merge the rejecting clause into the expression (same keyword joins the existing clause)
				expr := ca.expr
				if i := strings.Index(expr, rj.kw+" "); i >= 0 {
					expr = expr[:i+len(rj.kw)+1] + rj.clause + ", " + expr[i+len(rj.kw)+1:]
				} else if r.Intn(2) == 0 {
					expr = expr + " " + rj.kw + " " + rj.clause
				} else {
					expr = rj.kw + " " + rj.clause + " " + expr
				}
				vals := val.Item{}
				for _, tk := range tokenize(expr) {
					if v, ok := cvals[tk]; ok {
						vals[tk] = v
					}
				}
				return []adapt.Op{{Kind: adapt.OpPut, Table: t, Item: rich(p)}, rawUpdate(t, k(p), expr, nil, vals)}
			}})
		}
	}
	// 14 requests that exceed one of DynamoDB's documented size limits (partition-key value > 2048 bytes, sort-key
	// value > 1024 bytes - for the table and for every index -, nesting deeper than 32 levels, a number of more
	// than 38 significant digits, an expression longer than 4 KB, an attribute name longer than 255 bytes for a
	// key). DynamoDB refuses them; the library may accept them (no property obliges it to know the limits) -
	// but IF it refuses one, at whatever internal step it notices, the refusal must leave no trace
	long := func(n int) string {
		b := make([]byte, n)
		for i := range b {
			b[i] = byte('a' + i%26)
		}
		return string(b)
	}
	limit := func(id string, last func(r *rand.Rand, t string, p val.Item) adapt.Op) {
		fs = append(fs, fault{id: "size-limit/" + id, mayPass: true, mk: func(r *rand.Rand, t string, p, a val.Item) []adapt.Op {
			return []adapt.Op{last(r, t, p)}
		}})
	}
	for _, sz := range []int{1025, 2049, 70000} {
		sz := sz
		for _, attr := range []string{"g", "s"} {
			attr := attr
			limit(fmt.Sprintf("put-new-item-index-key-%s-%d", attr, sz), func(r *rand.Rand, t string, p val.Item) adapt.Op {
				it := ixItem("szl", "1", "x", "1", 1)
				it[attr] = val.Str(long(sz))
				return adapt.Op{Kind: adapt.OpPut, Table: t, Item: it}
			})
			limit(fmt.Sprintf("put-overwrite-index-key-%s-%d", attr, sz), func(r *rand.Rand, t string, p val.Item) adapt.Op {
				it := p.Clone()
				it[attr] = val.Str(long(sz))
				return adapt.Op{Kind: adapt.OpPut, Table: t, Item: it}
			})
			limit(fmt.Sprintf("update-set-index-key-%s-%d", attr, sz), func(r *rand.Rand, t string, p val.Item) adapt.Op {
				return mon.SetUpdate(t, k(p), attr, val.Str(long(sz)))
			})
			limit(fmt.Sprintf("upsert-index-key-%s-%d", attr, sz), func(r *rand.Rand, t string, p val.Item) adapt.Op {
				return mon.SetUpdate(t, val.Item{"h": val.Str("szl"), "r": val.Str("2")}, attr, val.Str(long(sz)))
			})
			limit(fmt.Sprintf("batch-valid-then-index-key-%s-%d", attr, sz), func(r *rand.Rand, t string, p val.Item) adapt.Op {
				it := ixItem("b3", "1", "x", "1", 1)
				it[attr] = val.Str(long(sz))
				return adapt.Op{Kind: adapt.OpBatchWrite, Batch: []adapt.BatchEntry{{Table: t, Put: ixItem("b2", "1", "x", "1", 1)}, {Table: t, Del: k(p)}, {Table: t, Put: it}}}
			})
		}
		for _, attr := range []string{"h", "r"} {
			attr := attr
			limit(fmt.Sprintf("put-primary-key-%s-%d", attr, sz), func(r *rand.Rand, t string, p val.Item) adapt.Op {
				it := ixItem("szl", "1", "x", "1", 1)
				it[attr] = val.Str(long(sz))
				return adapt.Op{Kind: adapt.OpPut, Table: t, Item: it}
			})
			limit(fmt.Sprintf("batch-valid-then-primary-key-%s-%d", attr, sz), func(r *rand.Rand, t string, p val.Item) adapt.Op {
				it := ixItem("szl", "1", "x", "1", 1)
				it[attr] = val.Str(long(sz))
				return adapt.Op{Kind: adapt.OpBatchWrite, Batch: []adapt.BatchEntry{{Table: t, Put: ixItem("b2", "1", "x", "1", 1)}, {Table: t, Put: it}}}
			})
		}
	}
	deep := func(n int) val.V {
		v := val.Str("leaf")
		for i := 0; i < n; i++ {
			if i%2 == 0 {
				v = val.List(v)
			} else {
				v = val.V{K: val.KM, M: map[string]val.V{"m": v}}
			}
		}
		return v
	}
	// requests this library is lenient about and DynamoDB refuses (a Key that carries an attribute besides the key
	// attributes - a listed finding): accepted or refused, but a refusal - at whatever step - leaves no trace
	limit("batch-valid-then-delete-key-with-surplus-attribute", func(r *rand.Rand, t string, p val.Item) adapt.Op {
		sk := k(p).Clone()
		sk["kind"] = val.Str("not a key attribute")
		return adapt.Op{Kind: adapt.OpBatchWrite, Batch: []adapt.BatchEntry{{Table: t, Put: ixItem("b2", "1", "x", "1", 1)}, {Table: t, Del: sk}}}
	})
	limit("batch-two-tables-delete-key-with-surplus-attribute", func(r *rand.Rand, t string, p val.Item) adapt.Op {
		return adapt.Op{Kind: adapt.OpBatchWrite, Batch: []adapt.BatchEntry{{Table: t, Put: ixItem("b2", "1", "x", "1", 1)}, {Table: t, Del: k(p)}, {Table: "oth08", Del: val.Item{"h": val.Str("o1"), "z": val.Num("1")}}}}
	})
	limit("delete-key-with-surplus-attribute", func(r *rand.Rand, t string, p val.Item) adapt.Op {
		sk := k(p).Clone()
		sk["kind"] = val.Str("not a key attribute")
		return adapt.Op{Kind: adapt.OpDelete, Table: t, Key: sk, RetOld: true}
	})
	limit("update-key-with-surplus-attribute", func(r *rand.Rand, t string, p val.Item) adapt.Op {
		sk := k(p).Clone()
		sk["kind"] = val.Str("not a key attribute")
		return mon.SetUpdate(t, sk, "w", val.Str("touched"))
	})
	for _, d := range []int{33, 40, 200} {
		d := d
		limit(fmt.Sprintf("put-nesting-%d", d), func(r *rand.Rand, t string, p val.Item) adapt.Op {
			it := p.Clone()
			it["deep"] = deep(d)
			return adapt.Op{Kind: adapt.OpPut, Table: t, Item: it}
		})
		limit(fmt.Sprintf("update-set-nesting-%d", d), func(r *rand.Rand, t string, p val.Item) adapt.Op {
			return mon.SetUpdate(t, k(p), "deep", deep(d))
		})
		limit(fmt.Sprintf("batch-valid-then-nesting-%d", d), func(r *rand.Rand, t string, p val.Item) adapt.Op {
			it := ixItem("b3", "1", "x", "1", 1)
			it["deep"] = deep(d)
			return adapt.Op{Kind: adapt.OpBatchWrite, Batch: []adapt.BatchEntry{{Table: t, Put: ixItem("b2", "1", "x", "1", 1)}, {Table: t, Del: k(p)}, {Table: t, Put: it}}}
		})
		limit(fmt.Sprintf("batch-two-tables-nesting-%d", d), func(r *rand.Rand, t string, p val.Item) adapt.Op {
			return adapt.Op{Kind: adapt.OpBatchWrite, Batch: []adapt.BatchEntry{{Table: t, Put: ixItem("b2", "1", "x", "1", 1)}, {Table: t, Del: k(p)}, {Table: "oth08", Put: val.Item{"h": val.Str("o7"), "deep": deep(d)}}}}
		})
	}
	for _, num := range []string{"123456789012345678901234567890123456789", "1E126", "1E-131", "0.00000000000000000000000000000000000000123456789012345678901234567890123456789"} {
		num := num
		limit("put-number-out-of-range-"+num[:5], func(r *rand.Rand, t string, p val.Item) adapt.Op {
			it := p.Clone()
			it["big"] = val.Num(num)
			return adapt.Op{Kind: adapt.OpPut, Table: t, Item: it}
		})
		limit("update-add-number-out-of-range-"+num[:5], func(r *rand.Rand, t string, p val.Item) adapt.Op {
			return mon.AddUpdate(t, k(p), "v", val.Num(num))
		})
	}
	limit("update-expression-over-4KB", func(r *rand.Rand, t string, p val.Item) adapt.Op {
		upd := "SET g = :g"
		vals := val.Item{":g": val.Str("y")}
		for i := 0; len(upd) < 4200; i++ {
			upd += fmt.Sprintf(", attribute_with_a_long_name_%04d = :g", i)
		}
		return rawUpdate(t, k(p), upd, nil, vals)
	})
	limit("condition-expression-over-4KB", func(r *rand.Rand, t string, p val.Item) adapt.Op {
		cond := "attribute_exists(h)"
		for i := 0; len(cond) < 4200; i++ {
			cond += fmt.Sprintf(" AND attribute_not_exists(attribute_with_a_long_name_%04d)", i)
		}
		it := p.Clone()
		it["g"] = val.Str("y")
		return rawCond(adapt.Op{Kind: adapt.OpPut, Table: t, Item: it}, cond, nil, nil)
	})
	limit("put-item-over-400KB", func(r *rand.Rand, t string, p val.Item) adapt.Op {
		it := p.Clone()
		it["g"] = val.Str("y")
		it["blob"] = val.Str(long(410000))
		return adapt.Op{Kind: adapt.OpPut, Table: t, Item: it}
	})
	return fs
}

var c08FaultList = c08Faults()

const c08StatesPerFault = 3

func (p *c08) Exhaustive(string) bool { return true }

func (p *c08) NumCases(tier string) int {
	n := len(c08FaultList) * 2 * c08StatesPerFault * 4
	if tier == "thorough" {
		n *= 10
	}
	return n
}

func (p *c08) RunCase(ctx *runner.Ctx) runner.CaseResult {
	x := newRes()
	fi := ctx.Case % len(c08FaultList)
	rest := ctx.Case / len(c08FaultList)
	adapter := adapt.Adapters[rest%2]
	stateNo := rest / 2
	f := c08FaultList[fi]
	r := mon.Rng(ctx.Seed, "C08", ctx.Case)
	if ctx.Case < 2 {
		// a REGISTERED Go updater whose result the table refuses: whatever it did to the values it was handed (replaced
		// them, edited strings, list elements, map members, set members in place), the stored item is what it was
		(&c20{}).rejectedNativeUpdate(x, adapt.Adapters[ctx.Case])
	}
	spec := ixSpec("tbl08", true)
	other := mon.SpecHashOnly("oth08")
	lsiOnly := adapt.TableSpec{Name: "lsi08", Hash: "h", Range: "r", Billing: "PAY_PER_REQUEST", Indexes: []adapt.IndexSpec{{Name: "lonly", Hash: "h", Range: "lo", Local: true}}}
	cl, m, ds := freshClient(adapter, spec, other, lsiOnly)
	if ds != nil {
		x.viol("setup", "create", ds[0].Detail, spec)
		return x.r
	}
	keys := mon.KeyLog{}
	hist := []adapt.Op{{Kind: adapt.OpPut, Table: other.Name, Item: val.Item{"h": val.Str("o1"), "z": val.Num("1")}},
		{Kind: adapt.OpPut, Table: lsiOnly.Name, Item: val.Item{"h": val.Str("l1"), "r": val.Str("1"), "lo": val.Str("x"), "z": val.Num("1")}},
		{Kind: adapt.OpPut, Table: lsiOnly.Name, Item: val.Item{"h": val.Str("l1"), "r": val.Str("2"), "z": val.Num("2")}}}
	n := []int{2, 8, 25}[stateNo%3] + r.Intn(4)
	for i := 0; i < n; i++ {
		hist = append(hist, ixRandomWrite(r, spec.Name, i))
	}
	st := &mon.HistoryStats{}
	if fl := mon.RunHistory(cl, m, hist, keys, false, nil, ctx.Trace, st); fl != nil {
		x.failureViolation(adapter, fl, spec)
		return x.r
	}
	// a present and an absent key
	t := m.Tables[spec.Name]
	var present val.Item
	for _, it := range t.Items {
		if present == nil || it.Canon() < present.Canon() {
			present = it
		}
	}
	if present == nil {
		present = ixItem("p", "1", "x", "9", 1)
		op := adapt.Op{Kind: adapt.OpPut, Table: spec.Name, Item: present}
		m.Step(op, cl.Do(op))
		keys.Add(spec.Name, t.KeyOf(present))
		hist = append(hist, op)
	}
	keys.Add(other.Name, val.Item{"h": val.Str("o1")})
	absent := ixItem("never", "written", "x", "1", 0)
	keys.Add(spec.Name, t.KeyOf(absent))
	for i := 0; i < 26; i++ {
		keys.Add(spec.Name, val.Item{"h": val.Str("bulk"), "r": val.Str(fmt.Sprint(i))})
	}
	for _, h := range []string{"b2", "b3", "b4", "b5"} {
		keys.Add(spec.Name, val.Item{"h": val.Str(h), "r": val.Str("1")})
	}
	for _, h := range []string{"l1", "l2", "l3"} {
		keys.Add(lsiOnly.Name, val.Item{"h": val.Str(h), "r": val.Str("1")})
	}
	keys.Add(lsiOnly.Name, val.Item{"h": val.Str("l1"), "r": val.Str("2")})
	tables := []string{spec.Name, other.Name, lsiOnly.Name, "brandnew", "nosuchtable"}
	ops := f.mk(r, spec.Name, present, absent)
	failing := ops[len(ops)-1]
	before := mon.Snapshot(cl, tables, keys)
	for _, op := range ops[:len(ops)-1] {
		if o := cl.Do(op); f.stateSetup && o.Class != adapt.ClsOK {
			x.r.Inconclusive++
			x.r.Counters["fault_setup_failed"]++
			return x.r
		}
	}
	if f.stateSetup {
		keys.Add(spec.Name, val.Item{"h": val.Str("legacy"), "r": val.Str("1")})
		before = mon.Snapshot(cl, tables, keys)
	}
	ctx.Trace("%s %s", adapter, failing.String())
	got := cl.Do(failing)
	for _, op := range f.post {
		cl.Do(op)
	}
	after := mon.Snapshot(cl, tables, keys)
	x.r.Evals += st.Calls + 2*(len(keys[spec.Name])+8)
	x.set("fault_ids", f.id)
	x.set("classes", got.Class)
	x.fp(len(t.Items) >= 2, "%s|%s|%s", adapter, f.id, sizeClass(len(t.Items)))
	wit := map[string]interface{}{"adapter": adapter, "fault": f.id, "history": hist, "setup_ops": ops[:len(ops)-1], "failing_op": failing, "outcome": got}
	if got.Class == adapt.ClsOK && f.mayPass {
		x.r.Counters["may_pass_fault_passed"]++
		return x.r
	}
	if got.Class == adapt.ClsOK {
		x.r.Counters["fault_did_not_fail"]++
		// the request was expected to fail; that it did not is another property's business
		// (C16/C09/C13) unless it is a plain model question
		x.viol("expected-failure-accepted", f.id, fmt.Sprintf("[%s] fault %s: the request succeeded: %s", adapter, f.id, failing.String()), wit)
		return x.r
	}
	if got.Class == adapt.ClsRuntime {
		x.viol("runtime-panic", got.Site, fmt.Sprintf("[%s] fault %s: runtime panic at %s: %s", adapter, f.id, got.Site, got.Msg), wit)
	}
	if before != after {
		x.viol("failed-request-left-trace", f.id, fmt.Sprintf("[%s] fault %s (class %s) changed the observable state.\n--- before\n%s--- after\n%s", adapter, f.id, got.Class, before, after), wit)
		return x.r
	}
	if f.stateSetup {
		return x.r
	}
	// continuation: the model skipped the failing call
	cont := []adapt.Op{}
	// ... and what the refused call carried is not performed by a LATER call either: the continuation starts with a
	// well-formed batch (a put and a delete of keys the state may hold), which applies exactly what it names
	cont = append(cont, adapt.Op{Kind: adapt.OpBatchWrite, Batch: []adapt.BatchEntry{{Table: spec.Name, Put: ixItem(mon.Pick(r, ixHashPool), mon.Pick(r, ixRangePool), "x", "1", 99)},
		{Table: spec.Name, Del: val.Item{"h": ixV("h", "zz-none"), "r": ixV("r", mon.Pick(r, ixRangePool))}}}})
	for i := 0; i < 5; i++ {
		cont = append(cont, ixRandomWrite(r, spec.Name, 100+i))
	}
	if fl := mon.RunHistory(cl, m, cont, keys, true, nil, ctx.Trace, st); fl != nil {
		fl.Prefix = append(append(append([]adapt.Op{}, hist...), ops...), fl.Prefix...)
		x.viol("continuation-diverges:"+fl.Diffs[0].Rule, f.id, fmt.Sprintf("[%s] after failed %s the history diverges from the model: %s", adapter, f.id, fl.Diffs[0].Detail), map[string]interface{}{"adapter": adapter, "fault": f.id, "failure": fl})
	}
	if ctx.Case < 3 {
		x.r.Sample = wit
	}
	return x.r
}
