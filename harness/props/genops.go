package props

import (
	"strings"
	"fmt"
	"math/rand"

	"verifharness/adapt"
	"verifharness/model"
	"verifharness/mon"
	"verifharness/refmodel"
	"verifharness/val"
)

// opWeights selects which families of operations a history mixes.
type opWeights struct {
	mgmt, data, search, batch, fail, helpers int
	noBatchGet                               bool // BatchGetItem of absent keys is a listed finding of C19
}

var genTableNames = []string{"tba", "tbb", "tb.c_2-x"}

// genSpec returns a random table configuration (valid or, rarely, invalid: PROVISIONED without throughput).
func genSpec(r *rand.Rand, name string) adapt.TableSpec {
	s := adapt.TableSpec{Name: name, Hash: "h"}
	if r.Intn(2) == 0 {
		s.Range = "r"
	}
	switch r.Intn(6) {
	case 0, 1, 2:
		s.Billing = "PAY_PER_REQUEST"
	case 3:
		s.Billing, s.Throughput = "PROVISIONED", true
	case 4:
		s.Billing, s.Throughput = "", true
	default:
		s.Billing = "PROVISIONED" // no throughput: must be rejected
	}
	// key types: mostly strings; a third of the tables have a number or binary partition key, a quarter of the
	// hash+range tables a number or binary sort key - the key TEXTS are shared between the types (genKey), so a
	// table that is deleted and re-created under the same name with other key types meets the same texts again
	if r.Intn(3) == 0 {
		s.HashT = mon.Pick(r, []string{"N", "B"})
	}
	if s.Range != "" && r.Intn(4) == 0 {
		s.RangeT = mon.Pick(r, []string{"N", "B"})
	}
	if r.Intn(2) == 0 {
		s.Indexes = append(s.Indexes, adapt.IndexSpec{Name: "gsi1", Hash: "g"})
	}
	if r.Intn(3) == 0 {
		s.Indexes = append(s.Indexes, adapt.IndexSpec{Name: "gsi2", Hash: "g", Range: "s"})
	}
	if s.Range != "" && r.Intn(3) == 0 {
		s.Indexes = append(s.Indexes, adapt.IndexSpec{Name: "lsi1", Hash: "h", HashT: s.HashT, Range: "s", Local: true})
	}
	if r.Intn(4) == 0 {
		// an index over the table's own key attributes ("inverted" for hash+range tables)
		if s.Range != "" {
			s.Indexes = append(s.Indexes, adapt.IndexSpec{Name: "gsi4", Hash: "r", HashT: s.RangeT, Range: "h", RangeT: s.HashT})
		} else {
			s.Indexes = append(s.Indexes, adapt.IndexSpec{Name: "gsi4", Hash: "g", Range: "h", RangeT: s.HashT})
		}
	}
	// declared projections: minidyn records and reports them and reads through an index return whole items
	// (its documented simplification), identically through either SDK adapter
	for i := range s.Indexes {
		switch r.Intn(5) {
		case 0:
			s.Indexes[i].Proj = "KEYS_ONLY"
		case 1:
			s.Indexes[i].Proj, s.Indexes[i].NonKey = "INCLUDE", []string{"v"}
		}
	}
	if len(s.Indexes) > 0 && r.Intn(25) == 0 {
		// two indexes of one name in one CreateTable (another key schema, global next to global or next to the local
		// one): the request is refused
		s.Indexes = append(s.Indexes, adapt.IndexSpec{Name: mon.Pick(r, s.Indexes).Name, Hash: "s", Range: "g"})
	}
	// the order in which a request lists its indexes carries no meaning
	r.Shuffle(len(s.Indexes), func(i, j int) { s.Indexes[i], s.Indexes[j] = s.Indexes[j], s.Indexes[i] })
	return s
}

// genTyped renders a key text in the declared key type: strings as they are, numbers from the numeral texts of
// the pool (other texts map to small numerals), binaries as the bytes of the text.
func genTyped(t, text string) val.V {
	switch t {
	case "N":
		if _, err := val.ParseDec(text); err == nil {
			return val.Num(text)
		}
		return val.Num(fmt.Sprint(len(text)*7 + int(text[0])))
	case "B":
		return val.Bin(text)
	}
	return val.Str(text)
}

func genKey(r *rand.Rand, spec adapt.TableSpec) val.Item {
	k := val.Item{"h": genTyped(spec.HashT, mon.Pick(r, []string{"p", "p.q", "1", "10"}))}
	if spec.Range != "" {
		k["r"] = genTyped(spec.RangeT, mon.Pick(r, []string{"1", "10", "a", "b.c"}))
	}
	// a number key part is sometimes written in another notation of the same value (trailing ".0", exponent
	// with upper- or lower-case E, explicit sign): it is the same key
	for a, v := range k {
		if v.K == val.KN && r.Intn(3) == 0 && !strings.ContainsAny(v.Str, "eE") {
			switch r.Intn(4) {
			case 0:
				if !strings.Contains(v.Str, ".") {
					k[a] = val.Num(v.Str + ".0")
				}
			case 1:
				k[a] = val.Num(v.Str + "E0")
			case 2:
				k[a] = val.Num(v.Str + "e+0")
			default:
				if strings.HasSuffix(v.Str, "0") && !strings.Contains(v.Str, ".") && len(v.Str) > 1 {
					k[a] = val.Num(strings.TrimSuffix(v.Str, "0") + "E1")
				} else {
					k[a] = val.Num(v.Str + "E+0")
				}
			}
		}
	}
	return k
}

func genItem(r *rand.Rand, spec adapt.TableSpec, salt int) val.Item {
	it := genKey(r, spec)
	if r.Intn(4) != 0 {
		it["g"] = val.Str(mon.Pick(r, ixGPool))
	}
	if r.Intn(4) != 0 {
		it["s"] = val.Str(mon.Pick(r, ixSPool))
	}
	it["v"] = val.Num(fmt.Sprint(salt))
	if r.Intn(3) == 0 {
		it["x"] = mon.Value(r, 2, mon.GenOpts{MaxDepth: 2, NoEmptyLM: true})
	}
	return it
}

// genOp returns a random operation that the model can follow (no model gaps).
// genOp draws one operation; a quarter of the data, search and batch requests also ask for the consumed capacity
// (ReturnConsumedCapacity TOTAL / INDEXES / NONE), which must not change anything the request does or answers.
func genOp(r *rand.Rand, m *model.Client, w opWeights, salt int) adapt.Op {
	op := genOpPlain(r, m, w, salt)
	switch op.Kind {
	case adapt.OpPut, adapt.OpGet, adapt.OpUpdate, adapt.OpDelete, adapt.OpQuery, adapt.OpScan, adapt.OpBatchWrite, adapt.OpBatchGet:
		if r.Intn(4) == 0 {
			op.RetCap = mon.Pick(r, []string{"TOTAL", "INDEXES", "NONE"})
		}
	}
	return op
}

func genOpPlain(r *rand.Rand, m *model.Client, w opWeights, salt int) adapt.Op {
	total := w.mgmt + w.data + w.search + w.batch + w.fail + w.helpers
	k := r.Intn(total)
	name := mon.Pick(r, genTableNames)
	t, exists := m.Tables[name]
	spec := adapt.TableSpec{Name: name, Hash: "h", Range: "r"}
	if exists {
		spec = t.Spec
	} else if r.Intn(2) == 0 {
		spec.Range = ""
	}
	switch {
	case k < w.mgmt:
		switch r.Intn(7) {
		case 0, 1, 2:
			s := genSpec(r, name)
			return adapt.Op{Kind: adapt.OpCreateTable, Spec: &s}
		case 3:
			return adapt.Op{Kind: adapt.OpDeleteTable, Table: name}
		case 4:
			return adapt.Op{Kind: adapt.OpDescribe, Table: name}
		default:
			// UpdateTable: create an index that does not exist yet / delete one (existing or not)
			if exists {
				have := map[string]bool{}
				for _, ix := range t.Spec.Indexes {
					have[ix.Name] = true
				}
				if r.Intn(8) == 0 {
					// a request that only declares attributes (no index change): it must leave the table as it is, and
					// a later request may create an index on the declared attribute without declaring it again
					// (always with the type the attribute has everywhere else: re-typing a declared attribute is not generated)
					defs := [][2]string{{mon.Pick(r, []string{"g", "s", "w"}), "S"}}
					if r.Intn(3) == 0 {
						defs = append(defs, [2]string{"v", "N"})
					}
					return adapt.Op{Kind: adapt.OpUpdateTable, Table: name, Defs: defs}
				}
				if r.Intn(2) == 0 {
					// (gsi5 and gsi6 are TWINS of gsi1 and gsi2: the same key attributes under another name - two indexes
					// that hold the same entries and share nothing)
					cands := []adapt.IndexSpec{{Name: "gsi1", Hash: "g"}, {Name: "gsi2", Hash: "g", Range: "s"}, {Name: "gsi3", Hash: "s"}, {Name: "gsi5", Hash: "g"}, {Name: "gsi6", Hash: "g", Range: "s"}}
					r.Shuffle(len(cands), func(i, j int) { cands[i], cands[j] = cands[j], cands[i] })
					for _, cand := range cands {
						if !have[cand.Name] {
							c := cand
							if r.Intn(4) == 0 {
								c.Proj = mon.Pick(r, []string{"KEYS_ONLY", "INCLUDE"})
								if c.Proj == "INCLUDE" {
									c.NonKey = []string{"v", "h"}
								}
							}
							chg := []adapt.IndexChange{{Create: &c}}
							if r.Intn(3) == 0 {
								// two or three indexes created by ONE request: each of them is filled from the items the table holds
								for _, c2 := range cands {
									if !have[c2.Name] && c2.Name != c.Name && len(chg) < 3 {
										cc := c2
										chg = append(chg, adapt.IndexChange{Create: &cc})
									}
								}
							}
							return adapt.Op{Kind: adapt.OpUpdateTable, Table: name, Chg: chg, NoDefs: len(chg) == 1 && r.Intn(3) == 0}
						}
					}
				}
				if r.Intn(4) == 0 {
					// several index changes in one request; the last one may fail (then none must be applied)
					chg := []adapt.IndexChange{}
					for _, ix := range t.Spec.Indexes {
						if !ix.Local && r.Intn(2) == 0 {
							chg = append(chg, adapt.IndexChange{Delete: ix.Name})
						}
					}
					if !have["gsi3"] && r.Intn(2) == 0 {
						chg = append(chg, adapt.IndexChange{Create: &adapt.IndexSpec{Name: "gsi3", Hash: "s"}})
					}
					if r.Intn(3) == 0 {
						chg = append(chg, adapt.IndexChange{Update: mon.Pick(r, []string{"gsi1", "gsi2", "gsi3", "nosuch"})})
					}
					if r.Intn(2) == 0 {
						chg = append(chg, adapt.IndexChange{Delete: "nosuch"})
					}
					if len(chg) > 0 {
						return adapt.Op{Kind: adapt.OpUpdateTable, Table: name, Chg: chg}
					}
				}
				if r.Intn(5) == 0 {
					// an index RE-KEYED under its own name in one request: delete X, then create X over other attributes
					// (afterwards X exists, with the new key schema, and holds the items that have the new key attributes)
					for _, ix := range t.Spec.Indexes {
						if !ix.Local {
							re := adapt.IndexSpec{Name: ix.Name, Hash: "s", Range: "g"}
							if ix.Hash == "s" {
								re = adapt.IndexSpec{Name: ix.Name, Hash: "g"}
							}
							return adapt.Op{Kind: adapt.OpUpdateTable, Table: name, Chg: []adapt.IndexChange{{Delete: ix.Name}, {Create: &re}}}
						}
					}
				}
				if r.Intn(5) == 0 {
					return adapt.Op{Kind: adapt.OpUpdateTable, Table: name, Chg: []adapt.IndexChange{{Update: mon.Pick(r, []string{"gsi1", "gsi2", "gsi3", "nosuch"})}}}
				}
				if len(t.Spec.Indexes) > 0 && r.Intn(8) == 0 {
					// an index under a name that is TAKEN (by a global or by the local index), with another key schema:
					// refused - the existing index is not replaced; alone or after a change that would succeed
					taken := mon.Pick(r, t.Spec.Indexes).Name
					chg := []adapt.IndexChange{{Create: &adapt.IndexSpec{Name: taken, Hash: "s", Range: "g"}}}
					if !have["gsi3"] && r.Intn(2) == 0 {
						chg = append([]adapt.IndexChange{{Create: &adapt.IndexSpec{Name: "gsi3", Hash: "s"}}}, chg...)
					}
					return adapt.Op{Kind: adapt.OpUpdateTable, Table: name, Chg: chg}
				}
				// (lsi1: the local index cannot be deleted by an UpdateTable - it is no global secondary index)
				del := mon.Pick(r, []string{"gsi1", "gsi2", "gsi3", "gsi4", "gsi5", "nosuch", "lsi1"})
				return adapt.Op{Kind: adapt.OpUpdateTable, Table: name, Chg: []adapt.IndexChange{{Delete: del}}}
			}
			return adapt.Op{Kind: adapt.OpUpdateTable, Table: name, Chg: []adapt.IndexChange{{Delete: "gsi1"}}}
		}
	case k < w.mgmt+w.helpers:
		if r.Intn(6) == 0 {
			// the metrics helper: configuration of BatchWriteItem OUTPUTS only - it changes no table and it does not
			// switch an emulated failure off (or on)
			tbl := ""
			if r.Intn(2) == 0 {
				tbl = name
			}
			return adapt.Op{Kind: adapt.OpSetMetrics, Table: tbl}
		}
		switch r.Intn(3) {
		case 0:
			s := adapt.TableSpec{Name: name, Hash: "h"}
			if r.Intn(2) == 0 {
				s.Range = "r"
			}
			return adapt.Op{Kind: adapt.OpAddTable, Spec: &s}
		case 1:
			return adapt.Op{Kind: adapt.OpClearTable, Table: name}
		default:
			if exists {
				have := map[string]bool{}
				for _, ix := range t.Spec.Indexes {
					have[ix.Name] = true
				}
				cands := []adapt.IndexSpec{{Name: "gsi3", Hash: "s"}, {Name: "gsi1", Hash: "g"}}
				if r.Intn(3) == 0 {
					// the helper (which declares every key attribute as a string) pointed at the table's own key
					// attributes: fine when they are strings, a refusal when they are numbers or binaries
					cands = append([]adapt.IndexSpec{{Name: "gsi5", Hash: "g", Range: "h"}}, cands...)
				}
				for _, cand := range cands {
					if !have[cand.Name] {
						c := cand
						return adapt.Op{Kind: adapt.OpAddIndex, Table: name, Ix: &c}
					}
				}
			}
			return adapt.Op{Kind: adapt.OpClearTable, Table: name}
		}
	case k < w.mgmt+w.helpers+w.data:
		key := genKey(r, spec)
		switch r.Intn(8) {
		case 0, 1, 2:
			return adapt.Op{Kind: adapt.OpPut, Table: name, Item: genItem(r, spec, salt)}
		case 3:
			return mon.SetUpdate(name, key, mon.Pick(r, []string{"g", "s", "v", "x"}), val.Str(mon.Pick(r, []string{"x", "y", "1", "10"})))
		case 4:
			return mon.RemoveUpdate(name, key, mon.Pick(r, []string{"g", "s", "x"}))
		case 5:
			return adapt.Op{Kind: adapt.OpDelete, Table: name, Key: key, RetOld: r.Intn(2) == 0}
		default:
			return adapt.Op{Kind: adapt.OpGet, Table: name, Key: key}
		}
	case k < w.mgmt+w.helpers+w.data+w.search:
		index := ""
		if exists && len(t.Spec.Indexes) > 0 && r.Intn(2) == 0 {
			index = mon.Pick(r, t.Spec.Indexes).Name
		}
		if exists && r.Intn(14) == 0 {
			// an index the table does not have (never had, or had until an UpdateTable deleted it)
			for _, cand := range []string{"gsi1", "gsi2", "gsi3", "lsi1", "gsi4", "gsi5", "nosuchindex"} {
				if _, ok := t.Index(cand); !ok && r.Intn(2) == 0 {
					if r.Intn(2) == 0 {
						return scanOp(name, cand, nil, val.Item{}, rrCanon)
					}
					return queryOp(name, cand, keyCondEq("g", ":h"), nil, val.Item{":h": val.Str("g1")}, false, rrCanon)
				}
			}
		}
		if r.Intn(2) == 0 {
			values := val.Item{}
			var f *refmodel.Cond
			if r.Intn(2) == 0 {
				f = typedFilter(r, values, "f")
			}
			return scanOp(name, index, f, values, rrCanon)
		}
		probe := genKey(r, adapt.TableSpec{Hash: "h", HashT: spec.HashT, Range: "r", RangeT: spec.RangeT})
		hashAttr, hv := "h", probe["h"]
		if r.Intn(5) == 0 {
			hv = genTyped(spec.HashT, "q") // a partition that is never written
		}
		if index != "" {
			ix, _ := t.Index(index)
			hashAttr = ix.Hash
			switch hashAttr {
			case "g":
				hv = val.Str(mon.Pick(r, ixGPool))
			case "s":
				hv = val.Str(mon.Pick(r, ixSPool))
			case "r":
				hv = probe["r"]
			}
		}
		q := queryOp(name, index, keyCondEq(hashAttr, ":h"), nil, val.Item{":h": hv}, r.Intn(2) == 0, rrCanon)
		// the explicit ConsistentRead=false is the default spelled out, on the table and on any index
		q.ConsistentFalse = r.Intn(4) == 0
		if !q.ConsistentFalse && r.Intn(4) == 0 && (index == "" || strings.HasPrefix(index, "lsi")) {
			q.Consistent = true
		}
		return q
	case k < w.mgmt+w.helpers+w.data+w.search+w.batch:
		// batches only name existing tables with valid, distinct keys (failing batches are C08's business)
		existing := []string{}
		for _, n := range genTableNames {
			if _, ok := m.Tables[n]; ok {
				existing = append(existing, n)
			}
		}
		if len(existing) == 0 {
			return adapt.Op{Kind: adapt.OpDescribe, Table: name}
		}
		n := 1 + r.Intn(6)
		// one batch in six is LARGE: 20-31 requests spread over the existing tables, i.e. around the limit of
		// 25 requests per call (which counts all tables together)
		large := r.Intn(6) == 0
		if large {
			n = 20 + r.Intn(12)
		}
		seen := map[string]bool{}
		if !w.noBatchGet && r.Intn(3) == 0 {
			gets := []adapt.BatchEntry{}
			for i := 0; i < n; i++ {
				tn := mon.Pick(r, existing)
				key := genKey(r, m.Tables[tn].Spec)
				if seen[tn+key.Canon()] {
					continue
				}
				seen[tn+key.Canon()] = true
				gets = append(gets, adapt.BatchEntry{Table: tn, Del: key})
			}
			if r.Intn(10) == 0 {
				// a table of the name pool that does not exist at this point (never created, or deleted): the call fails
				for _, n := range genTableNames {
					if _, ok := m.Tables[n]; !ok {
						gets = append(gets, adapt.BatchEntry{Table: n, Del: val.Item{"h": val.Str("p")}})
						break
					}
				}
			}
			return adapt.Op{Kind: adapt.OpBatchGet, Gets: gets}
		}
		batch := []adapt.BatchEntry{}
		for i := 0; i < n; i++ {
			tn := mon.Pick(r, existing)
			sp := m.Tables[tn].Spec
			it := genItem(r, sp, salt*10+i)
			if large {
				it["h"] = genTyped(sp.HashT, fmt.Sprint(1000+i))
			}
			key := m.Tables[tn].KeyOf(it)
			if seen[tn+key.Canon()] {
				continue
			}
			seen[tn+key.Canon()] = true
			if r.Intn(3) == 0 {
				batch = append(batch, adapt.BatchEntry{Table: tn, Del: key})
			} else {
				batch = append(batch, adapt.BatchEntry{Table: tn, Put: it})
			}
		}
		return adapt.Op{Kind: adapt.OpBatchWrite, Batch: batch}
	default:
		switch r.Intn(6) {
		case 0:
			return adapt.Op{Kind: adapt.OpEmulate, Fail: "internal_server"}
		case 1:
			return adapt.Op{Kind: adapt.OpEmulate, Fail: "deprecated"}
		case 2:
			return adapt.Op{Kind: adapt.OpForceOn}
		case 3:
			return adapt.Op{Kind: adapt.OpForceOff}
		case 4:
			return adapt.Op{Kind: adapt.OpTransact}
		default:
			return adapt.Op{Kind: adapt.OpEmulate, Fail: "none"}
		}
	}
}
