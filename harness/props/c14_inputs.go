//go:build verif

package props

import (
	"context"
	"fmt"
	v2types "github.com/aws/aws-sdk-go-v2/service/dynamodb/types"
	"reflect"
	"sort"
	"strings"

	v2aws "github.com/aws/aws-sdk-go-v2/aws"
	v2ddb "github.com/aws/aws-sdk-go-v2/service/dynamodb"
	"github.com/aws/aws-sdk-go/aws"
	v1ddb "github.com/aws/aws-sdk-go/service/dynamodb"
	v1client "github.com/truora/minidyn/aws-v1/client"
	v2client "github.com/truora/minidyn/aws-v2/client"

	"verifharness/adapt"
	"verifharness/mon"
	"verifharness/val"
)

// deepString renders everything reachable from v (through pointers, slices, maps, interfaces and the exported
// fields of structs): two renderings are equal iff nothing reachable was changed, added or set.
func deepString(v reflect.Value, depth int) string {
	if !v.IsValid() || depth > 14 {
		return "<>"
	}
	switch v.Kind() {
	case reflect.Ptr, reflect.Interface:
		if v.IsNil() {
			return "nil"
		}
		return "&" + deepString(v.Elem(), depth+1)
	case reflect.Struct:
		parts := []string{}
		for i := 0; i < v.NumField(); i++ {
			if v.Type().Field(i).PkgPath != "" {
				continue
			}
			parts = append(parts, v.Type().Field(i).Name+":"+deepString(v.Field(i), depth+1))
		}
		return "{" + strings.Join(parts, ",") + "}"
	case reflect.Map:
		if v.IsNil() {
			return "nilmap"
		}
		parts := []string{}
		for _, k := range v.MapKeys() {
			parts = append(parts, fmt.Sprint(k.Interface())+"=>"+deepString(v.MapIndex(k), depth+1))
		}
		sort.Strings(parts)
		return "map[" + strings.Join(parts, ",") + "]"
	case reflect.Slice:
		if v.IsNil() {
			return "nilslice"
		}
		fallthrough
	case reflect.Array:
		parts := []string{}
		for i := 0; i < v.Len(); i++ {
			parts = append(parts, deepString(v.Index(i), depth+1))
		}
		return "[" + strings.Join(parts, ",") + "]"
	}
	return fmt.Sprintf("%v", v.Interface())
}

// unorderedString is deepString with the elements of every slice sorted: equal iff nothing reachable was changed,
// whatever order the library lists things in. Unexported fields (the SDK v2 document types carry some) are skipped.
func unorderedString(v reflect.Value, depth int) string {
	if !v.IsValid() || depth > 14 {
		return "<>"
	}
	switch v.Kind() {
	case reflect.Ptr, reflect.Interface:
		if v.IsNil() {
			return "nil"
		}
		return "&" + unorderedString(v.Elem(), depth+1)
	case reflect.Struct:
		parts := []string{}
		for i := 0; i < v.NumField(); i++ {
			if v.Type().Field(i).PkgPath != "" {
				continue
			}
			parts = append(parts, v.Type().Field(i).Name+":"+unorderedString(v.Field(i), depth+1))
		}
		return "{" + strings.Join(parts, ",") + "}"
	case reflect.Map:
		parts := []string{}
		for _, k := range v.MapKeys() {
			parts = append(parts, fmt.Sprint(k.Interface())+"=>"+unorderedString(v.MapIndex(k), depth+1))
		}
		sort.Strings(parts)
		return "map[" + strings.Join(parts, ",") + "]"
	case reflect.Slice, reflect.Array:
		parts := []string{}
		for i := 0; i < v.Len(); i++ {
			parts = append(parts, unorderedString(v.Index(i), depth+1))
		}
		sort.Strings(parts)
		return "[" + strings.Join(parts, ",") + "]"
	}
	return fmt.Sprintf("%v", v.Interface())
}

// inputsUntouched: the request structures belong to the caller. Whatever a call does with a request - also one
// that leaves optional fields unset, and one that is refused - the structure is, field for field and pointer for
// pointer, what it was before the call (a caller may share one request between goroutines, or send it again).
func (p *c14) inputsUntouched(x *res, adapter string) {
	spec := mon.SpecHashRange("tbl14i")
	cl, _, ds := freshClient(adapter, spec)
	if ds != nil {
		return
	}
	cl.Do(adapt.Op{Kind: adapt.OpPut, Table: spec.Name, Item: val.Item{"h": val.Str("k"), "r": val.Str("1"), "a": val.Str("x")}})
	ctx := context.Background()
	type call struct {
		name string
		in   interface{}
		do   func()
	}
	calls := []call{}
	key := val.Item{"h": val.Str("k"), "r": val.Str("1")}
	hv := val.Item{":h": val.Str("k")}
	if adapter == "v1" {
		c := cl.Raw().(*v1client.Client)
		q := &v1ddb.QueryInput{TableName: aws.String(spec.Name), KeyConditionExpression: aws.String("h = :h"), ExpressionAttributeValues: adapt.ItemToV1(hv)}
		qf := &v1ddb.QueryInput{TableName: aws.String(spec.Name), KeyConditionExpression: aws.String("h = :h"), ExpressionAttributeValues: adapt.ItemToV1(hv), ScanIndexForward: aws.Bool(false), Limit: aws.Int64(1)}
		qbad := &v1ddb.QueryInput{TableName: aws.String(spec.Name), KeyConditionExpression: aws.String("h = :h"), ExpressionAttributeValues: adapt.ItemToV1(hv), IndexName: aws.String("nosuchindex")}
		sc := &v1ddb.ScanInput{TableName: aws.String(spec.Name)}
		g := &v1ddb.GetItemInput{TableName: aws.String(spec.Name), Key: adapt.ItemToV1(key)}
		pu := &v1ddb.PutItemInput{TableName: aws.String(spec.Name), Item: adapt.ItemToV1(val.Item{"h": val.Str("k"), "r": val.Str("2")})}
		up := &v1ddb.UpdateItemInput{TableName: aws.String(spec.Name), Key: adapt.ItemToV1(key), UpdateExpression: aws.String("SET b = :h"), ExpressionAttributeValues: adapt.ItemToV1(hv)}
		de := &v1ddb.DeleteItemInput{TableName: aws.String(spec.Name), Key: adapt.ItemToV1(val.Item{"h": val.Str("k"), "r": val.Str("9")})}
		bw := &v1ddb.BatchWriteItemInput{RequestItems: map[string][]*v1ddb.WriteRequest{spec.Name: {{PutRequest: &v1ddb.PutRequest{Item: adapt.ItemToV1(val.Item{"h": val.Str("k"), "r": val.Str("3")})}}}}}
		ct := adapt.V1CreateInput(&adapt.TableSpec{Name: "tbl14j", Hash: "h", Billing: "PAY_PER_REQUEST", Indexes: []adapt.IndexSpec{{Name: "gsi1", Hash: "g"}}})
		dt := &v1ddb.DescribeTableInput{TableName: aws.String(spec.Name)}
		calls = []call{{"Query", q, func() { c.Query(q) }}, {"Query(descending, Limit)", qf, func() { c.Query(qf) }}, {"Query(refused)", qbad, func() { c.Query(qbad) }}, {"Scan", sc, func() { c.Scan(sc) }},
			{"GetItem", g, func() { c.GetItem(g) }}, {"PutItem", pu, func() { c.PutItem(pu) }}, {"UpdateItem", up, func() { c.UpdateItem(up) }}, {"DeleteItem", de, func() { c.DeleteItem(de) }},
			{"BatchWriteItem", bw, func() { c.BatchWriteItem(bw) }}, {"CreateTable", ct, func() { c.CreateTable(ct) }}, {"DescribeTable", dt, func() { c.DescribeTable(dt) }}}
	} else {
		c := cl.Raw().(*v2client.Client)
		q := &v2ddb.QueryInput{TableName: v2aws.String(spec.Name), KeyConditionExpression: v2aws.String("h = :h"), ExpressionAttributeValues: adapt.ItemToV2(hv)}
		qf := &v2ddb.QueryInput{TableName: v2aws.String(spec.Name), KeyConditionExpression: v2aws.String("h = :h"), ExpressionAttributeValues: adapt.ItemToV2(hv), ScanIndexForward: v2aws.Bool(false), Limit: v2aws.Int32(1)}
		qbad := &v2ddb.QueryInput{TableName: v2aws.String(spec.Name), KeyConditionExpression: v2aws.String("h = :h"), ExpressionAttributeValues: adapt.ItemToV2(hv), IndexName: v2aws.String("nosuchindex")}
		sc := &v2ddb.ScanInput{TableName: v2aws.String(spec.Name)}
		g := &v2ddb.GetItemInput{TableName: v2aws.String(spec.Name), Key: adapt.ItemToV2(key)}
		pu := &v2ddb.PutItemInput{TableName: v2aws.String(spec.Name), Item: adapt.ItemToV2(val.Item{"h": val.Str("k"), "r": val.Str("2")})}
		up := &v2ddb.UpdateItemInput{TableName: v2aws.String(spec.Name), Key: adapt.ItemToV2(key), UpdateExpression: v2aws.String("SET b = :h"), ExpressionAttributeValues: adapt.ItemToV2(hv)}
		de := &v2ddb.DeleteItemInput{TableName: v2aws.String(spec.Name), Key: adapt.ItemToV2(val.Item{"h": val.Str("k"), "r": val.Str("9")})}
		ct := adapt.V2CreateInput(&adapt.TableSpec{Name: "tbl14j", Hash: "h", Billing: "PAY_PER_REQUEST", Indexes: []adapt.IndexSpec{{Name: "gsi1", Hash: "g"}}})
		dt := &v2ddb.DescribeTableInput{TableName: v2aws.String(spec.Name)}
		bw := &v2ddb.BatchWriteItemInput{RequestItems: map[string][]v2types.WriteRequest{spec.Name: {{PutRequest: &v2types.PutRequest{Item: adapt.ItemToV2(val.Item{"h": val.Str("k"), "r": val.Str("3")})}},
			{DeleteRequest: &v2types.DeleteRequest{Key: adapt.ItemToV2(val.Item{"h": val.Str("k"), "r": val.Str("8")})}}}}}
		// a batch read whose key list holds stored keys around one that is not stored (and one that is malformed):
		// the list is the caller's, also afterwards - the request can be sent again as it is
		bg := &v2ddb.BatchGetItemInput{RequestItems: map[string]v2types.KeysAndAttributes{spec.Name: {ConsistentRead: v2aws.Bool(true), ProjectionExpression: v2aws.String("#h, r"), ExpressionAttributeNames: map[string]string{"#h": "h"},
			Keys: []map[string]v2types.AttributeValue{adapt.ItemToV2(key), adapt.ItemToV2(val.Item{"h": val.Str("k"), "r": val.Str("not stored")}), adapt.ItemToV2(val.Item{"h": val.Str("k"), "r": val.Str("2")}), adapt.ItemToV2(val.Item{"h": val.Str("k")}), adapt.ItemToV2(val.Item{"h": val.Str("k"), "r": val.Str("3")})}}}}
		calls = []call{{"Query", q, func() { c.Query(ctx, q) }}, {"Query(descending, Limit)", qf, func() { c.Query(ctx, qf) }}, {"Query(refused)", qbad, func() { c.Query(ctx, qbad) }}, {"Scan", sc, func() { c.Scan(ctx, sc) }},
			{"GetItem", g, func() { c.GetItem(ctx, g) }}, {"PutItem", pu, func() { c.PutItem(ctx, pu) }}, {"UpdateItem", up, func() { c.UpdateItem(ctx, up) }}, {"DeleteItem", de, func() { c.DeleteItem(ctx, de) }},
			{"BatchWriteItem", bw, func() { c.BatchWriteItem(ctx, bw) }}, {"BatchGetItem", bg, func() { c.BatchGetItem(ctx, bg) }}, {"BatchGetItem(again)", bg, func() { c.BatchGetItem(ctx, bg) }},
			{"CreateTable", ct, func() { c.CreateTable(ctx, ct) }}, {"DescribeTable", dt, func() { c.DescribeTable(ctx, dt) }}}
	}
	for _, cc := range calls {
		before := deepString(reflect.ValueOf(cc.in), 0)
		func() {
			defer func() { _ = recover() }()
			cc.do()
		}()
		after := deepString(reflect.ValueOf(cc.in), 0)
		x.r.Evals++
		x.r.Counters["requests_compared_before_and_after"]++
		x.fp(true, "%s|untouched|%s", adapter, cc.name)
		if before != after {
			x.viol("request-modified-by-the-call", adapter+"/"+cc.name, fmt.Sprintf("[%s] %s changed the caller's request structure:\nbefore %s\nafter  %s", adapter, cc.name, before, after), map[string]interface{}{"adapter": adapter, "call": cc.name})
		}
	}
}
