package props

import (
	"verifharness/adapt"
	"verifharness/refmodel"
)

func refmodelRenderCanon() refmodel.RenderOpts { return refmodel.RenderOpts{} }

// indexDiag returns white-box index state for witnesses when the verif hooks are compiled
// in (see diag_verif.go); diagnostic only, never a verdict.
var indexDiag = func(cl adapt.Client, table string) interface{} { return nil }
