package props

import (
	"fmt"
	"sort"
	"strings"

	"verifharness/adapt"
	"verifharness/mon"
	"verifharness/refmodel"
	"verifharness/runner"
	"verifharness/val"
)

// C16 – DynamoDB usage restrictions are detected.
type c16 struct{ base }

func init() {
	runner.Register(&c16{base{id: "C16", level: "exploration",
		rule: "R1 exhaustive: all 573 reserved words x 3 letter cases x every bare-name position {comparison left/right, function argument, BETWEEN subject and bound, IN subject and member, head of a dotted / indexed path, SET target, SET source, REMOVE / ADD / DELETE target, if_not_exists / list_append argument} must be rejected; converse: the same positions with '#alias -> reserved word' and with 200 non-reserved names must be accepted. R2/R3 exhaustive: every relation between supplied and used placeholder sets over 4 value names and 4 attribute names, two pools each (letters :a :ab :abc :b / #n #na #nab #m, and digit-first / underscore / mixed case :0 :01 :_ :A1 / #0 #01 #_ #A1; two names in each pool are prefixes of another): 16x16 per kind and pool, on Scan filter, Query, PutItem / DeleteItem condition and UpdateItem, both adapters: accepted iff supplied = used. R4 malformed placeholder keys. R5 key conditions: the legal shapes must be accepted, the illegal ones rejected. R6 batch: neither/both of put and delete, sizes 24/25/26/50 over 1-3 tables. non-trivial = the request breaks exactly one rule or none; distinct by (rule, position/configuration). Reserved words as the NAME of the table's own key attribute (hash-only and hash+range tables): Put / Delete / Update guarded by attribute_exists(word) / attribute_not_exists(word) written out must be refused. Write requests with both members of which one is allocated but empty. UpdateItem without UpdateExpression carrying a placeholder defect (unused / undefined name, unused value, names or values without any expression, malformed keys, a reserved word) is refused.",
		assumptions: append([]string{"the frozen 573-word reserved list (refmodel/reserved.go) equals DynamoDB's"}, commonAssumptions...)}})
}

type c16Pos struct {
	name   string
	update bool
	mk     func(w string) string
}

var c16Positions = []c16Pos{
	{"cmp-left", false, func(w string) string { return w + " = :v" }},
	{"cmp-right", false, func(w string) string { return "a = " + w }},
	{"fn-arg", false, func(w string) string { return "attribute_exists(" + w + ")" }},
	{"fn-arg2", false, func(w string) string { return "begins_with(" + w + ", :v)" }},
	{"size-arg", false, func(w string) string { return "size(" + w + ") > :n" }},
	{"between-subject", false, func(w string) string { return w + " BETWEEN :v AND :v" }},
	{"between-bound", false, func(w string) string { return "a BETWEEN " + w + " AND :v" }},
	{"in-subject", false, func(w string) string { return w + " IN (:v)" }},
	{"in-member", false, func(w string) string { return "a IN (:v, " + w + ")" }},
	{"path-head-dot", false, func(w string) string { return w + ".x = :v" }},
	{"path-head-index", false, func(w string) string { return w + "[0] = :v" }},
	{"under-not-and", false, func(w string) string { return "NOT (a = :v AND " + w + " <> :v)" }},
	// the same without any space around the comparator, and on continuation lines
	{"cmp-right-tight-ne", false, func(w string) string { return "a<>" + w }},
	{"cmp-right-tight-lt", false, func(w string) string { return "a<" + w }},
	{"cmp-right-tight-ge", false, func(w string) string { return "a>=" + w }},
	{"cmp-right-tight-eq", false, func(w string) string { return "a=" + w }},
	{"cmp-left-tight", false, func(w string) string { return w + "<>:v" }},
	{"size-cmp-tight", false, func(w string) string { return "size(a)<" + w }},
	{"second-line-crlf", false, func(w string) string { return "a = :v\r\nAND " + w + "\r\n= :v" }},
	{"second-line-tab", false, func(w string) string { return "a = :v\n\tAND\t" + w + "\t<> :v" }},
	{"set-target-tight", true, func(w string) string { return "SET " + w + "=:v" }},
	{"set-source-tight", true, func(w string) string { return "SET a=" + w }},
	{"set-target", true, func(w string) string { return "SET " + w + " = :v" }},
	{"set-target-second", true, func(w string) string { return "SET a = :v, " + w + " = :v" }},
	{"set-source", true, func(w string) string { return "SET a = " + w }},
	{"set-source-plus", true, func(w string) string { return "SET a = " + w + " + :n" }},
	{"remove-target", true, func(w string) string { return "REMOVE " + w }},
	{"remove-second", true, func(w string) string { return "REMOVE a, " + w }},
	{"add-target", true, func(w string) string { return "ADD " + w + " :n" }},
	{"delete-target", true, func(w string) string { return "DELETE " + w + " :s" }},
	{"ifne-arg", true, func(w string) string { return "SET a = if_not_exists(" + w + ", :v)" }},
	{"append-arg", true, func(w string) string { return "SET a = list_append(" + w + ", :l)" }},
	{"set-path-head", true, func(w string) string { return "SET " + w + ".x = :v" }},
	// below the top level: a reserved word is no bare name at ANY step of a document path
	{"path-member-dot", false, func(w string) string { return "mm." + w + " = :v" }},
	{"path-member-function", false, func(w string) string { return "attribute_exists(mm." + w + ")" }},
	{"set-path-member", true, func(w string) string { return "SET mm." + w + " = :v" }},
	{"remove-path-member", true, func(w string) string { return "REMOVE mm." + w }},
}

var c16Values = val.Item{":v": val.Str("x"), ":n": val.Num("1"), ":s": val.SS("x"), ":l": val.List(val.Str("x"))}

func neededValues(expr string) val.Item {
	out := val.Item{}
	for _, t := range tokenize(expr) {
		if v, ok := c16Values[t]; ok {
			out[t] = v
		}
	}
	return out
}

var c16NonReserved []string

func init() {
	res := map[string]bool{}
	for _, w := range refmodel.ReservedWords {
		res[w] = true
	}
	// names that only LOOK reserved: a reserved word with a letter more or less, the plural, a prefix, the dictionary
	// spelling of the list's own misspellings (FLATTERN, LOGED, INNTER are the reserved words; FLATTEN and LOGGED are not)
	for _, n := range []string{"flatten", "logged", "flattened", "logger", "statuses", "names", "datas", "sizes"} {
		if !res[strings.ToUpper(n)] {
			c16NonReserved = append(c16NonReserved, n)
		}
	}
	for i, w := range refmodel.ReservedWords {
		for _, n := range []string{strings.ToLower(w) + "s", strings.ToLower(w) + "_x", "my" + strings.ToLower(w), strings.ToLower(w[:len(w)-1])} {
			if i%3 == len(n)%3 && len(n) > 1 && !res[strings.ToUpper(n)] {
				c16NonReserved = append(c16NonReserved, n)
			}
		}
	}
	bases := []string{"color", "price", "qty", "sku", "title", "owner", "email", "flag", "score", "city", "zip", "lat", "lon", "tags", "notes", "created", "updated", "kind", "weight", "height"}
	for _, b := range bases {
		for i := 0; i < 10; i++ {
			n := fmt.Sprintf("%s%d", b, i)
			if !res[strings.ToUpper(n)] {
				c16NonReserved = append(c16NonReserved, n)
			}
		}
	}
}

const c16WordsPerCase = 20

func (p *c16) NumCases(tier string) int {
	return (len(refmodel.ReservedWords)+c16WordsPerCase-1)/c16WordsPerCase + 1 + 8 + 1 + 2 + 2 + 2
}

func evalExpr(expr string, update bool, names map[string]string, values val.Item, item val.Item) (string, string, string) {
	if update {
		got, msg, site, _ := updateDirect(expr, names, item, values)
		return got, msg, site
	}
	got, msg, site, _ := matchDirect(expr, names, item, values)
	switch got {
	case 0:
		return "panic", msg, site
	case refmodel.R:
		return "reject", msg, site
	}
	return "ok", msg, site
}

func (p *c16) reserved(x *res, words []string, ctx *runner.Ctx) {
	items := []val.Item{{"a": val.Str("x"), "l": val.List(val.Str("x")), "mm": val.Map(map[string]val.V{"k": val.Str("x")})}, {"zzz": val.Str("only an unrelated attribute")}}
	for _, w := range words {
		variants := []string{w, strings.ToLower(w), w[:1] + strings.ToLower(w[1:])}
		for vi, wv := range variants {
			for pi, pos := range c16Positions {
				expr := pos.mk(wv)
				ctx.Trace("reserved %q", expr)
				// against an item that has the other attributes the expression names, and (rotating) against
				// one that has none of them: detection must not depend on the stored data
				item := items[0]
				if (vi+pi)%2 == 1 {
					item = items[1]
				}
				got, msg, site := evalExpr(expr, pos.update, nil, neededValues(expr), item)
				x.r.Evals++
				x.fp(true, "R1|%s|%s|%d", pos.name, w, vi)
				wit := map[string]interface{}{"expression": expr, "word": w, "position": pos.name, "got": got, "msg": msg}
				switch got {
				case "panic":
					x.viol("runtime-panic", site, fmt.Sprintf("reserved word %s at %s: %q panics at %s: %s", w, pos.name, expr, site, msg), wit)
				case "ok":
					if pos.update && (vi+pi)%2 == 1 {
						// on the item without the source attributes an update may legitimately fail for other
						// reasons, but it cannot succeed either; fall through to the violation
					}
					feat := pos.name + "/" + []string{"upper", "lower", "capitalized"}[vi]
					if strings.Contains(pos.name, "path-member") {
						feat = "path-member" // ONE listed finding: the check stops at the first step of a document path
					}
					x.viol("reserved-word-accepted", feat, fmt.Sprintf("reserved word %q used as a bare attribute name (%s) is accepted: %q", wv, pos.name, expr), wit)
				}
				// the update positions through the clients, behind a condition that is FALSE (the item does not exist):
				// the reserved word makes the request invalid, whatever the condition says - it is not answered with
				// the failure of the condition, as if the expression were fine
				if pos.update && vi == 0 && !strings.Contains(pos.name, "path-member") {
					for _, adapter := range adapt.Adapters {
						spec := mon.SpecHashOnly("tbl16r")
						cl, _, ds := freshClient(adapter, spec)
						if ds != nil {
							break
						}
						o := cl.Do(adapt.Op{Kind: adapt.OpUpdate, Table: spec.Name, Key: val.Item{"h": val.Str("absent")}, Update: expr, Values: neededValues(expr), Cond: "attribute_exists(h)"})
						x.r.Evals++
						x.r.Counters["reserved_words_behind_a_false_condition"]++
						if o.Class == adapt.ClsCondFailed || o.Class == adapt.ClsOK {
							x.viol("reserved-word-accepted", "behind-a-false-condition/"+pos.name, fmt.Sprintf("[%s] UpdateItem %q with a condition that is false is answered %s: the reserved word %q went unnoticed", adapter, expr, o.Class, wv), wit)
						}
					}
				}
				// the word as the name of the table's OWN key attribute (tables keyed by "name", "key", "hash", "status" are
				// common): a write guarded by attribute_exists(<word>) / attribute_not_exists(<word>) with the name written
				// out is as invalid there as anywhere - whether or not the guard could be answered from the key alone
				if pi == 0 && vi < 2 {
					for _, adapter := range adapt.Adapters {
						spec := adapt.TableSpec{Name: "tbl16k", Hash: wv, HashT: "S", Billing: "PAY_PER_REQUEST"}
						if vi == 1 {
							spec.Range, spec.RangeT = "r", "N"
						}
						cl, _, ds := freshClient(adapter, spec)
						if ds != nil {
							break
						}
						key := val.Item{wv: val.Str("k1")}
						if spec.Range != "" {
							key["r"] = val.Num("1")
						}
						stored := key.Clone()
						stored["v"] = val.Str("x")
						cl.Do(adapt.Op{Kind: adapt.OpPut, Table: spec.Name, Item: stored})
						for _, guard := range []string{"attribute_exists(" + wv + ")", "attribute_not_exists(" + wv + ")", " attribute_exists ( " + wv + " ) "} {
							for _, op := range []adapt.Op{{Kind: adapt.OpPut, Table: spec.Name, Item: stored, Cond: guard}, {Kind: adapt.OpDelete, Table: spec.Name, Key: key, Cond: guard},
								{Kind: adapt.OpUpdate, Table: spec.Name, Key: key, Update: "SET v = :v", Values: val.Item{":v": val.Str("y")}, Cond: guard}} {
								o := cl.Do(op)
								x.r.Evals++
								x.r.Counters["reserved_words_naming_the_table_key"]++
								if o.Class == adapt.ClsRuntime {
									x.viol("runtime-panic", o.Site, fmt.Sprintf("[%s] %s guarded by %q on a table keyed by %q panics: %s", adapter, op.Kind, guard, wv, o.Msg), wit)
								} else if o.Class == adapt.ClsCondFailed || o.Class == adapt.ClsOK {
									x.viol("reserved-word-accepted", "key-attribute-guard/"+string(op.Kind), fmt.Sprintf("[%s] %s guarded by %q on a table whose key attribute is named %q is answered %s: the reserved word went unnoticed", adapter, op.Kind, guard, wv, o.Class), wit)
								}
							}
						}
					}
				}
				// converse through an alias: must be accepted
				if vi == 0 {
					aexpr := pos.mk("#w")
					got2, msg2, site2 := evalExpr(aexpr, pos.update, map[string]string{"#w": wv}, neededValues(aexpr), aliasItem(pos, wv))
					x.r.Evals++
					if got2 == "panic" {
						x.viol("runtime-panic", site2, fmt.Sprintf("alias for reserved word %s at %s panics: %s", w, pos.name, msg2), wit)
					} else if got2 != "ok" {
						x.viol("aliased-reserved-word-rejected", pos.name, fmt.Sprintf("#alias -> %q at %s is rejected although the restriction does not apply to aliases: %q: %s", wv, pos.name, aexpr, msg2), map[string]interface{}{"expression": aexpr, "names": map[string]string{"#w": wv}, "msg": msg2})
					}
				}
			}
		}
	}
}

// aliasItem builds an item in which the aliased attribute has a type that makes the
// expression well-typed (so that a rejection can only be due to the name).
func aliasItem(pos c16Pos, name string) val.Item {
	it := val.Item{"a": val.Str("x"), "l": val.List(val.Str("x"))}
	switch pos.name {
	case "path-member-dot", "path-member-function", "set-path-member", "remove-path-member":
		it["mm"] = val.Map(map[string]val.V{name: val.Str("x"), "k": val.Str("x")})
		return it
	case "path-head-dot", "set-path-head":
		it[name] = val.Map(map[string]val.V{"x": val.Str("x")})
	case "path-head-index", "append-arg":
		it[name] = val.List(val.Str("x"))
	case "set-source-plus", "add-target":
		it[name] = val.Num("1")
	case "delete-target":
		it[name] = val.SS("x", "y")
	default:
		it[name] = val.Str("x")
	}
	return it
}

func (p *c16) nonReserved(x *res, ctx *runner.Ctx) {
	for _, n := range c16NonReserved {
		for _, pos := range c16Positions {
			expr := pos.mk(n)
			got, msg, site := evalExpr(expr, pos.update, nil, neededValues(expr), aliasItem(pos, n))
			x.r.Evals++
			x.fp(true, "R1c|%s|%s", pos.name, n)
			if got == "panic" {
				x.viol("runtime-panic", site, fmt.Sprintf("%q panics: %s", expr, msg), nil)
			} else if got != "ok" {
				x.viol("non-reserved-name-rejected", pos.name, fmt.Sprintf("non-reserved name %q at %s is rejected: %q: %s", n, pos.name, expr, msg), map[string]interface{}{"expression": expr, "msg": msg})
			}
		}
	}
}

// aliased: through a #name placeholder ANY attribute name may be used - names that are no identifiers, names that
// look like placeholders themselves ("#h", ":x" are legal attribute names), names with blanks or leading digits.
// None of the usage restrictions applies to what a placeholder stands for.
func (p *c16) aliased(x *res, ctx *runner.Ctx) {
	for _, n := range []string{"#h", "#w", "#", ":x", ":", "##", "a-b", "1a", "a b", " a", "é", "a#b", "a:b", "_", "0"} {
		for _, pos := range c16Positions {
			expr := pos.mk("#w")
			names := map[string]string{"#w": n}
			got, msg, site := evalExpr(expr, pos.update, names, neededValues(expr), aliasItem(pos, n))
			x.r.Evals++
			x.fp(true, "R1d|%s|%s", pos.name, n)
			if got == "panic" {
				x.viol("runtime-panic", site, fmt.Sprintf("%q with #w -> %q panics: %s", expr, n, msg), nil)
			} else if got != "ok" {
				x.viol("aliased-name-rejected", pos.name, fmt.Sprintf("'#w' -> %q at %s is rejected although any attribute name may stand behind a placeholder: %q: %s", n, pos.name, expr, msg), map[string]interface{}{"expression": expr, "names": names, "msg": msg})
			}
		}
	}
}

// two pools per kind: letters only, and digit-first / underscore / mixed-case names (what the SDK expression
// builders emit: #0, #1, :0 ...); within each pool two names are prefixes of another one
// (third pool: names that differ only in the CASE of a letter are different placeholders)
var c16ValPools = [][]string{{":a", ":ab", ":abc", ":b"}, {":0", ":01", ":_", ":A1"}, {":v", ":V", ":va", ":Va"}}
var c16AttrPools = [][]string{{"#n", "#na", "#nab", "#m"}, {"#0", "#01", "#_", "#A1"}, {"#s", "#S", "#st", "#St"}}

func subsetOf(names []string, mask int) []string {
	out := []string{}
	for i, n := range names {
		if mask&(1<<i) != 0 {
			out = append(out, n)
		}
	}
	return out
}

func (p *c16) placeholders(x *res, adapter string, kind string, pool int, ctx *runner.Ctx) {
	spec := mon.SpecHashOnly("tbl16")
	c16ValNames, c16AttrNames := c16ValPools[pool], c16AttrPools[pool]
	attrOf := map[string]string{}
	for i, n := range c16AttrNames {
		attrOf[n] = []string{"p", "q", "r", "s"}[i]
	}
	for used := 0; used < 16; used++ {
		for supplied := 0; supplied < 16; supplied++ {
			var usedNames []string
			var suppliedNames []string
			if kind == "values" {
				usedNames, suppliedNames = subsetOf(c16ValNames, used), subsetOf(c16ValNames, supplied)
			} else {
				usedNames, suppliedNames = subsetOf(c16AttrNames, used), subsetOf(c16AttrNames, supplied)
			}
			// expression using exactly usedNames
			clauses := []string{}
			values := val.Item{}
			names := map[string]string{}
			for i, u := range usedNames {
				if kind == "values" {
					clauses = append(clauses, fmt.Sprintf("%s = %s", []string{"p", "q", "r", "s"}[i], u))
				} else {
					clauses = append(clauses, fmt.Sprintf("%s = :k", u))
				}
			}
			if kind == "names" && len(usedNames) > 0 {
				values[":k"] = val.Str("x")
			}
			for _, s := range suppliedNames {
				if kind == "values" {
					values[s] = val.Str("x")
				} else {
					names[s] = attrOf[s]
				}
			}
			expr := strings.Join(clauses, " AND ")
			valid := strings.Join(usedNames, ",") == strings.Join(suppliedNames, ",")
			var nm map[string]string
			if len(names) > 0 {
				nm = names
			}
			var vs val.Item
			if len(values) > 0 {
				vs = values
			}
			key := val.Item{"h": val.Str("k")}
			ops := map[string]adapt.Op{
				"scan":   {Kind: adapt.OpScan, Table: spec.Name, Filter: expr, Names: nm, Values: vs},
				"put":    {Kind: adapt.OpPut, Table: spec.Name, Item: val.Item{"h": val.Str("k"), "p": val.Str("x"), "q": val.Str("x"), "r": val.Str("x"), "s": val.Str("x")}, Cond: expr, Names: nm, Values: vs},
				"delete": {Kind: adapt.OpDelete, Table: spec.Name, Key: key, Cond: expr, Names: nm, Values: vs},
			}
			// query: key condition always uses :h / h; the filter carries the placeholders
			qv := val.Item{":h": val.Str("k")}
			for k, v := range values {
				qv[k] = v
			}
			ops["query"] = adapt.Op{Kind: adapt.OpQuery, Table: spec.Name, KeyCnd: "h = :h", Filter: expr, Names: nm, Values: qv}
			// update: SET w = :w plus condition
			uv2 := val.Item{":w": val.Str("y")}
			for k, v := range values {
				uv2[k] = v
			}
			ops["update"] = adapt.Op{Kind: adapt.OpUpdate, Table: spec.Name, Key: key, Update: "SET w = :w", Cond: expr, Names: nm, Values: uv2}
			opNames := []string{"delete", "put", "query", "scan", "update"}
			if kind == "names" && len(usedNames) > 0 {
				// the same #names used in a ProjectionExpression (alone, and split between projection and filter):
				// a placeholder counts as used wherever in the request it occurs
				proj := strings.Join(usedNames, ", ")
				ops["get-projection"] = adapt.Op{Kind: adapt.OpGet, Table: spec.Name, Key: key, Proj: proj, Names: nm}
				ops["scan-projection"] = adapt.Op{Kind: adapt.OpScan, Table: spec.Name, Proj: proj, Names: nm}
				ops["query-projection"] = adapt.Op{Kind: adapt.OpQuery, Table: spec.Name, KeyCnd: "h = :h", Proj: proj, Names: nm, Values: val.Item{":h": val.Str("k")}}
				opNames = append(opNames, "get-projection", "scan-projection", "query-projection")
				if len(usedNames) > 1 {
					ops["scan-projection+filter"] = adapt.Op{Kind: adapt.OpScan, Table: spec.Name, Proj: usedNames[0], Filter: strings.Join(clauses[1:], " AND "), Names: nm, Values: vs}
					opNames = append(opNames, "scan-projection+filter")
				}
			}
			sort.Strings(opNames)
			for _, on := range opNames {
				op := ops[on]
				if expr == "" && len(suppliedNames) == 0 && on != "query" && on != "update" {
					continue
				}
				cl, _, ds := freshClient(adapter, spec)
				if ds != nil {
					return
				}
				cl.Do(adapt.Op{Kind: adapt.OpPut, Table: spec.Name, Item: val.Item{"h": val.Str("k"), "p": val.Str("x"), "q": val.Str("x"), "r": val.Str("x"), "s": val.Str("x")}})
				ctx.Trace("%s placeholders %s", adapter, op.String())
				got := cl.Do(op)
				x.r.Evals++
				x.fp(true, "R23|%s|%s|%d|%s|%d|%d", adapter, kind, pool, on, used, supplied)
				x.set("classes", got.Class)
				wit := map[string]interface{}{"adapter": adapter, "op": op, "used": usedNames, "supplied": suppliedNames, "outcome": got}
				accepted := got.Class == adapt.ClsOK || got.Class == adapt.ClsCondFailed
				rel := relation(usedNames, suppliedNames)
				switch {
				case got.Class == adapt.ClsRuntime:
					x.viol("runtime-panic", got.Site, fmt.Sprintf("[%s] %s: panic at %s: %s", adapter, on, got.Site, got.Msg), wit)
				case valid && !accepted:
					x.viol("valid-placeholders-rejected", kind+"/"+on, fmt.Sprintf("[%s] %s with %s used=%v supplied=%v is rejected (%s: %s)", adapter, on, kind, usedNames, suppliedNames, got.Class, got.Msg), wit)
				case !valid && accepted:
					if kind == "values" && strings.HasPrefix(rel, "unused") {
						// listed finding: a supplied value key counts as used when it is a SUBSTRING of the
						// expression text; an unused key that is no substring must still be rejected
						all := true
						text := expr
						if on == "update" {
							text = "SET w = :w " + expr
						} else if on == "query" {
							text = "h = :h " + expr
						}
						for _, sname := range suppliedNames {
							isUsed := false
							for _, u := range usedNames {
								if u == sname {
									isUsed = true
								}
							}
							if !isUsed && !strings.Contains(text, sname) {
								all = false
							}
						}
						if all {
							rel += "~substring"
						}
					}
					x.viol("placeholder-rule-not-enforced", kind+"/"+rel, fmt.Sprintf("[%s] %s with %s used=%v supplied=%v (%s) is accepted (class %s)", adapter, on, kind, usedNames, suppliedNames, rel, got.Class), wit)
				}
			}
		}
	}
}

func relation(used, supplied []string) string {
	u := map[string]bool{}
	for _, n := range used {
		u[n] = true
	}
	s := map[string]bool{}
	for _, n := range supplied {
		s[n] = true
	}
	unused, undefined := false, false
	for n := range s {
		if !u[n] {
			unused = true
		}
	}
	for n := range u {
		if !s[n] {
			undefined = true
		}
	}
	switch {
	case unused && undefined:
		return "unused+undefined"
	case unused:
		return "unused"
	case undefined:
		return "undefined"
	}
	return "equal"
}

func (p *c16) malformedKeys(x *res, ctx *runner.Ctx) {
	spec := mon.SpecHashOnly("tbl16")
	badNames := []string{"n", "#", "#a-b", "#a b", "##a", "#a.b", "a#", " #a", "#a ", "#é"}
	badValues := []string{"v", ":", ":a-b", ":a b", "::a", ":a.b", "a:", " :a", ":a ", ":é"}
	for _, adapter := range adapt.Adapters {
		for _, bn := range badNames {
			cl, _, _ := freshClient(adapter, spec)
			op := adapt.Op{Kind: adapt.OpScan, Table: spec.Name, Filter: bn + " = :v", Names: map[string]string{bn: "p"}, Values: val.Item{":v": val.Str("x")}}
			got := cl.Do(op)
			x.r.Evals++
			x.fp(true, "R4|%s|name|%s", adapter, bn)
			if got.Class == adapt.ClsOK {
				x.viol("malformed-placeholder-accepted", "name", fmt.Sprintf("[%s] ExpressionAttributeNames key %q is accepted", adapter, bn), map[string]interface{}{"adapter": adapter, "op": op})
			} else if got.Class == adapt.ClsRuntime {
				x.viol("runtime-panic", got.Site, fmt.Sprintf("[%s] name key %q: panic %s", adapter, bn, got.Msg), map[string]interface{}{"adapter": adapter, "op": op})
			}
		}
		// a well-formed placeholder that stands for NOTHING: the empty string, a nil pointer - in a filter, a condition, an
		// update target and a projection. (Accepted, the request would address an attribute called "" - or, the entry
		// being dropped on the way, one literally called "#a".)
		for _, target := range []string{"", adapt.NilName} {
			for ri, mk := range []func(n map[string]string) adapt.Op{
				func(n map[string]string) adapt.Op {
					return adapt.Op{Kind: adapt.OpScan, Table: spec.Name, Filter: "#a = :v", Names: n, Values: val.Item{":v": val.Str("x")}}
				},
				func(n map[string]string) adapt.Op {
					return adapt.Op{Kind: adapt.OpPut, Table: spec.Name, Item: val.Item{"h": val.Str("k")}, Cond: "attribute_not_exists(#a)", Names: n}
				},
				func(n map[string]string) adapt.Op {
					return adapt.Op{Kind: adapt.OpUpdate, Table: spec.Name, Key: val.Item{"h": val.Str("k")}, Update: "SET #a = :v", Names: n, Values: val.Item{":v": val.Str("x")}}
				},
				func(n map[string]string) adapt.Op {
					return adapt.Op{Kind: adapt.OpGet, Table: spec.Name, Key: val.Item{"h": val.Str("k")}, Proj: "#a", Names: n}
				},
				func(n map[string]string) adapt.Op {
					return adapt.Op{Kind: adapt.OpDelete, Table: spec.Name, Key: val.Item{"h": val.Str("k")}, Cond: "attribute_exists(h) OR #a = #b", Names: map[string]string{"#a": n["#a"], "#b": "p"}}
				},
			} {
				cl, _, _ := freshClient(adapter, spec)
				op := mk(map[string]string{"#a": target})
				got := cl.Do(op)
				sc := cl.Do(adapt.Op{Kind: adapt.OpScan, Table: spec.Name})
				x.r.Evals += 2
				x.fp(true, "R4|%s|name-target|%q|%d", adapter, target, ri)
				wit := map[string]interface{}{"adapter": adapter, "op": op, "outcome": got, "table_after": sc.Items}
				if got.Class == adapt.ClsOK || got.Class == adapt.ClsCondFailed {
					x.viol("malformed-placeholder-accepted", "name-target", fmt.Sprintf("[%s] %s with ExpressionAttributeNames {#a: %q} (a placeholder that stands for no attribute name) is answered %s; the table then holds %s", adapter, op.Kind, target, got.Class, adapt.ItemsCanon(sc.Items)), wit)
				} else if got.Class == adapt.ClsRuntime {
					x.viol("runtime-panic", got.Site, fmt.Sprintf("[%s] name target %q: panic %s", adapter, target, got.Msg), wit)
				}
			}
		}
		for _, bv := range badValues {
			cl, _, _ := freshClient(adapter, spec)
			op := adapt.Op{Kind: adapt.OpScan, Table: spec.Name, Filter: "p = " + bv, Values: val.Item{bv: val.Str("x")}}
			got := cl.Do(op)
			x.r.Evals++
			x.fp(true, "R4|%s|value|%s", adapter, bv)
			if got.Class == adapt.ClsOK {
				x.viol("malformed-placeholder-accepted", "value", fmt.Sprintf("[%s] ExpressionAttributeValues key %q is accepted", adapter, bv), map[string]interface{}{"adapter": adapter, "op": op})
			} else if got.Class == adapt.ClsRuntime {
				x.viol("runtime-panic", got.Site, fmt.Sprintf("[%s] value key %q: panic %s", adapter, bv, got.Msg), map[string]interface{}{"adapter": adapter, "op": op})
			}
		}
	}
}

type kcShape struct {
	name  string
	expr  string
	legal bool
	vals  []string
}

var c16KeyConds = []kcShape{
	{"hash-eq", "h = :h", true, []string{":h"}},
	{"hash-eq-reversed-order", "r = :r AND h = :h", true, []string{":h", ":r"}},
	{"hash-and-range-eq", "h = :h AND r = :r", true, []string{":h", ":r"}},
	{"hash-and-range-lt", "h = :h AND r < :r", true, []string{":h", ":r"}},
	{"hash-and-range-le", "h = :h AND r <= :r", true, []string{":h", ":r"}},
	{"hash-and-range-gt", "h = :h AND r > :r", true, []string{":h", ":r"}},
	{"hash-and-range-ge", "h = :h AND r >= :r", true, []string{":h", ":r"}},
	{"hash-and-range-between", "h = :h AND r BETWEEN :r AND :s", true, []string{":h", ":r", ":s"}},
	{"hash-and-begins-with", "h = :h AND begins_with(r, :r)", true, []string{":h", ":r"}},
	{"hash-alias", "#h = :h", true, []string{":h"}},
	{"parenthesized", "(h = :h) AND (r = :r)", true, []string{":h", ":r"}},
	{"range-only", "r = :r", false, []string{":r"}},
	{"hash-lt", "h < :h", false, []string{":h"}},
	{"hash-ne", "h <> :h", false, []string{":h"}},
	{"hash-begins-with", "begins_with(h, :h)", false, []string{":h"}},
	{"hash-between", "h BETWEEN :h AND :r", false, []string{":h", ":r"}},
	{"or", "h = :h OR r = :r", false, []string{":h", ":r"}},
	{"not", "NOT h = :h", false, []string{":h"}},
	{"range-ne", "h = :h AND r <> :r", false, []string{":h", ":r"}},
	{"range-in", "h = :h AND r IN (:r, :s)", false, []string{":h", ":r", ":s"}},
	{"range-contains", "h = :h AND contains(r, :r)", false, []string{":h", ":r"}},
	{"range-exists", "h = :h AND attribute_exists(r)", false, []string{":h"}},
	{"non-key-attribute", "h = :h AND v = :r", false, []string{":h", ":r"}},
	{"two-range-conditions", "h = :h AND r > :r AND r < :s", false, []string{":h", ":r", ":s"}},
	{"hash-twice", "h = :h AND h = :r", false, []string{":h", ":r"}},
	{"non-key-only", "v = :h", false, []string{":h"}},
	{"hash-eq-attribute", "h = r", false, nil},
}

func (p *c16) keyConditions(x *res, ctx *runner.Ctx) {
	spec := mon.SpecHashRange("tbl16")
	for _, adapter := range adapt.Adapters {
		for _, kc := range c16KeyConds {
			cl, _, _ := freshClient(adapter, spec)
			for _, rg := range []string{"a", "b", "c"} {
				cl.Do(adapt.Op{Kind: adapt.OpPut, Table: spec.Name, Item: val.Item{"h": val.Str("k"), "r": val.Str(rg), "v": val.Str("k")}})
			}
			values := val.Item{}
			for _, v := range kc.vals {
				values[v] = val.Str(map[string]string{":h": "k", ":r": "a", ":s": "c"}[v])
			}
			var names map[string]string
			if strings.Contains(kc.expr, "#h") {
				names = map[string]string{"#h": "h"}
			}
			var vs val.Item
			if len(values) > 0 {
				vs = values
			}
			op := adapt.Op{Kind: adapt.OpQuery, Table: spec.Name, KeyCnd: kc.expr, Names: names, Values: vs}
			ctx.Trace("%s keycond %s", adapter, op.String())
			got := cl.Do(op)
			x.r.Evals++
			x.fp(true, "R5|%s|%s", adapter, kc.name)
			wit := map[string]interface{}{"adapter": adapter, "op": op, "shape": kc.name, "legal": kc.legal, "outcome": got}
			switch {
			case got.Class == adapt.ClsRuntime:
				x.viol("runtime-panic", got.Site, fmt.Sprintf("[%s] key condition %q: panic at %s: %s", adapter, kc.expr, got.Site, got.Msg), wit)
			case kc.legal && got.Class != adapt.ClsOK:
				x.viol("legal-key-condition-rejected", kc.name, fmt.Sprintf("[%s] legal key condition %q rejected: %s %s", adapter, kc.expr, got.Class, got.Msg), wit)
			case !kc.legal && got.Class == adapt.ClsOK:
				x.viol("illegal-key-condition-accepted", "shape-not-validated", fmt.Sprintf("[%s] key condition %q (%s) is accepted; DynamoDB requires an equality on the partition key optionally joined by one sort-key condition", adapter, kc.expr, kc.name), wit)
			}
		}
		// Query without any key condition
		cl, _, _ := freshClient(adapter, spec)
		got := cl.Do(adapt.Op{Kind: adapt.OpQuery, Table: spec.Name, NoKC: true})
		x.r.Evals++
		x.fp(true, "R5|%s|absent", adapter)
		if got.Class == adapt.ClsRuntime {
			x.viol("runtime-panic", got.Site, fmt.Sprintf("[%s] Query without KeyConditionExpression: panic at %s: %s", adapter, got.Site, got.Msg), map[string]interface{}{"adapter": adapter})
		} else if got.Class == adapt.ClsOK {
			x.viol("illegal-key-condition-accepted", "absent", fmt.Sprintf("[%s] Query without key condition is accepted", adapter), map[string]interface{}{"adapter": adapter})
		}
	}
}

// c16Modes are the client conditions under which the batch rules are exercised: a request that breaks a batch
// rule must be refused whatever else is going on - on a healthy client, after a failure condition was switched
// on and off again, and WHILE one is active (then the configured error is as good a refusal as the validation
// error; a plain success, with or without UnprocessedItems, is not).
var c16Modes = []struct {
	name string
	pre  []adapt.Op
}{
	{"healthy", nil},
	{"after-failure-toggled-off", []adapt.Op{{Kind: adapt.OpEmulate, Fail: "internal_server"}, {Kind: adapt.OpEmulate, Fail: "none"}, {Kind: adapt.OpForceOn}, {Kind: adapt.OpForceOff}}},
	{"internal-server-active", []adapt.Op{{Kind: adapt.OpEmulate, Fail: "internal_server"}}},
	{"deprecated-active", []adapt.Op{{Kind: adapt.OpEmulate, Fail: "deprecated"}}},
	{"forced-active", []adapt.Op{{Kind: adapt.OpForceOn}}},
}

func (p *c16) batchRules(x *res, ctx *runner.Ctx) {
	for _, adapter := range adapt.Adapters {
		specs := []adapt.TableSpec{mon.SpecHashOnly("tba16"), mon.SpecHashOnly("tbb16"), mon.SpecHashOnly("tbc16")}
		// every table a batch names carries at least one request: a table entry with an empty request list makes the
		// batch invalid, also next to tables that do have requests - and then nothing of it is applied
		for _, nwrites := range []int{1, 3, 25} {
			cl, _, _ := freshClient(adapter, specs...)
			batch := []adapt.BatchEntry{}
			for i := 0; i < nwrites; i++ {
				batch = append(batch, adapt.BatchEntry{Table: specs[i%2].Name, Put: val.Item{"h": val.Str(fmt.Sprint("k", i))}})
			}
			op := adapt.Op{Kind: adapt.OpBatchWrite, Batch: batch, EmptyTables: []string{specs[2].Name}}
			got := cl.Do(op)
			x.r.Evals++
			x.fp(true, "R6e|%s|%d", adapter, nwrites)
			wit := map[string]interface{}{"adapter": adapter, "op": op, "outcome": got}
			total := 0
			for _, sp := range specs {
				total += len(cl.Do(adapt.Op{Kind: adapt.OpScan, Table: sp.Name}).Items)
			}
			switch {
			case got.Class == adapt.ClsRuntime:
				x.viol("runtime-panic", got.Site, fmt.Sprintf("[%s] batch with an empty request list for one table: panic %s", adapter, got.Msg), wit)
			case got.Class == adapt.ClsOK:
				x.viol("malformed-write-request-accepted", "empty-request-list-for-a-table", fmt.Sprintf("[%s] batch of %d writes that also names table %s with an EMPTY request list is accepted (%d items written)", adapter, nwrites, specs[2].Name, total), wit)
			case total != 0:
				x.viol("rejected-batch-applied", "empty-request-list-for-a-table", fmt.Sprintf("[%s] rejected batch (empty request list for one table) wrote %d items", adapter, total), wit)
			}
		}
		for _, mode := range c16Modes {
			failing := strings.HasSuffix(mode.name, "-active")
			for _, size := range []int{1, 13, 24, 25, 26, 27, 50, 100, 101} {
				for ntab := 1; ntab <= 3; ntab++ {
					cl, _, _ := freshClient(adapter, specs...)
					for _, op := range mode.pre {
						cl.Do(op)
					}
					batch := []adapt.BatchEntry{}
					for i := 0; i < size; i++ {
						t := specs[i%ntab].Name
						if i%3 == 2 {
							batch = append(batch, adapt.BatchEntry{Table: t, Del: val.Item{"h": val.Str(fmt.Sprint("d", i))}})
						} else {
							batch = append(batch, adapt.BatchEntry{Table: t, Put: val.Item{"h": val.Str(fmt.Sprint("k", i)), "v": val.Num(fmt.Sprint(i))}})
						}
					}
					op := adapt.Op{Kind: adapt.OpBatchWrite, Batch: batch}
					got := cl.Do(op)
					x.r.Evals++
					x.fp(true, "R6|%s|%s|%d|%d", adapter, mode.name, size, ntab)
					x.set("batch_rule_modes", mode.name)
					wit := map[string]interface{}{"adapter": adapter, "mode": mode.name, "size": size, "tables": ntab, "outcome": got}
					if size <= 25 && !failing && got.Class != adapt.ClsOK {
						x.viol("valid-batch-rejected", fmt.Sprint("size<=25"), fmt.Sprintf("[%s, %s] batch of %d over %d tables rejected: %s %s", adapter, mode.name, size, ntab, got.Class, got.Msg), wit)
					}
					if size > 25 && got.Class == adapt.ClsOK {
						x.viol("oversized-batch-accepted", "size>25/"+mode.name, fmt.Sprintf("[%s, %s] batch of %d over %d tables accepted (%d unprocessed)", adapter, mode.name, size, ntab, len(got.Unproc)), wit)
					}
					if size > 25 {
						cl.Do(adapt.Op{Kind: adapt.OpEmulate, Fail: "none"})
						cl.Do(adapt.Op{Kind: adapt.OpForceOff})
						total := 0
						for _, s := range specs {
							sc := cl.Do(adapt.Op{Kind: adapt.OpScan, Table: s.Name})
							total += len(sc.Items)
						}
						if total != 0 {
							x.viol("rejected-batch-applied", "size>25", fmt.Sprintf("[%s, %s] rejected batch of %d wrote %d items", adapter, mode.name, size, total), wit)
						}
					}
				}
			}
			for _, shape := range []string{"neither", "both", "neither-among-valid", "both-among-valid", "neither-last-of-25", "both-first-of-20", "absent", "absent-among-valid",
				// both members present, one of them allocated but without content (PutRequest{Item} + DeleteRequest{}, and the mirror image)
				"both-with-empty-delete", "both-with-empty-put", "both-with-empty-delete-among-valid", "both-with-empty-put-among-valid"} {
				cl, _, _ := freshClient(adapter, specs[0])
				for _, op := range mode.pre {
					cl.Do(op)
				}
				t := specs[0].Name
				good := adapt.BatchEntry{Table: t, Put: val.Item{"h": val.Str("g")}}
				bad := adapt.BatchEntry{Table: t}
				if strings.HasPrefix(shape, "both") {
					bad = adapt.BatchEntry{Table: t, Put: val.Item{"h": val.Str("b")}, Del: val.Item{"h": val.Str("b")}}
				}
				if strings.HasPrefix(shape, "both-with-empty-delete") {
					bad.Del = val.Item{}
				}
				if strings.HasPrefix(shape, "both-with-empty-put") {
					bad.Put = val.Item{}
				}
				if strings.HasPrefix(shape, "absent") {
					bad = adapt.BatchEntry{Table: t, Absent: true}
				}
				batch := []adapt.BatchEntry{bad}
				many := func(n int) []adapt.BatchEntry {
					out := []adapt.BatchEntry{}
					for i := 0; i < n; i++ {
						out = append(out, adapt.BatchEntry{Table: t, Put: val.Item{"h": val.Str(fmt.Sprint("g", i))}})
					}
					return out
				}
				switch {
				case strings.HasSuffix(shape, "among-valid"):
					batch = []adapt.BatchEntry{good, bad, good}
				case strings.HasSuffix(shape, "last-of-25"):
					batch = append(many(24), bad)
				case strings.HasSuffix(shape, "first-of-20"):
					batch = append([]adapt.BatchEntry{bad}, many(19)...)
				}
				got := cl.Do(adapt.Op{Kind: adapt.OpBatchWrite, Batch: batch})
				x.r.Evals++
				x.fp(true, "R6|%s|%s|%s", adapter, mode.name, shape)
				wit := map[string]interface{}{"adapter": adapter, "mode": mode.name, "shape": shape, "outcome": got}
				if got.Class == adapt.ClsOK {
					x.viol("malformed-write-request-accepted", shape+"/"+mode.name, fmt.Sprintf("[%s, %s] write request with %s of put/delete accepted (%d unprocessed)", adapter, mode.name, shape, len(got.Unproc)), wit)
				} else if got.Class == adapt.ClsRuntime {
					x.viol("runtime-panic", got.Site, fmt.Sprintf("[%s, %s] write request %s: panic %s", adapter, mode.name, shape, got.Msg), wit)
				}
				cl.Do(adapt.Op{Kind: adapt.OpEmulate, Fail: "none"})
				cl.Do(adapt.Op{Kind: adapt.OpForceOff})
				if sc := cl.Do(adapt.Op{Kind: adapt.OpScan, Table: t}); len(sc.Items) != 0 {
					x.viol("rejected-batch-applied", "malformed", fmt.Sprintf("[%s, %s] batch with a malformed write request (%s) wrote %d items", adapter, mode.name, shape, len(sc.Items)), wit)
				}
			}
		}
	}
}

// projections: a ProjectionExpression is an expression too. All 573 reserved words at every bare-name position of
// a projection (alone, first / middle / last of a list, head of a dotted or indexed path) on GetItem, Query and
// Scan must be rejected, the same positions through '#alias -> reserved word' and with non-reserved names must be
// accepted; strings that are no list of document paths are rejected, well-formed lists are accepted.
func (p *c16) projections(x *res, adapter string, ctx *runner.Ctx) {
	spec := mon.SpecHashOnly("tbl16p")
	cl, _, ds := freshClient(adapter, spec)
	if ds != nil {
		x.viol("setup", "create", ds[0].Detail, spec)
		return
	}
	cl.Do(adapt.Op{Kind: adapt.OpPut, Table: spec.Name, Item: val.Item{"h": val.Str("k"), "a": val.Str("x"), "l": val.List(val.Str("x")), "m": val.Map(map[string]val.V{"x": val.Str("y")})}})
	positions := []struct {
		name string
		mk   func(w string) string
	}{{"alone", func(w string) string { return w }}, {"first", func(w string) string { return w + ", a" }}, {"middle", func(w string) string { return "a, " + w + ", l" }},
		{"last", func(w string) string { return "a," + w }}, {"path-head-dot", func(w string) string { return "a, " + w + ".x" }}, {"path-head-index", func(w string) string { return w + "[0], a" }}}
	do := func(kind int, proj string, names map[string]string) adapt.Outcome {
		switch kind % 3 {
		case 0:
			return cl.Do(adapt.Op{Kind: adapt.OpGet, Table: spec.Name, Key: val.Item{"h": val.Str("k")}, Proj: proj, Names: names})
		case 1:
			return cl.Do(adapt.Op{Kind: adapt.OpScan, Table: spec.Name, Proj: proj, Names: names})
		}
		return cl.Do(adapt.Op{Kind: adapt.OpQuery, Table: spec.Name, KeyCnd: "h = :h", Values: val.Item{":h": val.Str("k")}, Proj: proj, Names: names})
	}
	opName := []string{"get", "scan", "query"}
	for wi, w := range refmodel.ReservedWords {
		variants := []string{w, strings.ToLower(w), w[:1] + strings.ToLower(w[1:])}
		for pi, pos := range positions {
			wv := variants[(wi+pi)%3]
			proj := pos.mk(wv)
			got := do(wi+pi, proj, nil)
			x.r.Evals++
			x.fp(true, "R1p|%s|%s|%s", adapter, pos.name, w)
			wit := map[string]interface{}{"adapter": adapter, "operation": opName[(wi+pi)%3], "projection": proj, "outcome": got}
			if got.Class == adapt.ClsRuntime {
				x.viol("runtime-panic", got.Site, fmt.Sprintf("[%s] ProjectionExpression %q panics at %s: %s", adapter, proj, got.Site, got.Msg), wit)
			} else if got.Class == adapt.ClsOK {
				x.viol("reserved-word-accepted", "projection/"+pos.name, fmt.Sprintf("[%s] reserved word %q used as a bare attribute name in the ProjectionExpression %q of %s is accepted", adapter, wv, proj, opName[(wi+pi)%3]), wit)
			}
			if pi == wi%len(positions) {
				aproj := pos.mk("#w")
				if g2 := do(wi+pi, aproj, map[string]string{"#w": wv}); g2.Class != adapt.ClsOK {
					x.viol("aliased-reserved-word-rejected", "projection/"+pos.name, fmt.Sprintf("[%s] '#w' -> %q in the ProjectionExpression %q is rejected (%s %s) although the restriction does not apply to aliases", adapter, wv, aproj, g2.Class, g2.Msg), wit)
				}
				x.r.Evals++
			}
		}
	}
	for ni, n := range c16NonReserved {
		pos := positions[ni%len(positions)]
		proj := pos.mk(n)
		if got := do(ni, proj, nil); got.Class != adapt.ClsOK {
			x.viol("non-reserved-name-rejected", "projection/"+pos.name, fmt.Sprintf("[%s] non-reserved name %q in the ProjectionExpression %q is rejected: %s %s", adapter, n, proj, got.Class, got.Msg), map[string]interface{}{"adapter": adapter, "projection": proj, "outcome": got})
		}
		x.r.Evals++
	}
	wellFormed := []string{"a", "a, l", "a.x, l[0]", "m.x", "l[0]", "l[0][1].x.y[2]", "  a ,\n\tl ", "a,l,m", "#p", "#p.#q, #p[1].#q", "a1b2, _under, X",
		// names that only BEGIN like a reserved word
		"user_id", "status_code, name_first", "at_created.x", "count_1[0], size_", "namex, statusx, valuex", "a, user_id"}
	malformed := []string{"a,, l", "a l", ", a", "a,", "a.", "a[", "a[0", "a[x]", "a[]", "a[0]]", ":v", "a, :v", "a.:v", "a.1", "1", "a..x", "a.[0]", "(a)", "a = l", "a, size(l)", "a AND l", "#", "a#b", "a:b", "a, #", "a;l", "*"}
	names := map[string]string{"#p": "m", "#q": "x"}
	for i, proj := range append(append([]string{}, wellFormed...), malformed...) {
		var nm map[string]string
		for k, v := range names {
			if strings.Contains(proj, k) {
				if nm == nil {
					nm = map[string]string{}
				}
				nm[k] = v // only the placeholders the expression uses: an unused one is refused on its own account
			}
		}
		proj = strings.NewReplacer("\\n", "\n", "\\t", "\t").Replace(proj)
		got := do(i, proj, nm)
		x.r.Evals++
		x.fp(true, "R1p|%s|form|%d", adapter, i)
		wit := map[string]interface{}{"adapter": adapter, "operation": opName[i%3], "projection": proj, "outcome": got}
		switch {
		case got.Class == adapt.ClsRuntime:
			x.viol("runtime-panic", got.Site, fmt.Sprintf("[%s] ProjectionExpression %q panics at %s: %s", adapter, proj, got.Site, got.Msg), wit)
		case i < len(wellFormed) && got.Class != adapt.ClsOK:
			x.viol("well-formed-projection-rejected", opName[i%3], fmt.Sprintf("[%s] the ProjectionExpression %q is a list of document paths but is rejected: %s %s", adapter, proj, got.Class, got.Msg), wit)
		case i >= len(wellFormed) && got.Class == adapt.ClsOK:
			x.viol("malformed-projection-accepted", opName[i%3], fmt.Sprintf("[%s] the ProjectionExpression %q is no list of document paths but %s accepts it", adapter, proj, opName[i%3]), wit)
		}
	}
}

func (p *c16) RunCase(ctx *runner.Ctx) runner.CaseResult {
	x := newRes()
	nw := (len(refmodel.ReservedWords) + c16WordsPerCase - 1) / c16WordsPerCase
	c := ctx.Case
	switch {
	case c < nw:
		hi := (c + 1) * c16WordsPerCase
		if hi > len(refmodel.ReservedWords) {
			hi = len(refmodel.ReservedWords)
		}
		p.reserved(x, refmodel.ReservedWords[c*c16WordsPerCase:hi], ctx)
		if c%10 == 0 {
			x.r.Sample = map[string]interface{}{"rule": "R1", "word": refmodel.ReservedWords[c*c16WordsPerCase], "expressions": []string{c16Positions[0].mk(refmodel.ReservedWords[c*c16WordsPerCase]), c16Positions[12].mk(strings.ToLower(refmodel.ReservedWords[c*c16WordsPerCase]))}}
		}
	case c == nw:
		p.nonReserved(x, ctx)
		p.aliased(x, ctx)
	case c < nw+9:
		i := c - nw - 1
		p.placeholders(x, adapt.Adapters[i%2], []string{"values", "names"}[(i/2)%2], i/4, ctx)
		if i/4 == 1 {
			p.placeholders(x, adapt.Adapters[i%2], []string{"values", "names"}[(i/2)%2], 2, ctx)
		}
	case c == nw+9:
		p.malformedKeys(x, ctx)
		p.updatesWithoutExpression(x)
	case c < nw+12:
		p.keyConditions(x, ctx)
	case c == nw+12:
		p.batchRules(x, ctx)
	case c == nw+13:
		p.requestReuse(x, ctx)
	default:
		p.projections(x, adapt.Adapters[(c-nw-14)%2], ctx)
	}
	return x.r
}

func (p *c16) Exhaustive(string) bool { return true }

// updatesWithoutExpression: the placeholder rules do not depend on WHICH expressions a request carries. An UpdateItem
// that has no UpdateExpression (only a condition, or nothing) and supplies a name or value nobody uses, uses a name
// nobody supplied, or has a malformed placeholder key is refused like any other request that breaks these rules -
// whether the library refuses such updates wholesale (it does: listed finding of C01) or performs them.
func (p *c16) updatesWithoutExpression(x *res) {
	spec := mon.SpecHashOnly("tbl16u")
	defects := []struct {
		name string
		op   adapt.Op
	}{
		{"unused-name", adapt.Op{Cond: "attribute_not_exists(#p)", Names: map[string]string{"#p": "h", "#surplus": "other"}}},
		{"unused-value", adapt.Op{Cond: "attribute_not_exists(h)", Values: val.Item{":surplus": val.Num("1")}}},
		{"undefined-name", adapt.Op{Cond: "attribute_not_exists(#never)"}},
		// (a :value that was never supplied is the listed finding of the placeholder matrix; not repeated here)
		{"names-without-any-expression", adapt.Op{Names: map[string]string{"#p": "h"}}},
		{"values-without-any-expression", adapt.Op{Values: val.Item{":v": val.Num("1")}}},
		{"malformed-name-key", adapt.Op{Cond: "attribute_not_exists(#p)", Names: map[string]string{"#p": "h", "p": "h"}}},
		{"malformed-value-key", adapt.Op{Cond: "a = :v", Values: val.Item{":v": val.Num("1"), "v": val.Num("1")}}},
		{"reserved-word-in-condition", adapt.Op{Cond: "attribute_not_exists(name)"}},
	}
	for _, adapter := range adapt.Adapters {
		for _, d := range defects {
			for _, present := range []bool{false, true} {
				cl, _, ds := freshClient(adapter, spec)
				if ds != nil {
					return
				}
				if present {
					cl.Do(adapt.Op{Kind: adapt.OpPut, Table: spec.Name, Item: val.Item{"h": val.Str("k"), "a": val.Num("1")}})
				}
				op := d.op
				op.Kind, op.Table, op.Key, op.NoUpdate = adapt.OpUpdate, spec.Name, val.Item{"h": val.Str("k")}, true
				got := cl.Do(op)
				x.r.Evals++
				x.r.Counters["updates_without_expression_breaking_a_placeholder_rule"]++
				x.fp(true, "no-expression-update|%s|%s|%v", adapter, d.name, present)
				wit := map[string]interface{}{"adapter": adapter, "defect": d.name, "item_present": present, "request": op, "outcome": got}
				switch got.Class {
				case adapt.ClsRuntime:
					x.viol("runtime-panic", got.Site, fmt.Sprintf("[%s] UpdateItem without UpdateExpression (%s): panic %s", adapter, d.name, got.Msg), wit)
				case adapt.ClsOK, adapt.ClsCondFailed:
					x.viol("placeholder-rule-not-enforced", "update-without-expression/"+d.name, fmt.Sprintf("[%s] UpdateItem without UpdateExpression and with the defect %q is answered %s", adapter, d.name, got.Class), wit)
				}
			}
		}
	}
}
