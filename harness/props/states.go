package props

import (
	"fmt"
	"math/rand"

	"verifharness/adapt"
	"verifharness/mon"
	"verifharness/refmodel"
	"verifharness/val"
)

// ixSpec is the table used by the index/query/pagination monitors: hash+range base table,
// a hash-only GSI, a hash+range GSI and an LSI, all on S attributes with tiny value pools so
// that several items share an index key.
func ixSpec(name string, withIndexes bool) adapt.TableSpec {
	s := adapt.TableSpec{Name: name, Hash: "h", HashT: ixTypes["h"], Range: "r", RangeT: ixTypes["r"], Billing: "PAY_PER_REQUEST"}
	if withIndexes {
		s.Indexes = []adapt.IndexSpec{
			{Name: "gsi1", Hash: "g", HashT: ixTypes["g"]},
			{Name: "gsi2", Hash: "g", HashT: ixTypes["g"], Range: "s", RangeT: ixTypes["s"]},
			{Name: "lsi1", Hash: "h", HashT: ixTypes["h"], Range: "s", RangeT: ixTypes["s"], Local: true},
			// a second local index (sparse on another attribute, so the two hold different numbers of items)
			{Name: "lsi2", Hash: "h", HashT: ixTypes["h"], Range: "g", RangeT: ixTypes["g"], Local: true},
			// an "inverted" index: its key attributes are the table's own key attributes
			{Name: "gsi4", Hash: "r", HashT: ixTypes["r"], Range: "h", RangeT: ixTypes["h"]},
		}
	}
	return s
}

// ixIndex returns the definition of one of the shared shape's indexes with the CURRENT key types.
func ixIndex(name string) adapt.IndexSpec {
	for _, ix := range ixSpec("x", true).Indexes {
		if ix.Name == name {
			return ix
		}
	}
	return adapt.IndexSpec{Name: name}
}

// ixTypes declares the types of the key attributes h, r, g, s of the shared table shape ("" = S). It is empty
// except inside useTypedPools.
var ixTypes = map[string]string{}

// ixV renders a pool text as a value of the attribute's declared type: a string as it is, a binary as the bytes
// of the text, a number as the text itself when it is a numeral and as a numeral derived from it otherwise.
func ixV(attr, text string) val.V {
	switch ixTypes[attr] {
	case "N":
		if _, err := val.ParseDec(text); err == nil && text != "" {
			return val.Num(text)
		}
		h := 0
		for _, b := range []byte(text) {
			h = (h*131 + int(b)) % 100003
		}
		return val.Num(fmt.Sprintf("%d.%d", 5000+len(text), h))
	case "B":
		return val.Bin(text)
	}
	return val.Str(text)
}

// useTypedPools switches the shared table shape to NUMBER- and BINARY-typed key attributes (sort key r, index
// keys g and s, sometimes the partition key h) with pools of numerals (several notations, negative, fractional,
// prefix-related) resp. byte strings (prefix-related, 0x00 / 0xff): key conditions, index maintenance, ordering
// and pagination then run through the typed code paths. Returns the function that restores the string pools.
func useTypedPools(r *rand.Rand) func() {
	h, rg, g, s, t := ixHashPool, ixRangePool, ixGPool, ixSPool, ixTypes
	// numerals in several notations (upper-case exponent with sign, fractional mantissa, trailing zero)
	nums := []string{"1", "10", "9", "2.5E1", "-1", "1.5E+10", "1.50E2", "0.5", "-10", "1E1"}
	bins := []string{"\x01", "\x0a", "\x09", "\x0a\x00", "a", "ab", "\xff", "\x00"}
	ixTypes = map[string]string{}
	pick := func(attr string, pS int) {
		switch k := r.Intn(100); {
		case k < pS:
		case k < pS+(100-pS)*2/3:
			ixTypes[attr] = "N"
		default:
			ixTypes[attr] = "B"
		}
	}
	pick("r", 10)
	pick("s", 30)
	pick("g", 50)
	pick("h", 75)
	pool := func(attr string, strs []string, n int) []string {
		switch ixTypes[attr] {
		case "N":
			return nums[:n] // "10" and "1E1" are one value: only one of them is in a pool of up to 9
		case "B":
			return bins[:n]
		}
		return strs
	}
	ixRangePool = pool("r", ixRangePool, 8)
	ixSPool = pool("s", ixSPool, 4)
	ixGPool = pool("g", ixGPool, 2)
	ixHashPool = pool("h", ixHashPool, 3)
	return func() { ixHashPool, ixRangePool, ixGPool, ixSPool, ixTypes = h, rg, g, s, t }
}

var (
	ixHashPool  = []string{"p", "p.q", "pq"}
	// "\uffff" and the 4-byte character after it separate UTF-8 byte order (DynamoDB's order) from UTF-16 code-unit
	// order and from any bound built with a BMP sentinel character
	ixRangePool = []string{"1", "10", "9", "a", "ab", "b", "\uffff", "\U0001F44D"}
	ixGPool     = []string{"x", "y"}
	ixSPool     = []string{"1", "10", "9"}
	ixBig       = false
)

// usePrefixPartitions swaps the partition pools for names that are proper prefixes of one another with a next character
// that sorts BELOW the '.' the library joins key parts with ('#', '-', ' ', '!'): "ORG#1" / "ORG#1#USER", "2024-01" /
// "2024-01-15". Ordering by the joined text and ordering part by part disagree exactly there.
func usePrefixPartitions() func() {
	h, g := ixHashPool, ixGPool
	ixHashPool = []string{"p", "p#q", "p-q"}
	ixGPool = []string{"x", "x y", "x!"}
	return func() { ixHashPool, ixGPool = h, g }
}

// useBigPools swaps the value pools of the shared table shape for "scaled" ones and returns the function that
// restores the small pools (a worker runs its cases one after the other, so package-level pools are safe).
// Scaled pools: 3 partitions (one with a 300-byte name), 40-260 sort keys (numeral-looking strings, strings
// that share a 100-byte prefix and differ only in the last bytes, multi-byte strings), index-key pools with a
// 70-byte member and 12 index sort keys. Size thresholds such as 16 / 32 / 64 / 100 / 128 / 256 entries per
// partition, per index key and per page walk are crossed by the states built from them.
func useBigPools(r *rand.Rand) func() {
	h, rg, g, s := ixHashPool, ixRangePool, ixGPool, ixSPool
	n := mon.Pick(r, []int{40, 70, 130, 260})
	long := func(c string, n int) string {
		b := ""
		for len(b) < n {
			b += c
		}
		return b[:n]
	}
	ixHashPool = []string{"p", "p.q", long("pq.", 300)}
	ixRangePool = nil
	for i := 0; i < n; i++ {
		switch i % 4 {
		case 0, 1:
			ixRangePool = append(ixRangePool, fmt.Sprint(i))
		case 2:
			ixRangePool = append(ixRangePool, long("k", 100)+fmt.Sprintf("%03d", i))
		default:
			ixRangePool = append(ixRangePool, fmt.Sprintf("%s%d", []string{"é", "日", "\uffff", "\U0001F44D", "\U0010FFFF"}[(i/4)%5], i))
		}
	}
	ixGPool = []string{"x", "y", long("g", 70)}
	ixSPool = []string{"1", "10", "9", "100", "11", "2", "20", "a", "ab", "b", long("s", 130), long("s", 131)}
	ixBig = true
	return func() { ixHashPool, ixRangePool, ixGPool, ixSPool, ixBig = h, rg, g, s, false }
}

// ixItem builds an item for ixSpec; g / s are absent when "".
func ixItem(h, rg, g, s string, extra int) val.Item {
	it := val.Item{"h": ixV("h", h), "r": ixV("r", rg)}
	if g != "" {
		it["g"] = ixV("g", g)
	}
	if s != "" {
		it["s"] = ixV("s", s)
	}
	it["v"] = val.Num(fmt.Sprint(extra))
	// a small document: two numbers in one map and two in one list (filters relate paths under ONE root to each other)
	if extra%3 != 0 {
		it["w"] = val.Map(map[string]val.V{"lo": val.Num(fmt.Sprint(extra % 5)), "hi": val.Num(fmt.Sprint(extra * 3 % 7))})
		it["pl"] = val.List(val.Num(fmt.Sprint(extra%3)), val.Num(fmt.Sprint(extra%4)))
	}
	return it
}

func maybe(r *rand.Rand, pool []string, pAbsent int) string {
	if r.Intn(100) < pAbsent {
		return ""
	}
	return mon.Pick(r, pool)
}

// ixRandomWrite returns a random write op against ixSpec-shaped tables.
func ixRandomWrite(r *rand.Rand, table string, salt int) adapt.Op {
	h, rg := mon.Pick(r, ixHashPool), mon.Pick(r, ixRangePool)
	key := val.Item{"h": ixV("h", h), "r": ixV("r", rg)}
	c := r.Intn(10)
	if ixBig && r.Intn(2) == 0 {
		c = 0 // scaled states are mostly filled: half of the writes are puts on top of the usual mix
	}
	switch c {
	case 0, 1, 2, 3:
		if r.Intn(8) == 0 {
			// an item that consists of its key attributes only (an edge of an adjacency list): it still belongs to
			// every index whose key attributes are table key attributes (the inverted index)
			return adapt.Op{Kind: adapt.OpPut, Table: table, Item: val.Item{"h": ixV("h", h), "r": ixV("r", rg)}}
		}
		return adapt.Op{Kind: adapt.OpPut, Table: table, Item: ixItem(h, rg, maybe(r, ixGPool, 25), maybe(r, ixSPool, 25), salt)}
	case 4:
		if ixTypes["g"] == "N" && r.Intn(2) == 0 {
			// a NUMBER index key changed - or created, on an item that had none - by ADD instead of SET
			return mon.AddUpdate(table, key, "g", val.Num(mon.Pick(r, []string{"1", "-1", "2", "0"})))
		}
		return mon.SetUpdate(table, key, "g", ixV("g", mon.Pick(r, ixGPool)))
	case 5:
		if ixTypes["s"] == "N" && r.Intn(2) == 0 {
			return mon.AddUpdate(table, key, "s", val.Num(mon.Pick(r, []string{"1", "-1", "2", "0"})))
		}
		return mon.SetUpdate(table, key, "s", ixV("s", mon.Pick(r, ixSPool)))
	case 6:
		return mon.RemoveUpdate(table, key, mon.Pick(r, []string{"g", "s"}))
	case 7:
		return mon.SetUpdate(table, key, "v", val.Num(fmt.Sprint(salt)))
	default:
		return adapt.Op{Kind: adapt.OpDelete, Table: table, Key: key}
	}
}

// keyCondEq builds "attr = :name".
func keyCondEq(attr, name string) *refmodel.Cond {
	return &refmodel.Cond{Op: "cmp", Cmp: "=", Args: []refmodel.Operand{{Kind: "path", Path: refmodel.P(attr)}, {Kind: "val", Val: name}}}
}

// queryOp builds a Query op from ASTs.
func queryOp(table, index string, kc, filter *refmodel.Cond, values val.Item, rev bool, rr refmodel.RenderOpts) adapt.Op {
	names := map[string]string{}
	op := adapt.Op{Kind: adapt.OpQuery, Table: table, Index: index, KeyAST: kc, Rev: rev}
	op.KeyCnd = kc.Render(names, rr)
	if filter != nil {
		op.FilterAST = filter
		op.Filter = filter.Render(names, rr)
	}
	if len(names) > 0 {
		op.Names = names
	}
	op.Values = values
	return op
}

// scanOp builds a Scan op.
func scanOp(table, index string, filter *refmodel.Cond, values val.Item, rr refmodel.RenderOpts) adapt.Op {
	names := map[string]string{}
	op := adapt.Op{Kind: adapt.OpScan, Table: table, Index: index}
	if filter != nil {
		op.FilterAST = filter
		op.Filter = filter.Render(names, rr)
		op.Values = values
	}
	if len(names) > 0 {
		op.Names = names
	}
	return op
}
