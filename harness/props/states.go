package props

import (
	"fmt"
	"math/rand"

	"verifharness/adapt"
	"verifharness/mon"
	"verifharness/refmodel"
	"verifharness/val"
)

// ixSpec is the table used by the index/query/pagination monitors: hash+range base table,
// a hash-only GSI, a hash+range GSI and an LSI, all on S attributes with tiny value pools so
// that several items share an index key.
func ixSpec(name string, withIndexes bool) adapt.TableSpec {
	s := adapt.TableSpec{Name: name, Hash: "h", Range: "r", Billing: "PAY_PER_REQUEST"}
	if withIndexes {
		s.Indexes = []adapt.IndexSpec{
			{Name: "gsi1", Hash: "g"},
			{Name: "gsi2", Hash: "g", Range: "s"},
			{Name: "lsi1", Hash: "h", Range: "s", Local: true},
			// an "inverted" index: its key attributes are the table's own key attributes
			{Name: "gsi4", Hash: "r", Range: "h"},
		}
	}
	return s
}

var (
	ixHashPool  = []string{"p", "p.q", "pq"}
	// "\uffff" and the 4-byte character after it separate UTF-8 byte order (DynamoDB's order) from UTF-16 code-unit
	// order and from any bound built with a BMP sentinel character
	ixRangePool = []string{"1", "10", "9", "a", "ab", "b", "\uffff", "\U0001F44D"}
	ixGPool     = []string{"x", "y"}
	ixSPool     = []string{"1", "10", "9"}
	ixBig       = false
)

// useBigPools swaps the value pools of the shared table shape for "scaled" ones and returns the function that
// restores the small pools (a worker runs its cases one after the other, so package-level pools are safe).
// Scaled pools: 3 partitions (one with a 300-byte name), 40-260 sort keys (numeral-looking strings, strings
// that share a 100-byte prefix and differ only in the last bytes, multi-byte strings), index-key pools with a
// 70-byte member and 12 index sort keys. Size thresholds such as 16 / 32 / 64 / 100 / 128 / 256 entries per
// partition, per index key and per page walk are crossed by the states built from them.
func useBigPools(r *rand.Rand) func() {
	h, rg, g, s := ixHashPool, ixRangePool, ixGPool, ixSPool
	n := mon.Pick(r, []int{40, 70, 130, 260})
	long := func(c string, n int) string {
		b := ""
		for len(b) < n {
			b += c
		}
		return b[:n]
	}
	ixHashPool = []string{"p", "p.q", long("pq.", 300)}
	ixRangePool = nil
	for i := 0; i < n; i++ {
		switch i % 4 {
		case 0, 1:
			ixRangePool = append(ixRangePool, fmt.Sprint(i))
		case 2:
			ixRangePool = append(ixRangePool, long("k", 100)+fmt.Sprintf("%03d", i))
		default:
			ixRangePool = append(ixRangePool, fmt.Sprintf("%s%d", []string{"é", "日", "\uffff", "\U0001F44D", "\U0010FFFF"}[(i/4)%5], i))
		}
	}
	ixGPool = []string{"x", "y", long("g", 70)}
	ixSPool = []string{"1", "10", "9", "100", "11", "2", "20", "a", "ab", "b", long("s", 130), long("s", 131)}
	ixBig = true
	return func() { ixHashPool, ixRangePool, ixGPool, ixSPool, ixBig = h, rg, g, s, false }
}

// ixItem builds an item for ixSpec; g / s are absent when "".
func ixItem(h, rg, g, s string, extra int) val.Item {
	it := val.Item{"h": val.Str(h), "r": val.Str(rg)}
	if g != "" {
		it["g"] = val.Str(g)
	}
	if s != "" {
		it["s"] = val.Str(s)
	}
	it["v"] = val.Num(fmt.Sprint(extra))
	return it
}

func maybe(r *rand.Rand, pool []string, pAbsent int) string {
	if r.Intn(100) < pAbsent {
		return ""
	}
	return mon.Pick(r, pool)
}

// ixRandomWrite returns a random write op against ixSpec-shaped tables.
func ixRandomWrite(r *rand.Rand, table string, salt int) adapt.Op {
	h, rg := mon.Pick(r, ixHashPool), mon.Pick(r, ixRangePool)
	key := val.Item{"h": val.Str(h), "r": val.Str(rg)}
	c := r.Intn(10)
	if ixBig && r.Intn(2) == 0 {
		c = 0 // scaled states are mostly filled: half of the writes are puts on top of the usual mix
	}
	switch c {
	case 0, 1, 2, 3:
		return adapt.Op{Kind: adapt.OpPut, Table: table, Item: ixItem(h, rg, maybe(r, ixGPool, 25), maybe(r, ixSPool, 25), salt)}
	case 4:
		return mon.SetUpdate(table, key, "g", val.Str(mon.Pick(r, ixGPool)))
	case 5:
		return mon.SetUpdate(table, key, "s", val.Str(mon.Pick(r, ixSPool)))
	case 6:
		return mon.RemoveUpdate(table, key, mon.Pick(r, []string{"g", "s"}))
	case 7:
		return mon.SetUpdate(table, key, "v", val.Num(fmt.Sprint(salt)))
	default:
		return adapt.Op{Kind: adapt.OpDelete, Table: table, Key: key}
	}
}

// keyCondEq builds "attr = :name".
func keyCondEq(attr, name string) *refmodel.Cond {
	return &refmodel.Cond{Op: "cmp", Cmp: "=", Args: []refmodel.Operand{{Kind: "path", Path: refmodel.P(attr)}, {Kind: "val", Val: name}}}
}

// queryOp builds a Query op from ASTs.
func queryOp(table, index string, kc, filter *refmodel.Cond, values val.Item, rev bool, rr refmodel.RenderOpts) adapt.Op {
	names := map[string]string{}
	op := adapt.Op{Kind: adapt.OpQuery, Table: table, Index: index, KeyAST: kc, Rev: rev}
	op.KeyCnd = kc.Render(names, rr)
	if filter != nil {
		op.FilterAST = filter
		op.Filter = filter.Render(names, rr)
	}
	if len(names) > 0 {
		op.Names = names
	}
	op.Values = values
	return op
}

// scanOp builds a Scan op.
func scanOp(table, index string, filter *refmodel.Cond, values val.Item, rr refmodel.RenderOpts) adapt.Op {
	names := map[string]string{}
	op := adapt.Op{Kind: adapt.OpScan, Table: table, Index: index}
	if filter != nil {
		op.FilterAST = filter
		op.Filter = filter.Render(names, rr)
		op.Values = values
	}
	if len(names) > 0 {
		op.Names = names
	}
	return op
}
