package props

import (
	"fmt"
	"strings"

	"verifharness/adapt"
	"verifharness/model"
	"verifharness/mon"
	"verifharness/runner"
	"verifharness/val"
)

// C18 – table lifecycle and metadata stay coherent.
type c18 struct{ base }

func init() {
	runner.Register(&c18{base{id: "C18", level: "exploration",
		rule: "exhaustive: every sequence of <=4 (thorough <=5) ops over the management alphabet {create A (2 configs), create B, delete A, delete B, clear A, put A, put B, add index A, delete index A, describe A} on one client; seeded: histories of 60 ops over 3 table names x 2 clients mixing CreateTable (PAY_PER_REQUEST / PROVISIONED with and without throughput / default billing, hash-only and hash+range, GSI/LSI sets), AddTable, DeleteTable, UpdateTable index create/delete, AddIndex, ClearTable, DescribeTable with data operations, queries and batches. After EVERY step ALL tables of ALL clients are observed (DescribeTable incl. per-index schemas and counts, every key, base scan, every index scan) and compared with the per-client catalogue model: an operation on one table or client must not change another; a re-created table starts empty with exactly the declared schema. non-trivial = history creates >=2 tables or re-creates a table and touches >=1 item; distinct by (adapter, op-kind sequence). Prefix-named tables (tbq, tbq_archive, tbq2, xtbq) with a native matcher and updater each: deleting (and re-creating) one leaves the callbacks of the others in force. The shared generator creates up to three indexes in one UpdateTable request.",
		assumptions: commonAssumptions}})
}

var c18Alphabet = []string{"createA1", "createA2", "createB", "deleteA", "deleteB", "clearA", "putA", "putB", "addindexA", "delindexA", "describeA"}

func c18AlphaOp(sym string, salt int) adapt.Op {
	a1 := adapt.TableSpec{Name: "tba", Hash: "h", Billing: "PAY_PER_REQUEST", Indexes: []adapt.IndexSpec{{Name: "gsi1", Hash: "g"}}}
	a2 := adapt.TableSpec{Name: "tba", Hash: "h", Range: "r", Billing: "PROVISIONED", Throughput: true, Indexes: []adapt.IndexSpec{{Name: "gsi2", Hash: "g", Range: "s"}, {Name: "lsi1", Hash: "h", Range: "s", Local: true}}}
	b := adapt.TableSpec{Name: "tbb", Hash: "h", Billing: "PAY_PER_REQUEST"}
	switch sym {
	case "createA1":
		return adapt.Op{Kind: adapt.OpCreateTable, Spec: &a1}
	case "createA2":
		return adapt.Op{Kind: adapt.OpCreateTable, Spec: &a2}
	case "createB":
		return adapt.Op{Kind: adapt.OpCreateTable, Spec: &b}
	case "deleteA":
		return adapt.Op{Kind: adapt.OpDeleteTable, Table: "tba"}
	case "deleteB":
		return adapt.Op{Kind: adapt.OpDeleteTable, Table: "tbb"}
	case "clearA":
		return adapt.Op{Kind: adapt.OpClearTable, Table: "tba"}
	case "putA":
		return adapt.Op{Kind: adapt.OpPut, Table: "tba", Item: ixItem("p", "1", "x", "9", salt)}
	case "putB":
		return adapt.Op{Kind: adapt.OpPut, Table: "tbb", Item: ixItem("p", "1", "x", "9", salt)}
	case "addindexA":
		return adapt.Op{Kind: adapt.OpAddIndex, Table: "tba", Ix: &adapt.IndexSpec{Name: "gsi3", Hash: "s"}}
	case "delindexA":
		return adapt.Op{Kind: adapt.OpUpdateTable, Table: "tba", Chg: []adapt.IndexChange{{Delete: "gsi1"}}}
	}
	return adapt.Op{Kind: adapt.OpDescribe, Table: "tba"}
}

const c18Block = 200

func c18MaxLen(tier string) int {
	if tier == "thorough" {
		return 5
	}
	return 4
}

func c18ExhCount(tier string) int {
	n, p := 0, 1
	for l := 1; l <= c18MaxLen(tier); l++ {
		p *= len(c18Alphabet)
		n += p
	}
	return n
}

func c18Seeded(tier string) int {
	if tier == "thorough" {
		return 20000
	}
	return 4000
}

func (p *c18) NumCases(tier string) int {
	return (c18ExhCount(tier)+c18Block-1)/c18Block*2 + c18Seeded(tier) + len(c18BulkSizes)*len(c18BulkActions)*2
}

// bulk lifecycle: the lifecycle operations applied to a table that holds MANY items (sizes on both sides of
// 16 / 32 / 64 / 100 / 128 / 256), filled through BatchWriteItem calls of 25 and single puts, with three
// secondary indexes; after the operation everything is observed, the table is refilled and observed again
var c18BulkSizes = []int{17, 33, 65, 101, 129, 257}
var c18BulkActions = []string{"clear", "clear-twice", "delete-recreate", "drop-index", "create-index", "replace-index", "delete-half-singly", "clear-other-table", "rejected-updatetable"}

func (p *c18) bulk(x *res, adapter string, n int, action string, ctx *runner.Ctx) {
	spec := ixSpec("tba", true)
	other := ixSpec("tbb", true)
	cl, m, ds := freshClient(adapter, spec, other)
	if ds != nil {
		x.viol("setup", "create", ds[0].Detail, spec)
		return
	}
	keys := mon.KeyLog{}
	st := &mon.HistoryStats{}
	fill := func(table string, from, to int) []adapt.Op {
		ops := []adapt.Op{}
		batch := []adapt.BatchEntry{}
		for i := from; i < to; i++ {
			it := ixItem(fmt.Sprint("p", i%3), fmt.Sprintf("r%04d", i), []string{"x", "y", ""}[i%3], []string{"1", "10", "", "9"}[i%4], i)
			if i%7 == 0 {
				ops = append(ops, adapt.Op{Kind: adapt.OpPut, Table: table, Item: it})
				continue
			}
			batch = append(batch, adapt.BatchEntry{Table: table, Put: it})
			if len(batch) == 25 {
				ops = append(ops, adapt.Op{Kind: adapt.OpBatchWrite, Batch: batch})
				batch = nil
			}
		}
		if len(batch) > 0 {
			ops = append(ops, adapt.Op{Kind: adapt.OpBatchWrite, Batch: batch})
		}
		return ops
	}
	hist := append(fill(spec.Name, 0, n), fill(other.Name, 0, n)...)
	var act []adapt.Op
	gsi2 := adapt.IndexSpec{Name: "gsi2", Hash: "g", Range: "s"}
	switch action {
	case "clear":
		act = []adapt.Op{{Kind: adapt.OpClearTable, Table: spec.Name}}
	case "clear-twice":
		act = []adapt.Op{{Kind: adapt.OpClearTable, Table: spec.Name}, {Kind: adapt.OpClearTable, Table: spec.Name}}
	case "delete-recreate":
		act = []adapt.Op{{Kind: adapt.OpDeleteTable, Table: spec.Name}, createOp(spec)}
	case "drop-index":
		act = []adapt.Op{{Kind: adapt.OpUpdateTable, Table: spec.Name, Chg: []adapt.IndexChange{{Delete: "gsi2"}}}}
	case "create-index":
		act = []adapt.Op{{Kind: adapt.OpUpdateTable, Table: spec.Name, Chg: []adapt.IndexChange{{Create: &adapt.IndexSpec{Name: "gsi9", Hash: "s", Range: "g"}}}}}
	case "replace-index":
		act = []adapt.Op{{Kind: adapt.OpUpdateTable, Table: spec.Name, Chg: []adapt.IndexChange{{Delete: "gsi2"}}}, {Kind: adapt.OpUpdateTable, Table: spec.Name, Chg: []adapt.IndexChange{{Create: &gsi2}}}}
	case "delete-half-singly":
		for i := 0; i < n; i += 2 {
			act = append(act, adapt.Op{Kind: adapt.OpDelete, Table: spec.Name, Key: val.Item{"h": val.Str(fmt.Sprint("p", i%3)), "r": val.Str(fmt.Sprintf("r%04d", i))}})
		}
	case "clear-other-table":
		act = []adapt.Op{{Kind: adapt.OpClearTable, Table: other.Name}}
	case "rejected-updatetable":
		act = []adapt.Op{{Kind: adapt.OpUpdateTable, Table: spec.Name, Chg: []adapt.IndexChange{{Delete: "gsi1"}, {Delete: "gsi2"}, {Delete: "nosuchindex"}}}}
	}
	refill := fill(spec.Name, n/2, n/2+20)
	stages := [][]adapt.Op{hist, act, refill}
	done := []adapt.Op{}
	for si, ops := range stages {
		f := mon.RunHistory(cl, m, ops, keys, false, nil, ctx.Trace, st)
		if f == nil {
			obs := mon.Observe(cl, m, keys, []string{spec.Name, other.Name})
			if len(obs) == 0 {
				obs = c03Queries(cl, m, st)
			}
			if len(obs) > 0 {
				f = &mon.Failure{Step: len(ops) - 1, Phase: "observe", Diffs: obs, Op: ops[len(ops)-1]}
			}
		}
		if f != nil {
			f.Prefix = append(append([]adapt.Op{}, done...), ops[:f.Step+1]...)
			if len(f.Prefix) > 12 {
				f.Prefix = f.Prefix[len(f.Prefix)-12:] // the bulk fill is described by the witness setup, not listed
			}
			x.failureViolation(adapter, f, map[string]interface{}{"bulk_items": n, "action": action, "stage": []string{"fill", "action", "refill"}[si]})
			break
		}
		done = append(done, ops...)
	}
	x.r.Evals += st.Calls + 3*(2*n+10)
	x.r.Counters["bulk_histories"]++
	x.fp(true, "bulk|%s|%d|%s", adapter, n, action)
	x.set("bulk_sizes", fmt.Sprint(n))
}

func c18Decode(seq int) []int {
	k := len(c18Alphabet)
	l, p := 1, k
	for seq >= p {
		seq -= p
		p *= k
		l++
	}
	out := make([]int, l)
	for i := range out {
		out[i] = seq % k
		seq /= k
	}
	return out
}

// addIndex on a model without the index name clash is fine; the alphabet's addindexA after
// addindexA would create an existing index (model gap) – skip such sequences.
func c18HasGap(m *model.Client, op adapt.Op) bool {
	if op.Kind == adapt.OpAddIndex {
		if t, ok := m.Tables[op.Table]; ok {
			if _, has := t.Index(op.Ix.Name); has {
				return true
			}
		}
	}
	return false
}

func (p *c18) RunCase(ctx *runner.Ctx) runner.CaseResult {
	x := newRes()
	blocks := (c18ExhCount(ctx.Tier) + c18Block - 1) / c18Block
	if ctx.Case < blocks*2 {
		adapter := adapt.Adapters[ctx.Case%2]
		block := ctx.Case / 2
		total := c18ExhCount(ctx.Tier)
		for seq := block * c18Block; seq < (block+1)*c18Block && seq < total; seq++ {
			dec := c18Decode(seq)
			cl := adapt.New(adapter)
			m := model.New()
			keys := mon.KeyLog{}
			st := &mon.HistoryStats{}
			names := []string{}
			creates, puts := 0, 0
			for i, d := range dec {
				sym := c18Alphabet[d]
				names = append(names, sym)
				op := c18AlphaOp(sym, i)
				if c18HasGap(m, op) {
					break
				}
				if strings.HasPrefix(sym, "create") {
					creates++
				}
				if strings.HasPrefix(sym, "put") {
					puts++
				}
				if f := mon.RunHistory(cl, m, []adapt.Op{op}, keys, true, []string{"tba", "tbb"}, ctx.Trace, st); f != nil {
					f.Step = i
					x.failureViolation(adapter, f, names)
					break
				}
			}
			x.r.Evals += st.Calls
			x.r.Counters["histories"]++
			x.fp(creates >= 2 && puts >= 1, "ex|%s|%s", adapter, strings.Join(names, ","))
		}
		if block == 0 {
			// the life cycle of one table leaves the native callbacks registered for tables with RELATED names alone
			(&c20{}).prefixNamedTables(x, adapter)
		}
		if block%50 == 0 {
			x.r.Sample = map[string]interface{}{"kind": "exhaustive", "adapter": adapter, "alphabet": c18Alphabet}
		}
		return x.r
	}
	idx := ctx.Case - blocks*2
	if idx >= c18Seeded(ctx.Tier) {
		b := idx - c18Seeded(ctx.Tier)
		adapter := adapt.Adapters[b%2]
		b /= 2
		p.bulk(x, adapter, c18BulkSizes[b%len(c18BulkSizes)], c18BulkActions[b/len(c18BulkSizes)], ctx)
		return x.r
	}
	r := mon.Rng(ctx.Seed, "C18", idx)
	adapter := adapt.Adapters[idx%2]
	cls := []adapt.Client{adapt.New(adapter), adapt.New(adapter)}
	ms := []*model.Client{model.New(), model.New()}
	keys := []mon.KeyLog{{}, {}}
	w := opWeights{mgmt: 5, helpers: 2, data: 8, search: 2, batch: 1, fail: 0, noBatchGet: true}
	st := &mon.HistoryStats{}
	shape := []string{}
	hist := []adapt.Op{}
	creates := 0
	for i := 0; i < 60; i++ {
		ci := r.Intn(2)
		op := genOp(r, ms[ci], w, i)
		op.Client = ci
		hist = append(hist, op)
		shape = append(shape, fmt.Sprintf("%d:%s", ci, mon.OpFeature(op)))
		if op.Kind == adapt.OpCreateTable || op.Kind == adapt.OpAddTable {
			creates++
		}
		f := mon.RunHistory(cls[ci], ms[ci], []adapt.Op{op}, keys[ci], true, genTableNames, ctx.Trace, st)
		if f == nil {
			// the other client must be untouched: observe it as well
			oc := 1 - ci
			if ds := mon.Observe(cls[oc], ms[oc], keys[oc], genTableNames); len(ds) > 0 {
				for k := range ds {
					ds[k].Rule = "other-client-" + ds[k].Rule
				}
				f = &mon.Failure{Phase: "observe", Diffs: ds, Op: op}
			}
		}
		if f != nil {
			f.Step = i
			f.Prefix = hist
			x.failureViolation(adapter, f, "two clients; op.client selects the client")
			break
		}
	}
	x.r.Evals += st.Calls
	x.r.Counters["histories"]++
	x.fp(creates >= 2, "seeded|%s|%s", adapter, strings.Join(shape, ","))
	if idx < 2 {
		x.r.Sample = map[string]interface{}{"kind": "seeded", "adapter": adapter, "ops": shape}
	}
	return x.r
}
