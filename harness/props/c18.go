package props

import (
	"fmt"
	"strings"

	"verifharness/adapt"
	"verifharness/model"
	"verifharness/mon"
	"verifharness/runner"
)

// C18 – table lifecycle and metadata stay coherent.
type c18 struct{ base }

func init() {
	runner.Register(&c18{base{id: "C18", level: "exploration",
		rule: "exhaustive: every sequence of <=4 (thorough <=5) ops over the management alphabet {create A (2 configs), create B, delete A, delete B, clear A, put A, put B, add index A, delete index A, describe A} on one client; seeded: histories of 60 ops over 3 table names x 2 clients mixing CreateTable (PAY_PER_REQUEST / PROVISIONED with and without throughput / default billing, hash-only and hash+range, GSI/LSI sets), AddTable, DeleteTable, UpdateTable index create/delete, AddIndex, ClearTable, DescribeTable with data operations, queries and batches. After EVERY step ALL tables of ALL clients are observed (DescribeTable incl. per-index schemas and counts, every key, base scan, every index scan) and compared with the per-client catalogue model: an operation on one table or client must not change another; a re-created table starts empty with exactly the declared schema. non-trivial = history creates >=2 tables or re-creates a table and touches >=1 item; distinct by (adapter, op-kind sequence).",
		assumptions: commonAssumptions}})
}

var c18Alphabet = []string{"createA1", "createA2", "createB", "deleteA", "deleteB", "clearA", "putA", "putB", "addindexA", "delindexA", "describeA"}

func c18AlphaOp(sym string, salt int) adapt.Op {
	a1 := adapt.TableSpec{Name: "tba", Hash: "h", Billing: "PAY_PER_REQUEST", Indexes: []adapt.IndexSpec{{Name: "gsi1", Hash: "g"}}}
	a2 := adapt.TableSpec{Name: "tba", Hash: "h", Range: "r", Billing: "PROVISIONED", Throughput: true, Indexes: []adapt.IndexSpec{{Name: "gsi2", Hash: "g", Range: "s"}, {Name: "lsi1", Hash: "h", Range: "s", Local: true}}}
	b := adapt.TableSpec{Name: "tbb", Hash: "h", Billing: "PAY_PER_REQUEST"}
	switch sym {
	case "createA1":
		return adapt.Op{Kind: adapt.OpCreateTable, Spec: &a1}
	case "createA2":
		return adapt.Op{Kind: adapt.OpCreateTable, Spec: &a2}
	case "createB":
		return adapt.Op{Kind: adapt.OpCreateTable, Spec: &b}
	case "deleteA":
		return adapt.Op{Kind: adapt.OpDeleteTable, Table: "tba"}
	case "deleteB":
		return adapt.Op{Kind: adapt.OpDeleteTable, Table: "tbb"}
	case "clearA":
		return adapt.Op{Kind: adapt.OpClearTable, Table: "tba"}
	case "putA":
		return adapt.Op{Kind: adapt.OpPut, Table: "tba", Item: ixItem("p", "1", "x", "9", salt)}
	case "putB":
		return adapt.Op{Kind: adapt.OpPut, Table: "tbb", Item: ixItem("p", "1", "x", "9", salt)}
	case "addindexA":
		return adapt.Op{Kind: adapt.OpAddIndex, Table: "tba", Ix: &adapt.IndexSpec{Name: "gsi3", Hash: "s"}}
	case "delindexA":
		return adapt.Op{Kind: adapt.OpUpdateTable, Table: "tba", Chg: []adapt.IndexChange{{Delete: "gsi1"}}}
	}
	return adapt.Op{Kind: adapt.OpDescribe, Table: "tba"}
}

const c18Block = 200

func c18MaxLen(tier string) int {
	if tier == "thorough" {
		return 5
	}
	return 4
}

func c18ExhCount(tier string) int {
	n, p := 0, 1
	for l := 1; l <= c18MaxLen(tier); l++ {
		p *= len(c18Alphabet)
		n += p
	}
	return n
}

func c18Seeded(tier string) int {
	if tier == "thorough" {
		return 10000
	}
	return 1000
}

func (p *c18) NumCases(tier string) int {
	return (c18ExhCount(tier)+c18Block-1)/c18Block*2 + c18Seeded(tier)
}

func c18Decode(seq int) []int {
	k := len(c18Alphabet)
	l, p := 1, k
	for seq >= p {
		seq -= p
		p *= k
		l++
	}
	out := make([]int, l)
	for i := range out {
		out[i] = seq % k
		seq /= k
	}
	return out
}

// addIndex on a model without the index name clash is fine; the alphabet's addindexA after
// addindexA would create an existing index (model gap) – skip such sequences.
func c18HasGap(m *model.Client, op adapt.Op) bool {
	if op.Kind == adapt.OpAddIndex {
		if t, ok := m.Tables[op.Table]; ok {
			if _, has := t.Index(op.Ix.Name); has {
				return true
			}
		}
	}
	return false
}

func (p *c18) RunCase(ctx *runner.Ctx) runner.CaseResult {
	x := newRes()
	blocks := (c18ExhCount(ctx.Tier) + c18Block - 1) / c18Block
	if ctx.Case < blocks*2 {
		adapter := adapt.Adapters[ctx.Case%2]
		block := ctx.Case / 2
		total := c18ExhCount(ctx.Tier)
		for seq := block * c18Block; seq < (block+1)*c18Block && seq < total; seq++ {
			dec := c18Decode(seq)
			cl := adapt.New(adapter)
			m := model.New()
			keys := mon.KeyLog{}
			st := &mon.HistoryStats{}
			names := []string{}
			creates, puts := 0, 0
			for i, d := range dec {
				sym := c18Alphabet[d]
				names = append(names, sym)
				op := c18AlphaOp(sym, i)
				if c18HasGap(m, op) {
					break
				}
				if strings.HasPrefix(sym, "create") {
					creates++
				}
				if strings.HasPrefix(sym, "put") {
					puts++
				}
				if f := mon.RunHistory(cl, m, []adapt.Op{op}, keys, true, []string{"tba", "tbb"}, ctx.Trace, st); f != nil {
					f.Step = i
					x.failureViolation(adapter, f, names)
					break
				}
			}
			x.r.Evals += st.Calls
			x.r.Counters["histories"]++
			x.fp(creates >= 2 && puts >= 1, "ex|%s|%s", adapter, strings.Join(names, ","))
		}
		if block%50 == 0 {
			x.r.Sample = map[string]interface{}{"kind": "exhaustive", "adapter": adapter, "alphabet": c18Alphabet}
		}
		return x.r
	}
	idx := ctx.Case - blocks*2
	r := mon.Rng(ctx.Seed, "C18", idx)
	adapter := adapt.Adapters[idx%2]
	cls := []adapt.Client{adapt.New(adapter), adapt.New(adapter)}
	ms := []*model.Client{model.New(), model.New()}
	keys := []mon.KeyLog{{}, {}}
	w := opWeights{mgmt: 5, helpers: 2, data: 8, search: 2, batch: 1, fail: 0, noBatchGet: true}
	st := &mon.HistoryStats{}
	shape := []string{}
	hist := []adapt.Op{}
	creates := 0
	for i := 0; i < 60; i++ {
		ci := r.Intn(2)
		op := genOp(r, ms[ci], w, i)
		op.Client = ci
		hist = append(hist, op)
		shape = append(shape, fmt.Sprintf("%d:%s", ci, mon.OpFeature(op)))
		if op.Kind == adapt.OpCreateTable || op.Kind == adapt.OpAddTable {
			creates++
		}
		f := mon.RunHistory(cls[ci], ms[ci], []adapt.Op{op}, keys[ci], true, genTableNames, ctx.Trace, st)
		if f == nil {
			// the other client must be untouched: observe it as well
			oc := 1 - ci
			if ds := mon.Observe(cls[oc], ms[oc], keys[oc], genTableNames); len(ds) > 0 {
				for k := range ds {
					ds[k].Rule = "other-client-" + ds[k].Rule
				}
				f = &mon.Failure{Phase: "observe", Diffs: ds, Op: op}
			}
		}
		if f != nil {
			f.Step = i
			f.Prefix = hist
			x.failureViolation(adapter, f, "two clients; op.client selects the client")
			break
		}
	}
	x.r.Evals += st.Calls
	x.r.Counters["histories"]++
	x.fp(creates >= 2, "seeded|%s|%s", adapter, strings.Join(shape, ","))
	if idx < 2 {
		x.r.Sample = map[string]interface{}{"kind": "seeded", "adapter": adapter, "ops": shape}
	}
	return x.r
}
