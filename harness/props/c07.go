package props

import (
	"encoding/json"
	"fmt"
	"math/rand"
	"sort"
	"strings"

	"github.com/truora/minidyn/interpreter"

	"verifharness/adapt"
	"verifharness/mon"
	"verifharness/refmodel"
	"verifharness/runner"
	"verifharness/val"
)

// C07 – update expressions apply exactly their actions and nothing else.
type c07 struct{ base }

func init() {
	runner.Register(&c07{base{id: "C07", level: "exploration",
		rule:        "exhaustive single actions: every action kind x target shape {absent top-level, top-level scalar, map member, nested map member, list element inside / at / past the end, element of a nested list, set} x right-hand-side shape {value, path, +, -, if_not_exists(present / absent), list_append both orders}; every pairing of a copy (plain path, list_append(src, :e) with empty and non-empty :e, list_append(:e, src), if_not_exists(src, :d)) with an in-place change of the source or of a document INSIDE an element of the source, in every clause order; seeded: 1-4 clauses per expression incl. all four keywords together in random clause order, on items with 3-8 bystander attributes of all ten types, on present and absent items. Each case is executed (1) directly through interpreter.Language.Update on a copy and (2) for a sample through UpdateItem -> GetItem on both adapters; the result is compared with the oracle on EVERY attribute (targeted = specified value, removed = gone, all others equal in type and value). non-trivial = item has >=3 bystander attributes and the update changes the item; distinct by (update skeleton, target/operand kind vector). Targets three and four steps deep in a four-level document (same member names in both orders, maps inside a list); ill-fitting paths include paths into a missing attribute or a NULL, refused for SET and REMOVE alike; half of the client replays run on tables with indexes over string attributes of the item.",
		assumptions: append([]string{"paths of one expression never overlap (generator guarantee; DynamoDB rejects overlaps)", "numbers are small decimals that float64 represents exactly (exact-decimal behaviour is C12's subject)"}, commonAssumptions...)}})
}

func c07BaseItem(r *rand.Rand, bystanders int) val.Item {
	it := val.Item{
		"m":  val.Map(map[string]val.V{"x": val.Str("mx"), "k": val.Map(map[string]val.V{"y": val.Num("1"), "z": val.Str("kz")}), "li": val.List(val.Str("a"), val.Str("b"))}),
		"l":  val.List(val.Str("l0"), val.Num("1"), val.List(val.Num("7"), val.Num("8")), val.Map(map[string]val.V{"q": val.Str("lq")})),
		// a document four levels deep, with the same member names in both orders (a.b.c / a.c.b) and maps inside a list
		"dp": val.Map(map[string]val.V{
			"a": val.Map(map[string]val.V{
				"b": val.Map(map[string]val.V{"c": val.Map(map[string]val.V{"v": val.Num("1"), "w": val.Str("abcw")}), "t": val.Str("abt")}),
				"c": val.Map(map[string]val.V{"b": val.Map(map[string]val.V{"v": val.Num("2"), "w": val.Str("acbw")})})}),
			"items": val.List(val.Map(map[string]val.V{"qty": val.Num("1"), "tags": val.List(val.Str("t0"), val.Str("t1"))}), val.Map(map[string]val.V{"qty": val.Num("2")}))}),
		"n":  val.Num("5"),
		"s":  val.Str("str"),
		"ss": val.SS("a", "b", "c"),
		"ns": val.NS("1", "2", "3"),
		"bs": val.BS("a", "b"),
		"l2": val.List(val.Str("x")),
		// a list whose elements are the values some code might take for "nothing"
		"lnul": val.List(val.Null(), val.Str("a"), val.Null(), val.Bool(false), val.Str(""), val.List(), val.Map(map[string]val.V{})),
		// attributes that EXIST with a value some code might take for "nothing": NULL, false, empty string / list / map
		"znull":  val.Null(),
		"zfalse": val.Bool(false),
		"zempty": val.Str(""),
		"zm":     val.Map(map[string]val.V{"nul": val.Null(), "f": val.Bool(false)}),
		// unrelated top-level scalars named like the first step of a "path reading" of the dotted names the
		// #placeholders stand for (a.b, app.version): they have nothing to do with the MEMBER "a.b" of a map
		"a":   val.Num("7"),
		"app": val.Str("scalar"),
		// numbers and sets below the top level (targets of ADD / DELETE with a document path)
		"zn": val.Map(map[string]val.V{"cnt": val.Num("3"), "tags": val.SS("a", "b", "c"), "nums": val.NS("1", "2"), "li": val.List(val.Num("1"), val.SS("x", "y"))}),
		// bystanders no action ever names: values a float64 round trip would change
		"zbig":   val.Num("12345678901234567890123456789012345678"),
		"zbigns": val.NS("9007199254740993", "1152921504606846977"),
		"zbigl":  val.List(val.Num("9007199254740993"), val.NS("0.1000000000000000000000000001")),
		"zbigm":  val.Map(map[string]val.V{"id": val.Num("1152921504606846977"), "s": val.NS("9007199254740993")}),
	}
	opts := mon.GenOpts{MaxDepth: 2, NoEmptyLM: true, AllowEmptyB: true}
	for i := 0; i < bystanders; i++ {
		it[fmt.Sprintf("by%d", i)] = mon.ValueOfKind(r, val.AllKinds[(i+r.Intn(10))%10], 2, opts)
	}
	return it
}

func pth(els ...interface{}) refmodel.Path {
	p := refmodel.Path{}
	for _, e := range els {
		switch t := e.(type) {
		case string:
			if strings.HasPrefix(t, "#") {
				p = append(p, refmodel.PathEl{Name: t[1:], Alias: "#a" + t[1:]})
			} else {
				p = append(p, refmodel.PathEl{Name: t})
			}
		case int:
			p = append(p, refmodel.PathEl{IsIdx: true, Idx: t})
		}
	}
	return p
}

type c07Case struct {
	// IllPath names the shape of a target path that does not fit the item (a list index on a map, a map key on
	// a list, a step into a scalar): the action can be applied to nothing, the request must not report success
	IllPath string
	U       *refmodel.Update
	Item    val.Item // nil = absent
	Values  val.Item
}

var c07SetTargets = []refmodel.Path{
	pth("nu"), pth("s"), pth("n"), pth("m", "x"), pth("m", "nw"), pth("m", "k", "y"), pth("m", "k", "nw"), pth("l", 0), pth("l", 3), pth("l", 4), pth("l", 9),
	pth("l", 2, 1), pth("l", 3, "q"), pth("m", "li", 1), pth("#s"), pth("m", "#x"), pth("ss"), pth("l"), pth("m"),
	pth("zz", "x"), pth("s", "x"), pth("m", "zz", "y"), pth("l", 7, "q"), // parents that do not exist: rejected by DynamoDB
	// three and four steps below the attribute
	pth("dp", "a", "b", "c"), pth("dp", "a", "b", "c", "v"), pth("dp", "a", "c", "b", "v"), pth("dp", "a", "b", "nw"), pth("dp", "items", 0, "qty"), pth("dp", "items", 0, "tags", 1), pth("dp", "items", 1, "nw"),
	pth("dp", "a", "zz", "c", "v"), // a parent that does not exist, three steps down
}

func uv(name string) *refmodel.UExpr     { return &refmodel.UExpr{Kind: "val", Val: name} }
func up(p refmodel.Path) *refmodel.UExpr { return &refmodel.UExpr{Kind: "path", Path: p} }

type rhsGen struct {
	name string
	mk   func(values val.Item) *refmodel.UExpr
}

var c07RHS = []rhsGen{
	{"val-S", func(v val.Item) *refmodel.UExpr { v[":v"] = val.Str("new"); return uv(":v") }},
	{"val-N", func(v val.Item) *refmodel.UExpr { v[":v"] = val.Num("42"); return uv(":v") }},
	{"val-L", func(v val.Item) *refmodel.UExpr {
		v[":v"] = val.List(val.Str("p"), val.Map(map[string]val.V{"i": val.Num("1")}))
		return uv(":v")
	}},
	{"val-M", func(v val.Item) *refmodel.UExpr {
		v[":v"] = val.Map(map[string]val.V{"i": val.List(val.Num("1"))})
		return uv(":v")
	}},
	{"val-SS", func(v val.Item) *refmodel.UExpr { v[":v"] = val.SS("q"); return uv(":v") }},
	{"val-NULL", func(v val.Item) *refmodel.UExpr { v[":v"] = val.Null(); return uv(":v") }},
	{"val-BOOL", func(v val.Item) *refmodel.UExpr { v[":v"] = val.Bool(false); return uv(":v") }},
	{"val-B", func(v val.Item) *refmodel.UExpr { v[":v"] = val.Bin("\x00\x01"); return uv(":v") }},
	{"path-top", func(v val.Item) *refmodel.UExpr { return up(pth("s")) }},
	{"path-nested", func(v val.Item) *refmodel.UExpr { return up(pth("m", "k", "z")) }},
	{"path-list", func(v val.Item) *refmodel.UExpr { return up(pth("l", 2, 0)) }},
	{"path-missing", func(v val.Item) *refmodel.UExpr { return up(pth("nope")) }},
	// plain copies of attributes that other actions of the same expression modify in place
	{"copy-number", func(v val.Item) *refmodel.UExpr { return up(pth("n")) }},
	{"copy-ss", func(v val.Item) *refmodel.UExpr { return up(pth("ss")) }},
	{"copy-ns", func(v val.Item) *refmodel.UExpr { return up(pth("ns")) }},
	{"copy-bs", func(v val.Item) *refmodel.UExpr { return up(pth("bs")) }},
	{"copy-list", func(v val.Item) *refmodel.UExpr { return up(pth("l2")) }},
	{"copy-biglist", func(v val.Item) *refmodel.UExpr { return up(pth("l")) }},
	{"copy-map", func(v val.Item) *refmodel.UExpr { return up(pth("m")) }},
	{"copy-nested-number", func(v val.Item) *refmodel.UExpr { return up(pth("m", "k", "y")) }},
	{"plus-pv", func(v val.Item) *refmodel.UExpr {
		v[":i"] = val.Num("3")
		return &refmodel.UExpr{Kind: "plus", Kids: []*refmodel.UExpr{up(pth("n")), uv(":i")}}
	}},
	{"minus-pv", func(v val.Item) *refmodel.UExpr {
		v[":i"] = val.Num("2.5")
		return &refmodel.UExpr{Kind: "minus", Kids: []*refmodel.UExpr{up(pth("n")), uv(":i")}}
	}},
	{"plus-vp", func(v val.Item) *refmodel.UExpr {
		v[":i"] = val.Num("10")
		return &refmodel.UExpr{Kind: "plus", Kids: []*refmodel.UExpr{uv(":i"), up(pth("m", "k", "y"))}}
	}},
	{"minus-vp", func(v val.Item) *refmodel.UExpr {
		v[":i"] = val.Num("100")
		return &refmodel.UExpr{Kind: "minus", Kids: []*refmodel.UExpr{uv(":i"), up(pth("n"))}}
	}},
	{"minus-vp-nested", func(v val.Item) *refmodel.UExpr {
		v[":i"] = val.Num("10")
		return &refmodel.UExpr{Kind: "minus", Kids: []*refmodel.UExpr{uv(":i"), up(pth("l", 2, 1))}}
	}},
	{"minus-v-ifne", func(v val.Item) *refmodel.UExpr {
		v[":i"] = val.Num("10")
		v[":d"] = val.Num("3")
		return &refmodel.UExpr{Kind: "minus", Kids: []*refmodel.UExpr{uv(":i"), {Kind: "ifne", Path: pth("cnt"), Kids: []*refmodel.UExpr{uv(":d")}}}}
	}},
	{"minus-vv", func(v val.Item) *refmodel.UExpr {
		v[":i"] = val.Num("10")
		v[":d"] = val.Num("3")
		return &refmodel.UExpr{Kind: "minus", Kids: []*refmodel.UExpr{uv(":i"), uv(":d")}}
	}},
	{"minus-pp", func(v val.Item) *refmodel.UExpr {
		return &refmodel.UExpr{Kind: "minus", Kids: []*refmodel.UExpr{up(pth("n")), up(pth("l", 1))}}
	}},
	{"plus-nonnumber", func(v val.Item) *refmodel.UExpr {
		v[":i"] = val.Num("1")
		return &refmodel.UExpr{Kind: "plus", Kids: []*refmodel.UExpr{up(pth("s")), uv(":i")}}
	}},
	{"ifne-present", func(v val.Item) *refmodel.UExpr {
		v[":d"] = val.Str("default")
		return &refmodel.UExpr{Kind: "ifne", Path: pth("s"), Kids: []*refmodel.UExpr{uv(":d")}}
	}},
	{"ifne-absent", func(v val.Item) *refmodel.UExpr {
		v[":d"] = val.Num("0")
		return &refmodel.UExpr{Kind: "ifne", Path: pth("nope"), Kids: []*refmodel.UExpr{uv(":d")}}
	}},
	{"ifne-present-null", func(v val.Item) *refmodel.UExpr {
		v[":d"] = val.Str("default")
		return &refmodel.UExpr{Kind: "ifne", Path: pth("znull"), Kids: []*refmodel.UExpr{uv(":d")}}
	}},
	{"ifne-present-false", func(v val.Item) *refmodel.UExpr {
		v[":d"] = val.Bool(true)
		return &refmodel.UExpr{Kind: "ifne", Path: pth("zfalse"), Kids: []*refmodel.UExpr{uv(":d")}}
	}},
	{"ifne-present-empty-string", func(v val.Item) *refmodel.UExpr {
		v[":d"] = val.Str("default")
		return &refmodel.UExpr{Kind: "ifne", Path: pth("zempty"), Kids: []*refmodel.UExpr{uv(":d")}}
	}},
	{"ifne-present-nested-null", func(v val.Item) *refmodel.UExpr {
		v[":d"] = val.Str("default")
		return &refmodel.UExpr{Kind: "ifne", Path: pth("zm", "nul"), Kids: []*refmodel.UExpr{uv(":d")}}
	}},
	{"copy-null", func(v val.Item) *refmodel.UExpr { return up(pth("znull")) }},
	{"copy-nested-false", func(v val.Item) *refmodel.UExpr { return up(pth("zm", "f")) }},
	{"ifne-nested-absent", func(v val.Item) *refmodel.UExpr {
		v[":d"] = val.Str("dd")
		return &refmodel.UExpr{Kind: "ifne", Path: pth("m", "nope"), Kids: []*refmodel.UExpr{uv(":d")}}
	}},
	{"ifne-plus", func(v val.Item) *refmodel.UExpr {
		v[":d"] = val.Num("0")
		v[":i"] = val.Num("1")
		return &refmodel.UExpr{Kind: "plus", Kids: []*refmodel.UExpr{{Kind: "ifne", Path: pth("cnt"), Kids: []*refmodel.UExpr{uv(":d")}}, uv(":i")}}
	}},
	{"append-pv", func(v val.Item) *refmodel.UExpr {
		v[":a"] = val.List(val.Str("tail"))
		return &refmodel.UExpr{Kind: "append", Kids: []*refmodel.UExpr{up(pth("l2")), uv(":a")}}
	}},
	{"append-vp", func(v val.Item) *refmodel.UExpr {
		v[":a"] = val.List(val.Str("head"), val.Num("0"))
		return &refmodel.UExpr{Kind: "append", Kids: []*refmodel.UExpr{uv(":a"), up(pth("m", "li"))}}
	}},
	{"append-ifne", func(v val.Item) *refmodel.UExpr {
		v[":a"] = val.List(val.Str("x"))
		v[":e"] = val.List(val.Str("seed"))
		return &refmodel.UExpr{Kind: "append", Kids: []*refmodel.UExpr{{Kind: "ifne", Path: pth("nolist"), Kids: []*refmodel.UExpr{uv(":e")}}, uv(":a")}}
	}},
	// function calls nested in EVERY argument position of another function (first and second argument)
	{"append-v-ifne", func(v val.Item) *refmodel.UExpr {
		v[":a"] = val.List(val.Str("new"))
		v[":e"] = val.List()
		return &refmodel.UExpr{Kind: "append", Kids: []*refmodel.UExpr{uv(":a"), {Kind: "ifne", Path: pth("l2"), Kids: []*refmodel.UExpr{uv(":e")}}}}
	}},
	{"append-v-ifne-absent", func(v val.Item) *refmodel.UExpr {
		v[":a"] = val.List(val.Str("new"))
		v[":e"] = val.List(val.Str("seed"))
		return &refmodel.UExpr{Kind: "append", Kids: []*refmodel.UExpr{uv(":a"), {Kind: "ifne", Path: pth("nolist"), Kids: []*refmodel.UExpr{uv(":e")}}}}
	}},
	{"append-ifne-ifne", func(v val.Item) *refmodel.UExpr {
		v[":e"] = val.List(val.Str("seed"))
		v[":f"] = val.List(val.Str("other"))
		return &refmodel.UExpr{Kind: "append", Kids: []*refmodel.UExpr{{Kind: "ifne", Path: pth("m", "li"), Kids: []*refmodel.UExpr{uv(":e")}}, {Kind: "ifne", Path: pth("l2"), Kids: []*refmodel.UExpr{uv(":f")}}}}
	}},
	{"ifne-ifne-first-present", func(v val.Item) *refmodel.UExpr {
		v[":d"] = val.Str("default")
		return &refmodel.UExpr{Kind: "ifne", Path: pth("s"), Kids: []*refmodel.UExpr{{Kind: "ifne", Path: pth("n"), Kids: []*refmodel.UExpr{uv(":d")}}}}
	}},
	{"ifne-ifne-second-present", func(v val.Item) *refmodel.UExpr {
		v[":d"] = val.Str("default")
		return &refmodel.UExpr{Kind: "ifne", Path: pth("nope"), Kids: []*refmodel.UExpr{{Kind: "ifne", Path: pth("n"), Kids: []*refmodel.UExpr{uv(":d")}}}}
	}},
	{"ifne-ifne-none-present", func(v val.Item) *refmodel.UExpr {
		v[":d"] = val.Str("default")
		return &refmodel.UExpr{Kind: "ifne", Path: pth("nope"), Kids: []*refmodel.UExpr{{Kind: "ifne", Path: pth("nope2"), Kids: []*refmodel.UExpr{uv(":d")}}}}
	}},
	{"ifne-append", func(v val.Item) *refmodel.UExpr {
		v[":a"] = val.List(val.Str("tail"))
		return &refmodel.UExpr{Kind: "ifne", Path: pth("nope"), Kids: []*refmodel.UExpr{{Kind: "append", Kids: []*refmodel.UExpr{up(pth("l2")), uv(":a")}}}}
	}},
	{"append-append", func(v val.Item) *refmodel.UExpr {
		v[":a"] = val.List(val.Str("a1"))
		v[":b"] = val.List(val.Str("b1"))
		return &refmodel.UExpr{Kind: "append", Kids: []*refmodel.UExpr{uv(":a"), {Kind: "append", Kids: []*refmodel.UExpr{up(pth("l2")), uv(":b")}}}}
	}},
	{"plus-ifne-ifne", func(v val.Item) *refmodel.UExpr {
		v[":d"] = val.Num("100")
		v[":z"] = val.Num("7")
		return &refmodel.UExpr{Kind: "plus", Kids: []*refmodel.UExpr{{Kind: "ifne", Path: pth("n"), Kids: []*refmodel.UExpr{uv(":d")}}, {Kind: "ifne", Path: pth("cnt"), Kids: []*refmodel.UExpr{uv(":z")}}}}
	}},
	{"append-nulls-pv", func(v val.Item) *refmodel.UExpr {
		v[":a"] = val.List(val.Null(), val.Str("tail"), val.Null())
		return &refmodel.UExpr{Kind: "append", Kids: []*refmodel.UExpr{up(pth("lnul")), uv(":a")}}
	}},
	{"append-nulls-vp", func(v val.Item) *refmodel.UExpr {
		v[":a"] = val.List(val.Bool(false), val.Null(), val.Str(""))
		return &refmodel.UExpr{Kind: "append", Kids: []*refmodel.UExpr{uv(":a"), up(pth("lnul"))}}
	}},
	{"copy-list-with-nulls", func(v val.Item) *refmodel.UExpr { return up(pth("lnul")) }},
	{"append-nonlist", func(v val.Item) *refmodel.UExpr {
		v[":a"] = val.List(val.Str("x"))
		return &refmodel.UExpr{Kind: "append", Kids: []*refmodel.UExpr{up(pth("s")), uv(":a")}}
	}},
}

var c07RemoveTargets = []refmodel.Path{
	pth("s"), pth("nope"), pth("m", "x"), pth("m", "nope"), pth("m", "k", "y"), pth("l", 0), pth("l", 3), pth("l", 4), pth("l", 2, 0), pth("l", 3, "q"), pth("m", "li", 0),
	pth("#s"), pth("m", "#x"), pth("ss"), pth("m"), pth("l2", 0),
	pth("dp", "a", "b", "c"), pth("dp", "a", "b", "c", "v"), pth("dp", "a", "c", "b", "w"), pth("dp", "items", 0, "qty"), pth("dp", "items", 0, "tags", 0), pth("dp", "items", 1), pth("dp", "a", "b", "nope", "v"),
}

type addGen struct {
	name string
	kind string
	path refmodel.Path
	v    val.V
}

var c07AddDelete = []addGen{
	{"add-num", "ADD", pth("n"), val.Num("3")},
	{"add-num-neg", "ADD", pth("n"), val.Num("-7.5")},
	{"add-num-absent", "ADD", pth("cnt"), val.Num("1")},
	{"add-ss", "ADD", pth("ss"), val.SS("c", "d")},
	{"add-ns", "ADD", pth("ns"), val.NS("3", "4")},
	{"add-bs", "ADD", pth("bs"), val.BS("b", "c")},
	{"add-ss-absent", "ADD", pth("newset"), val.SS("x")},
	{"add-num-to-string", "ADD", pth("s"), val.Num("1")},
	{"add-ss-to-ns", "ADD", pth("ns"), val.SS("x")},
	{"add-alias", "ADD", pth("#n"), val.Num("1")},
	// a document path as the target: applied to the nested value (DynamoDB) or refused - never accepted and ignored
	{"add-num-nested", "ADD", pth("zn", "cnt"), val.Num("4")},
	{"add-num-nested-new-member", "ADD", pth("zn", "fresh"), val.Num("1")},
	{"add-num-list-element", "ADD", pth("zn", "li", 0), val.Num("10")},
	{"add-ss-nested", "ADD", pth("zn", "tags"), val.SS("c", "d")},
	{"add-ns-nested", "ADD", pth("zn", "nums"), val.NS("2", "3")},
	{"add-ss-list-element", "ADD", pth("zn", "li", 1), val.SS("z")},
	{"add-num-deep", "ADD", pth("m", "k", "y"), val.Num("1")},
	{"add-nested-no-parent", "ADD", pth("nope", "cnt"), val.Num("1")},
	{"delete-ss-nested", "DELETE", pth("zn", "tags"), val.SS("a", "zz")},
	{"delete-ns-nested", "DELETE", pth("zn", "nums"), val.NS("2")},
	{"delete-ss-nested-all", "DELETE", pth("zn", "tags"), val.SS("a", "b", "c")},
	{"delete-ss-list-element", "DELETE", pth("zn", "li", 1), val.SS("x")},
	{"delete-nested-absent", "DELETE", pth("zn", "nosuch"), val.SS("x")},
	{"delete-ss", "DELETE", pth("ss"), val.SS("a", "zz")},
	{"delete-ns", "DELETE", pth("ns"), val.NS("2")},
	{"delete-bs", "DELETE", pth("bs"), val.BS("a")},
	{"delete-all", "DELETE", pth("ss"), val.SS("a", "b", "c")},
	// the LAST members of a set, of every set type, by exactly its members and by a superset: a set cannot be empty,
	// the attribute goes away
	{"delete-all-ns", "DELETE", pth("ns"), val.NS("1", "2", "3")},
	{"delete-all-ns-other-notation", "DELETE", pth("ns"), val.NS("1.0", "2e0", "3", "9")},
	{"delete-all-bs", "DELETE", pth("bs"), val.BS("a", "b")},
	{"delete-all-bs-superset", "DELETE", pth("bs"), val.BS("b", "zz", "a")},
	{"delete-all-ss-superset", "DELETE", pth("ss"), val.SS("c", "b", "a", "zz")},
	{"delete-absent", "DELETE", pth("noset"), val.SS("a")},
	{"delete-wrong-type", "DELETE", pth("ss"), val.NS("1")},
	{"delete-from-string", "DELETE", pth("s"), val.SS("a")},
}

func c07Exhaustive() []c07Case {
	r := rand.New(rand.NewSource(7))
	out := []c07Case{}
	for _, t := range c07SetTargets {
		for _, g := range c07RHS {
			v := val.Item{}
			rhs := g.mk(v)
			out = append(out, c07Case{U: &refmodel.Update{Actions: []refmodel.Action{{Kind: "SET", Path: t, RHS: rhs}}}, Item: c07BaseItem(r, 3+r.Intn(3)), Values: v})
		}
	}
	for _, t := range c07RemoveTargets {
		out = append(out, c07Case{U: &refmodel.Update{Actions: []refmodel.Action{{Kind: "REMOVE", Path: t}}}, Item: c07BaseItem(r, 3+r.Intn(3)), Values: val.Item{}})
	}
	for _, g := range c07AddDelete {
		out = append(out, c07Case{U: &refmodel.Update{Actions: []refmodel.Action{{Kind: g.kind, Path: g.path, RHS: uv(":v")}}}, Item: c07BaseItem(r, 3+r.Intn(3)), Values: val.Item{":v": g.v}})
	}
	// target paths that do not fit the item: DynamoDB refuses them ("The document path provided in the update
	// expression is invalid for update"); reporting success for an action that was applied to nothing is not
	// "applying exactly the actions"
	for _, ill := range []struct {
		shape string
		p     refmodel.Path
	}{{"index-on-map", pth("m", 0)}, {"index-on-nested-map", pth("m", "k", 0)}, {"key-on-list", pth("l", "k")}, {"key-on-nested-list", pth("l", 2, "q")},
		{"index-on-string", pth("s", 0)}, {"key-on-number", pth("n", "x")}, {"index-on-set", pth("ss", 0)}, {"step-through-index-on-map", pth("m", 0, "x")},
		// a path that STARTS at an attribute the item does not have (or at a NULL): there is nothing to step into
		{"key-on-missing-attribute", pth("nope", "x")}, {"index-on-missing-attribute", pth("nope", 0)}, {"deep-on-missing-attribute", pth("nope", "x", "y")}, {"key-on-null", pth("znull", "x")}} {
		v := val.Item{":v": val.Str("new")}
		out = append(out, c07Case{IllPath: ill.shape, U: &refmodel.Update{Actions: []refmodel.Action{{Kind: "SET", Path: ill.p, RHS: uv(":v")}}}, Item: c07BaseItem(r, 3), Values: v})
		out = append(out, c07Case{IllPath: ill.shape, U: &refmodel.Update{Actions: []refmodel.Action{{Kind: "REMOVE", Path: ill.p}}}, Item: c07BaseItem(r, 3), Values: val.Item{}})
		// next to an action that is fine: nothing of the request is applied
		v2 := val.Item{":v": val.Str("new"), ":w": val.Num("1")}
		out = append(out, c07Case{IllPath: ill.shape, U: &refmodel.Update{Actions: []refmodel.Action{{Kind: "SET", Path: pth("fine"), RHS: uv(":w")}, {Kind: "SET", Path: ill.p, RHS: uv(":v")}}}, Item: c07BaseItem(r, 3), Values: v2})
	}
	// the same on an absent item (upsert): only top-level targets make sense
	for _, g := range c07RHS[:8] {
		v := val.Item{}
		out = append(out, c07Case{U: &refmodel.Update{Actions: []refmodel.Action{{Kind: "SET", Path: pth("nu"), RHS: g.mk(v)}}}, Item: nil, Values: v})
	}
	for _, g := range c07AddDelete {
		out = append(out, c07Case{U: &refmodel.Update{Actions: []refmodel.Action{{Kind: g.kind, Path: g.path, RHS: uv(":v")}}}, Item: nil, Values: val.Item{":v": g.v}})
	}
	out = append(out, c07Case{U: &refmodel.Update{Actions: []refmodel.Action{{Kind: "REMOVE", Path: pth("s")}}}, Item: nil, Values: val.Item{}})
	// #name placeholders for attribute names that are no identifiers: the action addresses the attribute with
	// exactly that name (top level and as a member of map m), never a path reading of it
	for _, hn := range c06HostileNames {
		if strings.HasPrefix(hn, ":") {
			continue // attribute names that look like value placeholders: listed finding of C06 (one namespace)
		}
		top := refmodel.Path{{Name: hn, Alias: "#h"}}
		nested := refmodel.Path{{Name: "m"}, {Name: hn, Alias: "#h"}}
		for mode := 0; mode < 3; mode++ {
			withLiteral := mode == 0
			halfDecoy := mode == 2 // the containers of the path reading exist, its last member does not
			mk := func() val.Item {
				it := c07BaseItem(r, 2)
				dec := c06Decoy(hn, val.Num("1"))
				if halfDecoy {
					dec = c06HalfDecoy(hn, val.Num("1"))
				}
				for k, v := range dec {
					if _, clash := it[k]; !clash {
						it[k] = v
					}
					if halfDecoy && v.K == val.KM {
						mm := it["m"].Clone()
						if _, clash := mm.M[k]; !clash {
							mm.M[k] = v
							it["m"] = mm
						}
					}
				}
				if withLiteral {
					it[hn] = val.Num("10")
					mm := it["m"].Clone()
					mm.M[hn] = val.Num("10")
					it["m"] = mm
				}
				return it
			}
			for _, pt := range []refmodel.Path{top, nested} {
				out = append(out, c07Case{U: &refmodel.Update{Actions: []refmodel.Action{{Kind: "SET", Path: pt, RHS: uv(":v")}}}, Item: mk(), Values: val.Item{":v": val.Str("new")}})
				out = append(out, c07Case{U: &refmodel.Update{Actions: []refmodel.Action{{Kind: "REMOVE", Path: pt}}}, Item: mk(), Values: val.Item{}})
				out = append(out, c07Case{U: &refmodel.Update{Actions: []refmodel.Action{{Kind: "SET", Path: pth("cpy"), RHS: up(pt)}}}, Item: mk(), Values: val.Item{}})
				out = append(out, c07Case{U: &refmodel.Update{Actions: []refmodel.Action{{Kind: "SET", Path: pt, RHS: &refmodel.UExpr{Kind: "plus", Kids: []*refmodel.UExpr{{Kind: "ifne", Path: pt, Kids: []*refmodel.UExpr{uv(":d")}}, uv(":i")}}}}}, Item: mk(), Values: val.Item{":d": val.Num("0"), ":i": val.Num("1")}})
			}
			out = append(out, c07Case{U: &refmodel.Update{Actions: []refmodel.Action{{Kind: "ADD", Path: top, RHS: uv(":v")}}}, Item: mk(), Values: val.Item{":v": val.Num("5")}})
		}
	}
	// SIBLINGS: several actions of one expression on different members of the SAME container (two list indexes,
	// two map members, a member set and another removed, a swap of two elements) in both clause / action orders.
	// Every right-hand side and every list index refers to the item as it was before the update.
	sib := func(acts ...refmodel.Action) {
		vals := val.Item{":a": val.Str("A"), ":b": val.Num("2"), ":c": val.List(val.Str("c"))}
		used := val.Item{}
		for _, a := range acts {
			var walk func(e *refmodel.UExpr)
			walk = func(e *refmodel.UExpr) {
				if e == nil {
					return
				}
				if e.Kind == "val" {
					used[e.Val] = vals[e.Val]
				}
				for _, k := range e.Kids {
					walk(k)
				}
			}
			walk(a.RHS)
		}
		for _, ord := range [][]string{{"SET", "REMOVE", "ADD", "DELETE"}, {"REMOVE", "SET", "DELETE", "ADD"}} {
			out = append(out, c07Case{U: &refmodel.Update{Actions: acts, ClauseOrder: ord}, Item: c07BaseItem(r, 2), Values: used.Clone()})
		}
		if len(acts) > 1 {
			rev := []refmodel.Action{}
			for i := len(acts) - 1; i >= 0; i-- {
				rev = append(rev, acts[i])
			}
			out = append(out, c07Case{U: &refmodel.Update{Actions: rev}, Item: c07BaseItem(r, 2), Values: used.Clone()})
		}
	}
	set := func(p refmodel.Path, e *refmodel.UExpr) refmodel.Action {
		return refmodel.Action{Kind: "SET", Path: p, RHS: e}
	}
	rem := func(p refmodel.Path) refmodel.Action { return refmodel.Action{Kind: "REMOVE", Path: p} }
	// an attribute whose NAME contains a dot (reached through a #placeholder) next to the document path that is
	// spelled the same: two different attributes, the paths do not overlap, both actions are applied
	dotted := func(name, alias string) refmodel.Path { return refmodel.Path{{Name: name, Alias: alias}} }
	member := func(parent, name, alias string) refmodel.Path { return refmodel.Path{{Name: parent}, {Name: name, Alias: alias}} }
	sib(set(dotted("m.x", "#flat"), uv(":a")), set(pth("m", "x"), uv(":b")))
	sib(set(pth("m", "x"), uv(":b")), set(dotted("m.x", "#flat"), uv(":a")))
	sib(set(dotted("m.x", "#flat"), uv(":a")), rem(pth("m", "x")))
	sib(set(pth("m"), uv(":c")), set(dotted("m.x", "#flat"), uv(":a")))
	sib(set(pth("m", "k", "y"), uv(":a")), rem(member("m", "k.y", "#ky")))
	sib(set(member("m", "k.y", "#ky"), uv(":a")), set(pth("m", "k", "z"), uv(":b")), rem(pth("m", "k", "y")))
	sib(set(dotted("l[0]", "#elem"), uv(":a")), set(pth("l", 0), uv(":b")))
	sib(rem(dotted("zn.cnt", "#flat")), set(pth("zn", "cnt"), uv(":b")), set(dotted("zn.tags", "#flat2"), uv(":a")))
	sib(rem(pth("l", 0)), rem(pth("l", 2)))
	sib(rem(pth("l", 1)), rem(pth("l", 3)), rem(pth("l", 0)))
	sib(rem(pth("l", 3)), rem(pth("l", 7)))
	sib(rem(pth("lnul", 0)), rem(pth("lnul", 2)), rem(pth("lnul", 6)))
	sib(set(pth("l", 0), uv(":a")), set(pth("l", 1), uv(":b")))
	sib(set(pth("l", 0), uv(":a")), rem(pth("l", 1)))
	// positions past the end of the list: appended in the order of their element numbers, and not what a REMOVE of
	// the same request (whose index refers to the list as it was) takes away
	sib(set(pth("l", 9), uv(":a")), set(pth("l", 7), uv(":b")))
	sib(set(pth("l", 7), uv(":a")), set(pth("l", 9), uv(":b")), set(pth("l", 8), uv(":c")))
	sib(set(pth("l2", 2), uv(":a")), set(pth("l2", 1), uv(":b")))
	sib(set(pth("l", 6), uv(":a")), rem(pth("l", 4)))
	sib(set(pth("l", 6), uv(":a")), rem(pth("l", 4)), rem(pth("l", 5)), rem(pth("l", 0)))
	sib(set(pth("l2", 1), uv(":a")), rem(pth("l2", 1)), rem(pth("l2", 0)))
	sib(set(pth("l", 2, 5), uv(":a")), set(pth("l", 2, 3), uv(":b")), rem(pth("l", 2, 2)), rem(pth("l", 2, 0)))
	sib(set(pth("l", 3), uv(":a")), rem(pth("l", 0)))
	sib(set(pth("l", 0), up(pth("l", 1))), set(pth("l", 1), up(pth("l", 0))))
	sib(set(pth("l", 2, 0), uv(":a")), rem(pth("l", 2, 1)))
	sib(set(pth("l", 3, "q"), uv(":a")), set(pth("l", 3, "nw"), uv(":b")), rem(pth("l", 0)))
	sib(set(pth("m", "x"), uv(":a")), set(pth("m", "nw"), uv(":b")))
	sib(set(pth("m", "k", "y"), uv(":a")), set(pth("m", "k", "z"), uv(":b")), set(pth("m", "x"), up(pth("m", "k", "y"))))
	sib(set(pth("m", "x"), uv(":a")), rem(pth("m", "li")))
	sib(rem(pth("m", "x")), set(pth("m", "k", "nw"), uv(":c")))
	sib(rem(pth("m", "k", "y")), rem(pth("m", "k", "z")))
	sib(set(pth("m", "li", 0), uv(":a")), rem(pth("m", "li", 1)), set(pth("m", "x"), up(pth("m", "li", 1))))
	sib(set(pth("m", "x"), up(pth("m", "k", "z"))), set(pth("m", "k", "z"), up(pth("m", "x"))))
	sib(set(pth("zm", "nul"), uv(":a")), rem(pth("zm", "f")), set(pth("zm", "added"), up(pth("zm", "nul"))))
	// a SET that copies an attribute together with an action that modifies the source in place,
	// in every clause order: the copy must hold the pre-update value
	type mut struct {
		src  refmodel.Path
		act  refmodel.Action
		vals val.Item
	}
	muts := []mut{
		{pth("n"), refmodel.Action{Kind: "ADD", Path: pth("n"), RHS: uv(":m")}, val.Item{":m": val.Num("5")}},
		{pth("n"), refmodel.Action{Kind: "SET", Path: pth("n"), RHS: &refmodel.UExpr{Kind: "plus", Kids: []*refmodel.UExpr{up(pth("n")), uv(":m")}}}, val.Item{":m": val.Num("5")}},
		{pth("ss"), refmodel.Action{Kind: "ADD", Path: pth("ss"), RHS: uv(":m")}, val.Item{":m": val.SS("zz")}},
		{pth("ss"), refmodel.Action{Kind: "DELETE", Path: pth("ss"), RHS: uv(":m")}, val.Item{":m": val.SS("a")}},
		{pth("ns"), refmodel.Action{Kind: "ADD", Path: pth("ns"), RHS: uv(":m")}, val.Item{":m": val.NS("9")}},
		{pth("bs"), refmodel.Action{Kind: "DELETE", Path: pth("bs"), RHS: uv(":m")}, val.Item{":m": val.BS("a")}},
		{pth("l2"), refmodel.Action{Kind: "REMOVE", Path: pth("l2", 0)}, val.Item{}},
		{pth("l"), refmodel.Action{Kind: "SET", Path: pth("l", 0), RHS: uv(":m")}, val.Item{":m": val.Str("changed")}},
		{pth("l"), refmodel.Action{Kind: "REMOVE", Path: pth("l", 1)}, val.Item{}},
		{pth("m"), refmodel.Action{Kind: "SET", Path: pth("m", "x"), RHS: uv(":m")}, val.Item{":m": val.Str("changed")}},
		{pth("m"), refmodel.Action{Kind: "REMOVE", Path: pth("m", "k", "y")}, val.Item{}},
		{pth("m", "k"), refmodel.Action{Kind: "SET", Path: pth("m", "k", "y"), RHS: uv(":m")}, val.Item{":m": val.Num("77")}},
		{pth("l", 2), refmodel.Action{Kind: "SET", Path: pth("l", 2, 0), RHS: uv(":m")}, val.Item{":m": val.Num("77")}},
		// in-place changes INSIDE an element of the copied list (the element is a document, not a scalar)
		{pth("l"), refmodel.Action{Kind: "SET", Path: pth("l", 3, "q"), RHS: uv(":m")}, val.Item{":m": val.Str("changed")}},
		{pth("l"), refmodel.Action{Kind: "REMOVE", Path: pth("l", 3, "q")}, val.Item{}},
		{pth("l"), refmodel.Action{Kind: "SET", Path: pth("l", 2, 1), RHS: uv(":m")}, val.Item{":m": val.Num("77")}},
		{pth("l"), refmodel.Action{Kind: "REMOVE", Path: pth("l", 2, 0)}, val.Item{}},
		{pth("l"), refmodel.Action{Kind: "REMOVE", Path: pth("l", 0)}, val.Item{}},
		{pth("m", "li"), refmodel.Action{Kind: "SET", Path: pth("m", "li", 0), RHS: uv(":m")}, val.Item{":m": val.Str("changed")}},
	}
	// the copy is made by a plain path, or by a function that returns (parts of) the source:
	// list_append(src, :e) / list_append(:e, src) with an empty and a non-empty :e, if_not_exists(src, :d)
	type cpForm struct {
		name     string
		listOnly bool
		mk       func(src refmodel.Path) (*refmodel.UExpr, val.Item)
	}
	forms := []cpForm{
		{"path", false, func(src refmodel.Path) (*refmodel.UExpr, val.Item) { return up(src), val.Item{} }},
		{"append-src-empty", true, func(src refmodel.Path) (*refmodel.UExpr, val.Item) {
			return &refmodel.UExpr{Kind: "append", Kids: []*refmodel.UExpr{up(src), uv(":e")}}, val.Item{":e": val.List()}
		}},
		{"append-src-more", true, func(src refmodel.Path) (*refmodel.UExpr, val.Item) {
			return &refmodel.UExpr{Kind: "append", Kids: []*refmodel.UExpr{up(src), uv(":e")}}, val.Item{":e": val.List(val.Str("more"))}
		}},
		{"append-more-src", true, func(src refmodel.Path) (*refmodel.UExpr, val.Item) {
			return &refmodel.UExpr{Kind: "append", Kids: []*refmodel.UExpr{uv(":e"), up(src)}}, val.Item{":e": val.List(val.Map(map[string]val.V{"q": val.Str("first")}))}
		}},
		{"ifne-src", false, func(src refmodel.Path) (*refmodel.UExpr, val.Item) {
			return &refmodel.UExpr{Kind: "ifne", Path: src, Kids: []*refmodel.UExpr{uv(":e")}}, val.Item{":e": val.Str("default")}
		}},
	}
	orders := [][]string{{"SET", "REMOVE", "ADD", "DELETE"}, {"DELETE", "ADD", "REMOVE", "SET"}, {"ADD", "SET", "DELETE", "REMOVE"}}
	for _, mu := range muts {
		base := c07BaseItem(r, 0)
		sv, _ := mu.src.Resolve(base)
		for _, f := range forms {
			if f.listOnly && sv.K != val.KL {
				continue
			}
			for _, ord := range orders {
				for _, copyFirst := range []bool{true, false} {
					rhs, fv := f.mk(mu.src)
					vals := mu.vals.Clone()
					for k, v := range fv {
						vals[k] = v
					}
					cp := refmodel.Action{Kind: "SET", Path: pth("cpy"), RHS: rhs}
					acts := []refmodel.Action{cp, mu.act}
					if !copyFirst {
						acts = []refmodel.Action{mu.act, cp}
					}
					out = append(out, c07Case{U: &refmodel.Update{Actions: acts, ClauseOrder: ord}, Item: c07BaseItem(r, 3), Values: vals})
				}
			}
		}
	}
	return out
}

var c07Cache []c07Case

const c07Block = 50

func c07Seeded(tier string) int {
	if tier == "thorough" {
		return 40000
	}
	return 4000
}

func (p *c07) NumCases(tier string) int {
	if c07Cache == nil {
		c07Cache = c07Exhaustive()
	}
	return (len(c07Cache)+c07Block-1)/c07Block + c07Seeded(tier)
}

// c07Random builds a multi-clause update whose actions target distinct top-level attributes.
func c07Random(r *rand.Rand) c07Case {
	v := val.Item{}
	nv := 0
	rename := func(e *refmodel.UExpr, m map[string]string) {
		var walk func(e *refmodel.UExpr)
		walk = func(e *refmodel.UExpr) {
			if e == nil {
				return
			}
			if e.Kind == "val" {
				e.Val = m[e.Val]
			}
			for _, k := range e.Kids {
				walk(k)
			}
		}
		walk(e)
	}
	fresh := func(tmp val.Item) map[string]string {
		m := map[string]string{}
		tk := []string{}
		for k := range tmp {
			tk = append(tk, k)
		}
		sort.Strings(tk)
		for _, k := range tk {
			x := tmp[k]
			if r.Intn(3) == 0 {
				// a request may use one placeholder in several places: reuse one that already stands for a value of
				// the same type (every use reads the value of the REQUEST, whatever another action computes from it)
				have := []string{}
				for n2, x2 := range v {
					if x2.K == x.K {
						have = append(have, n2)
					}
				}
				if len(have) > 0 {
					sort.Strings(have)
					m[k] = have[r.Intn(len(have))]
					continue
				}
			}
			nv++
			n := fmt.Sprintf(":u%d", nv)
			m[k] = n
			v[n] = x
		}
		return m
	}
	// paths of one expression must not overlap (DynamoDB refuses that), but they may be SIBLINGS inside one
	// container; a list that takes a SET beyond its end is not touched by any other action (the resulting
	// positions are not documented precisely enough)
	usedPaths := []refmodel.Path{}
	conflict := func(p refmodel.Path) bool {
		for _, q := range usedPaths {
			n := len(p)
			if len(q) < n {
				n = len(q)
			}
			same := true
			for i := 0; i < n; i++ {
				if p[i].IsIdx != q[i].IsIdx || p[i].Name != q[i].Name || p[i].Idx != q[i].Idx {
					same = false
					break
				}
			}
			if same {
				return true // equal, or one is a prefix of the other
			}
			if p[0].Name == q[0].Name && (len(p) == 1 || len(q) == 1) {
				return true
			}
			if p[0].Name == q[0].Name && p[0].Name == "l" {
				for _, pp := range []refmodel.Path{p, q} {
					if len(pp) == 2 && pp[1].IsIdx && pp[1].Idx >= 4 {
						return true
					}
				}
			}
		}
		return false
	}
	usedTop := map[string]bool{}
	_ = usedTop
	actions := []refmodel.Action{}
	n := 1 + r.Intn(4)
	for tries := 0; len(actions) < n && tries < 30; tries++ {
		switch r.Intn(4) {
		case 0, 1:
			t := mon.Pick(r, c07SetTargets[:19])
			if conflict(t) {
				continue
			}
			g := mon.Pick(r, c07RHS)
			tmp := val.Item{}
			rhs := g.mk(tmp)
			rename(rhs, fresh(tmp))
			usedPaths = append(usedPaths, t)
			actions = append(actions, refmodel.Action{Kind: "SET", Path: t, RHS: rhs})
		case 2:
			t := mon.Pick(r, c07RemoveTargets)
			if conflict(t) {
				continue
			}
			usedPaths = append(usedPaths, t)
			actions = append(actions, refmodel.Action{Kind: "REMOVE", Path: t})
		default:
			g := mon.Pick(r, c07AddDelete)
			if conflict(g.path) {
				continue
			}
			usedPaths = append(usedPaths, g.path)
			m := fresh(val.Item{":v": g.v})
			actions = append(actions, refmodel.Action{Kind: g.kind, Path: g.path, RHS: uv(m[":v"])})
		}
	}
	// right-hand sides read attributes that other actions may change: that is the point
	order := []string{"SET", "REMOVE", "ADD", "DELETE"}
	r.Shuffle(len(order), func(i, j int) { order[i], order[j] = order[j], order[i] })
	var item val.Item
	if r.Intn(6) != 0 {
		item = c07BaseItem(r, 3+r.Intn(6))
	}
	return c07Case{U: &refmodel.Update{Actions: actions, ClauseOrder: order}, Item: item, Values: v}
}

func updateDirect(expr string, names map[string]string, item, values val.Item) (string, string, string, val.Item) {
	li := &interpreter.Language{Debug: directDebug}
	ti := adapt.ItemToTypes(item)
	if ti == nil {
		ti = adapt.ItemToTypes(val.Item{})
	}
	outcome, msg, site := "ok", "", ""
	func() {
		defer func() {
			if r := recover(); r != nil {
				outcome = "panic"
				_, msg = adapt.ClassifyPanic(r)
				site = adapt.PanicSite()
			}
		}()
		err := li.Update(interpreter.UpdateInput{TableName: "t", Expression: expr, Item: ti, Attributes: adapt.ItemToTypes(values), Aliases: names})
		if err != nil {
			outcome, msg = "reject", err.Error()
		}
	}()
	return outcome, msg, site, adapt.ItemFromTypes(ti)
}

// diffAttrs names the attributes that differ.
func diffAttrs(got, want val.Item) string {
	parts := []string{}
	for k, w := range want {
		g, ok := got[k]
		if !ok {
			parts = append(parts, fmt.Sprintf("%s: missing, want %s", k, w.Canon()))
		} else if !val.Equal(g, w) {
			parts = append(parts, fmt.Sprintf("%s: got %s want %s", k, g.Canon(), w.Canon()))
		}
	}
	for k, g := range got {
		if _, ok := want[k]; !ok {
			parts = append(parts, fmt.Sprintf("%s: unexpected %s", k, g.Canon()))
		}
	}
	return strings.Join(parts, "; ")
}

func (p *c07) evalCase(x *res, cs c07Case, rr refmodel.RenderOpts, viaClient bool, ctx *runner.Ctx) {
	names := map[string]string{}
	expr := cs.U.Render(names, rr)
	base := cs.Item
	if base == nil {
		base = val.Item{}
	}
	if len(names) > 0 && cs.Item != nil && len(expr)%2 == 0 {
		// "#name" is a legal attribute name: bystanders spelled exactly like the placeholders the expression uses
		// (the placeholder stands for ANOTHER attribute) keep their values like every attribute that is not targeted
		base = base.Clone()
		for k := range names {
			if _, clash := base[k]; !clash {
				base[k] = val.Str("attribute literally named " + k)
			}
		}
		x.r.Counters["items_with_placeholder_named_bystanders"]++
		cs.Item = base // cs is a copy: the client replay below stores the same item
	}
	want := cs.U.Apply(base, cs.Values)
	ctx.Trace("update %q item=%s values=%s", expr, base.Canon(), cs.Values.Canon())
	got, msg, site, after := updateDirect(expr, names, base, cs.Values)
	x.r.Evals++
	sk := cs.U.Skeleton()
	changes := !want.Reject && !want.Unsure && !val.ItemsEqual(want.Item, base)
	x.fp(len(base) >= 3 && changes, "%s|%d", sk, len(cs.U.Actions))
	x.set("outcomes", got)
	feature := sk
	if len(cs.U.Actions) > 1 {
		kinds := []string{}
		for _, a := range cs.U.Actions {
			kinds = append(kinds, a.Kind)
		}
		feature = "multi:" + strings.Join(kinds, "+")
	}
	wit := map[string]interface{}{"expression": expr, "names": names, "item": cs.Item, "values": cs.Values, "ast": cs.U, "got": got, "msg": msg, "after": after}
	switch {
	case got == "panic":
		x.viol("runtime-panic", site, fmt.Sprintf("Update(%q) on %s: runtime panic at %s: %s", expr, base.Canon(), site, msg), wit)
		return
	case want.Unsure && cs.IllPath == "":
		x.r.Counters["oracle_unsure"]++
		return
	case want.OrReject && got == "reject":
		x.r.Counters["nested_add_delete_refused"]++
		if !val.ItemsEqual(after, base) {
			x.viol("rejected-update-changed-item", feature, fmt.Sprintf("Update(%q) was rejected (%s) but changed the item: %s", expr, msg, diffAttrs(after, base)), wit)
		}
		return
	case want.Reject || (want.Unsure && cs.IllPath != ""):
		// (the listed ill-fitting paths are refused by DynamoDB - "the document path provided in the update expression is
		// invalid for update" - for REMOVE as for SET, also where the model is not sure about other shapes)
		x.r.Counters["oracle_reject"]++
		if got == "ok" && cs.IllPath != "" {
			what := "and ignored"
			if !val.ItemsEqual(after, base) {
				what = "and changed the item: " + diffAttrs(after, base)
			}
			x.viol("ill-fitting-path-accepted", cs.U.Actions[len(cs.U.Actions)-1].Kind+"/"+cs.IllPath, fmt.Sprintf("Update(%q): the target path does not fit the item (%s) yet the update reports success %s", expr, cs.IllPath, what), wit)
			return
		}
		if got == "ok" {
			x.r.Counters["ill_typed_update_accepted"]++ // not a C07 verdict: C07 quantifies over well-formed updates
			// ... with one exception that is a defect in its own right (listed finding): SET a = b where b does not
			// exist does not fail like in DynamoDB - it STORES a NULL under a
			if len(cs.U.Actions) == 1 && cs.U.Actions[0].Kind == "SET" && cs.U.Actions[0].RHS.Kind == "path" && len(cs.U.Actions[0].Path) == 1 {
				if _, ok := cs.U.Actions[0].RHS.Path.Resolve(base); !ok {
					exp := base.Clone()
					exp[cs.U.Actions[0].Path[0].Name] = val.Null()
					if val.ItemsEqual(after, exp) {
						x.viol("set-from-missing-attribute-stores-NULL", "SET:path-missing", fmt.Sprintf("Update(%q) on an item without the source attribute succeeds and stores NULL under the target (DynamoDB refuses the update): %s", expr, diffAttrs(after, base)), wit)
					}
				}
			}
		} else if !val.ItemsEqual(after, base) {
			x.viol("rejected-update-changed-item", feature, fmt.Sprintf("Update(%q) was rejected (%s) but changed the item: %s", expr, msg, diffAttrs(after, base)), wit)
		}
		return
	case (got == "reject" || !val.ItemsEqual(after, want.Item)) && c07AliasQuirk(cs, base, got, after):
		// listed finding of C06 (dotted #name target re-read as a path when the literal attribute is absent)
		x.viol("wrong-result~dotted-alias-as-path", "alias", fmt.Sprintf("Update(%q) with names %v on %s: got %s %s; oracle result %s", expr, names, base.Canon(), got, msg, want.Item.Canon()), wit)
		return
	case got == "reject":
		x.viol("reject-valid", feature, fmt.Sprintf("Update(%q) on %s rejected: %s; oracle result %s", expr, base.Canon(), msg, want.Item.Canon()), wit)
		return
	}
	if !val.ItemsEqual(after, want.Item) {
		x.viol("wrong-result", feature, fmt.Sprintf("Update(%q) on %s with %s: %s", expr, base.Canon(), cs.Values.Canon(), diffAttrs(after, want.Item)), wit)
		return
	}
	if viaClient {
		p.viaClient(x, cs, expr, names, want, feature, ctx)
	}
}

// c07AliasQuirk reports whether the library's result is what the oracle computes under the library's reading
// of dotted #name targets (see c06AliasQuirk): the literal attribute is absent and the path reading resolves.
func c07AliasQuirk(cs c07Case, base val.Item, got string, after val.Item) bool {
	alt := base.Clone()
	type inj struct{ parent, name string }
	injected := []inj{}
	for _, pt := range cs.U.Paths() {
		if pt[0].Alias != "" && strings.Contains(pt[0].Name, ".") {
			n := pt[0].Name
			if _, have := base[n]; !have {
				if v, ok := refmodel.P(strings.Split(n, ".")...).Resolve(base); ok {
					alt[n] = v
					injected = append(injected, inj{"", n})
				} else if first, ok := base[strings.Split(n, ".")[0]]; ok && first.K != val.KM && first.K != val.KL && got == "reject" && val.ItemsEqual(after, base) {
					// the path reading steps into a scalar and the library fails the request: the same listed
					// reading of the dotted name, with another symptom
					return true
				}
			}
		}
		if len(pt) == 2 && pt[1].Alias != "" && strings.Contains(pt[1].Name, ".") {
			n := pt[1].Name
			if parent, ok := base[pt[0].Name]; ok && parent.K == val.KM {
				if _, have := parent.M[n]; !have {
					if v, ok := refmodel.P(append([]string{pt[0].Name}, strings.Split(n, ".")...)...).Resolve(base); ok {
						np := alt[pt[0].Name].Clone()
						np.M[n] = v
						alt[pt[0].Name] = np
						injected = append(injected, inj{pt[0].Name, n})
					}
				}
			}
		}
	}
	if len(injected) == 0 {
		return false
	}
	// second form of the same reading: the action itself goes through the path (ADD on #h -> "a.b" changes a.b)
	var u2 refmodel.Update
	if b, err := json.Marshal(cs.U); err == nil && json.Unmarshal(b, &u2) == nil {
		split := func(pt refmodel.Path) refmodel.Path {
			out := refmodel.Path{}
			for i, el := range pt {
				isInjected := false
				for _, in := range injected {
					if el.Alias != "" && el.Name == in.name && ((in.parent == "" && i == 0) || (in.parent != "" && i == 1)) {
						isInjected = true
					}
				}
				if isInjected {
					out = append(out, refmodel.P(strings.Split(el.Name, ".")...)...)
				} else {
					out = append(out, el)
				}
			}
			return out
		}
		var walk func(e *refmodel.UExpr)
		walk = func(e *refmodel.UExpr) {
			if e == nil {
				return
			}
			if len(e.Path) > 0 {
				e.Path = split(e.Path)
			}
			for _, k := range e.Kids {
				walk(k)
			}
		}
		for i := range u2.Actions {
			u2.Actions[i].Path = split(u2.Actions[i].Path)
			walk(u2.Actions[i].RHS)
		}
		w2 := u2.Apply(base, cs.Values)
		if w2.Unsure || (got == "reject" && w2.Reject) || (got != "reject" && !w2.Reject && val.ItemsEqual(after, w2.Item)) {
			return true
		}
	}
	w := cs.U.Apply(alt, cs.Values)
	if w.Unsure {
		return true
	}
	if got == "reject" {
		return w.Reject
	}
	if w.Reject {
		return false
	}
	if val.ItemsEqual(after, w.Item) {
		return true
	}
	// the literal attribute exists in the library only if an action wrote it
	stripped := w.Item.Clone()
	for _, in := range injected {
		if in.parent == "" {
			delete(stripped, in.name)
		} else if pm, ok := stripped[in.parent]; ok && pm.K == val.KM {
			np := pm.Clone()
			delete(np.M, in.name)
			stripped[in.parent] = np
		}
	}
	return val.ItemsEqual(after, stripped)
}

func (p *c07) viaClient(x *res, cs c07Case, expr string, names map[string]string, want refmodel.UResult, feature string, ctx *runner.Ctx) {
	for _, adapter := range adapt.Adapters {
		spec := mon.SpecHashOnly("tbl07")
		// half of the replays run on a table with global indexes over attributes of the item that are (non-empty)
		// strings before and after the update, or that the update removes or creates: an update that gives an item an
		// index key, changes it or REMOVES it is an update like any other
		if len(expr)%2 == 0 {
			cand := []string{}
			for _, src := range []val.Item{cs.Item, want.Item} {
				for a := range src {
					cand = append(cand, a)
				}
			}
			sort.Strings(cand)
			for _, a := range uniq(cand) {
				okS := func(it val.Item) bool { v, has := it[a]; return !has || (v.K == val.KS && v.Str != "") }
				if a != "h" && okS(cs.Item) && okS(want.Item) && len(spec.Indexes) < 2 {
					spec.Indexes = append(spec.Indexes, adapt.IndexSpec{Name: fmt.Sprintf("ix%d", len(spec.Indexes)), Hash: a})
				}
			}
			if len(spec.Indexes) > 0 {
				x.r.Counters["client_replays_on_indexed_tables"]++
			}
		}
		cl, _, ds := freshClient(adapter, spec)
		if ds != nil {
			return
		}
		key := val.Item{"h": val.Str("k")}
		if cs.Item != nil {
			it := cs.Item.Clone()
			it["h"] = val.Str("k")
			if got := cl.Do(adapt.Op{Kind: adapt.OpPut, Table: spec.Name, Item: it}); got.Class != adapt.ClsOK {
				return
			}
		}
		var nm map[string]string
		if len(names) > 0 {
			nm = names
		}
		var vs val.Item
		if len(cs.Values) > 0 {
			vs = cs.Values
		}
		upd := cl.Do(adapt.Op{Kind: adapt.OpUpdate, Table: spec.Name, Key: key, Update: expr, Names: nm, Values: vs})
		get := cl.Do(adapt.Op{Kind: adapt.OpGet, Table: spec.Name, Key: key})
		x.r.Evals += 2
		x.r.Counters["client_replays"]++
		exp := want.Item.Clone()
		exp["h"] = val.Str("k")
		wit := map[string]interface{}{"adapter": adapter, "expression": expr, "names": names, "item": cs.Item, "values": cs.Values, "update": upd, "get": get}
		if upd.Class != adapt.ClsOK {
			x.viol("client-reject-valid", adapter+"/"+feature, fmt.Sprintf("[%s] UpdateItem(%q) failed with %s (%s)", adapter, expr, upd.Class, upd.Msg), wit)
			continue
		}
		if !val.ItemsEqual(get.Item, exp) {
			rule := "client-wrong-result"
			for _, q := range modelQuirkNames(get.Item, exp) {
				rule += "~" + q
				feature = adapter
			}
			x.viol(rule, feature, fmt.Sprintf("[%s] UpdateItem(%q) then GetItem: %s", adapter, expr, diffAttrs(get.Item, exp)), wit)
		}
	}
}

func (p *c07) RunCase(ctx *runner.Ctx) runner.CaseResult {
	x := newRes()
	if c07Cache == nil {
		c07Cache = c07Exhaustive()
	}
	blocks := (len(c07Cache) + c07Block - 1) / c07Block
	if ctx.Case < blocks {
		for i := ctx.Case * c07Block; i < (ctx.Case+1)*c07Block && i < len(c07Cache); i++ {
			p.evalCase(x, c07Cache[i], refmodel.RenderOpts{}, i%5 == 0, ctx)
		}
		cs := c07Cache[ctx.Case*c07Block]
		x.r.Sample = map[string]interface{}{"kind": "single-action", "expression": cs.U.Render(map[string]string{}, refmodel.RenderOpts{}), "values": cs.Values}
		return x.r
	}
	idx := ctx.Case - blocks
	r := mon.Rng(ctx.Seed, "C07", idx)
	for k := 0; k < 100; k++ {
		cs := c07Random(r)
		rr := refmodel.RenderOpts{}
		if r.Intn(2) == 0 {
			rr.Rng = r
		}
		p.evalCase(x, cs, rr, r.Intn(20) == 0, ctx)
		if k == 0 && idx < 3 {
			x.r.Sample = map[string]interface{}{"kind": "seeded", "expression": cs.U.Render(map[string]string{}, refmodel.RenderOpts{}), "values": cs.Values, "item_present": cs.Item != nil}
		}
	}
	return x.r
}
