//go:build verif

package props

import (
	"sort"

	v1client "github.com/truora/minidyn/aws-v1/client"
	v2client "github.com/truora/minidyn/aws-v2/client"
	"github.com/truora/minidyn/core"

	"verifharness/adapt"
)

func init() {
	indexDiag = func(cl adapt.Client, table string) interface{} {
		var tables map[string]*core.Table
		switch c := cl.Raw().(type) {
		case *v1client.Client:
			tables = v1client.VerifTables(c)
		case *v2client.Client:
			tables = v2client.VerifTables(c)
		}
		t, ok := tables[table]
		if !ok {
			return nil
		}
		out := map[string]interface{}{"SortedKeys": append([]string{}, t.SortedKeys...)}
		for name, ix := range t.VerifIndexes() {
			vals := []string{}
			for _, v := range ix.Refs {
				vals = append(vals, v)
			}
			sort.Strings(vals)
			sk := append([]string{}, ix.SortedKeys...)
			sort.Strings(sk)
			consistent := len(vals) == len(sk)
			for i := range vals {
				if consistent && vals[i] != sk[i] {
					consistent = false
				}
			}
			out["index:"+name] = map[string]interface{}{"refs": ix.Refs, "sortedKeys": ix.SortedKeys, "multiset(sortedKeys)==values(refs)": consistent}
		}
		return out
	}
}
