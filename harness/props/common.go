// Package props holds one monitor per property.
package props

import (
	"fmt"
	"strings"

	"verifharness/adapt"
	"verifharness/model"
	"verifharness/mon"
	"verifharness/runner"
	"verifharness/val"
)

type base struct {
	id, level, rule string
	assumptions     []string
}

func (b base) ID() string             { return b.id }
func (b base) Level() string          { return b.level }
func (b base) Rule() string           { return b.rule }
func (b base) Assumptions() []string  { return b.assumptions }
func (b base) Exhaustive(string) bool { return false }

var commonAssumptions = []string{
	"the harness's reference model (verifharness/refmodel, verifharness/model) states DynamoDB semantics correctly; where unsure it admits several outcomes",
	"verdicts are taken at the client API boundary; every universal quantifier is sampled or enumerated only up to the stated small scope",
}

// res is a small helper to accumulate a CaseResult.
type res struct {
	r runner.CaseResult
}

func newRes() *res {
	return &res{r: runner.CaseResult{Counters: map[string]int{}, Sets: map[string][]string{}}}
}

func (x *res) fp(nontrivial bool, format string, a ...interface{}) {
	if nontrivial {
		x.r.Fingerprints = append(x.r.Fingerprints, fmt.Sprintf(format, a...))
	}
}

func (x *res) set(name, v string) {
	for _, e := range x.r.Sets[name] {
		if e == v {
			return
		}
	}
	x.r.Sets[name] = append(x.r.Sets[name], v)
}

func (x *res) viol(rule, feature, detail string, witness interface{}) {
	// at most 3 witnesses per signature and case (the parent keeps the smallest), 300 in total
	n := 0
	for _, v := range x.r.Violations {
		if v.Rule == rule && v.Feature == feature {
			n++
		}
	}
	x.r.Counters["violations_observed"]++
	if n >= 3 || len(x.r.Violations) >= 300 {
		return
	}
	x.r.Violations = append(x.r.Violations, runner.Violation{Rule: rule, Feature: feature, Detail: detail, Witness: witness})
}

// merge folds the result of a sub-run (e.g. one goroutine's own res) into x.
func (x *res) merge(o *res) {
	x.r.Evals += o.r.Evals
	x.r.Inconclusive += o.r.Inconclusive
	x.r.Fingerprints = append(x.r.Fingerprints, o.r.Fingerprints...)
	for k, v := range o.r.Counters {
		if k != "violations_observed" {
			x.r.Counters[k] += v
		}
	}
	for k, vs := range o.r.Sets {
		for _, v := range vs {
			x.set(k, v)
		}
	}
	for _, v := range o.r.Violations {
		x.viol(v.Rule, v.Feature, v.Detail, v.Witness)
	}
}

// failureViolation converts a history failure into a violation; the feature tuple is the
// op kind of the failing step and the phase.
func (x *res) failureViolation(adapter string, f *mon.Failure, setup interface{}) {
	d := f.Diffs[0]
	details := []string{}
	for _, dd := range f.Diffs {
		details = append(details, dd.Rule+": "+dd.Detail)
	}
	feature := f.Phase + "/" + mon.OpFeature(f.Op)
	if strings.Contains(d.Rule, "~") {
		feature = adapter // a difference explained by a listed quirk: one signature per adapter
	}
	x.viol(d.Rule, feature, fmt.Sprintf("[%s] after step %d (%s): %s", adapter, f.Step, mon.OpFeature(f.Op), strings.Join(details, " || ")),
		map[string]interface{}{"adapter": adapter, "setup": setup, "failure": f})
}

func createOp(spec adapt.TableSpec) adapt.Op {
	s := spec
	return adapt.Op{Kind: adapt.OpCreateTable, Spec: &s}
}

// freshClient creates a client of the adapter with the given tables, and the matching model.
func freshClient(adapter string, specs ...adapt.TableSpec) (adapt.Client, *model.Client, []model.Diff) {
	cl := adapt.New(adapter)
	m := model.New()
	for _, s := range specs {
		op := createOp(s)
		if ds := m.Step(op, cl.Do(op)); len(ds) > 0 {
			return cl, m, ds
		}
	}
	return cl, m, nil
}

var rrCanon = refmodelRenderCanon()

func modelQuirkNames(got, want val.Item) []string { return model.QuirkNames(got, want) }
