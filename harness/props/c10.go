package props

import (
	"sort"
	"strings"
	"fmt"

	"verifharness/adapt"
	"verifharness/mon"
	"verifharness/runner"
	"verifharness/val"
)

// C10 – attribute values survive a write/read round trip unchanged.
type c10 struct{ base }

func init() {
	runner.Register(&c10{base{id: "C10", level: "exploration",
		rule: "exhaustive boundary set: each type's boundary members (empty string, empty binary, false, NULL, empty list, empty map, single-element sets, every numeral notation: 1, 1.0, 01, 1e0, -0, 9007199254740993, 38 digits, 1E-130, 9.9E125, 0.1 …) at top level, inside L, inside M, and inside L-in-M-in-L nests down to depth 5; seeded value trees (depth <=3, thorough <=5) with 1-6 attributes. Each item is written with PutItem and read back with GetItem, Query, Scan and (SDK v2) BatchGetItem through both adapters; additionally all items of a case (20-40) are written into two tables of one client and read back together (Query, Scan per table, one BatchGetItem naming both tables): every returned item must equal the one written under its key; oracle = identity on canonical value trees (sets as sets, numbers by exact decimal value). non-trivial = contains a boundary member or nesting depth >=2; distinct by (adapter, type skeleton). Every third item holds one value at three places (a second attribute, twice inside a list / map) and, through SDK v1, as ONE *AttributeValue object shared by all places. A third of the tables has a live index and was used and cleared (ClearTable) before: the item comes back whole through the index too.",
		assumptions: []string{"identity oracle: no model logic involved", commonAssumptions[1]}}})
}

func c10Boundary() []val.V {
	b := []val.V{
		val.Str(""), val.Str("a"), val.Str("é日本"), val.Str("z\x00z"), val.Str(" "),
		val.Bin(""), val.Bin("\x00"), val.Bin("\xff\x00"),
		val.Bool(false), val.Bool(true), val.Null(),
		val.List(), val.Map(map[string]val.V{}),
		val.SS("a"), val.SS(""), val.NS("1"), val.BS("\x00"), val.SS("a", "b", ""), val.NS("1", "2.5", "-3"), val.BS("a", ""),
		// string and binary sets whose members are different TEXTS that happen to be numerals of one value (zero-padded
		// codes, versions): different members
		val.SS("01234", "1234"), val.SS("1.0", "1", "1.00"), val.SS("1e3", "1000", "1E3"), val.SS("0", "-0", "0.0", "O"), val.BS("7", "007"), val.BS("1.0", "1"), val.SS(" 1", "1", "1 "),
	}
	for _, n := range mon.Numerals {
		b = append(b, val.Num(n))
	}
	return b
}

func nest(v val.V, shape string) val.V {
	for i := len(shape) - 1; i >= 0; i-- {
		if shape[i] == 'L' {
			v = val.List(val.Str("pad"), v)
		} else {
			v = val.Map(map[string]val.V{"k": v, "pad": val.Num("0")})
		}
	}
	return v
}

var c10Shapes = []string{"", "L", "M", "LL", "MM", "LML", "MLM", "LMLML", "MLMLM"}

func c10Exhaustive() []val.Item {
	out := []val.Item{}
	for _, b := range c10Boundary() {
		for _, sh := range c10Shapes {
			out = append(out, val.Item{"a": nest(b, sh), "other": val.Str("bystander")})
		}
	}
	out = append(out, c10Scaled()...)
	// several boundary members in one item
	out = append(out, val.Item{"e1": val.Str(""), "e2": val.List(), "e3": val.Map(map[string]val.V{}), "e4": val.Bin(""), "e5": val.Bool(false), "e6": val.Null(), "e7": val.List(val.List(), val.Map(map[string]val.V{}), val.Null())})
	return out
}

// c10Scaled: valid items on both sides of the sizes an implementation may special-case: strings and binaries of
// 15..65537 bytes (every byte value in the binaries, multi-byte characters at every UTF-8 width in the strings),
// lists of 17..1025 elements, sets of 17..257 members (sets of numbers that differ only beyond double precision),
// maps of 17..257 members, items of up to 300 attributes, attribute names of up to 255 bytes, nesting of 8..32
// levels (32 is DynamoDB's limit), a set of byte strings that are prefixes of one another.
func c10Scaled() []val.Item {
	out := []val.Item{}
	long := func(n int, alphabet string) string {
		rs := []rune(alphabet)
		var sb strings.Builder
		for i := 0; ; i++ {
			c := string(rs[(i*7+i/len(rs))%len(rs)])
			if sb.Len()+len(c) > n {
				break
			}
			sb.WriteString(c)
		}
		for sb.Len() < n {
			sb.WriteString("a") // fill up to exactly n bytes
		}
		return sb.String()
	}
	for _, n := range []int{15, 16, 17, 31, 32, 33, 63, 64, 65, 255, 256, 257, 1023, 1024, 1025, 4095, 4097, 65535, 65537} {
		bin := make([]byte, n)
		for i := range bin {
			bin[i] = byte(i * 37)
		}
		it := val.Item{"s": val.Str(long(n, "abcdefghijklmnopqrstuvwxyz")), "u": val.Str(long(n, "aé日\U0001F44D\uffffz")), "b": val.Bin(string(bin)),
			"ss": val.SS(long(n, "xy"), long(n, "xy")+"z", long(n-1, "xy")), "l": val.List(val.Str(long(n, "q")), val.Bin(string(bin))), "other": val.Str("bystander")}
		out = append(out, it)
	}
	for _, n := range []int{17, 33, 65, 101, 129, 257, 1025} {
		elems := []val.V{}
		mem := map[string]val.V{}
		strs, nums, bins := []string{}, []string{}, []string{}
		for i := 0; i < n; i++ {
			elems = append(elems, []val.V{val.Num(fmt.Sprint(i)), val.Str(fmt.Sprint("e", i)), val.Null(), val.Bool(i%2 == 0), val.List(val.Num(fmt.Sprint(i)))}[i%5])
			mem[fmt.Sprintf("k%04d", i)] = val.Num(fmt.Sprint(i * 3))
			if i < 257 {
				strs = append(strs, fmt.Sprintf("m%d", i))
				nums = append(nums, fmt.Sprintf("900719925474%d", 1000+i)) // 16-digit members: neighbours beyond 2^53
				bins = append(bins, string([]byte{byte(i), byte(i >> 8), 0}))
			}
		}
		out = append(out, val.Item{"l": val.V{K: val.KL, L: elems}, "m": val.V{K: val.KM, M: mem}, "ss": val.V{K: val.KSS, Set: strs}, "ns": val.V{K: val.KNS, Set: nums}, "bs": val.V{K: val.KBS, Set: bins}, "other": val.Str("bystander")})
		if n <= 300 {
			wide := val.Item{}
			for i := 0; i < n; i++ {
				wide[fmt.Sprintf("attr_%03d_%s", i, long(i%50, "name"))] = []val.V{val.Num(fmt.Sprint(i)), val.Str(""), val.List(), val.Bin("")}[i%4]
			}
			wide[long(255, "n")] = val.Str("255-byte attribute name")
			out = append(out, wide)
		}
	}
	for _, d := range []int{8, 16, 24, 31} {
		v := val.Num("12345678901234567890123456789012345678")
		for i := 0; i < d; i++ {
			if i%2 == 0 {
				v = val.List(val.List(), v, val.Str(""))
			} else {
				v = val.Map(map[string]val.V{"d": v, "e": val.Map(map[string]val.V{})})
			}
		}
		out = append(out, val.Item{"deep": v, "other": val.Str("bystander")})
	}
	out = append(out, val.Item{"bs": val.BS("\x00", "\x00\x00", "\x00\x00\x00", "\x00\x01", "\xff", "\xff\x00"), "ss": val.SS("a", "aa", "aaa", "a\x00", "A", "á"), "ns": val.NS("1", "1.5", "-1", "1E-130", "9.9E125", "0.000001", "1000000"), "other": val.Str("bystander")})
	return out
}

var c10Cache []val.Item

const c10Block = 40

func c10Seeded(tier string) int {
	if tier == "thorough" {
		return 20000
	}
	return 3000
}

func (p *c10) NumCases(tier string) int {
	if c10Cache == nil {
		c10Cache = c10Exhaustive()
	}
	return (len(c10Cache)+c10Block-1)/c10Block + c10Seeded(tier)
}

func hasBoundary(v val.V) bool {
	switch v.K {
	case val.KS, val.KB:
		return v.Str == ""
	case val.KBOOL:
		return !v.Bool
	case val.KNULL:
		return true
	case val.KL:
		if len(v.L) == 0 {
			return true
		}
		for _, e := range v.L {
			if hasBoundary(e) {
				return true
			}
		}
	case val.KM:
		if len(v.M) == 0 {
			return true
		}
		for _, e := range v.M {
			if hasBoundary(e) {
				return true
			}
		}
	case val.KSS, val.KNS, val.KBS:
		return len(v.Set) == 1
	case val.KN:
		return v.Str != "1" && v.Str != "2"
	}
	return false
}

func (p *c10) roundTrip(x *res, item val.Item, ctx *runner.Ctx) {
	for _, adapter := range adapt.Adapters {
		spec := mon.SpecHashRange("tbl10")
		// half of the tables have a PAST: a secondary index over one of the item's attribute names (declared with a
		// type the item's value does not have) was created with the table and has been deleted since; sometimes an
		// index of the same name exists again, over another attribute. What a deleted index declared binds nobody.
		past := ""
		attrs := []string{}
		for k := range item {
			attrs = append(attrs, k)
		}
		sort.Strings(attrs)
		if len(attrs) > 0 && len(item.Canon())%2 == 0 {
			past = attrs[len(item.Canon())/2%len(attrs)]
			decl := "S"
			if item[past].K == val.KS {
				decl = "N"
			}
			spec.Indexes = []adapt.IndexSpec{{Name: "gone", Hash: past, HashT: decl}}
		}
		// a third of the tables has a LIVE global index over one of the item's (non-empty) string attributes and has been
		// used before: it held an item under another key, with that attribute, until ClearTable emptied it. The item
		// comes back whole through the index too
		live := ""
		if len(item.Canon())%3 == 1 {
			for _, a := range attrs {
				if item[a].K == val.KS && item[a].Str != "" && a != past {
					live = a
					spec.Indexes = append(spec.Indexes, adapt.IndexSpec{Name: "live", Hash: a})
					break
				}
			}
		}
		cl, _, ds := freshClient(adapter, spec)
		if ds != nil {
			x.viol("setup", "create", ds[0].Detail, spec)
			return
		}
		if live != "" {
			x.r.Counters["tables_cleared_before_with_a_live_index"]++
			cl.Do(adapt.Op{Kind: adapt.OpPut, Table: spec.Name, Item: val.Item{"h": val.Str("gone"), "r": val.Str("s"), live: val.Str("an earlier value")}})
			cl.Do(adapt.Op{Kind: adapt.OpPut, Table: spec.Name, Item: val.Item{"h": val.Str("gone"), "r": val.Str("t"), live: item[live]}})
			cl.Do(adapt.Op{Kind: adapt.OpClearTable, Table: spec.Name})
		}
		if past != "" {
			x.r.Counters["tables_with_a_deleted_index"]++
			if o := cl.Do(adapt.Op{Kind: adapt.OpUpdateTable, Table: spec.Name, Chg: []adapt.IndexChange{{Delete: "gone"}}}); o.Class != adapt.ClsOK {
				x.viol("setup", "delete-index", o.Msg, spec)
				return
			}
			if len(item.Canon())%4 == 0 {
				cl.Do(adapt.Op{Kind: adapt.OpUpdateTable, Table: spec.Name, Chg: []adapt.IndexChange{{Create: &adapt.IndexSpec{Name: "gone", Hash: "zzother", HashT: "S"}}}})
			}
		}
		it := item.Clone()
		it["h"] = val.Str("k")
		it["r"] = val.Str("s")
		key := val.Item{"h": val.Str("k"), "r": val.Str("s")}
		// every third item holds one of its values at SEVERAL places - a second attribute and twice in a list - and, through
		// the SDK v1 client (whose values are pointers), the caller built that value once: one object, used three times
		shared := len(attrs) > 0 && len(item.Canon())%3 == 0
		if shared {
			v := item[attrs[0]]
			it["twin_of_"+attrs[0]] = v
			it["twins"] = val.List(v, val.Map(map[string]val.V{"again": v}), v)
			x.r.Counters["items_with_one_value_object_at_several_places"]++
		}
		ctx.Trace("%s put %s", adapter, it.Canon())
		put := cl.Do(adapt.Op{Kind: adapt.OpPut, Table: spec.Name, Item: it, SharePtrs: shared})
		sk := ""
		nt := false
		for k, v := range item {
			sk += k + ":" + v.Skeleton() + ";"
			if hasBoundary(v) || v.Depth() >= 2 {
				nt = true
			}
		}
		x.fp(nt, "%s|%s", adapter, sk)
		if put.Class != adapt.ClsOK {
			x.viol("put-rejected", adapter+"/"+put.Class, fmt.Sprintf("[%s] PutItem of a valid item failed with %s (%s): %s", adapter, put.Class, put.Msg, it.Canon()), map[string]interface{}{"adapter": adapter, "item": it, "outcome": put})
			continue
		}
		reads := []struct {
			name string
			op   adapt.Op
		}{
			{"get", adapt.Op{Kind: adapt.OpGet, Table: spec.Name, Key: key}},
			{"query", queryOp(spec.Name, "", keyCondEq("h", ":h"), nil, val.Item{":h": val.Str("k")}, false, rrCanon)},
			{"scan", adapt.Op{Kind: adapt.OpScan, Table: spec.Name}},
			{"batchget", adapt.Op{Kind: adapt.OpBatchGet, Gets: []adapt.BatchEntry{{Table: spec.Name, Del: key}}}},
		}
		if live != "" {
			reads = append(reads, struct {
				name string
				op   adapt.Op
			}{"scan", adapt.Op{Kind: adapt.OpScan, Table: spec.Name, Index: "live"}})
		}
		// the same four reads with a ProjectionExpression that names EVERY top-level attribute of the item, each through
		// a placeholder (#a, #aa, #aaa ...: every placeholder is a prefix of the next one, the attributes are unrelated):
		// whether or not a projection is applied, all of the item is asked for
		pnames := map[string]string{}
		plist := []string{}
		tops := []string{}
		for k := range it {
			tops = append(tops, k)
		}
		sort.Strings(tops)
		for i, k := range tops {
			ph := "#" + strings.Repeat("a", i+1)
			pnames[ph] = k
			plist = append(plist, ph)
		}
		proj := strings.Join(plist, ", ")
		qp := queryOp(spec.Name, "", keyCondEq("h", ":h"), nil, val.Item{":h": val.Str("k")}, false, rrCanon)
		qp.Proj = proj
		if qp.Names == nil {
			qp.Names = map[string]string{}
		}
		for k, v := range pnames {
			qp.Names[k] = v
		}
		reads = append(reads, []struct {
			name string
			op   adapt.Op
		}{
			{"get", adapt.Op{Kind: adapt.OpGet, Table: spec.Name, Key: key, Proj: proj, Names: pnames}},
			{"query", qp},
			{"scan", adapt.Op{Kind: adapt.OpScan, Table: spec.Name, Proj: proj, Names: pnames}},
			{"batchget", adapt.Op{Kind: adapt.OpBatchGet, Gets: []adapt.BatchEntry{{Table: spec.Name, Del: key}}, Proj: proj, Names: pnames}},
		}...)
		for _, rd := range reads {
			got := cl.Do(rd.op)
			x.r.Evals++
			if got.Class == adapt.ClsNotImpl {
				continue
			}
			var back val.Item
			switch rd.name {
			case "get":
				back = got.Item
			case "query", "scan":
				if len(got.Items) == 1 {
					back = got.Items[0]
				}
			case "batchget":
				if len(got.Resp[spec.Name]) == 1 {
					back = got.Resp[spec.Name][0]
				}
			}
			x.r.Counters["reads:"+rd.name]++
			if got.Class != adapt.ClsOK || !val.ItemsEqual(back, it) {
				rule := "roundtrip"
				feature := adapter + "/" + rd.name
				for _, q := range modelQuirkNames(back, it) {
					rule += "~" + q
					feature = adapter
				}
				x.viol(rule, feature, fmt.Sprintf("[%s] %s after PutItem returned (class %s) %s; written %s; differences: %s", adapter, rd.name, got.Class, back.Canon(), it.Canon(), diffAttrs(back, it)),
					map[string]interface{}{"adapter": adapter, "item": it, "read": rd.name, "returned": back})
			}
		}
		p.readPurity(x, adapter, cl, spec.Name, key, it, ctx)
		p.copiesAreCopies(x, adapter, cl, spec.Name, key, it, ctx)
		p.refusedWrites(x, adapter, cl, spec.Name, key, it, ctx)
		p.overwriteWithOtherEmpties(x, adapter, cl, spec.Name, key, it, ctx)
	}
}

// copiesAreCopies: an update derives a NEW attribute from a stored list, map or set (list_append, plain copy) and
// then changes that new attribute; the attribute it was derived from still reads back exactly as it was written.
func (p *c10) copiesAreCopies(x *res, adapter string, cl adapt.Client, table string, key, it val.Item, ctx *runner.Ctx) {
	names := []string{}
	for k := range it {
		names = append(names, k)
	}
	sort.Strings(names)
	done := 0
	for _, a := range names {
		v := it[a]
		if a == "h" || a == "r" || done >= 2 {
			continue
		}
		var steps []adapt.Op
		al := map[string]string{"#a": a}
		switch v.K {
		case val.KL:
			steps = []adapt.Op{
				{Kind: adapt.OpUpdate, Table: table, Key: key, Update: "SET zzcopy = list_append(#a, :one)", Names: al, Values: val.Item{":one": val.List(val.Str("appended"))}},
				{Kind: adapt.OpUpdate, Table: table, Key: key, Update: "SET zzcopy2 = list_append(:one, #a)", Names: al, Values: val.Item{":one": val.List(val.Str("prepended"))}},
				{Kind: adapt.OpUpdate, Table: table, Key: key, Update: "SET zzcopy[0] = :x", Values: val.Item{":x": val.Str("overwritten")}},
			}
		case val.KM:
			steps = []adapt.Op{
				{Kind: adapt.OpUpdate, Table: table, Key: key, Update: "SET zzcopy = #a", Names: al},
				{Kind: adapt.OpUpdate, Table: table, Key: key, Update: "SET zzcopy.zznew = :x", Values: val.Item{":x": val.Str("added")}},
			}
		case val.KSS:
			steps = []adapt.Op{
				{Kind: adapt.OpUpdate, Table: table, Key: key, Update: "SET zzcopy = #a", Names: al},
				{Kind: adapt.OpUpdate, Table: table, Key: key, Update: "ADD zzcopy :m", Values: val.Item{":m": val.SS("zz-added")}},
			}
		default:
			continue
		}
		done++
		steps = append(steps, adapt.Op{Kind: adapt.OpUpdate, Table: table, Key: key, Update: "REMOVE zzcopy, zzcopy2"})
		for _, st := range steps {
			ctx.Trace("%s derive %s", adapter, st.String())
			o := cl.Do(st)
			x.r.Evals++
			x.r.Counters["derived_attribute_updates"]++
			if o.Class == adapt.ClsRuntime {
				x.viol("runtime-panic", o.Site, fmt.Sprintf("[%s] %s: runtime panic at %s: %s", adapter, st.Update, o.Site, o.Msg), map[string]interface{}{"adapter": adapter, "item": it, "update": st})
				return
			}
			got := cl.Do(adapt.Op{Kind: adapt.OpGet, Table: table, Key: key})
			if got.Class != adapt.ClsOK || !val.Equal(got.Item[a], v) {
				if len(modelQuirkNames(got.Item, it)) > 0 {
					return // listed empty-list/map finding of the SDK v2 adapter
				}
				qa, qb := val.Item{"a": got.Item[a]}, val.Item{"a": v}
				if len(modelQuirkNames(qa, qb)) > 0 {
					return
				}
				x.viol("source-of-a-copy-changed", adapter+"/"+string(v.K), fmt.Sprintf("[%s] after UpdateItem %q (derives / changes another attribute) the attribute %s reads %s; it was written as %s", adapter, st.Update, a, got.Item[a].Canon(), v.Canon()),
					map[string]interface{}{"adapter": adapter, "item": it, "update": st, "attribute": a})
				return
			}
		}
	}
}

// rotateEmpties replaces every EMPTY value by the empty value of another type (S "" -> L [] -> M {} -> B "" -> S "")
// at any depth; everything else stays. changed reports whether the item contains such a value at all.
func rotateEmpties(v val.V, changed *bool) val.V {
	switch {
	case v.K == val.KS && v.Str == "":
		*changed = true
		return val.List()
	case v.K == val.KL && len(v.L) == 0:
		*changed = true
		return val.Map(map[string]val.V{})
	case v.K == val.KM && len(v.M) == 0:
		*changed = true
		return val.Bin("")
	case v.K == val.KB && v.Str == "":
		*changed = true
		return val.Str("")
	case v.K == val.KL:
		o := val.V{K: val.KL, L: []val.V{}}
		for _, e := range v.L {
			o.L = append(o.L, rotateEmpties(e, changed))
		}
		return o
	case v.K == val.KM:
		o := val.V{K: val.KM, M: map[string]val.V{}}
		for k, e := range v.M {
			o.M[k] = rotateEmpties(e, changed)
		}
		return o
	}
	return v
}

// overwriteWithOtherEmpties: the item is put again with every empty value replaced by the empty value of ANOTHER
// type (an empty string becomes an empty list, an empty list an empty map ...), everything else identical: the
// second write is a write like any other - reads return the new types - and so is the write back.
func (p *c10) overwriteWithOtherEmpties(x *res, adapter string, cl adapt.Client, table string, key, it val.Item, ctx *runner.Ctx) {
	pre := cl.Do(adapt.Op{Kind: adapt.OpGet, Table: table, Key: key})
	if pre.Class != adapt.ClsOK || pre.Item == nil {
		return
	}
	orig := val.Item{}
	for k, v := range it {
		orig[k] = v
	}
	changed := false
	variant := val.Item{}
	for k, v := range orig {
		if k == "h" || k == "r" {
			variant[k] = v
			continue
		}
		variant[k] = rotateEmpties(v, &changed)
	}
	if !changed {
		return
	}
	for round, w := range []val.Item{variant, orig} {
		o := cl.Do(adapt.Op{Kind: adapt.OpPut, Table: table, Item: w})
		x.r.Evals++
		x.r.Counters["overwrites_that_change_only_empty_types"]++
		if o.Class != adapt.ClsOK {
			return // an empty value the library refuses (not this rule's business)
		}
		got := cl.Do(adapt.Op{Kind: adapt.OpGet, Table: table, Key: key})
		sc := cl.Do(adapt.Op{Kind: adapt.OpScan, Table: table})
		for _, back := range []val.Item{got.Item, func() val.Item {
			if len(sc.Items) == 1 {
				return sc.Items[0]
			}
			return nil
		}()} {
			if !val.ItemsEqual(back, w) && len(modelQuirkNames(back, w)) == 0 {
				x.viol("overwrite-changing-empty-types-lost", fmt.Sprintf("%s/round%d", adapter, round), fmt.Sprintf("[%s] the item was put again with its empty values changed to the empty value of another type; a read returns %s", adapter, diffAttrs(back, w)),
					map[string]interface{}{"adapter": adapter, "first": orig, "second": variant, "returned": back, "round": round})
				return
			}
		}
	}
}

// refusedWrites: updates that name an attribute the item HAS - overwrite it, change a member or element below it,
// add to it - and that are refused as a whole because the same request removes the sort-key attribute. A refused
// write is no write: every read path still returns the item exactly as PutItem stored it.
func (p *c10) refusedWrites(x *res, adapter string, cl adapt.Client, table string, key, it val.Item, ctx *runner.Ctx) {
	names := []string{}
	for k := range it {
		if k != "h" && k != "r" {
			names = append(names, k)
		}
	}
	sort.Strings(names)
	// the reference is what the table returns before the refused writes (the steps before this one may have
	// left derived attributes behind, and the SDK v2 adapter has its listed way of returning empty lists and maps)
	pre := cl.Do(adapt.Op{Kind: adapt.OpGet, Table: table, Key: key})
	if pre.Class != adapt.ClsOK || pre.Item == nil {
		return
	}
	it = pre.Item
	done := 0
	for _, a := range names {
		if done >= 3 {
			break
		}
		v := it[a]
		al := map[string]string{"#a": a}
		upds := []adapt.Op{{Kind: adapt.OpUpdate, Table: table, Key: key, Update: "SET #a = :x REMOVE r", Names: al, Values: val.Item{":x": val.Str("overwritten by a refused update")}}}
		switch v.K {
		case val.KL:
			upds = append(upds, adapt.Op{Kind: adapt.OpUpdate, Table: table, Key: key, Update: "SET #a[0] = :x REMOVE r", Names: al, Values: val.Item{":x": val.Str("element of a refused update")}},
				adapt.Op{Kind: adapt.OpUpdate, Table: table, Key: key, Update: "SET #a = list_append(#a, :x) REMOVE r", Names: al, Values: val.Item{":x": val.List(val.Str("appended by a refused update"))}})
		case val.KM:
			upds = append(upds, adapt.Op{Kind: adapt.OpUpdate, Table: table, Key: key, Update: "SET #a.zzrefused = :x REMOVE r", Names: al, Values: val.Item{":x": val.Str("member of a refused update")}})
		case val.KSS:
			upds = append(upds, adapt.Op{Kind: adapt.OpUpdate, Table: table, Key: key, Update: "ADD #a :x REMOVE r", Names: al, Values: val.Item{":x": val.SS("zz-added-by-a-refused-update")}},
				adapt.Op{Kind: adapt.OpUpdate, Table: table, Key: key, Update: "DELETE #a :x REMOVE r", Names: al, Values: val.Item{":x": v}})
		case val.KN:
			upds = append(upds, adapt.Op{Kind: adapt.OpUpdate, Table: table, Key: key, Update: "ADD #a :x REMOVE r", Names: al, Values: val.Item{":x": val.Num("1")}},
				adapt.Op{Kind: adapt.OpUpdate, Table: table, Key: key, Update: "SET #a = #a + :x REMOVE r", Names: al, Values: val.Item{":x": val.Num("1")}})
		}
		done++
		for i, u := range upds {
			ctx.Trace("%s refused write %s", adapter, u.String())
			o := cl.Do(u)
			x.r.Evals++
			if o.Class == adapt.ClsRuntime {
				x.viol("runtime-panic", o.Site, fmt.Sprintf("[%s] %s: runtime panic at %s: %s", adapter, u.Update, o.Site, o.Msg), map[string]interface{}{"adapter": adapter, "item": it, "update": u})
				return
			}
			if o.Class == adapt.ClsOK {
				// removing a key attribute was accepted: C13's business, and the item is no longer the one written
				x.r.Counters["key_removing_update_accepted"]++
				return
			}
			x.r.Counters["refused_writes_followed_by_reads"]++
			plain := []adapt.Op{{Kind: adapt.OpGet, Table: table, Key: key}, {Kind: adapt.OpScan, Table: table}, queryOp(table, "", keyCondEq("h", ":h"), nil, val.Item{":h": val.Str("k")}, false, rrCanon)}[(i+done)%3]
			got := cl.Do(plain)
			x.r.Evals++
			back := got.Item
			if plain.Kind != adapt.OpGet && len(got.Items) == 1 {
				back = got.Items[0]
			}
			if got.Class != adapt.ClsOK || !val.ItemsEqual(back, it) {
				x.viol("refused-write-changed-stored-values", adapter+"/"+string(v.K), fmt.Sprintf("[%s] after the refused UpdateItem %q (%s) %s returns %s", adapter, u.Update, o.Class, plain.Kind, diffAttrs(back, it)),
					map[string]interface{}{"adapter": adapter, "item": it, "update": u, "read": plain, "returned": back})
				return
			}
		}
	}
}

// readPurity: reads that carry options which narrow THEIR OWN result (AttributesToGet, ProjectionExpression,
// Select, ConsistentRead, Limit) are followed by plain reads: the stored item is still the one that was written.
// What the narrowed reads themselves return is not judged (the library does not implement projections).
func (p *c10) readPurity(x *res, adapter string, cl adapt.Client, table string, key, it val.Item, ctx *runner.Ctx) {
	one := ""
	for k := range it {
		if k != "h" && k != "r" && (one == "" || k < one) {
			one = k
		}
	}
	if one == "" {
		return
	}
	names := map[string]string{"#p": one}
	narrowed := []adapt.Op{
		{Kind: adapt.OpGet, Table: table, Key: key, AttrsToGet: []string{one}},
		{Kind: adapt.OpGet, Table: table, Key: key, AttrsToGet: []string{"h"}, Consistent: true},
		{Kind: adapt.OpGet, Table: table, Key: key, Proj: "#p", Names: names},
		{Kind: adapt.OpGet, Table: table, Key: key, Proj: "h, r"},
		{Kind: adapt.OpQuery, Table: table, KeyCnd: "h = :h", Values: val.Item{":h": val.Str("k")}, AttrsToGet: []string{one}},
		{Kind: adapt.OpQuery, Table: table, KeyCnd: "h = :h", Values: val.Item{":h": val.Str("k")}, Proj: "#p", Names: names, Select: "SPECIFIC_ATTRIBUTES"},
		{Kind: adapt.OpQuery, Table: table, KeyCnd: "h = :h", Values: val.Item{":h": val.Str("k")}, Select: "COUNT", Consistent: true},
		{Kind: adapt.OpScan, Table: table, AttrsToGet: []string{"r"}},
		{Kind: adapt.OpScan, Table: table, Proj: "h", Select: "SPECIFIC_ATTRIBUTES", Limit: 1},
		{Kind: adapt.OpScan, Table: table, Select: "COUNT"},
		{Kind: adapt.OpBatchGet, Gets: []adapt.BatchEntry{{Table: table, Del: key}}, AttrsToGet: []string{one}},
		{Kind: adapt.OpBatchGet, Gets: []adapt.BatchEntry{{Table: table, Del: key}}, Proj: "#p", Names: names, Consistent: true},
	}
	for i, nop := range narrowed {
		ctx.Trace("%s narrowed read %s", adapter, nop.String())
		n := cl.Do(nop)
		x.r.Evals++
		x.r.Counters["narrowed_reads"]++
		if n.Class == adapt.ClsRuntime {
			x.viol("runtime-panic", n.Site, fmt.Sprintf("[%s] read with options %s: runtime panic at %s: %s", adapter, nop.String(), n.Site, n.Msg), map[string]interface{}{"adapter": adapter, "read": nop})
			return
		}
		// after every narrowed read, one plain read (rotating over the read paths)
		plain := []adapt.Op{{Kind: adapt.OpGet, Table: table, Key: key}, {Kind: adapt.OpScan, Table: table}, queryOp(table, "", keyCondEq("h", ":h"), nil, val.Item{":h": val.Str("k")}, false, rrCanon)}[i%3]
		got := cl.Do(plain)
		x.r.Evals++
		back := got.Item
		if plain.Kind != adapt.OpGet && len(got.Items) == 1 {
			back = got.Items[0]
		}
		if got.Class != adapt.ClsOK || !val.ItemsEqual(back, it) {
			if len(modelQuirkNames(back, it)) > 0 {
				return // the listed empty-list/map finding, reported by the plain round trip already
			}
			x.viol("read-changed-stored-item", adapter+"/"+nop.Kind, fmt.Sprintf("[%s] after the read %s a plain %s returns (class %s) %s; the stored item is %s; differences: %s", adapter, nop.String(), plain.Kind, got.Class, back.Canon(), it.Canon(), diffAttrs(back, it)),
				map[string]interface{}{"adapter": adapter, "item": it, "narrowed_read": nop, "plain_read": plain.Kind, "returned": back})
			return
		}
	}
}

// multiRoundTrip writes all items of a case into TWO tables of one client (distinct sort keys under one
// partition) and reads them back together: one Query, one Scan per table and one BatchGetItem that names
// both tables. Every returned item must equal the one written under its key - a read path that shares
// buffers between items or tables shows up here and not in the single-item round trip.
func (p *c10) multiRoundTrip(x *res, items []val.Item, ctx *runner.Ctx) {
	for _, adapter := range adapt.Adapters {
		specs := []adapt.TableSpec{mon.SpecHashRange("tbl10a"), mon.SpecHashRange("tbl10b")}
		cl, _, ds := freshClient(adapter, specs...)
		if ds != nil {
			x.viol("setup", "create", ds[0].Detail, specs)
			return
		}
		written := map[string]map[string]val.Item{specs[0].Name: {}, specs[1].Name: {}}
		gets := []adapt.BatchEntry{}
		for i, item := range items {
			t := specs[i%2].Name
			it := item.Clone()
			it["h"] = val.Str("k")
			it["r"] = val.Str(fmt.Sprintf("s%03d", i))
			if put := cl.Do(adapt.Op{Kind: adapt.OpPut, Table: t, Item: it}); put.Class != adapt.ClsOK {
				continue // reported by the single-item round trip
			}
			written[t][it["r"].Str] = it
			gets = append(gets, adapt.BatchEntry{Table: t, Del: val.Item{"h": it["h"], "r": it["r"]}})
		}
		check := func(read, table string, back []val.Item) {
			x.r.Counters["multi-reads:"+read]++
			ok := len(back) == len(written[table])
			for _, b := range back {
				w, have := written[table][b["r"].Str]
				if !have || !val.ItemsEqual(b, w) {
					if have && len(modelQuirkNames(b, w)) > 0 {
						continue // the listed empty-L/M quirk is reported by the single-item round trip
					}
					ok = false
				}
			}
			if !ok {
				want := []val.Item{}
				for _, w := range written[table] {
					want = append(want, w)
				}
				x.viol("multi-roundtrip", adapter+"/"+read, fmt.Sprintf("[%s] %s of %s after writing %d items into two tables returned %s; written to that table: %s", adapter, read, table, len(items), trunc400(adapt.ItemsSetCanon(back)), trunc400(adapt.ItemsSetCanon(want))),
					map[string]interface{}{"adapter": adapter, "items": items, "read": read, "table": table})
			}
		}
		for _, sp := range specs {
			q := cl.Do(queryOp(sp.Name, "", keyCondEq("h", ":h"), nil, val.Item{":h": val.Str("k")}, false, rrCanon))
			check("query", sp.Name, q.Items)
			sc := cl.Do(adapt.Op{Kind: adapt.OpScan, Table: sp.Name})
			check("scan", sp.Name, sc.Items)
			x.r.Evals += 2
		}
		bg := cl.Do(adapt.Op{Kind: adapt.OpBatchGet, Gets: gets})
		x.r.Evals++
		if bg.Class == adapt.ClsOK {
			for _, sp := range specs {
				check("batchget", sp.Name, bg.Resp[sp.Name])
			}
		}
	}
}

// invalidNumerals: the converse of "numbers in any valid notation". A value of type N (top level, inside a list or
// a map, a member of a number set, an expression attribute value) whose text is no number is either refused by the
// write - what DynamoDB does - or, if the library stores it, comes back as it was written and breaks nothing: every
// read of the table, with or without a filter, still works.
func (p *c10) invalidNumerals(x *res, adapter string) {
	spec := mon.SpecHashRange("tbl10n")
	bad := []string{"abc", "NaN", "Infinity", "-Infinity", "1e999", " 1", "--1", "1,5", "0x10", "", "1e", "١٢٣", "1234567890123456789012345678901234567890"}
	for bi, text := range bad {
		n := val.V{K: val.KN, Str: text}
		forms := []val.Item{
			{"n": n},
			{"l": val.List(val.Str("x"), n)},
			{"m": val.Map(map[string]val.V{"deep": val.List(val.Map(map[string]val.V{"n": n}))})},
			{"ns": val.V{K: val.KNS, Set: []string{"1", text}}},
		}
		for fi, form := range forms {
			cl, _, ds := freshClient(adapter, spec)
			if ds != nil {
				return
			}
			good := val.Item{"h": val.Str("k"), "r": val.Str("good"), "v": val.Num("5")}
			cl.Do(adapt.Op{Kind: adapt.OpPut, Table: spec.Name, Item: good})
			it := val.Item{"h": val.Str("k"), "r": val.Str("s")}
			for k, v := range form {
				it[k] = v
			}
			put := cl.Do(adapt.Op{Kind: adapt.OpPut, Table: spec.Name, Item: it})
			x.r.Evals++
			x.fp(true, "%s|invalid-numeral|%d|%d", adapter, bi, fi)
			wit := map[string]interface{}{"adapter": adapter, "item": it, "put": put}
			switch {
			case put.Class == adapt.ClsRuntime:
				x.viol("runtime-panic", put.Site, fmt.Sprintf("[%s] PutItem with the number %q (form %d): runtime panic at %s: %s", adapter, text, fi, put.Site, put.Msg), wit)
				continue
			case put.Class != adapt.ClsOK:
				x.r.Counters["invalid_numerals_refused"]++
			default:
				x.r.Counters["invalid_numerals_stored"]++
			}
			// whatever the write did, the table still reads
			reads := []adapt.Op{
				{Kind: adapt.OpScan, Table: spec.Name, Filter: "v > :z", Values: val.Item{":z": val.Num("0")}},
				{Kind: adapt.OpScan, Table: spec.Name, Filter: "attribute_exists(n) OR size(r) > :z", Values: val.Item{":z": val.Num("0")}},
				{Kind: adapt.OpQuery, Table: spec.Name, KeyCnd: "h = :h", Values: val.Item{":h": val.Str("k")}},
				{Kind: adapt.OpGet, Table: spec.Name, Key: val.Item{"h": val.Str("k"), "r": val.Str("good")}},
				{Kind: adapt.OpUpdate, Table: spec.Name, Key: val.Item{"h": val.Str("k"), "r": val.Str("good")}, Update: "SET w = :z", Values: val.Item{":z": val.Num("1")}},
			}
			for _, rd := range reads {
				o := cl.Do(rd)
				x.r.Evals++
				if o.Class != adapt.ClsOK {
					x.viol("invalid-number-breaks-the-table", fmt.Sprintf("%s/form%d/%s", adapter, fi, rd.Kind), fmt.Sprintf("[%s] after PutItem with the number %q (form %d, answered %s), %s on the table fails: %s %s", adapter, text, fi, put.Class, rd.String(), o.Class, o.Msg), wit)
					break
				}
			}
		}
		// ... and as an expression attribute value of a read
		cl, _, _ := freshClient(adapter, spec)
		cl.Do(adapt.Op{Kind: adapt.OpPut, Table: spec.Name, Item: val.Item{"h": val.Str("k"), "r": val.Str("good"), "v": val.Num("5")}})
		o := cl.Do(adapt.Op{Kind: adapt.OpScan, Table: spec.Name, Filter: "v > :z", Values: val.Item{":z": val.V{K: val.KN, Str: text}}})
		x.r.Evals++
		if o.Class == adapt.ClsRuntime || o.Class == adapt.ClsOK {
			x.viol("invalid-number-as-expression-value", adapter+"/"+o.Class, fmt.Sprintf("[%s] Scan with the filter v > :z and :z = N %q: %s %s (want the request refused)", adapter, text, o.Class, o.Msg), nil)
		}
	}
}

// malformedValues: what the SDK types can express although it is no attribute value - a missing (nil) element, a
// value without any type, with two types, NULL given as false - as an attribute, inside a list, inside a map, as an
// expression attribute value and as a key. Whatever the answer is (refusing is the right one; the SDK v2 adapter
// reads a missing member as NULL), it is no runtime fault, and the table still reads and writes afterwards.
func (p *c10) malformedValues(x *res, adapter string) {
	spec := mon.SpecHashRange("tbl10m")
	for _, kind := range []string{"nil", "empty", "two-types", "null-false", "nil-number-set-member", "nil-string-set-member"} {
		bad := val.Invalid(kind)
		switch kind {
		case "nil-number-set-member":
			// (a nil pointer among the members through the SDK v1 adapter; through SDK v2, whose sets hold strings, a
			// member that is no numeral)
			bad = val.V{K: val.KNS, Set: []string{adapt.NilName, "1"}}
		case "nil-string-set-member":
			bad = val.V{K: val.KSS, Set: []string{"a", adapt.NilName}}
		}
		forms := []val.Item{
			{"a": bad},
			{"l": val.List(val.Str("x"), bad)},
			{"m": val.Map(map[string]val.V{"k": bad})},
			{"m": val.Map(map[string]val.V{"deep": val.List(val.Map(map[string]val.V{"n": bad}))})},
		}
		check := func(cl adapt.Client, what string, fi int, first adapt.Outcome, wit map[string]interface{}) {
			reads := []adapt.Op{
				{Kind: adapt.OpScan, Table: spec.Name, Filter: "v > :z", Values: val.Item{":z": val.Num("0")}},
				{Kind: adapt.OpScan, Table: spec.Name, Filter: "attribute_exists(a) OR size(r) > :z OR l = :z OR m.k = :z", Values: val.Item{":z": val.Num("0")}},
				{Kind: adapt.OpQuery, Table: spec.Name, KeyCnd: "h = :h", Values: val.Item{":h": val.Str("k")}},
				{Kind: adapt.OpGet, Table: spec.Name, Key: val.Item{"h": val.Str("k"), "r": val.Str("good")}},
				{Kind: adapt.OpGet, Table: spec.Name, Key: val.Item{"h": val.Str("k"), "r": val.Str("s")}},
				{Kind: adapt.OpUpdate, Table: spec.Name, Key: val.Item{"h": val.Str("k"), "r": val.Str("s")}, Update: "SET w = :z", Values: val.Item{":z": val.Num("1")}},
				{Kind: adapt.OpUpdate, Table: spec.Name, Key: val.Item{"h": val.Str("k"), "r": val.Str("good")}, Update: "SET w = :z", Values: val.Item{":z": val.Num("1")}},
			}
			for _, rd := range reads {
				o := cl.Do(rd)
				x.r.Evals++
				if o.Class != adapt.ClsOK {
					x.viol("malformed-value-breaks-the-table", fmt.Sprintf("%s/%s/%s/%s", adapter, kind, what, rd.Kind), fmt.Sprintf("[%s] after %s with a %s value (form %d, answered %s %s), %s on the table fails: %s %s", adapter, what, kind, fi, first.Class, first.Msg, rd.String(), o.Class, o.Msg), wit)
					break
				}
				for _, it := range append(append([]val.Item{}, o.Items...), o.Item) {
					for a, v := range it {
						if strings.Contains(v.Canon(), string(val.KInvalid)) {
							x.viol("malformed-value-stored", fmt.Sprintf("%s/%s/%s", adapter, kind, what), fmt.Sprintf("[%s] after %s with a %s value (form %d, answered %s), %s returns the attribute %s = %s, which is no attribute value", adapter, what, kind, fi, first.Class, rd.Kind, a, v.Canon()), wit)
							return
						}
					}
				}
			}
		}
		for fi, form := range forms {
			for _, via := range []string{"put", "update-value", "condition-value", "filter-value", "key"} {
				cl, _, ds := freshClient(adapter, spec)
				if ds != nil {
					return
				}
				cl.Do(adapt.Op{Kind: adapt.OpPut, Table: spec.Name, Item: val.Item{"h": val.Str("k"), "r": val.Str("good"), "v": val.Num("5")}})
				it := val.Item{"h": val.Str("k"), "r": val.Str("s")}
				var first adapt.Op
				var attr string
				var bv val.V
				for k, v := range form {
					attr, bv = k, v
				}
				switch via {
				case "put":
					it[attr] = bv
					first = adapt.Op{Kind: adapt.OpPut, Table: spec.Name, Item: it}
				case "update-value":
					first = adapt.Op{Kind: adapt.OpUpdate, Table: spec.Name, Key: it, Update: "SET " + attr + " = :b", Values: val.Item{":b": bv}}
				case "condition-value":
					it["w"] = val.Str("written")
					first = adapt.Op{Kind: adapt.OpPut, Table: spec.Name, Item: it, Cond: attr + " <> :b", Values: val.Item{":b": bv}}
				case "filter-value":
					first = adapt.Op{Kind: adapt.OpScan, Table: spec.Name, Filter: "v <> :b", Values: val.Item{":b": bv}}
				case "key":
					if fi > 0 {
						continue
					}
					first = adapt.Op{Kind: adapt.OpGet, Table: spec.Name, Key: val.Item{"h": val.Str("k"), "r": bad}}
				}
				o := cl.Do(first)
				x.r.Evals++
				x.fp(true, "%s|malformed|%s|%d|%s", adapter, kind, fi, via)
				x.r.Counters["malformed_values:"+o.Class]++
				wit := map[string]interface{}{"adapter": adapter, "kind": kind, "request": first, "outcome": o}
				if o.Class == adapt.ClsRuntime {
					x.viol("runtime-panic", "malformed-value/"+o.Site, fmt.Sprintf("[%s] %s with a %s value (form %d): runtime panic at %s: %s", adapter, via, kind, fi, o.Site, o.Msg), wit)
					continue
				}
				check(cl, via, fi, o, wit)
			}
		}
	}
}

func (p *c10) RunCase(ctx *runner.Ctx) runner.CaseResult {
	x := newRes()
	if c10Cache == nil {
		c10Cache = c10Exhaustive()
	}
	if ctx.Case < 2 {
		p.invalidNumerals(x, adapt.Adapters[ctx.Case])
		p.malformedValues(x, adapt.Adapters[ctx.Case])
	}
	blocks := (len(c10Cache) + c10Block - 1) / c10Block
	if ctx.Case < blocks {
		hi := (ctx.Case + 1) * c10Block
		if hi > len(c10Cache) {
			hi = len(c10Cache)
		}
		for i := ctx.Case * c10Block; i < hi; i++ {
			p.roundTrip(x, c10Cache[i], ctx)
		}
		p.multiRoundTrip(x, c10Cache[ctx.Case*c10Block:hi], ctx)
		if ctx.Case%5 == 0 {
			x.r.Sample = map[string]interface{}{"kind": "boundary", "item": c10Cache[ctx.Case*c10Block]}
		}
		return x.r
	}
	idx := ctx.Case - blocks
	r := mon.Rng(ctx.Seed, "C10", idx)
	depth := 3
	if ctx.Tier == "thorough" {
		depth = 5
	}
	opts := mon.GenOpts{MaxDepth: depth, Numerals: mon.Numerals, AllowEmptyB: true}
	all := []val.Item{}
	for k := 0; k < 20; k++ {
		item := val.Item{}
		n := 1 + r.Intn(6)
		for i := 0; i < n; i++ {
			item[fmt.Sprintf("a%d", i)] = mon.Value(r, r.Intn(depth+1), opts)
		}
		p.roundTrip(x, item, ctx)
		all = append(all, item)
		if k == 0 && idx < 2 {
			x.r.Sample = map[string]interface{}{"kind": "seeded", "item": item}
		}
	}
	p.multiRoundTrip(x, all, ctx)
	return x.r
}
