package props

import (
	"fmt"
	"strings"

	"verifharness/adapt"
	"verifharness/model"
	"verifharness/mon"
	"verifharness/runner"
	"verifharness/val"
)

// C15 – emulated failures fail every data call, change nothing, and are reversible.
type c15 struct{ base }

func init() {
	runner.Register(&c15{base{id: "C15", level: "fault_enumeration",
		rule: "exhaustive: every sequence of <=3 toggles over {EmulateFailure(none), EmulateFailure(internal_server), EmulateFailure(deprecated), ActiveForceFailure, DeactiveForceFailure} x every data-operation kind {Put, Update, Delete, Get, Query, Scan, BatchWrite, BatchGet, TransactWrite} x both adapters on a populated table: while a condition is active the call must return exactly the configured error (InternalServerError resp. ErrForcedFailure) and, after deactivation, the complete observation must equal the one taken before (BatchWrite under internal_server: every request is applied or listed in UnprocessedItems, never both, never neither); batch compositions 1/2/25 requests over 1-2 tables with puts and deletes; seeded histories of 60 ops mixing toggles with all operation kinds, checked step by step against the model that ignores failing calls. non-trivial = a failure condition was active for at least one data call and was later deactivated; distinct by (adapter, toggle sequence, op kind). Pagers: the SDK's own paginators (v2 NewQueryPaginator / NewScanPaginator; v1 QueryPages / ScanPages, 'not implemented' when they land on the nil embedded interface) with the failure switched on after page 1 / 2 of a 3-page walk: no further page is delivered, the walk ends with the configured error, and completes once the failure is off. Replayed ClientRequestTokens of TransactWriteItems (same token with same / other actions, fresh token, none) under the three failure modes fail like any call.",
		assumptions: commonAssumptions}})
}

var c15Toggles = []adapt.Op{
	{Kind: adapt.OpEmulate, Fail: "none"}, {Kind: adapt.OpEmulate, Fail: "internal_server"}, {Kind: adapt.OpEmulate, Fail: "deprecated"},
	{Kind: adapt.OpForceOn}, {Kind: adapt.OpForceOff},
}
var c15ToggleNames = []string{"none", "internal", "deprecated", "forceon", "forceoff"}
var c15OpKinds = []string{"put", "update", "delete", "get", "query", "scan", "batchwrite", "batchget", "transact", "batchwrite-empty", "batchwrite-empty-table-entry", "batchwrite-same"}

func c15SeqCount() int { return 5 + 25 + 125 }

func c15Decode(seq int) []int {
	l, p := 1, 5
	for seq >= p {
		seq -= p
		p *= 5
		l++
	}
	out := make([]int, l)
	for i := range out {
		out[i] = seq % 5
		seq /= 5
	}
	return out
}

func (p *c15) Exhaustive(string) bool { return true }

func (p *c15) NumCases(tier string) int {
	n := c15SeqCount()*2 + 2
	if tier == "thorough" {
		return n + 16000
	}
	return n + 3000
}

func c15DataOp(kind string, t string, salt int) adapt.Op {
	key := val.Item{"h": val.Str("p"), "r": val.Str("1")}
	switch kind {
	case "put":
		return adapt.Op{Kind: adapt.OpPut, Table: t, Item: ixItem("p", "9", "y", "10", salt)}
	case "update":
		return mon.SetUpdate(t, key, "w", val.Str("touched"))
	case "delete":
		return adapt.Op{Kind: adapt.OpDelete, Table: t, Key: key}
	case "get":
		return adapt.Op{Kind: adapt.OpGet, Table: t, Key: key}
	case "query":
		return queryOp(t, "", keyCondEq("h", ":h"), nil, val.Item{":h": val.Str("p")}, false, rrCanon)
	case "scan":
		return adapt.Op{Kind: adapt.OpScan, Table: t}
	case "batchwrite":
		return adapt.Op{Kind: adapt.OpBatchWrite, Batch: []adapt.BatchEntry{{Table: t, Put: ixItem("p", "b1", "x", "1", salt)}, {Table: t, Del: key}}}
	case "batchwrite-same":
		// a batch that is sent again: every put writes an item exactly as it is stored already (the set-up items of
		// toggleCase). Nothing would change - it still is a data call, and an active failure fails it like any other
		return adapt.Op{Kind: adapt.OpBatchWrite, Batch: []adapt.BatchEntry{{Table: t, Put: ixItem("p", "1", "x", "9", 1)}, {Table: t, Put: ixItem("q", "1", "", "", 3)}}}
	case "batchwrite-empty":
		// a batch without any request: it has nothing to apply, but it is a data call like the others - under an
		// active failure it does not report success (the configured error, or the refusal of the empty request)
		return adapt.Op{Kind: adapt.OpBatchWrite}
	case "batchwrite-empty-table-entry":
		return adapt.Op{Kind: adapt.OpBatchWrite, EmptyTables: []string{t}}
	case "batchget":
		return adapt.Op{Kind: adapt.OpBatchGet, Gets: []adapt.BatchEntry{{Table: t, Del: key}}}
	}
	return adapt.Op{Kind: adapt.OpTransact}
}

func (p *c15) toggleCase(x *res, adapter string, seq []int, ctx *runner.Ctx) {
	spec := ixSpec("tbl15", true)
	names := []string{}
	for _, s := range seq {
		names = append(names, c15ToggleNames[s])
	}
	for _, kind := range c15OpKinds {
		cl, m, ds := freshClient(adapter, spec)
		if ds != nil {
			return
		}
		keys := mon.KeyLog{}
		st := &mon.HistoryStats{}
		setup := []adapt.Op{
			{Kind: adapt.OpPut, Table: spec.Name, Item: ixItem("p", "1", "x", "9", 1)},
			{Kind: adapt.OpPut, Table: spec.Name, Item: ixItem("p", "10", "y", "1", 2)},
			{Kind: adapt.OpPut, Table: spec.Name, Item: ixItem("q", "1", "", "", 3)},
		}
		mon.RunHistory(cl, m, setup, keys, false, nil, nil, st)
		for _, k := range []string{"9", "b1"} {
			keys.Add(spec.Name, val.Item{"h": val.Str("p"), "r": val.Str(k)})
		}
		before := mon.Snapshot(cl, []string{spec.Name}, keys)
		hist := append([]adapt.Op{}, setup...)
		for _, s := range seq {
			hist = append(hist, c15Toggles[s])
		}
		op := c15DataOp(kind, spec.Name, 7)
		hist = append(hist, op)
		active := ""
		for _, s := range seq {
			switch s {
			case 0, 4:
				active = ""
			case 1:
				active = "internal_server"
			case 2, 3:
				active = "deprecated"
			}
		}
		x.fp(active != "", "%s|%s|%s", adapter, strings.Join(names, ","), kind)
		f := mon.RunHistory(cl, m, hist[len(setup):], keys, false, nil, ctx.Trace, st)
		x.r.Evals += st.Calls
		x.set("active_conditions", active+"/"+kind)
		if f != nil {
			f.Prefix = hist
			x.failureViolation(adapter, f, map[string]interface{}{"toggles": names, "op": kind})
			continue
		}
		if active != "" {
			// deactivate and compare the complete observation
			off := adapt.Op{Kind: adapt.OpEmulate, Fail: "none"}
			m.Step(off, cl.Do(off))
			after := mon.Snapshot(cl, []string{spec.Name}, keys)
			x.r.Evals += 12
			batchInternal := kind == "batchwrite" && active == "internal_server"
			if after != before && !batchInternal {
				x.viol("failing-call-changed-state", kind+"/"+active, fmt.Sprintf("[%s] %s while %s was active (toggles %v) changed the observable state\n--- before\n%s--- after\n%s", adapter, kind, active, names, before, after),
					map[string]interface{}{"adapter": adapter, "history": hist})
				continue
			}
			if ds := mon.Observe(cl, m, keys, nil); len(ds) > 0 {
				x.viol("after-deactivation:"+ds[0].Rule, kind+"/"+active, fmt.Sprintf("[%s] after deactivation: %s", adapter, ds[0].Detail), map[string]interface{}{"adapter": adapter, "history": hist})
				continue
			}
			// and the same operation now behaves normally
			op2 := c15DataOp(kind, spec.Name, 8)
			if f := mon.RunHistory(cl, m, []adapt.Op{op2}, keys, true, nil, ctx.Trace, st); f != nil {
				f.Prefix = append(hist, off, op2)
				x.failureViolation(adapter, f, map[string]interface{}{"toggles": names, "op": kind, "phase": "after deactivation"})
			}
		}
	}
}

// malformedWhileFailing: "while a failure condition is active every data operation returns the configured error" -
// also a read whose request would be refused anyway (a reserved word or a syntax error in its ProjectionExpression,
// placeholders nothing uses, a blank filter, no key condition): the failure wins in both clients, as it does for
// well-formed requests. (v1 requests that the SDK's own input.Validate() refuses never reach the fake: not sent.)
func (p *c15) malformedWhileFailing(x *res, adapter string) {
	spec := ixSpec("tbl15m", true)
	kc := "h = :h"
	hv := val.Item{":h": val.Str("p")}
	reqs := []struct {
		name string
		op   adapt.Op
	}{
		{"scan-projection-reserved-word", adapt.Op{Kind: adapt.OpScan, Table: spec.Name, Proj: "h, name"}},
		{"scan-projection-syntax", adapt.Op{Kind: adapt.OpScan, Table: spec.Name, Proj: "h,, r"}},
		{"scan-blank-projection", adapt.Op{Kind: adapt.OpScan, Table: spec.Name, Proj: " ", ProjSet: true}},
		{"scan-blank-filter", adapt.Op{Kind: adapt.OpScan, Table: spec.Name, Filter: "", FilterSet: true}},
		{"scan-unused-name", adapt.Op{Kind: adapt.OpScan, Table: spec.Name, Names: map[string]string{"#u": "v"}}},
		{"scan-unused-value", adapt.Op{Kind: adapt.OpScan, Table: spec.Name, Values: val.Item{":u": val.Num("1")}}},
		{"scan-undefined-name", adapt.Op{Kind: adapt.OpScan, Table: spec.Name, Filter: "#nope = :u", Values: val.Item{":u": val.Num("1")}}},
		{"scan-malformed-filter", adapt.Op{Kind: adapt.OpScan, Table: spec.Name, Filter: "v = = :u", Values: val.Item{":u": val.Num("1")}}},
		{"query-projection-reserved-word", adapt.Op{Kind: adapt.OpQuery, Table: spec.Name, KeyCnd: kc, Values: hv, Proj: "h, status"}},
		{"query-unused-name", adapt.Op{Kind: adapt.OpQuery, Table: spec.Name, KeyCnd: kc, Values: hv, Names: map[string]string{"#u": "v"}}},
		{"query-without-key-condition", adapt.Op{Kind: adapt.OpQuery, Table: spec.Name, NoKC: true}},
		{"query-blank-filter", adapt.Op{Kind: adapt.OpQuery, Table: spec.Name, KeyCnd: kc, Values: hv, Filter: "  ", FilterSet: true}},
		{"get-projection-reserved-word", adapt.Op{Kind: adapt.OpGet, Table: spec.Name, Key: val.Item{"h": val.Str("p"), "r": val.Str("1")}, Proj: "name"}},
		{"put-unused-value", adapt.Op{Kind: adapt.OpPut, Table: spec.Name, Item: ixItem("p", "7", "x", "1", 1), Values: val.Item{":u": val.Num("1")}}},
		{"update-unused-name", adapt.Op{Kind: adapt.OpUpdate, Table: spec.Name, Key: val.Item{"h": val.Str("p"), "r": val.Str("1")}, Update: "SET w = :w", Values: val.Item{":w": val.Num("1")}, Names: map[string]string{"#u": "v"}}},
		{"delete-malformed-condition", adapt.Op{Kind: adapt.OpDelete, Table: spec.Name, Key: val.Item{"h": val.Str("p"), "r": val.Str("1")}, Cond: "v = = :u", Values: val.Item{":u": val.Num("1")}}},
	}
	fails := []struct {
		name string
		on   adapt.Op
		want string
	}{{"internal_server", adapt.Op{Kind: adapt.OpEmulate, Fail: "internal_server"}, adapt.ClsInternal}, {"deprecated", adapt.Op{Kind: adapt.OpEmulate, Fail: "deprecated"}, adapt.ClsForced}, {"forceon", adapt.Op{Kind: adapt.OpForceOn}, adapt.ClsForced}}
	for _, rq := range reqs {
		for _, fl := range fails {
			cl, _, ds := freshClient(adapter, spec)
			if ds != nil {
				return
			}
			cl.Do(adapt.Op{Kind: adapt.OpPut, Table: spec.Name, Item: ixItem("p", "1", "x", "9", 1)})
			cl.Do(fl.on)
			o := cl.Do(rq.op)
			x.r.Evals++
			x.fp(true, "%s|malformed-while-failing|%s|%s", adapter, rq.name, fl.name)
			x.r.Counters["malformed_requests_while_failing"]++
			if o.Class == adapt.ClsParam {
				continue // refused by the SDK's own client-side validation before the fake is reached (SDK v1)
			}
			if o.Class != fl.want {
				x.viol("failure-class", rq.name+"/"+fl.name, fmt.Sprintf("[%s] %s while %s is active: class %s (%s), want the configured error (%s)", adapter, rq.name, fl.name, o.Class, o.Msg, fl.want), map[string]interface{}{"adapter": adapter, "request": rq.op, "failure": fl.name, "outcome": o})
			}
		}
	}
}

func (p *c15) batchCompositions(x *res, adapter string, ctx *runner.Ctx) {
	specA, specB := ixSpec("tba15", true), mon.SpecHashOnly("tbb15")
	// "rich" compositions: every put carries one member of C10's boundary set (empty string / list / map / binary,
	// NULL, one-element sets, 38-digit numerals, ...) nested in a list or map: the request reported as unprocessed
	// must be the request that was made, value for value
	bnd := c10Boundary()
	for _, n := range []int{1, 2, 13, 17, 25, 101, 102} {
		rich := n > 100
		if rich {
			n -= 84 // 17 and 18 requests
		}
		for _, ntab := range []int{1, 2} {
			for _, cond := range []string{"internal_server", "deprecated"} {
				cl, m, ds := freshClient(adapter, specA, specB)
				if ds != nil {
					return
				}
				keys := mon.KeyLog{}
				st := &mon.HistoryStats{}
				setup := []adapt.Op{}
				for i := 0; i < 6; i++ {
					setup = append(setup, adapt.Op{Kind: adapt.OpPut, Table: specA.Name, Item: ixItem("p", fmt.Sprint(i), "x", "9", i)})
					setup = append(setup, adapt.Op{Kind: adapt.OpPut, Table: specB.Name, Item: val.Item{"h": val.Str(fmt.Sprint("k", i)), "v": val.Num(fmt.Sprint(i))}})
				}
				mon.RunHistory(cl, m, setup, keys, false, nil, nil, st)
				batch := []adapt.BatchEntry{}
				for i := 0; i < n; i++ {
					tn := specA.Name
					if ntab == 2 && i%2 == 1 {
						tn = specB.Name
					}
					if tn == specA.Name {
						if i%3 == 0 {
							batch = append(batch, adapt.BatchEntry{Table: tn, Del: val.Item{"h": val.Str("p"), "r": val.Str(fmt.Sprint(i % 6))}})
						} else {
							it := ixItem("n", fmt.Sprint(i), "y", "1", 100+i)
							if rich {
								it["x"] = nest(bnd[(i*7+n)%len(bnd)], c10Shapes[i%len(c10Shapes)])
								it["e"] = bnd[(i+11)%13]
							}
							batch = append(batch, adapt.BatchEntry{Table: tn, Put: it})
						}
						keys.Add(tn, val.Item{"h": val.Str("n"), "r": val.Str(fmt.Sprint(i))})
					} else {
						if i%3 == 0 {
							batch = append(batch, adapt.BatchEntry{Table: tn, Del: val.Item{"h": val.Str(fmt.Sprint("k", i%6))}})
						} else {
							it := val.Item{"h": val.Str(fmt.Sprint("n", i)), "v": val.Num("1")}
							if rich {
								it["x"] = nest(bnd[(i*5+n)%len(bnd)], c10Shapes[(i+3)%len(c10Shapes)])
							}
							batch = append(batch, adapt.BatchEntry{Table: tn, Put: it})
						}
						keys.Add(tn, val.Item{"h": val.Str(fmt.Sprint("n", i))})
					}
				}
				before := mon.Snapshot(cl, []string{specA.Name, specB.Name}, keys)
				ops := []adapt.Op{{Kind: adapt.OpEmulate, Fail: cond}, {Kind: adapt.OpBatchWrite, Batch: batch}, {Kind: adapt.OpEmulate, Fail: "none"}}
				x.fp(true, "batch|%s|%d|%d|%s|%v", adapter, n, ntab, cond, rich)
				f := mon.RunHistory(cl, m, ops, keys, false, nil, ctx.Trace, st)
				x.r.Evals += st.Calls
				if f != nil {
					f.Prefix = append(setup, ops...)
					x.failureViolation(adapter, f, map[string]interface{}{"batch_size": n, "tables": ntab, "condition": cond})
					continue
				}
				after := mon.Snapshot(cl, []string{specA.Name, specB.Name}, keys)
				if after != before {
					x.viol("failing-call-changed-state", "batchwrite/"+cond, fmt.Sprintf("[%s] BatchWriteItem of %d requests over %d tables under %s changed the state although every request was reported unprocessed / the call failed", adapter, n, ntab, cond),
						map[string]interface{}{"adapter": adapter, "batch": batch, "condition": cond})
				}
			}
		}
	}
}

func (p *c15) RunCase(ctx *runner.Ctx) runner.CaseResult {
	x := newRes()
	nseq := c15SeqCount()
	switch {
	case ctx.Case < nseq*2:
		adapter := adapt.Adapters[ctx.Case%2]
		p.toggleCase(x, adapter, c15Decode(ctx.Case/2), ctx)
		if ctx.Case%60 == 0 {
			x.r.Sample = map[string]interface{}{"kind": "toggle-sequence", "adapter": adapter, "toggles": c15Decode(ctx.Case / 2), "ops": c15OpKinds}
		}
	case ctx.Case < nseq*2+2:
		p.batchCompositions(x, adapt.Adapters[ctx.Case-nseq*2], ctx)
		p.malformedWhileFailing(x, adapt.Adapters[ctx.Case-nseq*2])
		p.failureBetweenPages(x, adapt.Adapters[ctx.Case-nseq*2])
		p.replayedTokens(x, adapt.Adapters[ctx.Case-nseq*2])
	default:
		idx := ctx.Case - nseq*2 - 2
		r := mon.Rng(ctx.Seed, "C15", idx)
		adapter := adapt.Adapters[idx%2]
		cl := adapt.New(adapter)
		m := model.New()
		keys := mon.KeyLog{}
		st := &mon.HistoryStats{}
		w := opWeights{mgmt: 2, helpers: 1, data: 8, search: 2, batch: 2, fail: 4, noBatchGet: true}
		hist := []adapt.Op{}
		shape := []string{}
		sawActive, sawOff := false, false
		for i := 0; i < 60; i++ {
			op := genOp(r, m, w, i)
			hist = append(hist, op)
			shape = append(shape, mon.OpFeature(op))
			if m.Fail != "" {
				sawActive = true
			}
			f := mon.RunHistory(cl, m, []adapt.Op{op}, keys, true, genTableNames, ctx.Trace, st)
			if sawActive && m.Fail == "" {
				sawOff = true
			}
			if f != nil {
				f.Step = i
				f.Prefix = hist
				x.failureViolation(adapter, f, nil)
				break
			}
		}
		x.r.Evals += st.Calls
		x.fp(sawActive && sawOff, "seeded|%s|%s", adapter, strings.Join(shape, ","))
		if idx < 2 {
			x.r.Sample = map[string]interface{}{"kind": "seeded", "adapter": adapter, "ops": shape}
		}
	}
	return x.r
}

// failureBetweenPages: "while a failure is active every data operation fails" - a page of a paginated read IS a data
// operation. The SDK's own pagers (v2: NewQueryPaginator / NewScanPaginator; v1: QueryPages / ScanPages where the
// fake implements them) walk a result of several pages; the failure is switched on after the k-th page was delivered
// and before the next one is asked for (the database goes down in the middle of a long read): no further page is
// delivered, the walk ends with the configured error - and once the failure is switched off the same walk completes.
func (p *c15) failureBetweenPages(x *res, adapter string) {
	spec := ixSpec("tbl15p", true)
	for _, kind := range []string{adapt.OpScan, adapt.OpQuery} {
		for _, fl := range []struct{ name, want string }{{"internal_server", adapt.ClsInternal}, {"deprecated", adapt.ClsForced}} {
			for _, after := range []int{1, 2} {
				for _, index := range []string{"", "gsi1"} {
					cl, _, ds := freshClient(adapter, spec)
					if ds != nil {
						return
					}
					for i := 0; i < 6; i++ {
						cl.Do(adapt.Op{Kind: adapt.OpPut, Table: spec.Name, Item: ixItem("p", fmt.Sprint(i), "x", "9", i)})
					}
					op := adapt.Op{Kind: kind, Table: spec.Name, Index: index, Limit: 2, Paginate: true, MaxPages: 10}
					if kind == adapt.OpQuery {
						op.KeyCnd, op.Values = "h = :h", val.Item{":h": val.Str("p")}
						if index != "" {
							op.KeyCnd, op.Values = "g = :g", val.Item{":g": val.Str("x")}
						}
					}
					whole := cl.Do(op)
					if whole.Class == adapt.ClsNotImpl {
						x.r.Counters["pager_not_implemented"]++
						continue
					}
					x.r.Evals += 3
					x.fp(true, "%s|failure-between-pages|%s|%s|%d|%s", adapter, kind, fl.name, after, index)
					x.r.Counters["walks_with_a_failure_between_pages"]++
					if whole.Class != adapt.ClsOK || len(whole.Items) != 6 || whole.Count < 3 {
						x.viol("pager-walk", kind, fmt.Sprintf("[%s] the SDK pager over 6 items with Limit 2 on a healthy client: class %s (%s), %d pages, %d items", adapter, whole.Class, whole.Msg, whole.Count, len(whole.Items)), map[string]interface{}{"adapter": adapter, "request": op, "outcome": whole})
						continue
					}
					fop := op
					fop.FailAfterPage, fop.Fail = after, fl.name
					got := cl.Do(fop)
					wit := map[string]interface{}{"adapter": adapter, "request": fop, "outcome": got}
					if got.Class != fl.want || int(got.Count) != after {
						x.viol("page-delivered-while-failing", kind+"/"+fl.name, fmt.Sprintf("[%s] %s through the SDK pager, %s switched on after page %d: the walk ended with class %s (%s) after delivering %d pages; want %d pages and the configured error (%s)", adapter, kind, fl.name, after, got.Class, got.Msg, got.Count, after, fl.want), wit)
						continue
					}
					cl.Do(adapt.Op{Kind: adapt.OpEmulate, Fail: "none"})
					if again := cl.Do(op); again.Class != adapt.ClsOK || adapt.ItemsCanon(again.Items) != adapt.ItemsCanon(whole.Items) {
						x.viol("not-restored", kind+"/pager", fmt.Sprintf("[%s] after the failure was switched off the same walk gives class %s, %d items; before it gave %d", adapter, again.Class, len(again.Items), len(whole.Items)), wit)
					}
				}
			}
		}
	}
}

// replayedTokens: TransactWriteItems is a data operation with a ClientRequestToken. A call that completed under a
// token, repeated with the SAME token (same actions, other actions) while a failure is active, fails with the
// configured error like a call with a fresh token or with none: nothing about an earlier call exempts a request
// from the failing database. After the failure is switched off the same calls succeed again.
func (p *c15) replayedTokens(x *res, adapter string) {
	spec := mon.SpecHashOnly("tbl15t")
	fails := []struct {
		name string
		on   adapt.Op
		want string
	}{{"internal_server", adapt.Op{Kind: adapt.OpEmulate, Fail: "internal_server"}, adapt.ClsInternal}, {"deprecated", adapt.Op{Kind: adapt.OpEmulate, Fail: "deprecated"}, adapt.ClsForced}, {"forceon", adapt.Op{Kind: adapt.OpForceOn}, adapt.ClsForced}}
	first := adapt.Op{Kind: adapt.OpTransact, Token: "token-1", Table: spec.Name, Item: val.Item{"h": val.Str("t1")}}
	replays := map[string]adapt.Op{
		"same-token-same-actions":  first,
		"same-token-other-actions": {Kind: adapt.OpTransact, Token: "token-1", Table: spec.Name, Item: val.Item{"h": val.Str("t2")}},
		"fresh-token":              {Kind: adapt.OpTransact, Token: "token-2", Table: spec.Name, Item: val.Item{"h": val.Str("t1")}},
		"no-token":                 {Kind: adapt.OpTransact, Table: spec.Name, Item: val.Item{"h": val.Str("t1")}},
	}
	for _, fl := range fails {
		for name, rp := range replays {
			cl, _, ds := freshClient(adapter, spec)
			if ds != nil {
				return
			}
			o0 := cl.Do(first)
			cl.Do(fl.on)
			o1 := cl.Do(rp)
			x.r.Evals += 2
			x.r.Counters["transactions_replayed_while_failing"]++
			x.fp(true, "%s|replayed-token|%s|%s", adapter, fl.name, name)
			wit := map[string]interface{}{"adapter": adapter, "failure": fl.name, "first": first, "first_outcome": o0, "replay": rp, "outcome": o1}
			if o0.Class != adapt.ClsOK {
				x.r.Counters["transactions_not_accepted"]++
				continue
			}
			if o1.Class != fl.want {
				x.viol("failure-class", "transact/"+name+"/"+fl.name, fmt.Sprintf("[%s] TransactWriteItems (%s) while %s is active: class %s (%s), want the configured error (%s)", adapter, name, fl.name, o1.Class, o1.Msg, fl.want), wit)
			}
		}
	}
}
