//go:build !verif

package props

func installHooks(f func(site string)) {}
