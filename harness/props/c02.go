package props

import (
	"fmt"
	"math/rand"
	"sort"
	"strings"

	"github.com/truora/minidyn/interpreter"
	mtypes "github.com/truora/minidyn/types"

	"verifharness/adapt"
	"verifharness/model"
	"verifharness/mon"
	"verifharness/refmodel"
	"verifharness/runner"
	"verifharness/val"
)

// C02 – Query and Scan return exactly the matching items, in sort-key order.
type c02 struct{ base }

func init() {
	runner.Register(&c02{base{id: "C02", level: "exploration",
		rule:        "per case: a table state reached by a seeded write history (<=18 keys over 3 partitions whose names share prefixes, sort keys that are prefixes of one another, 2 index-hash x 3 index-range values so ties are the norm), then a request matrix: every source {base, hash-only GSI, hash+range GSI, LSI} x every partition value incl. an absent one x sort-key condition {none,=,<,<=,>,>=,BETWEEN,begins_with} with boundary operands x filter {none, 2 typed random filters} x direction; plus Scans of every source with filters. Oracle: model set + non-decreasing/non-increasing sort key + Count=len(Items). non-trivial = result has >=2 items or excludes >=1 item of the addressed partition; distinct by (adapter, source, condition kind, filter skeleton, direction, result size class). Every tenth state is INDEX-HEAVY: twelve more indexes over the same four attributes, declared with the table or added one by one to the table that holds items (seventeen indexes in all); the reads go through the first ones. Reads selected by registered native matchers (key and filter; registered before CreateTable, after it, on the live table) return what the matcher accepts.",
		assumptions: commonAssumptions}})
}

func (p *c02) NumCases(tier string) int {
	if tier == "thorough" {
		return 8000
	}
	return 500
}

// typedFilter returns a well-typed filter over the ixSpec attributes (v:N, g,s,r,h:S).
func typedFilter(r *rand.Rand, values val.Item, tag string) *refmodel.Cond {
	nv := 0
	newVal := func(v val.V) refmodel.Operand {
		nv++
		n := fmt.Sprintf(":%s%d", tag, nv)
		values[n] = v
		return refmodel.Operand{Kind: "val", Val: n}
	}
	path := func(n string) refmodel.Operand {
		p := refmodel.P(n)
		if r.Intn(4) == 0 {
			p[0].Alias = "#f" + n
		}
		return refmodel.Operand{Kind: "path", Path: p}
	}
	var leaf func() *refmodel.Cond
	leaf = func() *refmodel.Cond {
		switch r.Intn(11) {
		case 0:
			return &refmodel.Cond{Op: "cmp", Cmp: mon.Pick(r, []string{"<", "<=", ">", ">=", "=", "<>"}), Args: []refmodel.Operand{path("v"), newVal(val.Num(fmt.Sprint(r.Intn(30))))}}
		case 1:
			return &refmodel.Cond{Op: "cmp", Cmp: mon.Pick(r, []string{"=", "<>"}), Args: []refmodel.Operand{path("g"), newVal(val.Str(mon.Pick(r, ixGPool)))}}
		case 2:
			return &refmodel.Cond{Op: mon.Pick(r, []string{"exists", "notexists"}), Args: []refmodel.Operand{path(mon.Pick(r, []string{"g", "s"}))}}
		case 3:
			return &refmodel.Cond{Op: "begins", Args: []refmodel.Operand{path("r"), newVal(val.Str(mon.Pick(r, []string{"1", "a", "ab", ""})))}}
		case 4:
			return &refmodel.Cond{Op: "cmp", Cmp: mon.Pick(r, []string{"<", "<=", ">", ">="}), Args: []refmodel.Operand{path(mon.Pick(r, []string{"s", "r"})), newVal(val.Str(mon.Pick(r, ixRangePool)))}}
		case 5:
			return &refmodel.Cond{Op: "in", Args: []refmodel.Operand{path("s"), newVal(val.Str(mon.Pick(r, ixSPool))), newVal(val.Str(mon.Pick(r, ixSPool)))}}
		case 6:
			a, b := r.Intn(20), r.Intn(20)
			if a > b {
				a, b = b, a
			}
			return &refmodel.Cond{Op: "between", Args: []refmodel.Operand{path("v"), newVal(val.Num(fmt.Sprint(a))), newVal(val.Num(fmt.Sprint(b)))}}
		case 7:
			return &refmodel.Cond{Op: "contains", Args: []refmodel.Operand{path("r"), newVal(val.Str(mon.Pick(r, []string{"a", "b", "1", "0"})))}}
		case 8:
			return &refmodel.Cond{Op: "type", Args: []refmodel.Operand{path(mon.Pick(r, []string{"g", "v"})), newVal(val.Str(mon.Pick(r, []string{"S", "N"})))}}
		default:
			// two document paths under ONE top-level attribute related to each other (different paths: different operands)
			deep := func(els ...interface{}) refmodel.Operand {
				p := refmodel.Path{}
				for _, e := range els {
					switch t := e.(type) {
					case string:
						p = append(p, refmodel.PathEl{Name: t})
					case int:
						p = append(p, refmodel.PathEl{IsIdx: true, Idx: t})
					}
				}
				if r.Intn(4) == 0 {
					p[0].Alias = "#f" + p[0].Name
				}
				return refmodel.Operand{Kind: "path", Path: p}
			}
			switch r.Intn(4) {
			case 0:
				return &refmodel.Cond{Op: "cmp", Cmp: mon.Pick(r, []string{"<", "<=", ">", ">=", "=", "<>"}), Args: []refmodel.Operand{deep("w", "lo"), deep("w", "hi")}}
			case 1:
				return &refmodel.Cond{Op: "cmp", Cmp: mon.Pick(r, []string{"<", ">=", "=", "<>"}), Args: []refmodel.Operand{deep("pl", 0), deep("pl", 1)}}
			case 2:
				return &refmodel.Cond{Op: "between", Args: []refmodel.Operand{deep("w", "lo"), deep("pl", 0), deep("w", "hi")}}
			default:
				return &refmodel.Cond{Op: "in", Args: []refmodel.Operand{deep("w", "hi"), deep("w", "lo"), deep("pl", 1), newVal(val.Num("3"))}}
			}
		}
	}
	not := func(c *refmodel.Cond) *refmodel.Cond { return &refmodel.Cond{Op: "not", Kids: []*refmodel.Cond{c}} }
	bin := func(op string, a, b *refmodel.Cond) *refmodel.Cond { return &refmodel.Cond{Op: op, Kids: []*refmodel.Cond{a, b}} }
	switch r.Intn(9) {
	case 0:
		return bin("and", leaf(), leaf())
	case 1:
		return bin("or", leaf(), leaf())
	case 2:
		return not(leaf())
	case 3:
		// the three logical operators mixed WITHOUT parentheses (the renderer writes only the parentheses the tree
		// needs): what a filter selects then depends on NOT binding tighter than AND and AND tighter than OR
		return mon.Pick(r, []func() *refmodel.Cond{
			func() *refmodel.Cond { return bin("and", not(leaf()), leaf()) },                 // NOT x AND y
			func() *refmodel.Cond { return bin("and", bin("and", leaf(), not(leaf())), leaf()) }, // x AND NOT y AND z
			func() *refmodel.Cond { return bin("or", not(leaf()), leaf()) },                  // NOT x OR y
			func() *refmodel.Cond { return bin("or", leaf(), bin("and", leaf(), leaf())) },   // x OR y AND z
			func() *refmodel.Cond { return bin("or", bin("and", leaf(), leaf()), leaf()) },   // x AND y OR z
			func() *refmodel.Cond { return bin("and", bin("or", leaf(), leaf()), leaf()) },   // (x OR y) AND z
			func() *refmodel.Cond { return not(bin("and", leaf(), leaf())) },                 // NOT (x AND y)
			func() *refmodel.Cond { return bin("or", bin("and", not(leaf()), leaf()), not(leaf())) },
			func() *refmodel.Cond { return not(not(leaf())) },
		})()
	}
	return leaf()
}

type source struct {
	index    string
	hashAttr string
	hashPool []string
	rngAttr  string
	rngPool  []string
}

// c02Sources lists the readable sources of the shared table shape with the CURRENT value pools.
func c02Sources() []source {
	return []source{
		{"", "h", append(append([]string{}, ixHashPool...), "zz"), "r", ixRangePool},
		{"gsi1", "g", append(append([]string{}, ixGPool...), "zz"), "", nil},
		{"gsi2", "g", append(append([]string{}, ixGPool...), "zz"), "s", ixSPool},
		{"lsi1", "h", append(append([]string{}, ixHashPool...), "zz"), "s", ixSPool},
		{"lsi2", "h", append(append([]string{}, ixHashPool...), "zz"), "g", ixGPool},
		{"gsi4", "r", []string{ixRangePool[0], ixRangePool[1], ixRangePool[3], "zz"}, "h", ixHashPool},
	}
}

var sortConds = []string{"none", "=", "<", "<=", ">", ">=", "between", "begins"}

func sortKeyCond(kind, attr string, pool []string, r *rand.Rand, values val.Item) *refmodel.Cond {
	p := refmodel.Operand{Kind: "path", Path: refmodel.P(attr)}
	switch kind {
	case "none":
		return nil
	case "between":
		a, b := mon.Pick(r, pool), mon.Pick(r, pool)
		if a > b {
			a, b = b, a
		}
		if ixTypes[attr] != "" {
			// typed sort keys are ordered by value / by bytes, not by the pool texts
			va, vb := ixV(attr, a), ixV(attr, b)
			swap := va.Str > vb.Str // binaries: byte order
			if va.K == val.KN {
				swap = val.MustDec(va.Str).Cmp(val.MustDec(vb.Str)) > 0
			}
			if swap {
				a, b = b, a
			}
		}
		values[":lo"], values[":hi"] = ixV(attr, a), ixV(attr, b)
		return &refmodel.Cond{Op: "between", Args: []refmodel.Operand{p, {Kind: "val", Val: ":lo"}, {Kind: "val", Val: ":hi"}}}
	case "begins":
		if ixTypes[attr] == "N" {
			return nil // begins_with is defined for strings and binaries only
		}
		pres := []string{"1", "a", "ab", "9", "b", "\U0001F44D"}
		if ixBig {
			// prefixes of the scaled pools: a whole pool member, all but its last byte, a 64-byte prefix of the long ones
			m := mon.Pick(r, pool)
			pres = append(pres, m, m[:len(m)-1], "é", "é1", "\U0001F44D", "\uffff")
			if len(m) > 64 {
				pres = append(pres, m[:64])
			}
		}
		values[":pre"] = ixV(attr, mon.Pick(r, pres))
		return &refmodel.Cond{Op: "begins", Args: []refmodel.Operand{p, {Kind: "val", Val: ":pre"}}}
	}
	values[":sk"] = ixV(attr, mon.Pick(r, append(append([]string{}, pool...), "5", "aa")))
	return &refmodel.Cond{Op: "cmp", Cmp: kind, Args: []refmodel.Operand{p, {Kind: "val", Val: ":sk"}}}
}

// buildState replays a random write history on a fresh client + model.
func buildState(r *rand.Rand, adapter string, spec adapt.TableSpec, n int, ctx *runner.Ctx, x *res) (adapt.Client, *model.Client, []adapt.Op, bool) {
	// the state is built next to a COMPANION table of the same client (modelled, written in between) and a
	// same-named table of a SECOND client (other contents): nothing of either may show in what is read afterwards
	companion := ixSpec("cmp"+spec.Name[3:], true)
	cl, m, ds := freshClient(adapter, spec, companion)
	if ds != nil {
		x.viol("setup", "create", ds[0].Detail, spec)
		return nil, nil, nil, false
	}
	shadow := adapt.New(adapter)
	shadow.Do(createOp(spec))
	ops := []adapt.Op{}
	// a quarter of the states are "lived-in": the table is cleared somewhere in the history and refilled; a
	// sixth lose and regain an index (UpdateTable delete + create, i.e. a backfill) - what is read afterwards
	// must not depend on what the table or the index held before
	clearAt, reindexAt := -1, -1
	if n > 4 && r.Intn(4) == 0 {
		clearAt = 2 + r.Intn(n-3)
	}
	if n > 4 && len(spec.Indexes) > 0 && r.Intn(6) == 0 {
		reindexAt = 2 + r.Intn(n-3)
	}
	for i := 0; i < n; i++ {
		if i == clearAt {
			ops = append(ops, adapt.Op{Kind: adapt.OpClearTable, Table: spec.Name})
		}
		if i == reindexAt {
			var ix *adapt.IndexSpec
			for k := range spec.Indexes {
				if !spec.Indexes[k].Local {
					c := spec.Indexes[k]
					ix = &c
					if r.Intn(2) == 0 {
						break
					}
				}
			}
			if ix != nil {
				ops = append(ops, adapt.Op{Kind: adapt.OpUpdateTable, Table: spec.Name, Chg: []adapt.IndexChange{{Delete: ix.Name}}},
					adapt.Op{Kind: adapt.OpUpdateTable, Table: spec.Name, Chg: []adapt.IndexChange{{Create: ix}}})
			}
		}
		ops = append(ops, ixRandomWrite(r, spec.Name, i))
		if r.Intn(3) == 0 {
			ops = append(ops, ixRandomWrite(r, companion.Name, 500+i))
		}
		if r.Intn(3) == 0 {
			shadow.Do(ixRandomWrite(r, spec.Name, 900+i))
		}
		if i == clearAt+1 && r.Intn(2) == 0 {
			ops = append(ops, adapt.Op{Kind: adapt.OpClearTable, Table: companion.Name})
		}
	}
	st := &mon.HistoryStats{}
	if f := mon.RunHistory(cl, m, ops, mon.KeyLog{}, false, nil, ctx.Trace, st); f != nil {
		x.failureViolation(adapter, f, spec)
		return nil, nil, nil, false
	}
	x.r.Evals += st.Calls
	return cl, m, ops, true
}

func sizeClass(n int) string {
	switch {
	case n == 0:
		return "0"
	case n == 1:
		return "1"
	case n < 4:
		return "2-3"
	case n < 17:
		return "4-16"
	case n < 65:
		return "17-64"
	}
	return "65+"
}

func (p *c02) RunCase(ctx *runner.Ctx) runner.CaseResult {
	x := newRes()
	r := mon.Rng(ctx.Seed, "C02", ctx.Case)
	adapter := adapt.Adapters[ctx.Case%2]
	if ctx.Case%5 == 4 {
		p.hashOnly(x, r, adapter, ctx)
		if ctx.Case < 10 {
			p.nativeSelections(x, adapter)
		}
		return x.r
	}
	spec := ixSpec("tbl02", true)
	nWrites := 15 + r.Intn(30)
	if ctx.Case%4 == 2 {
		// typed keys: number / binary sort key, index keys and sometimes partition key (see useTypedPools)
		defer useTypedPools(r)()
		spec = ixSpec("tbl02", true)
		x.r.Counters["typed_key_states"]++
		x.set("key_types", fmt.Sprintf("h=%s r=%s g=%s s=%s", ixTypes["h"], ixTypes["r"], ixTypes["g"], ixTypes["s"]))
	}
	if ctx.Case%20 == 7 {
		// scaled state: hundreds of writes over 40-260 sort keys per partition (see useBigPools)
		defer useBigPools(r)()
		nWrites = 2*len(ixRangePool) + r.Intn(60)
		x.r.Counters["scaled_states"]++
	}
	// index-heavy tables ("single table design": DynamoDB allows 20 global and 5 local indexes per table): twelve more
	// indexes over the same four attributes, declared with the table (case 3 of 20) or added one by one to the
	// table that already holds items, with writes in between (case 13 of 20) - seventeen in all. Reads through the
	// FIRST indexes (the ones every request below uses) are what they are on a table with five
	extras := []adapt.IndexSpec{}
	if ctx.Case%20 == 3 || ctx.Case%20 == 13 {
		for i, kk := range [][2]string{{"s", ""}, {"s", "g"}, {"g", "r"}, {"s", "r"}, {"g", "h"}, {"s", "h"}, {"r", ""}, {"r", "g"}, {"r", "s"}, {"h", "g"}, {"h", ""}, {"h", "s"}} {
			ix := adapt.IndexSpec{Name: fmt.Sprintf("gsx%d", i), Hash: kk[0], HashT: ixTypes[kk[0]]}
			if kk[1] != "" {
				ix.Range, ix.RangeT = kk[1], ixTypes[kk[1]]
			}
			extras = append(extras, ix)
		}
		x.r.Counters["index_heavy_tables"]++
	}
	if ctx.Case%20 == 3 {
		spec.Indexes = append(spec.Indexes, extras...)
	}
	cl, m, hist, ok := buildState(r, adapter, spec, nWrites, ctx, x)
	if !ok {
		return x.r
	}
	if ctx.Case%20 == 13 {
		more := []adapt.Op{}
		for i := 0; i < len(extras); {
			// (one, two or three indexes per UpdateTable request: every one of them is filled from the items the table holds)
			chg := []adapt.IndexChange{}
			for k := 1 + r.Intn(3); k > 0 && i < len(extras); k, i = k-1, i+1 {
				chg = append(chg, adapt.IndexChange{Create: &extras[i]})
			}
			if len(chg) > 1 {
				x.r.Counters["updatetable_requests_creating_several_indexes"]++
			}
			more = append(more, adapt.Op{Kind: adapt.OpUpdateTable, Table: spec.Name, Chg: chg}, ixRandomWrite(r, spec.Name, 300+2*i), ixRandomWrite(r, spec.Name, 301+2*i))
		}
		keys := mon.KeyLog{}
		for _, it := range m.Tables[spec.Name].Items {
			keys.Add(spec.Name, m.Tables[spec.Name].KeyOf(it))
		}
		if f := mon.RunHistory(cl, m, more, keys, true, nil, ctx.Trace, &mon.HistoryStats{}); f != nil {
			f.Prefix = append(append([]adapt.Op{}, hist...), f.Prefix...)
			x.failureViolation(adapter, f, spec)
			return x.r
		}
		hist = append(hist, more...)
	}
	t := m.Tables[spec.Name]
	check := func(op adapt.Op, fpKind string) bool {
		ctx.Trace("%s %s", adapter, op.String())
		got := cl.Do(op)
		x.r.Evals++
		if _, definite, _ := t.Expected(op); definite {
			x.r.Counters["requests_with_definite_oracle"]++
		} else {
			x.r.Counters["requests_oracle_undecided"]++
		}
		x.r.Counters["items_returned"] += len(got.Items)
		ds := m.Step(op, got)
		if len(ds) > 0 {
			f := &mon.Failure{Step: len(hist), Phase: "result", Diffs: ds, Op: op, Got: got.Short(), Prefix: append(append([]adapt.Op{}, hist...), op)}
			x.failureViolation(adapter, f, spec)
			return false
		}
		// non-triviality: >= 2 items, or excludes an item of the addressed partition
		nt := len(got.Items) >= 2
		if !nt && op.Kind == adapt.OpQuery {
			src, _ := t.Source(op.Index)
			part := 0
			for _, it := range src {
				if keyCondHashOnly(op).Eval(it, op.Values) == refmodel.T {
					part++
				}
			}
			nt = part > len(got.Items)
		}
		x.fp(nt, "%s|%s|%s", adapter, fpKind, sizeClass(len(got.Items)))
		x.set("result_size_classes", sizeClass(len(got.Items)))
		// "everything after this key": the same base-table query with an ExclusiveStartKey the caller built himself -
		// a key that names NO stored item, just above one of the returned items - returns exactly the items of the
		// full result (judged above) that are positioned after that key in the direction of the read
		if op.Kind == adapt.OpQuery && op.Index == "" && op.Limit == 0 && len(got.Items) >= 2 && r.Intn(3) == 0 {
			attr, kind := t.SortAttr("")
			pivot := got.Items[r.Intn(len(got.Items))]
			if pv, ok := pivot[attr]; ok && attr != "" && pv.K == kind {
				start := val.Item{t.Spec.Hash: pivot[t.Spec.Hash]}
				switch kind {
				case val.KN:
					if d, err := val.ParseDec(pv.Str); err == nil {
						start[attr] = val.Num(d.Add(val.MustDec("0.5")).Plain())
					}
				default:
					start[attr] = val.V{K: kind, Str: pv.Str + "!"}
				}
				if _, has := start[attr]; has {
					if kc, kok := t.KeyCanon(start); kok {
						if _, stored := t.Items[kc]; !stored {
							want := []val.Item{}
							for _, it := range got.Items {
								c := model.CompareSort(it, start, attr, kind)
								if (!op.Rev && c > 0) || (op.Rev && c < 0) {
									want = append(want, it)
								}
							}
							q := op
							q.Start = start
							g2 := cl.Do(q)
							x.r.Evals++
							x.r.Counters["queries_from_a_key_that_is_not_stored"]++
							if g2.Class != adapt.ClsOK || adapt.ItemsCanon(g2.Items) != adapt.ItemsCanon(want) {
								x.viol("query-from-unstored-start-key", fmt.Sprintf("rev=%v", op.Rev), fmt.Sprintf("[%s] %s with ExclusiveStartKey %s (not a stored item): class %s items %s; the items of the full result after that key are %s", adapter, op.String(), start.Canon(), g2.Class, adapt.ItemsCanon(g2.Items), adapt.ItemsCanon(want)),
									map[string]interface{}{"adapter": adapter, "spec": spec, "history": hist, "query": q, "full_result": got.Items, "got": g2.Items})
								return false
							}
						}
					}
				}
			}
		}
		return true
	}
	for _, src := range c02Sources() {
		for _, hv := range src.hashPool {
			kinds := sortConds
			if src.rngAttr == "" {
				kinds = sortConds[:1]
			}
			for _, sk := range kinds {
				for fi := 0; fi < 3; fi++ {
					for _, rev := range []bool{false, true} {
						if fi > 0 && rev && r.Intn(2) == 0 {
							continue
						}
						values := val.Item{":h": ixV(src.hashAttr, hv)}
						kc := keyCondEq(src.hashAttr, ":h")
						if sc := sortKeyCond(sk, src.rngAttr, src.rngPool, r, values); sc != nil {
							if r.Intn(4) == 0 {
								kc = &refmodel.Cond{Op: "and", Kids: []*refmodel.Cond{sc, kc}}
							} else {
								kc = &refmodel.Cond{Op: "and", Kids: []*refmodel.Cond{kc, sc}}
							}
						}
						var flt *refmodel.Cond
						fsk := "nofilter"
						if fi > 0 {
							flt = typedFilter(r, values, "f")
							fsk = flt.Skeleton()
						}
						rr := refmodel.RenderOpts{}
						if r.Intn(3) == 0 {
							rr.Rng = r
						}
						op := queryOp(spec.Name, src.index, kc, flt, values, rev, rr)
						// read consistency is a request option that never changes WHAT is returned: strongly consistent reads
						// of the table and of its local indexes (a global index only has eventually consistent reads, which
						// is not asked for here), and the explicit "false" anywhere
						switch {
						case r.Intn(4) == 0 && (src.index == "" || strings.HasPrefix(src.index, "lsi")):
							op.Consistent = true
						case r.Intn(4) == 0:
							op.ConsistentFalse = true
						}
						if !check(op, fmt.Sprintf("query|%s|%s|%s|%v", src.index, sk, fsk, rev)) {
							return x.r
						}
					}
				}
			}
		}
		// scans
		for fi := 0; fi < 4; fi++ {
			values := val.Item{}
			var flt *refmodel.Cond
			fsk := "nofilter"
			if fi > 0 {
				flt = typedFilter(r, values, "s")
				fsk = flt.Skeleton()
			}
			op := scanOp(spec.Name, src.index, flt, values, refmodel.RenderOpts{})
			switch {
			case fi%2 == 1 && (src.index == "" || strings.HasPrefix(src.index, "lsi")):
				op.Consistent = true
			case fi == 2:
				op.ConsistentFalse = true
			}
			if !check(op, fmt.Sprintf("scan|%s|%s", src.index, fsk)) {
				return x.r
			}
		}
	}
	if ctx.Case < 2 {
		x.r.Sample = map[string]interface{}{"adapter": adapter, "state_items": len(t.Items), "history_len": len(hist),
			"example_request": queryOp(spec.Name, "gsi2", &refmodel.Cond{Op: "and", Kids: []*refmodel.Cond{keyCondEq("g", ":h"), keyCondEq("s", ":sk")}}, nil, val.Item{":h": val.Str("x"), ":sk": val.Str("10")}, true, refmodel.RenderOpts{})}
	}
	return x.r
}

// keyCondHashOnly extracts the partition equality of a query's key condition.
func keyCondHashOnly(op adapt.Op) *refmodel.Cond {
	c := op.KeyAST
	if c.Op == "and" {
		for _, k := range c.Kids {
			if k.Op == "cmp" && k.Cmp == "=" && k.Args[1].Val == ":h" {
				return k
			}
		}
	}
	return c
}

// hashOnly: the same request matrix on a hash-only base table with a hash-only GSI and a
// hash+range GSI (Query on the base table returns at most one item; index partitions hold several).
func (p *c02) hashOnly(x *res, r *rand.Rand, adapter string, ctx *runner.Ctx) {
	spec := adapt.TableSpec{Name: "tbh02", Hash: "h", Billing: "PAY_PER_REQUEST", Indexes: []adapt.IndexSpec{{Name: "gsi1", Hash: "g"}, {Name: "gsi2", Hash: "g", Range: "s"}, {Name: "gsi5", Hash: "s", Range: "h"}}}
	cl, m, ds := freshClient(adapter, spec)
	if ds != nil {
		x.viol("setup", "create", ds[0].Detail, spec)
		return
	}
	hist := []adapt.Op{}
	hpool := []string{"p", "p.q", "pq", "q", "1", "10", "9"}
	for i := 0; i < 10+r.Intn(25); i++ {
		key := val.Item{"h": val.Str(mon.Pick(r, hpool))}
		switch r.Intn(8) {
		case 0, 1, 2, 3:
			it := ixItem(key["h"].Str, "", maybe(r, ixGPool, 25), maybe(r, ixSPool, 25), i)
			delete(it, "r")
			hist = append(hist, adapt.Op{Kind: adapt.OpPut, Table: spec.Name, Item: it})
		case 4:
			hist = append(hist, mon.SetUpdate(spec.Name, key, mon.Pick(r, []string{"g", "s"}), val.Str(mon.Pick(r, []string{"x", "y", "1", "10"}))))
		case 5:
			hist = append(hist, mon.RemoveUpdate(spec.Name, key, mon.Pick(r, []string{"g", "s"})))
		default:
			hist = append(hist, adapt.Op{Kind: adapt.OpDelete, Table: spec.Name, Key: key})
		}
	}
	st := &mon.HistoryStats{}
	if f := mon.RunHistory(cl, m, hist, mon.KeyLog{}, false, nil, ctx.Trace, st); f != nil {
		x.failureViolation(adapter, f, spec)
		return
	}
	x.r.Evals += st.Calls
	srcs := []source{{"", "h", append(append([]string{}, hpool...), "zz"), "", nil}, {"gsi1", "g", []string{"x", "y", "zz"}, "", nil}, {"gsi2", "g", []string{"x", "y", "1"}, "s", ixSPool}, {"gsi5", "s", []string{"1", "10", "9", "x"}, "h", hpool}}
	for _, src := range srcs {
		for _, hv := range src.hashPool {
			kinds := sortConds
			if src.rngAttr == "" {
				kinds = sortConds[:1]
			}
			for _, sk := range kinds {
				for _, rev := range []bool{false, true} {
					values := val.Item{":h": val.Str(hv)}
					kc := keyCondEq(src.hashAttr, ":h")
					if sc := sortKeyCond(sk, src.rngAttr, src.rngPool, r, values); sc != nil {
						kc = &refmodel.Cond{Op: "and", Kids: []*refmodel.Cond{kc, sc}}
					}
					var flt *refmodel.Cond
					if r.Intn(3) == 0 {
						flt = typedFilter(r, values, "f")
					}
					op := queryOp(spec.Name, src.index, kc, flt, values, rev, refmodel.RenderOpts{})
					got := cl.Do(op)
					x.r.Evals++
					x.r.Counters["hash_only_table_requests"]++
					if ds := m.Step(op, got); len(ds) > 0 {
						f := &mon.Failure{Step: len(hist), Phase: "result", Diffs: ds, Op: op, Got: got.Short(), Prefix: append(append([]adapt.Op{}, hist...), op)}
						x.failureViolation(adapter, f, spec)
						return
					}
					x.fp(len(got.Items) >= 2, "%s|hashonly|%s|%s|%v|%s", adapter, src.index, sk, rev, sizeClass(len(got.Items)))
				}
			}
		}
		op := scanOp(spec.Name, src.index, nil, nil, refmodel.RenderOpts{})
		got := cl.Do(op)
		x.r.Evals++
		if ds := m.Step(op, got); len(ds) > 0 {
			f := &mon.Failure{Step: len(hist), Phase: "result", Diffs: ds, Op: op, Got: got.Short(), Prefix: append(append([]adapt.Op{}, hist...), op)}
			x.failureViolation(adapter, f, spec)
			return
		}
	}
}

// nativeSelections: with the native interpreter active, a Query / Scan whose key condition or filter is served by a
// registered Go matcher returns exactly the items the matcher accepts - whether the matcher was registered before the
// table existed, between CreateTable and the first item, or on the live table through GetNativeInterpreter()
// (the documented way), on the base table and through an index.
func (p *c02) nativeSelections(x *res, adapter string) {
	spec := adapt.TableSpec{Name: "tbl02n", Hash: "h", Range: "r", Billing: "PAY_PER_REQUEST", Indexes: []adapt.IndexSpec{{Name: "gsi1", Hash: "g"}}}
	items := []val.Item{}
	for i, v := range []string{"keep", "drop", "keep", "drop", "keep"} {
		items = append(items, val.Item{"h": val.Str([]string{"p", "q"}[i%2]), "r": val.Str(fmt.Sprint(i)), "g": val.Str("x"), "v": val.Str(v)})
	}
	str := func(it map[string]*mtypes.Item, a string) string {
		if it[a] == nil || it[a].S == nil {
			return ""
		}
		return *it[a].S
	}
	register := func(n *interpreter.Native) {
		n.AddMatcher(spec.Name, interpreter.ExpressionTypeFilter, "KEEP :x", func(it map[string]*mtypes.Item, _ map[string]*mtypes.Item) bool { return str(it, "v") == "keep" })
		n.AddMatcher(spec.Name, interpreter.ExpressionTypeKey, "PARTITION :x", func(it map[string]*mtypes.Item, vs map[string]*mtypes.Item) bool { return str(it, "h") == str(vs, ":x") })
		n.AddMatcher(spec.Name, interpreter.ExpressionTypeKey, "INDEXED :x", func(it map[string]*mtypes.Item, vs map[string]*mtypes.Item) bool { return str(it, "g") == str(vs, ":x") })
	}
	for _, when := range []string{"before-create", "after-create", "on-the-live-table"} {
		cl := adapt.New(adapter)
		nc := nativeOf(cl)
		nc.activate()
		if when == "before-create" {
			register(nc.getInterp())
		}
		cl.Do(createOp(spec))
		if when == "after-create" {
			register(nc.getInterp())
		}
		for _, it := range items {
			cl.Do(adapt.Op{Kind: adapt.OpPut, Table: spec.Name, Item: it})
		}
		if when == "on-the-live-table" {
			register(nc.getInterp())
		}
		reads := []struct {
			name string
			op   adapt.Op
			want func(val.Item) bool
		}{
			{"scan+filter", adapt.Op{Kind: adapt.OpScan, Table: spec.Name, Filter: "KEEP :x", Values: val.Item{":x": val.Str("p")}}, func(it val.Item) bool { return it["v"].Str == "keep" }},
			{"query", adapt.Op{Kind: adapt.OpQuery, Table: spec.Name, KeyCnd: "PARTITION :x", Values: val.Item{":x": val.Str("p")}}, func(it val.Item) bool { return it["h"].Str == "p" }},
			{"query+filter", adapt.Op{Kind: adapt.OpQuery, Table: spec.Name, KeyCnd: "PARTITION :x", Filter: "KEEP :x", Values: val.Item{":x": val.Str("q")}}, func(it val.Item) bool { return it["h"].Str == "q" && it["v"].Str == "keep" }},
			{"index-query+filter", adapt.Op{Kind: adapt.OpQuery, Table: spec.Name, Index: "gsi1", KeyCnd: "INDEXED :x", Filter: "KEEP :x", Values: val.Item{":x": val.Str("x")}}, func(it val.Item) bool { return it["v"].Str == "keep" }},
		}
		for _, rd := range reads {
			got := cl.Do(rd.op)
			x.r.Evals++
			x.r.Counters["reads_selected_by_registered_matchers"]++
			x.fp(true, "%s|native-selection|%s|%s", adapter, when, rd.name)
			want := []string{}
			for _, it := range items {
				if rd.want(it) {
					want = append(want, it.Canon())
				}
			}
			have := []string{}
			for _, it := range got.Items {
				have = append(have, it.Canon())
			}
			sort.Strings(want)
			sort.Strings(have)
			wit := map[string]interface{}{"adapter": adapter, "matchers_registered": when, "request": rd.op, "outcome": got}
			switch {
			case got.Class == adapt.ClsRuntime:
				x.viol("runtime-panic", got.Site, fmt.Sprintf("[%s] %s served by registered matchers: panic %s", adapter, rd.name, got.Msg), wit)
			case got.Class != adapt.ClsOK || strings.Join(have, "|") != strings.Join(want, "|"):
				x.viol("search-not-as-the-matcher-selects", rd.name+"/"+when, fmt.Sprintf("[%s] %s with matchers registered %s: class %s (%s), items %v; the registered matchers accept %v", adapter, rd.name, when, got.Class, got.Msg, have, want), wit)
			}
		}
	}
}
