package props

import (
	"math/rand"

	v1ddb "github.com/aws/aws-sdk-go/service/dynamodb"
	v2types "github.com/aws/aws-sdk-go-v2/service/dynamodb/types"
	"github.com/truora/minidyn/interpreter"

	v1client "github.com/truora/minidyn/aws-v1/client"
	v2client "github.com/truora/minidyn/aws-v2/client"

	"verifharness/adapt"
	"verifharness/refmodel"
)

var notExistsH = &refmodel.Cond{Op: "notexists", Args: []refmodel.Operand{{Kind: "path", Path: refmodel.P("h")}}}

// helperCallsImpl exercises the exported helpers that are not data operations.
func helperCallsImpl(cl adapt.Client, r *rand.Rand) {
	switch c := cl.Raw().(type) {
	case *v1client.Client:
		switch r.Intn(5) {
		case 0:
			c.ActivateDebug()
		case 1:
			c.ActivateNativeInterpreter()
		case 2:
			c.SetInterpreter(interpreter.NewNativeInterpreter())
		case 3:
			_ = c.GetNativeInterpreter()
		default:
			v1client.SetItemCollectionMetrics(c, map[string][]*v1ddb.ItemCollectionMetrics{})
		}
	case *v2client.Client:
		switch r.Intn(5) {
		case 0:
			c.ActivateDebug()
		case 1:
			c.ActivateNativeInterpreter()
		case 2:
			c.SetInterpreter(interpreter.NewNativeInterpreter())
		case 3:
			_ = c.GetNativeInterpreter()
		default:
			v2client.SetItemCollectionMetrics(c, map[string][]v2types.ItemCollectionMetrics{})
		}
	}
}
