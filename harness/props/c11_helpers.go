package props

import (
	"math/rand"

	v1ddb "github.com/aws/aws-sdk-go/service/dynamodb"
	v2types "github.com/aws/aws-sdk-go-v2/service/dynamodb/types"
	"github.com/truora/minidyn/interpreter"

	v1client "github.com/truora/minidyn/aws-v1/client"
	v2client "github.com/truora/minidyn/aws-v2/client"

	"verifharness/adapt"
	"verifharness/refmodel"
)

var notExistsH = &refmodel.Cond{Op: "notexists", Args: []refmodel.Operand{{Kind: "path", Path: refmodel.P("h")}}}

// helperCallsImpl exercises the exported helpers that are not data operations.
func helperCallsImpl(cl adapt.Client, r *rand.Rand) {
	switch c := cl.Raw().(type) {
	case *v1client.Client:
		switch r.Intn(5) {
		case 0:
			c.ActivateDebug()
		case 1:
			c.ActivateNativeInterpreter()
		case 2:
			c.SetInterpreter(interpreter.NewNativeInterpreter())
		case 3:
			_ = c.GetNativeInterpreter()
		default:
			// empty, or with entries for the tables the workloads use (what a test that checks the metrics sets up)
			m := map[string][]*v1ddb.ItemCollectionMetrics{}
			if r.Intn(2) == 0 {
				for _, t := range []string{"tba", "tbb", "tb.c_2-x", "tbl11"} {
					if r.Intn(2) == 0 {
						m[t] = []*v1ddb.ItemCollectionMetrics{{SizeEstimateRangeGB: []*float64{new(float64)}}}
					}
				}
			}
			v1client.SetItemCollectionMetrics(c, m)
		}
	case *v2client.Client:
		switch r.Intn(5) {
		case 0:
			c.ActivateDebug()
		case 1:
			c.ActivateNativeInterpreter()
		case 2:
			c.SetInterpreter(interpreter.NewNativeInterpreter())
		case 3:
			_ = c.GetNativeInterpreter()
		default:
			m := map[string][]v2types.ItemCollectionMetrics{}
			if r.Intn(2) == 0 {
				for _, t := range []string{"tba", "tbb", "tb.c_2-x", "tbl11"} {
					if r.Intn(2) == 0 {
						m[t] = []v2types.ItemCollectionMetrics{{SizeEstimateRangeGB: []float64{0}}}
					}
				}
			}
			v2client.SetItemCollectionMetrics(c, m)
		}
	}
}
