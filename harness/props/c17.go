package props

import (
	"encoding/json"
	"fmt"
	"github.com/truora/minidyn/interpreter"
	mtypes "github.com/truora/minidyn/types"
	"sort"
	"strings"

	"verifharness/adapt"
	"verifharness/model"
	"verifharness/mon"
	"verifharness/refmodel"
	"verifharness/runner"
	"verifharness/val"
)

// C17 – the SDK v1 and SDK v2 clients are behaviourally equivalent.
type c17 struct{ base }

func init() {
	runner.Register(&c17{base{id: "C17", level: "exploration",
		rule:        "seeded abstract histories of 80 operations (table management with all configurations, single-item writes with and without conditions, updates of all four action kinds, reads, Query/Scan with filters, limits and pagination keys on base tables and indexes, batch writes, failure toggles, helper calls) translated to both SDKs and executed in lock step on a fresh SDK v1 and a fresh SDK v2 client: after EVERY step the normalised outcomes must be equal (error class, returned item, item sequence, Count, LastEvaluatedKey, table description incl. per-index schema and ItemCount, UnprocessedItems). The oracle is the other adapter – no model. Plus a small enumeration of requests with missing / too short required fields. Operations only one adapter implements (BatchGetItem) are excluded. non-trivial = history has >=10 successful data operations and >=1 failing one; distinct by (op-kind sequence). Billing switches: 12 sequences (table mode x BillingMode requested by UpdateTable x index creation with / without throughput) of UpdateTable, describe, a second index creation without throughput, put and index scans, compared step by step. Two-defect batches (a missing table and a malformed key in one BatchWriteItem, 30 repetitions on fresh clients): one class, the same in both clients; table names outside [a-zA-Z0-9_.-] and of 255 / 256 characters.",
		assumptions: []string{"oracle = the other adapter; equal outcomes can still both be wrong (C01-C16, C18-C19 decide that)", commonAssumptions[1]}}})
}

func (p *c17) NumCases(tier string) int {
	if tier == "thorough" {
		return 60000 + 1
	}
	return 8000 + 1
}

func outcomeCanon(o adapt.Outcome) string {
	var sb strings.Builder
	fmt.Fprintf(&sb, "class=%s", o.Class)
	if o.Item != nil {
		fmt.Fprintf(&sb, " item=%s", o.Item.Canon())
	}
	if o.Items != nil || o.Count != 0 {
		fmt.Fprintf(&sb, " items=%s count=%d", adapt.ItemsCanon(o.Items), o.Count)
	}
	if o.LastKey != nil {
		fmt.Fprintf(&sb, " lastkey=%s", o.LastKey.Canon())
	}
	if o.Desc != nil {
		b, _ := json.Marshal(o.Desc)
		fmt.Fprintf(&sb, " desc=%s", b)
	}
	if len(o.Unproc) > 0 {
		parts := []string{}
		for _, e := range o.Unproc {
			s := e.Table + ":"
			if e.Put != nil {
				s += "put" + e.Put.Canon()
			}
			if e.Del != nil {
				s += "del" + e.Del.Canon()
			}
			parts = append(parts, s)
		}
		sort.Strings(parts)
		fmt.Fprintf(&sb, " unprocessed=%v", parts)
	}
	if o.HasCCF {
		fmt.Fprintf(&sb, " ccf=%s", o.CCFItem.Canon())
	}
	return sb.String()
}

func whatDiffers(a, b adapt.Outcome) string {
	switch {
	case a.Class != b.Class:
		return "class"
	case !val.ItemsEqual(a.Item, b.Item):
		return "item"
	case adapt.ItemsCanon(a.Items) != adapt.ItemsCanon(b.Items):
		if adapt.ItemsSetCanon(a.Items) == adapt.ItemsSetCanon(b.Items) {
			return "item-order"
		}
		return "items"
	case a.Count != b.Count:
		return "count"
	case !val.ItemsEqual(a.LastKey, b.LastKey):
		return "lastkey"
	case (a.Desc == nil) != (b.Desc == nil):
		return "description-presence"
	}
	return "description-or-unprocessed"
}

func (p *c17) RunCase(ctx *runner.Ctx) runner.CaseResult {
	x := newRes()
	if ctx.Case == 0 {
		p.requiredFields(x, ctx)
		p.nativeParity(x, ctx)
		p.billingSwitches(x, ctx)
		p.twoDefectBatches(x, ctx)
		return x.r
	}
	r := mon.Rng(ctx.Seed, "C17", ctx.Case)
	c1, c2 := adapt.New("v1"), adapt.New("v2")
	m := model.New() // only steers the generator (which tables exist); never a verdict here
	w := opWeights{mgmt: 4, helpers: 2, data: 10, search: 4, batch: 2, fail: 2, noBatchGet: true}
	hist := []adapt.Op{}
	shape := []string{}
	okData, failing := 0, 0
	var lastKeyOp *adapt.Op
	for i := 0; i < 80; i++ {
		op := genOp(r, m, w, i)
		// variations the generic generator does not produce: conditions, limits, pagination
		switch op.Kind {
		case adapt.OpPut, adapt.OpDelete:
			if r.Intn(3) == 0 {
				v := val.Item{}
				op = mon.WithCond(op, c05Cond(r, v), v, rrCanon)
			}
		case adapt.OpUpdate:
			if r.Intn(3) == 0 {
				v := val.Item{}
				op = mon.WithCond(op, c05Cond(r, v), v, rrCanon)
				op.RetCCF = false
			}
		case adapt.OpBatchWrite:
			// some batches carry a request that cannot be applied (unknown table, malformed key,
			// ill-typed index key) - also while a failure condition is active
			switch r.Intn(6) {
			case 0:
				op.Batch = append(op.Batch, adapt.BatchEntry{Table: "nosuchtable", Put: val.Item{"h": val.Str("x")}})
			case 1:
				if len(op.Batch) > 0 {
					op.Batch = append(op.Batch, adapt.BatchEntry{Table: op.Batch[0].Table, Put: val.Item{"nokey": val.Str("x")}})
				}
			case 2:
				if len(op.Batch) > 0 {
					op.Batch = append(op.Batch, adapt.BatchEntry{Table: op.Batch[0].Table, Del: val.Item{"h": val.Num("1")}})
				}
			}
		case adapt.OpQuery, adapt.OpScan:
			if r.Intn(2) == 0 {
				op.Limit = 1 + r.Intn(3)
			}
			if r.Intn(4) == 0 {
				// what a read is asked to return (only the count, all attributes, the projected ones) is a request option
				// like the others: the same counts, items and pagination keys from both clients
				op.Select = mon.Pick(r, []string{"COUNT", "COUNT", "ALL_ATTRIBUTES", "ALL_PROJECTED_ATTRIBUTES"})
			}
			if lastKeyOp != nil && r.Intn(2) == 0 {
				op = *lastKeyOp
			}
		}
		lastKeyOp = nil
		hist = append(hist, op)
		shape = append(shape, mon.OpFeature(op))
		ctx.Trace("%s", op.String())
		o1, o2 := c1.Do(op), c2.Do(op)
		x.r.Evals += 2
		x.set("classes", o1.Class)
		if o1.Class == adapt.ClsOK {
			okData++
		} else {
			failing++
		}
		for ai, o := range []adapt.Outcome{o1, o2} {
			if o.ErrNotAPI {
				// "the same error class": a class is what a caller can MATCH - awserr.Error in the SDK v1 client,
				// smithy.APIError in the SDK v2 client; an error that only prints the class name is not of that class
				x.viol("error-not-matchable", adapt.Adapters[ai]+"/"+op.Kind+"/"+o.Class, fmt.Sprintf("step %d %s: the %s client failed with %s (%s), but the error is no %s", i, mon.OpFeature(op), adapt.Adapters[ai], o.Class, o.Msg, []string{"awserr.Error", "smithy.APIError"}[ai]),
					map[string]interface{}{"history": hist, "v1": o1, "v2": o2})
			}
		}
		if outcomeCanon(o1) != outcomeCanon(o2) {
			rule := "outcomes-differ"
			feature := op.Kind + "/" + whatDiffers(o1, o2)
			x.viol(rule, feature, fmt.Sprintf("step %d %s: SDK v1: %s | SDK v2: %s", i, mon.OpFeature(op), trunc400(outcomeCanon(o1)), trunc400(outcomeCanon(o2))),
				map[string]interface{}{"history": hist, "v1": o1, "v2": o2})
			break
		}
		// follow-up page with the returned LastEvaluatedKey
		if (op.Kind == adapt.OpQuery || op.Kind == adapt.OpScan) && o1.LastKey != nil {
			nxt := op
			nxt.Start = o1.LastKey
			lastKeyOp = &nxt
		}
		m.Step(op, o1)
	}
	x.fp(okData >= 10 && failing >= 1, "%s", strings.Join(shape, ","))
	if ctx.Case < 3 {
		x.r.Sample = map[string]interface{}{"ops": shape, "first_ops": hist[:min(3, len(hist))]}
	}
	return x.r
}

func trunc400(s string) string {
	if len(s) > 400 {
		return s[:400] + "…"
	}
	return s
}

// requiredFields: requests with missing or too short required fields, compared between the adapters.
func (p *c17) requiredFields(x *res, ctx *runner.Ctx) {
	type rf struct {
		name string
		op   adapt.Op
	}
	spec := mon.SpecHashOnly("tbl17")
	short := mon.SpecHashOnly("ab")
	cases := []rf{
		{"create-short-table-name", adapt.Op{Kind: adapt.OpCreateTable, Spec: &short}},
		{"put-short-table-name", adapt.Op{Kind: adapt.OpPut, Table: "ab", Item: val.Item{"h": val.Str("k")}}},
		{"get-short-table-name", adapt.Op{Kind: adapt.OpGet, Table: "ab", Key: val.Item{"h": val.Str("k")}}},
		{"describe-short-table-name", adapt.Op{Kind: adapt.OpDescribe, Table: "ab"}},
		{"delete-table-short-name", adapt.Op{Kind: adapt.OpDeleteTable, Table: "ab"}},
		{"put-nil-item", adapt.Op{Kind: adapt.OpPut, Table: spec.Name}},
		{"get-nil-key", adapt.Op{Kind: adapt.OpGet, Table: spec.Name}},
		{"delete-nil-key", adapt.Op{Kind: adapt.OpDelete, Table: spec.Name}},
		{"update-nil-key", adapt.Op{Kind: adapt.OpUpdate, Table: spec.Name, Update: "SET a = :v", Values: val.Item{":v": val.Str("x")}}},
		{"update-without-expression", adapt.Op{Kind: adapt.OpUpdate, Table: spec.Name, Key: val.Item{"h": val.Str("k")}, NoUpdate: true}},
		{"update-without-expression-returning", adapt.Op{Kind: adapt.OpUpdate, Table: spec.Name, Key: val.Item{"h": val.Str("k")}, NoUpdate: true, RetOld: true}},
		{"update-empty-expression", adapt.Op{Kind: adapt.OpUpdate, Table: spec.Name, Key: val.Item{"h": val.Str("k")}}},
		{"put-empty-table-name", adapt.Op{Kind: adapt.OpPut, Table: "", Item: val.Item{"h": val.Str("k")}}},
		{"scan-empty-table-name", adapt.Op{Kind: adapt.OpScan, Table: ""}},
		{"batchwrite-empty", adapt.Op{Kind: adapt.OpBatchWrite}},
		// table metadata without the names the SDK marks as required (nil pointers in the request structures)
		{"create-gsi-without-name", adapt.Op{Kind: adapt.OpCreateTable, Spec: &adapt.TableSpec{Name: "tbl17x", Hash: "h", Billing: "PAY_PER_REQUEST", Indexes: []adapt.IndexSpec{{Name: "", Hash: "g"}}}}},
		{"create-lsi-without-name", adapt.Op{Kind: adapt.OpCreateTable, Spec: &adapt.TableSpec{Name: "tbl17x", Hash: "h", Range: "r", Billing: "PAY_PER_REQUEST", Indexes: []adapt.IndexSpec{{Name: "", Hash: "h", Range: "g", Local: true}}}}},
		{"updatetable-create-index-without-name", adapt.Op{Kind: adapt.OpUpdateTable, Table: spec.Name, Chg: []adapt.IndexChange{{Create: &adapt.IndexSpec{Name: "", Hash: "g"}}}}},
		{"updatetable-delete-without-name", adapt.Op{Kind: adapt.OpUpdateTable, Table: spec.Name, Chg: []adapt.IndexChange{{DeleteUnnamed: true}}}},
		// requests with TWO defects: which one is reported does not depend on the client
		{"put-missing-table-and-unused-value", adapt.Op{Kind: adapt.OpPut, Table: "nosuchtable17", Item: val.Item{"h": val.Str("k")}, Cond: "attribute_not_exists(h)", Values: val.Item{":unused": val.Num("1")}}},
		{"put-missing-table-and-unused-name", adapt.Op{Kind: adapt.OpPut, Table: "nosuchtable17", Item: val.Item{"h": val.Str("k")}, Cond: "attribute_not_exists(h)", Names: map[string]string{"#unused": "status"}}},
		{"put-missing-table-and-undefined-name", adapt.Op{Kind: adapt.OpPut, Table: "nosuchtable17", Item: val.Item{"h": val.Str("k")}, Cond: "attribute_not_exists(#n)"}},
		{"delete-missing-table-and-unused-value", adapt.Op{Kind: adapt.OpDelete, Table: "nosuchtable17", Key: val.Item{"h": val.Str("k")}, Cond: "attribute_exists(h)", Values: val.Item{":unused": val.Num("1")}}},
		{"delete-missing-table-and-malformed-name-key", adapt.Op{Kind: adapt.OpDelete, Table: "nosuchtable17", Key: val.Item{"h": val.Str("k")}, Cond: "attribute_exists(h)", Names: map[string]string{"unused": "status"}}},
		{"update-missing-table-and-unused-value", adapt.Op{Kind: adapt.OpUpdate, Table: "nosuchtable17", Key: val.Item{"h": val.Str("k")}, Update: "SET a = :v", Values: val.Item{":v": val.Str("x"), ":unused": val.Num("1")}}},
		{"get-missing-table-and-reserved-projection", adapt.Op{Kind: adapt.OpGet, Table: "nosuchtable17", Key: val.Item{"h": val.Str("k")}, Proj: "name"}},
		{"scan-missing-table-and-unused-name", adapt.Op{Kind: adapt.OpScan, Table: "nosuchtable17", Names: map[string]string{"#unused": "status"}}},
		{"query-missing-table-and-no-key-condition", adapt.Op{Kind: adapt.OpQuery, Table: "nosuchtable17", NoKC: true}},
		{"query-unknown-index-and-unused-value", adapt.Op{Kind: adapt.OpQuery, Table: spec.Name, Index: "nosuchindex", KeyCnd: "h = :h", Values: val.Item{":h": val.Str("k"), ":unused": val.Num("1")}}},
		{"scan-unknown-index-and-bad-start-key", adapt.Op{Kind: adapt.OpScan, Table: spec.Name, Index: "nosuchindex", Start: val.Item{"nokey": val.Str("x")}}},
		{"put-malformed-key-and-unused-value", adapt.Op{Kind: adapt.OpPut, Table: spec.Name, Item: val.Item{"nokey": val.Str("k")}, Cond: "attribute_not_exists(h)", Values: val.Item{":unused": val.Num("1")}}},
		{"put-ill-typed-key-and-false-condition", adapt.Op{Kind: adapt.OpPut, Table: spec.Name, Item: val.Item{"h": val.Num("1")}, Cond: "attribute_exists(h)"}},
		{"delete-false-condition-and-malformed-value", adapt.Op{Kind: adapt.OpDelete, Table: spec.Name, Key: val.Item{"h": val.Str("k")}, Cond: "attribute_exists(nosuch) AND a = :n", Values: val.Item{":n": val.V{K: val.KN, Str: "abc"}}}},
		// what the SDK structures can express although it is no attribute value: both clients give the same answer
		{"put-null-false", adapt.Op{Kind: adapt.OpPut, Table: spec.Name, Item: val.Item{"h": val.Str("k"), "a": val.Invalid("null-false")}}},
		{"put-null-false-nested", adapt.Op{Kind: adapt.OpPut, Table: spec.Name, Item: val.Item{"h": val.Str("k"), "a": val.List(val.Map(map[string]val.V{"x": val.Invalid("null-false")}))}}},
		{"put-missing-list-element", adapt.Op{Kind: adapt.OpPut, Table: spec.Name, Item: val.Item{"h": val.Str("k"), "a": val.List(val.Str("x"), val.Invalid("nil"))}}},
		{"put-attribute-without-value", adapt.Op{Kind: adapt.OpPut, Table: spec.Name, Item: val.Item{"h": val.Str("k"), "a": val.Invalid("nil"), "b": val.Str("x")}}},
		{"put-map-member-without-value", adapt.Op{Kind: adapt.OpPut, Table: spec.Name, Item: val.Item{"h": val.Str("k"), "a": val.Map(map[string]val.V{"x": val.Invalid("nil"), "y": val.Str("x")})}}},
		{"update-value-without-value", adapt.Op{Kind: adapt.OpUpdate, Table: spec.Name, Key: val.Item{"h": val.Str("k")}, Update: "SET a = :n", Values: val.Item{":n": val.Invalid("nil")}}},
		{"put-empty-binary-set", adapt.Op{Kind: adapt.OpPut, Table: spec.Name, Item: val.Item{"h": val.Str("k"), "a": val.BS()}}},
		{"put-empty-string-set", adapt.Op{Kind: adapt.OpPut, Table: spec.Name, Item: val.Item{"h": val.Str("k"), "a": val.SS()}}},
		{"put-untyped-map-member", adapt.Op{Kind: adapt.OpPut, Table: spec.Name, Item: val.Item{"h": val.Str("k"), "a": val.Map(map[string]val.V{"x": val.Invalid("empty")})}}},
		{"delete-condition-value-null-false", adapt.Op{Kind: adapt.OpDelete, Table: spec.Name, Key: val.Item{"h": val.Str("k")}, Cond: "attribute_not_exists(a) OR a = :n", Values: val.Item{":n": val.Invalid("null-false")}}},
		{"update-value-null-false", adapt.Op{Kind: adapt.OpUpdate, Table: spec.Name, Key: val.Item{"h": val.Str("k")}, Update: "SET a = :n", Values: val.Item{":n": val.Invalid("null-false")}}},
		{"scan-filter-value-missing-element", adapt.Op{Kind: adapt.OpScan, Table: spec.Name, Filter: "a = :n", Values: val.Item{":n": val.List(val.Invalid("nil"))}}},
		{"get-key-null-false", adapt.Op{Kind: adapt.OpGet, Table: spec.Name, Key: val.Item{"h": val.Invalid("null-false")}}},
		// table names with characters beyond letters, digits, '_', '.', '-': whatever the library makes of them, both clients
		// make the same of them - at CreateTable and for the writes that follow
		{"create-table-name-with-blank", adapt.Op{Kind: adapt.OpCreateTable, Spec: &adapt.TableSpec{Name: "orders 2024", Hash: "h", Billing: "PAY_PER_REQUEST"}}},
		{"create-table-name-with-colon", adapt.Op{Kind: adapt.OpCreateTable, Spec: &adapt.TableSpec{Name: "users:test", Hash: "h", Billing: "PAY_PER_REQUEST"}}},
		{"create-table-name-non-ascii", adapt.Op{Kind: adapt.OpCreateTable, Spec: &adapt.TableSpec{Name: "caf\u00e9-orders", Hash: "h", Billing: "PAY_PER_REQUEST"}}},
		{"create-table-name-with-slash", adapt.Op{Kind: adapt.OpCreateTable, Spec: &adapt.TableSpec{Name: "a/b/c", Hash: "h", Billing: "PAY_PER_REQUEST"}}},
		{"create-table-name-dots-dashes", adapt.Op{Kind: adapt.OpCreateTable, Spec: &adapt.TableSpec{Name: "tbl.with-dots_ok", Hash: "h", Billing: "PAY_PER_REQUEST"}}},
		{"create-table-name-255", adapt.Op{Kind: adapt.OpCreateTable, Spec: &adapt.TableSpec{Name: strings.Repeat("n", 255), Hash: "h", Billing: "PAY_PER_REQUEST"}}},
		{"create-table-name-256", adapt.Op{Kind: adapt.OpCreateTable, Spec: &adapt.TableSpec{Name: strings.Repeat("n", 256), Hash: "h", Billing: "PAY_PER_REQUEST"}}},
		{"query-unknown-index", queryOp(spec.Name, "nosuchindex", keyCondEq("h", ":h"), nil, val.Item{":h": val.Str("k")}, false, refmodel.RenderOpts{})},
		{"scan-unknown-index", adapt.Op{Kind: adapt.OpScan, Table: spec.Name, Index: "nosuchindex"}},
	}
	for _, c := range cases {
		c1, c2 := adapt.New("v1"), adapt.New("v2")
		c1.Do(createOp(spec))
		c2.Do(createOp(spec))
		o1, o2 := c1.Do(c.op), c2.Do(c.op)
		x.r.Evals += 2
		x.fp(true, "required|%s", c.name)
		if c.op.Kind == adapt.OpCreateTable && outcomeCanon(o1) == outcomeCanon(o2) {
			// ... and the table answers a write the same way in both
			put := adapt.Op{Kind: adapt.OpPut, Table: c.op.Spec.Name, Item: val.Item{"h": val.Str("k")}}
			o1, o2 = c1.Do(put), c2.Do(put)
		}
		if outcomeCanon(o1) != outcomeCanon(o2) {
			x.r.Counters["required_field_cases_differing"]++
			x.viol("required-field-validation-differs", "v1="+o1.Class+"/v2="+o2.Class, fmt.Sprintf("%s: SDK v1: %s (%s) | SDK v2: %s (%s)", c.name, outcomeCanon(o1), o1.Msg, outcomeCanon(o2), o2.Msg), map[string]interface{}{"op": c.op, "v1": o1, "v2": o2})
		}
	}
}

// nativeParity: the two clients with the native interpreter switched on and the same Go callbacks registered for the
// same expression texts - requests whose placeholders are complete, incomplete, or carry names / values the text
// does not use get the same answer from both (what the text of a request must satisfy does not depend on the SDK
// generation, nor on whether a callback or the built-in interpreter will run it).
func (p *c17) nativeParity(x *res, ctx *runner.Ctx) {
	spec := mon.SpecHashOnly("tbl17n")
	key := val.Item{"h": val.Str("k")}
	type nq struct {
		name string
		op   adapt.Op
	}
	upd, cond, flt, kc := "SET a = :v", "attribute_exists(a)", "a = :f", "h = :h"
	cases := []nq{
		{"update", adapt.Op{Kind: adapt.OpUpdate, Table: spec.Name, Key: key, Update: upd, Values: val.Item{":v": val.Str("x")}}},
		{"update-unused-value", adapt.Op{Kind: adapt.OpUpdate, Table: spec.Name, Key: key, Update: upd, Values: val.Item{":v": val.Str("x"), ":unused": val.Num("1")}}},
		{"update-unused-name", adapt.Op{Kind: adapt.OpUpdate, Table: spec.Name, Key: key, Update: upd, Values: val.Item{":v": val.Str("x")}, Names: map[string]string{"#unused": "b"}}},
		{"update-missing-value", adapt.Op{Kind: adapt.OpUpdate, Table: spec.Name, Key: key, Update: upd}},
		{"update-other-value-only", adapt.Op{Kind: adapt.OpUpdate, Table: spec.Name, Key: key, Update: upd, Values: val.Item{":w": val.Str("x")}}},
		{"update-with-condition", adapt.Op{Kind: adapt.OpUpdate, Table: spec.Name, Key: key, Update: upd, Cond: cond, Values: val.Item{":v": val.Str("x")}}},
		{"update-with-condition-unused-value", adapt.Op{Kind: adapt.OpUpdate, Table: spec.Name, Key: key, Update: upd, Cond: cond, Values: val.Item{":v": val.Str("x"), ":unused": val.Num("1")}}},
		{"update-unregistered-text", adapt.Op{Kind: adapt.OpUpdate, Table: spec.Name, Key: key, Update: "SET b = :v", Values: val.Item{":v": val.Str("x")}}},
		{"update-unregistered-text-unused-value", adapt.Op{Kind: adapt.OpUpdate, Table: spec.Name, Key: key, Update: "SET b = :v", Values: val.Item{":v": val.Str("x"), ":unused": val.Num("1")}}},
		{"put-with-condition", adapt.Op{Kind: adapt.OpPut, Table: spec.Name, Item: val.Item{"h": val.Str("k"), "a": val.Str("p")}, Cond: cond}},
		{"put-with-condition-unused-value", adapt.Op{Kind: adapt.OpPut, Table: spec.Name, Item: val.Item{"h": val.Str("k"), "a": val.Str("p")}, Cond: cond, Values: val.Item{":unused": val.Num("1")}}},
		{"delete-with-condition-unused-name", adapt.Op{Kind: adapt.OpDelete, Table: spec.Name, Key: key, Cond: cond, Names: map[string]string{"#unused": "b"}}},
		{"scan-filter", adapt.Op{Kind: adapt.OpScan, Table: spec.Name, Filter: flt, Values: val.Item{":f": val.Str("1")}}},
		{"scan-filter-unused-value", adapt.Op{Kind: adapt.OpScan, Table: spec.Name, Filter: flt, Values: val.Item{":f": val.Str("1"), ":unused": val.Num("1")}}},
		{"scan-filter-missing-value", adapt.Op{Kind: adapt.OpScan, Table: spec.Name, Filter: flt}},
		{"query", adapt.Op{Kind: adapt.OpQuery, Table: spec.Name, KeyCnd: kc, Values: val.Item{":h": val.Str("k")}}},
		{"query-unused-value", adapt.Op{Kind: adapt.OpQuery, Table: spec.Name, KeyCnd: kc, Values: val.Item{":h": val.Str("k"), ":unused": val.Num("1")}}},
		{"query-filter-unused-name", adapt.Op{Kind: adapt.OpQuery, Table: spec.Name, KeyCnd: kc, Filter: flt, Values: val.Item{":h": val.Str("k"), ":f": val.Str("1")}, Names: map[string]string{"#unused": "b"}}},
	}
	for _, c := range cases {
		for _, registered := range []bool{true, false} {
			outs := [2]adapt.Outcome{}
			reads := [2]adapt.Outcome{}
			for ai, adapter := range []string{"v1", "v2"} {
				cl := adapt.New(adapter)
				nc := nativeOf(cl)
				native := interpreter.NewNativeInterpreter()
				if registered {
					native.AddUpdater(spec.Name, upd, func(item map[string]*mtypes.Item, _ map[string]*mtypes.Item) {
						s := "native"
						item["a"] = &mtypes.Item{S: &s}
					})
					native.AddMatcher(spec.Name, interpreter.ExpressionTypeConditional, cond, func(map[string]*mtypes.Item, map[string]*mtypes.Item) bool { return true })
					native.AddMatcher(spec.Name, interpreter.ExpressionTypeFilter, flt, func(map[string]*mtypes.Item, map[string]*mtypes.Item) bool { return true })
					native.AddMatcher(spec.Name, interpreter.ExpressionTypeKey, kc, func(map[string]*mtypes.Item, map[string]*mtypes.Item) bool { return true })
				}
				nc.setInterp(native)
				nc.activate()
				cl.Do(createOp(spec))
				cl.Do(adapt.Op{Kind: adapt.OpPut, Table: spec.Name, Item: val.Item{"h": val.Str("k"), "a": val.Str("1")}})
				outs[ai] = cl.Do(c.op)
				reads[ai] = cl.Do(adapt.Op{Kind: adapt.OpGet, Table: spec.Name, Key: key})
				x.r.Evals += 2
			}
			x.fp(true, "native-parity|%s|%v", c.name, registered)
			x.r.Counters["native_parity_cases"]++
			if outcomeCanon(outs[0]) != outcomeCanon(outs[1]) || outcomeCanon(reads[0]) != outcomeCanon(reads[1]) {
				x.viol("native-mode-differs", fmt.Sprintf("%s/v1=%s/v2=%s", c.name, outs[0].Class, outs[1].Class), fmt.Sprintf("%s (callbacks registered: %v): SDK v1: %s (%s) | SDK v2: %s (%s); the item afterwards: v1 %s | v2 %s", c.name, registered, outcomeCanon(outs[0]), outs[0].Msg, outcomeCanon(outs[1]), outs[1].Msg, reads[0].Item.Canon(), reads[1].Item.Canon()),
					map[string]interface{}{"op": c.op, "registered": registered, "v1": outs[0], "v2": outs[1]})
			}
		}
	}
}

// billingSwitches: UpdateTable requests that name a billing mode (the table's own or the other one) and create an
// index with or without a ProvisionedThroughput, on tables of either mode, followed by a second index creation
// without throughput: whatever the library makes of the BillingMode of an UpdateTable, both clients make the same
// of it - the same answers, the same descriptions, the same fate of the later request.
func (p *c17) billingSwitches(x *res, ctx *runner.Ctx) {
	for _, start := range []string{"PAY_PER_REQUEST", "PROVISIONED"} {
		for _, asked := range []string{"", "PAY_PER_REQUEST", "PROVISIONED"} {
			for _, noThr := range []bool{true, false} {
				spec := adapt.TableSpec{Name: "tbl17b", Hash: "h", Billing: start, Throughput: start == "PROVISIONED"}
				seq := []adapt.Op{createOp(spec),
					{Kind: adapt.OpUpdateTable, Table: spec.Name, Billing: asked, NoThroughput: noThr, Chg: []adapt.IndexChange{{Create: &adapt.IndexSpec{Name: "first", Hash: "g"}}}},
					{Kind: adapt.OpDescribe, Table: spec.Name},
					{Kind: adapt.OpUpdateTable, Table: spec.Name, NoThroughput: true, Chg: []adapt.IndexChange{{Create: &adapt.IndexSpec{Name: "second", Hash: "s"}}}},
					{Kind: adapt.OpDescribe, Table: spec.Name},
					{Kind: adapt.OpUpdateTable, Table: spec.Name, Billing: asked},
					{Kind: adapt.OpPut, Table: spec.Name, Item: val.Item{"h": val.Str("k"), "g": val.Str("x"), "s": val.Str("y")}},
					{Kind: adapt.OpScan, Table: spec.Name, Index: "first"},
					{Kind: adapt.OpScan, Table: spec.Name, Index: "second"}}
				c1, c2 := adapt.New("v1"), adapt.New("v2")
				for i, op := range seq {
					o1, o2 := c1.Do(op), c2.Do(op)
					x.r.Evals += 2
					x.r.Counters["billing_switch_steps"]++
					x.fp(true, "billing|%s|%s|%v|%d", start, asked, noThr, i)
					if outcomeCanon(o1) != outcomeCanon(o2) {
						x.viol("outcomes-differ", "updatetable-billing/"+op.Kind+"/"+whatDiffers(o1, o2), fmt.Sprintf("table created %s, UpdateTable asking for billing mode %q with an index creation (without throughput: %v): step %d %s: SDK v1: %s (%s) | SDK v2: %s (%s)", start, asked, noThr, i, mon.OpFeature(op), trunc400(outcomeCanon(o1)), o1.Msg, trunc400(outcomeCanon(o2)), o2.Msg),
							map[string]interface{}{"sequence": seq[:i+1], "v1": o1, "v2": o2})
						break
					}
				}
			}
		}
	}
}

// twoDefectBatches: a BatchWriteItem over two (three) tables that is wrong in two ways - one table does not exist, the
// request for another one lacks its key attribute or gives it the wrong type. Which defect is reported is the same in
// both clients and the same every time (30 repetitions on fresh clients: a verdict taken from the iteration order of
// the request map differs between two runs of one client, let alone between the clients).
func (p *c17) twoDefectBatches(x *res, ctx *runner.Ctx) {
	specs := []adapt.TableSpec{mon.SpecHashOnly("tbl17m"), mon.SpecHashOnly("tbl17z")}
	batches := map[string][]adapt.BatchEntry{
		"missing-table-and-missing-key":   {{Table: "nosuchtable17", Put: val.Item{"h": val.Str("k")}}, {Table: "tbl17m", Put: val.Item{"v": val.Str("no key")}}},
		"missing-table-and-ill-typed-key": {{Table: "tbl17z", Del: val.Item{"h": val.Num("1")}}, {Table: "zz-nosuchtable17", Put: val.Item{"h": val.Str("k")}}},
		"three-tables": {{Table: "tbl17m", Put: val.Item{"h": val.Str("fine")}}, {Table: "a-nosuchtable17", Put: val.Item{"h": val.Str("k")}}, {Table: "tbl17z", Put: val.Item{"x": val.Str("no key")}},
			{Table: "zz-nosuchtable17", Del: val.Item{"h": val.Str("k")}}},
	}
	for name, batch := range batches {
		classes := map[string]int{}
		for rep := 0; rep < 30; rep++ {
			c1, c2 := adapt.New("v1"), adapt.New("v2")
			for _, s := range specs {
				c1.Do(createOp(s))
				c2.Do(createOp(s))
			}
			op := adapt.Op{Kind: adapt.OpBatchWrite, Batch: batch}
			o1, o2 := c1.Do(op), c2.Do(op)
			x.r.Evals += 2
			classes["v1="+o1.Class]++
			classes["v2="+o2.Class]++
		}
		x.r.Counters["two_defect_batches"] += 30
		x.fp(true, "two-defect-batch|%s", name)
		if len(classes) != 2 || func() bool {
			var a, b string
			for k := range classes {
				if strings.HasPrefix(k, "v1=") {
					a = k[3:]
				} else {
					b = k[3:]
				}
			}
			return a != b
		}() {
			x.viol("outcomes-differ", "batchwrite-two-defects/"+name, fmt.Sprintf("BatchWriteItem %s sent 30 times to fresh clients of both kinds is answered with these classes: %v - the same request, one answer", name, classes), map[string]interface{}{"batch": batch, "classes": classes})
		}
	}
}
