package props

import (
	"fmt"
	"sort"
	"strings"

	"github.com/truora/minidyn/interpreter"
	mtypes "github.com/truora/minidyn/types"

	v1client "github.com/truora/minidyn/aws-v1/client"
	v2client "github.com/truora/minidyn/aws-v2/client"

	"verifharness/adapt"
	"verifharness/mon"
	"verifharness/runner"
	"verifharness/val"
)

// C20 – native-interpreter overrides are dispatched exactly and fall back safely.
type c20 struct{ base }

func init() {
	runner.Register(&c20{base{id: "C20", level: "exploration",
		rule:        "exhaustive: all subsets of <=2 registrations (thorough <=3) from a pool of (table in {tba,tbb}) x (kind in {key, filter, conditional, update}) x (text pool with anagram pairs 'a = :b' / 'b = :a', 'SET x = :y' / 'SET y = :x', prefix pairs, letter-case pairs, surrounding- and interior-whitespace variants) x every request over the same pool x native mode on/off x interpreter installed before/after CreateTable, both adapters. Callbacks are instrumented: each records its identity and returns the OPPOSITE of what the built-in interpreter yields. Oracle: the set of callbacks that ran = {the one registered for exactly this table, kind and text (up to surrounding whitespace; interior whitespace amount: either)} or empty; the operation's outcome = that callback's verdict / mutation; with no matcher the built-in result; with no updater an unsupported-feature error and an untouched item; native mode off: no callback runs. Plus parallel cases: 2-8 goroutines, each with its OWN client and native interpreter holding anagram / whitespace variants of the registrations of the others, dispatch 40 requests each at the same time and check their own dispatch with the same oracle (shared state between interpreter instances). non-trivial = at least one registration differs from the request in exactly one of table / kind / text; distinct by (adapter, registration set, request, mode, order). Requests composed of registered texts (no updater: unsupported, nothing runs); key-existence guards (attribute_exists / attribute_not_exists of a key attribute, six spellings) served by registered matchers: called, verdict used; prefix-named tables keep their callbacks when one of them is deleted.",
		assumptions: commonAssumptions}})
}

type c20Reg struct {
	table, kind, text string
}

var c20CondTexts = []string{"a = :b", "b = :a", " a = :b ", "a  =  :b", "A = :b", "a = :bb", "a = :b AND b = :a", "b = :a AND a = :b",
	// requests only: the registered text with characters that are spaces for Unicode but not for the expression
	// language (no-break space, em space, vertical tab, form feed, next line) - other texts, no registration answers
	"a\u00a0=\u00a0:b", "\u2003a = :b", "a\v= :b", "a = :b\f", "a\u0085= :b",
	// requests only: texts with #name placeholders (ExpressionAttributeNames {"#al": "a", "#bl": "b"}) that turn into
	// a registered text when the placeholder is replaced by its name - they are OTHER texts, no registration answers
	"#al = :b", "#bl = :a", "#al = :b AND #bl = :a"}

// keyword texts in two letter cases: different texts (a registration under one never fires for the other). The
// built-in interpreter refuses the lower-case forms, so without a callback such a request may also be rejected
var c20KeywordTexts = []string{"a = :b AND b = :a", "a = :b and b = :a", "a IN (:b)", "a in (:b)", "a BETWEEN :b AND :b", "a between :b and :b"}

func c20LowerKeyword(text string) bool {
	for _, r := range text {
		if r > 0x7e || r == '\v' || r == '\f' {
			return true // a character that is no part of the language: refused like a keyword in lower case
		}
	}
	for _, t := range tokenize(text) {
		if refmodelIsKw(t) && t != strings.ToUpper(t) {
			return true
		}
	}
	return false
}
var c20UpdTexts = []string{"SET x = :y", "SET y = :x", " SET x = :y", "SET  x = :y", "set x = :y", "SET #xl = :y"}

// c20Names are the ExpressionAttributeNames a request supplies for the placeholders its text uses.
var c20Names = map[string]string{"#al": "a", "#bl": "b", "#xl": "x"}

func c20Pool() []c20Reg {
	out := []c20Reg{}
	for _, t := range []string{"tba", "tbb"} {
		for _, k := range []string{"key", "filter", "conditional"} {
			for _, txt := range c20CondTexts[:5] {
				out = append(out, c20Reg{t, k, txt})
			}
			if t == "tba" && k != "conditional" {
				for _, txt := range c20KeywordTexts {
					out = append(out, c20Reg{t, k, txt})
				}
			}
		}
		for _, txt := range c20UpdTexts[:3] {
			out = append(out, c20Reg{t, "update", txt})
		}
	}
	return out
}

type c20Req struct {
	table, kind, text string
}

func c20Requests() []c20Req {
	out := []c20Req{}
	for _, t := range []string{"tba", "tbb"} {
		for _, k := range []string{"key", "filter", "conditional"} {
			for _, txt := range c20CondTexts {
				out = append(out, c20Req{t, k, txt})
			}
			if t == "tba" {
				for _, txt := range c20KeywordTexts[1:] {
					out = append(out, c20Req{t, k, txt})
				}
			}
		}
		for _, txt := range c20UpdTexts {
			out = append(out, c20Req{t, "update", txt})
		}
	}
	return out
}

var c20PoolCache = c20Pool()
var c20ReqCache = c20Requests()

func c20Subsets(max int) [][]int {
	n := len(c20PoolCache)
	out := [][]int{{}}
	for i := 0; i < n; i++ {
		out = append(out, []int{i})
	}
	if max >= 2 {
		for i := 0; i < n; i++ {
			for j := i + 1; j < n; j++ {
				out = append(out, []int{i, j})
			}
		}
	}
	return out
}

func (p *c20) Exhaustive(string) bool { return true }

var c20SubsetCache [][]int

func (p *c20) subsets(tier string) [][]int {
	if c20SubsetCache == nil {
		c20SubsetCache = c20Subsets(2)
	}
	return c20SubsetCache
}

const c20Block = 8

func (p *c20) NumCases(tier string) int {
	n := (len(p.subsets(tier)) + c20Block - 1) / c20Block
	if tier == "thorough" {
		return n*2 + 202
	}
	return n + 50
}

// parallelClients: 2-8 goroutines, each with its OWN client and its own native interpreter, dispatch at the
// same time (tests that run with t.Parallel() each have their own fake client). The registrations of the
// goroutines are anagrams / whitespace variants of one another, so a lookup that goes through state shared
// between interpreter instances picks another goroutine's callback or none. Every goroutine checks its own
// dispatch with the sequential oracle of runSeq.
func (p *c20) parallelClients(x *res, idx int, ctx *runner.Ctx) {
	r := mon.Rng(ctx.Seed, "C20P", idx)
	g := []int{2, 4, 8}[idx%3]
	rounds := 100
	subs := p.subsets(ctx.Tier)
	type plan struct {
		adapter string
		regs    []int
		reqs    [][]c20Req
	}
	plans := make([]plan, g)
	for i := range plans {
		pl := plan{adapter: adapt.Adapters[(idx+i)%2], regs: subs[1+r.Intn(len(subs)-1)]}
		for k := 0; k < rounds; k++ {
			// mostly requests that one of the goroutine's registrations answers, padded with whitespace
			var rq c20Req
			if len(pl.regs) > 0 && r.Intn(3) != 0 {
				reg := c20PoolCache[mon.Pick(r, pl.regs)]
				rq = c20Req{reg.table, reg.kind, mon.Pick(r, []string{"", " ", "  "}) + reg.text + mon.Pick(r, []string{"", " "})}
			} else {
				rq = mon.Pick(r, c20ReqCache)
			}
			pl.reqs = append(pl.reqs, []c20Req{rq})
		}
		plans[i] = pl
	}
	results := make([]*res, g)
	ok := parallel(g, func(i int) {
		xi := newRes()
		results[i] = xi
		defer func() {
			if rec := recover(); rec != nil {
				xi.viol("runtime-panic", "parallel-clients", fmt.Sprintf("dispatch on an own client panicked while %d other clients were dispatching: %v", g-1, rec), nil)
			}
		}()
		quiet := &runner.Ctx{Tier: ctx.Tier, Seed: ctx.Seed, Case: ctx.Case, Trace: func(string, ...interface{}) {}}
		for _, rq := range plans[i].reqs {
			p.runSeq(xi, plans[i].adapter, plans[i].regs, rq, true, i%2 == 0, quiet)
		}
	})
	if !ok {
		x.notFinished("parallel-clients", fmt.Sprintf("%d goroutines with their own clients did not finish", g), nil)
		return
	}
	for _, xi := range results {
		if xi != nil {
			for vi := range xi.r.Violations {
				xi.r.Violations[vi].Rule = "parallel:" + xi.r.Violations[vi].Rule
			}
			x.merge(xi)
		}
	}
	x.r.Counters["parallel_client_dispatches"] += g * rounds
	x.fp(true, "parallel|%d|%d", g, idx)
}

// whitespace of the expression language: space, tab, line feed, carriage return - nothing else
func langSpace(r rune) bool         { return r == ' ' || r == '\t' || r == '\n' || r == '\r' }
func normSurround(s string) string { return strings.TrimFunc(s, langSpace) }
func normAll(s string) string      { return strings.Join(strings.FieldsFunc(s, langSpace), " ") }

type nativeClient interface {
	activate()
	setInterp(n *interpreter.Native)
	getInterp() *interpreter.Native
}
type v1n struct{ c *v1client.Client }
type v2n struct{ c *v2client.Client }

func (x v1n) activate()                       { x.c.ActivateNativeInterpreter() }
func (x v1n) setInterp(n *interpreter.Native) { x.c.SetInterpreter(n) }
func (x v2n) activate()                       { x.c.ActivateNativeInterpreter() }
func (x v2n) setInterp(n *interpreter.Native) { x.c.SetInterpreter(n) }
func (x v1n) getInterp() *interpreter.Native  { return x.c.GetNativeInterpreter() }
func (x v2n) getInterp() *interpreter.Native  { return x.c.GetNativeInterpreter() }

func nativeOf(cl adapt.Client) nativeClient {
	switch c := cl.Raw().(type) {
	case *v1client.Client:
		return v1n{c}
	case *v2client.Client:
		return v2n{c}
	}
	return nil
}

// scenario: item {a:"1", b:"2"}; values :b=:a=:bb="zz" so every built-in condition of the pool is
// FALSE on the item ('a = :b AND b = :a' too); callbacks return TRUE. Updates: built-in SET x = :y
// sets x; the callback sets attribute "cb" to its own id instead.
// c20Disturb selects what happens to the tables between the registration and each request (cases of one worker
// run one after the other, parallel cases leave it at 0): dispatch must survive everything that is not a
// re-registration - rejected and successful table changes, clears, failed and failing calls
var c20Disturb = 0

var c20Disturbances = []string{"none", "rejected-updatetable", "rejected-multi-change-updatetable", "index-created-and-dropped", "cleartable", "addindex-helper", "failure-on-call-off", "rejected-put", "describe"}

func c20DisturbOps(kind int, table string, item val.Item) []adapt.Op {
	switch c20Disturbances[kind] {
	case "rejected-updatetable":
		return []adapt.Op{{Kind: adapt.OpUpdateTable, Table: table, Chg: []adapt.IndexChange{{Delete: "nosuchindex"}}}}
	case "rejected-multi-change-updatetable":
		return []adapt.Op{{Kind: adapt.OpUpdateTable, Table: table, Chg: []adapt.IndexChange{{Create: &adapt.IndexSpec{Name: "gsiq", Hash: "b"}}, {Delete: "nosuchindex"}}}}
	case "index-created-and-dropped":
		return []adapt.Op{{Kind: adapt.OpUpdateTable, Table: table, Chg: []adapt.IndexChange{{Create: &adapt.IndexSpec{Name: "gsiq", Hash: "b"}}}}, {Kind: adapt.OpUpdateTable, Table: table, Chg: []adapt.IndexChange{{Delete: "gsiq"}}}}
	case "cleartable":
		return []adapt.Op{{Kind: adapt.OpClearTable, Table: table}, {Kind: adapt.OpPut, Table: table, Item: item}}
	case "addindex-helper":
		return []adapt.Op{{Kind: adapt.OpAddIndex, Table: table, Ix: &adapt.IndexSpec{Name: "gsih", Hash: "a"}}}
	case "failure-on-call-off":
		return []adapt.Op{{Kind: adapt.OpEmulate, Fail: "internal_server"}, {Kind: adapt.OpGet, Table: table, Key: val.Item{"h": val.Str("k")}}, {Kind: adapt.OpEmulate, Fail: "none"}, {Kind: adapt.OpForceOn}, {Kind: adapt.OpScan, Table: table}, {Kind: adapt.OpForceOff}}
	case "rejected-put":
		return []adapt.Op{{Kind: adapt.OpPut, Table: table, Item: val.Item{"nokey": val.Str("x")}}, {Kind: adapt.OpUpdate, Table: table, Key: val.Item{"h": val.Num("1")}, Update: "SET q = :q", Values: val.Item{":q": val.Str("q")}}}
	case "describe":
		return []adapt.Op{{Kind: adapt.OpDescribe, Table: table}}
	}
	return nil
}

const c20Stale = 1000000

func (p *c20) runSeq(x *res, adapter string, regs []int, reqs []c20Req, nativeOn bool, installAfterCreate bool, ctx *runner.Ctx) {
	cl := adapt.New(adapter)
	nc := nativeOf(cl)
	native := interpreter.NewNativeInterpreter()
	ran := map[int]int{}
	// installAfterCreate doubles as "register late": in that mode the (still empty) interpreter is
	// installed and the tables are created BEFORE the callbacks are registered on it
	registerLate := installAfterCreate && len(regs) > 0 && regs[0]%2 == 0
	// a third of the runs register every callback TWICE under the same table, kind and text: first a stale one
	// (identity c20Stale+ri), then the one the oracle knows. Registering again replaces: the stale one never runs.
	stale := len(regs) > 0 && (regs[0]+len(regs)+len(reqs))%3 == 0
	register := func() {
		for _, ri := range regs {
			ri := ri
			rg := c20PoolCache[ri]
			if stale {
				x.r.Counters["registrations_replaced"]++
				if rg.kind == "update" {
					native.AddUpdater(rg.table, rg.text, func(item map[string]*mtypes.Item, vals map[string]*mtypes.Item) { ran[c20Stale+ri]++ })
				} else {
					et := map[string]interpreter.ExpressionType{"key": interpreter.ExpressionTypeKey, "filter": interpreter.ExpressionTypeFilter, "conditional": interpreter.ExpressionTypeConditional}[rg.kind]
					native.AddMatcher(rg.table, et, rg.text, func(item map[string]*mtypes.Item, vals map[string]*mtypes.Item) bool {
						ran[c20Stale+ri]++
						return false
					})
				}
			}
			switch rg.kind {
			case "update":
				native.AddUpdater(rg.table, rg.text, func(item map[string]*mtypes.Item, vals map[string]*mtypes.Item) {
					ran[ri]++
					c20Mutate(item, ri)
				})
			default:
				et := map[string]interpreter.ExpressionType{"key": interpreter.ExpressionTypeKey, "filter": interpreter.ExpressionTypeFilter, "conditional": interpreter.ExpressionTypeConditional}[rg.kind]
				native.AddMatcher(rg.table, et, rg.text, func(item map[string]*mtypes.Item, vals map[string]*mtypes.Item) bool {
					ran[ri]++
					return true
				})
			}
		}
	}
	if !registerLate {
		register()
	}
	specs := []adapt.TableSpec{mon.SpecHashOnly("tba"), mon.SpecHashOnly("tbb")}
	// (the first table has a secondary index over an attribute of the items: dispatch does not depend on it)
	specs[0].Indexes = []adapt.IndexSpec{{Name: "gsia", Hash: "a"}}
	install := func() {
		nc.setInterp(native)
		if nativeOn {
			nc.activate()
		}
	}
	if !installAfterCreate {
		install()
	}
	if !registerLate {
		for _, s := range specs {
			cl.Do(createOp(s))
		}
	}
	if registerLate {
		install()
		for _, s := range specs {
			cl.Do(createOp(s))
		}
		register()
	} else if installAfterCreate {
		install()
	}
	item := val.Item{"h": val.Str("k"), "a": val.Str("1"), "b": val.Str("2")}
	if len(regs) > 0 && regs[0]%2 == 1 {
		// half of the runs dispatch on items that carry a document of the greatest depth DynamoDB allows (32 levels:
		// the attribute value is level 1): what an item holds has no say in which callback runs
		deep := val.Str("leaf")
		for i := 0; i < 31; i++ {
			if i%2 == 0 {
				deep = val.List(deep)
			} else {
				deep = val.Map(map[string]val.V{"m": deep})
			}
		}
		item["deep"] = deep
		x.r.Counters["runs_on_items_of_depth_32"]++
	}
	for _, s := range specs {
		// unconditional puts never consult a matcher
		cl.Do(adapt.Op{Kind: adapt.OpPut, Table: s.Name, Item: item})
	}
	for ri, req := range reqs {
		seqTag := ""
		if ri > 0 {
			seqTag = "/second-request"
		}
		// restore the item so that every request of the sequence starts from the same state
		for _, s := range specs {
			saveOn := ran
			_ = saveOn
			cl.Do(adapt.Op{Kind: adapt.OpDelete, Table: s.Name, Key: val.Item{"h": val.Str("k")}})
			cl.Do(adapt.Op{Kind: adapt.OpPut, Table: s.Name, Item: item})
			if c20Disturb > 0 && (ri == 0 || c20Disturb%2 == 1) {
				for _, dop := range c20DisturbOps(c20Disturb, s.Name, item) {
					cl.Do(dop)
				}
			}
		}
		if c20Disturb > 0 {
			x.set("disturbances", c20Disturbances[c20Disturb])
		}
		func() {
			for k := range ran {
				delete(ran, k)
			}
			values := val.Item{}
			for _, t := range tokenize(req.text) {
				if strings.HasPrefix(t, ":") {
					values[t] = val.Str("zz")
				}
			}
			var names map[string]string
			for _, t := range tokenize(req.text) {
				if n, ok := c20Names[t]; ok {
					if names == nil {
						names = map[string]string{}
					}
					names[t] = n
				}
			}
			var op adapt.Op
			switch req.kind {
			case "key":
				op = adapt.Op{Kind: adapt.OpQuery, Table: req.table, KeyCnd: req.text, Values: values}
			case "filter":
				op = adapt.Op{Kind: adapt.OpScan, Table: req.table, Filter: req.text, Values: values}
			case "conditional":
				it2 := item.Clone()
				if (len(regs)+ri)%2 == 0 {
					it2["marker"] = val.Str("written")
				} else {
					// (every other conditional put writes the item exactly as it is stored: the create-once put sent twice.
					// Its condition is decided like any other - by the registered matcher, when there is one)
					x.r.Counters["conditional_puts_of_the_stored_item"]++
				}
				op = adapt.Op{Kind: adapt.OpPut, Table: req.table, Item: it2, Cond: req.text, Values: values}
			case "update":
				op = adapt.Op{Kind: adapt.OpUpdate, Table: req.table, Key: val.Item{"h": val.Str("k")}, Update: req.text, Values: values}
			}
			op.Names = names
			ctx.Trace("%s native=%v after=%v regs=%v %s", adapter, nativeOn, installAfterCreate, regs, op.String())
			got := cl.Do(op)
			x.r.Evals++
			after := cl.Do(adapt.Op{Kind: adapt.OpGet, Table: req.table, Key: val.Item{"h": val.Str("k")}})
			// expectation
			must, may := -1, map[int]bool{}
			mustSet := map[int]bool{} // several registrations may normalise to the same text: the last one wins, any is admitted
			near := false
			for _, ri := range regs {
				rg := c20PoolCache[ri]
				same := 0
				if rg.table == req.table {
					same++
				}
				if rg.kind == req.kind {
					same++
				}
				if normAll(rg.text) == normAll(req.text) {
					same++
				}
				if same == 2 {
					near = true
				}
				if rg.table != req.table || rg.kind != req.kind {
					continue
				}
				if normSurround(rg.text) == normSurround(req.text) {
					must = ri
					mustSet[ri] = true
				} else if normAll(rg.text) == normAll(req.text) {
					may[ri] = true // differs only in the amount of interior whitespace: either reading admitted
				}
			}
			if !nativeOn {
				must, may, mustSet = -1, map[int]bool{}, map[int]bool{}
			}
			ranList := []int{}
			for k := range ran {
				ranList = append(ranList, k)
			}
			sort.Ints(ranList)
			x.fp(near || len(regs) == 0, "%s|%v|%s|%s|%q|%v|%v", adapter, regs, req.table, req.kind, req.text, nativeOn, installAfterCreate)
			desc := func(i int) string {
				if i < 0 {
					return "none"
				}
				rg := c20PoolCache[i]
				return fmt.Sprintf("(%s,%s,%q)", rg.table, rg.kind, rg.text)
			}
			regDesc := []string{}
			for _, ri := range regs {
				regDesc = append(regDesc, desc(ri))
			}
			wit := map[string]interface{}{"adapter": adapter, "registrations": regDesc, "request": req, "native_on": nativeOn, "installed_after_create": installAfterCreate, "registered_after_install_and_create": registerLate, "callbacks_ran": ranList, "outcome": got, "item_after": after.Item}
			if got.Class == adapt.ClsRuntime {
				x.viol("runtime-panic", got.Site, fmt.Sprintf("[%s] request %v: panic at %s: %s", adapter, req, got.Site, got.Msg), wit)
				return
			}
			// which callbacks ran
			fired := -1
			for _, ri := range ranList {
				if mustSet[ri] || may[ri] {
					fired = ri
					continue
				}
				if ri >= c20Stale {
					x.viol("replaced-callback-fired", req.kind+seqTag, fmt.Sprintf("[%s] request %s/%s %q ran a callback that a later registration for %s had replaced", adapter, req.table, req.kind, req.text, desc(ri-c20Stale)), wit)
					return
				}
				rg := c20PoolCache[ri]
				why := "text"
				if rg.table != req.table {
					why = "table"
				} else if rg.kind != req.kind {
					why = "kind"
				} else if !nativeOn {
					why = "native-off"
				} else if strings.EqualFold(normAll(rg.text), normAll(req.text)) {
					why = "text-case"
				} else if sortedChars(rg.text) == sortedChars(req.text) {
					why = "text-anagram"
				}
				x.viol("wrong-callback-fired", why+seqTag, fmt.Sprintf("[%s] request %s/%s %q (native=%v) ran the callback registered for %s", adapter, req.table, req.kind, req.text, nativeOn, desc(ri)), wit)
				return
			}
			if must >= 0 && fired < 0 {
				x.viol("registered-callback-not-fired", req.kind+fmt.Sprintf("/after-create=%v/register-late=%v", installAfterCreate, registerLate)+seqTag, fmt.Sprintf("[%s] request %s/%s %q did not run the callback registered for %s (ran %v)", adapter, req.table, req.kind, req.text, desc(must), ranList), wit)
				return
			}
			// outcome
			cbVerdict := fired >= 0
			switch req.kind {
			case "key", "filter":
				wantN := 0
				if cbVerdict {
					wantN = 1
				}
				if !cbVerdict && c20LowerKeyword(req.text) && (got.Class == adapt.ClsValidation || got.Class == adapt.ClsRejectPanic) {
					break // no callback: the built-in interpreter refuses keywords in lower case
				}
				if got.Class != adapt.ClsOK || len(got.Items) != wantN {
					x.viol("verdict-not-used", req.kind+seqTag, fmt.Sprintf("[%s] %s %q: class %s, %d items; expected %d (callback fired: %v; built-in result false)", adapter, req.kind, req.text, got.Class, len(got.Items), wantN, cbVerdict), wit)
				}
			case "conditional":
				want := adapt.ClsCondFailed
				if cbVerdict {
					want = adapt.ClsOK
				}
				if !cbVerdict && c20LowerKeyword(req.text) && (got.Class == adapt.ClsValidation || got.Class == adapt.ClsRejectPanic) {
					break
				}
				if got.Class != want {
					x.viol("verdict-not-used", req.kind+seqTag, fmt.Sprintf("[%s] conditional put %q: class %s, expected %s (callback fired: %v)", adapter, req.text, got.Class, want, cbVerdict), wit)
				}
			case "update":
				switch {
				case fired >= 0:
					want := c20Mutated(item, fired)
					if got.Class != adapt.ClsOK || !val.ItemsEqual(after.Item, want) {
						x.viol("mutation-not-used", "update", fmt.Sprintf("[%s] update %q: class %s, item %s; expected the registered updater's mutation %s", adapter, req.text, got.Class, after.Item.Canon(), want.Canon()), wit)
					}
				case nativeOn:
					if got.Class != adapt.ClsUnsupported {
						x.viol("missing-updater-not-unsupported", got.Class, fmt.Sprintf("[%s] update %q without registered updater in native mode: class %s, want the unsupported-feature error", adapter, req.text, got.Class), wit)
					} else if !val.ItemsEqual(after.Item, item) {
						x.viol("failed-update-touched-item", "update", fmt.Sprintf("[%s] update %q failed but the item changed to %s", adapter, req.text, after.Item.Canon()), wit)
					}
				default:
					// built-in interpreter: the pool's updates are valid ("set x = :y" in lower case is not)
					if strings.HasPrefix(strings.TrimSpace(req.text), "SET") {
						if got.Class != adapt.ClsOK {
							x.viol("builtin-fallback-failed", "update", fmt.Sprintf("[%s] update %q with native mode off: class %s", adapter, req.text, got.Class), wit)
						}
					}
				}
			}
		}()
	}
}

// c20Mutate is what the registered updater number ri does to the item it is handed: besides leaving its mark
// (attribute cb) it adds, replaces, RENAMES or removes attributes - an updater is free to do any of it, and
// what it leaves behind is the item the operation stores.
func c20Mutate(item map[string]*mtypes.Item, ri int) {
	s := fmt.Sprintf("cb%d", ri)
	item["cb"] = &mtypes.Item{S: &s}
	switch ri % 5 {
	case 1: // rename a -> a_moved (one attribute gone, cb and a_moved new: the item grows)
		if v, ok := item["a"]; ok {
			item["a_moved"] = v
			delete(item, "a")
		}
	case 2: // drop both non-key attributes (the item shrinks)
		delete(item, "a")
		delete(item, "b")
	case 3: // swap one attribute for another of another type (same number of attributes as with the mark alone)
		delete(item, "b")
		t := true
		item["b2"] = &mtypes.Item{BOOL: &t}
	case 4: // replace a value
		n := "42" // (same type: a may be the key of an index a disturbance created)
		item["a"] = &mtypes.Item{S: &n}
	}
}

// c20Mutated is the item c20Mutate leaves behind.
func c20Mutated(item val.Item, ri int) val.Item {
	want := item.Clone()
	want["cb"] = val.Str(fmt.Sprintf("cb%d", ri))
	switch ri % 5 {
	case 1:
		if v, ok := want["a"]; ok {
			want["a_moved"] = v
			delete(want, "a")
		}
	case 2:
		delete(want, "a")
		delete(want, "b")
	case 3:
		delete(want, "b")
		want["b2"] = val.Bool(true)
	case 4:
		want["a"] = val.Str("42")
	}
	return want
}

func sortedChars(s string) string {
	b := []byte(strings.TrimSpace(s))
	sort.Slice(b, func(i, j int) bool { return b[i] < b[j] })
	return string(b)
}

func (p *c20) RunCase(ctx *runner.Ctx) runner.CaseResult {
	x := newRes()
	subs := p.subsets(ctx.Tier)
	nblocks := (len(subs) + c20Block - 1) / c20Block
	seqCases := nblocks
	if ctx.Tier == "thorough" {
		seqCases = nblocks * 2
	}
	if ctx.Case >= seqCases {
		if ctx.Case-seqCases < 2 {
			p.interpreterSwap(x, adapt.Adapters[ctx.Case-seqCases], ctx)
			p.noItemSearches(x, adapt.Adapters[ctx.Case-seqCases])
			p.rejectedNativeUpdate(x, adapt.Adapters[ctx.Case-seqCases])
			p.missingUpdaterAndConditions(x, adapt.Adapters[ctx.Case-seqCases])
		p.prefixNamedTables(x, adapt.Adapters[ctx.Case-seqCases])
		p.composedTexts(x, adapt.Adapters[ctx.Case-seqCases])
		p.keyExistenceGuards(x, adapt.Adapters[ctx.Case-seqCases])
			return x.r
		}
		p.parallelClients(x, ctx.Case-seqCases-2, ctx)
		return x.r
	}
	block := ctx.Case % nblocks
	variant := ctx.Case / nblocks
	for si := block * c20Block; si < (block+1)*c20Block && si < len(subs); si++ {
		regs := subs[si]
		for ri, req := range c20ReqCache {
			// each request on both adapters; modes rotate so that every (mode, order) pair occurs for
			// every request over the registration sets
			k := si + ri + variant
			adapter := adapt.Adapters[k%2]
			nativeOn := (k/2)%4 != 0
			after := (k/8)%2 == 0
			// the request alone, and followed on the SAME client by its nearest neighbours: the same text
			// and kind on the other table, the same text on the same table under another kind, and an
			// anagram of the text (a lookup cache keyed too coarsely would show only on the second call)
			seqs := [][]c20Req{{req}}
			other := "tbb"
			if req.table == "tbb" {
				other = "tba"
			}
			if (si+ri)%3 == 0 {
				seqs = append(seqs, []c20Req{req, {other, req.kind, req.text}})
				if req.kind != "update" {
					k2 := map[string]string{"key": "filter", "filter": "conditional", "conditional": "key"}[req.kind]
					seqs = append(seqs, []c20Req{req, {req.table, k2, req.text}})
					seqs = append(seqs, []c20Req{req, {req.table, req.kind, map[string]string{"a = :b": "b = :a", "b = :a": "a = :b"}[strings.TrimSpace(req.text)]}})
				} else {
					seqs = append(seqs, []c20Req{req, {req.table, req.kind, map[string]string{"SET x = :y": "SET y = :x", "SET y = :x": "SET x = :y"}[strings.TrimSpace(req.text)]}})
				}
			}
			for _, sq := range seqs {
				if sq[len(sq)-1].text == "" {
					continue
				}
				// most sequences run undisturbed; every third one has something happen to the tables between
				// the registration and the requests
				c20Disturb = 0
				if (si+ri+variant)%3 == 1 {
					c20Disturb = 1 + (si*7+ri*3+variant)%(len(c20Disturbances)-1)
				}
				p.runSeq(x, adapter, regs, sq, nativeOn, after, ctx)
				c20Disturb = 0
			}
		}
	}
	if block%40 == 0 {
		x.r.Sample = map[string]interface{}{"registration_pool": len(c20PoolCache), "requests": len(c20ReqCache), "example_registrations": []c20Reg{c20PoolCache[0], c20PoolCache[1]}, "example_request": c20ReqCache[1]}
	}
	return x.r
}
