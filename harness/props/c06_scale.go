package props

import (
	"fmt"

	"verifharness/refmodel"
	"verifharness/val"
)

// c06Lens are operand sizes on both sides of the thresholds an implementation may special-case (inline
// buffers, abbreviated renderings, chunked comparison ...).
var c06Lens = []int{15, 16, 17, 31, 32, 33, 63, 64, 65, 127, 128, 129, 255, 256, 257, 1023, 1025, 4096}

func c06Long(n int, salt byte) string {
	b := make([]byte, n)
	for i := range b {
		b[i] = 'a' + byte((i*7+int(salt))%26)
	}
	return string(b)
}

// c06ScaleMatrix is the "scaled" part of the exhaustive matrix: every comparator and every string / binary
// function on LONG operands that agree on a long prefix and differ late (last byte, middle byte, one byte
// longer / shorter), size() of long values, contains / IN / list indexes over long lists and big sets with the
// hit at every threshold position, long AND / OR chains whose value hinges on one late operand, deep document
// paths and deep parenthesis nesting, and expressions with many placeholders.
func c06ScaleMatrix() []c06Case {
	out := []c06Case{}
	pathL := refmodel.Operand{Kind: "path", Path: refmodel.P("l")}
	pathR := refmodel.Operand{Kind: "path", Path: refmodel.P("r")}
	valX := refmodel.Operand{Kind: "val", Val: ":x"}
	valY := refmodel.Operand{Kind: "val", Val: ":y"}
	mk := func(k val.Kind, s string) val.V {
		if k == val.KB {
			return val.Bin(s)
		}
		return val.Str(s)
	}
	for _, n := range c06Lens {
		base := c06Long(n, 0)
		flip := func(i int) string {
			b := []byte(base)
			b[i] ^= 1
			return string(b)
		}
		variants := []string{base, flip(n - 1), flip(n / 2), flip(0), base + "x", base[:n-1], base[:n/2], base[1:], c06Long(n, 3)}
		for _, k := range []val.Kind{val.KS, val.KB} {
			for _, v := range variants {
				it := val.Item{"l": mk(k, base), "r": mk(k, v), "z": val.Str("bystander")}
				vals := val.Item{":x": mk(k, v)}
				for _, cmp := range []string{"=", "<>", "<", "<=", ">", ">="} {
					out = append(out, c06Case{Cond: &refmodel.Cond{Op: "cmp", Cmp: cmp, Args: []refmodel.Operand{pathL, valX}}, Item: it, Values: vals, Tag: "long-cmp-pv"})
					out = append(out, c06Case{Cond: &refmodel.Cond{Op: "cmp", Cmp: cmp, Args: []refmodel.Operand{pathL, pathR}}, Item: it, Values: val.Item{}, Tag: "long-cmp-pp"})
				}
				for _, fn := range []string{"begins", "contains"} {
					out = append(out, c06Case{Cond: &refmodel.Cond{Op: fn, Args: []refmodel.Operand{pathL, valX}}, Item: it, Values: vals, Tag: "long-" + fn})
					out = append(out, c06Case{Cond: &refmodel.Cond{Op: fn, Args: []refmodel.Operand{pathL, pathR}}, Item: it, Values: val.Item{}, Tag: "long-" + fn + "-pp"})
					out = append(out, c06Case{Cond: &refmodel.Cond{Op: "not", Kids: []*refmodel.Cond{{Op: fn, Args: []refmodel.Operand{pathL, valX}}}}, Item: it, Values: vals, Tag: "long-not-" + fn})
				}
				out = append(out, c06Case{Cond: &refmodel.Cond{Op: "in", Args: []refmodel.Operand{pathL, valY, valX}}, Item: it, Values: val.Item{":x": mk(k, v), ":y": mk(k, "nomatch")}, Tag: "long-in"})
				out = append(out, c06Case{Cond: &refmodel.Cond{Op: "between", Args: []refmodel.Operand{pathL, valX, valY}}, Item: it, Values: val.Item{":x": mk(k, v), ":y": mk(k, base+"y")}, Tag: "long-between"})
				out = append(out, c06Case{Cond: &refmodel.Cond{Op: "between", Args: []refmodel.Operand{pathL, valY, valX}}, Item: it, Values: val.Item{":x": mk(k, v), ":y": mk(k, "A")}, Tag: "long-between"})
				// set membership with long members
				setK := val.KSS
				if k == val.KB {
					setK = val.KBS
				}
				sit := val.Item{"l": val.V{K: setK, Set: []string{base, "zz"}}, "z": val.Str("bystander")}
				out = append(out, c06Case{Cond: &refmodel.Cond{Op: "contains", Args: []refmodel.Operand{pathL, valX}}, Item: sit, Values: vals, Tag: "long-contains-set"})
			}
			for _, d := range []int{-1, 0, 1} {
				it := val.Item{"l": mk(k, base), "z": val.Str("bystander")}
				for _, cmp := range []string{"=", "<", ">"} {
					out = append(out, c06Case{Cond: &refmodel.Cond{Op: "cmp", Cmp: cmp, Args: []refmodel.Operand{{Kind: "size", Path: refmodel.P("l")}, valX}}, Item: it, Values: val.Item{":x": val.Num(fmt.Sprint(n + d))}, Tag: "long-size"})
				}
			}
		}
	}
	// long lists / big sets: the hit at threshold positions
	for _, n := range []int{17, 33, 65, 101, 129, 257} {
		elems := []val.V{}
		members := []string{}
		nums := []string{}
		for i := 0; i < n; i++ {
			elems = append(elems, val.Str(fmt.Sprintf("e%d", i)))
			members = append(members, fmt.Sprintf("e%d", i))
			nums = append(nums, fmt.Sprint(i*3))
		}
		it := val.Item{"l": val.V{K: val.KL, L: elems}, "ss": val.V{K: val.KSS, Set: members}, "ns": val.V{K: val.KNS, Set: nums}, "z": val.Str("bystander"), "s": val.Str("e" + fmt.Sprint(n-1))}
		for _, pos := range []int{0, 15, 16, 31, 32, 63, 64, 99, 100, n - 2, n - 1, n, n + 1} {
			if pos < 0 {
				continue
			}
			probe := val.Str(fmt.Sprintf("e%d", pos))
			out = append(out, c06Case{Cond: &refmodel.Cond{Op: "contains", Args: []refmodel.Operand{pathL, valX}}, Item: it, Values: val.Item{":x": probe}, Tag: "big-contains-list"})
			out = append(out, c06Case{Cond: &refmodel.Cond{Op: "contains", Args: []refmodel.Operand{{Kind: "path", Path: refmodel.P("ss")}, valX}}, Item: it, Values: val.Item{":x": probe}, Tag: "big-contains-ss"})
			out = append(out, c06Case{Cond: &refmodel.Cond{Op: "contains", Args: []refmodel.Operand{{Kind: "path", Path: refmodel.P("ns")}, valX}}, Item: it, Values: val.Item{":x": val.Num(fmt.Sprint(pos * 3))}, Tag: "big-contains-ns"})
			idx := refmodel.Path{{Name: "l"}, {IsIdx: true, Idx: pos}}
			out = append(out, c06Case{Cond: &refmodel.Cond{Op: "cmp", Cmp: "=", Args: []refmodel.Operand{{Kind: "path", Path: idx}, valX}}, Item: it, Values: val.Item{":x": probe}, Tag: "big-list-index"})
			out = append(out, c06Case{Cond: &refmodel.Cond{Op: "exists", Args: []refmodel.Operand{{Kind: "path", Path: idx}}}, Item: it, Values: val.Item{}, Tag: "big-list-index-exists"})
		}
		for _, cmp := range []string{"=", "<", ">"} {
			for _, attr := range []string{"l", "ss", "ns"} {
				for _, d := range []int{-1, 0, 1} {
					out = append(out, c06Case{Cond: &refmodel.Cond{Op: "cmp", Cmp: cmp, Args: []refmodel.Operand{{Kind: "size", Path: refmodel.P(attr)}, valX}}, Item: it, Values: val.Item{":x": val.Num(fmt.Sprint(n + d))}, Tag: "big-size"})
				}
			}
		}
		// set equality between big sets in different member order
		rev := append([]string{}, members...)
		for i, j := 0, len(rev)-1; i < j; i, j = i+1, j-1 {
			rev[i], rev[j] = rev[j], rev[i]
		}
		short := append([]string{}, rev[1:]...)
		for _, cmp := range []string{"=", "<>"} {
			out = append(out, c06Case{Cond: &refmodel.Cond{Op: "cmp", Cmp: cmp, Args: []refmodel.Operand{{Kind: "path", Path: refmodel.P("ss")}, valX}}, Item: it, Values: val.Item{":x": val.V{K: val.KSS, Set: rev}}, Tag: "big-set-eq"})
			out = append(out, c06Case{Cond: &refmodel.Cond{Op: "cmp", Cmp: cmp, Args: []refmodel.Operand{{Kind: "path", Path: refmodel.P("ss")}, valX}}, Item: it, Values: val.Item{":x": val.V{K: val.KSS, Set: short}}, Tag: "big-set-eq"})
			out = append(out, c06Case{Cond: &refmodel.Cond{Op: "cmp", Cmp: cmp, Args: []refmodel.Operand{pathL, valX}}, Item: it, Values: val.Item{":x": val.V{K: val.KL, L: append([]val.V{}, elems...)}}, Tag: "big-list-eq"})
			out = append(out, c06Case{Cond: &refmodel.Cond{Op: "cmp", Cmp: cmp, Args: []refmodel.Operand{pathL, valX}}, Item: it, Values: val.Item{":x": val.V{K: val.KL, L: append(append([]val.V{}, elems[:n-1]...), val.Str("other"))}}, Tag: "big-list-eq"})
		}
		// IN with many members (DynamoDB allows up to 100): the hit at each threshold position
		if n <= 101 {
			for _, hit := range []int{0, 15, 16, 31, 32, 63, 64, n - 2, -1} {
				args := []refmodel.Operand{{Kind: "path", Path: refmodel.P("s")}}
				vals := val.Item{}
				for i := 0; i < n-1 && i < 100; i++ {
					name := fmt.Sprintf(":m%d", i)
					args = append(args, refmodel.Operand{Kind: "val", Val: name})
					if i == hit {
						vals[name] = val.Str("e" + fmt.Sprint(n-1))
					} else {
						vals[name] = val.Str(fmt.Sprintf("miss%d", i))
					}
				}
				out = append(out, c06Case{Cond: &refmodel.Cond{Op: "in", Args: args}, Item: it, Values: vals, Tag: "big-in"})
				// the same list with members of OTHER types mixed in (a number, a binary, a boolean, NULL, a set,
				// a path to a missing attribute, a path to a list): they simply do not match
				mixed := vals.Clone()
				margs := append([]refmodel.Operand{}, args...)
				odd := []val.V{val.Num("7"), val.Bin("e1"), val.Bool(true), val.Null(), val.SS("e1"), val.List(val.Str("e1"))}
				for i := 0; i < n-1 && i < 100; i++ {
					if i != hit && i%5 == 3 {
						mixed[fmt.Sprintf(":m%d", i)] = odd[(i/5)%len(odd)]
					}
				}
				if len(margs) > 4 && hit != 2 && hit != 3 {
					margs[3] = refmodel.Operand{Kind: "path", Path: refmodel.P("nope")}
					margs[4] = refmodel.Operand{Kind: "path", Path: refmodel.P("l")}
					delete(mixed, ":m2")
					delete(mixed, ":m3")
				}
				out = append(out, c06Case{Cond: &refmodel.Cond{Op: "in", Args: margs}, Item: it, Values: mixed, Tag: "big-in-mixed"})
				// ... and with a NUMBER subject against string members
				nit := it.Clone()
				nit["s"] = val.Num("5")
				out = append(out, c06Case{Cond: &refmodel.Cond{Op: "in", Args: args}, Item: nit, Values: vals, Tag: "big-in-mixed"})
			}
		}
	}
	// long AND / OR chains whose value hinges on ONE operand at a threshold position
	for _, n := range []int{9, 17, 33, 65, 100} {
		it := val.Item{"z": val.Str("bystander")}
		for i := 0; i < n; i++ {
			it[fmt.Sprintf("a%d", i)] = val.Num(fmt.Sprint(i))
		}
		for _, odd := range []int{0, 7, 8, 15, 16, 31, 32, 63, 64, n - 1, -1} {
			if odd >= n {
				continue
			}
			for _, op := range []string{"and", "or"} {
				kids := []*refmodel.Cond{}
				vals := val.Item{}
				for i := 0; i < n; i++ {
					name := fmt.Sprintf(":v%d", i)
					want := i
					// AND: all true except the odd one; OR: all false except the odd one
					if (op == "and") == (i == odd) {
						want = i + 1000
					}
					vals[name] = val.Num(fmt.Sprint(want))
					kids = append(kids, &refmodel.Cond{Op: "cmp", Cmp: "=", Args: []refmodel.Operand{{Kind: "path", Path: refmodel.P(fmt.Sprintf("a%d", i))}, {Kind: "val", Val: name}}})
				}
				// left-nested binary tree (what the grammar produces for a OP b OP c ...)
				c := kids[0]
				for _, k := range kids[1:] {
					c = &refmodel.Cond{Op: op, Kids: []*refmodel.Cond{c, k}}
				}
				out = append(out, c06Case{Cond: c, Item: it, Values: vals, Tag: "long-chain-" + op})
			}
		}
	}
	// deep document paths (DynamoDB allows 32 levels) and deep NOT / parenthesis nesting
	for _, d := range []int{4, 8, 16, 31, 32} {
		v := val.Str("leaf")
		pth := refmodel.Path{{Name: "m"}}
		for i := 0; i < d; i++ {
			if i%3 == 2 {
				v = val.List(val.Str("pad"), v)
			} else {
				v = val.Map(map[string]val.V{"k": v, "other": val.Num("1")})
			}
		}
		for i := d - 1; i >= 0; i-- {
			if i%3 == 2 {
				pth = append(pth, refmodel.PathEl{IsIdx: true, Idx: 1})
			} else {
				pth = append(pth, refmodel.PathEl{Name: "k"})
			}
		}
		it := val.Item{"m": v, "z": val.Str("bystander")}
		po := refmodel.Operand{Kind: "path", Path: pth}
		short := refmodel.Operand{Kind: "path", Path: pth[:len(pth)-1]}
		for _, cmp := range []string{"=", "<>"} {
			out = append(out, c06Case{Cond: &refmodel.Cond{Op: "cmp", Cmp: cmp, Args: []refmodel.Operand{po, valX}}, Item: it, Values: val.Item{":x": val.Str("leaf")}, Tag: "deep-path"})
			out = append(out, c06Case{Cond: &refmodel.Cond{Op: "cmp", Cmp: cmp, Args: []refmodel.Operand{short, valX}}, Item: it, Values: val.Item{":x": val.Str("leaf")}, Tag: "deep-path"})
		}
		out = append(out, c06Case{Cond: &refmodel.Cond{Op: "exists", Args: []refmodel.Operand{po}}, Item: it, Values: val.Item{}, Tag: "deep-path"})
		out = append(out, c06Case{Cond: &refmodel.Cond{Op: "type", Args: []refmodel.Operand{po, valX}}, Item: it, Values: val.Item{":x": val.Str("S")}, Tag: "deep-path"})
		out = append(out, c06Case{Cond: &refmodel.Cond{Op: "begins", Args: []refmodel.Operand{po, valX}}, Item: it, Values: val.Item{":x": val.Str("le")}, Tag: "deep-path"})
	}
	for _, d := range []int{5, 16, 33, 64, 101} {
		for _, truth := range []bool{true, false} {
			c := &refmodel.Cond{Op: "cmp", Cmp: "=", Args: []refmodel.Operand{pathL, valX}}
			for i := 0; i < d; i++ {
				c = &refmodel.Cond{Op: "not", Kids: []*refmodel.Cond{c}}
			}
			x := "a"
			if !truth {
				x = "b"
			}
			out = append(out, c06Case{Cond: c, Item: val.Item{"l": val.Str("a"), "z": val.Str("bystander")}, Values: val.Item{":x": val.Str(x)}, Tag: "deep-not"})
		}
	}
	// many #name and :value placeholders in one expression (more than 26, more than 100), long attribute names
	for _, n := range []int{27, 64, 110} {
		it := val.Item{"z": val.Str("bystander")}
		kids := []*refmodel.Cond{}
		vals := val.Item{}
		for i := 0; i < n; i++ {
			attr := fmt.Sprintf("attr_%03d_%s", i, c06Long(i%40, 1))
			it[attr] = val.Num(fmt.Sprint(i))
			vn := fmt.Sprintf(":val%d", i)
			vals[vn] = val.Num(fmt.Sprint(i))
			kids = append(kids, &refmodel.Cond{Op: "cmp", Cmp: "=", Args: []refmodel.Operand{{Kind: "path", Path: refmodel.Path{{Name: attr, Alias: fmt.Sprintf("#n%d", i)}}}, {Kind: "val", Val: vn}}})
		}
		for _, breakAt := range []int{-1, 0, 25, 26, 63, n - 1} {
			if breakAt >= n {
				continue
			}
			v2 := vals.Clone()
			if breakAt >= 0 {
				v2[fmt.Sprintf(":val%d", breakAt)] = val.Num("99999")
			}
			c := kids[0]
			for _, k := range kids[1:] {
				c = &refmodel.Cond{Op: "and", Kids: []*refmodel.Cond{c, k}}
			}
			out = append(out, c06Case{Cond: c, Item: it, Values: v2, Tag: "many-placeholders"})
		}
	}
	for _, n := range []int{64, 255, 256, 1000} {
		attr := c06Long(n, 5)
		it := val.Item{attr: val.Str("v"), attr[:n-1]: val.Str("w"), "z": val.Str("bystander")}
		for _, a := range []string{attr, attr[:n-1], attr + "x"} {
			po := refmodel.Operand{Kind: "path", Path: refmodel.Path{{Name: a}}}
			pa := refmodel.Operand{Kind: "path", Path: refmodel.Path{{Name: a, Alias: "#long"}}}
			for _, o := range []refmodel.Operand{po, pa} {
				out = append(out, c06Case{Cond: &refmodel.Cond{Op: "cmp", Cmp: "=", Args: []refmodel.Operand{o, valX}}, Item: it, Values: val.Item{":x": val.Str("v")}, Tag: "long-attribute-name"})
				out = append(out, c06Case{Cond: &refmodel.Cond{Op: "exists", Args: []refmodel.Operand{o}}, Item: it, Values: val.Item{}, Tag: "long-attribute-name"})
			}
		}
	}
	return out
}
