// Package runner is the process model of the harness: a parent that spawns worker child
// processes, journals, known-findings lookup, evidence and verdicts.
package runner

import (
	"bufio"
	"bytes"
	"crypto/sha1"
	"encoding/hex"
	"encoding/json"
	"fmt"
	"os"
	"os/exec"
	"path/filepath"
	"regexp"
	"sort"
	"strconv"
	"strings"
	"sync"
	"time"
)

// Violation is one refutation of a property rule.
type Violation struct {
	Prop    string      `json:"prop"`
	Rule    string      `json:"rule"`           // rule id within the property
	Feature string      `json:"feature"`        // feature tuple (no concrete keys/values)
	Detail  string      `json:"detail"`         // human-readable
	Witness interface{} `json:"witness"`        // replayable input / history
	Case    int         `json:"case"`           // case index (replay: rerun this case)
	Extra   interface{} `json:"extra,omitempty"` // diagnostics (hook state …)
}

// Sig is the signature used for the known-findings lookup.
func (v Violation) Sig() string { return v.Prop + ":" + v.Rule + ":" + v.Feature }

// CaseResult is what a worker reports for one case.
type CaseResult struct {
	Case         int            `json:"case"`
	Evals        int            `json:"evals"`           // monitored executions in this case
	Fingerprints []string       `json:"fp,omitempty"`    // fingerprints of the distinct non-trivial sub-cases
	Violations   []Violation    `json:"viol,omitempty"`
	Sample       interface{}    `json:"sample,omitempty"` // written out for the evidence (first few only)
	Counters     map[string]int `json:"ctr,omitempty"`
	Sets         map[string][]string `json:"sets,omitempty"` // named sets merged by union (e.g. error classes reached)
	Inconclusive int            `json:"inc,omitempty"`
}

// Ctx is handed to RunCase.
type Ctx struct {
	Tier  string
	Seed  int64
	Case  int
	Trace func(format string, a ...interface{}) // progress trace (written before each risky call)
}

// Property is implemented by each property's monitor.
type Property interface {
	ID() string
	Level() string // "exploration" or "fault_enumeration"
	Rule() string  // how cases are generated and what makes one non-trivial / distinct
	Assumptions() []string
	NumCases(tier string) int
	Exhaustive(tier string) bool
	RunCase(ctx *Ctx) CaseResult
}

var registry = map[string]Property{}

// Register adds a property monitor.
func Register(p Property) { registry[p.ID()] = p }

// Get returns a registered monitor.
func Get(id string) Property { return registry[id] }

// IDs lists registered properties.
func IDs() []string {
	out := []string{}
	for k := range registry {
		out = append(out, k)
	}
	sort.Strings(out)
	return out
}

// ---------------------------------------------------------------------------------------
// worker

// WorkerMain runs cases [from,to) with the given stride and journals each one.
func WorkerMain(prop, tier string, seed int64, from, to, stride int, journal string, trace bool) int {
	p := Get(prop)
	if p == nil {
		fmt.Fprintf(os.Stderr, "unknown property %s\n", prop)
		return 3
	}
	f, err := os.OpenFile(journal, os.O_CREATE|os.O_WRONLY|os.O_APPEND, 0o644)
	if err != nil {
		fmt.Fprintln(os.Stderr, err)
		return 3
	}
	defer f.Close()
	w := bufio.NewWriter(f)
	for i := from; i < to; i += stride {
		fmt.Fprintf(w, "B %d\n", i)
		w.Flush()
		ctx := &Ctx{Tier: tier, Seed: seed, Case: i, Trace: func(string, ...interface{}) {}}
		if trace {
			ctx.Trace = func(format string, a ...interface{}) {
				fmt.Fprintf(w, "P %d %s\n", i, strings.ReplaceAll(fmt.Sprintf(format, a...), "\n", "\\n"))
				w.Flush()
			}
		}
		res := p.RunCase(ctx)
		res.Case = i
		for k := range res.Violations {
			res.Violations[k].Prop = strings.TrimSuffix(prop, "R")
			res.Violations[k].Case = i
		}
		b, err := json.Marshal(res)
		if err != nil {
			b, _ = json.Marshal(CaseResult{Case: i, Inconclusive: 1, Counters: map[string]int{"marshal_error": 1}})
		}
		fmt.Fprintf(w, "E %s\n", b)
		w.Flush()
	}
	fmt.Fprintf(w, "D\n")
	w.Flush()
	return 0
}

// ---------------------------------------------------------------------------------------
// parent

// Options for a check run.
type Options struct {
	Prop     string
	Tier     string
	Seed     int64
	Workers  int
	Self     string // path of this binary
	WorkDir  string // /verif/work/<prop>
	Root     string // /verif
	Race     bool   // the binary is a -race build: collect race logs
	RaceSelf string // path of the -race build of this binary: runs property <Prop>R with it and collects race reports
	Timeout  time.Duration
	ExtraEnv []string
}

type agg struct {
	mu        sync.Mutex
	evals     int
	fps       map[string]bool
	viols     []Violation
	samples   []interface{}
	counters  map[string]int
	sets      map[string]map[string]bool
	inconcl   int
	crashes   int
	casesDone int
}

func (a *agg) add(r CaseResult) {
	a.mu.Lock()
	defer a.mu.Unlock()
	a.casesDone++
	a.evals += r.Evals
	for _, fp := range r.Fingerprints {
		a.fps[fp] = true
	}
	a.viols = append(a.viols, r.Violations...)
	if r.Sample != nil && len(a.samples) < 6 {
		a.samples = append(a.samples, r.Sample)
	}
	for k, v := range r.Counters {
		a.counters[k] += v
	}
	for k, vs := range r.Sets {
		if a.sets[k] == nil {
			a.sets[k] = map[string]bool{}
		}
		for _, v := range vs {
			a.sets[k][v] = true
		}
	}
	a.inconcl += r.Inconclusive
}

var fatalRe = regexp.MustCompile(`(?m)^(fatal error: .*|panic: .*|runtime: goroutine stack exceeds.*)$`)
var minidynFrameRe = regexp.MustCompile(`github\.com/truora/minidyn/([^\s(]+(?:\([^)]*\))?[^\s(]*)\(`)

func crashSite(stderr string) (string, string) {
	msg := "unknown"
	if m := fatalRe.FindString(stderr); m != "" {
		msg = m
	}
	site := "?"
	if m := minidynFrameRe.FindStringSubmatch(stderr); m != nil {
		site = m[1]
	}
	return msg, site
}

// runWorkerSlice drives one worker slot: (re)starts the child until its slice is done.
func runWorkerSlice(o Options, slot, n int, a *agg) {
	from := slot % 100
	attempt := 0
	for from < n {
		attempt++
		journal := filepath.Join(o.WorkDir, fmt.Sprintf("journal.%d.%d", slot, attempt))
		errFile := filepath.Join(o.WorkDir, fmt.Sprintf("stderr.%d.%d", slot, attempt))
		os.Remove(journal)
		args := []string{"-s", "QUIT", fmt.Sprintf("%d", int(o.Timeout.Seconds())), o.Self, "-worker", "-prop", o.Prop, "-tier", o.Tier,
			"-seed", strconv.FormatInt(o.Seed, 10), "-from", strconv.Itoa(from), "-to", strconv.Itoa(n), "-stride", strconv.Itoa(o.Workers), "-journal", journal}
		cmd := exec.Command("timeout", args...)
		ef, _ := os.Create(errFile)
		cmd.Stderr = ef
		cmd.Stdout = ef
		cmd.Env = append(os.Environ(), o.ExtraEnv...)
		err := cmd.Run()
		ef.Close()
		last, done := readJournal(journal, a)
		if done && err == nil {
			return
		}
		// the worker died (or was killed by the watchdog) while running case `last`
		stderrB, _ := os.ReadFile(errFile)
		stderr := string(stderrB)
		if len(stderr) > 20000 {
			stderr = stderr[:10000] + "\n…\n" + stderr[len(stderr)-10000:]
		}
		if last < 0 {
			// died before starting any case: a harness problem, not a verdict
			a.mu.Lock()
			a.inconcl++
			a.counters["worker_start_failures"]++
			a.mu.Unlock()
			fmt.Fprintf(os.Stderr, "worker %d failed to start: %v\n%s\n", slot, err, trunc(stderr, 2000))
			return
		}
		exitCode := -1
		if ee, ok := err.(*exec.ExitError); ok {
			exitCode = ee.ExitCode()
		}
		timedOut := exitCode == 124 || strings.Contains(stderr, "SIGQUIT: quit")
		msg, site := crashSite(stderr)
		a.mu.Lock()
		a.crashes++
		a.mu.Unlock()
		// get the trace of the crashing case by re-running it alone with tracing on
		traceTxt := ""
		if !timedOut {
			traceTxt = rerunWithTrace(o, last)
		}
		v := Violation{Prop: strings.TrimSuffix(o.Prop, "R"), Case: last,
			Witness: map[string]interface{}{"prop": o.Prop, "tier": o.Tier, "seed": o.Seed, "case": last, "trace_tail": traceTxt},
			Extra:   map[string]interface{}{"stderr": trunc(stderr, 6000)}}
		if timedOut {
			v.Rule = "watchdog"
			v.Feature = classifyDump(stderr)
			v.Detail = "worker stopped by the watchdog while running case " + strconv.Itoa(last) + ": " + v.Feature
			if v.Feature == "inconclusive" {
				a.mu.Lock()
				a.inconcl++
				a.counters["watchdog_inconclusive"]++
				a.mu.Unlock()
				from = last + o.Workers
				continue
			}
		} else {
			v.Rule = "process-crash"
			v.Feature = site
			v.Detail = fmt.Sprintf("worker process died in case %d: %s (innermost minidyn frame: %s)", last, msg, site)
		}
		a.mu.Lock()
		a.viols = append(a.viols, v)
		a.mu.Unlock()
		from = last + o.Workers
	}
}

// AllMinidynGoroutinesBlocked analyses a goroutine dump (runtime.Stack(all) or the SIGQUIT dump): it reports
// true when at least one goroutine is inside a minidyn frame and EVERY such goroutine is parked on a mutex /
// semaphore (none running, runnable, sleeping or in a syscall). Contention on the client mutex alone never
// satisfies this: the holder of the mutex is inside minidyn and not parked.
func AllMinidynGoroutinesBlocked(dump string) bool {
	inMinidyn, blocked := 0, 0
	for _, g := range strings.Split(dump, "\n\n") {
		g = strings.TrimSpace(g)
		if !strings.HasPrefix(g, "goroutine ") || !strings.Contains(g, "github.com/truora/minidyn/") {
			continue
		}
		inMinidyn++
		head := g
		if i := strings.Index(g, "\n"); i >= 0 {
			head = g[:i]
		}
		if strings.Contains(head, "[sync.Mutex.Lock") || strings.Contains(head, "[semacquire") || strings.Contains(head, "[sync.RWMutex") || strings.Contains(head, "[sync.WaitGroup.Wait") || strings.Contains(head, "[sync.Cond.Wait") || strings.Contains(head, "[chan ") || strings.Contains(head, "[select") {
			blocked++
		}
	}
	return inMinidyn > 0 && blocked == inMinidyn
}

func classifyDump(dump string) string {
	// every goroutine that is inside the library is parked on a lock => deadlock
	if AllMinidynGoroutinesBlocked(dump) {
		return "deadlock"
	}
	if strings.Contains(dump, "goroutine ") && strings.Contains(dump, "[running]") && strings.Contains(dump, "minidyn/interpreter/language.") {
		return "non-termination:interpreter/language"
	}
	return "inconclusive"
}

func rerunWithTrace(o Options, c int) string {
	journal := filepath.Join(o.WorkDir, fmt.Sprintf("trace.%d", c))
	os.Remove(journal)
	cmd := exec.Command("timeout", "-s", "KILL", "60", o.Self, "-worker", "-trace", "-prop", o.Prop, "-tier", o.Tier,
		"-seed", strconv.FormatInt(o.Seed, 10), "-from", strconv.Itoa(c), "-to", strconv.Itoa(c+1), "-stride", "1", "-journal", journal)
	cmd.Env = append(os.Environ(), o.ExtraEnv...)
	cmd.Run()
	b, _ := os.ReadFile(journal)
	lines := strings.Split(strings.TrimSpace(string(b)), "\n")
	if len(lines) > 12 {
		lines = lines[len(lines)-12:]
	}
	return strings.Join(lines, "\n")
}

func trunc(s string, n int) string {
	if len(s) > n {
		return s[:n] + "…"
	}
	return s
}

// readJournal merges finished cases; returns the last begun-but-unfinished case (or -1) and
// whether the worker reported completion.
func readJournal(path string, a *agg) (int, bool) {
	f, err := os.Open(path)
	if err != nil {
		return -1, false
	}
	defer f.Close()
	sc := bufio.NewScanner(f)
	sc.Buffer(make([]byte, 1<<20), 1<<28)
	open := -1
	done := false
	begun := false
	for sc.Scan() {
		line := sc.Text()
		switch {
		case strings.HasPrefix(line, "B "):
			open, _ = strconv.Atoi(line[2:])
			begun = true
		case strings.HasPrefix(line, "E "):
			var r CaseResult
			if err := json.Unmarshal([]byte(line[2:]), &r); err == nil {
				a.add(r)
			}
			open = -2
		case line == "D":
			done = true
		}
	}
	if !begun {
		return -1, done
	}
	if open == -2 {
		// finished its last case but did not write D (killed between cases)
		return -1, done
	}
	return open, done
}

// Finding is one line of KNOWN_FINDINGS.txt.
type Finding struct {
	Status string // open | fixed
	Prop   string
	Sig    string
	Text   string
}

// LoadFindings parses the committed known-findings file.
func LoadFindings(path string) []Finding {
	b, err := os.ReadFile(path)
	if err != nil {
		return nil
	}
	var out []Finding
	for _, line := range strings.Split(string(b), "\n") {
		line = strings.TrimSpace(line)
		if line == "" || strings.HasPrefix(line, "#") {
			continue
		}
		var f Finding
		switch {
		case strings.HasPrefix(line, "open:"):
			f.Status = "open"
			line = strings.TrimSpace(line[5:])
		case strings.HasPrefix(line, "fixed:"):
			f.Status = "fixed"
			line = strings.TrimSpace(line[6:])
		default:
			continue
		}
		fields := strings.Fields(line)
		rest := []string{}
		for _, fl := range fields {
			switch {
			case strings.HasPrefix(fl, "property=") && f.Prop == "":
				f.Prop = fl[9:]
			case strings.HasPrefix(fl, "sig=") && f.Sig == "":
				f.Sig = fl[4:]
			default:
				rest = append(rest, fl)
			}
		}
		f.Text = strings.Join(rest, " ")
		out = append(out, f)
	}
	return out
}

// Check runs a property check end to end and returns the process exit code.
func Check(o Options) int {
	start := time.Now()
	p := Get(o.Prop)
	if p == nil {
		fmt.Fprintf(os.Stderr, "unknown property %s\n", o.Prop)
		return 3
	}
	os.RemoveAll(o.WorkDir)
	os.MkdirAll(o.WorkDir, 0o755)
	n := p.NumCases(o.Tier)
	a := &agg{fps: map[string]bool{}, counters: map[string]int{}, sets: map[string]map[string]bool{}}
	if o.Workers > n {
		o.Workers = n
	}
	if o.Workers < 1 {
		o.Workers = 1
	}
	if o.Race {
		o.ExtraEnv = append(o.ExtraEnv, "GORACE=halt_on_error=0 log_path="+filepath.Join(o.WorkDir, "race"))
	}
	var wg sync.WaitGroup
	for s := 0; s < o.Workers; s++ {
		wg.Add(1)
		go func(s int) {
			defer wg.Done()
			runWorkerSlice(o, s, n, a)
		}(s)
	}
	wg.Wait()
	if o.RaceSelf != "" {
		if rp := Get(o.Prop + "R"); rp != nil {
			ro := o
			ro.Prop = o.Prop + "R"
			ro.Self = o.RaceSelf
			ro.ExtraEnv = append(append([]string{}, o.ExtraEnv...), "GORACE=halt_on_error=0 log_path="+filepath.Join(o.WorkDir, "race"))
			rn := rp.NumCases(o.Tier)
			if ro.Workers > rn {
				ro.Workers = rn
			}
			// the race build is slow and every case already runs many goroutines: few processes
			if ro.Workers > 4 {
				ro.Workers = 4
			}
			var wg2 sync.WaitGroup
			for s := 0; s < ro.Workers; s++ {
				wg2.Add(1)
				go func(s int) {
					defer wg2.Done()
					runWorkerSlice(ro, s+100, rn, a)
				}(s)
			}
			wg2.Wait()
			n += rn
			o.Race = true
		}
	}
	if o.Race {
		collectRaceReports(o, a)
	}
	return finish(o, p, a, n, time.Since(start))
}

var raceEntryRe = regexp.MustCompile(`github\.com/truora/minidyn/(aws-v[12]/client)\.(?:\(\*Client\)\.)?([A-Za-z]+)\(`)

func collectRaceReports(o Options, a *agg) {
	files, _ := filepath.Glob(filepath.Join(o.WorkDir, "race.*"))
	blocks := 0
	seen := map[string]bool{}
	for _, f := range files {
		b, _ := os.ReadFile(f)
		for _, blk := range strings.Split(string(b), "==================") {
			if !strings.Contains(blk, "WARNING: DATA RACE") {
				continue
			}
			if !strings.Contains(blk, "github.com/truora/minidyn/") {
				a.counters["race_reports_outside_minidyn"]++
				continue
			}
			blocks++
			// outermost minidyn client entry points of the two stacks
			parts := strings.SplitN(blk, "Previous ", 2)
			ent := []string{}
			for _, part := range parts {
				ms := raceEntryRe.FindAllStringSubmatch(part, -1)
				e := "?"
				// outermost = last client frame before leaving the stack section of this access
				sec := part
				if i := strings.Index(sec, "Goroutine "); i > 0 {
					sec = sec[:i]
				}
				ms = raceEntryRe.FindAllStringSubmatch(sec, -1)
				if len(ms) > 0 {
					m := ms[len(ms)-1]
					e = m[1][4:6] + "." + m[2]
				}
				ent = append(ent, e)
			}
			sort.Strings(ent)
			sig := strings.Join(ent, "|")
			if seen[sig] {
				continue
			}
			seen[sig] = true
			a.viols = append(a.viols, Violation{Prop: strings.TrimSuffix(o.Prop, "R"), Rule: "data-race", Feature: sig,
				Detail:  "race detector report between " + sig,
				Witness: map[string]interface{}{"report": trunc(blk, 5000), "file": f}})
		}
	}
	a.counters["race_report_blocks"] += blocks
}

func sigHash(s string) string {
	h := sha1.Sum([]byte(s))
	return hex.EncodeToString(h[:6])
}

func finish(o Options, p Property, a *agg, n int, wall time.Duration) int {
	findings := LoadFindings(filepath.Join(o.Root, "KNOWN_FINDINGS.txt"))
	open := map[string]Finding{}
	for _, f := range findings {
		if f.Status == "open" && f.Prop == o.Prop {
			open[f.Sig] = f
		}
	}
	replayDir := filepath.Join(o.Root, "replay", o.Prop)
	os.RemoveAll(replayDir)
	os.MkdirAll(replayDir, 0o755)
	bySig := map[string][]Violation{}
	order := []string{}
	for _, v := range a.viols {
		s := v.Sig()
		if _, ok := bySig[s]; !ok {
			order = append(order, s)
		}
		bySig[s] = append(bySig[s], v)
	}
	sort.Strings(order)
	newViol := 0
	knownHit := []string{}
	var out bytes.Buffer
	for _, s := range order {
		vs := bySig[s]
		if f, ok := open[s]; ok {
			fmt.Fprintf(&out, "KNOWN-FINDING: property=%s %s [sig=%s, %d occurrences this run]\n", o.Prop, f.Text, s, len(vs))
			knownHit = append(knownHit, s)
			continue
		}
		newViol++
		// smallest witness first
		sort.SliceStable(vs, func(i, j int) bool {
			bi, _ := json.Marshal(vs[i].Witness)
			bj, _ := json.Marshal(vs[j].Witness)
			return len(bi) < len(bj)
		})
		path := filepath.Join(replayDir, sigHash(s)+".json")
		b, _ := json.MarshalIndent(map[string]interface{}{"signature": s, "occurrences": len(vs), "tier": o.Tier, "seed": o.Seed, "violation": vs[0]}, "", " ")
		os.WriteFile(path, b, 0o644)
		fmt.Fprintf(&out, "VIOLATION property=%s replay=%s\n", o.Prop, path)
		fmt.Fprintf(&out, "  signature: %s (%d occurrences)\n  %s\n", s, len(vs), trunc(vs[0].Detail, 700))
	}
	os.Stdout.Write(out.Bytes())

	setsOut := map[string][]string{}
	for k, m := range a.sets {
		for v := range m {
			setsOut[k] = append(setsOut[k], v)
		}
		sort.Strings(setsOut[k])
	}
	cov := map[string]interface{}{
		"evaluations":         a.evals,
		"distinct_nontrivial": len(a.fps),
		"rule":                p.Rule(),
		"samples":             a.samples,
		"exhaustive":          p.Exhaustive(o.Tier),
		"cases":               n,
		"cases_completed":     a.casesDone,
		"counters":            a.counters,
		"observed_sets":       setsOut,
		"inconclusive":        a.inconcl,
		"worker_crashes":      a.crashes,
		"known_findings_hit":  knownHit,
		"workers":             o.Workers,
	}
	if len(a.samples) == 0 {
		cov["samples"] = []interface{}{}
	}
	ev := map[string]interface{}{
		"property_id": o.Prop,
		"tier":        o.Tier,
		"seed":        o.Seed,
		"level":       p.Level(),
		"coverage":    cov,
		"assumptions": p.Assumptions(),
		"wall_s":      wall.Seconds(),
		"violations":  newViol,
	}
	os.MkdirAll(filepath.Join(o.Root, "evidence"), 0o755)
	b, _ := json.MarshalIndent(ev, "", " ")
	os.WriteFile(filepath.Join(o.Root, "evidence", o.Prop+".json"), b, 0o644)

	fmt.Printf("%s %s seed=%d: cases=%d/%d evaluations=%d distinct_nontrivial=%d new_violations=%d known=%d inconclusive=%d wall=%.1fs\n",
		o.Prop, o.Tier, o.Seed, a.casesDone, n, a.evals, len(a.fps), newViol, len(knownHit), a.inconcl, wall.Seconds())
	if newViol > 0 {
		return 1
	}
	if a.evals == 0 || len(a.fps) < 2 || a.casesDone+a.crashes < n {
		fmt.Printf("INCONCLUSIVE property=%s: the monitors observed too little (evaluations=%d distinct=%d cases %d/%d)\n", o.Prop, a.evals, len(a.fps), a.casesDone, n)
		return 2
	}
	return 0
}

// Replay re-executes the case named in a replay file in-process and prints what happens.
func Replay(path string) int {
	b, err := os.ReadFile(path)
	if err != nil {
		fmt.Fprintln(os.Stderr, err)
		return 3
	}
	var r struct {
		Signature string `json:"signature"`
		Tier      string `json:"tier"`
		Seed      int64  `json:"seed"`
		Violation Violation
	}
	if err := json.Unmarshal(b, &r); err != nil {
		fmt.Fprintln(os.Stderr, err)
		return 3
	}
	p := Get(r.Violation.Prop)
	if p == nil {
		fmt.Fprintf(os.Stderr, "unknown property %q\n", r.Violation.Prop)
		return 3
	}
	ctx := &Ctx{Tier: r.Tier, Seed: r.Seed, Case: r.Violation.Case, Trace: func(f string, a ...interface{}) { fmt.Printf("  trace: "+f+"\n", a...) }}
	res := p.RunCase(ctx)
	hit := false
	for _, v := range res.Violations {
		v.Prop = r.Violation.Prop
		fmt.Printf("replayed violation sig=%s\n  %s\n", v.Sig(), v.Detail)
		if v.Sig() == r.Signature {
			hit = true
		}
	}
	if hit {
		fmt.Printf("VIOLATION property=%s replay=%s\n", r.Violation.Prop, path)
		return 1
	}
	fmt.Println("the recorded violation did not reproduce on the current tree")
	return 0
}
