module verifharness

go 1.20

require (
	github.com/anishathalye/porcupine v1.3.0
	github.com/aws/aws-sdk-go v1.40.12
	github.com/aws/aws-sdk-go-v2 v1.25.0
	github.com/aws/aws-sdk-go-v2/service/dynamodb v1.29.0
	github.com/aws/smithy-go v1.20.0
	github.com/truora/minidyn v0.0.0
)

require (
	github.com/aws/aws-sdk-go-v2/internal/configsources v1.3.0 // indirect
	github.com/aws/aws-sdk-go-v2/internal/endpoints/v2 v2.6.0 // indirect
	github.com/aws/aws-sdk-go-v2/service/internal/accept-encoding v1.11.0 // indirect
	github.com/aws/aws-sdk-go-v2/service/internal/endpoint-discovery v1.9.0 // indirect
	github.com/jmespath/go-jmespath v0.4.0 // indirect
)

replace github.com/truora/minidyn => /repo
