package refmodel

import (
	"testing"

	"verifharness/val"
)

// Hand-computed truth table for the oracle itself.
func TestCondTruthTable(t *testing.T) {
	item := val.Item{"s": val.Str("abc"), "n": val.Num("10"), "z": val.Null(), "l": val.List(val.Str("a"), val.Num("1")), "m": val.Map(map[string]val.V{"x": val.Num("2")}), "ss": val.SS("a", "b")}
	p := func(names ...string) Operand { return Operand{Kind: "path", Path: P(names...)} }
	v := func(n string) Operand { return Operand{Kind: "val", Val: n} }
	cases := []struct {
		c    *Cond
		vals val.Item
		want Res
	}{
		{&Cond{Op: "cmp", Cmp: "=", Args: []Operand{p("s"), v(":v")}}, val.Item{":v": val.Str("abc")}, T},
		{&Cond{Op: "cmp", Cmp: "=", Args: []Operand{p("s"), v(":v")}}, val.Item{":v": val.Num("1")}, F},
		{&Cond{Op: "cmp", Cmp: "<>", Args: []Operand{p("nope"), v(":v")}}, val.Item{":v": val.Num("1")}, T},
		{&Cond{Op: "cmp", Cmp: "<", Args: []Operand{p("nope"), v(":v")}}, val.Item{":v": val.Num("1")}, F},
		{&Cond{Op: "cmp", Cmp: "<", Args: []Operand{p("n"), v(":v")}}, val.Item{":v": val.Num("9")}, F},
		{&Cond{Op: "cmp", Cmp: ">", Args: []Operand{p("n"), v(":v")}}, val.Item{":v": val.Num("9.5")}, T},
		{&Cond{Op: "cmp", Cmp: "<", Args: []Operand{p("n"), v(":v")}}, val.Item{":v": val.Str("9")}, F},
		{&Cond{Op: "cmp", Cmp: "=", Args: []Operand{p("n"), v(":v")}}, val.Item{":v": val.Num("1e1")}, T},
		{&Cond{Op: "exists", Args: []Operand{p("z")}}, nil, T},
		{&Cond{Op: "notexists", Args: []Operand{p("m", "y")}}, nil, T},
		{&Cond{Op: "exists", Args: []Operand{{Kind: "path", Path: Path{{Name: "l"}, {IsIdx: true, Idx: 2}}}}}, nil, F},
		{&Cond{Op: "type", Args: []Operand{p("z"), v(":t")}}, val.Item{":t": val.Str("NULL")}, T},
		{&Cond{Op: "type", Args: []Operand{p("nope"), v(":t")}}, val.Item{":t": val.Str("NULL")}, F},
		{&Cond{Op: "begins", Args: []Operand{p("s"), v(":v")}}, val.Item{":v": val.Str("ab")}, T},
		{&Cond{Op: "contains", Args: []Operand{p("ss"), v(":v")}}, val.Item{":v": val.Str("b")}, T},
		{&Cond{Op: "contains", Args: []Operand{p("l"), v(":v")}}, val.Item{":v": val.Num("1.0")}, T},
		{&Cond{Op: "between", Args: []Operand{p("n"), v(":a"), v(":b")}}, val.Item{":a": val.Num("10"), ":b": val.Num("10")}, T},
		{&Cond{Op: "in", Args: []Operand{p("s"), v(":a"), v(":b")}}, val.Item{":a": val.Str("x"), ":b": val.Str("abc")}, T},
		{&Cond{Op: "cmp", Cmp: "=", Args: []Operand{{Kind: "size", Path: P("l")}, v(":v")}}, val.Item{":v": val.Num("2")}, T},
		{&Cond{Op: "not", Kids: []*Cond{{Op: "exists", Args: []Operand{p("s")}}}}, nil, F},
		{&Cond{Op: "or", Kids: []*Cond{{Op: "exists", Args: []Operand{p("nope")}}, {Op: "and", Kids: []*Cond{{Op: "exists", Args: []Operand{p("s")}}, {Op: "exists", Args: []Operand{p("n")}}}}}}, nil, T},
		{&Cond{Op: "cmp", Cmp: "=", Args: []Operand{p("s"), v(":missing")}}, val.Item{}, R},
	}
	for i, c := range cases {
		vals := c.vals
		if vals == nil {
			vals = val.Item{}
		}
		if got := c.c.Eval(item, vals); got != c.want {
			t.Errorf("case %d %s: got %s want %s", i, c.c.Render(map[string]string{}, RenderOpts{}), got, c.want)
		}
	}
}

func TestRenderPrecedence(t *testing.T) {
	a := &Cond{Op: "exists", Args: []Operand{{Kind: "path", Path: P("a")}}}
	b := &Cond{Op: "exists", Args: []Operand{{Kind: "path", Path: P("b")}}}
	c := &Cond{Op: "exists", Args: []Operand{{Kind: "path", Path: P("c")}}}
	e := &Cond{Op: "and", Kids: []*Cond{{Op: "or", Kids: []*Cond{a, b}}, {Op: "not", Kids: []*Cond{c}}}}
	got := e.Render(map[string]string{}, RenderOpts{})
	want := "(attribute_exists(a) OR attribute_exists(b)) AND NOT attribute_exists(c)"
	if got != want {
		t.Errorf("got %q want %q", got, want)
	}
	// the recogniser must parse what the renderer writes back to an equivalent AST
	ok, ast, strict := RecognizeCond(got, nil)
	if !ok || ast == nil || !strict {
		t.Fatalf("recogniser rejected %q", got)
	}
	if ast.Render(map[string]string{}, RenderOpts{}) != want {
		t.Errorf("round trip gave %q", ast.Render(map[string]string{}, RenderOpts{}))
	}
}

func TestUpdateOracle(t *testing.T) {
	item := val.Item{"n": val.Num("0.1"), "l": val.List(val.Str("a"), val.Str("b"), val.Str("c")), "ss": val.SS("x"), "m": val.Map(map[string]val.V{"k": val.Str("v")})}
	u := &Update{Actions: []Action{
		{Kind: "SET", Path: P("n"), RHS: &UExpr{Kind: "plus", Kids: []*UExpr{{Kind: "path", Path: P("n")}, {Kind: "val", Val: ":v"}}}},
		{Kind: "SET", Path: P("copy"), RHS: &UExpr{Kind: "path", Path: P("n")}},
		{Kind: "REMOVE", Path: Path{{Name: "l"}, {IsIdx: true, Idx: 0}}},
		{Kind: "REMOVE", Path: Path{{Name: "l"}, {IsIdx: true, Idx: 1}}},
		{Kind: "DELETE", Path: P("ss"), RHS: &UExpr{Kind: "val", Val: ":s"}},
		{Kind: "REMOVE", Path: P("m", "k")},
	}}
	r := u.Apply(item, val.Item{":v": val.Num("0.2"), ":s": val.SS("x")})
	if r.Reject || r.Unsure {
		t.Fatalf("unexpected %+v", r)
	}
	want := val.Item{"n": val.Num("0.3"), "copy": val.Num("0.1"), "l": val.List(val.Str("c")), "m": val.Map(map[string]val.V{})}
	if !val.ItemsEqual(r.Item, want) {
		t.Errorf("got %s want %s", r.Item.Canon(), want.Canon())
	}
	if !val.ItemsEqual(item, val.Item{"n": val.Num("0.1"), "l": val.List(val.Str("a"), val.Str("b"), val.Str("c")), "ss": val.SS("x"), "m": val.Map(map[string]val.V{"k": val.Str("v")})}) {
		t.Errorf("Apply modified its input")
	}
}

func TestRecogniserRejects(t *testing.T) {
	for _, s := range []string{"", "a", "a =", "a = :v b = :w", "(a = :v", "a = :v)", "a IN ()", "a BETWEEN :x", "a = :v AND", "a ! b", "a = :v \x00", "NOT", "a.b. = :v"} {
		if ok, _, _ := RecognizeCond(s, nil); ok {
			t.Errorf("recogniser accepted %q", s)
		}
	}
	for _, s := range []string{"a = :v", "a = :v and b = :w", "NOT NOT a = :v", "size(a) > :n", "a.b[0].c IN (:x, :y)", "((a = :v))", "remove >= :v"} {
		if ok, _, _ := RecognizeCond(s, nil); !ok {
			t.Errorf("recogniser rejected %q", s)
		}
	}
	for _, s := range []string{"", "SET", "SET a", "SET a = ", "a SET b = :v", "REMOVE", "SET a = :v,", "ADD a"} {
		if ok, _ := RecognizeUpdate(s); ok {
			t.Errorf("update recogniser accepted %q", s)
		}
	}
	for _, s := range []string{"SET a = :v", "SET a = b + :v REMOVE c, d[1] ADD e :v DELETE f :s", "set a = if_not_exists(a, :v)"} {
		if ok, _ := RecognizeUpdate(s); !ok {
			t.Errorf("update recogniser rejected %q", s)
		}
	}
}
