package refmodel

import (
	"sort"
	"strings"

	"verifharness/val"
)

// UExpr is the right-hand side of a SET action.
type UExpr struct {
	Kind string   `json:"k"` // val path plus minus ifne append
	Val  string   `json:"v,omitempty"`
	Path Path     `json:"p,omitempty"`
	Kids []*UExpr `json:"kids,omitempty"`
}

// Action is one update action.
type Action struct {
	Kind string `json:"k"` // SET REMOVE ADD DELETE
	Path Path   `json:"p"`
	RHS  *UExpr `json:"rhs,omitempty"` // SET: expression; ADD/DELETE: Kind "val"
}

// Update is an update expression: actions grouped by clause in rendering order.
type Update struct {
	Actions []Action `json:"actions"`
	// ClauseOrder lists the clause keywords in the order they are rendered (each at most once).
	ClauseOrder []string `json:"order,omitempty"`
}

func (e *UExpr) render(names map[string]string, o RenderOpts) string {
	switch e.Kind {
	case "val":
		return e.Val
	case "path":
		return e.Path.Render(names)
	case "plus":
		return e.Kids[0].render(names, o) + o.tsp() + "+" + o.tsp() + e.Kids[1].render(names, o)
	case "minus":
		return e.Kids[0].render(names, o) + o.sp() + "-" + o.sp() + e.Kids[1].render(names, o)
	case "ifne":
		return "if_not_exists(" + o.osp() + e.Path.Render(names) + "," + o.osp() + e.Kids[0].render(names, o) + o.osp() + ")"
	case "append":
		return "list_append(" + o.osp() + e.Kids[0].render(names, o) + "," + o.osp() + e.Kids[1].render(names, o) + o.osp() + ")"
	}
	return "?"
}

// Shape for signatures.
func (e *UExpr) Shape() string {
	switch e.Kind {
	case "val":
		return "v"
	case "path":
		return "p" + e.Path.Shape()
	case "plus", "minus":
		return "(" + e.Kids[0].Shape() + map[string]string{"plus": "+", "minus": "-"}[e.Kind] + e.Kids[1].Shape() + ")"
	case "ifne":
		return "ifne(p" + e.Path.Shape() + "," + e.Kids[0].Shape() + ")"
	case "append":
		return "append(" + e.Kids[0].Shape() + "," + e.Kids[1].Shape() + ")"
	}
	return "?"
}

// Render produces the update expression text.
func (u *Update) Render(names map[string]string, o RenderOpts) string {
	order := u.ClauseOrder
	if len(order) == 0 {
		seen := map[string]bool{}
		for _, a := range u.Actions {
			if !seen[a.Kind] {
				seen[a.Kind] = true
				order = append(order, a.Kind)
			}
		}
	}
	clauses := []string{}
	for _, kw := range order {
		parts := []string{}
		for _, a := range u.Actions {
			if a.Kind != kw {
				continue
			}
			switch a.Kind {
			case "SET":
				parts = append(parts, a.Path.Render(names)+o.tsp()+"="+o.tsp()+a.RHS.render(names, o))
			case "REMOVE":
				parts = append(parts, a.Path.Render(names))
			case "ADD", "DELETE":
				parts = append(parts, a.Path.Render(names)+o.sp()+a.RHS.render(names, o))
			}
		}
		if len(parts) > 0 {
			clauses = append(clauses, kw+o.sp()+strings.Join(parts, o.osp()+","+o.tsp()))
		}
	}
	return o.pad() + strings.Join(clauses, o.sp()) + o.pad()
}

// Skeleton for distinctness.
func (u *Update) Skeleton() string {
	parts := []string{}
	for _, a := range u.Actions {
		s := a.Kind + ":" + a.Path.Shape()
		if a.RHS != nil {
			s += "=" + a.RHS.Shape()
		}
		parts = append(parts, s)
	}
	return strings.Join(parts, ";")
}

// ValueNames lists the :placeholders used.
func (u *Update) ValueNames() []string {
	set := map[string]bool{}
	var walk func(e *UExpr)
	walk = func(e *UExpr) {
		if e == nil {
			return
		}
		if e.Kind == "val" {
			set[e.Val] = true
		}
		for _, k := range e.Kids {
			walk(k)
		}
	}
	for _, a := range u.Actions {
		walk(a.RHS)
	}
	out := []string{}
	for k := range set {
		out = append(out, k)
	}
	sort.Strings(out)
	return out
}

// UResult is the oracle's verdict for an update.
type UResult struct {
	// OrReject: the request is either applied as Item says or refused (ADD / DELETE whose target is a nested
	// document path: DynamoDB applies it, minidyn refuses the shape) - never "accepted and not applied"
	OrReject bool
	Reject bool     // DynamoDB rejects the request (item unchanged)
	Unsure bool     // semantics uncertain: any outcome admissible
	Item   val.Item // resulting item when accepted
}

type evalErr struct{ unsure bool }

func (e *UExpr) eval(item val.Item, values val.Item) (val.V, *evalErr) {
	switch e.Kind {
	case "val":
		v, ok := values[e.Val]
		if !ok {
			return val.V{}, &evalErr{}
		}
		return v, nil
	case "path":
		v, ok := e.Path.Resolve(item)
		if !ok {
			return val.V{}, &evalErr{} // "The provided expression refers to an attribute that does not exist in the item"
		}
		return v, nil
	case "plus", "minus":
		a, err := e.Kids[0].eval(item, values)
		if err != nil {
			return val.V{}, err
		}
		b, err := e.Kids[1].eval(item, values)
		if err != nil {
			return val.V{}, err
		}
		if a.K != val.KN || b.K != val.KN {
			return val.V{}, &evalErr{}
		}
		da, e1 := val.ParseDec(a.Str)
		db, e2 := val.ParseDec(b.Str)
		if e1 != nil || e2 != nil {
			return val.V{}, &evalErr{unsure: true}
		}
		var r val.Dec
		if e.Kind == "plus" {
			r = da.Add(db)
		} else {
			r = da.Sub(db)
		}
		if !r.InRange() {
			return val.V{}, &evalErr{unsure: true}
		}
		return val.Num(r.Plain()), nil
	case "ifne":
		v, ok := e.Path.Resolve(item)
		if ok {
			return v, nil
		}
		return e.Kids[0].eval(item, values)
	case "append":
		a, err := e.Kids[0].eval(item, values)
		if err != nil {
			return val.V{}, err
		}
		b, err := e.Kids[1].eval(item, values)
		if err != nil {
			return val.V{}, err
		}
		if a.K != val.KL || b.K != val.KL {
			return val.V{}, &evalErr{}
		}
		out := val.V{K: val.KL, L: []val.V{}}
		for _, x := range a.L {
			out.L = append(out.L, x.Clone())
		}
		for _, x := range b.L {
			out.L = append(out.L, x.Clone())
		}
		return out, nil
	}
	return val.V{}, &evalErr{unsure: true}
}

// container navigation on a mutable clone ------------------------------------------

// setAt sets the value at path inside item (clone). Returns false when the parent does not
// exist or has the wrong type (DynamoDB rejects).
func setAt(item val.Item, p Path, v val.V) bool {
	if len(p) == 1 {
		item[p[0].Name] = v
		return true
	}
	root, ok := item[p[0].Name]
	if !ok {
		return false
	}
	nr, ok := setIn(root, p[1:], v)
	if !ok {
		return false
	}
	item[p[0].Name] = nr
	return true
}

func setIn(cur val.V, p Path, v val.V) (val.V, bool) {
	el := p[0]
	if el.IsIdx {
		if cur.K != val.KL {
			return cur, false
		}
		if len(p) == 1 {
			if el.Idx < len(cur.L) {
				cur.L[el.Idx] = v
			} else {
				cur.L = append(cur.L, v) // beyond the end: appended
			}
			return cur, true
		}
		if el.Idx >= len(cur.L) {
			return cur, false
		}
		n, ok := setIn(cur.L[el.Idx], p[1:], v)
		if !ok {
			return cur, false
		}
		cur.L[el.Idx] = n
		return cur, true
	}
	if cur.K != val.KM {
		return cur, false
	}
	if len(p) == 1 {
		cur.M[el.Name] = v
		return cur, true
	}
	nxt, ok := cur.M[el.Name]
	if !ok {
		return cur, false
	}
	n, ok := setIn(nxt, p[1:], v)
	if !ok {
		return cur, false
	}
	cur.M[el.Name] = n
	return cur, true
}

// Apply evaluates the update against the item (nil = absent item; key gives the key
// attributes used to create it). The input is not modified.
func (u *Update) Apply(item val.Item, values val.Item) UResult {
	pre := item.Clone()
	if pre == nil {
		pre = val.Item{}
	}
	work := pre.Clone()
	orReject := false
	// Evaluate all SET right-hand sides on the pre-update item.
	type pending struct {
		a Action
		v val.V
	}
	var sets []pending
	for _, a := range u.Actions {
		if a.Kind == "SET" {
			v, err := a.RHS.eval(pre, values)
			if err != nil {
				if err.unsure {
					return UResult{Unsure: true}
				}
				return UResult{Reject: true}
			}
			sets = append(sets, pending{a, v.Clone()})
		}
	}
	// list-element removals use original indices: collect per parent path
	type rm struct {
		parent Path
		idx    int
	}
	var listRemovals []rm
	for _, a := range u.Actions {
		switch a.Kind {
		case "REMOVE":
			last := a.Path[len(a.Path)-1]
			if last.IsIdx {
				listRemovals = append(listRemovals, rm{a.Path[:len(a.Path)-1], last.Idx})
				continue
			}
			if len(a.Path) == 1 {
				delete(work, last.Name)
				continue
			}
			parent, ok := a.Path[:len(a.Path)-1].Resolve(work)
			if !ok || parent.K != val.KM {
				// removing inside a missing parent: DynamoDB rejects ("document path … invalid");
				// not certain for every shape, so admit anything.
				return UResult{Unsure: true}
			}
			delete(parent.M, last.Name) // maps are shared with work (Resolve returns the same map)
		case "ADD":
			v, ok := values[a.RHS.Val]
			if !ok {
				return UResult{Reject: true}
			}
			if len(a.Path) != 1 {
				nv, res := nestedAdd(pre, a.Path, v)
				if res != nil {
					return *res
				}
				if !setAt(work, a.Path, nv) {
					return UResult{Reject: true}
				}
				orReject = true
				continue
			}
			cur, present := pre[a.Path[0].Name]
			switch v.K {
			case val.KN:
				if !present {
					work[a.Path[0].Name] = v.Clone()
					continue
				}
				if cur.K != val.KN {
					if cur.K == val.KL || cur.K == val.KNS {
						return UResult{Unsure: true} // ill-typed ADD: DynamoDB rejects, minidyn extends the container
					}
					return UResult{Reject: true}
				}
				da, e1 := val.ParseDec(cur.Str)
				db, e2 := val.ParseDec(v.Str)
				if e1 != nil || e2 != nil {
					return UResult{Unsure: true}
				}
				r := da.Add(db)
				if !r.InRange() {
					return UResult{Unsure: true}
				}
				work[a.Path[0].Name] = val.Num(r.Plain())
			case val.KSS, val.KNS, val.KBS:
				if !present {
					work[a.Path[0].Name] = v.Clone()
					continue
				}
				if cur.K != v.K {
					if cur.K == val.KL {
						return UResult{Unsure: true}
					}
					return UResult{Reject: true}
				}
				work[a.Path[0].Name] = setUnion(cur, v)
			default:
				// ADD only supports numbers and sets; DynamoDB rejects anything else. minidyn also
				// "adds" to lists – no property is about ill-typed ADD being refused, so admit anything.
				return UResult{Unsure: true}
			}
		case "DELETE":
			v, ok := values[a.RHS.Val]
			if !ok {
				return UResult{Reject: true}
			}
			if v.K != val.KSS && v.K != val.KNS && v.K != val.KBS {
				return UResult{Reject: true}
			}
			if len(a.Path) != 1 {
				cur, present := a.Path.Resolve(pre)
				if !present {
					if _, pok := a.Path[:len(a.Path)-1].Resolve(pre); !pok {
						return UResult{Reject: true}
					}
					orReject = true
					continue
				}
				if cur.K != v.K {
					return UResult{Reject: true}
				}
				d := setDiff(cur, v)
				if len(d.Set) == 0 {
					// the member disappears with its last element; only map members are modelled
					last := a.Path[len(a.Path)-1]
					parent, pok := a.Path[:len(a.Path)-1].Resolve(work)
					if last.IsIdx || !pok || parent.K != val.KM {
						return UResult{Unsure: true}
					}
					delete(parent.M, last.Name)
				} else if !setAt(work, a.Path, d) {
					return UResult{Reject: true}
				}
				orReject = true
				continue
			}
			cur, present := pre[a.Path[0].Name]
			if !present {
				continue
			}
			if cur.K != v.K {
				return UResult{Reject: true}
			}
			d := setDiff(cur, v)
			if len(d.Set) == 0 {
				delete(work, a.Path[0].Name)
			} else {
				work[a.Path[0].Name] = d
			}
		}
	}
	// elements assigned past the end of a list are appended in the order of their element numbers, whatever the
	// order of the actions (the paths of one request do not overlap, so the order is otherwise immaterial)
	sort.SliceStable(sets, func(i, j int) bool {
		li, lj := sets[i].a.Path[len(sets[i].a.Path)-1], sets[j].a.Path[len(sets[j].a.Path)-1]
		return li.IsIdx && lj.IsIdx && li.Idx < lj.Idx
	})
	for _, s := range sets {
		if !setAt(work, s.a.Path, s.v) {
			return UResult{Reject: true}
		}
	}
	// apply list removals (original indices), highest index first per parent
	// deeper parents first (removing l[2][0] must not be disturbed by the removal of l[0], which shifts l[2]),
	// and within one list the highest index first
	sort.SliceStable(listRemovals, func(i, j int) bool {
		if len(listRemovals[i].parent) != len(listRemovals[j].parent) {
			return len(listRemovals[i].parent) > len(listRemovals[j].parent)
		}
		return listRemovals[i].idx > listRemovals[j].idx
	})
	for _, r := range listRemovals {
		parent, ok := r.parent.Resolve(work)
		if !ok || parent.K != val.KL {
			return UResult{Unsure: true}
		}
		if r.idx >= len(parent.L) {
			continue // beyond the end: no-op
		}
		// ... beyond the end of the list AS IT WAS before the request: an element a SET of the same request
		// appended is not what the index referred to
		if orig, ok := r.parent.Resolve(pre); ok && orig.K == val.KL && r.idx >= len(orig.L) {
			continue
		}
		nl := append(append([]val.V{}, parent.L[:r.idx]...), parent.L[r.idx+1:]...)
		if !replaceAt(work, r.parent, val.V{K: val.KL, L: nl}) {
			return UResult{Unsure: true}
		}
	}
	return UResult{Item: work, OrReject: orReject}
}

func replaceAt(item val.Item, p Path, v val.V) bool { return setAt(item, p, v) }

func setUnion(a, b val.V) val.V {
	ek := map[val.Kind]val.Kind{val.KSS: val.KS, val.KNS: val.KN, val.KBS: val.KB}[a.K]
	out := val.V{K: a.K, Set: append([]string{}, a.Set...)}
	for _, m := range b.Set {
		found := false
		for _, x := range out.Set {
			if val.Equal(val.V{K: ek, Str: x}, val.V{K: ek, Str: m}) {
				found = true
				break
			}
		}
		if !found {
			out.Set = append(out.Set, m)
		}
	}
	return out
}

func setDiff(a, b val.V) val.V {
	ek := map[val.Kind]val.Kind{val.KSS: val.KS, val.KNS: val.KN, val.KBS: val.KB}[a.K]
	out := val.V{K: a.K, Set: []string{}}
	for _, x := range a.Set {
		drop := false
		for _, m := range b.Set {
			if val.Equal(val.V{K: ek, Str: x}, val.V{K: ek, Str: m}) {
				drop = true
				break
			}
		}
		if !drop {
			out.Set = append(out.Set, x)
		}
	}
	return out
}

// Paths lists every document path the update mentions (action targets and right-hand sides).
func (u *Update) Paths() []Path {
	out := []Path{}
	var walk func(e *UExpr)
	walk = func(e *UExpr) {
		if e == nil {
			return
		}
		if e.Kind == "path" || e.Kind == "ifne" {
			out = append(out, e.Path)
		}
		for _, k := range e.Kids {
			walk(k)
		}
	}
	for _, a := range u.Actions {
		out = append(out, a.Path)
		walk(a.RHS)
	}
	return out
}

// nestedAdd computes the value an ADD stores under a nested document path: the rules of the top-level ADD,
// applied to the current value of the path; a path whose parent does not exist is refused.
func nestedAdd(pre val.Item, p Path, v val.V) (val.V, *UResult) {
	cur, present := p.Resolve(pre)
	if !present {
		if _, pok := p[:len(p)-1].Resolve(pre); !pok {
			return val.V{}, &UResult{Reject: true}
		}
		if v.K != val.KN && v.K != val.KSS && v.K != val.KNS && v.K != val.KBS {
			return val.V{}, &UResult{Unsure: true}
		}
		return v.Clone(), nil
	}
	switch v.K {
	case val.KN:
		if cur.K != val.KN {
			return val.V{}, &UResult{Unsure: true}
		}
		da, e1 := val.ParseDec(cur.Str)
		db, e2 := val.ParseDec(v.Str)
		if e1 != nil || e2 != nil {
			return val.V{}, &UResult{Unsure: true}
		}
		r := da.Add(db)
		if !r.InRange() {
			return val.V{}, &UResult{Unsure: true}
		}
		return val.Num(r.Plain()), nil
	case val.KSS, val.KNS, val.KBS:
		if cur.K != v.K {
			return val.V{}, &UResult{Unsure: true}
		}
		return setUnion(cur, v), nil
	}
	return val.V{}, &UResult{Unsure: true}
}
