// Package refmodel is an independent, deliberately simple executable model of the
// DynamoDB semantics the properties name. It shares no code with minidyn.
package refmodel

import (
	"fmt"
	"math/rand"
	"sort"
	"strings"

	"verifharness/val"
)

// Res is a set of admissible outcomes of evaluating a condition.
type Res uint8

const (
	T   Res = 1 // evaluates to true
	F   Res = 2 // evaluates to false
	R   Res = 4 // request rejected (validation / syntax error)
	Any Res = T | F | R
)

func (r Res) String() string {
	parts := []string{}
	if r&T != 0 {
		parts = append(parts, "true")
	}
	if r&F != 0 {
		parts = append(parts, "false")
	}
	if r&R != 0 {
		parts = append(parts, "reject")
	}
	return "{" + strings.Join(parts, ",") + "}"
}

// Definite reports whether exactly one of true/false is admissible.
func (r Res) Definite() bool { return r == T || r == F }

// PathEl is one element of a document path.
type PathEl struct {
	Name  string `json:"n,omitempty"` // attribute / map member name
	Alias string `json:"a,omitempty"` // if set, rendered as this #placeholder
	IsIdx bool   `json:"i,omitempty"`
	Idx   int    `json:"x,omitempty"`
}

// Path is a document path; element 0 is always a name.
type Path []PathEl

// P builds a path of plain names.
func P(names ...string) Path {
	p := Path{}
	for _, n := range names {
		p = append(p, PathEl{Name: n})
	}
	return p
}

// Resolve follows the path inside the item.
func (p Path) Resolve(item val.Item) (val.V, bool) {
	if len(p) == 0 || p[0].IsIdx {
		return val.V{}, false
	}
	cur, ok := item[p[0].Name]
	if !ok {
		return val.V{}, false
	}
	for _, el := range p[1:] {
		if el.IsIdx {
			if cur.K != val.KL || el.Idx < 0 || el.Idx >= len(cur.L) {
				return val.V{}, false
			}
			cur = cur.L[el.Idx]
		} else {
			if cur.K != val.KM {
				return val.V{}, false
			}
			nxt, ok := cur.M[el.Name]
			if !ok {
				return val.V{}, false
			}
			cur = nxt
		}
	}
	return cur, true
}

// Render writes the path text and records alias bindings.
func (p Path) Render(names map[string]string) string {
	var sb strings.Builder
	for i, el := range p {
		if el.IsIdx {
			fmt.Fprintf(&sb, "[%d]", el.Idx)
			continue
		}
		if i > 0 {
			sb.WriteString(".")
		}
		if el.Alias != "" {
			names[el.Alias] = el.Name
			sb.WriteString(el.Alias)
		} else {
			sb.WriteString(el.Name)
		}
	}
	return sb.String()
}

// Shape describes the path shape for signatures (no concrete names).
func (p Path) Shape() string {
	var sb strings.Builder
	for i, el := range p {
		switch {
		case el.IsIdx:
			sb.WriteString("[i]")
		case i == 0 && el.Alias != "":
			sb.WriteString("#")
		case i == 0:
			sb.WriteString("n")
		case el.Alias != "":
			sb.WriteString(".#")
		default:
			sb.WriteString(".n")
		}
	}
	return sb.String()
}

// Operand of a comparison or function.
type Operand struct {
	Kind string `json:"k"` // "path", "val", "size"
	Path Path   `json:"p,omitempty"`
	Val  string `json:"v,omitempty"` // placeholder name like ":v1"
}

// Cond is a condition expression AST.
type Cond struct {
	Op   string    `json:"op"` // cmp between in and or not exists notexists type begins contains
	Cmp  string    `json:"cmp,omitempty"`
	Args []Operand `json:"args,omitempty"`
	Kids []*Cond   `json:"kids,omitempty"`
	// Paren forces explicit parentheses around this node even where precedence makes them redundant.
	Paren bool `json:"paren,omitempty"`
}

// ---------- rendering ----------

func prec(c *Cond) int {
	switch c.Op {
	case "or":
		return 1
	case "and":
		return 2
	case "not":
		return 3
	}
	return 4
}

// RenderOpts controls the concrete syntax.
type RenderOpts struct {
	Rng *rand.Rand // nil = canonical single spaces
}

func (o RenderOpts) sp() string {
	if o.Rng == nil {
		return " "
	}
	switch o.Rng.Intn(8) {
	case 0:
		return "  "
	case 1:
		return "\t"
	case 2:
		return " \n"
	case 3:
		return "\r\n" // expression text written over several lines with CR LF line ends
	case 4:
		return "\n"
	}
	return " "
}

// tsp is the space around a comparator, '+', '=' of a SET action, or between IN / NOT and an opening
// parenthesis: it may be absent altogether ("a=:v", "a<>:v", "NOT(", "IN(").
func (o RenderOpts) tsp() string {
	if o.Rng != nil && o.Rng.Intn(3) == 0 {
		return ""
	}
	return o.sp()
}

func (o RenderOpts) osp() string { // optional space
	if o.Rng == nil {
		return ""
	}
	if o.Rng.Intn(4) == 0 {
		return " "
	}
	return ""
}

func renderOperand(a Operand, names map[string]string) string {
	switch a.Kind {
	case "path":
		return a.Path.Render(names)
	case "val":
		return a.Val
	case "size":
		return "size(" + a.Path.Render(names) + ")"
	}
	return "?"
}

// Render produces expression text; alias bindings used are added to names.
func (c *Cond) Render(names map[string]string, o RenderOpts) string {
	return o.pad() + c.render(names, o, 0) + o.pad()
}

// pad is whitespace before the first or after the last token of an expression (an indented raw string, a
// trailing line break): mostly nothing, sometimes blanks, tabs and line breaks.
func (o RenderOpts) pad() string {
	if o.Rng == nil || o.Rng.Intn(3) != 0 {
		return ""
	}
	return []string{" ", "  ", "\n\t", "\t\t ", "\r\n  ", "\n"}[o.Rng.Intn(6)]
}

func (c *Cond) render(names map[string]string, o RenderOpts, parentPrec int) string {
	var s string
	switch c.Op {
	case "cmp":
		s = renderOperand(c.Args[0], names) + o.tsp() + c.Cmp + o.tsp() + renderOperand(c.Args[1], names)
	case "between":
		s = renderOperand(c.Args[0], names) + o.sp() + "BETWEEN" + o.sp() + renderOperand(c.Args[1], names) + o.sp() + "AND" + o.sp() + renderOperand(c.Args[2], names)
	case "in":
		parts := []string{}
		for _, a := range c.Args[1:] {
			parts = append(parts, renderOperand(a, names))
		}
		s = renderOperand(c.Args[0], names) + o.sp() + "IN" + o.tsp() + "(" + o.osp() + strings.Join(parts, o.osp()+","+o.osp()) + o.osp() + ")"
	case "exists":
		s = "attribute_exists(" + o.osp() + renderOperand(c.Args[0], names) + o.osp() + ")"
	case "notexists":
		s = "attribute_not_exists(" + o.osp() + renderOperand(c.Args[0], names) + o.osp() + ")"
	case "type":
		s = "attribute_type(" + o.osp() + renderOperand(c.Args[0], names) + "," + o.osp() + renderOperand(c.Args[1], names) + ")"
	case "begins":
		s = "begins_with(" + o.osp() + renderOperand(c.Args[0], names) + "," + o.osp() + renderOperand(c.Args[1], names) + ")"
	case "contains":
		s = "contains(" + o.osp() + renderOperand(c.Args[0], names) + "," + o.osp() + renderOperand(c.Args[1], names) + ")"
	case "not":
		kid := c.Kids[0].render(names, o, 3)
		if strings.HasPrefix(kid, "(") {
			s = "NOT" + o.tsp() + kid
		} else {
			s = "NOT" + o.sp() + kid
		}
	case "and":
		// left-associative: right child of equal precedence needs parentheses to keep the tree,
		// but AND is associative in value, so both are rendered flat when precedence allows.
		s = c.Kids[0].render(names, o, 2) + o.sp() + "AND" + o.sp() + c.Kids[1].render(names, o, 2)
	case "or":
		s = c.Kids[0].render(names, o, 1) + o.sp() + "OR" + o.sp() + c.Kids[1].render(names, o, 1)
	}
	need := prec(c) < parentPrec
	// NOT applied to NOT needs no parentheses; a "between" directly under AND is fine too.
	if need || c.Paren {
		return "(" + o.osp() + s + o.osp() + ")"
	}
	return s
}

// Skeleton is the operator structure with operand kinds (for distinctness).
func (c *Cond) Skeleton() string {
	switch c.Op {
	case "and", "or":
		return "(" + c.Kids[0].Skeleton() + " " + c.Op + " " + c.Kids[1].Skeleton() + ")"
	case "not":
		return "not " + c.Kids[0].Skeleton()
	}
	parts := []string{}
	for _, a := range c.Args {
		switch a.Kind {
		case "path":
			parts = append(parts, "p"+a.Path.Shape())
		case "val":
			parts = append(parts, "v")
		case "size":
			parts = append(parts, "size")
		}
	}
	return c.Op + c.Cmp + "<" + strings.Join(parts, ",") + ">"
}

// Depth of the boolean structure.
func (c *Cond) Depth() int {
	d := 0
	for _, k := range c.Kids {
		if x := k.Depth(); x > d {
			d = x
		}
	}
	return d + 1
}

// Paths lists every path the condition mentions.
func (c *Cond) Paths() []Path {
	var out []Path
	for _, a := range c.Args {
		if a.Kind != "val" {
			out = append(out, a.Path)
		}
	}
	for _, k := range c.Kids {
		out = append(out, k.Paths()...)
	}
	return out
}

// ValueNames lists every :placeholder used.
func (c *Cond) ValueNames() []string {
	set := map[string]bool{}
	var walk func(c *Cond)
	walk = func(c *Cond) {
		for _, a := range c.Args {
			if a.Kind == "val" {
				set[a.Val] = true
			}
		}
		for _, k := range c.Kids {
			walk(k)
		}
	}
	walk(c)
	out := []string{}
	for k := range set {
		out = append(out, k)
	}
	sort.Strings(out)
	return out
}

// ---------- evaluation ----------

func orderable(k val.Kind) bool { return k == val.KS || k == val.KN || k == val.KB }

// operand value: (value, present, isPathLike, sizeUnsure)
type opv struct {
	v       val.V
	present bool
	isVal   bool // came from a :placeholder
	unsure  bool // size() of something whose DynamoDB result I am not certain of
	bad     bool // undefined placeholder: request must be rejected
}

func evalOperand(a Operand, item val.Item, values val.Item) opv {
	switch a.Kind {
	case "path":
		v, ok := a.Path.Resolve(item)
		return opv{v: v, present: ok}
	case "val":
		v, ok := values[a.Val]
		if !ok {
			return opv{bad: true}
		}
		return opv{v: v, present: true, isVal: true}
	case "size":
		v, ok := a.Path.Resolve(item)
		if !ok {
			return opv{} // the size of a missing attribute is no value: the operand is missing
		}
		switch v.K {
		case val.KS:
			for i := 0; i < len(v.Str); i++ {
				if v.Str[i] >= 0x80 {
					return opv{unsure: true}
				}
			}
			return opv{v: val.Num(fmt.Sprint(len(v.Str))), present: true}
		case val.KB:
			return opv{v: val.Num(fmt.Sprint(len(v.Str))), present: true}
		case val.KSS, val.KNS, val.KBS:
			return opv{v: val.Num(fmt.Sprint(len(v.Set))), present: true}
		case val.KL:
			return opv{v: val.Num(fmt.Sprint(len(v.L))), present: true}
		case val.KM:
			return opv{v: val.Num(fmt.Sprint(len(v.M))), present: true}
		}
		return opv{} // a number, BOOL or NULL has no size: no value, whatever the request compares it with
	}
	return opv{bad: true}
}

func b2r(b bool) Res {
	if b {
		return T
	}
	return F
}

func cmpOrder(a, b val.V) int {
	switch a.K {
	case val.KN:
		da, ea := val.ParseDec(a.Str)
		db, eb := val.ParseDec(b.Str)
		if ea != nil || eb != nil {
			return strings.Compare(a.Str, b.Str)
		}
		return da.Cmp(db)
	default:
		return strings.Compare(a.Str, b.Str) // bytewise for S (UTF-8) and B
	}
}

func evalCmp(op string, l, r opv) Res {
	if l.bad || r.bad {
		return R
	}
	if l.unsure || r.unsure {
		return T | F // the value is not certain (size of a string with multi-byte characters); the request is valid
	}
	if !l.present || !r.present {
		if op == "<>" {
			return T
		}
		return F
	}
	switch op {
	case "=":
		return b2r(val.Equal(l.v, r.v))
	case "<>":
		return b2r(!val.Equal(l.v, r.v))
	}
	// ordering
	if !orderable(l.v.K) || !orderable(r.v.K) {
		// DynamoDB: false for ATTRIBUTES of such a type - what an item holds never makes a request invalid -
		// and a ValidationException for :values of such a type (minidyn's unit tests pin an error for those)
		if (l.isVal && !orderable(l.v.K)) || (r.isVal && !orderable(r.v.K)) {
			return F | R
		}
		return F
	}
	if l.v.K != r.v.K {
		if l.isVal && r.isVal {
			return F | R // two :values of different types: the request itself compares what cannot be compared
		}
		return F
	}
	c := cmpOrder(l.v, r.v)
	switch op {
	case "<":
		return b2r(c < 0)
	case "<=":
		return b2r(c <= 0)
	case ">":
		return b2r(c > 0)
	case ">=":
		return b2r(c >= 0)
	}
	return R
}

var typeNames = map[string]bool{"S": true, "N": true, "B": true, "BOOL": true, "NULL": true, "L": true, "M": true, "SS": true, "NS": true, "BS": true}

// Eval returns the admissible outcomes of the condition for the item and bindings.
func (c *Cond) Eval(item val.Item, values val.Item) Res {
	switch c.Op {
	case "cmp":
		return evalCmp(c.Cmp, evalOperand(c.Args[0], item, values), evalOperand(c.Args[1], item, values))
	case "between":
		x := evalOperand(c.Args[0], item, values)
		lo := evalOperand(c.Args[1], item, values)
		hi := evalOperand(c.Args[2], item, values)
		if x.bad || lo.bad || hi.bad {
			return R
		}
		if x.unsure || lo.unsure || hi.unsure {
			return T | F
		}
		// what the REQUEST supplies decides whether it is valid: a :value of a type that cannot be ordered, or
		// :values of different types among the three operands, may be refused; what the ITEM holds never is
		supplied := val.Kind("")
		for _, o := range []opv{x, lo, hi} {
			if !o.isVal {
				continue
			}
			if !orderable(o.v.K) || (supplied != "" && supplied != o.v.K) {
				return F | R
			}
			supplied = o.v.K
		}
		if !x.present || !lo.present || !hi.present {
			return F
		}
		if !orderable(x.v.K) || !orderable(lo.v.K) || !orderable(hi.v.K) || x.v.K != lo.v.K || x.v.K != hi.v.K {
			return F // an attribute of a type that cannot be ordered, or of another type than the other operands
		}
		if lo.isVal && hi.isVal && cmpOrder(lo.v, hi.v) > 0 {
			return F | R // DynamoDB rejects a BETWEEN whose bounds are out of order
		}
		return b2r(cmpOrder(x.v, lo.v) >= 0 && cmpOrder(x.v, hi.v) <= 0)
	case "in":
		x := evalOperand(c.Args[0], item, values)
		if x.bad {
			return R
		}
		hit := false
		unsure := x.unsure
		for _, a := range c.Args[1:] {
			o := evalOperand(a, item, values)
			if o.bad {
				return R
			}
			if o.unsure {
				unsure = true
				continue
			}
			if x.present && o.present && val.Equal(x.v, o.v) {
				hit = true
			}
		}
		if unsure {
			if hit {
				return T | R
			}
			return Any
		}
		if !x.present {
			return F
		}
		return b2r(hit)
	case "exists":
		_, ok := c.Args[0].Path.Resolve(item)
		return b2r(ok)
	case "notexists":
		_, ok := c.Args[0].Path.Resolve(item)
		return b2r(!ok)
	case "type":
		t := evalOperand(c.Args[1], item, values)
		if t.bad || t.v.K != val.KS || !typeNames[t.v.Str] {
			return R
		}
		v, ok := c.Args[0].Path.Resolve(item)
		if !ok {
			return F
		}
		return b2r(string(v.K) == t.v.Str)
	case "begins":
		sub := evalOperand(c.Args[1], item, values)
		if sub.bad {
			return R
		}
		if sub.unsure || !sub.present {
			return F | R
		}
		v, ok := c.Args[0].Path.Resolve(item)
		if sub.v.K != val.KS && sub.v.K != val.KB {
			if !sub.isVal {
				return F // the second operand is an attribute of another type: false for this item
			}
			if !ok {
				return F | R // missing attribute: false; operand of a type begins_with does not accept: reject
			}
			return R
		}
		if !ok {
			return F
		}
		if v.K != sub.v.K {
			return F // the attribute is of a type that does not begin with that: false, the request is valid
		}
		return b2r(strings.HasPrefix(v.Str, sub.v.Str))
	case "contains":
		o := evalOperand(c.Args[1], item, values)
		if o.bad {
			return R
		}
		if o.unsure || !o.present {
			return F | R
		}
		v, ok := c.Args[0].Path.Resolve(item)
		if !ok {
			return F
		}
		switch v.K {
		case val.KS, val.KB:
			if o.v.K != v.K {
				if o.isVal && o.v.K != val.KS && o.v.K != val.KB {
					return F | R // a :value no string can contain (minidyn's unit tests pin an error)
				}
				return F
			}
			return b2r(strings.Contains(v.Str, o.v.Str))
		case val.KSS, val.KNS, val.KBS:
			want := map[val.Kind]val.Kind{val.KSS: val.KS, val.KNS: val.KN, val.KBS: val.KB}[v.K]
			if o.v.K != want {
				if o.v.K == v.K {
					return Any // set-in-set: minidyn treats as subset; DynamoDB: false. Not documented well.
				}
				return F
			}
			for _, m := range v.Set {
				if val.Equal(val.V{K: want, Str: m}, o.v) {
					return T
				}
			}
			return F
		case val.KL:
			for _, e := range v.L {
				if val.Equal(e, o.v) {
					return T
				}
			}
			return F
		}
		return F // a number, BOOL, NULL or map contains nothing
	case "not":
		k := c.Kids[0].Eval(item, values)
		out := Res(0)
		if k&T != 0 {
			out |= F
		}
		if k&F != 0 {
			out |= T
		}
		if k&R != 0 {
			out |= R
		}
		return out
	case "and", "or":
		a := c.Kids[0].Eval(item, values)
		b := c.Kids[1].Eval(item, values)
		out := Res(0)
		if (a|b)&R != 0 {
			out |= R
		}
		dom, oth := F, T // AND: false dominates
		if c.Op == "or" {
			dom, oth = T, F
		}
		if a&dom != 0 || b&dom != 0 {
			out |= dom
		}
		if a&oth != 0 && b&oth != 0 {
			out |= oth
		}
		// a definite result must not be widened by the dominance rule when neither side can reject:
		if a.Definite() && b.Definite() {
			if c.Op == "and" {
				return b2r(a == T && b == T)
			}
			return b2r(a == T || b == T)
		}
		return out
	}
	return R
}
