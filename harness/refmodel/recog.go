package refmodel

import (
	"strconv"
	"strings"
)

// A deliberately LIBERAL recogniser for the condition and update expression grammars. It
// accepts a superset of DynamoDB's grammar (keywords in any letter case, any
// parenthesisation, operands anywhere an operand may stand, repeated clauses), so a string it
// rejects is definitely not a sentence and correct code can never be blamed for rejecting it.
// For condition sentences built only from constructs the evaluator above understands it also
// returns the AST, so that "only part of the expression was evaluated" can be detected.

type tok struct {
	kind string // id sym eof bad
	text string
}

func lexAll(s string) ([]tok, bool) {
	toks := []tok{}
	i := 0
	for i < len(s) {
		c := s[i]
		switch {
		case c == ' ' || c == '\t' || c == '\n' || c == '\r':
			i++
		case isIDByte(c):
			j := i
			for j < len(s) && isIDByte(s[j]) {
				j++
			}
			if !wellFormedID(s[i:j]) {
				return nil, false // "a:b", "1a", "a#b", a lone "#" or ":" are no names, placeholders or list positions
			}
			toks = append(toks, tok{"id", s[i:j]})
			i = j
		case c == '<':
			if i+1 < len(s) && (s[i+1] == '>' || s[i+1] == '=') {
				toks = append(toks, tok{"sym", s[i : i+2]})
				i += 2
			} else {
				toks = append(toks, tok{"sym", "<"})
				i++
			}
		case c == '>':
			if i+1 < len(s) && s[i+1] == '=' {
				toks = append(toks, tok{"sym", ">="})
				i += 2
			} else {
				toks = append(toks, tok{"sym", ">"})
				i++
			}
		case strings.IndexByte("=()[].,+-", c) >= 0:
			toks = append(toks, tok{"sym", string(c)})
			i++
		default:
			return nil, false // a byte no token can start with
		}
	}
	toks = append(toks, tok{"eof", ""})
	return toks, true
}

// wellFormedID: an attribute name (letter or underscore first, then letters, digits, underscores), a #name or :value
// placeholder (the sign, then at least one letter, digit or underscore) or digits alone (a list position; the
// liberal grammar also lets them stand as operands, which the library's own tests rely on).
func wellFormedID(id string) bool {
	rest := id
	switch {
	case id[0] == '#' || id[0] == ':':
		rest = id[1:]
		if rest == "" {
			return false
		}
	case id[0] >= '0' && id[0] <= '9':
		for i := 0; i < len(id); i++ {
			if id[i] < '0' || id[i] > '9' {
				return false
			}
		}
		return true
	}
	return !strings.ContainsAny(rest, "#:")
}

func isIDByte(c byte) bool {
	return (c >= 'a' && c <= 'z') || (c >= 'A' && c <= 'Z') || (c >= '0' && c <= '9') || c == '_' || c == '#' || c == ':'
}

type recog struct {
	t      []tok
	p      int
	names  map[string]string
	update bool // update grammar
	astOK  bool // the AST built so far is faithful
	strict bool // every keyword was upper case (the sentence does not rely on case folding)
	// pathCond: additionally accept a nested document path (at least one '.' or '[n]' step) where a
	// condition is expected; usedPathCond reports that the derivation needed it
	pathCond, usedPathCond bool
}

func (r *recog) peek() tok { return r.t[r.p] }
func (r *recog) next() tok { t := r.t[r.p]; r.p++; return t }
func (r *recog) isSym(s string) bool {
	return r.t[r.p].kind == "sym" && r.t[r.p].text == s
}
func (r *recog) isKw(k string) bool {
	return r.t[r.p].kind == "id" && strings.EqualFold(r.t[r.p].text, k)
}
func (r *recog) kw(k string) bool {
	if r.isKw(k) {
		if r.t[r.p].text != k {
			r.strict = false
		}
		r.p++
		return true
	}
	return false
}

var condKeywords = map[string]bool{"AND": true, "OR": true, "NOT": true, "BETWEEN": true, "IN": true}
var updKeywords = map[string]bool{"SET": true, "REMOVE": true, "ADD": true, "DELETE": true}

// isKeywordText: in a condition only AND/OR/NOT/BETWEEN/IN cannot be names (REMOVE, for
// instance, is not even a reserved word); in an update only an upper-case SET/REMOVE/ADD/DELETE
// is certainly a keyword (liberal: other spellings may be names).
func (r *recog) isKeywordText(s string) bool {
	if r.update {
		return updKeywords[s]
	}
	return condKeywords[strings.ToUpper(s)]
}

// operand parses: name | #alias | :value, followed by .name / [n] steps; or fn(args); or (operand)
type rOperand struct {
	op   Operand
	ok   bool // AST faithful
	fn   string
	args []rOperand
}

// isCondFn: the operand is a call of a function that yields a condition (every function but size);
// such a call is a condition of its own, never an operand of a comparator, BETWEEN, IN or a function
func (o rOperand) isCondFn() bool { _, is := boolFns[o.fn]; return is }

func (r *recog) operand() (rOperand, bool) {
	if r.isSym("(") {
		r.next()
		o, ok := r.operand()
		if !ok || !r.isSym(")") {
			return rOperand{}, false
		}
		r.next()
		o.ok = false
		return o, true
	}
	t := r.peek()
	if t.kind != "id" || r.isKeywordText(t.text) {
		return rOperand{}, false
	}
	r.next()
	if r.isSym("(") { // function call
		r.next()
		args := []rOperand{}
		if !r.isSym(")") {
			for {
				a, ok := r.operand()
				if !ok || a.isCondFn() {
					return rOperand{}, false // a function that yields a condition is no operand
				}
				args = append(args, a)
				if r.isSym(",") {
					r.next()
					continue
				}
				break
			}
		}
		if !r.isSym(")") {
			return rOperand{}, false
		}
		r.next()
		ro := rOperand{fn: t.text, args: args}
		if t.text == "size" && len(args) == 1 && args[0].ok && args[0].op.Kind == "path" {
			ro.op = Operand{Kind: "size", Path: args[0].op.Path}
			ro.ok = true
		}
		return ro, true
	}
	if strings.HasPrefix(t.text, ":") {
		o := rOperand{op: Operand{Kind: "val", Val: t.text}, ok: true}
		// a value followed by path steps is tolerated syntactically, AST not faithful
		for r.isSym(".") || r.isSym("[") {
			if !r.pathStep(nil) {
				return rOperand{}, false
			}
			o.ok = false
		}
		return o, true
	}
	p := Path{r.pathEl(t.text)}
	faithful := true
	for r.isSym(".") || r.isSym("[") {
		if !r.pathStep(&p) {
			return rOperand{}, false
		}
	}
	for _, el := range p {
		if !el.IsIdx && el.Name == "\x00unresolved" {
			faithful = false
		}
	}
	return rOperand{op: Operand{Kind: "path", Path: p}, ok: faithful}, true
}

func (r *recog) pathEl(text string) PathEl {
	if strings.HasPrefix(text, "#") {
		if n, ok := r.names[text]; ok {
			return PathEl{Name: n, Alias: text}
		}
		return PathEl{Name: "\x00unresolved", Alias: text}
	}
	return PathEl{Name: text}
}

func (r *recog) pathStep(p *Path) bool {
	if r.isSym(".") {
		r.next()
		t := r.peek()
		if t.kind != "id" {
			return false
		}
		r.next()
		if p != nil {
			*p = append(*p, r.pathEl(t.text))
		}
		return true
	}
	r.next() // [
	t := r.peek()
	if t.kind != "id" {
		return false
	}
	r.next()
	if !r.isSym("]") {
		return false
	}
	r.next()
	if p != nil {
		n, err := strconv.Atoi(t.text)
		if err != nil {
			*p = append(*p, PathEl{Name: "\x00unresolved"})
		} else {
			*p = append(*p, PathEl{IsIdx: true, Idx: n})
		}
	}
	return true
}

var cmpSyms = map[string]bool{"=": true, "<>": true, "<": true, "<=": true, ">": true, ">=": true}

func (r *recog) cond() (*Cond, bool) { return r.orExpr() }

func (r *recog) orExpr() (*Cond, bool) {
	l, ok := r.andExpr()
	if !ok {
		return nil, false
	}
	for r.kw("OR") {
		rt, ok := r.andExpr()
		if !ok {
			return nil, false
		}
		l = &Cond{Op: "or", Kids: []*Cond{l, rt}}
	}
	return l, true
}

func (r *recog) andExpr() (*Cond, bool) {
	l, ok := r.notExpr()
	if !ok {
		return nil, false
	}
	for r.kw("AND") {
		rt, ok := r.notExpr()
		if !ok {
			return nil, false
		}
		l = &Cond{Op: "and", Kids: []*Cond{l, rt}}
	}
	return l, true
}

func (r *recog) notExpr() (*Cond, bool) {
	if r.kw("NOT") {
		k, ok := r.notExpr()
		if !ok {
			return nil, false
		}
		return &Cond{Op: "not", Kids: []*Cond{k}}, true
	}
	return r.primary()
}

var boolFns = map[string]string{"attribute_exists": "exists", "attribute_not_exists": "notexists", "attribute_type": "type", "begins_with": "begins", "contains": "contains"}

func (r *recog) primary() (*Cond, bool) {
	if r.isSym("(") {
		// either a parenthesised condition or a parenthesised operand starting a comparison:
		// try the condition first, backtrack otherwise
		save, saveOK := r.p, r.astOK
		r.next()
		if c, ok := r.cond(); ok && r.isSym(")") {
			r.next()
			// a parenthesised condition may itself be followed by nothing (caller continues)
			if !(r.peek().kind == "sym" && cmpSyms[r.peek().text]) && !r.isKw("BETWEEN") && !r.isKw("IN") {
				return c, true
			}
		}
		r.p, r.astOK = save, saveOK
	}
	l, ok := r.operand()
	if !ok {
		return nil, false
	}
	if l.isCondFn() && ((r.peek().kind == "sym" && cmpSyms[r.peek().text]) || r.isKw("BETWEEN") || r.isKw("IN")) {
		return nil, false
	}
	switch {
	case r.peek().kind == "sym" && cmpSyms[r.peek().text]:
		op := r.next().text
		rt, ok := r.operand()
		if !ok || rt.isCondFn() {
			return nil, false
		}
		if !l.ok || !rt.ok {
			r.astOK = false
		}
		return &Cond{Op: "cmp", Cmp: op, Args: []Operand{l.op, rt.op}}, true
	case r.kw("BETWEEN"):
		lo, ok := r.operand()
		if !ok || lo.isCondFn() || !r.kw("AND") {
			return nil, false
		}
		hi, ok := r.operand()
		if !ok || hi.isCondFn() {
			return nil, false
		}
		if !l.ok || !lo.ok || !hi.ok {
			r.astOK = false
		}
		return &Cond{Op: "between", Args: []Operand{l.op, lo.op, hi.op}}, true
	case r.kw("IN"):
		if !r.isSym("(") {
			return nil, false
		}
		r.next()
		args := []Operand{l.op}
		if !l.ok {
			r.astOK = false
		}
		for {
			a, ok := r.operand()
			if !ok || a.isCondFn() {
				return nil, false
			}
			if !a.ok {
				r.astOK = false
			}
			args = append(args, a.op)
			if r.isSym(",") {
				r.next()
				continue
			}
			break
		}
		if !r.isSym(")") {
			return nil, false
		}
		r.next()
		return &Cond{Op: "in", Args: args}, true
	}
	// a bare function call as a condition
	if l.fn == "size" {
		return nil, false // size() yields a number: an operand, never a condition of its own
	}
	if l.fn != "" {
		op, known := boolFns[l.fn]
		c := &Cond{Op: op}
		if !known {
			r.astOK = false
			return c, true
		}
		want := 2
		if op == "exists" || op == "notexists" {
			want = 1
		}
		if len(l.args) != want || !l.args[0].ok || l.args[0].op.Kind != "path" {
			r.astOK = false
			return c, true
		}
		for _, a := range l.args {
			if !a.ok {
				r.astOK = false
			}
			c.Args = append(c.Args, a.op)
		}
		return c, true
	}
	if r.pathCond && l.fn == "" && l.op.Kind == "path" && len(l.op.Path) >= 2 {
		r.usedPathCond, r.astOK = true, false
		return &Cond{Op: "pathcond"}, true
	}
	return nil, false // a bare operand is not a condition
}

// OnlyPathConditions reports that s is not a sentence of the condition grammar but becomes one when a
// nested document path alone (a.b, a[0]) is admitted where a condition is expected - the one liberty
// the minidyn evaluator takes by design of its own test suite (a path that leads to a BOOL).
func OnlyPathConditions(s string, names map[string]string) bool {
	if ok, _, _ := RecognizeCond(s, names); ok {
		return false
	}
	toks, ok := lexAll(s)
	if !ok {
		return false
	}
	r := &recog{t: toks, names: names, astOK: true, strict: true, pathCond: true}
	_, ok = r.cond()
	return ok && r.peek().kind == "eof" && r.usedPathCond
}

// RecognizeCond reports whether s is a sentence of the liberal condition grammar. When it is
// and every construct is understood, ast is the faithful AST; strict reports that the
// sentence does not depend on case-insensitive keywords.
func RecognizeCond(s string, names map[string]string) (sentence bool, ast *Cond, strict bool) {
	toks, ok := lexAll(s)
	if !ok {
		return false, nil, false
	}
	r := &recog{t: toks, names: names, astOK: true, strict: true}
	c, ok := r.cond()
	if !ok || r.peek().kind != "eof" {
		return false, nil, false
	}
	if !r.astOK {
		return true, nil, r.strict
	}
	return true, c, r.strict
}

// ---- update grammar ----

func (r *recog) value() bool {
	if !r.term() {
		return false
	}
	for r.isSym("+") || r.isSym("-") {
		r.next()
		if !r.term() {
			return false
		}
	}
	return true
}

func (r *recog) term() bool {
	if r.isSym("(") {
		r.next()
		if !r.value() || !r.isSym(")") {
			return false
		}
		r.next()
		return true
	}
	t := r.peek()
	if t.kind != "id" || r.isKeywordText(t.text) {
		return false
	}
	r.next()
	if r.isSym("(") {
		r.next()
		if !r.isSym(")") {
			for {
				if !r.value() {
					return false
				}
				if r.isSym(",") {
					r.next()
					continue
				}
				break
			}
		}
		if !r.isSym(")") {
			return false
		}
		r.next()
		return true
	}
	for r.isSym(".") || r.isSym("[") {
		if !r.pathStep(nil) {
			return false
		}
	}
	return true
}

func (r *recog) pathOnly() bool {
	t := r.peek()
	if t.kind != "id" || r.isKeywordText(t.text) {
		return false
	}
	r.next()
	for r.isSym(".") || r.isSym("[") {
		if !r.pathStep(nil) {
			return false
		}
	}
	return true
}

// RecognizeUpdate reports whether s is a sentence of the liberal update grammar.
func RecognizeUpdate(s string) (sentence bool, strict bool) {
	toks, ok := lexAll(s)
	if !ok {
		return false, false
	}
	r := &recog{t: toks, astOK: true, strict: true, update: true}
	clauses := 0
	seen := map[string]bool{}
	for r.peek().kind != "eof" {
		var kind string
		for _, k := range []string{"SET", "REMOVE", "ADD", "DELETE"} {
			if r.kw(k) {
				kind = k
				break
			}
		}
		if kind == "" {
			return false, false
		}
		if seen[kind] {
			return false, false // every section (SET, REMOVE, ADD, DELETE) can be used once
		}
		seen[kind] = true
		clauses++
		for {
			if !r.pathOnly() {
				return false, false
			}
			switch kind {
			case "SET":
				if !r.isSym("=") {
					return false, false
				}
				r.next()
				if !r.value() {
					return false, false
				}
			case "ADD", "DELETE":
				if !r.value() {
					return false, false
				}
			}
			if r.isSym(",") {
				r.next()
				continue
			}
			break
		}
	}
	return clauses > 0, r.strict
}
