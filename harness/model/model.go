// Package model is the sequential reference model of a minidyn client: a catalogue of
// tables, each a map from real key tuples to items; secondary indexes are derived on
// demand from the base map, so they cannot drift.
package model

import (
	"fmt"
	"sort"
	"strings"

	"verifharness/adapt"
	"verifharness/refmodel"
	"verifharness/val"
)

// Table is the model of one table.
type Table struct {
	Spec  adapt.TableSpec
	Items map[string]val.Item // key tuple canon -> item
}

// Client is the model of one client.
type Client struct {
	Tables map[string]*Table
	Fail   string // "", "internal_server", "deprecated"
}

// New returns an empty model client.
func New() *Client { return &Client{Tables: map[string]*Table{}} }

// Clone deep-copies the model.
func (c *Client) Clone() *Client {
	o := &Client{Tables: map[string]*Table{}, Fail: c.Fail}
	for n, t := range c.Tables {
		nt := &Table{Spec: t.Spec, Items: map[string]val.Item{}}
		nt.Spec.Indexes = append([]adapt.IndexSpec{}, t.Spec.Indexes...)
		for k, it := range t.Items {
			nt.Items[k] = it.Clone()
		}
		o.Tables[n] = nt
	}
	return o
}

// Diff is one disagreement between implementation and model.
type Diff struct {
	Rule   string `json:"rule"`
	Detail string `json:"detail"`
}

func typ(t string) val.Kind {
	if t == "" {
		return val.KS
	}
	return val.Kind(t)
}

// KeyCanon returns the canonical key tuple of an item/key for the table, or an error
// class when a key attribute is missing or of the wrong type.
func (t *Table) KeyCanon(it val.Item) (string, bool) {
	h, ok := it[t.Spec.Hash]
	if !ok || h.K != typ(t.Spec.HashT) {
		return "", false
	}
	k := h.Canon()
	if t.Spec.Range != "" {
		r, ok := it[t.Spec.Range]
		if !ok || r.K != typ(t.Spec.RangeT) {
			return "", false
		}
		k += "|" + r.Canon()
	}
	return k, true
}

// KeyOf extracts the key attributes of an item.
func (t *Table) KeyOf(it val.Item) val.Item {
	k := val.Item{}
	if v, ok := it[t.Spec.Hash]; ok {
		k[t.Spec.Hash] = v
	}
	if t.Spec.Range != "" {
		if v, ok := it[t.Spec.Range]; ok {
			k[t.Spec.Range] = v
		}
	}
	return k
}

// Index returns the spec of the named index.
func (t *Table) Index(name string) (adapt.IndexSpec, bool) {
	for _, ix := range t.Spec.Indexes {
		if ix.Name == name {
			return ix, true
		}
	}
	return adapt.IndexSpec{}, false
}

// indexKeyProblem reports whether the item carries an index key attribute of the wrong type.
func (t *Table) indexKeyProblem(it val.Item) bool {
	for _, ix := range t.Spec.Indexes {
		if v, ok := it[ix.Hash]; ok && v.K != typ(ix.HashT) {
			return true
		}
		if ix.Range != "" {
			if v, ok := it[ix.Range]; ok && v.K != typ(ix.RangeT) {
				return true
			}
		}
	}
	return false
}

// InIndex reports whether the item has all key attributes of the index (sparse indexes).
func InIndex(ix adapt.IndexSpec, it val.Item) bool {
	if v, ok := it[ix.Hash]; !ok || v.K != typ(ix.HashT) {
		return false
	}
	if ix.Range != "" {
		if v, ok := it[ix.Range]; !ok || v.K != typ(ix.RangeT) {
			return false
		}
	}
	return true
}

// EmptyHashOnlyKey reports that the item's key in the hash-only index is an empty string or empty binary: the
// library renders the index key as "" and takes that for "the item lacks the key attribute" (listed finding).
func EmptyHashOnlyKey(ix adapt.IndexSpec, it val.Item) bool {
	if ix.Range != "" {
		return false
	}
	v, ok := it[ix.Hash]
	return ok && (v.K == val.KS || v.K == val.KB) && v.K == typ(ix.HashT) && v.Str == ""
}

// Source returns the items visible through the base table ("" index) or an index.
func (t *Table) Source(index string) ([]val.Item, bool) {
	out := []val.Item{}
	if index == "" {
		for _, it := range t.Items {
			out = append(out, it)
		}
		return out, true
	}
	ix, ok := t.Index(index)
	if !ok {
		return nil, false
	}
	for _, it := range t.Items {
		if InIndex(ix, it) {
			out = append(out, it)
		}
	}
	return out, true
}

// SortAttr returns the sort-key attribute (and its type) of the base table or index.
func (t *Table) SortAttr(index string) (string, val.Kind) {
	if index == "" {
		return t.Spec.Range, typ(t.Spec.RangeT)
	}
	ix, _ := t.Index(index)
	return ix.Range, typ(ix.RangeT)
}

// Desc builds the expected description.
func (t *Table) Desc() *adapt.Desc {
	d := &adapt.Desc{Name: t.Spec.Name, Hash: t.Spec.Hash, Range: t.Spec.Range, Count: int64(len(t.Items))}
	for _, ix := range t.Spec.Indexes {
		src, _ := t.Source(ix.Name)
		id := adapt.IndexDesc{Name: ix.Name, Local: ix.Local, Hash: ix.Hash, Range: ix.Range, Count: int64(len(src)), HasCnt: true, Proj: ix.ProjType(), NonKey: append([]string(nil), ix.NonKey...)}
		for _, it := range src {
			if EmptyHashOnlyKey(ix, it) {
				id.EmptyKeyed++
			}
		}
		d.Indexes = append(d.Indexes, id)
	}
	adapt.SortIndexDescs(d.Indexes)
	return d
}

func isRejectClass(cls string) bool {
	switch cls {
	case adapt.ClsValidation, adapt.ClsRejectPanic, adapt.ClsSyntax, adapt.ClsUnsupported, adapt.ClsParam:
		return true
	}
	return strings.HasPrefix(cls, "Other")
}

// IsRejectClass reports whether the class is an admissible way of rejecting a malformed request.
func IsRejectClass(cls string) bool { return isRejectClass(cls) }

func failClass(f string) string {
	switch f {
	case "internal_server":
		return adapt.ClsInternal
	case "deprecated":
		return adapt.ClsForced
	}
	return ""
}

func diff(rule, format string, a ...interface{}) []Diff {
	return []Diff{{Rule: rule, Detail: fmt.Sprintf(format, a...)}}
}

// placeholderProblems applies the documented placeholder rules: every supplied name/value
// must be used, every used one must be supplied.
func placeholderProblems(op adapt.Op, texts ...string) (bool, bool) {
	// Only decided when ASTs are present for every non-empty text; otherwise unknown.
	usedVals := map[string]bool{}
	usedNames := map[string]bool{}
	known := true
	add := func(vals []string, names map[string]string) {
		for _, v := range vals {
			usedVals[v] = true
		}
		for k := range names {
			usedNames[k] = true
		}
	}
	if op.Cond != "" {
		if op.CondAST == nil {
			known = false
		} else {
			n := map[string]string{}
			op.CondAST.Render(n, refmodel.RenderOpts{})
			add(op.CondAST.ValueNames(), n)
		}
	}
	if op.Filter != "" {
		if op.FilterAST == nil {
			known = false
		} else {
			n := map[string]string{}
			op.FilterAST.Render(n, refmodel.RenderOpts{})
			add(op.FilterAST.ValueNames(), n)
		}
	}
	if op.KeyCnd != "" {
		if op.KeyAST == nil {
			known = false
		} else {
			n := map[string]string{}
			op.KeyAST.Render(n, refmodel.RenderOpts{})
			add(op.KeyAST.ValueNames(), n)
		}
	}
	if op.Update != "" {
		if op.UpdAST == nil {
			known = false
		} else {
			n := map[string]string{}
			op.UpdAST.Render(n, refmodel.RenderOpts{})
			add(op.UpdAST.ValueNames(), n)
		}
	}
	if !known {
		return false, false
	}
	bad := false
	for k := range op.Values {
		if !usedVals[k] {
			bad = true
		}
	}
	for k := range op.Names {
		if !usedNames[k] {
			bad = true
		}
	}
	for k := range usedVals {
		if _, ok := op.Values[k]; !ok {
			bad = true
		}
	}
	for k := range usedNames {
		if _, ok := op.Names[k]; !ok {
			bad = true
		}
	}
	return bad, true
}

// Step checks the implementation's outcome for op against the model and advances the
// model state in the way the implementation's (admissible) outcome implies.
func (c *Client) Step(op adapt.Op, got adapt.Outcome) []Diff {
	if got.Class == adapt.ClsRuntime {
		return diff("runtime-panic", "%s: runtime panic at %s: %s", op.Kind, got.Site, got.Msg)
	}
	if got.RespNil {
		return diff("nil-output", "%s: nil output with nil error", op.Kind)
	}
	switch op.Kind {
	case adapt.OpEmulate:
		switch op.Fail {
		case "none":
			c.Fail = ""
		case "internal_server", "deprecated":
			c.Fail = op.Fail
		default:
			c.Fail = "" // unknown condition maps to no error in emulatingErrors
		}
		return nil
	case adapt.OpForceOn:
		c.Fail = "deprecated"
		return nil
	case adapt.OpForceOff:
		c.Fail = ""
		return nil
	case adapt.OpSetMetrics:
		// canned ItemCollectionMetrics of BatchWriteItem outputs: no effect on tables, items or the failure switch
		return wantClass(op, got, adapt.ClsOK)
	}
	dataOp := false
	switch op.Kind {
	case adapt.OpPut, adapt.OpGet, adapt.OpUpdate, adapt.OpDelete, adapt.OpQuery, adapt.OpScan, adapt.OpBatchWrite, adapt.OpBatchGet, adapt.OpTransact:
		dataOp = true
	}
	if dataOp && c.Fail != "" {
		return c.stepUnderFailure(op, got)
	}
	switch op.Kind {
	case adapt.OpPut:
		return c.stepPut(op, got)
	case adapt.OpGet:
		return c.stepGet(op, got)
	case adapt.OpUpdate:
		return c.stepUpdate(op, got)
	case adapt.OpDelete:
		return c.stepDelete(op, got)
	case adapt.OpQuery, adapt.OpScan:
		return c.stepSearch(op, got)
	case adapt.OpBatchWrite:
		return c.stepBatchWrite(op, got)
	case adapt.OpBatchGet:
		return c.stepBatchGet(op, got)
	case adapt.OpTransact:
		if got.Class != adapt.ClsOK {
			return diff("class", "transact: got %s want ok", got.Class)
		}
		return nil
	case adapt.OpCreateTable, adapt.OpAddTable:
		return c.stepCreate(op, got)
	case adapt.OpDeleteTable:
		t, ok := c.Tables[op.Table]
		if !ok {
			return wantClass(op, got, adapt.ClsNotFound)
		}
		if d := wantClass(op, got, adapt.ClsOK); d != nil {
			return d
		}
		var ds []Diff
		if got.Desc != nil {
			ds = compareDesc("delete-desc", got.Desc, t.Desc())
		}
		delete(c.Tables, op.Table)
		return ds
	case adapt.OpDescribe:
		t, ok := c.Tables[op.Table]
		if !ok {
			return wantClass(op, got, adapt.ClsNotFound)
		}
		if d := wantClass(op, got, adapt.ClsOK); d != nil {
			return d
		}
		if got.Desc == nil {
			return diff("desc", "describe %s: no description", op.Table)
		}
		return compareDesc("desc", got.Desc, t.Desc())
	case adapt.OpUpdateTable, adapt.OpAddIndex:
		return c.stepUpdateTable(op, got)
	case adapt.OpClearTable:
		t, ok := c.Tables[op.Table]
		if !ok {
			return wantClass(op, got, adapt.ClsNotFound)
		}
		if d := wantClass(op, got, adapt.ClsOK); d != nil {
			return d
		}
		t.Items = map[string]val.Item{}
		return nil
	}
	return diff("unknown-op", "model does not know %s", op.Kind)
}

func typS(t string) string {
	if t == "" {
		return "S"
	}
	return t
}

func wantClass(op adapt.Op, got adapt.Outcome, want ...string) []Diff {
	for _, w := range want {
		if got.Class == w {
			return nil
		}
	}
	return diff("class", "%s on %q: got class %s (%s), admissible %v", op.Kind, op.Table, got.Class, trunc(got.Msg), want)
}

func trunc(s string) string {
	if len(s) > 160 {
		return s[:160] + "…"
	}
	return s
}

func wantReject(op adapt.Op, got adapt.Outcome, why string) []Diff {
	if isRejectClass(got.Class) {
		return nil
	}
	return diff("accept-invalid", "%s on %q must be rejected (%s) but got class %s", op.Kind, op.Table, why, got.Class)
}

func compareDesc(rule string, got, want *adapt.Desc) []Diff {
	var ds []Diff
	if got.Name != want.Name || got.Hash != want.Hash || got.Range != want.Range {
		ds = append(ds, Diff{rule + "-schema", fmt.Sprintf("description %+v, want name/hash/range %s/%s/%s", *got, want.Name, want.Hash, want.Range)})
	}
	if got.Count != want.Count {
		ds = append(ds, Diff{rule + "-count", fmt.Sprintf("table %s ItemCount %d, want %d", want.Name, got.Count, want.Count)})
	}
	if len(got.Indexes) != len(want.Indexes) {
		ds = append(ds, Diff{rule + "-indexes", fmt.Sprintf("table %s has indexes %+v, want %+v", want.Name, got.Indexes, want.Indexes)})
		return ds
	}
	for i := range want.Indexes {
		g, w := got.Indexes[i], want.Indexes[i]
		if g.Name != w.Name || g.Hash != w.Hash || g.Range != w.Range || g.Local != w.Local {
			ds = append(ds, Diff{rule + "-indexes", fmt.Sprintf("table %s index %+v, want %+v", want.Name, g, w)})
			continue
		}
		if g.Proj != w.Proj || strings.Join(g.NonKey, ",") != strings.Join(w.NonKey, ",") {
			ds = append(ds, Diff{rule + "-index-projection", fmt.Sprintf("table %s index %s is described with projection %q %v, declared %q %v", want.Name, g.Name, g.Proj, g.NonKey, w.Proj, w.NonKey)})
		}
		if g.HasCnt && g.Count != w.Count && w.EmptyKeyed > 0 && g.Count == w.Count-w.EmptyKeyed {
			ds = append(ds, Diff{"not-indexed~empty-hash-only-index-key", fmt.Sprintf("table %s index %s ItemCount %d, want %d: the %d items whose key in this hash-only index is an empty string / binary are not counted", want.Name, g.Name, g.Count, w.Count, w.EmptyKeyed)})
			continue
		}
		if g.HasCnt && g.Count != w.Count {
			ds = append(ds, Diff{rule + "-index-count", fmt.Sprintf("table %s index %s ItemCount %d, want %d", want.Name, g.Name, g.Count, w.Count)})
		}
	}
	return ds
}

func (c *Client) stepUnderFailure(op adapt.Op, got adapt.Outcome) []Diff {
	want := failClass(c.Fail)
	if got.Class == adapt.ClsNotImpl {
		return nil // the SDK v1 adapter has no BatchGetItem at all
	}
	if op.Kind == adapt.OpBatchWrite && (got.Class == adapt.ClsValidation || got.Class == adapt.ClsParam) {
		// a request that breaks the batch rules (more than 25 writes, a write request that is neither or both
		// put and delete) is refused by the client-side input validation before the failure condition is
		// consulted - as the SDK / the service do; the configured error is equally admissible
		invalid := len(op.Batch) > 25 || len(op.Batch) == 0
		for _, e := range op.Batch {
			if (e.Put == nil) == (e.Del == nil) {
				invalid = true
			}
		}
		if invalid {
			return nil
		}
	}
	if op.Kind == adapt.OpBatchWrite && c.Fail == "internal_server" {
		// every request must be reported unprocessed (none can have been applied while failing)
		if got.Class != adapt.ClsOK {
			return diff("batch-under-failure", "batchwrite under internal_server: got class %s, want ok with every request in UnprocessedItems", got.Class)
		}
		if d := compareBatchEntries(op.Batch, got.Unproc); d != "" {
			return diff("batch-under-failure", "batchwrite under internal_server: %s", d)
		}
		return nil
	}
	if got.Class != want {
		return diff("failure-class", "%s while %s active: got class %s (%s), want %s", op.Kind, c.Fail, got.Class, trunc(got.Msg), want)
	}
	return nil
}

func entryCanon(e adapt.BatchEntry) string {
	s := e.Table + "|"
	if e.Put != nil {
		s += "put:" + e.Put.Canon()
	}
	if e.Del != nil {
		s += "del:" + e.Del.Canon()
	}
	return s
}

func compareBatchEntries(want, got []adapt.BatchEntry) string {
	w := []string{}
	for _, e := range want {
		w = append(w, entryCanon(e))
	}
	g := []string{}
	for _, e := range got {
		g = append(g, entryCanon(e))
	}
	sort.Strings(w)
	sort.Strings(g)
	if strings.Join(w, "\n") != strings.Join(g, "\n") {
		return fmt.Sprintf("unprocessed %d entries %v, want %d entries %v", len(g), g, len(w), w)
	}
	return ""
}

// condOutcome evaluates a write condition on the stored (or empty) item.
func condOutcome(op adapt.Op, stored val.Item) (refmodel.Res, bool) {
	if op.Cond == "" {
		return refmodel.T, true
	}
	if op.CondAST == nil {
		return refmodel.Any, false
	}
	it := stored
	if it == nil {
		it = val.Item{}
	}
	return op.CondAST.Eval(it, op.Values), true
}

// applyCondClass checks the class against the admissible condition outcomes; it returns
// (proceed, diffs): proceed is true when the write must be applied.
func applyCondClass(op adapt.Op, got adapt.Outcome, res refmodel.Res) (bool, []Diff) {
	switch {
	case got.Class == adapt.ClsOK:
		if res&refmodel.T == 0 {
			return true, diff("cond-accept", "%s applied although its condition is %s on the target item", op.Kind, res)
		}
		return true, nil
	case got.Class == adapt.ClsCondFailed:
		if res&refmodel.F == 0 {
			return false, diff("cond-refuse", "%s refused (ConditionalCheckFailed) although its condition is %s on the target item", op.Kind, res)
		}
		return false, nil
	case isRejectClass(got.Class):
		if res&refmodel.R == 0 {
			return false, diff("cond-reject", "%s rejected with %s (%s) although its condition is well-formed and evaluates to %s", op.Kind, got.Class, trunc(got.Msg), res)
		}
		return false, nil
	}
	return false, diff("class", "%s: unexpected class %s (%s)", op.Kind, got.Class, trunc(got.Msg))
}

func (c *Client) stepPut(op adapt.Op, got adapt.Outcome) []Diff {
	t, ok := c.Tables[op.Table]
	bad, known := placeholderProblems(op)
	if known && bad {
		return wantReject(op, got, "placeholder rules")
	}
	if !ok {
		return wantClass(op, got, adapt.ClsNotFound)
	}
	key, kok := t.KeyCanon(op.Item)
	if !kok {
		return wantClass(op, got, adapt.ClsValidation)
	}
	if t.indexKeyProblem(op.Item) {
		return wantClass(op, got, adapt.ClsValidation)
	}
	res, _ := condOutcome(op, t.Items[key])
	proceed, ds := applyCondClass(op, got, res)
	if ds != nil {
		return ds
	}
	if d := ccfItem(op, got, t.Items[key]); d != nil {
		return d
	}
	if proceed {
		t.Items[key] = op.Item.Clone()
	}
	return nil
}

// ccfItem: "when requested, the failure carries the unchanged stored item" (PutItem and DeleteItem; UpdateItem
// has the same rule inline). Only the SDK v2 input has the request field, callers set RetCCF for it only.
func ccfItem(op adapt.Op, got adapt.Outcome, stored val.Item) []Diff {
	if got.Class != adapt.ClsCondFailed {
		return nil
	}
	if got.CCFItem != nil && !val.ItemsEqual(got.CCFItem, stored) {
		return diff("ccf-item", "ConditionalCheckFailed carried %s, stored item is %s", got.CCFItem.Canon(), stored.Canon())
	}
	if op.RetCCF && stored != nil && got.CCFItem == nil {
		return diff("ccf-item-missing", "%s: ALL_OLD requested on condition failure but no item carried; stored %s", op.Kind, stored.Canon())
	}
	if !op.RetCCF && got.CCFItem != nil {
		return diff("ccf-item-unrequested", "%s: the failure carries the stored item although the request did not ask for it", op.Kind)
	}
	return nil
}

func (c *Client) stepGet(op adapt.Op, got adapt.Outcome) []Diff {
	t, ok := c.Tables[op.Table]
	if !ok {
		return wantClass(op, got, adapt.ClsNotFound)
	}
	key, kok := t.KeyCanon(op.Key)
	if !kok {
		return wantClass(op, got, adapt.ClsValidation)
	}
	if d := wantClass(op, got, adapt.ClsOK); d != nil {
		return d
	}
	want := t.Items[key]
	if eq, rule := itemsEq("get-item", got.Item, want); !eq {
		return diff(rule, "GetItem %s returned %s, model has %s", op.Key.Canon(), got.Item.Canon(), want.Canon())
	}
	return nil
}

// UpdateTouchesKey reports whether an update action names a key attribute of the table or
// one of its indexes' key attributes with a resulting wrong type (handled by callers).
func updateTouchesKey(t *Table, u *refmodel.Update) bool {
	for _, a := range u.Actions {
		if a.Path[0].Name == t.Spec.Hash || (t.Spec.Range != "" && a.Path[0].Name == t.Spec.Range) {
			return true
		}
	}
	return false
}

func (c *Client) stepUpdate(op adapt.Op, got adapt.Outcome) []Diff {
	t, ok := c.Tables[op.Table]
	bad, known := placeholderProblems(op)
	if known && bad {
		return wantReject(op, got, "placeholder rules")
	}
	if !ok {
		return wantClass(op, got, adapt.ClsNotFound)
	}
	key, kok := t.KeyCanon(op.Key)
	if !kok {
		return wantClass(op, got, adapt.ClsValidation)
	}
	stored := t.Items[key]
	res, _ := condOutcome(op, stored)
	if op.UpdAST == nil {
		return diff("model-gap", "update without AST")
	}
	// what the update itself does when the condition lets it through
	base := stored
	if base == nil {
		base = t.KeyOf(op.Key).Clone()
	}
	ur := op.UpdAST.Apply(base, op.Values)
	updRejects := ur.Reject || (!ur.Unsure && ur.Item != nil && t.indexKeyProblem(ur.Item))
	if updateTouchesKey(t, op.UpdAST) {
		updRejects = true
		ur = refmodel.UResult{Reject: true}
	}
	switch {
	case got.Class == adapt.ClsCondFailed:
		if res&refmodel.F == 0 {
			return diff("cond-refuse", "update refused (ConditionalCheckFailed) although its condition is %s on the target item", res)
		}
		if got.CCFItem != nil && !val.ItemsEqual(got.CCFItem, stored) {
			return diff("ccf-item", "ConditionalCheckFailed carried %s, stored item is %s", got.CCFItem.Canon(), stored.Canon())
		}
		if op.RetCCF && stored != nil && got.CCFItem == nil {
			return diff("ccf-item-missing", "ALL_OLD requested on condition failure but no item carried; stored %s", stored.Canon())
		}
		return nil
	case isRejectClass(got.Class):
		if res&refmodel.R != 0 {
			return nil
		}
		if res&refmodel.T != 0 && (updRejects || ur.Unsure || ur.OrReject) {
			return nil
		}
		if res&refmodel.T == 0 {
			return diff("cond-reject", "update rejected with %s (%s) although its condition is well-formed and evaluates to %s", got.Class, trunc(got.Msg), res)
		}
		return diff("update-reject-valid", "update %q rejected with %s (%s); the model accepts it (pre-update item %s)", op.Update, got.Class, trunc(got.Msg), base.Canon())
	case got.Class == adapt.ClsOK:
		if res&refmodel.T == 0 {
			return diff("cond-accept", "update applied although its condition is %s on the target item", res)
		}
		if ur.Unsure {
			// admit anything; resynchronise the model from the implementation's answer
			if got.Item != nil {
				t.Items[key] = got.Item.Clone()
			}
			return nil
		}
		if updRejects {
			if ur.Item != nil {
				return diff("update-accept-invalid", "update giving an index key attribute a wrong type was accepted")
			}
			if updateTouchesKey(t, op.UpdAST) {
				return diff("update-key-attr", "update %q naming a key attribute was accepted", op.Update)
			}
			// DynamoDB rejects the expression (an operand of the wrong type, a right-hand side that reads a missing
			// attribute); no property obliges the library to - its answer is admitted and the model follows it
			if got.Item != nil {
				t.Items[key] = got.Item.Clone()
			}
			return nil
		}
		t.Items[key] = ur.Item
		if eq, rule := itemsEq("update-result", got.Item, ur.Item); !eq {
			return diff(rule, "UpdateItem %q returned %s, model computes %s (pre-update item %s)", op.Update, got.Item.Canon(), ur.Item.Canon(), base.Canon())
		}
		return nil
	}
	return diff("class", "update: unexpected class %s (%s)", got.Class, trunc(got.Msg))
}

// Quirk is a named normalisation that explains a known, listed defect: when two items differ
// but become equal after the normalisation, the difference is reported under the quirk's
// own rule name so that it can be listed (and only it) as a known finding.
type Quirk struct {
	Name string
	Norm func(v val.V) val.V
}

// Quirks are tried in order.
var Quirks = []Quirk{
	{Name: "empty-LM-as-NULL", Norm: func(v val.V) val.V { return mapTree(v, emptyLMToNull) }},
}

func emptyLMToNull(v val.V) val.V {
	if (v.K == val.KL && len(v.L) == 0) || (v.K == val.KM && len(v.M) == 0) {
		return val.Null()
	}
	return v
}

func mapTree(v val.V, f func(val.V) val.V) val.V {
	switch v.K {
	case val.KL:
		o := val.V{K: val.KL, L: []val.V{}}
		for _, e := range v.L {
			o.L = append(o.L, mapTree(e, f))
		}
		return f(o)
	case val.KM:
		o := val.V{K: val.KM, M: map[string]val.V{}}
		for k, e := range v.M {
			o.M[k] = mapTree(e, f)
		}
		return f(o)
	}
	return f(v)
}

func normItem(it val.Item, q Quirk) val.Item {
	if it == nil {
		return nil
	}
	o := val.Item{}
	for k, v := range it {
		o[k] = q.Norm(v)
	}
	return o
}

// itemsEq compares two items; on a mismatch that a quirk explains, the rule is
// "<base>~<quirk>".
func itemsEq(baseRule string, got, want val.Item) (bool, string) {
	if val.ItemsEqual(got, want) {
		return true, baseRule
	}
	for _, q := range Quirks {
		if val.ItemsEqual(normItem(got, q), normItem(want, q)) {
			return false, baseRule + "~" + q.Name
		}
	}
	return false, baseRule
}

// itemSetsEq compares two multisets of items with the same quirk explanation.
func itemSetsEq(baseRule string, got, want []val.Item) (bool, string) {
	if adapt.ItemsSetCanon(got) == adapt.ItemsSetCanon(want) {
		return true, baseRule
	}
	for _, q := range Quirks {
		g := []val.Item{}
		for _, it := range got {
			g = append(g, normItem(it, q))
		}
		w := []val.Item{}
		for _, it := range want {
			w = append(w, normItem(it, q))
		}
		if adapt.ItemsSetCanon(g) == adapt.ItemsSetCanon(w) {
			return false, baseRule + "~" + q.Name
		}
	}
	return false, baseRule
}

func (c *Client) stepDelete(op adapt.Op, got adapt.Outcome) []Diff {
	t, ok := c.Tables[op.Table]
	bad, known := placeholderProblems(op)
	if known && bad {
		return wantReject(op, got, "placeholder rules")
	}
	if !ok {
		return wantClass(op, got, adapt.ClsNotFound)
	}
	key, kok := t.KeyCanon(op.Key)
	if !kok {
		return wantClass(op, got, adapt.ClsValidation)
	}
	stored := t.Items[key]
	res, _ := condOutcome(op, stored)
	proceed, ds := applyCondClass(op, got, res)
	if ds != nil {
		return ds
	}
	if d := ccfItem(op, got, stored); d != nil {
		return d
	}
	if !proceed {
		return nil
	}
	delete(t.Items, key)
	if op.RetOld {
		if eq, rule := itemsEq("delete-old", got.Item, stored); !eq {
			return diff(rule, "DeleteItem ALL_OLD returned %s, model had %s", got.Item.Canon(), stored.Canon())
		}
	}
	if !op.RetOld && got.Item != nil {
		return diff("delete-old", "DeleteItem without ALL_OLD returned attributes %s", got.Item.Canon())
	}
	return nil
}

// Expected computes the expected result of a Query/Scan without Limit/ExclusiveStartKey:
// items (sorted for Query by sort key in the requested direction; ties in arbitrary order),
// definite=false when a filter/key-condition outcome is not definite for some item.
func (t *Table) Expected(op adapt.Op) (items []val.Item, definite bool, reject bool) {
	src, ok := t.Source(op.Index)
	if !ok {
		return nil, false, false
	}
	definite = true
	for _, it := range src {
		keep := true
		if op.Kind == adapt.OpQuery {
			if op.KeyAST == nil {
				return nil, false, false
			}
			r := op.KeyAST.Eval(it, op.Values)
			if !r.Definite() {
				if r == refmodel.R {
					reject = true
				}
				definite = false
				continue
			}
			keep = r == refmodel.T
		}
		if keep && op.Filter != "" {
			if op.FilterAST == nil {
				return nil, false, false
			}
			r := op.FilterAST.Eval(it, op.Values)
			if !r.Definite() {
				if r == refmodel.R {
					reject = true
				}
				definite = false
				continue
			}
			keep = r == refmodel.T
		}
		if keep {
			items = append(items, it)
		}
	}
	return items, definite, reject
}

// CompareSort compares two items by the sort attribute (value order for N, bytes for S/B).
func CompareSort(a, b val.Item, attr string, k val.Kind) int {
	if attr == "" {
		return 0
	}
	x, y := a[attr], b[attr]
	if x.K != k || y.K != k {
		return 0
	}
	if k == val.KN {
		dx, e1 := val.ParseDec(x.Str)
		dy, e2 := val.ParseDec(y.Str)
		if e1 == nil && e2 == nil {
			return dx.Cmp(dy)
		}
	}
	return strings.Compare(x.Str, y.Str)
}

func (c *Client) stepSearch(op adapt.Op, got adapt.Outcome) []Diff {
	t, ok := c.Tables[op.Table]
	bad, known := placeholderProblems(op)
	if known && bad {
		return wantReject(op, got, "placeholder rules")
	}
	if !ok {
		return wantClass(op, got, adapt.ClsNotFound)
	}
	if op.Index != "" {
		if _, ok := t.Index(op.Index); !ok {
			// an index the table does not (or no longer) have: ValidationException, as DynamoDB answers
			if got.Class != adapt.ClsValidation {
				return diff("unknown-index-class", "%s on %q naming index %q, which the table does not have: got class %s (%s), want a ValidationException", op.Kind, op.Table, op.Index, got.Class, trunc(got.Msg))
			}
			return nil
		}
	}
	want, definite, reject := t.Expected(op)
	if !definite {
		if reject && len(t.Items) > 0 && got.Class == adapt.ClsOK {
			// an expression the oracle says must be rejected for some item – only flagged when it is
			// unconditional (every evaluation rejects), which callers check separately.
			return nil
		}
		return nil
	}
	if d := wantClass(op, got, adapt.ClsOK); d != nil {
		if isRejectClass(got.Class) {
			return diff("search-reject-valid", "%s rejected with %s (%s) although expressions are well-formed", op.Kind, got.Class, trunc(got.Msg))
		}
		return d
	}
	if got.Count != int64(len(got.Items)) {
		return diff("search-count", "%s Count=%d but %d items returned", op.Kind, got.Count, len(got.Items))
	}
	if op.Limit > 0 || op.Start != nil {
		// pagination is C04's business (metamorphic oracle); here: page ⊆ expected, ≤ Limit.
		if op.Limit > 0 && len(got.Items) > op.Limit {
			return diff("page-size", "%s returned %d items with Limit %d", op.Kind, len(got.Items), op.Limit)
		}
		wantSet := map[string]int{}
		for _, it := range want {
			wantSet[it.Canon()]++
		}
		for _, it := range got.Items {
			if wantSet[it.Canon()] == 0 {
				return diff("search-extra", "%s page contains %s which is not in the expected result", op.Kind, it.Canon())
			}
			wantSet[it.Canon()]--
		}
		return nil
	}
	if eq, qrule := itemSetsEq("search-set", got.Items, want); !eq {
		missing, extra := setDelta(want, got.Items)
		rule := qrule
		if ix, isIx := t.Index(op.Index); isIx && op.Index != "" && rule == "search-set" && len(missing) > 0 && len(extra) == 0 {
			only := true
			for _, it := range want {
				found := false
				for _, g := range got.Items {
					if g.Canon() == it.Canon() {
						found = true
						break
					}
				}
				if !found && !EmptyHashOnlyKey(ix, it) {
					only = false
				}
			}
			if only {
				return diff("not-indexed~empty-hash-only-index-key", "%s(index=%q) does not return the %d items whose key in this hash-only index is an empty string / binary: %v", op.Kind, op.Index, len(missing), missing)
			}
		}
		if rule == "search-set" && len(missing) > 0 && len(extra) == 0 {
			rule = "search-missing"
		} else if rule == "search-set" && len(extra) > 0 && len(missing) == 0 {
			rule = "search-extra"
		}
		return diff(rule, "%s(index=%q keycond=%q filter=%q) returned %d items, expected %d; missing %v; extra %v", op.Kind, op.Index, op.KeyCnd, op.Filter, len(got.Items), len(want), missing, extra)
	}
	if op.Kind == adapt.OpQuery {
		attr, k := t.SortAttr(op.Index)
		for i := 1; i < len(got.Items); i++ {
			cmp := CompareSort(got.Items[i-1], got.Items[i], attr, k)
			if (!op.Rev && cmp > 0) || (op.Rev && cmp < 0) {
				return diff("query-order", "Query(index=%q rev=%v) items %d,%d out of sort-key order: %s then %s", op.Index, op.Rev, i-1, i, got.Items[i-1][attr].Canon(), got.Items[i][attr].Canon())
			}
		}
	}
	return nil
}

func setDelta(want, got []val.Item) (missing, extra []string) {
	w := map[string]int{}
	for _, it := range want {
		w[it.Canon()]++
	}
	for _, it := range got {
		if w[it.Canon()] > 0 {
			w[it.Canon()]--
		} else {
			extra = append(extra, it.Canon())
		}
	}
	for k, n := range w {
		for i := 0; i < n; i++ {
			missing = append(missing, k)
		}
	}
	sort.Strings(missing)
	sort.Strings(extra)
	return
}

func validSpec(s *adapt.TableSpec) bool {
	if s.Billing != "PAY_PER_REQUEST" && !s.Throughput {
		return false
	}
	return true
}

func (c *Client) stepCreate(op adapt.Op, got adapt.Outcome) []Diff {
	spec := *op.Spec
	if op.Kind == adapt.OpAddTable {
		spec = adapt.TableSpec{Name: op.Spec.Name, Hash: op.Spec.Hash, Range: op.Spec.Range, Billing: "PAY_PER_REQUEST", Throughput: true}
	}
	if _, exists := c.Tables[spec.Name]; exists {
		return wantClass(op, got, adapt.ClsInUse)
	}
	if !validSpec(&spec) {
		return wantClass(op, got, adapt.ClsValidation)
	}
	seenIx := map[string]bool{}
	for _, ix := range spec.Indexes {
		if seenIx[ix.Name] {
			// two indexes of one name (global, local or one of each): refused, not "the last one wins"
			if got.Class != adapt.ClsValidation {
				return diff("duplicate-index-name", "CreateTable declaring two indexes named %q: got class %s, want a ValidationException", ix.Name, got.Class)
			}
			return nil
		}
		seenIx[ix.Name] = true
	}
	if d := wantClass(op, got, adapt.ClsOK); d != nil {
		return d
	}
	t := &Table{Spec: spec, Items: map[string]val.Item{}}
	t.Spec.Indexes = append([]adapt.IndexSpec{}, spec.Indexes...)
	c.Tables[spec.Name] = t
	if got.Desc != nil {
		return compareDesc("create-desc", got.Desc, t.Desc())
	}
	return nil
}

func (c *Client) stepUpdateTable(op adapt.Op, got adapt.Outcome) []Diff {
	t, ok := c.Tables[op.Table]
	if !ok {
		return wantClass(op, got, adapt.ClsNotFound)
	}
	changes := op.Chg
	if op.Kind == adapt.OpAddIndex {
		changes = []adapt.IndexChange{{Create: op.Ix}}
		if t.Spec.Billing != "PAY_PER_REQUEST" {
			// the AddIndex helper never supplies a provisioned throughput, which a global secondary
			// index of a provisioned table needs
			return wantClass(op, got, adapt.ClsValidation)
		}
	}
	// an index key attribute that is already a key attribute of the table or of another index keeps its declared
	// type: a request that declares it with ANOTHER type (the AddIndex helper always declares S) must be refused -
	// it cannot silently re-type the keys of the stored items
	declared := map[string]string{t.Spec.Hash: typS(t.Spec.HashT)}
	if t.Spec.Range != "" {
		declared[t.Spec.Range] = typS(t.Spec.RangeT)
	}
	for _, ix := range t.Spec.Indexes {
		declared[ix.Hash] = typS(ix.HashT)
		if ix.Range != "" {
			declared[ix.Range] = typS(ix.RangeT)
		}
	}
	for _, ch := range changes {
		if ch.Create == nil || op.NoDefs {
			continue
		}
		for _, pr := range [][2]string{{ch.Create.Hash, ch.Create.HashT}, {ch.Create.Range, ch.Create.RangeT}} {
			if d, ok := declared[pr[0]]; ok && pr[0] != "" && d != typS(pr[1]) {
				return wantClass(op, got, adapt.ClsValidation)
			}
		}
	}
	// validate the whole request first: a failing request must leave no trace (C08)
	names := map[string]bool{}
	for _, ix := range t.Spec.Indexes {
		names[ix.Name] = true
	}
	for _, ch := range changes {
		if ch.Create != nil {
			if names[ch.Create.Name] {
				// an index (global or local) of that name exists: the request is refused, the existing index is
				// never silently replaced by another one
				if got.Class != adapt.ClsValidation {
					return diff("create-existing-index", "UpdateTable creating index %q, which the table already has: got class %s (%s), want a ValidationException", ch.Create.Name, got.Class, trunc(got.Msg))
				}
				return nil
			}
			names[ch.Create.Name] = true
		}
		if ch.Update != "" {
			if !names[ch.Update] {
				// new throughput for an index that does not exist: DynamoDB rejects; minidyn ignores the action.
				// Either way the set of indexes must not change - the model goes on with the other changes
				// only if the call succeeded
				if got.Class != adapt.ClsOK {
					return wantClass(op, got, adapt.ClsNotFound, adapt.ClsValidation)
				}
			}
		}
		if ch.Delete != "" {
			if !names[ch.Delete] {
				return wantClass(op, got, adapt.ClsNotFound, adapt.ClsValidation)
			}
			if ix, _ := t.Index(ch.Delete); ix.Local && ix.Name == ch.Delete {
				// a local secondary index lives as long as its table: it is no GLOBAL secondary index to delete
				if got.Class != adapt.ClsNotFound && got.Class != adapt.ClsValidation {
					return diff("delete-local-index", "UpdateTable deleting the LOCAL secondary index %q: got class %s, want it refused", ch.Delete, got.Class)
				}
				return nil
			}
			delete(names, ch.Delete)
		}
	}
	if op.NoDefs {
		// an index created without declaring its key attributes in the same request: DynamoDB insists on the
		// declaration, minidyn accepts it when an earlier request declared them. Unsure: both answers are
		// admitted (a refusal must be a validation error and leaves no trace); the SDK adapters must agree (C17)
		for _, ch := range changes {
			if ch.Create != nil && got.Class != adapt.ClsOK {
				return wantClass(op, got, adapt.ClsValidation)
			}
		}
	}
	if d := wantClass(op, got, adapt.ClsOK); d != nil {
		return d
	}
	for _, ch := range changes {
		if ch.Create != nil {
			t.Spec.Indexes = append(t.Spec.Indexes, *ch.Create)
		}
		if ch.Delete != "" {
			out := []adapt.IndexSpec{}
			for _, ix := range t.Spec.Indexes {
				if ix.Name != ch.Delete {
					out = append(out, ix)
				}
			}
			t.Spec.Indexes = out
		}
	}
	if got.Desc != nil {
		return compareDesc("update-desc", got.Desc, t.Desc())
	}
	return nil
}

func (c *Client) stepBatchWrite(op adapt.Op, got adapt.Outcome) []Diff {
	// validation: exactly one of put/delete, at most 25
	invalid := len(op.Batch) > 25 || len(op.Batch) == 0
	for _, e := range op.Batch {
		if (e.Put == nil) == (e.Del == nil) {
			invalid = true
		}
	}
	if invalid {
		return wantReject(op, got, "batch rules")
	}
	// decomposition: all sub-requests valid? (unknown table / bad key -> error; effects of earlier ones are C08's business)
	for _, e := range op.Batch {
		t, ok := c.Tables[e.Table]
		if !ok {
			if got.Class == adapt.ClsOK {
				return diff("class", "batchwrite naming missing table accepted")
			}
			return diff("model-gap", "batchwrite with failing sub-request is not model-checked")
		}
		it := e.Put
		if it == nil {
			it = e.Del
		}
		if _, kok := t.KeyCanon(it); !kok || (e.Put != nil && t.indexKeyProblem(e.Put)) {
			if got.Class == adapt.ClsOK {
				return diff("class", "batchwrite with malformed key accepted")
			}
			return diff("model-gap", "batchwrite with failing sub-request is not model-checked")
		}
	}
	if d := wantClass(op, got, adapt.ClsOK); d != nil {
		return d
	}
	if len(got.Unproc) != 0 {
		return diff("batch-unprocessed", "batchwrite without failure reported %d unprocessed requests", len(got.Unproc))
	}
	for _, e := range op.Batch {
		t := c.Tables[e.Table]
		if e.Put != nil {
			k, _ := t.KeyCanon(e.Put)
			t.Items[k] = e.Put.Clone()
		} else {
			k, _ := t.KeyCanon(e.Del)
			delete(t.Items, k)
		}
	}
	return nil
}

func (c *Client) stepBatchGet(op adapt.Op, got adapt.Outcome) []Diff {
	if got.Class == adapt.ClsNotImpl {
		return nil
	}
	want := map[string][]val.Item{}
	for _, e := range op.Gets {
		_, ok := c.Tables[e.Table]
		if !ok {
			// a request naming a table that does not exist fails as a whole
			if got.Class != adapt.ClsNotFound {
				return diff("batchget-missing-table", "BatchGetItem naming table %q, which does not exist: got class %s, want ResourceNotFound", e.Table, got.Class)
			}
			return nil
		}
	}
	for _, e := range op.Gets {
		t := c.Tables[e.Table]
		k, kok := t.KeyCanon(e.Del)
		if !kok {
			if got.Class != adapt.ClsValidation {
				return diff("batchget-malformed-key", "BatchGetItem with the malformed key %s for %s: got class %s (unprocessed %v), want a ValidationException", e.Del.Canon(), e.Table, got.Class, len(got.UnprocK[e.Table]))
			}
			return nil
		}
		if _, seen := want[e.Table]; !seen {
			want[e.Table] = []val.Item{}
		}
		if it, ok := t.Items[k]; ok {
			want[e.Table] = append(want[e.Table], it)
		}
	}
	if d := wantClass(op, got, adapt.ClsOK); d != nil {
		return d
	}
	for tname, keys := range got.UnprocK {
		if len(keys) > 0 {
			return diff("batchget-unprocessed", "BatchGetItem reported %d unprocessed keys for %s without any failure: %s", len(keys), tname, adapt.ItemsCanon(keys))
		}
	}
	for tname, w := range want {
		if adapt.ItemsSetCanon(got.Resp[tname]) != adapt.ItemsSetCanon(w) {
			return diff("batchget-responses", "BatchGetItem responses for %s: %s, want %s", tname, adapt.ItemsSetCanon(got.Resp[tname]), adapt.ItemsSetCanon(w))
		}
	}
	for tname, g := range got.Resp {
		if _, ok := want[tname]; !ok && len(g) > 0 {
			return diff("batchget-responses", "BatchGetItem responses for unrequested table %s", tname)
		}
	}
	return nil
}

// QuirkNames returns the names of the listed quirks that explain the difference between two items.
func QuirkNames(got, want val.Item) []string {
	out := []string{}
	if val.ItemsEqual(got, want) {
		return out
	}
	for _, q := range Quirks {
		if val.ItemsEqual(normItem(got, q), normItem(want, q)) {
			out = append(out, q.Name)
			break
		}
	}
	return out
}

// Canon renders the whole model state canonically (used as porcupine state identity).
func (c *Client) Canon() string {
	names := []string{}
	for n := range c.Tables {
		names = append(names, n)
	}
	sort.Strings(names)
	var sb strings.Builder
	sb.WriteString("fail=" + c.Fail + ";")
	for _, n := range names {
		t := c.Tables[n]
		fmt.Fprintf(&sb, "table %s %s/%s %s/%v [", n, t.Spec.Hash, t.Spec.Range, t.Spec.Billing, t.Spec.Throughput)
		for _, ix := range t.Spec.Indexes {
			fmt.Fprintf(&sb, "%s:%s/%s/%v,", ix.Name, ix.Hash, ix.Range, ix.Local)
		}
		sb.WriteString("] {")
		keys := []string{}
		for k := range t.Items {
			keys = append(keys, k)
		}
		sort.Strings(keys)
		for _, k := range keys {
			sb.WriteString(t.Items[k].Canon())
			sb.WriteString(";")
		}
		sb.WriteString("}")
	}
	return sb.String()
}
