// Package val is the harness's own canonical representation of DynamoDB attribute
// values. It shares no code with minidyn. Numbers are exact decimals.
package val

import (
	"encoding/hex"
	"encoding/json"
	"fmt"
	"sort"
	"strings"
	"unicode/utf8"
)

// Kind of an attribute value.
type Kind string

const (
	KAbsent  Kind = ""
	KS       Kind = "S"
	KN       Kind = "N"
	KB       Kind = "B"
	KBOOL    Kind = "BOOL"
	KNULL    Kind = "NULL"
	KL       Kind = "L"
	KM       Kind = "M"
	KSS      Kind = "SS"
	KNS      Kind = "NS"
	KBS      Kind = "BS"
	KInvalid Kind = "INVALID" // something an adapter returned that is not a DynamoDB value
)

// AllKinds lists the ten DynamoDB types.
var AllKinds = []Kind{KS, KN, KB, KBOOL, KNULL, KL, KM, KSS, KNS, KBS}

// V is an attribute value tree. Str holds the text of S, the numeral of N, and the
// raw bytes (as a Go string) of B. Set holds the members of SS/NS/BS in Str form.
type V struct {
	K    Kind         `json:"k"`
	Str  string       `json:"s,omitempty"`
	Bool bool         `json:"b,omitempty"`
	L    []V          `json:"l,omitempty"`
	M    map[string]V `json:"m,omitempty"`
	Set  []string     `json:"set,omitempty"`
}

// Item is a DynamoDB item.
type Item map[string]V

// Constructors.
func Str(s string) V       { return V{K: KS, Str: s} }
func Num(s string) V       { return V{K: KN, Str: s} }
func Bin(b string) V       { return V{K: KB, Str: b} }
func Bool(b bool) V        { return V{K: KBOOL, Bool: b} }
func Null() V              { return V{K: KNULL} }
func List(vs ...V) V       { return V{K: KL, L: append([]V{}, vs...)} }
func Map(m map[string]V) V { return V{K: KM, M: m} }
func SS(ms ...string) V    { return V{K: KSS, Set: append([]string{}, ms...)} }
func NS(ms ...string) V    { return V{K: KNS, Set: append([]string{}, ms...)} }
func BS(ms ...string) V    { return V{K: KBS, Set: append([]string{}, ms...)} }
func Absent() V            { return V{} }
func Invalid(d string) V   { return V{K: KInvalid, Str: d} }
func (v V) IsAbsent() bool { return v.K == KAbsent }

// MarshalJSON renders binary data as hex so journals stay valid UTF-8.
func (v V) MarshalJSON() ([]byte, error) {
	type alias struct {
		K    Kind         `json:"k"`
		Str  *string      `json:"s,omitempty"`
		Hex  *string      `json:"x,omitempty"`
		Bool *bool        `json:"b,omitempty"`
		L    []V          `json:"l,omitempty"`
		M    map[string]V `json:"m,omitempty"`
		Set  []string     `json:"set,omitempty"`
		SetX []string     `json:"setx,omitempty"`
	}
	a := alias{K: v.K}
	switch v.K {
	case KS, KN, KInvalid:
		s := v.Str
		if isCleanUTF8(s) {
			a.Str = &s
		} else {
			h := hex.EncodeToString([]byte(s))
			a.Hex = &h
		}
	case KB:
		h := hex.EncodeToString([]byte(v.Str))
		a.Hex = &h
	case KBOOL:
		b := v.Bool
		a.Bool = &b
	case KL:
		a.L = v.L
		if a.L == nil {
			a.L = []V{}
		}
	case KM:
		a.M = v.M
		if a.M == nil {
			a.M = map[string]V{}
		}
	case KSS, KNS:
		clean := true
		for _, m := range v.Set {
			if !isCleanUTF8(m) {
				clean = false
			}
		}
		if clean {
			a.Set = v.Set
		} else {
			for _, m := range v.Set {
				a.SetX = append(a.SetX, hex.EncodeToString([]byte(m)))
			}
		}
	case KBS:
		for _, m := range v.Set {
			a.SetX = append(a.SetX, hex.EncodeToString([]byte(m)))
		}
		if a.SetX == nil {
			a.SetX = []string{}
		}
	}
	// L / M with omitempty would vanish when empty: encode by hand.
	buf := &strings.Builder{}
	buf.WriteString(`{"k":`)
	kb, _ := json.Marshal(string(a.K))
	buf.Write(kb)
	if a.Str != nil {
		b, _ := json.Marshal(*a.Str)
		buf.WriteString(`,"s":`)
		buf.Write(b)
	}
	if a.Hex != nil {
		b, _ := json.Marshal(*a.Hex)
		buf.WriteString(`,"x":`)
		buf.Write(b)
	}
	if a.Bool != nil {
		fmt.Fprintf(buf, `,"b":%t`, *a.Bool)
	}
	if v.K == KL {
		b, err := json.Marshal(a.L)
		if err != nil {
			return nil, err
		}
		buf.WriteString(`,"l":`)
		buf.Write(b)
	}
	if v.K == KM {
		b, err := json.Marshal(a.M)
		if err != nil {
			return nil, err
		}
		buf.WriteString(`,"m":`)
		buf.Write(b)
	}
	if a.Set != nil {
		b, _ := json.Marshal(a.Set)
		buf.WriteString(`,"set":`)
		buf.Write(b)
	}
	if a.SetX != nil {
		b, _ := json.Marshal(a.SetX)
		buf.WriteString(`,"setx":`)
		buf.Write(b)
	}
	buf.WriteString("}")
	return []byte(buf.String()), nil
}

// UnmarshalJSON is the inverse of MarshalJSON.
func (v *V) UnmarshalJSON(data []byte) error {
	var a struct {
		K    Kind         `json:"k"`
		Str  *string      `json:"s"`
		Hex  *string      `json:"x"`
		Bool *bool        `json:"b"`
		L    []V          `json:"l"`
		M    map[string]V `json:"m"`
		Set  []string     `json:"set"`
		SetX []string     `json:"setx"`
	}
	if err := json.Unmarshal(data, &a); err != nil {
		return err
	}
	*v = V{K: a.K}
	if a.Str != nil {
		v.Str = *a.Str
	}
	if a.Hex != nil {
		b, err := hex.DecodeString(*a.Hex)
		if err != nil {
			return err
		}
		v.Str = string(b)
	}
	if a.Bool != nil {
		v.Bool = *a.Bool
	}
	if a.K == KL {
		v.L = a.L
		if v.L == nil {
			v.L = []V{}
		}
	}
	if a.K == KM {
		v.M = a.M
		if v.M == nil {
			v.M = map[string]V{}
		}
	}
	if a.Set != nil {
		v.Set = a.Set
	}
	if a.SetX != nil {
		v.Set = nil
		for _, h := range a.SetX {
			b, err := hex.DecodeString(h)
			if err != nil {
				return err
			}
			v.Set = append(v.Set, string(b))
		}
	}
	if (a.K == KSS || a.K == KNS || a.K == KBS) && v.Set == nil {
		v.Set = []string{}
	}
	return nil
}

func isCleanUTF8(s string) bool { return utf8.ValidString(s) }

// Clone deep-copies v.
func (v V) Clone() V {
	o := V{K: v.K, Str: v.Str, Bool: v.Bool}
	if v.L != nil {
		o.L = make([]V, len(v.L))
		for i, e := range v.L {
			o.L[i] = e.Clone()
		}
	}
	if v.M != nil {
		o.M = make(map[string]V, len(v.M))
		for k, e := range v.M {
			o.M[k] = e.Clone()
		}
	}
	if v.Set != nil {
		o.Set = append([]string{}, v.Set...)
	}
	return o
}

// Clone deep-copies an item (nil stays nil).
func (it Item) Clone() Item {
	if it == nil {
		return nil
	}
	o := make(Item, len(it))
	for k, v := range it {
		o[k] = v.Clone()
	}
	return o
}

// Canon returns a canonical string: equal strings <=> equal DynamoDB values
// (numbers by exact decimal value, sets as sets, maps unordered).
func (v V) Canon() string {
	var sb strings.Builder
	v.canon(&sb)
	return sb.String()
}

func (v V) canon(sb *strings.Builder) {
	switch v.K {
	case KAbsent:
		sb.WriteString("<absent>")
	case KS:
		fmt.Fprintf(sb, "S%q", v.Str)
	case KN:
		d, err := ParseDec(v.Str)
		if err != nil {
			fmt.Fprintf(sb, "N!%q", v.Str)
		} else {
			sb.WriteString("N(" + d.String() + ")")
		}
	case KB:
		sb.WriteString("B[" + hex.EncodeToString([]byte(v.Str)) + "]")
	case KBOOL:
		fmt.Fprintf(sb, "BOOL(%t)", v.Bool)
	case KNULL:
		sb.WriteString("NULL")
	case KL:
		sb.WriteString("L[")
		for i, e := range v.L {
			if i > 0 {
				sb.WriteString(",")
			}
			e.canon(sb)
		}
		sb.WriteString("]")
	case KM:
		keys := make([]string, 0, len(v.M))
		for k := range v.M {
			keys = append(keys, k)
		}
		sort.Strings(keys)
		sb.WriteString("M{")
		for i, k := range keys {
			if i > 0 {
				sb.WriteString(",")
			}
			fmt.Fprintf(sb, "%q:", k)
			v.M[k].canon(sb)
		}
		sb.WriteString("}")
	case KSS, KNS, KBS:
		ms := make([]string, 0, len(v.Set))
		for _, m := range v.Set {
			switch v.K {
			case KSS:
				ms = append(ms, fmt.Sprintf("%q", m))
			case KBS:
				ms = append(ms, hex.EncodeToString([]byte(m)))
			case KNS:
				d, err := ParseDec(m)
				if err != nil {
					ms = append(ms, fmt.Sprintf("!%q", m))
				} else {
					ms = append(ms, d.String())
				}
			}
		}
		sort.Strings(ms)
		// duplicates are kept visible: a set with a duplicate member is not canonical
		sb.WriteString(string(v.K) + "{" + strings.Join(ms, ",") + "}")
	case KInvalid:
		fmt.Fprintf(sb, "INVALID(%s)", v.Str)
	}
}

// Equal is DynamoDB value equality (type-sensitive, structural).
func Equal(a, b V) bool { return a.Canon() == b.Canon() }

// Canon of an item (nil and empty both render as "{}").
func (it Item) Canon() string {
	return V{K: KM, M: map[string]V(it)}.Canon()
}

// ItemsEqual compares two items by value.
func ItemsEqual(a, b Item) bool { return a.Canon() == b.Canon() }

// Skeleton renders only the type structure of a value (for distinctness counting).
func (v V) Skeleton() string {
	switch v.K {
	case KL:
		parts := []string{}
		for _, e := range v.L {
			parts = append(parts, e.Skeleton())
		}
		return "L[" + strings.Join(parts, ",") + "]"
	case KM:
		keys := make([]string, 0, len(v.M))
		for k := range v.M {
			keys = append(keys, k)
		}
		sort.Strings(keys)
		parts := []string{}
		for _, k := range keys {
			parts = append(parts, v.M[k].Skeleton())
		}
		return "M{" + strings.Join(parts, ",") + "}"
	case KSS, KNS, KBS:
		return fmt.Sprintf("%s%d", v.K, len(v.Set))
	case KS, KB:
		if v.Str == "" {
			return string(v.K) + "0"
		}
		return string(v.K)
	case KBOOL:
		return fmt.Sprintf("BOOL%t", v.Bool)
	}
	return string(v.K)
}

// Depth of nesting (scalar = 0).
func (v V) Depth() int {
	d := 0
	for _, e := range v.L {
		if x := e.Depth() + 1; x > d {
			d = x
		}
	}
	for _, e := range v.M {
		if x := e.Depth() + 1; x > d {
			d = x
		}
	}
	if (v.K == KL || v.K == KM) && d == 0 {
		d = 1
	}
	return d
}
