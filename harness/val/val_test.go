package val

import (
	"encoding/json"
	"testing"
)

func TestDec(t *testing.T) {
	eq := [][2]string{{"1", "1.0"}, {"1", "01"}, {"1", "1e0"}, {"1", "10E-1"}, {"0", "-0"}, {"100", "1E2"}, {"0.5", ".5"}, {"0.30", "0.3"}}
	for _, p := range eq {
		if !NumEqual(p[0], p[1]) {
			t.Errorf("%s != %s", p[0], p[1])
		}
	}
	if NumEqual("9007199254740993", "9007199254740992") {
		t.Error("2^53+1 == 2^53")
	}
	if MustDec("0.1").Add(MustDec("0.2")).Cmp(MustDec("0.3")) != 0 {
		t.Error("0.1+0.2 != 0.3")
	}
	if MustDec("9").Cmp(MustDec("10")) >= 0 || MustDec("-10").Cmp(MustDec("-9")) >= 0 || MustDec("1E-130").Cmp(MustDec("0")) <= 0 {
		t.Error("order")
	}
	if MustDec("12345678901234567890123456789012345678").Add(MustDec("1")).Plain() != "12345678901234567890123456789012345679" {
		t.Error("38 digit add")
	}
	if !MustDec("9.9E125").InRange() || MustDec("1E126").InRange() || MustDec("1E-131").InRange() {
		t.Error("range")
	}
	for _, bad := range []string{"", "e1", "1e", "1.2.3", "abc", "--1", "1e1.5"} {
		if _, err := ParseDec(bad); err == nil {
			t.Errorf("parsed %q", bad)
		}
	}
}

func TestCanonAndJSON(t *testing.T) {
	a := Map(map[string]V{"x": NS("1", "2.0"), "y": List(Bin("\x00\xff"), Str("é"), Null(), Bool(false)), "z": List(), "e": Map(map[string]V{})})
	b := Map(map[string]V{"y": List(Bin("\x00\xff"), Str("é"), Null(), Bool(false)), "x": NS("2", "1.00"), "z": List(), "e": Map(map[string]V{})})
	if !Equal(a, b) {
		t.Error("set order / numeral notation must not matter")
	}
	if Equal(List(), Null()) || Equal(Str("1"), Num("1")) || Equal(SS("a"), List(Str("a"))) {
		t.Error("type-sensitive equality")
	}
	js, err := json.Marshal(a)
	if err != nil {
		t.Fatal(err)
	}
	var back V
	if err := json.Unmarshal(js, &back); err != nil {
		t.Fatal(err)
	}
	if !Equal(a, back) {
		t.Errorf("json round trip: %s vs %s", a.Canon(), back.Canon())
	}
}
