package val

import (
	"fmt"
	"math/big"
	"strings"
)

// Dec is an exact decimal: Mant * 10^Exp, normalised (Mant has no trailing zero
// digits unless it is zero, in which case Exp = 0).
type Dec struct {
	Mant *big.Int
	Exp  int
}

var ten = big.NewInt(10)

// ParseDec parses a DynamoDB numeral: optional sign, digits with optional '.', optional
// exponent. It is deliberately independent of strconv.ParseFloat.
func ParseDec(s string) (Dec, error) {
	orig := s
	if s == "" {
		return Dec{}, fmt.Errorf("empty numeral")
	}
	neg := false
	if s[0] == '+' || s[0] == '-' {
		neg = s[0] == '-'
		s = s[1:]
	}
	exp := 0
	if i := strings.IndexAny(s, "eE"); i >= 0 {
		es := s[i+1:]
		s = s[:i]
		if es == "" {
			return Dec{}, fmt.Errorf("bad numeral %q", orig)
		}
		eneg := false
		if es[0] == '+' || es[0] == '-' {
			eneg = es[0] == '-'
			es = es[1:]
		}
		if es == "" || len(es) > 6 {
			return Dec{}, fmt.Errorf("bad numeral %q", orig)
		}
		for _, c := range es {
			if c < '0' || c > '9' {
				return Dec{}, fmt.Errorf("bad numeral %q", orig)
			}
			exp = exp*10 + int(c-'0')
		}
		if eneg {
			exp = -exp
		}
	}
	intPart, frac := s, ""
	if i := strings.IndexByte(s, '.'); i >= 0 {
		intPart, frac = s[:i], s[i+1:]
	}
	if intPart == "" && frac == "" {
		return Dec{}, fmt.Errorf("bad numeral %q", orig)
	}
	digits := intPart + frac
	for _, c := range digits {
		if c < '0' || c > '9' {
			return Dec{}, fmt.Errorf("bad numeral %q", orig)
		}
	}
	m := new(big.Int)
	m.SetString(digits, 10)
	if neg {
		m.Neg(m)
	}
	d := Dec{Mant: m, Exp: exp - len(frac)}
	return d.norm(), nil
}

// MustDec parses or panics (harness-internal constants only).
func MustDec(s string) Dec {
	d, err := ParseDec(s)
	if err != nil {
		panic(err)
	}
	return d
}

func (d Dec) norm() Dec {
	if d.Mant.Sign() == 0 {
		return Dec{Mant: new(big.Int), Exp: 0}
	}
	m := new(big.Int).Set(d.Mant)
	e := d.Exp
	q, r := new(big.Int), new(big.Int)
	for {
		q.QuoRem(m, ten, r)
		if r.Sign() != 0 {
			break
		}
		m.Set(q)
		e++
	}
	return Dec{Mant: m, Exp: e}
}

// String is canonical: equal values have equal strings.
func (d Dec) String() string {
	return fmt.Sprintf("%se%d", d.Mant.String(), d.Exp)
}

// Plain renders the value in positional notation without exponent.
func (d Dec) Plain() string {
	m := new(big.Int).Abs(d.Mant)
	s := m.String()
	if d.Mant.Sign() == 0 {
		return "0"
	}
	if d.Exp >= 0 {
		s = s + strings.Repeat("0", d.Exp)
	} else {
		k := -d.Exp
		if len(s) <= k {
			s = strings.Repeat("0", k-len(s)+1) + s
		}
		s = s[:len(s)-k] + "." + s[len(s)-k:]
	}
	if d.Mant.Sign() < 0 {
		s = "-" + s
	}
	return s
}

func align(a, b Dec) (*big.Int, *big.Int, int) {
	e := a.Exp
	if b.Exp < e {
		e = b.Exp
	}
	am := new(big.Int).Mul(a.Mant, new(big.Int).Exp(ten, big.NewInt(int64(a.Exp-e)), nil))
	bm := new(big.Int).Mul(b.Mant, new(big.Int).Exp(ten, big.NewInt(int64(b.Exp-e)), nil))
	return am, bm, e
}

// Cmp compares by value.
func (d Dec) Cmp(o Dec) int {
	// fast paths on sign
	if d.Mant.Sign() != o.Mant.Sign() {
		if d.Mant.Sign() < o.Mant.Sign() {
			return -1
		}
		return 1
	}
	a, b, _ := align(d, o)
	return a.Cmp(b)
}

// Add returns d+o exactly.
func (d Dec) Add(o Dec) Dec {
	a, b, e := align(d, o)
	return Dec{Mant: a.Add(a, b), Exp: e}.norm()
}

// Sub returns d-o exactly.
func (d Dec) Sub(o Dec) Dec {
	a, b, e := align(d, o)
	return Dec{Mant: a.Sub(a, b), Exp: e}.norm()
}

// Digits is the number of significant digits.
func (d Dec) Digits() int {
	if d.Mant.Sign() == 0 {
		return 1
	}
	return len(new(big.Int).Abs(d.Mant).String())
}

// InRange reports whether d is a number DynamoDB can store: at most 38 significant
// digits and magnitude within 1E-130 .. 9.99…E+125 (or zero).
func (d Dec) InRange() bool {
	if d.Mant.Sign() == 0 {
		return true
	}
	n := d.Digits()
	if n > 38 {
		return false
	}
	// magnitude = mant * 10^exp ; leading digit position = exp + n - 1
	lead := d.Exp + n - 1
	return lead >= -130 && lead <= 125
}

// MagnitudeInRange reports whether the magnitude of d lies within 1E-130 .. 9.99…E+125 (or d is zero),
// whatever its number of digits.
func (d Dec) MagnitudeInRange() bool {
	if d.Mant.Sign() == 0 {
		return true
	}
	lead := d.Exp + d.Digits() - 1
	return lead >= -130 && lead <= 125
}

// NumEqual compares two numerals by value; unparsable numerals compare by text.
func NumEqual(a, b string) bool {
	da, ea := ParseDec(a)
	db, eb := ParseDec(b)
	if ea != nil || eb != nil {
		return a == b
	}
	return da.Cmp(db) == 0
}
