package adapt

import (
	"context"
	"errors"
	"fmt"
	"runtime"
	"strings"

	"github.com/aws/aws-sdk-go/aws/request"
	"github.com/truora/minidyn/interpreter"

	v1client "github.com/truora/minidyn/aws-v1/client"
	v2client "github.com/truora/minidyn/aws-v2/client"
)

type coder interface{ Code() string }
type errorCoder interface{ ErrorCode() string }

// ClassifyErr maps an error returned by either adapter to an error class.
func ClassifyErr(err error) (string, string) {
	if err == nil {
		return ClsOK, ""
	}
	msg := err.Error()
	if errors.Is(err, context.Canceled) || errors.Is(err, context.DeadlineExceeded) {
		return ClsCancelled, msg
	}
	if errors.Is(err, v1client.ErrForcedFailure) || errors.Is(err, v2client.ErrForcedFailure) {
		return ClsForced, msg
	}
	var ip request.ErrInvalidParams
	if errors.As(err, &ip) {
		return ClsParam, msg
	}
	code := ""
	var ec errorCoder
	var c coder
	if errors.As(err, &ec) {
		code = ec.ErrorCode()
	} else if errors.As(err, &c) {
		code = c.Code()
	}
	switch code {
	case "ValidationException":
		return ClsValidation, msg
	case "ConditionalCheckFailedException":
		return ClsCondFailed, msg
	case "ResourceNotFoundException":
		return ClsNotFound, msg
	case "ResourceInUseException":
		return ClsInUse, msg
	case "InternalServerError":
		return ClsInternal, msg
	case "InvalidParameter", "ParamRequiredError", "ParamMinLenError", "ParamMinValueError":
		return ClsParam, msg
	}
	if errors.Is(err, interpreter.ErrUnsupportedFeature) {
		return ClsUnsupported, msg
	}
	if errors.Is(err, interpreter.ErrSyntaxError) {
		return ClsSyntax, msg
	}
	if code != "" {
		return "Other:" + code, msg
	}
	return "Other", msg
}

// PanicSite returns "pkg.func" of the innermost minidyn frame on the stack of a
// recovered panic (call it inside the deferred function).
func PanicSite() string {
	pcs := make([]uintptr, 64)
	n := runtime.Callers(3, pcs)
	frames := runtime.CallersFrames(pcs[:n])
	for {
		f, more := frames.Next()
		if strings.Contains(f.Function, "github.com/truora/minidyn/") {
			fn := strings.TrimPrefix(f.Function, "github.com/truora/minidyn/")
			return fn
		}
		if !more {
			break
		}
	}
	return "?"
}

// ClassifyPanic maps a recovered panic value to RejectPanic / RuntimePanic.
func ClassifyPanic(r interface{}) (string, string) {
	if err, ok := r.(error); ok {
		if errors.Is(err, interpreter.ErrSyntaxError) || errors.Is(err, interpreter.ErrUnsupportedFeature) {
			return ClsRejectPanic, err.Error()
		}
		return ClsRuntime, err.Error()
	}
	return ClsRuntime, fmt.Sprint(r)
}
