package adapt

import (
	"sort"
	"strings"
	"context"
	"errors"
	"github.com/aws/aws-sdk-go/aws"
	"github.com/aws/aws-sdk-go/aws/awserr"
	v1ddb "github.com/aws/aws-sdk-go/service/dynamodb"
	v1client "github.com/truora/minidyn/aws-v1/client"
	"sync/atomic"

	"verifharness/val"
)

// V1 drives the SDK v1 fake client. Every other call goes through the <Op>WithContext variant of the
// method (both are part of the dynamodbiface.DynamoDBAPI surface the fake implements).
type V1 struct {
	C     *v1client.Client
	calls int64           // atomic: the adapter is shared by the goroutines of the concurrency monitors
	done  context.Context // set for the duration of one Do by Op.DoneCtx (sequential workloads only)
}

func (c *V1) viaContext() bool {
	return atomic.AddInt64(&c.calls, 1)%2 == 0
}

// ctxFor: the context of the current call and whether the ...WithContext variant is used. Op.DoneCtx (only set
// by sequential workloads) forces the variant with a context that is already done.
func (c *V1) ctxFor() (context.Context, bool) {
	if c.done != nil {
		return c.done, true
	}
	return context.Background(), c.viaContext()
}

// NewV1 returns a fresh SDK v1 client.
func NewV1() *V1 { return &V1{C: v1client.NewClient()} }

func (c *V1) Name() string     { return "v1" }
func (c *V1) Raw() interface{} { return c.C }

func v1Names(m map[string]string) map[string]*string {
	if m == nil {
		return nil
	}
	out := map[string]*string{}
	for k, v := range m {
		if v == NilName {
			out[k] = nil // a placeholder whose target is a nil pointer
			continue
		}
		s := v
		out[k] = &s
	}
	return out
}

func v1Strs(ss []string) []*string {
	if len(ss) == 0 {
		return nil
	}
	out := []*string{}
	for _, x := range ss {
		x := x
		out = append(out, &x)
	}
	return out
}

func strp(s string) *string {
	if s == "" {
		return nil
	}
	return &s
}

func v1KeySchema(hash, rng string) []*v1ddb.KeySchemaElement {
	ks := []*v1ddb.KeySchemaElement{{AttributeName: aws.String(hash), KeyType: aws.String("HASH")}}
	if rng != "" {
		ks = append(ks, &v1ddb.KeySchemaElement{AttributeName: aws.String(rng), KeyType: aws.String("RANGE")})
	}
	return ks
}

func v1Throughput() *v1ddb.ProvisionedThroughput {
	return &v1ddb.ProvisionedThroughput{ReadCapacityUnits: aws.Int64(5), WriteCapacityUnits: aws.Int64(5)}
}

type attrDefs struct {
	order []string
	typ   map[string]string
}

func (a *attrDefs) add(name, t string) {
	if name == "" {
		return
	}
	if a.typ == nil {
		a.typ = map[string]string{}
	}
	if _, ok := a.typ[name]; !ok {
		a.order = append(a.order, name)
	}
	a.typ[name] = typ(t)
}

func specAttrDefs(spec *TableSpec) *attrDefs {
	a := &attrDefs{}
	a.add(spec.Hash, spec.HashT)
	a.add(spec.Range, spec.RangeT)
	for _, ix := range spec.Indexes {
		a.add(ix.Hash, ix.HashT)
		a.add(ix.Range, ix.RangeT)
	}
	for _, el := range spec.RawKeySchema {
		if _, ok := a.typ[el[0]]; !ok {
			a.add(el[0], "S")
		}
	}
	return a
}

// V1CreateInput builds the SDK v1 CreateTableInput of a table specification.
func V1CreateInput(spec *TableSpec) *v1ddb.CreateTableInput { return v1CreateInput(spec) }

func v1CreateInput(spec *TableSpec) *v1ddb.CreateTableInput {
	in := &v1ddb.CreateTableInput{TableName: aws.String(spec.Name), KeySchema: v1KeySchema(spec.Hash, spec.Range)}
	if spec.RawKeySchema != nil {
		in.KeySchema = nil
		for _, el := range spec.RawKeySchema {
			in.KeySchema = append(in.KeySchema, &v1ddb.KeySchemaElement{AttributeName: aws.String(el[0]), KeyType: aws.String(el[1])})
		}
	}
	ad := specAttrDefs(spec)
	for _, n := range ad.order {
		in.AttributeDefinitions = append(in.AttributeDefinitions, &v1ddb.AttributeDefinition{AttributeName: aws.String(n), AttributeType: aws.String(ad.typ[n])})
	}
	if spec.Billing != "" {
		in.BillingMode = aws.String(spec.Billing)
	}
	if spec.Throughput {
		in.ProvisionedThroughput = v1Throughput()
	}
	for _, ix := range spec.Indexes {
		if ix.Local {
			in.LocalSecondaryIndexes = append(in.LocalSecondaryIndexes, &v1ddb.LocalSecondaryIndex{
				IndexName: strp(ix.Name), KeySchema: v1KeySchema(ix.Hash, ix.Range),
				Projection: v1Projection(ix),
			})
			continue
		}
		g := &v1ddb.GlobalSecondaryIndex{
			IndexName: strp(ix.Name), KeySchema: v1KeySchema(ix.Hash, ix.Range),
			Projection: v1Projection(ix),
		}
		if spec.Throughput {
			g.ProvisionedThroughput = v1Throughput()
		}
		in.GlobalSecondaryIndexes = append(in.GlobalSecondaryIndexes, g)
	}
	return in
}

func v1Projection(ix IndexSpec) *v1ddb.Projection {
	p := &v1ddb.Projection{ProjectionType: aws.String(ix.ProjType())}
	for _, n := range ix.NonKey {
		p.NonKeyAttributes = append(p.NonKeyAttributes, aws.String(n))
	}
	return p
}

func v1ProjDesc(id *IndexDesc, p *v1ddb.Projection) {
	if p == nil {
		return
	}
	id.Proj = aws.StringValue(p.ProjectionType)
	for _, n := range p.NonKeyAttributes {
		id.NonKey = append(id.NonKey, aws.StringValue(n))
	}
}

func v1Desc(d *v1ddb.TableDescription) *Desc {
	if d == nil {
		return nil
	}
	out := &Desc{Name: aws.StringValue(d.TableName), Count: aws.Int64Value(d.ItemCount)}
	for _, k := range d.KeySchema {
		if aws.StringValue(k.KeyType) == "HASH" {
			out.Hash = aws.StringValue(k.AttributeName)
		} else {
			out.Range = aws.StringValue(k.AttributeName)
		}
	}
	for _, g := range d.GlobalSecondaryIndexes {
		id := IndexDesc{Name: aws.StringValue(g.IndexName), Count: aws.Int64Value(g.ItemCount), HasCnt: g.ItemCount != nil}
		v1ProjDesc(&id, g.Projection)
		for _, k := range g.KeySchema {
			if aws.StringValue(k.KeyType) == "HASH" {
				id.Hash = aws.StringValue(k.AttributeName)
			} else {
				id.Range = aws.StringValue(k.AttributeName)
			}
		}
		out.Indexes = append(out.Indexes, id)
	}
	for _, g := range d.LocalSecondaryIndexes {
		id := IndexDesc{Name: aws.StringValue(g.IndexName), Local: true, Count: aws.Int64Value(g.ItemCount), HasCnt: g.ItemCount != nil}
		v1ProjDesc(&id, g.Projection)
		for _, k := range g.KeySchema {
			if aws.StringValue(k.KeyType) == "HASH" {
				id.Hash = aws.StringValue(k.AttributeName)
			} else {
				id.Range = aws.StringValue(k.AttributeName)
			}
		}
		out.Indexes = append(out.Indexes, id)
	}
	SortIndexDescs(out.Indexes)
	return out
}

func v1Items(in []map[string]*v1ddb.AttributeValue) []val.Item {
	out := make([]val.Item, 0, len(in))
	for _, m := range in {
		out = append(out, ItemFromV1(m))
	}
	return out
}

// Do executes one abstract operation under recover().
func (c *V1) Do(op Op) (out Outcome) {
	defer func() {
		if r := recover(); r != nil {
			cls, msg := ClassifyPanic(r)
			out = Outcome{Class: cls, Msg: msg, Site: PanicSite()}
		}
	}()
	fin := func(err error) Outcome {
		cls, msg := ClassifyErr(err)
		o := Outcome{Class: cls, Msg: msg}
		switch cls {
		case ClsValidation, ClsCondFailed, ClsNotFound, ClsInUse, ClsInternal:
			var api awserr.Error
			o.ErrNotAPI = !errors.As(err, &api)
		}
		return o
	}
	if op.DoneCtx != "" {
		ctx, cancel := DoneContext(op.DoneCtx)
		defer cancel()
		c.done = ctx
		defer func() { c.done = nil }()
	}
	switch op.Kind {
	case OpPut:
		in := &v1ddb.PutItemInput{TableName: aws.String(op.Table), Item: itemV1(op, op.Item), ConditionExpression: condExpr(op),
			ExpressionAttributeNames: v1Names(op.Names), ExpressionAttributeValues: itemV1(op, op.Values)}
		in.ReturnConsumedCapacity = strp(op.RetCap)
		for a, v := range op.Expected {
			if in.Expected == nil {
				in.Expected = map[string]*v1ddb.ExpectedAttributeValue{}
			}
			in.Expected[a] = &v1ddb.ExpectedAttributeValue{Value: ItemToV1(val.Item{"x": v})["x"]}
		}
		if op.RetVal != "" {
			in.ReturnValues = aws.String(op.RetVal)
		}
		_, err := c.callPutItem(in)
		return fin(err)
	case OpGet:
		in := &v1ddb.GetItemInput{TableName: aws.String(op.Table), Key: itemV1(op, op.Key), ProjectionExpression: strpSet(op.Proj, op.ProjSet), ExpressionAttributeNames: v1Names(op.Names)}
		in.ReturnConsumedCapacity = strp(op.RetCap)
		in.AttributesToGet = v1Strs(op.AttrsToGet)
		if op.Consistent {
			in.ConsistentRead = aws.Bool(true)
		} else if op.ConsistentFalse {
			in.ConsistentRead = aws.Bool(false)
		}
		res, err := c.callGetItem(in)
		o := fin(err)
		if err == nil {
			if res == nil {
				o.RespNil = true
			} else {
				o.Item = NormalizeEmpty(ItemFromV1(res.Item))
			}
		}
		return o
	case OpUpdate:
		in := &v1ddb.UpdateItemInput{TableName: aws.String(op.Table), Key: itemV1(op, op.Key), UpdateExpression: updExpr(op),
			ConditionExpression: condExpr(op), ExpressionAttributeNames: v1Names(op.Names), ExpressionAttributeValues: itemV1(op, op.Values)}
		for a, u := range op.AttrUpd {
			if in.AttributeUpdates == nil {
				in.AttributeUpdates = map[string]*v1ddb.AttributeValueUpdate{}
			}
			au := &v1ddb.AttributeValueUpdate{Action: aws.String(u.Action)}
			if u.Value != nil {
				au.Value = ToV1(*u.Value)
			}
			in.AttributeUpdates[a] = au
		}
		in.ReturnConsumedCapacity = strp(op.RetCap)
		for a, v := range op.Expected {
			if in.Expected == nil {
				in.Expected = map[string]*v1ddb.ExpectedAttributeValue{}
			}
			in.Expected[a] = &v1ddb.ExpectedAttributeValue{Value: ItemToV1(val.Item{"x": v})["x"]}
		}
		res, err := c.callUpdateItem(in)
		o := fin(err)
		if err == nil {
			if res == nil {
				o.RespNil = true
			} else {
				o.Item = NormalizeEmpty(ItemFromV1(res.Attributes))
			}
		}
		return o
	case OpDelete:
		in := &v1ddb.DeleteItemInput{TableName: aws.String(op.Table), Key: itemV1(op, op.Key), ConditionExpression: condExpr(op),
			ExpressionAttributeNames: v1Names(op.Names), ExpressionAttributeValues: itemV1(op, op.Values)}
		in.ReturnConsumedCapacity = strp(op.RetCap)
		if op.RetOld {
			in.ReturnValues = aws.String("ALL_OLD")
		}
		if op.RetVal != "" {
			in.ReturnValues = aws.String(op.RetVal)
		}
		for a, v := range op.Expected {
			if in.Expected == nil {
				in.Expected = map[string]*v1ddb.ExpectedAttributeValue{}
			}
			in.Expected[a] = &v1ddb.ExpectedAttributeValue{Value: ItemToV1(val.Item{"x": v})["x"]}
		}
		res, err := c.callDeleteItem(in)
		o := fin(err)
		if err == nil {
			if res == nil {
				o.RespNil = true
			} else {
				o.Item = NormalizeEmpty(ItemFromV1(res.Attributes))
			}
		}
		return o
	case OpQuery:
		in := &v1ddb.QueryInput{TableName: aws.String(op.Table), FilterExpression: strpSet(op.Filter, op.FilterSet), ProjectionExpression: strpSet(op.Proj, op.ProjSet),
			ExpressionAttributeNames: v1Names(op.Names), ExpressionAttributeValues: itemV1(op, op.Values), IndexName: strp(op.Index),
			ExclusiveStartKey: itemV1(op, op.Start)}
		in.ReturnConsumedCapacity = strp(op.RetCap)
		if !op.NoKC {
			in.KeyConditionExpression = aws.String(op.KeyCnd)
		}
		in.AttributesToGet = v1Strs(op.AttrsToGet)
		if op.Consistent {
			in.ConsistentRead = aws.Bool(true)
		} else if op.ConsistentFalse {
			in.ConsistentRead = aws.Bool(false)
		}
		in.Select = strp(op.Select)
		if op.Limit > 0 {
			in.Limit = aws.Int64(int64(op.Limit))
		}
		if op.Rev {
			in.ScanIndexForward = aws.Bool(false)
		}
		if op.Paginate {
			return c.pages(op, fin, func(fn func(items []map[string]*v1ddb.AttributeValue) bool) error {
				return c.C.QueryPages(in, func(page *v1ddb.QueryOutput, last bool) bool { return fn(page.Items) })
			})
		}
		res, err := c.callQuery(in)
		o := fin(err)
		if err == nil {
			if res == nil {
				o.RespNil = true
			} else {
				o.Items = v1Items(res.Items)
				o.Count = aws.Int64Value(res.Count)
				o.LastKey = NormalizeEmpty(ItemFromV1(res.LastEvaluatedKey))
				o.LastKeyEmpty = res.LastEvaluatedKey != nil && len(res.LastEvaluatedKey) == 0
			}
		}
		return o
	case OpScan:
		in := &v1ddb.ScanInput{TableName: aws.String(op.Table), FilterExpression: strpSet(op.Filter, op.FilterSet), ProjectionExpression: strpSet(op.Proj, op.ProjSet),
			ExpressionAttributeNames: v1Names(op.Names), ExpressionAttributeValues: itemV1(op, op.Values), IndexName: strp(op.Index),
			ExclusiveStartKey: itemV1(op, op.Start)}
		in.ReturnConsumedCapacity = strp(op.RetCap)
		in.AttributesToGet = v1Strs(op.AttrsToGet)
		if op.Consistent {
			in.ConsistentRead = aws.Bool(true)
		} else if op.ConsistentFalse {
			in.ConsistentRead = aws.Bool(false)
		}
		in.Select = strp(op.Select)
		if op.Limit > 0 {
			in.Limit = aws.Int64(int64(op.Limit))
		}
		if op.TotalSegments > 0 {
			in.Segment, in.TotalSegments = aws.Int64(int64(op.Segment)), aws.Int64(int64(op.TotalSegments))
		}
		if op.Paginate {
			return c.pages(op, fin, func(fn func(items []map[string]*v1ddb.AttributeValue) bool) error {
				return c.C.ScanPages(in, func(page *v1ddb.ScanOutput, last bool) bool { return fn(page.Items) })
			})
		}
		res, err := c.callScan(in)
		o := fin(err)
		if err == nil {
			if res == nil {
				o.RespNil = true
			} else {
				o.Items = v1Items(res.Items)
				o.Count = aws.Int64Value(res.Count)
				o.LastKey = NormalizeEmpty(ItemFromV1(res.LastEvaluatedKey))
				o.LastKeyEmpty = res.LastEvaluatedKey != nil && len(res.LastEvaluatedKey) == 0
			}
		}
		return o
	case OpBatchWrite:
		in := &v1ddb.BatchWriteItemInput{RequestItems: map[string][]*v1ddb.WriteRequest{}}
		in.ReturnConsumedCapacity = strp(op.RetCap)
		for _, t := range op.EmptyTables {
			in.RequestItems[t] = []*v1ddb.WriteRequest{}
		}
		for _, e := range op.Batch {
			wr := &v1ddb.WriteRequest{}
			if e.Absent {
				wr = nil // a write request that is not there (a nil pointer in the SDK v1 list)
			}
			if e.Put != nil {
				wr.PutRequest = &v1ddb.PutRequest{Item: ItemToV1(e.Put)}
			}
			if e.Del != nil {
				wr.DeleteRequest = &v1ddb.DeleteRequest{Key: ItemToV1(e.Del)}
			}
			in.RequestItems[e.Table] = append(in.RequestItems[e.Table], wr)
		}
		res, err := c.callBatchWriteItem(in)
		if op.ResendUnprocessed && err == nil && res != nil && len(res.UnprocessedItems) > 0 {
			v1client.EmulateFailure(c.C, v1client.FailureConditionNone)
			v1client.DeactiveForceFailure(c.C)
			res, err = c.callBatchWriteItem(&v1ddb.BatchWriteItemInput{RequestItems: res.UnprocessedItems})
		}
		o := fin(err)
		if res != nil {
			for t, reqs := range res.UnprocessedItems {
				for _, r := range reqs {
					be := BatchEntry{Table: t}
					if r.PutRequest != nil {
						be.Put = ItemFromV1(r.PutRequest.Item)
					}
					if r.DeleteRequest != nil {
						be.Del = ItemFromV1(r.DeleteRequest.Key)
					}
					o.Unproc = append(o.Unproc, be)
				}
			}
		} else if err == nil {
			o.RespNil = true
		}
		return o
	case OpBatchGet:
		// the SDK v1 client of the library does not implement BatchGetItem: the call lands on the nil embedded
		// interface and panics with a nil dereference - that is "not implemented". A client that DOES implement it
		// is held to the same rules as the SDK v2 one.
		in := &v1ddb.BatchGetItemInput{RequestItems: map[string]*v1ddb.KeysAndAttributes{}}
		in.ReturnConsumedCapacity = strp(op.RetCap)
		for _, e := range op.Gets {
			ka := in.RequestItems[e.Table]
			if ka == nil {
				ka = &v1ddb.KeysAndAttributes{}
				in.RequestItems[e.Table] = ka
			}
			ka.Keys = append(ka.Keys, ItemToV1(e.Del))
			ka.AttributesToGet = v1Strs(op.AttrsToGet)
			if op.Consistent {
				ka.ConsistentRead = aws.Bool(true)
			}
			ka.ProjectionExpression = strpSet(op.Proj, op.ProjSet)
			if op.Proj != "" {
				ka.ExpressionAttributeNames = v1Names(op.Names)
			}
		}
		var res *v1ddb.BatchGetItemOutput
		var err error
		notImpl := false
		func() {
			defer func() {
				if r := recover(); r != nil {
					if re, ok := r.(error); ok && strings.Contains(re.Error(), "nil pointer dereference") && PanicInPromotedMethod() {
						notImpl = true
						return
					}
					panic(r)
				}
			}()
			if ctx, ok := c.ctxFor(); ok {
				res, err = c.C.BatchGetItemWithContext(ctx, in)
				return
			}
			res, err = c.C.BatchGetItem(in)
		}()
		if notImpl {
			return Outcome{Class: ClsNotImpl}
		}
		o := fin(err)
		if err == nil {
			if res == nil {
				o.RespNil = true
				return o
			}
			o.Resp = map[string][]val.Item{}
			for t, items := range res.Responses {
				for _, it := range items {
					o.Resp[t] = append(o.Resp[t], NormalizeEmpty(ItemFromV1(it)))
				}
			}
			o.UnprocK = map[string][]val.Item{}
			for t, ka := range res.UnprocessedKeys {
				for _, k := range ka.Keys {
					o.UnprocK[t] = append(o.UnprocK[t], ItemFromV1(k))
				}
			}
		}
		return o
	case OpTransact:
		tin := &v1ddb.TransactWriteItemsInput{ClientRequestToken: strp(op.Token)}
		if op.Table != "" {
			tin.TransactItems = []*v1ddb.TransactWriteItem{{Put: &v1ddb.Put{TableName: aws.String(op.Table), Item: ItemToV1(op.Item)}}}
		}
		for _, a := range op.Acts {
			if a.Put != nil {
				tin.TransactItems = append(tin.TransactItems, &v1ddb.TransactWriteItem{Put: &v1ddb.Put{TableName: aws.String(a.Table), Item: ItemToV1(a.Put), ConditionExpression: strp(a.Cond)}})
			} else {
				tin.TransactItems = append(tin.TransactItems, &v1ddb.TransactWriteItem{Delete: &v1ddb.Delete{TableName: aws.String(a.Table), Key: ItemToV1(a.Del), ConditionExpression: strp(a.Cond)}})
			}
		}
		_, err := c.callTransactWriteItems(tin)
		return fin(err)
	case OpCreateTable:
		res, err := c.callCreateTable(v1CreateInput(op.Spec))
		o := fin(err)
		if err == nil && res != nil {
			o.Desc = v1Desc(res.TableDescription)
		}
		return o
	case OpDeleteTable:
		res, err := c.callDeleteTable(&v1ddb.DeleteTableInput{TableName: aws.String(op.Table)})
		o := fin(err)
		if err == nil && res != nil {
			o.Desc = v1Desc(res.TableDescription)
		}
		return o
	case OpDescribe:
		res, err := c.callDescribeTable(&v1ddb.DescribeTableInput{TableName: aws.String(op.Table)})
		o := fin(err)
		if err == nil {
			if res == nil {
				o.RespNil = true
			} else {
				o.Desc = v1Desc(res.Table)
			}
		}
		return o
	case OpUpdateTable:
		in := v1UpdateInput(op)
		res, err := c.callUpdateTable(in)
		o := fin(err)
		if err == nil && res != nil {
			o.Desc = v1Desc(res.TableDescription)
		}
		return o
	case OpAddTable:
		return fin(v1client.AddTable(c.C, op.Spec.Name, op.Spec.Hash, op.Spec.Range))
	case OpAddIndex:
		return fin(v1client.AddIndex(c.C, op.Table, op.Ix.Name, op.Ix.Hash, op.Ix.Range))
	case OpClearTable:
		return fin(v1client.ClearTable(c.C, op.Table))
	case OpSetMetrics:
		m := map[string][]*v1ddb.ItemCollectionMetrics{}
		if op.Table != "" {
			m[op.Table] = []*v1ddb.ItemCollectionMetrics{{SizeEstimateRangeGB: []*float64{aws.Float64(0)}}}
		}
		v1client.SetItemCollectionMetrics(c.C, m)
		return Outcome{Class: ClsOK}
	case OpEmulate:
		v1client.EmulateFailure(c.C, v1client.FailureCondition(op.Fail))
		return Outcome{Class: ClsOK}
	case OpForceOn:
		v1client.ActiveForceFailure(c.C)
		return Outcome{Class: ClsOK}
	case OpForceOff:
		v1client.DeactiveForceFailure(c.C)
		return Outcome{Class: ClsOK}
	}
	return Outcome{Class: "Other:unknown-op"}
}

func (c *V1) callPutItem(in *v1ddb.PutItemInput) (*v1ddb.PutItemOutput, error) {
	if ctx, ok := c.ctxFor(); ok {
		return c.C.PutItemWithContext(ctx, in)
	}
	return c.C.PutItem(in)
}

func (c *V1) callGetItem(in *v1ddb.GetItemInput) (*v1ddb.GetItemOutput, error) {
	if ctx, ok := c.ctxFor(); ok {
		return c.C.GetItemWithContext(ctx, in)
	}
	return c.C.GetItem(in)
}

func (c *V1) callUpdateItem(in *v1ddb.UpdateItemInput) (*v1ddb.UpdateItemOutput, error) {
	if ctx, ok := c.ctxFor(); ok {
		return c.C.UpdateItemWithContext(ctx, in)
	}
	return c.C.UpdateItem(in)
}

func (c *V1) callDeleteItem(in *v1ddb.DeleteItemInput) (*v1ddb.DeleteItemOutput, error) {
	if ctx, ok := c.ctxFor(); ok {
		return c.C.DeleteItemWithContext(ctx, in)
	}
	return c.C.DeleteItem(in)
}

func (c *V1) callQuery(in *v1ddb.QueryInput) (*v1ddb.QueryOutput, error) {
	if ctx, ok := c.ctxFor(); ok {
		return c.C.QueryWithContext(ctx, in)
	}
	return c.C.Query(in)
}

func (c *V1) callScan(in *v1ddb.ScanInput) (*v1ddb.ScanOutput, error) {
	if ctx, ok := c.ctxFor(); ok {
		return c.C.ScanWithContext(ctx, in)
	}
	return c.C.Scan(in)
}

func (c *V1) callBatchWriteItem(in *v1ddb.BatchWriteItemInput) (*v1ddb.BatchWriteItemOutput, error) {
	if ctx, ok := c.ctxFor(); ok {
		return c.C.BatchWriteItemWithContext(ctx, in)
	}
	return c.C.BatchWriteItem(in)
}

func (c *V1) callTransactWriteItems(in *v1ddb.TransactWriteItemsInput) (*v1ddb.TransactWriteItemsOutput, error) {
	if ctx, ok := c.ctxFor(); ok {
		return c.C.TransactWriteItemsWithContext(ctx, in)
	}
	return c.C.TransactWriteItems(in)
}

func (c *V1) callCreateTable(in *v1ddb.CreateTableInput) (*v1ddb.CreateTableOutput, error) {
	if ctx, ok := c.ctxFor(); ok {
		return c.C.CreateTableWithContext(ctx, in)
	}
	return c.C.CreateTable(in)
}

func (c *V1) callDeleteTable(in *v1ddb.DeleteTableInput) (*v1ddb.DeleteTableOutput, error) {
	if ctx, ok := c.ctxFor(); ok {
		return c.C.DeleteTableWithContext(ctx, in)
	}
	return c.C.DeleteTable(in)
}

func (c *V1) callDescribeTable(in *v1ddb.DescribeTableInput) (*v1ddb.DescribeTableOutput, error) {
	if ctx, ok := c.ctxFor(); ok {
		return c.C.DescribeTableWithContext(ctx, in)
	}
	return c.C.DescribeTable(in)
}

func (c *V1) callUpdateTable(in *v1ddb.UpdateTableInput) (*v1ddb.UpdateTableOutput, error) {
	if ctx, ok := c.ctxFor(); ok {
		return c.C.UpdateTableWithContext(ctx, in)
	}
	return c.C.UpdateTable(in)
}

// itemV1 converts a value map for a request of op; with op.SharePtrs, values that are equal become ONE
// *AttributeValue used at every place they occur (top level and nested): what a caller gets who builds a value
// once and puts it at several places of a request (one NULL marker, one address map used twice).
func itemV1(op Op, it val.Item) map[string]*v1ddb.AttributeValue {
	m := ItemToV1(it)
	if !op.SharePtrs || m == nil {
		return m
	}
	seen := map[string]*v1ddb.AttributeValue{}
	var share func(v *v1ddb.AttributeValue) *v1ddb.AttributeValue
	share = func(v *v1ddb.AttributeValue) *v1ddb.AttributeValue {
		if v == nil {
			return nil
		}
		for i := range v.L {
			v.L[i] = share(v.L[i])
		}
		for k := range v.M {
			v.M[k] = share(v.M[k])
		}
		id := FromV1(v).Canon()
		if first, ok := seen[id]; ok {
			return first
		}
		seen[id] = v
		return v
	}
	names := make([]string, 0, len(m))
	for k := range m {
		names = append(names, k)
	}
	sort.Strings(names)
	for _, k := range names {
		m[k] = share(m[k])
	}
	return m
}

// V1UpdateInput builds the UpdateTableInput of an OpUpdateTable.
func V1UpdateInput(op Op) *v1ddb.UpdateTableInput { return v1UpdateInput(op) }

func v1UpdateInput(op Op) *v1ddb.UpdateTableInput {
	in := &v1ddb.UpdateTableInput{TableName: aws.String(op.Table)}
	ad := &attrDefs{}
	for _, ch := range op.Chg {
		u := &v1ddb.GlobalSecondaryIndexUpdate{}
		if ch.Create != nil {
			if !op.NoDefs {
				ad.add(ch.Create.Hash, ch.Create.HashT)
				ad.add(ch.Create.Range, ch.Create.RangeT)
			}
			u.Create = &v1ddb.CreateGlobalSecondaryIndexAction{IndexName: strp(ch.Create.Name),
				KeySchema:  v1KeySchema(ch.Create.Hash, ch.Create.Range),
				Projection: v1Projection(*ch.Create), ProvisionedThroughput: v1Throughput()}
			if op.NoThroughput {
				u.Create.ProvisionedThroughput = nil
			}
		}
		if ch.DeleteUnnamed {
			u.Delete = &v1ddb.DeleteGlobalSecondaryIndexAction{}
		}
		if ch.Delete != "" {
			u.Delete = &v1ddb.DeleteGlobalSecondaryIndexAction{IndexName: aws.String(ch.Delete)}
		}
		if ch.Update != "" {
			u.Update = &v1ddb.UpdateGlobalSecondaryIndexAction{IndexName: aws.String(ch.Update), ProvisionedThroughput: v1Throughput()}
		}
		in.GlobalSecondaryIndexUpdates = append(in.GlobalSecondaryIndexUpdates, u)
	}
	for _, d := range op.Defs {
		ad.add(d[0], d[1])
	}
	for _, n := range ad.order {
		in.AttributeDefinitions = append(in.AttributeDefinitions, &v1ddb.AttributeDefinition{AttributeName: aws.String(n), AttributeType: aws.String(ad.typ[n])})
	}
	if op.Billing != "" {
		in.BillingMode = aws.String(op.Billing)
	}
	return in
}

// pages runs one of the SDK v1 pagers (QueryPages / ScanPages): Items holds all pages, Count the number of pages;
// NotImpl when the method is the nil embedded interface's.
func (c *V1) pages(op Op, fin func(error) Outcome, run func(fn func(items []map[string]*v1ddb.AttributeValue) bool) error) (o Outcome) {
	o = Outcome{Class: ClsOK}
	var err error
	notImpl := false
	func() {
		defer func() {
			if r := recover(); r != nil {
				if re, ok := r.(error); ok && strings.Contains(re.Error(), "nil pointer dereference") && PanicInPromotedMethod() {
					notImpl = true
					return
				}
				panic(r)
			}
		}()
		err = run(func(items []map[string]*v1ddb.AttributeValue) bool {
			o.Count++
			for _, it := range items {
				o.Items = append(o.Items, NormalizeEmpty(ItemFromV1(it)))
			}
			if op.FailAfterPage > 0 && int(o.Count) == op.FailAfterPage {
				v1client.EmulateFailure(c.C, v1client.FailureCondition(op.Fail))
			}
			return op.MaxPages == 0 || int(o.Count) < op.MaxPages
		})
	}()
	if notImpl {
		return Outcome{Class: ClsNotImpl}
	}
	if err != nil {
		f := fin(err)
		f.Count, f.Items = o.Count, o.Items
		return f
	}
	return o
}
