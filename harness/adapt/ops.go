package adapt

import (
	"context"
	"encoding/json"
	"fmt"
	"sort"
	"strings"
	"time"

	"verifharness/refmodel"
	"verifharness/val"
)

// IndexSpec declares a secondary index.
type IndexSpec struct {
	Name   string `json:"name"`
	Hash   string `json:"hash"`
	HashT  string `json:"hasht,omitempty"` // S (default), N, B
	Range  string `json:"range,omitempty"`
	RangeT string `json:"ranget,omitempty"`
	Local  bool   `json:"local,omitempty"`
	// Proj is the declared ProjectionType ("" = ALL, KEYS_ONLY, INCLUDE); NonKey the
	// NonKeyAttributes of INCLUDE. minidyn records the projection and reports it in
	// DescribeTable; it does not trim index reads by it.
	Proj   string   `json:"proj,omitempty"`
	NonKey []string `json:"nonkey,omitempty"`
}

// ProjType is the declared projection type with the default filled in.
func (ix IndexSpec) ProjType() string {
	if ix.Proj == "" {
		return "ALL"
	}
	return ix.Proj
}

// TableSpec declares a table.
type TableSpec struct {
	Name       string      `json:"name"`
	Hash       string      `json:"hash"`
	HashT      string      `json:"hasht,omitempty"`
	Range      string      `json:"range,omitempty"`
	RangeT     string      `json:"ranget,omitempty"`
	Billing    string      `json:"billing,omitempty"` // "PAY_PER_REQUEST", "PROVISIONED", ""
	Throughput bool        `json:"throughput,omitempty"`
	Indexes    []IndexSpec `json:"indexes,omitempty"`
	// RawKeySchema: when set, the KeySchema of the CreateTable request is exactly these (attribute, key type)
	// elements - schemas no well-formed request has (two HASH elements, unknown key types ...); every attribute
	// named is declared as a string unless Hash / Range declare it
	RawKeySchema [][2]string `json:"rawkeyschema,omitempty"`
}

func typ(t string) string {
	if t == "" {
		return "S"
	}
	return t
}

// BatchEntry is one write request of a BatchWriteItem (exactly one of Put/Del for a
// valid request; both or neither for the malformed ones C16 generates).
type BatchEntry struct {
	Table string   `json:"table"`
	Put   val.Item `json:"put,omitempty"`
	Del   val.Item `json:"del,omitempty"`
	// Absent: neither put nor delete AND, through the SDK v1 adapter, not even a request structure (nil pointer)
	Absent bool `json:"absent,omitempty"`
}

// TransactAct is one Put or Delete action of a TransactWriteItems call, with an optional condition.
type TransactAct struct {
	Table string   `json:"table"`
	Put   val.Item `json:"put,omitempty"`
	Del   val.Item `json:"del,omitempty"`
	Cond  string   `json:"cond,omitempty"`
}

// AttrUpdate is one entry of the legacy AttributeUpdates parameter.
type AttrUpdate struct {
	Action string `json:"action"`
	Value  *val.V `json:"value,omitempty"`
}

// IndexChange is one GlobalSecondaryIndexUpdate of UpdateTable.
type IndexChange struct {
	Create *IndexSpec `json:"create,omitempty"`
	Delete string     `json:"delete,omitempty"`
	Update string     `json:"update,omitempty"` // UpdateGlobalSecondaryIndexAction (new throughput) on the named index
	// DeleteUnnamed: a Delete action WITHOUT an index name (a nil pointer in the SDK structure)
	DeleteUnnamed bool `json:"deleteunnamed,omitempty"`
}

// Op is an abstract operation. One struct for all kinds keeps journals and replays simple.
type Op struct {
	Kind   string   `json:"kind"`
	Client int      `json:"client,omitempty"`
	Table  string   `json:"table,omitempty"`
	Item   val.Item `json:"item,omitempty"`
	Key    val.Item `json:"key,omitempty"`
	Cond   string   `json:"cond,omitempty"`
	Update string   `json:"update,omitempty"`
	KeyCnd string   `json:"keycond,omitempty"`
	NoKC   bool     `json:"nokc,omitempty"` // Query without any KeyConditionExpression field
	Filter string   `json:"filter,omitempty"`
	Proj   string   `json:"proj,omitempty"` // ProjectionExpression (get, query, scan)
	// read options (get, query, scan, batchget): they may narrow what THIS call returns, never what is stored
	AttrsToGet []string `json:"attrstoget,omitempty"` // legacy AttributesToGet
	Consistent bool     `json:"consistent,omitempty"` // ConsistentRead
	// ConsistentFalse: send ConsistentRead = false explicitly (a pointer to false, not nil)
	ConsistentFalse bool `json:"consistentfalse,omitempty"`
	// RetVal: the raw ReturnValues of PutItem / DeleteItem ("UPDATED_OLD", "ALL_NEW" ...: values only UpdateItem knows)
	RetVal string `json:"retval,omitempty"`
	// RetCap: ReturnConsumedCapacity of the request ("TOTAL", "INDEXES", "NONE"): bookkeeping the caller asks for,
	// it changes neither what the request does nor whether it succeeds
	// Billing / NoThroughput (UpdateTable): the BillingMode of the request; its index creations carry no ProvisionedThroughput
	Billing      string `json:"billing,omitempty"`
	NoThroughput bool   `json:"nothroughput,omitempty"`
	// AttrUpd (UpdateItem): the legacy AttributeUpdates parameter - attribute -> action (PUT / ADD / DELETE) and value
	// (nil: none). Sent as given; the library documents legacy parameters as ignored.
	AttrUpd map[string]AttrUpdate `json:"attrupd,omitempty"`
	// ResendUnprocessed (BatchWriteItem): when the response lists unprocessed items, every failure condition is switched off
	// and the UnprocessedItems map OF THE RESPONSE (the same object) is sent as the RequestItems of a second call - the retry
	// loop of the SDK documentation; the outcome is the second call's
	ResendUnprocessed bool `json:"resendunprocessed,omitempty"`
	// Acts (TransactWriteItems): the actions of the transaction, in order
	Acts []TransactAct `json:"acts,omitempty"`
	// Token (TransactWriteItems): the ClientRequestToken of the call
	Token string `json:"token,omitempty"`
	// SharePtrs (SDK v1): equal values of one request map are ONE *AttributeValue used at several places
	SharePtrs bool `json:"shareptrs,omitempty"`
	RetCap string `json:"retcap,omitempty"`
	// Expected: the legacy "Expected" parameter of a write in its short form (attribute = value)
	Expected val.Item `json:"expected,omitempty"`
	// Paginate: walk the whole result with the SDK's own paginator (SDK v2: NewQueryPaginator / NewScanPaginator;
	// SDK v1: QueryPages / ScanPages, NotImpl when the fake does not implement them): Items holds all pages, Count the number of pages, at most MaxPages
	Paginate bool `json:"paginate,omitempty"`
	MaxPages int  `json:"maxpages,omitempty"`
	// FailAfterPage (with Paginate and Fail): after that many pages were delivered, and before the next one is asked for,
	// the failure condition Fail is switched on (SDK v1: from inside the page callback)
	FailAfterPage int `json:"failafterpage,omitempty"`
	// EmptyTables: BatchWriteItem entries "table: []" (a table named with an empty request list)
	EmptyTables []string `json:"emptytables,omitempty"`
	// CondSet: send ConditionExpression even when Cond is empty or blank (a pointer to that text, not nil)
	CondSet bool `json:"condset,omitempty"`
	// FilterSet / ProjSet: send FilterExpression / ProjectionExpression even when the text is empty
	FilterSet bool `json:"filterset,omitempty"`
	ProjSet   bool `json:"projset,omitempty"`
	// DoneCtx: make the call with a context that is already done ("cancelled", "expired")
	DoneCtx string `json:"donectx,omitempty"`
	// Scan as one worker of a parallel scan: TotalSegments > 0 sends Segment and TotalSegments
	Segment       int               `json:"segment,omitempty"`
	TotalSegments int               `json:"totalsegments,omitempty"`
	NoUpdate      bool              `json:"noupdate,omitempty"` // UpdateItem without any UpdateExpression (nil pointer, not "")
	Select        string            `json:"select,omitempty"`   // query, scan: ALL_ATTRIBUTES | COUNT | SPECIFIC_ATTRIBUTES ...
	Names         map[string]string `json:"names,omitempty"`
	Values        val.Item          `json:"values,omitempty"`
	Index         string            `json:"index,omitempty"`
	Limit         int               `json:"limit,omitempty"`
	Start         val.Item          `json:"start,omitempty"`
	Rev           bool              `json:"rev,omitempty"`
	RetOld        bool              `json:"retold,omitempty"`  // ReturnValues=ALL_OLD
	RetCCF        bool              `json:"retccf,omitempty"`  // ReturnValuesOnConditionCheckFailure=ALL_OLD
	Spec          *TableSpec        `json:"spec,omitempty"`    // createtable
	Chg           []IndexChange     `json:"changes,omitempty"` // updatetable
	Defs          [][2]string       `json:"defs,omitempty"`    // updatetable: attribute definitions (name, type) declared explicitly by the request
	NoDefs        bool              `json:"nodefs,omitempty"`  // updatetable: do NOT declare the key attributes of created indexes (they may have been declared by an earlier request)
	Ix            *IndexSpec        `json:"ix,omitempty"`      // addindex (helper; S keys only)
	Batch         []BatchEntry      `json:"batch,omitempty"`
	Gets          []BatchEntry      `json:"gets,omitempty"` // batchget: Table + Del(=key)
	Fail          string            `json:"fail,omitempty"` // emulate: none|internal_server|deprecated

	// ASTs the expression texts above were rendered from (what the oracle evaluates).
	CondAST   *refmodel.Cond   `json:"condast,omitempty"`
	FilterAST *refmodel.Cond   `json:"filterast,omitempty"`
	KeyAST    *refmodel.Cond   `json:"keyast,omitempty"`
	UpdAST    *refmodel.Update `json:"updast,omitempty"`
}

// Operation kinds.
const (
	OpPut         = "put"
	OpGet         = "get"
	OpUpdate      = "update"
	OpDelete      = "delete"
	OpQuery       = "query"
	OpScan        = "scan"
	OpBatchWrite  = "batchwrite"
	OpBatchGet    = "batchget"
	OpTransact    = "transact"
	OpCreateTable = "createtable"
	OpDeleteTable = "deletetable"
	OpDescribe    = "describe"
	OpUpdateTable = "updatetable"
	OpAddTable    = "addtable" // helper AddTable(name, hash, range)
	OpAddIndex    = "addindex" // helper AddIndex
	OpClearTable  = "cleartable"
	OpEmulate     = "emulate"
	OpForceOn     = "forceon"
	OpForceOff    = "forceoff"
	OpSetMetrics  = "setmetrics" // helper SetItemCollectionMetrics (an entry for Table when Table is set, none otherwise)
)

// IndexDesc is the normalised description of an index.
type IndexDesc struct {
	Name   string   `json:"name"`
	Local  bool     `json:"local,omitempty"`
	Hash   string   `json:"hash"`
	Range  string   `json:"range,omitempty"`
	Count  int64    `json:"count"`
	HasCnt bool     `json:"hascnt"`           // whether the adapter reported an ItemCount at all
	Proj   string   `json:"proj,omitempty"`   // reported ProjectionType ("" when the description has none)
	NonKey []string `json:"nonkey,omitempty"` // reported NonKeyAttributes
	// EmptyKeyed (model side only): how many of the Count items have an empty string / binary as the key of this
	// hash-only index (see the listed finding "empty-hash-only-index-key")
	EmptyKeyed int64 `json:"-"`
}

// Desc is the normalised TableDescription.
type Desc struct {
	Name    string      `json:"name"`
	Hash    string      `json:"hash"`
	Range   string      `json:"range,omitempty"`
	Count   int64       `json:"count"`
	Indexes []IndexDesc `json:"indexes,omitempty"` // sorted by name
}

// Error / outcome classes.
const (
	ClsOK          = "ok"
	ClsValidation  = "Validation"
	ClsCondFailed  = "CondFailed"
	ClsNotFound    = "NotFound"
	ClsInUse       = "InUse"
	ClsInternal    = "Internal"
	ClsForced      = "Forced"
	ClsParam       = "ParamValidation" // SDK-side required-field validation (v1 input.Validate)
	ClsUnsupported = "Unsupported"     // interpreter.ErrUnsupportedFeature returned as error
	ClsSyntax      = "Syntax"          // interpreter.ErrSyntaxError returned as bare error
	ClsRejectPanic = "RejectPanic"     // documented panic carrying ErrSyntaxError/ErrUnsupportedFeature
	ClsRuntime     = "RuntimePanic"    // any other panic
	ClsNotImpl     = "NotImplemented"  // adapter has no such method
	ClsCancelled   = "Cancelled"       // the call reported that its context was done (context.Canceled / DeadlineExceeded)
)

// Outcome is the normalised result of an operation.
type Outcome struct {
	Class        string                `json:"class"`
	Msg          string                `json:"msg,omitempty"`
	Site         string                `json:"site,omitempty"` // panic call site inside minidyn
	Item         val.Item              `json:"item,omitempty"` // Get item / Update attributes / Delete ALL_OLD; nil = none
	Items        []val.Item            `json:"items,omitempty"`
	Count        int64                 `json:"count,omitempty"`
	LastKey      val.Item              `json:"lastkey,omitempty"`
	LastKeyEmpty bool                  `json:"lastkeyempty,omitempty"` // LastEvaluatedKey was a non-nil map without entries
	Desc         *Desc                 `json:"desc,omitempty"`
	Unproc       []BatchEntry          `json:"unproc,omitempty"`
	Resp         map[string][]val.Item `json:"resp,omitempty"`
	UnprocK      map[string][]val.Item `json:"unprock,omitempty"`
	CCFItem      val.Item              `json:"ccfitem,omitempty"`
	HasCCF       bool                  `json:"hasccf,omitempty"`
	// ErrNotAPI: the call failed with an error class of the service (validation, condition, resource ...) but the
	// error value is not one a caller of that SDK can match: no awserr.Error (v1) / no smithy.APIError (v2)
	ErrNotAPI bool `json:"errnotapi,omitempty"`
	RespNil   bool `json:"respnil,omitempty"`  // output struct was nil although err==nil
	OutAlong  bool `json:"outalong,omitempty"` // non-nil output returned together with an error
}

// OK reports success.
func (o Outcome) OK() bool { return o.Class == ClsOK }

// Rejected reports that the call did not succeed in a "clean" way: error or documented panic.
func (o Outcome) Rejected() bool {
	return o.Class != ClsOK && o.Class != ClsRuntime
}

// Short is a compact rendering for witnesses.
func (o Outcome) Short() string {
	b, _ := json.Marshal(o)
	s := string(b)
	if len(s) > 600 {
		s = s[:600] + "…"
	}
	return s
}

// Client is the abstract client both adapters implement.
type Client interface {
	Name() string
	Do(op Op) Outcome
	// Raw returns the underlying *client.Client (for C14/C20 which need SDK structures).
	Raw() interface{}
}

// NormalizeEmpty maps nil/empty items to nil so "no item" compares equal across adapters.
func NormalizeEmpty(it val.Item) val.Item {
	if len(it) == 0 {
		return nil
	}
	return it
}

// SortIndexDescs sorts by name.
func SortIndexDescs(d []IndexDesc) {
	sort.Slice(d, func(i, j int) bool { return d[i].Name < d[j].Name })
}

// ItemsCanon renders a sequence of items canonically.
func ItemsCanon(items []val.Item) string {
	parts := make([]string, len(items))
	for i, it := range items {
		parts[i] = it.Canon()
	}
	return "[" + strings.Join(parts, " ; ") + "]"
}

// ItemsSetCanon renders a multiset of items canonically (order-insensitive).
func ItemsSetCanon(items []val.Item) string {
	parts := make([]string, len(items))
	for i, it := range items {
		parts[i] = it.Canon()
	}
	sort.Strings(parts)
	return "{" + strings.Join(parts, " ; ") + "}"
}

// String renders an op compactly.
func (op Op) String() string {
	b, err := json.Marshal(op)
	if err != nil {
		return fmt.Sprintf("%#v", op)
	}
	return string(b)
}

// NilName as the target of an ExpressionAttributeNames entry: a nil pointer through the SDK v1 adapter, the empty
// string through the SDK v2 adapter (whose map holds strings)
const NilName = "\x00nil"

// strpSet is the pointer to an optional expression text: nil for an empty one unless set asks for the text itself
func strpSet(s string, set bool) *string {
	if s == "" && !set {
		return nil
	}
	return &s
}

// condExpr is the ConditionExpression pointer of a write: nil for "no condition" unless CondSet asks for the
// (possibly empty) text itself.
func condExpr(op Op) *string {
	if op.Cond == "" && !op.CondSet {
		return nil
	}
	c := op.Cond
	return &c
}

// DoneContext returns a context that is already done.
func DoneContext(how string) (context.Context, context.CancelFunc) {
	if how == "expired" {
		return context.WithDeadline(context.Background(), time.Unix(0, 0))
	}
	ctx, cancel := context.WithCancel(context.Background())
	cancel()
	return ctx, cancel
}

// updExpr is the UpdateExpression pointer of an update: nil when the request carries none at all.
func updExpr(op Op) *string {
	if op.NoUpdate && op.Update == "" {
		return nil
	}
	u := op.Update
	return &u
}
